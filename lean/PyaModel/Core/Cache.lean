import PyaModel.Generated.CacheVariant
/-!
# Core/Cache — model for C10 (determinism, independence of earlier checks)

State of the code modelled: /repo after a944eb3, 24b231d, da6a3f3, 5fee81d, e01ac16, 99947e4,
c06bd97 (seven C10 repairs); `definition-node-order` and `protocol-cache-assumptions` are not applied.

**Model A — order.** Every place in the anchored files where a `set` is iterated on the way to a
diagnostic text or to a `Value` is a function of the *iteration order* of that set (`order`, a list:
some permutation of the set's elements) and of the rest of its input. The sites (found by the AST
scan, `Generated/SetSites.lean`) fall into a few kinds; each kind is one function here:

* `siteExtraKwargs`                     signature.py `Signature.bind_arguments`: the extra names in
                                        call order; the set `keywords_consumed` is only asked `in`
* `siteKeysLeft`                        format_strings.py `accept_mapping_args_no_mvv`: template
                                        order; the set `seen_keys` is only asked `in`
* `siteProtocolStr`                     type_object.py `TypeObject.__str__`: `sorted(members)`
* `siteProtocolFirstFail`               type_object.py `_is_compatible_with_protocol`: loop over
                                        `sorted(self.protocol_members)`, first failing member
* `siteOrNarrow`                        stacked_scopes.py `OrConstraint.apply`
                                        (`list(dict.fromkeys(constraints))`: no set any more) +
                                        `Constraint.apply_to_value` (`one_of`) + `_constrain_value`
* `siteDisallowedKinds`                 signature.py `Signature.validate` (`", ".join` over a set)
* `siteFirstSuccess`                    type_object.py `TypeObject.can_assign`: loop over
                                        `other.artificial_bases`, first non-error result wins
* `siteTryDefNodes`                     stacked_scopes.py `FunctionScope.suppressing_subscope`
                                        (`list(nodes - old_defn_nodes.get(key, set()))`) +
                                        `uniq_chain` + `unite_values`
* `siteDefNodes`                        stacked_scopes.py `_get_value_from_nodes` over the frozenset
                                        `_ConstrainedValue.definition_nodes` (`_resolve_value`) and
                                        over `name_to_all_definition_nodes[v]` (`get_local`)
* `siteOrBound`                         value.py `intersect_bounds_maps` (`tuple(bound_lists)` /
                                        `next(iter(bound_lists))`)
* `siteAny`, `siteAll`                  `any(... for x in S)` / `for x in S: if …: return True`
* `siteSetBuild`                        a set / `|=` built from the iteration (result read as a set)
* `siteLookupMap`                       a dict built by a comprehension over a set, read by key
* `siteSingleton`                       `if len(S) == 1: next(iter(S))`
* `siteSortedJoin`                      `", ".join(... for c in sorted(S))`
* `siteEmit`                            `for x in S: show_error(...)` (result read as a set: the
                                        rendered diagnostics are sorted by position)
* `closureRun`                          worklist `while pending: x = pending.pop(); …`
                                        (checker.py `_get_recursive_typeshed_bases`,
                                        stacked_scopes.py `FunctionScope._resolve_origin`)
* `old…` (end of part A)                the seven repaired sites as they were (regression documentation)

**Model B — history.** Memo tables as explicit state (`memoStep`: checker.py `make_type_object`,
arg_spec.py `_cached_get_argspec`, `_get_generic_bases_cached`, annotations.py `get_type_alias`)
and the protocol-compatibility check of type_object.py `TypeObject.can_assign` with the
recursion guard `ctx.assumed_compatibilities` (checker.py:228‥242) and `_protocol_positive_cache`
(`check`): cache key = (self_val, other VALUE, exclude-Any mode) — not the assumptions in force;
guard key = (self TypeObject, other TypeObject). A positive answer is a bounds map; the cache holds
the maps themselves (`St.cache : List (CKey × BMap)`), `unify_bounds_maps` is the pure `unifyBM`.

Not modelled: how `get_attribute_from_value` finds members and how `expected.can_assign(actual)`
decides one slot (that is the value kernel, C03/C04) — a *world* lists, per (protocol, variant of its
generic arguments, value), the members and per member the slot checks as atoms (`const b`, `anyOk` =
succeeds iff Any is not excluded, `bound tv b` = accepted with a bound on a type variable, `sub p a v` = a nested protocol check);
the kinds of bounds (tokens only) and the solving of type variables from a bounds map; the `artificial_bases` retry inside `check` (values with artificial bases are int/float
subclasses; it is the separate order site `siteFirstSuccess`); `TypedValue._type_object`.

Only import: the generated three-flag table `Generated/CacheVariant.lean` (no imports itself), so that
the model follows the variant of the cache the live source has.
-/
namespace Pya.C10

/-! ## Model A — order sites -/

/-- `", ".join(map(repr, names))` for strings without quotes/backslashes. -/
def joinRepr (names : List String) : String :=
  ", ".intercalate (names.map fun s => "'" ++ s ++ "'")

/-- `", ".join(names)`. -/
def joinPlain (names : List String) : String := ", ".intercalate names

/-- Insertion into a sorted list. -/
def insBy {α : Type} (le : α → α → Bool) (a : α) : List α → List α
  | [] => [a]
  | b :: l => if le a b then a :: b :: l else b :: insBy le a l

/-- `sorted(S)` w.r.t. `le`. -/
def isortBy {α : Type} (le : α → α → Bool) : List α → List α
  | [] => []
  | a :: l => insBy le a (isortBy le l)

/-- Python's `str` order (code points; the names used are ASCII identifiers). -/
def strLe (a b : String) : Bool := decide (a ≤ b)

def natLe (a b : Nat) : Bool := decide (a ≤ b)

/-- `sorted(S)` on character codes. -/
def isort (l : List Nat) : List Nat := isortBy natLe l

/-- The message of signature.py `Signature.bind_arguments` for the extra keyword names, in the order
given. `none`: no error from this site. -/
def extraKwargsMsg (names : List String) : Option String :=
  if names.isEmpty then none
  else if names.length == 1 then some ("Got an unexpected keyword argument " ++ joinRepr names)
  else some ("Got unexpected keyword arguments " ++ joinRepr names)

/-- signature.py `Signature.bind_arguments` after a944eb3:
`extra_kwargs = [key for key in actual_args.keywords if key not in keywords_consumed]` —
`keywords`: the dict's keys in call order; `consumed`: the set `keywords_consumed` in its iteration
order (only membership is asked). -/
def siteExtraKwargs (keywords : List String) (consumed : List String) : Option String :=
  extraKwargsMsg (keywords.filter fun k => !consumed.contains k)

/-- The message of format_strings.py `accept_mapping_args_no_mvv` for the keys without a value. -/
def keysLeftMsg (names : List String) (nonLiterals : Bool) : Option String :=
  if !names.isEmpty && !nonLiterals then some ("No value specified for keys " ++ joinPlain names)
  else none

/-- Insertion-ordered de-duplication (`unite_values`' dict of hashable values, `uniq_chain`, the keys
of a dict filled in order). -/
def dedup {α : Type} [BEq α] : List α → List α
  | [] => []
  | a :: l => a :: (dedup l).filter (fun b => !(b == a))

/-- format_strings.py after 24b231d:
`keys_left = [key for key in cs_map if key is not None and key not in seen_keys]` — `template`: the
mapping keys of the template in order (`cs_map` is a dict: first occurrences); `seen`: the set
`seen_keys` in its iteration order (only membership is asked). -/
def siteKeysLeft (template : List String) (seen : List String) (nonLiterals : Bool) : Option String :=
  keysLeftMsg ((dedup template).filter fun k => !seen.contains k) nonLiterals

/-- type_object.py `TypeObject.__str__` after da6a3f3: the members are listed `sorted`. `order` is
the iteration order of the set `protocol_members`. -/
def siteProtocolStr (base : String) (isProtocol : Bool) (order : List String) : String :=
  if isProtocol then base ++ " (Protocol with members " ++ joinRepr (isortBy strLe order) ++ ")" else base

/-- signature.py `Signature.validate`: `", ".join(kind.name for kind in disallowed_previous)`. -/
def siteDisallowedKinds (order : List String) : String := joinPlain order

/-- What `_is_compatible_with_protocol` finds for one member. -/
inductive MemberOutcome | ok | missing | conflict
  deriving DecidableEq, Repr, Inhabited

/-- The first line of the `CanAssignError` for one member (type_object.py:191‥198). -/
def failText (other m : String) : MemberOutcome → Option String
  | .ok => none
  | .missing => some (other ++ " has no attribute '" ++ m ++ "'")
  | .conflict => some ("Value of protocol member '" ++ m ++ "' conflicts")

/-- type_object.py `_is_compatible_with_protocol` after da6a3f3:
`for member in sorted(self.protocol_members):` … return the first `CanAssignError` (its first line),
or `none` = compatible. `order` is the iteration order of the set. -/
def siteProtocolFirstFail (other : String) (outcome : String → MemberOutcome) (order : List String) :
    Option String :=
  (isortBy strLe order).findSome? fun m => failText other m (outcome m)

/-- type_object.py `TypeObject.can_assign` :155‥161: `for base in other.artificial_bases:` first
non-error sub-result replaces the error. -/
def siteFirstSuccess {α β : Type} (attempt : α → Option β) (order : List α) : Option β :=
  order.findSome? attempt

/-- `any(p(x) for x in S)`, `for x in S: if p(x): return True`. -/
def siteAny {α : Type} (p : α → Bool) (order : List α) : Bool := order.any p

/-- `all(p(x) for x in S)`. -/
def siteAll {α : Type} (p : α → Bool) (order : List α) : Bool := order.all p

/-- `{f(x) for x in S if p(x)}`, `result |= f(x)`: read as a set (membership). -/
def siteSetBuild {α β : Type} (p : α → Bool) (f : α → β) (order : List α) : List β :=
  (order.filter p).map f

/-- `{k: f(k) for k in S}` read by key (`d[k]`, `d.get(k)`, `substitute_typevars(d)`). -/
def siteLookupMap {κ ν : Type} [BEq κ] (f : κ → ν) (order : List κ) (k : κ) : Option ν :=
  (order.map fun k => (k, f k)).lookup k

/-- `if len(S) == 1: x = next(iter(S)) else: default`. -/
def siteSingleton {α : Type} (default : α) (order : List α) : α :=
  match order with
  | [x] => x
  | _ => default

/-- format_strings.py `_parse_replacement_field`: `", ".join(f"'{c}'" for c in sorted(allowed))`. -/
def siteSortedJoin (order : List Nat) : List Nat := isort order

/-- `for x in S: … show_error(…)`: the failures emitted (read as a set). -/
def siteEmit {α φ : Type} (emit : α → Option φ) (order : List α) : List φ := order.filterMap emit

/-- A union member as far as `isinstance` narrowing looks at it: `Any` or `TypedValue(cls)`. -/
inductive Member | any | typed (c : Nat)
  deriving DecidableEq, Repr, Inhabited

/-- stacked_scopes.py `Constraint.apply_to_value`, `is_instance`, positive, on one member
(`sub a b` = `issubclass(a, b)`). -/
def applyIsInstance (sub : Nat → Nat → Bool) (c : Nat) : Member → List Member
  | .any => [.typed c]
  | .typed t => if sub t c then [.typed t] else if sub c t then [.typed c] else []

/-- stacked_scopes.py `OrConstraint.apply` after 5fee81d yields one `one_of` constraint whose list is
`list(dict.fromkeys(constraints))`: the operands in source order (constraints hash by identity, so
nothing is merged); `apply_to_values`: for each member of the flattened value, for each constraint
in that list, the members it leaves; `unite_values` de-duplicates keeping the first occurrence.
No set is iterated any more: `tests` is the operand order. -/
def siteOrNarrow (sub : Nat → Nat → Bool) (vals : List Member) (tests : List Nat) : List Member :=
  dedup (vals.flatMap fun v => tests.flatMap fun c => applyIsInstance sub c v)

/-- `suppressing_subscope`: the definition nodes after `try:`/`with` are those from before the block
followed by `list(nodes - old)` = the block's own assignments in set order (`order`); `uniq_chain`
and `unite_values` keep first occurrences. Values are abstract tokens. -/
def siteTryDefNodes (pre : List Nat) (order : List Nat) : List Nat := dedup (pre ++ order)

/-- stacked_scopes.py `FunctionScope._get_value_from_nodes` fed with a set of definition nodes:
`_resolve_value` passes `_ConstrainedValue.definition_nodes` (a frozenset built by
`add_constraint` from the variable's current definition nodes), `get_local` passes
`name_to_all_definition_nodes[varname]` for references without a node. The values of the nodes, in
set order (`order`), are flattened, constrained member by member (`keep`) and united. -/
def siteDefNodes (keep : Nat → Bool) (order : List (List Nat)) : List Nat :=
  dedup ((order.flatMap id).filter keep)

/-- name_check_visitor.py `_constraint_from_compare_op` (`x in <set literal>`) after c06bd97: a set
payload is `sorted(other_val, key=lambda val: (type(val).__name__, repr(val)))` before `InPredicate`
builds `unite_values(*[KnownValue(v) for v in pattern_vals if …])`; a `str` variable is narrowed to
`Literal[…]` listing the members sorted (`order` = the iteration order of the set object; for `str`
members of identifier shape the key order is the string order). -/
def siteInSet (order : List String) : String := "Literal[" ++ joinRepr (isortBy strLe order) ++ "]"

/-- value.py `TypedValue.__str__` after 99947e4: `stringify_object(self.typ)`; the per-instance
`_type_object` (`cached`: filled in by an earlier `can_assign`) is not consulted. -/
def siteTypedValueStr (_cached : Bool) (base : String) (_members : List String) : String := base

/-- value.py `intersect_bounds_maps`, per type variable: `[OrBound(tuple(S))] if len(S) > 1 else
next(iter(S))`; an `OrBound` is modelled as the list of its alternatives. -/
def siteOrBound (order : List (List Nat)) : List (List (List Nat)) :=
  if order.length > 1 then [order] else
  match order with
  | [b] => b.map fun x => [[x]]
  | _ => []

/-- Take the element at position `i` out of a list (`set.pop()` takes *some* element). -/
def removeAt {α : Type} : Nat → List α → Option (α × List α)
  | _, [] => none
  | 0, x :: l => some (x, l)
  | i + 1, x :: l => (removeAt i l).map fun yr => (yr.1, x :: yr.2)

/-- Worklist closure: `while pending: x = pending.pop(); if x in seen: continue; seen.add(x);
result |= succ(x); pending |= succ(x)`. `choice` = which element `pop()` takes at this step
(position in the pending list, modulo its length). State: (seen, pending, result). -/
def closureStep (succ : Nat → List Nat) (choice : Nat) (st : List Nat × List Nat × List Nat) :
    List Nat × List Nat × List Nat :=
  match removeAt (choice % st.2.1.length) st.2.1 with
  | none => st
  | some (x, pending') =>
    if st.1.contains x then (st.1, pending', st.2.2)
    else (x :: st.1, pending' ++ (succ x).filter (fun y => !pending'.contains y),
          st.2.2 ++ (succ x).filter (fun y => !st.2.2.contains y))

def closureRun (succ : Nat → List Nat) (start : Nat) (choices : List Nat) :
    List Nat × List Nat × List Nat :=
  choices.foldl (fun st c => closureStep succ c st) ([], [start], [])

/-! ### Regression documentation: the repaired sites as they were before the fixes

Functions of the iteration order of the set the old code iterated. They are not the model of the
code under check; the `old…_depends` theorems of Props/C10.lean record why the repairs were needed,
and the corpus keeps the witnesses so that a re-appearance is reported. -/

/-- signature.py before a944eb3: `", ".join(map(repr, set(keywords) - consumed))`. -/
def oldExtraKwargs (order : List String) : Option String := extraKwargsMsg order

/-- format_strings.py before 24b231d: `', '.join(keys_left)` over a set. -/
def oldKeysLeft (order : List String) (nonLiterals : Bool) : Option String := keysLeftMsg order nonLiterals

/-- type_object.py before da6a3f3: members in set order. -/
def oldProtocolStr (base : String) (order : List String) : String :=
  base ++ " (Protocol with members " ++ joinRepr order ++ ")"

def oldProtocolFirstFail (other : String) (outcome : String → MemberOutcome) (order : List String) :
    Option String :=
  order.findSome? fun m => failText other m (outcome m)

/-- predicates.py / name_check_visitor.py before c06bd97: the members in set order. -/
def oldInSet (order : List String) : String := "Literal[" ++ joinRepr order ++ "]"

/-- value.py before 99947e4: `TypedValue.__str__` printed the cached TypeObject if there was one. -/
def oldTypedValueStr (cached : Bool) (base : String) (members : List String) : String :=
  if cached then siteProtocolStr base true members else base

/-- stacked_scopes.py before 5fee81d: `list(set(constraints))`. -/
def oldOrNarrow (sub : Nat → Nat → Bool) (vals : List Member) (order : List Nat) : List Member :=
  siteOrNarrow sub vals order

/-! ## Model B — memo tables -/

/-- One memoised lookup. `q`: the full query (the cache key is `key q`); `hashable`: `key in cache`
does not raise; `f`: the uncached computation (`none` = nothing to cache, returned as is);
`fallback`: what is returned for an unhashable key (checker.py:135 computes, arg_spec.py:1056 returns
`{}`). Returns (answer, new table, `hit`). -/
def memoStep {Q κ ν : Type} [BEq κ] (key : Q → κ) (hashable : κ → Bool) (f : Q → Option ν)
    (fallback : Q → Option ν) (tbl : List (κ × ν)) (q : Q) : Option ν × List (κ × ν) × Bool :=
  if !hashable (key q) then (fallback q, tbl, false)
  else match tbl.lookup (key q) with
    | some v => (some v, tbl, true)
    | none =>
      match f q with
      | some v => (some v, (key q, v) :: tbl, false)
      | none => (none, tbl, false)

/-- The table after a history of queries. -/
def memoRun {Q κ ν : Type} [BEq κ] (key : Q → κ) (hashable : κ → Bool) (f fallback : Q → Option ν)
    (tbl : List (κ × ν)) (h : List Q) : List (κ × ν) :=
  h.foldl (fun t q => (memoStep key hashable f fallback t q).2.1) tbl

/-! ## Model B — protocol compatibility with recursion guard and positive cache -/

abbrev Pid := Nat
abbrev Vid := Nat

/-- A bounds map (`BoundsMap = Mapping[TypeVarLike, Sequence[Bound]]`): per type variable, in
insertion order, the list of bounds (tokens). A positive `can_assign` answer *is* a bounds map. -/
abbrev BMap := List (Nat × List Nat)

/-- `result.setdefault(tv, []).extend(bounds)` on an immutable map: the entry's list is a new list. -/
def bmAdd (tv : Nat) (bs : List Nat) : BMap → BMap
  | [] => [(tv, bs)]
  | (t, l) :: m => if t == tv then (t, l ++ bs) :: m else (t, l) :: bmAdd tv bs m

/-- The inner loop of `unify_bounds_maps`: `for tv, bounds in bounds_map.items(): …`. -/
def unify2 (acc m : BMap) : BMap := m.foldl (fun r e => bmAdd e.1 e.2 r) acc

/-- value.py `unify_bounds_maps`: `result = {}`, then every map is merged into it. It is a function
of its arguments only and returns a new map: no argument (in particular no map stored in a cache)
is changed. That Python's function is as pure as this one is what the correspondence stream
`unify` and the cache snapshots of the harness check. -/
def unifyBM (ms : List BMap) : BMap := ms.foldl unify2 []

/-- One slot check `expected.can_assign(actual, ctx)` inside a protocol member. -/
inductive Atom
  | const (b : Bool)          -- decided without Any and without protocols, no bounds
  | anyOk                     -- `actual` is Any: accepted unless `ctx.should_exclude_any()`
  | bound (tv b : Nat)        -- `TypeVarValue(tv).can_assign(actual)`: accepted, contributes a bound on `tv`
  | sub (p : Pid) (a : Nat) (v : Vid)   -- `GenericValue(p, args_a).can_assign(v)`: nested protocol check
  deriving DecidableEq, Repr, Inhabited

/-- The world: for (protocol class, variant of its generic arguments, value) the members in
iteration order, each a conjunction of slot checks evaluated left to right; `tobj v` = the
TypeObject of value `v` (several values can share one: `KnownValue(C())`, `TypedValue(C)`). Pairs
not listed have the single member `[const false]` ("has no attribute"). -/
structure World where
  reqs : List ((Pid × Nat × Vid) × List (List Atom))
  tobjs : List (Vid × Nat)
  deriving Repr, Inhabited

def World.req (W : World) (p : Pid) (a : Nat) (v : Vid) : List (List Atom) :=
  (W.reqs.lookup (p, a, v)).getD [[.const false]]

def World.tobj (W : World) (v : Vid) : Nat := (W.tobjs.lookup v).getD v

/-- Cache key after e01ac16: `(self_val, other_val, ctx.should_exclude_any())`, here (mode, variant
of the generic arguments, protocol, other value). -/
abbrev CKey := Bool × Nat × Pid × Vid

/-- Checker state shared by all checks of one process: `_protocol_positive_cache` of every protocol
TypeObject *with its content* (key ↦ the bounds map that was stored) and
`Checker.assumed_compatibilities`. -/
structure St where
  cache : List (CKey × BMap) := []
  stack : List (Pid × Nat) := []
  deriving Repr, Inhabited, DecidableEq

/-- The result of a `can_assign`: `none` = `CanAssignError`, `some bm` = the bounds map. -/
abbrev Ans := Option BMap

/-- One slot. `rec` is the nested `TypeObject.can_assign`. -/
def evalAtom (rec : St → Pid → Nat → Vid → Ans × St) (ex : Bool) (st : St) : Atom → Ans × St
  | .const b => (if b then some [] else none, st)
  | .anyOk => (if ex then none else some [], st)
  | .bound tv b => (some [(tv, [b])], st)
  | .sub p a v => rec st p a v

/-- The slots of one member, left to right, stopping at the first error; the bounds maps of the
slots are collected (`bounds_maps.append(can_assign)`). -/
def evalAtoms (rec : St → Pid → Nat → Vid → Ans × St) (ex : Bool) : St → List Atom → Option (List BMap) × St
  | st, [] => (some [], st)
  | st, a :: as =>
    let r := evalAtom rec ex st a
    match r.1 with
    | none => (none, r.2)
    | some m =>
      let r2 := evalAtoms rec ex r.2 as
      (r2.1.map (m :: ·), r2.2)

/-- `_is_compatible_with_protocol`: the members in order, return at the first error; the map of a
member is `unify_bounds_maps` of its slots' maps. -/
def evalMembers (rec : St → Pid → Nat → Vid → Ans × St) (ex : Bool) :
    St → List (List Atom) → Option (List BMap) × St
  | st, [] => (some [], st)
  | st, m :: ms =>
    let r := evalAtoms rec ex st m
    match r.1 with
    | none => (none, r.2)
    | some bms =>
      let r2 := evalMembers rec ex r.2 ms
      (r2.1.map (unifyBM bms :: ·), r2.2)

/-- Whether a positive answer is stored only when no recursion-guard assumption is in force
(`not ctx.has_assumed_compatibilities()`, /repo 5ad1557): read off the live source by `translate`
(`Generated/CacheVariant.lean`); `true` for the code under check. -/
def topOnly : Bool := Gen.cacheTopOnly

/-- type_object.py `TypeObject.can_assign`, protocol branch (after e01ac16 and 5ad1557). `ex` =
`ctx.should_exclude_any()`. The answer `unify_bounds_maps(bounds_maps)` is what a later hit returns;
it is stored — after the own assumption has been popped — only if no other assumption is in force
(`topOnly`), i.e. only for top-level queries. Fuel: Python recurses until the guard fires. -/
def check (W : World) (ex : Bool) : Nat → St → Pid → Nat → Vid → Ans × St
  | 0, st, _, _, _ => (none, st)
  | n + 1, st, p, a, v =>
    match st.cache.lookup (ex, a, p, v) with
    | some bm => (some bm, st)                                       -- :148-151 cache hit
    | none =>
      if st.stack.contains (p, W.tobj v) then (some [], st)          -- :153-154 guard: `{}`
      else
        let st1 := { st with stack := st.stack ++ [(p, W.tobj v)] }  -- :155 assume_compatibility
        let r := evalMembers (check W ex n) ex st1 (W.req p a v)     -- :156
        let st2 := { r.2 with stack := r.2.stack.dropLast }          -- checker.py pop
        match r.1 with
        | some bms =>
          (some (unifyBM bms),
            if topOnly && !st2.stack.isEmpty then st2                -- has_assumed_compatibilities(): not stored
            else { st2 with cache := ((ex, a, p, v), unifyBM bms) :: st2.cache })
        | none => (none, st2)

/-- A top-level query of a history. -/
structure Query where
  ex : Bool
  p : Pid
  a : Nat
  v : Vid
  deriving DecidableEq, Repr, Inhabited

/-- The checker state after a history of top-level queries. -/
def runHist (W : World) (fuel : Nat) (st : St) (h : List Query) : St :=
  h.foldl (fun s q => (check W q.ex fuel s q.p q.a q.v).2) st

/-- The answers along a history (for the driver). -/
def answers (W : World) (fuel : Nat) : St → List Query → List Ans
  | _, [] => []
  | st, q :: h => let r := check W q.ex fuel st q.p q.a q.v; r.1 :: answers W fuel r.2 h

/-- The answer to `q` after history `h` in a fresh process. -/
def answerAfter (W : World) (fuel : Nat) (h : List Query) (q : Query) : Ans :=
  (check W q.ex fuel (runHist W fuel {} h) q.p q.a q.v).1

/-- The answer to `q` from a fresh checker. -/
def answerFresh (W : World) (fuel : Nat) (q : Query) : Ans := answerAfter W fuel [] q

/-- What the call machinery does with the protocol's bounds map: it is unified with the bounds the
other arguments of the call contribute (`extra`), e.g. `pow(x, 2)`: the map of
`_SupportsPow2[_E, _T_co] ← Fraction` with `Literal[2] <= _E`. The state is not an argument: a
unification cannot reach into the cache. -/
def callBounds (ans : Ans) (extra : BMap) : Ans := ans.map fun bm => unifyBM [bm, extra]

/-! ### Variants of the cache key

`check2 W modeKey argKey topOnly`: `false false false` is the code before e01ac16 (key = the other
value only), `true true false` the code before 5ad1557 (answers cached also while an assumption is
in force): regression documentation; `true true true` is `check`. -/

def check2 (W : World) (modeKey argKey topOnly' : Bool) (ex : Bool) :
    Nat → St → Pid → Nat → Vid → Ans × St
  | 0, st, _, _, _ => (none, st)
  | n + 1, st, p, a, v =>
    match st.cache.lookup (modeKey && ex, (if argKey then a else 0), p, v) with
    | some bm => (some bm, st)
    | none =>
      if st.stack.contains (p, W.tobj v) then (some [], st)
      else
        let st1 := { st with stack := st.stack ++ [(p, W.tobj v)] }
        let r := evalMembers (check2 W modeKey argKey topOnly' ex n) ex st1 (W.req p a v)
        let st2 := { r.2 with stack := r.2.stack.dropLast }
        match r.1 with
        | some bms =>
          (some (unifyBM bms), if topOnly' && !st2.stack.isEmpty then st2
                 else { st2 with cache := ((modeKey && ex, (if argKey then a else 0), p, v), unifyBM bms) :: st2.cache })
        | none => (none, st2)

/-- The answers of a variant along a history (for the driver). -/
def answers2 (W : World) (modeKey argKey topOnly : Bool) (fuel : Nat) : St → List Query → List Ans
  | _, [] => []
  | st, q :: h =>
    let r := check2 W modeKey argKey topOnly q.ex fuel st q.p q.a q.v
    r.1 :: answers2 W modeKey argKey topOnly fuel r.2 h

def answerAfter2 (W : World) (modeKey argKey topOnly : Bool) (fuel : Nat) (h : List Query)
    (q : Query) : Ans :=
  let st := h.foldl (fun s q => (check2 W modeKey argKey topOnly q.ex fuel s q.p q.a q.v).2) {}
  (check2 W modeKey argKey topOnly q.ex fuel st q.p q.a q.v).1

/-! ## Model B — process-level state

Some caches outlive every `Checker`: module-level singletons such as `stacked_scopes._empty_constrained`
(its `resolution_cache` is shared by every `FunctionScope` of every check in the process), module-
level dicts, `lru_cache`d functions. They memoise a computation on *objects* (AST nodes, runtime
objects). An object has an address and a content; addresses are reused once an object is freed, so
two different objects of a history can have the same address. A table keyed by `key o` is a
`memoStep` table; what it may be keyed by is the question. -/

/-- An object of the process: its address (`id(o)`) and what the memoised computation reads. -/
structure Obj where
  addr : Nat
  content : Nat
  deriving DecidableEq, Repr, Inhabited

/-- One lookup in a process-level memo table for the pure computation `g` of the content. -/
def procStep (key : Obj → Nat) (g : Nat → Nat) (proc : List (Nat × Nat)) (o : Obj) :
    Option Nat × List (Nat × Nat) :=
  let r := memoStep key (fun _ => true) (fun o => some (g o.content)) (fun _ => none) proc o
  (r.1, r.2.1)

/-- What happens in one process: protocol queries, a new `Checker` (per-Checker state starts empty,
process-level state stays), lookups in the process-level table. -/
inductive Event
  | query (q : Query)
  | newChecker
  | resolve (o : Obj)
  deriving DecidableEq, Repr, Inhabited

/-- The state of the process: the current Checker's state and the process-level table. -/
structure PSt where
  chk : St := {}
  proc : List (Nat × Nat) := []
  deriving Repr, Inhabited

/-- What an event returns. -/
inductive Out
  | ans (a : Ans)
  | val (v : Option Nat)
  | unit
  deriving DecidableEq, Repr, Inhabited

def stepE (W : World) (fuel : Nat) (key : Obj → Nat) (g : Nat → Nat) (s : PSt) : Event → Out × PSt
  | .query q => let r := check W q.ex fuel s.chk q.p q.a q.v; (.ans r.1, { s with chk := r.2 })
  | .newChecker => (.unit, { s with chk := {} })
  | .resolve o => let r := procStep key g s.proc o; (.val r.1, { s with proc := r.2 })

def runE (W : World) (fuel : Nat) (key : Obj → Nat) (g : Nat → Nat) (s : PSt) (h : List Event) : PSt :=
  h.foldl (fun s e => (stepE W fuel key g s e).2) s

/-- What `e` returns after the history `h` of one process. -/
def outAfter (W : World) (fuel : Nat) (key : Obj → Nat) (g : Nat → Nat) (h : List Event) (e : Event) : Out :=
  (stepE W fuel key g (runE W fuel key g {} h) e).1

end Pya.C10
