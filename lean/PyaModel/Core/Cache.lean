/-!
# Core/Cache — model for C10 (determinism, independence of earlier checks)

State of the code modelled: /repo after a944eb3, 24b231d, da6a3f3, 5fee81d, e01ac16 (five of the
seven C10 repairs); `definition-node-order` and `protocol-cache-assumptions` are not applied.

**Model A — order.** Every place in the anchored files where a `set` is iterated on the way to a
diagnostic text or to a `Value` is a function of the *iteration order* of that set (`order`, a list:
some permutation of the set's elements) and of the rest of its input. The sites (found by the AST
scan, `Generated/SetSites.lean`) fall into a few kinds; each kind is one function here:

* `siteExtraKwargs`                     signature.py `Signature.bind_arguments`: the extra names in
                                        call order; the set `keywords_consumed` is only asked `in`
* `siteKeysLeft`                        format_strings.py `accept_mapping_args_no_mvv`: template
                                        order; the set `seen_keys` is only asked `in`
* `siteProtocolStr`                     type_object.py `TypeObject.__str__`: `sorted(members)`
* `siteProtocolFirstFail`               type_object.py `_is_compatible_with_protocol`: loop over
                                        `sorted(self.protocol_members)`, first failing member
* `siteOrNarrow`                        stacked_scopes.py `OrConstraint.apply`
                                        (`list(dict.fromkeys(constraints))`: no set any more) +
                                        `Constraint.apply_to_value` (`one_of`) + `_constrain_value`
* `siteDisallowedKinds`                 signature.py `Signature.validate` (`", ".join` over a set)
* `siteFirstSuccess`                    type_object.py `TypeObject.can_assign`: loop over
                                        `other.artificial_bases`, first non-error result wins
* `siteTryDefNodes`                     stacked_scopes.py `FunctionScope.suppressing_subscope`
                                        (`list(nodes - old_defn_nodes.get(key, set()))`) +
                                        `uniq_chain` + `unite_values`
* `siteDefNodes`                        stacked_scopes.py `_get_value_from_nodes` over the frozenset
                                        `_ConstrainedValue.definition_nodes` (`_resolve_value`) and
                                        over `name_to_all_definition_nodes[v]` (`get_local`)
* `siteOrBound`                         value.py `intersect_bounds_maps` (`tuple(bound_lists)` /
                                        `next(iter(bound_lists))`)
* `siteAny`, `siteAll`                  `any(... for x in S)` / `for x in S: if …: return True`
* `siteSetBuild`                        a set / `|=` built from the iteration (result read as a set)
* `siteLookupMap`                       a dict built by a comprehension over a set, read by key
* `siteSingleton`                       `if len(S) == 1: next(iter(S))`
* `siteSortedJoin`                      `", ".join(... for c in sorted(S))`
* `siteEmit`                            `for x in S: show_error(...)` (result read as a set: the
                                        rendered diagnostics are sorted by position)
* `closureRun`                          worklist `while pending: x = pending.pop(); …`
                                        (checker.py `_get_recursive_typeshed_bases`,
                                        stacked_scopes.py `FunctionScope._resolve_origin`)
* `old…` (end of part A)                the five repaired sites as they were (regression documentation)

**Model B — history.** Memo tables as explicit state (`memoStep`: checker.py `make_type_object`,
arg_spec.py `_cached_get_argspec`, `_get_generic_bases_cached`, annotations.py `get_type_alias`)
and the protocol-compatibility check of type_object.py `TypeObject.can_assign` with the
recursion guard `ctx.assumed_compatibilities` (checker.py:228‥242) and `_protocol_positive_cache`
(`check`): cache key = (self_val, other VALUE, exclude-Any mode) — not the assumptions in force;
guard key = (self TypeObject, other TypeObject).

Not modelled: how `get_attribute_from_value` finds members and how `expected.can_assign(actual)`
decides one slot (that is the value kernel, C03/C04) — a *world* lists, per (protocol, variant of its
generic arguments, value), the members and per member the slot checks as atoms (`const b`, `anyOk` =
succeeds iff Any is not excluded, `sub p a v` = a nested protocol check); bounds maps (only error /
no error); the `artificial_bases` retry inside `check` (values with artificial bases are int/float
subclasses; it is the separate order site `siteFirstSuccess`); `TypedValue._type_object`.

No imports: this file must stay core-only so the driver starts fast.
-/
namespace Pya.C10

/-! ## Model A — order sites -/

/-- `", ".join(map(repr, names))` for strings without quotes/backslashes. -/
def joinRepr (names : List String) : String :=
  ", ".intercalate (names.map fun s => "'" ++ s ++ "'")

/-- `", ".join(names)`. -/
def joinPlain (names : List String) : String := ", ".intercalate names

/-- Insertion into a sorted list. -/
def insBy {α : Type} (le : α → α → Bool) (a : α) : List α → List α
  | [] => [a]
  | b :: l => if le a b then a :: b :: l else b :: insBy le a l

/-- `sorted(S)` w.r.t. `le`. -/
def isortBy {α : Type} (le : α → α → Bool) : List α → List α
  | [] => []
  | a :: l => insBy le a (isortBy le l)

/-- Python's `str` order (code points; the names used are ASCII identifiers). -/
def strLe (a b : String) : Bool := decide (a ≤ b)

def natLe (a b : Nat) : Bool := decide (a ≤ b)

/-- `sorted(S)` on character codes. -/
def isort (l : List Nat) : List Nat := isortBy natLe l

/-- The message of signature.py `Signature.bind_arguments` for the extra keyword names, in the order
given. `none`: no error from this site. -/
def extraKwargsMsg (names : List String) : Option String :=
  if names.isEmpty then none
  else if names.length == 1 then some ("Got an unexpected keyword argument " ++ joinRepr names)
  else some ("Got unexpected keyword arguments " ++ joinRepr names)

/-- signature.py `Signature.bind_arguments` after a944eb3:
`extra_kwargs = [key for key in actual_args.keywords if key not in keywords_consumed]` —
`keywords`: the dict's keys in call order; `consumed`: the set `keywords_consumed` in its iteration
order (only membership is asked). -/
def siteExtraKwargs (keywords : List String) (consumed : List String) : Option String :=
  extraKwargsMsg (keywords.filter fun k => !consumed.contains k)

/-- The message of format_strings.py `accept_mapping_args_no_mvv` for the keys without a value. -/
def keysLeftMsg (names : List String) (nonLiterals : Bool) : Option String :=
  if !names.isEmpty && !nonLiterals then some ("No value specified for keys " ++ joinPlain names)
  else none

/-- Insertion-ordered de-duplication (`unite_values`' dict of hashable values, `uniq_chain`, the keys
of a dict filled in order). -/
def dedup {α : Type} [BEq α] : List α → List α
  | [] => []
  | a :: l => a :: (dedup l).filter (fun b => !(b == a))

/-- format_strings.py after 24b231d:
`keys_left = [key for key in cs_map if key is not None and key not in seen_keys]` — `template`: the
mapping keys of the template in order (`cs_map` is a dict: first occurrences); `seen`: the set
`seen_keys` in its iteration order (only membership is asked). -/
def siteKeysLeft (template : List String) (seen : List String) (nonLiterals : Bool) : Option String :=
  keysLeftMsg ((dedup template).filter fun k => !seen.contains k) nonLiterals

/-- type_object.py `TypeObject.__str__` after da6a3f3: the members are listed `sorted`. `order` is
the iteration order of the set `protocol_members`. -/
def siteProtocolStr (base : String) (isProtocol : Bool) (order : List String) : String :=
  if isProtocol then base ++ " (Protocol with members " ++ joinRepr (isortBy strLe order) ++ ")" else base

/-- signature.py `Signature.validate`: `", ".join(kind.name for kind in disallowed_previous)`. -/
def siteDisallowedKinds (order : List String) : String := joinPlain order

/-- What `_is_compatible_with_protocol` finds for one member. -/
inductive MemberOutcome | ok | missing | conflict
  deriving DecidableEq, Repr, Inhabited

/-- The first line of the `CanAssignError` for one member (type_object.py:191‥198). -/
def failText (other m : String) : MemberOutcome → Option String
  | .ok => none
  | .missing => some (other ++ " has no attribute '" ++ m ++ "'")
  | .conflict => some ("Value of protocol member '" ++ m ++ "' conflicts")

/-- type_object.py `_is_compatible_with_protocol` after da6a3f3:
`for member in sorted(self.protocol_members):` … return the first `CanAssignError` (its first line),
or `none` = compatible. `order` is the iteration order of the set. -/
def siteProtocolFirstFail (other : String) (outcome : String → MemberOutcome) (order : List String) :
    Option String :=
  (isortBy strLe order).findSome? fun m => failText other m (outcome m)

/-- type_object.py `TypeObject.can_assign` :155‥161: `for base in other.artificial_bases:` first
non-error sub-result replaces the error. -/
def siteFirstSuccess {α β : Type} (attempt : α → Option β) (order : List α) : Option β :=
  order.findSome? attempt

/-- `any(p(x) for x in S)`, `for x in S: if p(x): return True`. -/
def siteAny {α : Type} (p : α → Bool) (order : List α) : Bool := order.any p

/-- `all(p(x) for x in S)`. -/
def siteAll {α : Type} (p : α → Bool) (order : List α) : Bool := order.all p

/-- `{f(x) for x in S if p(x)}`, `result |= f(x)`: read as a set (membership). -/
def siteSetBuild {α β : Type} (p : α → Bool) (f : α → β) (order : List α) : List β :=
  (order.filter p).map f

/-- `{k: f(k) for k in S}` read by key (`d[k]`, `d.get(k)`, `substitute_typevars(d)`). -/
def siteLookupMap {κ ν : Type} [BEq κ] (f : κ → ν) (order : List κ) (k : κ) : Option ν :=
  (order.map fun k => (k, f k)).lookup k

/-- `if len(S) == 1: x = next(iter(S)) else: default`. -/
def siteSingleton {α : Type} (default : α) (order : List α) : α :=
  match order with
  | [x] => x
  | _ => default

/-- format_strings.py `_parse_replacement_field`: `", ".join(f"'{c}'" for c in sorted(allowed))`. -/
def siteSortedJoin (order : List Nat) : List Nat := isort order

/-- `for x in S: … show_error(…)`: the failures emitted (read as a set). -/
def siteEmit {α φ : Type} (emit : α → Option φ) (order : List α) : List φ := order.filterMap emit

/-- A union member as far as `isinstance` narrowing looks at it: `Any` or `TypedValue(cls)`. -/
inductive Member | any | typed (c : Nat)
  deriving DecidableEq, Repr, Inhabited

/-- stacked_scopes.py `Constraint.apply_to_value`, `is_instance`, positive, on one member
(`sub a b` = `issubclass(a, b)`). -/
def applyIsInstance (sub : Nat → Nat → Bool) (c : Nat) : Member → List Member
  | .any => [.typed c]
  | .typed t => if sub t c then [.typed t] else if sub c t then [.typed c] else []

/-- stacked_scopes.py `OrConstraint.apply` after 5fee81d yields one `one_of` constraint whose list is
`list(dict.fromkeys(constraints))`: the operands in source order (constraints hash by identity, so
nothing is merged); `apply_to_values`: for each member of the flattened value, for each constraint
in that list, the members it leaves; `unite_values` de-duplicates keeping the first occurrence.
No set is iterated any more: `tests` is the operand order. -/
def siteOrNarrow (sub : Nat → Nat → Bool) (vals : List Member) (tests : List Nat) : List Member :=
  dedup (vals.flatMap fun v => tests.flatMap fun c => applyIsInstance sub c v)

/-- `suppressing_subscope`: the definition nodes after `try:`/`with` are those from before the block
followed by `list(nodes - old)` = the block's own assignments in set order (`order`); `uniq_chain`
and `unite_values` keep first occurrences. Values are abstract tokens. -/
def siteTryDefNodes (pre : List Nat) (order : List Nat) : List Nat := dedup (pre ++ order)

/-- stacked_scopes.py `FunctionScope._get_value_from_nodes` fed with a set of definition nodes:
`_resolve_value` passes `_ConstrainedValue.definition_nodes` (a frozenset built by
`add_constraint` from the variable's current definition nodes), `get_local` passes
`name_to_all_definition_nodes[varname]` for references without a node. The values of the nodes, in
set order (`order`), are flattened, constrained member by member (`keep`) and united. -/
def siteDefNodes (keep : Nat → Bool) (order : List (List Nat)) : List Nat :=
  dedup ((order.flatMap id).filter keep)

/-- value.py `intersect_bounds_maps`, per type variable: `[OrBound(tuple(S))] if len(S) > 1 else
next(iter(S))`; an `OrBound` is modelled as the list of its alternatives. -/
def siteOrBound (order : List (List Nat)) : List (List (List Nat)) :=
  if order.length > 1 then [order] else
  match order with
  | [b] => b.map fun x => [[x]]
  | _ => []

/-- Take the element at position `i` out of a list (`set.pop()` takes *some* element). -/
def removeAt {α : Type} : Nat → List α → Option (α × List α)
  | _, [] => none
  | 0, x :: l => some (x, l)
  | i + 1, x :: l => (removeAt i l).map fun yr => (yr.1, x :: yr.2)

/-- Worklist closure: `while pending: x = pending.pop(); if x in seen: continue; seen.add(x);
result |= succ(x); pending |= succ(x)`. `choice` = which element `pop()` takes at this step
(position in the pending list, modulo its length). State: (seen, pending, result). -/
def closureStep (succ : Nat → List Nat) (choice : Nat) (st : List Nat × List Nat × List Nat) :
    List Nat × List Nat × List Nat :=
  match removeAt (choice % st.2.1.length) st.2.1 with
  | none => st
  | some (x, pending') =>
    if st.1.contains x then (st.1, pending', st.2.2)
    else (x :: st.1, pending' ++ (succ x).filter (fun y => !pending'.contains y),
          st.2.2 ++ (succ x).filter (fun y => !st.2.2.contains y))

def closureRun (succ : Nat → List Nat) (start : Nat) (choices : List Nat) :
    List Nat × List Nat × List Nat :=
  choices.foldl (fun st c => closureStep succ c st) ([], [start], [])

/-! ### Regression documentation: the repaired sites as they were before the fixes

Functions of the iteration order of the set the old code iterated. They are not the model of the
code under check; the `old…_depends` theorems of Props/C10.lean record why the repairs were needed,
and the corpus keeps the witnesses so that a re-appearance is reported. -/

/-- signature.py before a944eb3: `", ".join(map(repr, set(keywords) - consumed))`. -/
def oldExtraKwargs (order : List String) : Option String := extraKwargsMsg order

/-- format_strings.py before 24b231d: `', '.join(keys_left)` over a set. -/
def oldKeysLeft (order : List String) (nonLiterals : Bool) : Option String := keysLeftMsg order nonLiterals

/-- type_object.py before da6a3f3: members in set order. -/
def oldProtocolStr (base : String) (order : List String) : String :=
  base ++ " (Protocol with members " ++ joinRepr order ++ ")"

def oldProtocolFirstFail (other : String) (outcome : String → MemberOutcome) (order : List String) :
    Option String :=
  order.findSome? fun m => failText other m (outcome m)

/-- stacked_scopes.py before 5fee81d: `list(set(constraints))`. -/
def oldOrNarrow (sub : Nat → Nat → Bool) (vals : List Member) (order : List Nat) : List Member :=
  siteOrNarrow sub vals order

/-! ## Model B — memo tables -/

/-- One memoised lookup. `q`: the full query (the cache key is `key q`); `hashable`: `key in cache`
does not raise; `f`: the uncached computation (`none` = nothing to cache, returned as is);
`fallback`: what is returned for an unhashable key (checker.py:135 computes, arg_spec.py:1056 returns
`{}`). Returns (answer, new table, `hit`). -/
def memoStep {Q κ ν : Type} [BEq κ] (key : Q → κ) (hashable : κ → Bool) (f : Q → Option ν)
    (fallback : Q → Option ν) (tbl : List (κ × ν)) (q : Q) : Option ν × List (κ × ν) × Bool :=
  if !hashable (key q) then (fallback q, tbl, false)
  else match tbl.lookup (key q) with
    | some v => (some v, tbl, true)
    | none =>
      match f q with
      | some v => (some v, (key q, v) :: tbl, false)
      | none => (none, tbl, false)

/-- The table after a history of queries. -/
def memoRun {Q κ ν : Type} [BEq κ] (key : Q → κ) (hashable : κ → Bool) (f fallback : Q → Option ν)
    (tbl : List (κ × ν)) (h : List Q) : List (κ × ν) :=
  h.foldl (fun t q => (memoStep key hashable f fallback t q).2.1) tbl

/-! ## Model B — protocol compatibility with recursion guard and positive cache -/

abbrev Pid := Nat
abbrev Vid := Nat

/-- One slot check `expected.can_assign(actual, ctx)` inside a protocol member. -/
inductive Atom
  | const (b : Bool)          -- decided without Any and without protocols
  | anyOk                     -- `actual` is Any: accepted unless `ctx.should_exclude_any()`
  | sub (p : Pid) (a : Nat) (v : Vid)   -- `GenericValue(p, args_a).can_assign(v)`: nested protocol check
  deriving DecidableEq, Repr, Inhabited

/-- The world: for (protocol class, variant of its generic arguments, value) the members in
iteration order, each a conjunction of slot checks evaluated left to right; `tobj v` = the TypeObject of value `v` (several values can share
one: `KnownValue(C())`, `TypedValue(C)`). Pairs not listed have the single member `[const false]`
("has no attribute"). -/
structure World where
  reqs : List ((Pid × Nat × Vid) × List (List Atom))
  tobjs : List (Vid × Nat)
  deriving Repr, Inhabited

def World.req (W : World) (p : Pid) (a : Nat) (v : Vid) : List (List Atom) :=
  (W.reqs.lookup (p, a, v)).getD [[.const false]]

def World.tobj (W : World) (v : Vid) : Nat := (W.tobjs.lookup v).getD v

/-- Checker state shared by all checks of one process: `_protocol_positive_cache` of every protocol
TypeObject — after e01ac16 keyed by `(self_val, other_val, ctx.should_exclude_any())`, here
(mode, variant of the generic arguments, protocol, other value) — and
`Checker.assumed_compatibilities`. -/
structure St where
  cache : List (Bool × Nat × Pid × Vid) := []
  stack : List (Pid × Nat) := []
  deriving Repr, Inhabited, DecidableEq

/-- One slot. `rec` is the nested `TypeObject.can_assign`. -/
def evalAtom (rec : St → Pid → Nat → Vid → Bool × St) (ex : Bool) (st : St) : Atom → Bool × St
  | .const b => (b, st)
  | .anyOk => (!ex, st)
  | .sub p a v => rec st p a v

/-- The slots of one member, left to right, stopping at the first error. -/
def evalAll (rec : St → Pid → Nat → Vid → Bool × St) (ex : Bool) : St → List Atom → Bool × St
  | st, [] => (true, st)
  | st, a :: as =>
    let r := evalAtom rec ex st a
    if r.1 then evalAll rec ex r.2 as else (false, r.2)

/-- `_is_compatible_with_protocol`: the members in order, return at the first error. -/
def evalMembers (rec : St → Pid → Nat → Vid → Bool × St) (ex : Bool) : St → List (List Atom) → Bool × St
  | st, [] => (true, st)
  | st, m :: ms =>
    let r := evalAll rec ex st m
    if r.1 then evalMembers rec ex r.2 ms else (false, r.2)

/-- type_object.py `TypeObject.can_assign`, protocol branch (:146‥167, after e01ac16). `ex` =
`ctx.should_exclude_any()`. A positive answer is cached also while assumptions are in force (the
repair `protocol-cache-assumptions` was not applied). Fuel: Python recurses until the guard fires. -/
def check (W : World) (ex : Bool) : Nat → St → Pid → Nat → Vid → Bool × St
  | 0, st, _, _, _ => (false, st)
  | n + 1, st, p, a, v =>
    if st.cache.contains (ex, a, p, v) then (true, st)              -- :148-151 cache hit
    else if st.stack.contains (p, W.tobj v) then (true, st)         -- :150-151 guard
    else
      let st1 := { st with stack := st.stack ++ [(p, W.tobj v)] }   -- :152 assume_compatibility
      let r := evalMembers (check W ex n) ex st1 (W.req p a v)      -- :153
      let st2 := { r.2 with stack := r.2.stack.dropLast }           -- checker.py:241 pop
      if r.1 then (true, { st2 with cache := (ex, a, p, v) :: st2.cache }) -- :165-166
      else (false, st2)

/-- A top-level query of a history. -/
structure Query where
  ex : Bool
  p : Pid
  a : Nat
  v : Vid
  deriving DecidableEq, Repr, Inhabited

/-- The checker state after a history of top-level queries. -/
def runHist (W : World) (fuel : Nat) (st : St) (h : List Query) : St :=
  h.foldl (fun s q => (check W q.ex fuel s q.p q.a q.v).2) st

/-- The answers along a history (for the driver). -/
def answers (W : World) (fuel : Nat) : St → List Query → List Bool
  | _, [] => []
  | st, q :: h => let r := check W q.ex fuel st q.p q.a q.v; r.1 :: answers W fuel r.2 h

/-- The answer to `q` after history `h` in a fresh process. -/
def answerAfter (W : World) (fuel : Nat) (h : List Query) (q : Query) : Bool :=
  (check W q.ex fuel (runHist W fuel {} h) q.p q.a q.v).1

/-- The answer to `q` from a fresh checker. -/
def answerFresh (W : World) (fuel : Nat) (q : Query) : Bool := answerAfter W fuel [] q

/-! ### Variants of the cache key

`check2 W modeKey argKey topOnly`: `false false false` is the code before e01ac16 (key = the other
value only: regression documentation), `true true false` is `check`, `true true true` additionally
refrains from caching while an assumption is in force (the repair not applied; used to classify a
history dependence as `cacheUnderFailedAssumption`). -/

/-- State of the repaired check: cache entries carry the mode. -/
structure St2 where
  cache : List (Bool × Nat × Pid × Vid) := []
  stack : List (Pid × Nat) := []
  deriving Repr, Inhabited, DecidableEq

def evalAtom2 (rec : St2 → Pid → Nat → Vid → Bool × St2) (ex : Bool) (st : St2) : Atom → Bool × St2
  | .const b => (b, st)
  | .anyOk => (!ex, st)
  | .sub p a v => rec st p a v

def evalAll2 (rec : St2 → Pid → Nat → Vid → Bool × St2) (ex : Bool) : St2 → List Atom → Bool × St2
  | st, [] => (true, st)
  | st, a :: as =>
    let r := evalAtom2 rec ex st a
    if r.1 then evalAll2 rec ex r.2 as else (false, r.2)

def evalMembers2 (rec : St2 → Pid → Nat → Vid → Bool × St2) (ex : Bool) :
    St2 → List (List Atom) → Bool × St2
  | st, [] => (true, st)
  | st, m :: ms =>
    let r := evalAll2 rec ex st m
    if r.1 then evalMembers2 rec ex r.2 ms else (false, r.2)

/-- `check` with the cache keyed additionally by the mode [`modeKey`] and/or by the generic
arguments of the protocol [`argKey`], and/or written only when no assumption is in force
[`topOnly`]. -/
def check2 (W : World) (modeKey argKey topOnly : Bool) (ex : Bool) :
    Nat → St2 → Pid → Nat → Vid → Bool × St2
  | 0, st, _, _, _ => (false, st)
  | n + 1, st, p, a, v =>
    if st.cache.contains (modeKey && ex, (if argKey then a else 0), p, v) then (true, st)
    else if st.stack.contains (p, W.tobj v) then (true, st)
    else
      let st1 := { st with stack := st.stack ++ [(p, W.tobj v)] }
      let r := evalMembers2 (check2 W modeKey argKey topOnly ex n) ex st1 (W.req p a v)
      let st2 := { r.2 with stack := r.2.stack.dropLast }
      if r.1 then
        (true, if topOnly && !st2.stack.isEmpty then st2
               else { st2 with cache := (modeKey && ex, (if argKey then a else 0), p, v) :: st2.cache })
      else (false, st2)

/-- The answers of the repaired check along a history (for the driver). -/
def answers2 (W : World) (modeKey argKey topOnly : Bool) (fuel : Nat) : St2 → List Query → List Bool
  | _, [] => []
  | st, q :: h =>
    let r := check2 W modeKey argKey topOnly q.ex fuel st q.p q.a q.v
    r.1 :: answers2 W modeKey argKey topOnly fuel r.2 h

def answerAfter2 (W : World) (modeKey argKey topOnly : Bool) (fuel : Nat) (h : List Query)
    (q : Query) : Bool :=
  let st := h.foldl (fun s q => (check2 W modeKey argKey topOnly q.ex fuel s q.p q.a q.v).2) {}
  (check2 W modeKey argKey topOnly q.ex fuel st q.p q.a q.v).1

end Pya.C10
