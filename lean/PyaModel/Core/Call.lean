import PyaModel.Core.Sig
import PyaModel.Core.Union
import PyaModel.Core.TypeVar
/-!
# Core/Call — model of call checking after binding (pyanalyze/signature.py)

Follows, branch by branch, for calls without `*`/`**` arguments:

* `Signature.check_call` :1162 / `check_call_preprocessed` :1224 — `preprocess_args` and
  `bind_arguments` are the shared models `litActual` / `pyaBind` (Core/Sig.lean); a binder failure is
  `incompatible_call` and the result is `get_default_return` :1155;
* the Composite `bind_arguments` :802 stores for each parameter (`argValue`): the positional /
  keyword argument itself; `Composite(param.default)` (the *same* object as `param.default`, which is
  what the identity test of `_check_param_type_compatibility` looks at); for `*args` the
  `SequenceValue(tuple, rest)` and for `**kwargs` the `TypedDictValue(unconsumed keywords)` — both
  are `GenericValue`s whose `.args` are `unite_values(members)` (value.py:1177, :1446) or
  `AnyValue(unreachable)` when empty, and the declared type of a variadic parameter is always the
  `GenericValue` built by `translate_vararg_type` (functions.py:346), whose `can_assign` only reads
  `.args` of the other side (value.py:1048), so they are represented by that `GenericValue`;
* `check_call_with_bound_args` :1244 — for a signature with type variables the pre-pass over
  `typevars_of_params` (:1261) collecting bounds maps with `can_assign` (`caB` below: `TypeVarValue`
  :2192 + `make_bounds_map` :2215, `GenericValue` :1042, `SequenceValue` :1214, union on the right
  :105, everything closed through the shared `ca`), `unify_bounds_maps` value.py:2786,
  `resolve_bounds_map` typevar.py:31 (the shared model `Pya.C15.resolveCa`), the
  "Cannot resolve type variables" error, `return_value.substitute_typevars` (shared `subst`); then the
  loop over all bound parameters :1290 with `_check_param_type_compatibility` :629 (substituted
  declared type, the default-value identity exception, one `incompatible_argument` per failing
  parameter, `had_error`);
* `get_default_return` :1155; `bind_self` :1934 and `BoundMethodSignature.check_call` :2581;
  the constructor signature of a class, arg_spec.py:857-936 (`__init__` with the return type replaced
  by the instance type, then `bind_self`).

Not modelled: `*`/`**` arguments (C05's business), `impl` / `evaluator` / `allow_call`
signatures, overloads and union decomposition (`is_overload`), ParamSpec, `Annotated` return
extensions (`_apply_annotated_constraints` is the identity without them), type variables inside a
union or under `type[...]` on the declared side, `__new__`-based constructors, `used_any`.
-/
namespace Pya.C06

/-- `SigParameter` with its annotation; `dflt` = the literal default object. For `*args: T` /
`**kw: T`, `ann` is `T` as written. -/
structure AParam where
  name : String
  kind : Kind
  dflt : Option Obj
  ann : Ty
  deriving Inhabited

def AParam.toParam (p : AParam) : Param := ⟨p.name, p.kind, p.dflt.isSome⟩

/-- `translate_vararg_type` functions.py:346 — the declared type the argument value is checked
against. -/
def AParam.ty (p : AParam) : Ty :=
  match p.kind with
  | .varPos => .generic C.tuple [p.ann]
  | .varKw => .generic C.dict [.typed C.str, p.ann]
  | _ => p.ann

abbrev TvDecls := List (Nat × C15.TV)

structure ASig where
  params : List AParam
  ret : Ty
  tvs : TvDecls := []
  deriving Inhabited

/-- a call without star arguments: argument *values* (`KnownValue`s for literal arguments) -/
structure VCall where
  pos : List Ty
  kws : List (String × Ty)
  deriving Inhabited

/-- a call whose arguments are literals -/
structure LCall where
  pos : List Obj
  kws : List (String × Obj)
  deriving Inhabited

def LCall.toV (c : LCall) : VCall := ⟨c.pos.map .known, c.kws.map fun kv => (kv.1, .known kv.2)⟩

def lookupKw (kws : List (String × α)) (k : String) : Option α :=
  (kws.find? (·.1 == k)).map (·.2)

/-- `unite_values(*members)`, or `AnyValue(unreachable)` for no members (value.py:1177, :1446) -/
def uniteOrAny (vs : List Ty) : Ty := if vs.isEmpty then .any else unite vs

/-- what `bind_arguments` stored: the value and whether it *is* `param.default` -/
structure ArgV where
  val : Ty
  isDflt : Bool
  deriving Inhabited

/-- number of parameters filled from a positional argument (= `positional_index` when `*args` is
reached) -/
def nIdx (bound : List (String × Pos)) : Nat :=
  (bound.filter fun b => match b.2 with | .idx _ => true | _ => false).length

/-- the keywords not in `keywords_consumed` -/
def extraKws (kws : List (String × α)) (bound : List (String × Pos)) : List (String × α) :=
  kws.filter fun kv => !(bound.any fun b => b.2 == Pos.kw kv.1)

def argValue (c : VCall) (bound : List (String × Pos)) (p : AParam) : Pos → ArgV
  | .idx i => ⟨c.pos.getD i .any, false⟩
  | .kw k => ⟨(lookupKw c.kws k).getD .any, false⟩
  | .args => ⟨.generic C.tuple [uniteOrAny (c.pos.drop (nIdx bound))], false⟩
  | .kwargs => ⟨.generic C.dict [.typed C.str, uniteOrAny ((extraKws c.kws bound).map (·.2))], false⟩
  | .dflt =>
    match p.kind with
    | .varPos => ⟨.generic C.tuple [.any], false⟩          -- SequenceValue(tuple, [])
    | .varKw => ⟨.generic C.dict [.typed C.str, .any], false⟩  -- TypedDictValue({})
    | _ => ⟨.known (p.dflt.getD .none), true⟩              -- Composite(param.default)
  | .unknown => ⟨.any, false⟩                              -- only with star arguments

/-! ### `can_assign` with type variables on the declared side: the bounds map -/

abbrev BMap := List (Nat × C15.Bound)

def tvDecl (tvs : TvDecls) (i : Nat) : C15.TV := ((tvs.find? (·.1 == i)).map (·.2)).getD {}

def hasTv (t : Ty) : Bool := !t.tvars.isEmpty
def hasTvL (ts : List Ty) : Bool := !(Ty.tvarsL ts).isEmpty

def okIf (b : Bool) : Option BMap := if b then some [] else none

/-- the generic argument of the other side as a value: `SequenceValue.args` / `DictIncompleteValue.args` -/
def targTy : TArg → Ty
  | .ty t => t
  | .mems ns => uniteOrAny (ns.map stripMany)

mutual
/-- `e.can_assign(a, ctx)` as a bounds map (`none` = `CanAssignError`). -/
def caB (tbl : ClassTable) (tvs : TvDecls) : Ty → Ty → Option BMap
  | .tvar i, a =>
    -- TypeVarValue.can_assign value.py:2192 + make_bounds_map :2215
    let bs := C15.Bound.lower a :: (tvDecl tvs i).inherent
    if (C15.resolveCa tbl bs).isOk then some (bs.map (i, ·)) else none
  | .generic c args, a =>
    if !hasTvL args then okIf (ca tbl false (.generic c args) a) else
    match a with
    | .union bs => caBAllR tbl tvs (.generic c args) bs        -- Value.can_assign :105
    | .any => some []
    | a =>
      match theirArgs tbl c a with                             -- GenericValue.can_assign :1042
      | some (_, theirs) =>
        if theirs.length == args.length then
          (if args.isEmpty then none else caBArgs tbl tvs args theirs)
        else okIf (typedCA tbl false c a)
      | none => okIf (typedCA tbl false c a)
  | .seq c ms, a =>
    if !hasTvL ms then okIf (ca tbl false (.seq c ms) a) else
    match a with
    | .union bs => caBAllR tbl tvs (.seq c ms) bs
    | .any => some []
    | .seq d ns =>                                             -- SequenceValue.can_assign :1214
      if tbl.nominal false c d && ms.length == ns.length then caBZip tbl tvs ms ns else none
    | .known (.tuple xs) =>
      if tbl.nominal false c C.tuple && ms.length == xs.length then caBZip tbl tvs ms (xs.map .known) else none
    | .known (.list xs) =>
      if tbl.nominal false c C.list && ms.length == xs.length then caBZip tbl tvs ms (xs.map .known) else none
    | .known (.set xs) =>
      if tbl.nominal false c C.set && ms.length == xs.length then caBZip tbl tvs ms (xs.map .known) else none
    | a =>
      -- super().can_assign: GenericValue(c, [unite(members)]); only the branches that do not look
      -- at the (type-variable-bearing) union of the members are modelled
      match theirArgs tbl c a with
      | some (_, [_]) => none
      | _ => okIf (typedCA tbl false c a)
  | e, a => okIf (ca tbl false e a)
termination_by e a => (sizeOf e, sizeOf a, 0)
def caBAllR (tbl : ClassTable) (tvs : TvDecls) : Ty → List Ty → Option BMap
  | _, [] => some []
  | e, b :: bs =>
    match caB tbl tvs e b with
    | none => none
    | some m => (caBAllR tbl tvs e bs).map (m ++ ·)
termination_by e bs => (sizeOf e, sizeOf bs, 0)
def caBArgs (tbl : ClassTable) (tvs : TvDecls) : List Ty → List TArg → Option BMap
  | [], _ => some []
  | _, [] => some []
  | e :: es, t :: ts =>
    match caB tbl tvs e (targTy t) with
    | none => none
    | some m => (caBArgs tbl tvs es ts).map (m ++ ·)
termination_by es _ => (sizeOf es, 0, 0)
def caBZip (tbl : ClassTable) (tvs : TvDecls) : List Ty → List Ty → Option BMap
  | [], _ => some []
  | _, [] => some []
  | .many _ :: _, _ :: _ => none
  | _ :: _, .many _ :: _ => none
  | m :: ms, n :: ns =>
    match caB tbl tvs m n with
    | none => none
    | some b => (caBZip tbl tvs ms ns).map (b ++ ·)
termination_by ms _ => (sizeOf ms, 0, 0)
end

/-! ### `resolve_bounds_map` typevar.py:31 over the unified bounds map -/

/-- the keys of the unified bounds map, in first-insertion order -/
def bmKeys : BMap → List Nat → List Nat
  | [], acc => acc
  | (i, _) :: m, acc => if acc.contains i then bmKeys m acc else bmKeys m (acc ++ [i])

def bmBounds (m : BMap) (i : Nat) : List C15.Bound := (m.filter (·.1 == i)).map (·.2)

/-- `(tv_map, errors ≠ [])` -/
def resolveAll (tbl : ClassTable) (allTvs : List Nat) (m : BMap) : TvMap × Bool :=
  (bmKeys m []).foldl
    (fun (acc : TvMap × Bool) i =>
      match C15.resolveCa tbl (bmBounds m i) with
      | .ok s _ => ((i, s) :: acc.1, acc.2)
      | _ => ((i, Ty.any) :: acc.1, true))
    (allTvs.map (·, Ty.any), false)

/-! ### `check_call_with_bound_args` -/

inductive Verdict where
  | bindErr                       -- `incompatible_call` from the binder
  | tvArgErr (p : String)         -- `incompatible_argument` in the type-variable pre-pass
  | tvResolveErr                  -- `incompatible_call`: "Cannot resolve type variables"
  | done (bad : List String)      -- the main loop ran; one `incompatible_argument` per name
  deriving Inhabited, DecidableEq, Repr

/-- an `incompatible_argument` diagnostic is reported -/
def Verdict.diagnosed : Verdict → Bool
  | .done bad => !bad.isEmpty
  | .tvArgErr _ => true
  | _ => false

structure Outcome where
  verdict : Verdict
  ret : Ty                        -- the value of the call expression
  sol : TvMap := []               -- `typevar_values`
  deriving Inhabited

def dedupNat : List Nat → List Nat → List Nat
  | [], acc => acc
  | i :: is, acc => if acc.contains i then dedupNat is acc else dedupNat is (acc ++ [i])

/-- `Signature.all_typevars` -/
def ASig.allTvs (s : ASig) : List Nat :=
  dedupNat ((s.params.flatMap fun p => p.ty.tvars) ++ s.ret.tvars) []

def ASig.find (s : ASig) (n : String) : AParam :=
  (s.params.find? (·.name == n)).getD default

/-- `get_default_return` :1155 -/
def defaultReturn (s : ASig) : Ty :=
  if hasTv s.ret then subst (s.allTvs.map (·, Ty.any)) s.ret else s.ret

/-- the pre-pass :1261-1271: `some` unified bounds map, or the first failing parameter -/
def tvPass (tbl : ClassTable) (s : ASig) (c : VCall) (bound : List (String × Pos)) :
    List AParam → BMap → Except String BMap
  | [], acc => .ok acc
  | p :: ps, acc =>
    if !hasTv p.ty then tvPass tbl s c bound ps acc else
    let pos := ((bound.find? (·.1 == p.name)).map (·.2)).getD .unknown
    let av := argValue c bound p pos
    match caB tbl s.tvs p.ty av.val with
    | some m => tvPass tbl s c bound ps (acc ++ m)
    | none => if av.isDflt then tvPass tbl s c bound ps acc else .error p.name

/-- `if typevar_map: param_typ = param.annotation.substitute_typevars(typevar_map)` :646 -/
def applySol (sol : TvMap) (t : Ty) : Ty := if sol.isEmpty then t else subst sol t

/-- one iteration of the main loop :1290 / `_check_param_type_compatibility` :629:
`true` = an `incompatible_argument` is reported for this parameter -/
def paramBad (tbl : ClassTable) (s : ASig) (c : VCall) (bound : List (String × Pos)) (sol : TvMap)
    (b : String × Pos) : Bool :=
  let p := s.find b.1
  let av := argValue c bound p b.2
  !(ca tbl false (applySol sol p.ty) av.val) && !av.isDflt

def checkBound (tbl : ClassTable) (s : ASig) (c : VCall) (bound : List (String × Pos)) : Outcome :=
  if s.allTvs.isEmpty then
    { verdict := .done ((bound.filter (paramBad tbl s c bound [])).map (·.1)), ret := s.ret }
  else
    match tvPass tbl s c bound s.params [] with
    | .error p => { verdict := .tvArgErr p, ret := defaultReturn s }
    | .ok m =>
      let (sol, err) := resolveAll tbl s.allTvs m
      if err then { verdict := .tvResolveErr, ret := defaultReturn s }
      else
        { verdict := .done ((bound.filter (paramBad tbl s c bound sol)).map (·.1)),
          ret := if hasTv s.ret then subst sol s.ret else s.ret,
          sol := sol }

def vActual (c : VCall) : Actual :=
  { pos := c.pos.map fun _ => true, starArgs := false, kws := c.kws.map fun kv => (kv.1, true),
    starKw := false, kwReq := false }

/-- `Signature.check_call` for a call without star arguments -/
def checkCall (tbl : ClassTable) (s : ASig) (c : VCall) : Outcome :=
  match pyaBind (s.params.map AParam.toParam) (vActual c) with
  | none => { verdict := .bindErr, ret := defaultReturn s }
  | some bound => checkBound tbl s c bound

/-! ### methods and constructors -/

/-- `Signature.bind_self` :1934 without a `self_annotation_value` carrying type variables: the
first parameter is dropped when it is positional; a leading `*args` keeps the parameters. -/
def bindSelf (s : ASig) : Option ASig :=
  match s.params with
  | [] => none
  | p :: ps =>
    match p.kind with
    | .posOnly | .posOrKw => some { s with params := ps }
    | .varPos => some s
    | _ => none

/-- arg_spec.py:857-936: calling the class `cls` whose `__init__` has signature `init`: the return
type is the instance type, `self` is bound. `none` = the Signature could not be derived. -/
def ctorSig (cls : Cls) (init : ASig) : Option ASig := bindSelf { init with ret := .typed cls }

/-- `BoundMethodSignature.check_call` :2581: the receiver is passed as first positional argument -/
def boundCall (tbl : ClassTable) (s : ASig) (self : Ty) (c : VCall) : Outcome :=
  checkCall tbl s { c with pos := self :: c.pos }

/-! ### several `*iterable`s in one call — `preprocess_args` step 2 (signature.py: "we dump any single
arguments that come after *args into *args, and we merge all *args")

After step 1 the positional section is a list of single values and of `*xs` of unknown length (an
element type). Everything from the first `*xs` on is merged into ONE element type `star_args`:
a later single value `v` gives `unite_values(v, star_args)`, a later `*ys: t` gives
`unite_values(t, star_args)`. -/

/-- one item of the positional section: `(true, t)` = `*xs` with element type `t`, `(false, v)` = a
single value -/
abbrev PosItem := Bool × Ty

def starStep (acc : Option Ty) (it : PosItem) : Option Ty :=
  match acc, it with
  | none, (true, t) => some t            -- the first `*xs`
  | none, (false, _) => none             -- an ordinary positional
  | some a, (_, v) => some (unite [v, a])

/-- `ActualArguments.star_args` -/
def starMerge (items : List PosItem) : Option Ty := items.foldl starStep none

/-- the values that were merged: everything from the first star on -/
def starContrib : List PosItem → List Ty
  | [] => []
  | (true, t) :: rest => t :: rest.map (·.2)
  | (false, _) :: rest => starContrib rest

end Pya.C06
