import PyaModel.Core.Obj
/-!
# Core/ClassTable — the class-level facts the value kernels are parametrised by

An instance (`Generated/ClassTable.lean : liveTable`) is regenerated from the live tree on
every run: `nominal`/`gbase`/`arity`/`isProtocol` are what *pyanalyze* computes
(`TypeObject.can_assign` at class level, `Checker.get_generic_bases`), `issub`/`meta` are what
*CPython* computes (`issubclass`, `type(cls)`).
-/
namespace Pya

/-- Generic argument of a base class, in terms of the subclass's own parameters. -/
inductive GArg where
  | param (i : Nat)
  | fixed (t : Ty)
  deriving Repr, Inhabited

structure ClassTable where
  names : List String
  issubM : List (List Bool)      -- issubM[a][b] = issubclass(a, b)
  nominalM : List (List Bool)    -- nominalM[e][a] = pyanalyze accepts TypedValue(a) where class e is expected
  nominalKM : List (List Bool)   -- … accepts a literal *instance* of class a (TypeObject.can_assign on a KnownValue)
  nominalCM : List (List Bool)   -- … accepts the *class object* a (KnownValue(a))
  nominalXM : List (List Bool)   -- the same three relations under `should_exclude_any()` ("Any only matches Any")
  nominalKXM : List (List Bool)
  nominalCXM : List (List Bool)
  metaL : List Cls               -- metaL[c] = class id of type(c)
  arityL : List Nat              -- number of generic parameters of c (0 = not generic)
  gbaseM : List (List (Option (List GArg)))  -- gbaseM[a][e] = generic args of a[$0..] seen as base e
  protoL : List Bool             -- pyanalyze treats the class as a Protocol
  enumL : List Bool              -- the class is an Enum class
  userL : List Bool              -- user class with instances `inst c i` in the object universe
  deriving Repr, Inhabited

namespace ClassTable
variable (t : ClassTable)
def size : Nat := t.names.length
def issub (a b : Cls) : Bool := (t.issubM.getD a []).getD b false
def nominal (x : Bool) (e a : Cls) : Bool :=
  ((if x then t.nominalXM else t.nominalM).getD e []).getD a false
def nominalK (x : Bool) (e a : Cls) : Bool :=
  ((if x then t.nominalKXM else t.nominalKM).getD e []).getD a false
def nominalC (x : Bool) (e a : Cls) : Bool :=
  ((if x then t.nominalCXM else t.nominalCM).getD e []).getD a false
def metaOf (c : Cls) : Cls := t.metaL.getD c C.type
def arity (c : Cls) : Nat := t.arityL.getD c 0
def gbase (a e : Cls) : Option (List GArg) := (t.gbaseM.getD a []).getD e none
def isProtocol (c : Cls) : Bool := t.protoL.getD c false
def isEnum (c : Cls) : Bool := t.enumL.getD c false
def isUser (c : Cls) : Bool := t.userL.getD c false
end ClassTable

/-- `type(o)` as a class id. -/
def clsOf (t : ClassTable) : Obj → Cls
  | .int _ => C.int | .bool _ => C.bool | .str _ => C.str | .bytes _ => C.bytes | .none => C.none
  | .flt _ => C.float | .cplx _ => C.complex | .inst c _ => c | .cls c => t.metaOf c
  | .tuple _ => C.tuple | .list _ => C.list | .set _ => C.set | .fset _ => C.frozenset
  | .dict _ _ => C.dict

/-- Membership of a class in a class: CPython's `issubclass` plus the numeric tower
(int → float → complex; bool is an int by `issubclass`). -/
def sub (t : ClassTable) (a e : Cls) : Bool :=
  t.issub a e || (t.issub a C.int && (e == C.float || e == C.complex)) ||
  (t.issub a C.float && e == C.complex)

end Pya
