/-!
# Core/CmpChain — the constraint of a chained comparison and of its negation (property C01)

`NameCheckVisitor.visit_Compare` (name_check_visitor.py) evaluates `e0 op1 e1 op2 e2 …` link by link
(`_visit_single_compare`); every link yields a constraint:

* a plain variable against a literal (`x < 3`, `0 == x`, `x is None`, `x in (1, 2)`): a `predicate` constraint on the
  variable (`_constraint_from_compare_op`; with the literal on the left the operator is mirrored) — `Con.atom`;
* anything else (two non-literals, a call against a literal, two literals): `NULL_CONSTRAINT` — `Con.opq`: it narrows
  nothing, but the link still has a truth value at run time.

The chain's constraint is `AndConstraint.make(links)`. The else-branch, `not (…)` and `while not (…)` use
`constraint.invert()`: `~(A and B) = ~A or ~B` (stacked_scopes.py `AndConstraint.invert`), and `OrConstraint.apply`
narrows a variable only if EVERY disjunct constrains it (then to the union, `one_of`). `NullConstraint.invert()` is
itself, and it constrains no variable: so a chain with one non-narrowing link narrows nothing in the else-branch.
That is what keeps the else-branch sound — the chain may have failed only because of the non-narrowing link.

Values: variables range over unions of `int` / `str` / `None` literals (`Literal[...]` parameters, values assigned
from literals): the only values the comparison predicates filter member by member (`EqualsPredicate`, `InPredicate`,
`predicate_func` run the operator on the literal; when that raises, the member is kept).

`AndConstraint.make` / `OrConstraint.make` also drop duplicate operands and unwrap singletons; both leave `apply` and
`invert` unchanged up to the set of values kept, and are not modelled. Constraints of `and` / `or` between tests are
the subject of the C02 models.
-/
namespace Pya.C01.Chain

abbrev Var := Nat

inductive Lit where
  | int (n : Int) | str (s : String) | none
  deriving DecidableEq, Repr, Inhabited

inductive Ord where
  | lt | le | gt | ge
  deriving DecidableEq, Repr, Inhabited

/-- what a link says about the variable (the literal is on the right; `3 < x` is given as `x > 3`) -/
inductive Pred where
  | eq (k : Lit)                 -- `x == k` / `x is None`   (negative: `!=` / `is not`)
  | ord (op : Ord) (k : Lit)     -- `x op k`
  | isIn (ks : List Lit)         -- `x in (k1, …)`           (negative: `not in`)
  deriving Repr, Inhabited

def Ord.sem (op : Ord) (c : Ordering) : Bool :=
  match op with
  | .lt => c == .lt
  | .le => c != .gt
  | .gt => c == .gt
  | .ge => c != .lt

/-- the comparison of two literals, where CPython defines one -/
def Lit.cmp : Lit → Lit → Option Ordering
  | .int a, .int b => some (compare a b)
  | .str a, .str b => some (compare a b)
  | _, _ => Option.none

/-- does CPython evaluate the link on this value without raising? -/
def Pred.defined (p : Pred) (o : Lit) : Bool :=
  match p with
  | .ord _ k => (o.cmp k).isSome
  | _ => true

/-- the truth value of the link when the variable holds `o` (immaterial where the link is not `defined`) -/
def Pred.sem (p : Pred) (o : Lit) : Bool :=
  match p with
  | .eq k => o == k
  | .ord op k => match o.cmp k with | some c => op.sem c | Option.none => false
  | .isIn ks => ks.contains o

/-- the predicate applied to one literal member (`positive`: the link holds): the operator is run on the literal; the
member is dropped only if that yields the other truth value -/
def Pred.keep (p : Pred) (pos : Bool) (o : Lit) : Bool :=
  !p.defined o || (p.sem o == pos)

/-- `AbstractConstraint` for chains -/
inductive Con where
  | opq (i : Nat) (pos : Bool)               -- `NULL_CONSTRAINT` made for link number `i` (`pos`: not negated)
  | atom (x : Var) (p : Pred) (pos : Bool)   -- `Constraint(x, predicate, pos, p)`
  | and (cs : List Con)
  | or (cs : List Con)
  deriving Repr, Inhabited

mutual
/-- `invert()` -/
def Con.invert : Con → Con
  | .opq i pos => .opq i (!pos)
  | .atom x p pos => .atom x p (!pos)
  | .and cs => .or (Con.invertL cs)
  | .or cs => .and (Con.invertL cs)
def Con.invertL : List Con → List Con
  | [] => []
  | c :: cs => c.invert :: Con.invertL cs
end

/-- what `apply()` yields for one variable -/
inductive Filt where
  | pred (p : Pred) (pos : Bool)
  | oneOf (fs : List Filt)
  | allOf (fs : List Filt)
  deriving Repr, Inhabited

mutual
/-- `Constraint.apply_to_value` on a literal member: is it kept? -/
def Filt.keep : Filt → Lit → Bool
  | .pred p pos, o => p.keep pos o
  | .oneOf fs, o => Filt.keepAny fs o
  | .allOf fs, o => Filt.keepAll fs o
def Filt.keepAny : List Filt → Lit → Bool
  | [], _ => false
  | f :: fs, o => f.keep o || Filt.keepAny fs o
def Filt.keepAll : List Filt → Lit → Bool
  | [], _ => true
  | f :: fs, o => f.keep o && Filt.keepAll fs o
end

/-- `_group_constraints(...)[x]` -/
def forVar (x : Var) (l : List (Var × Filt)) : List Filt := (l.filter (·.1 == x)).map (·.2)

/-- `OrConstraint.apply` on the applied operands -/
def orApply : List (List (Var × Filt)) → List (Var × Filt)
  | [] => []
  | left :: rest =>
    ((left.map (·.1)).eraseDups.filter fun x => rest.all fun r => r.any (·.1 == x)).map fun x =>
      (x, Filt.oneOf (Filt.allOf (forVar x left) :: rest.map fun r => Filt.allOf (forVar x r)))

mutual
/-- `apply()`: the per-variable constraints -/
def Con.apply : Con → List (Var × Filt)
  | .opq _ _ => []
  | .atom x p pos => [(x, .pred p pos)]
  | .and cs => (Con.applyL cs).flatten
  | .or cs => orApply (Con.applyL cs)
def Con.applyL : List Con → List (List (Var × Filt))
  | [] => []
  | c :: cs => c.apply :: Con.applyL cs
end

/-- the values of the variables: unions of literals -/
abbrev Scope := List (Var × List Lit)

/-- the scope of a branch: every constraint filters the members of its variable -/
def narrow (sc : Scope) (fs : List (Var × Filt)) : Scope :=
  sc.map fun e => (e.1, e.2.filter fun o => (forVar e.1 fs).all fun f => f.keep o)

/-! ## chains and tests -/

/-- a link as `_visit_single_compare` sees it -/
inductive Link where
  | narrowing (x : Var) (p : Pred) (pos : Bool)
  | opaque
  deriving Repr, Inhabited

def linkCons (i : Nat) : List Link → List Con
  | [] => []
  | .narrowing x p pos :: ls => .atom x p pos :: linkCons (i + 1) ls
  | .opaque :: ls => .opq i true :: linkCons (i + 1) ls

/-- `visit_Compare`: the conjunction of ALL the links' constraints, the non-narrowing ones included -/
def chainCon (links : List Link) : Con := .and (linkCons 0 links)

/-- a test: a chain under any number of `not` -/
inductive Test where
  | chain (links : List Link)
  | tnot (t : Test)
  deriving Repr, Inhabited

def Test.con : Test → Con
  | .chain ls => chainCon ls
  | .tnot t => t.con.invert

/-- the scopes of the two branches of `if t: … else: …` -/
def Test.branches (sc : Scope) (t : Test) : Scope × Scope :=
  (narrow sc t.con.apply, narrow sc t.con.invert.apply)

/-! ## run time -/

mutual
/-- truth of a constraint under an assignment `ρ` of the variables and truth values `ω` of the non-narrowing links -/
def Con.holds (ρ : Var → Lit) (ω : Nat → Bool) : Con → Bool
  | .opq i pos => ω i == pos
  | .atom x p pos => p.sem (ρ x) == pos
  | .and cs => Con.holdsAll ρ ω cs
  | .or cs => Con.holdsAny ρ ω cs
def Con.holdsAll (ρ : Var → Lit) (ω : Nat → Bool) : List Con → Bool
  | [] => true
  | c :: cs => c.holds ρ ω && Con.holdsAll ρ ω cs
def Con.holdsAny (ρ : Var → Lit) (ω : Nat → Bool) : List Con → Bool
  | [] => false
  | c :: cs => c.holds ρ ω || Con.holdsAny ρ ω cs
end

/-- the value of the test: all links of a chain hold -/
def Test.eval (ρ : Var → Lit) (ω : Nat → Bool) (t : Test) : Bool := t.con.holds ρ ω

/-- the environment is within the scope -/
def Scope.has (sc : Scope) (ρ : Var → Lit) : Prop := ∀ e ∈ sc, ρ e.1 ∈ e.2

/-! ## the variant that skips non-narrowing links (NOT what pyanalyze does; see `Props/C01.lean`) -/

def linkConsDropNull : List Link → List Con
  | [] => []
  | .narrowing x p pos :: ls => .atom x p pos :: linkConsDropNull ls
  | .opaque :: ls => linkConsDropNull ls

def chainConDropNull (links : List Link) : Con := .and (linkConsDropNull links)

end Pya.C01.Chain
