import PyaModel.Generated.CompositeBounds
/-!
# Core/Composite — bookkeeping of composite variables (`x[k1][k2]`, `x.a.b`) in a function scope (property C01)

pyanalyze keeps narrowed / stored values for *composite variables*: a name followed by literal subscripts or attributes
(`stacked_scopes.py:93 CompositeVariable`). Assigning to a name or to a composite must forget what is known about every
composite below it. The bookkeeping (one root variable; `CPath` = the attribute tuple):

* `FunctionScope._add_composite(c)` (:1353): records `c` under the root and under the prefixes
  `attributes[:i] for i in range(lo, len(attributes) - hiOff)` — the two bounds are REGENERATED from the live source
  (`Generated/CompositeBounds.lean`; the code has `range(1, len(varname.attributes))`, i.e. `lo = 1`, `hiOff = 0`);
* `FunctionScope.set(p, …)` (:1102): `for composite in name_to_composites[p]: current_definition_nodes[composite] = []`,
  then `p` gets its new definition node and is recorded itself;
* lookups, narrowing (`add_constraint`) and stores all call `_add_composite` on the composite they touch.
-/
namespace Pya.C01

abbrev CPath := List Nat

/-- the prefixes under which `_add_composite` records the composite `c` (`[]` = the root name) -/
def recordedUnder (lo hiOff : Nat) (c : CPath) : List CPath :=
  if c.isEmpty then []
  else [] :: (if c.length > 1 then (List.range' lo (c.length - hiOff - lo)).map (fun i => c.take i) else [])

/-- the bookkeeping for one root variable -/
structure CompState where
  reg : List (CPath × CPath)   -- `name_to_composites`: (prefix, composite recorded under it)
  live : List CPath             -- composites whose list of current definition nodes is not empty
  deriving Repr, Inhabited

def CompState.addComposite (lo hiOff : Nat) (st : CompState) (c : CPath) : CompState :=
  { st with reg := st.reg ++ (recordedUnder lo hiOff c).map (fun p => (p, c)) }

/-- a narrowing test or a store on the composite `c`: it now has definition nodes of its own -/
def CompState.touch (lo hiOff : Nat) (st : CompState) (c : CPath) : CompState :=
  let st1 := st.addComposite lo hiOff c
  { st1 with live := c :: st1.live }

/-- `FunctionScope.set(p, value)`: everything recorded under `p` is reset, `p` itself is (re)defined -/
def CompState.assign (lo hiOff : Nat) (st : CompState) (p : CPath) : CompState :=
  let st1 : CompState := { st with live := st.live.filter fun c => !(st.reg.any fun pc => pc.1 == p && pc.2 == c) }
  let st2 := st1.addComposite lo hiOff p
  { st2 with live := if p.isEmpty then st2.live else p :: st2.live }

/-- is `p` a proper prefix of `c`? -/
def properPrefix (p c : CPath) : Bool := p.length < c.length && c.take p.length == p

end Pya.C01
