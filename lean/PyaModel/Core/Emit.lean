/-!
# Core/Emit — model of the diagnostic filter of `pyanalyze.node_visitor.BaseNodeVisitor`

Faithful layer, one Lean branch per Python branch (line numbers: /repo at b494820, i.e. after the
repairs 0cba813 and ba62f49):

* `showError`            — `BaseNodeVisitor.show_error` (node_visitor.py:564‥741): capture by
                           `catch_errors` (:596), enablement (:613, `NameCheckVisitor.is_enabled`),
                           file-level ignore (:616), duplicate filter (:619‥623), per-line ignore
                           comments (:659‥677; `prev_line` is `""` for `lineno < 2` since 0cba813),
                           `save` (:716).
* `pyLines`              — `_lines` (:236): `re.split(r"\r\n|\r|\n", contents)` minus a trailing
                           empty piece (since ba62f49).
* `fileLevelIdx`         — `has_file_level_ignore` (:246‥263).
* `unusedRaws`/`bareRaws`— `get_unused_ignores` (:265), `show_errors_for_unused_ignores` (:273),
                           `show_errors_for_bare_ignores` (:290).
* `oldShowError`/`oldRun`/`oldCheck`/`oldPyLines` — the two functions as they were *before* the
                           repairs (`lines[lineno - 2]` wrapping to the last line for `lineno == 1`;
                           `contents.splitlines()`). Not the model of the code under check: they
                           feed the `old_…` regression theorems of Props/C11.lean only.
* `check`                — the tail of `NameCheckVisitor.check` (name_check_visitor.py:1328‥1334):
                           the visitor's stream of `show_error` calls, then the two end-of-file passes.
* `isErrorCodeEnabled`   — `Options.is_error_code_enabled` (options.py:302) over
                           `Options.from_option_list`'s per-name stable sort by `ConfigOption.sort_key`.
* `Cli.settings`         — the settings dict `BaseNodeVisitor.main` builds from `--enable-all` /
                           `--disable-all` / `-e` / `-d` (node_visitor.py:367‥383).
* `settingsInsts`        — `NameCheckVisitor.prepare_constructor_kwargs`: *every* entry of the settings
                           dict becomes a `from_command_line` instance.
* `CfgFile.insts`/`filesInsts`/`stackInsts`/`enabledStack` — the instance list `from_option_list` sees
                           for a stack of configuration files (main file = priority 0, each
                           `extend_config` hop + 1; the TOML → instance parsing itself is C18's
                           subject, `Pya.C18`) and the resulting enabled-ness of a code.
* `runModules`           — a run over several files: `Options.for_module` per file (options.py:288),
                           no state shared between modules.

The visitor itself (6 000 lines deciding *which* `show_error` calls are made) is not modelled: its
calls are the input `List Raw` ("raw stream").  Not modelled either: message/context rendering,
`_changes_for_fixer` / `add_ignores` (C16), `fail_after_first`, a non-default `ignore_comment`
argument (never passed inside pyanalyze). The file is given as its list of lines `_lines()` without
the trailing newline it re-appends (none of the tests below depends on it); `pyLines` models the
split that produces the list from the source text.

No imports: core-only so the driver starts fast.
-/
namespace Pya.C11

abbrev Line := List Char

/-- `IGNORE_COMMENT` (node_visitor.py:55). -/
def IC : Line := "# static analysis: ignore".toList

/-- `p in s` for strings. -/
def hasSub (p : Line) : Line → Bool
  | [] => p.isEmpty
  | c :: cs => p.isPrefixOf (c :: cs) || hasSub p cs

/-- `s.index(p)` (first occurrence), `none` = ValueError. -/
def findSub (p : Line) : Line → Option Nat
  | [] => if p.isEmpty then some 0 else none
  | c :: cs => if p.isPrefixOf (c :: cs) then some 0 else (findSub p cs).map (· + 1)

/-- `re.search(re.escape(IGNORE_COMMENT) + r"(?!\[)", s)`: some occurrence of the comment text is
not immediately followed by `[`. -/
def hasBare : Line → Bool
  | [] => false
  | c :: cs =>
    (IC.isPrefixOf (c :: cs) && ((c :: cs).drop IC.length).head? != some '[') || hasBare cs

/-- `str.isspace` for one character (the set `str.strip()` removes). -/
def isSpace (c : Char) : Bool :=
  c == ' ' || c == '\t' || c == '\n' || c == '\r' || c == '\x0b' || c == '\x0c' ||
  [0x1c, 0x1d, 0x1e, 0x1f, 0x85, 0xa0, 0x1680, 0x2000, 0x2001, 0x2002, 0x2003, 0x2004, 0x2005,
   0x2006, 0x2007, 0x2008, 0x2009, 0x200a, 0x2028, 0x2029, 0x202f, 0x205f, 0x3000].contains c.toNat

/-- `str.strip()`. -/
def strip (s : Line) : Line := ((s.dropWhile isSpace).reverse.dropWhile isSpace).reverse

/-- `f"{IGNORE_COMMENT}[{error_code.name}]"`. -/
def codedIC (c : String) : Line := IC ++ '[' :: (c.toList ++ [']'])

/-- node_visitor.py:655‥658, the test on `this_line`. -/
def trailingMatch (l : Line) (code : Option String) : Bool :=
  hasBare l || (match code with | some c => hasSub (codedIC c) l | none => false)

/-- node_visitor.py:663‥666 (test on `prev_line`) and :250‥253 (test inside
`has_file_level_ignore`): the stripped line *is* the comment, bare or naming the code. -/
def ownLineMatch (l : Line) (code : Option String) : Bool :=
  strip l == IC || (match code with | some c => strip l == codedIC c | none => false)

/-- `has_file_level_ignore(error_code)`: index of the first leading `#` line that is an ignore
comment for `code`; the scan stops at the first line not starting with `#`. -/
def fileLevelIdx (code : Option String) : (i : Nat) → List Line → Option Nat
  | _, [] => none
  | i, l :: ls =>
    if l.head? != some '#' then none
    else if ownLineMatch l code then some i
    else fileLevelIdx code (i + 1) ls

/-- Splitting a text into lines at the characters `brk` says are line boundaries; `\r\n` counts as
one boundary; no empty last line after a final boundary. `cur` = the current line, reversed;
`afterCR` = the previous character was a `\r` boundary. -/
def splitBy (brk : Char → Bool) : List Char → Line → Bool → List Line
  | [], cur, _ => if cur.isEmpty then [] else [cur.reverse]
  | c :: cs, cur, afterCR =>
    if afterCR && c == '\n' then splitBy brk cs cur false
    else if brk c then cur.reverse :: splitBy brk cs [] (c == '\r')
    else splitBy brk cs (c :: cur) false

/-- The characters the regex `\r\n|\r|\n` of `_lines()` matches (the `\r\n` alternative is the
`afterCR` state of `splitBy`). -/
def isReBreak (c : Char) : Bool := c == '\r' || c == '\n'

/-- `_lines()` (node_visitor.py:236‥243): `re.split(r"\r\n|\r|\n", self.contents)`, a trailing empty
piece dropped (the `"\n"` re-appended to every line is dropped here, see the header). -/
def pyLines (src : List Char) : List Line := splitBy isReBreak src [] false

/-- The line boundaries of `str.splitlines()` (what `_lines()` used before ba62f49). -/
def isPyBreak (c : Char) : Bool :=
  c == '\n' || c == '\r' || c == '\x0b' || c == '\x0c' ||
  [0x1c, 0x1d, 0x1e, 0x85, 0x2028, 0x2029].contains c.toNat

/-- `_lines()` before ba62f49: `self.contents.splitlines()`. Regression documentation only. -/
def oldPyLines (src : List Char) : List Line := splitBy isPyBreak src [] false

/-- Python list indexing with an `int` that may be negative; `none` = IndexError. -/
def pyGet (ls : List Line) (k : Int) : Option Line :=
  if 0 ≤ k then ls[k.toNat]?
  else if k.natAbs ≤ ls.length then ls[ls.length - k.natAbs]?
  else none

/-- What `show_error` receives as `node`, as far as the duplicate key `(node, …)` can tell:
`None`, an AST node (hashed by identity → a number), or a `_FakeNode(lineno, col_offset)`
(frozen dataclass → compared by value). -/
inductive NodeKey
  | none
  | ast (id : Nat)
  | fake (line col : Nat)
  deriving DecidableEq, Repr, Inhabited

/-- One call of `show_error` ("raw diagnostic"). -/
structure Raw where
  /-- `self.caught_errors is not None` at the time of the call -/
  captured : Bool := false
  node : NodeKey
  /-- `error_code.name` -/
  code : Option String
  /-- `e`; only its role in the duplicate key (`error_code or e`) is modelled -/
  msg : String := ""
  /-- `(node.lineno, node.col_offset)` when the node has both -/
  pos : Option (Nat × Nat)
  obey : Bool := true
  save : Bool := true
  deriving DecidableEq, Repr, Inhabited

/-- The duplicate key `(node, error_code or e)`: `.inl` = an error code's name, `.inr` = a message. -/
structure Key where
  node : NodeKey
  tag : String ⊕ String
  deriving DecidableEq, Repr

/-- `key = (node, error_code or e)` (:613). -/
def Raw.key (r : Raw) : Key :=
  ⟨r.node, match r.code with | some c => .inl c | none => .inr r.msg⟩

def Raw.line (r : Raw) : Option Nat := r.pos.map (·.1)

structure St where
  seen : List Key := []      -- seen_errors
  used : List Int := []      -- used_ignores (a set of ints)
  fails : List Raw := []     -- all_failures
  deriving DecidableEq, Repr, Inhabited

/-- `is_enabled` gate (:607): `error_code is not None and not self.is_enabled(error_code)`. -/
def disabledBy (en : String → Bool) (r : Raw) : Bool :=
  match r.code with
  | some c => !en c
  | none => false

/-- `show_error`; `none` = an IndexError escapes (line number beyond the file). -/
def showError (en : String → Bool) (lines : List Line) (st : St) (r : Raw) : Option St :=
  if r.captured then some st                                   -- :596 appended to caught_errors
  else if disabledBy en r then some st                         -- :613
  else match fileLevelIdx r.code 0 lines with                  -- :616
    | some i => some { st with used := (i : Int) :: st.used }
    | none =>
      if st.seen.contains r.key then some st                   -- :620
      else
        let st := { st with seen := r.key :: st.seen }         -- :623
        let emit : Option St := some (if r.save then { st with fails := st.fails ++ [r] } else st)
        match (if r.obey then r.pos else none) with            -- :659 obey_ignore and lineno is not None
        | none => emit
        | some (ln, _) =>
          match pyGet lines ((ln : Int) - 1) with              -- :660
          | none => none
          | some thisLine =>
            if trailingMatch thisLine r.code then
              some { st with used := ((ln : Int) - 1) :: st.used }      -- :666
            else match (if 2 ≤ ln then pyGet lines ((ln : Int) - 2) else some []) with  -- :670
              | none => none
              | some prev =>
                if ownLineMatch prev r.code then
                  some { st with used := ((ln : Int) - 2) :: st.used }  -- :676
                else emit

/-- `show_error` before 0cba813: `prev_line = lines[lineno - 2].strip()` without the `lineno >= 2`
guard, so that for `lineno == 1` the *last* line of the file is taken for the line above.
Regression documentation only. -/
def oldShowError (en : String → Bool) (lines : List Line) (st : St) (r : Raw) : Option St :=
  if r.captured then some st
  else if disabledBy en r then some st
  else match fileLevelIdx r.code 0 lines with
    | some i => some { st with used := (i : Int) :: st.used }
    | none =>
      if st.seen.contains r.key then some st
      else
        let st := { st with seen := r.key :: st.seen }
        let emit : Option St := some (if r.save then { st with fails := st.fails ++ [r] } else st)
        match (if r.obey then r.pos else none) with
        | none => emit
        | some (ln, _) =>
          match pyGet lines ((ln : Int) - 1) with
          | none => none
          | some thisLine =>
            if trailingMatch thisLine r.code then
              some { st with used := ((ln : Int) - 1) :: st.used }
            else match pyGet lines ((ln : Int) - 2) with       -- wraps for ln = 1
              | none => none
              | some prev =>
                if ownLineMatch prev r.code then
                  some { st with used := ((ln : Int) - 2) :: st.used }
                else emit

/-- The visitor's calls in order. -/
def run (en : String → Bool) (lines : List Line) : St → List Raw → Option St
  | st, [] => some st
  | st, r :: rs =>
    match showError en lines st r with
    | none => none
    | some st' => run en lines st' rs

def zipIdxFrom {α} : Nat → List α → List (Nat × α)
  | _, [] => []
  | i, a :: as => (i, a) :: zipIdxFrom (i + 1) as

/-- The `show_error` calls of `show_errors_for_unused_ignores(ErrorCode.unused_ignore)`; the list
`get_unused_ignores()` is computed once, before the first call. -/
def unusedRaws (lines : List Line) (used : List Int) : List Raw :=
  (zipIdxFrom 0 lines).filterMap fun (i, l) =>
    if hasSub IC l && !used.contains (i : Int) then
      let col := (findSub IC l).getD 0
      some { node := .fake (i + 1) col, code := some "unused_ignore", pos := some (i + 1, col),
             obey := false }
    else none

/-- The `show_error` calls of `show_errors_for_bare_ignores(ErrorCode.bare_ignore)`. -/
def bareRaws (lines : List Line) : List Raw :=
  (zipIdxFrom 0 lines).filterMap fun (i, l) =>
    if hasSub IC l && !hasSub (IC ++ ['[']) l then
      let col := (findSub IC l).getD 0
      some { node := .fake (i + 1) col, code := some "bare_ignore", pos := some (i + 1, col),
             obey := false }
    else none

/-- `NameCheckVisitor.check` from the first `show_error` call on: visitor stream, unused-ignore
pass, bare-ignore pass (skipped when a bare file-level ignore exists; that test itself marks the
file-level comment as used). -/
def check (en : String → Bool) (lines : List Line) (raw : List Raw) : Option St :=
  match run en lines {} raw with
  | none => none
  | some st =>
    match run en lines st (unusedRaws lines st.used) with
    | none => none
    | some st =>
      match fileLevelIdx none 0 lines with
      | some i => some { st with used := (i : Int) :: st.used }
      | none => run en lines st (bareRaws lines)

/-- `run` over `oldShowError`. Regression documentation only. -/
def oldRun (en : String → Bool) (lines : List Line) : St → List Raw → Option St
  | st, [] => some st
  | st, r :: rs =>
    match oldShowError en lines st r with
    | none => none
    | some st' => oldRun en lines st' rs

/-- `check` over `oldShowError`. Regression documentation only. -/
def oldCheck (en : String → Bool) (lines : List Line) (raw : List Raw) : Option St :=
  match oldRun en lines {} raw with
  | none => none
  | some st =>
    match oldRun en lines st (unusedRaws lines st.used) with
    | none => none
    | some st =>
      match fileLevelIdx none 0 lines with
      | some i => some { st with used := (i : Int) :: st.used }
      | none => oldRun en lines st (bareRaws lines)

/-! ## Enablement through options (options.py) -/

/-- A `ConfigOption` instance of an error-code option (`BooleanOption`). -/
structure Inst where
  name : String
  value : Bool
  applicableTo : List String := []
  fromCmd : Bool := false
  priority : Nat := 0
  deriving DecidableEq, Repr, Inhabited

/-- `sort_key` comparison `a.sort_key() <= b.sort_key()` for
`(not from_command_line, priority, -len(applicable_to))`. -/
def Inst.le (a b : Inst) : Bool :=
  if a.fromCmd != b.fromCmd then a.fromCmd
  else if a.priority != b.priority then a.priority < b.priority
  else b.applicableTo.length ≤ a.applicableTo.length

/-- Stable insertion (`sorted` keeps equal keys in their original order: `x` comes from further
left than everything already in the list, so it goes before the first element it is `≤`). -/
def insertSorted (x : Inst) : List Inst → List Inst
  | [] => [x]
  | y :: ys => if x.le y then x :: y :: ys else y :: insertSorted x ys

def sortInsts : List Inst → List Inst
  | [] => []
  | x :: xs => insertSorted x (sortInsts xs)

/-- `is_applicable_to`: `module_path[:len(applicable_to)] == applicable_to`. -/
def Inst.applies (i : Inst) (path : List String) : Bool := path.take i.applicableTo.length == i.applicableTo

/-- `Options.is_error_code_enabled` for module path `path`: first applicable instance of that
option in sort order, else the option's default. -/
def isErrorCodeEnabled (insts : List Inst) (path : List String) (dflt : String → Bool)
    (code : String) : Bool :=
  match (sortInsts (insts.filter (·.name == code))).find? (·.applies path) with
  | some i => i.value
  | none => dflt code

/-! ## The stack of layers: command line, configuration files, built-in default -/

/-- The error-code part of the command line (`_get_argument_parser`): `--enable-all` / `--disable-all`
(mutually exclusive group) and the `-e` / `-d` lists. -/
structure Cli where
  enableAll : Bool := false
  disableAll : Bool := false
  enable : List String := []
  disable : List String := []
  deriving Repr, Inhabited

/-- `settings[k] = v` on an insertion-ordered dict. -/
def setKey (k : String) (v : Bool) : List (String × Bool) → List (String × Bool)
  | [] => [(k, v)]
  | (k', v') :: rest => if k' == k then (k', v) :: rest else (k', v') :: setKey k v rest

/-- `main()` (node_visitor.py:367‥383) for `NameCheckVisitor` (`_get_default_settings()` = `{}`):
all codes on / all codes off / nothing, then every `-e` code on, then every `-d` code off. -/
def Cli.settings (c : Cli) (allCodes : List String) : List (String × Bool) :=
  let base : List (String × Bool) :=
    if c.enableAll then allCodes.map (·, true)
    else if c.disableAll then allCodes.map (·, false) else []
  let s1 := c.enable.foldl (fun l k => setKey k true l) base
  c.disable.foldl (fun l k => setKey k false l) s1

/-- `prepare_constructor_kwargs`: `for error_code, value in kwargs["settings"].items():
instances.append(option_cls(value, from_command_line=True))` — no entry is left out. -/
def settingsInsts (s : List (String × Bool)) : List Inst :=
  s.map fun e => { name := e.1, value := e.2, fromCmd := true }

/-- The error-code entries of one configuration file: top level and `[[overrides]]` (module path,
entries), in file order. -/
structure CfgFile where
  top : List (String × Bool) := []
  overrides : List (List String × List (String × Bool)) := []
  deriving Repr, Inhabited

/-- The instances `_parse_config_section` yields for a file read at priority `prio`. -/
def CfgFile.insts (f : CfgFile) (prio : Nat) : List Inst :=
  f.top.map (fun e => { name := e.1, value := e.2, priority := prio }) ++
  f.overrides.flatMap fun o => o.2.map fun e =>
    { name := e.1, value := e.2, applicableTo := o.1, priority := prio }

/-- Main file, the file it extends, the file that one extends, … -/
def filesInsts : Nat → List CfgFile → List Inst
  | _, [] => []
  | p, f :: fs => f.insts p ++ filesInsts (p + 1) fs

/-- `Options.from_option_list([*settings instances], config_file_path)`. (The instances of an
extended file are really yielded where the `extend_config` key stands among the main file's
top-level keys; their priority differs from every instance of the main file, so the position
cannot decide a tie.) -/
def stackInsts (settings : List (String × Bool)) (files : List CfgFile) : List Inst :=
  settingsInsts settings ++ filesInsts 0 files

/-- Enabled-ness of `code` for the module at `path` under the whole stack, as the code computes it. -/
def enabledStack (settings : List (String × Bool)) (files : List CfgFile) (path : List String)
    (dflt : String → Bool) (code : String) : Bool :=
  isErrorCodeEnabled (stackInsts settings files) path dflt code

/-! ## A run over several modules -/

/-- One module of a run: its dotted module path, its lines, the visitor's calls on it. -/
structure Module where
  path : List String
  lines : List Line
  raw : List Raw
  deriving Repr, Inhabited

/-- One pyanalyze run over several files (`_run_on_files`: one `Checker`, hence one `Options`
object; `NameCheckVisitor.__init__` takes `checker.options.for_module(module_path)` for each file,
options.py:288, a fresh `Options(self.options, module_path)` that shares only the immutable
instance table): every module is checked with the enabled-ness function of *its* path and nothing
is carried from one module to the next. `en` is e.g. `enabledStack settings files · dflt`. -/
def runModules (en : List String → String → Bool) (mods : List Module) : List (Option St) :=
  mods.map fun m => check (en m.path) m.lines m.raw

end Pya.C11
