import PyaModel.Core.Emit
/-!
# Core/Fixes — model of the automatic-fix kernel of `pyanalyze.node_visitor` (property C16)

Faithful layer, one Lean branch per Python branch, defects included:

* `Replacement`, `applyChange`, `applyChanges` — `Replacement` (node_visitor.py:104‥122) and
  `BaseNodeVisitor._apply_changes_to_lines` (:514‥532): only the *first* change of the file is applied;
  `lines_to_add is None` = nothing to apply; the additions go in after `max(linenos_to_delete)`
  (`max([])` = ValueError), then the named lines are deleted in descending order with
  `del lines[lineno - 1]` (IndexError beyond the end; `lineno == 0` is Python's index `-1`).
* `pyLines`              — `BaseNodeVisitor._lines` (:235, since ba62f49): the contents split at `\r\n|\r|\n`
  only, i.e. exactly where `readlines()` of `_apply_changes` and the tokenizer that numbered the AST break
  lines: the identity on the file's lines.  `oldPyLines` is the table before the repair
  (`contents.splitlines()`, which also breaks at `\x0b \x0c \x1c \x1d \x1e \x85 U+2028 U+2029`), kept with
  `oldAddIgnoresRound` as a regression witness.
* `getIndentation`       — `analysis_lib.get_indentation` (analysis_lib.py:43).
* `suppressed`/`visible` — the per-line and file-level ignore tests of `show_error` (:610, :653‥669) for
  calls that carry a code and a position and obey ignore comments (what the visitor's diagnostics are),
  built from C11's text predicates (`C11.trailingMatch`, `C11.ownLineMatch`, `C11.fileLevelIdx`),
  with `prev_line = "" ` for `lineno < 2` (since 0cba813; `oldPrevLineOf` is the former `lines[-1]` wrap-around).
* `ignoreChange`         — the `add_ignores` branch of `show_error` (:687‥699): `Replacement([lineno],
  [" " * indentation + "# static analysis: ignore[code]\n", this_line])` with `this_line` taken from
  `_lines()`.
* `addIgnoresRound`      — one `_run_and_apply_changes(autofix=True)` (:466‥512) with `add_ignores` on.
* `iterate`, `mainLoop`  — the `--repeat-until-no-errors` loop of `main` (:406‥416) with `ITERATION_LIMIT`.
* `isPartOfSameNode`, `lineRange` — `analysis_lib.get_line_range_for_node` (analysis_lib.py:51‥98), the
  line numbers `ReplacingNodeVisitor.replace_node` / `remove_node` (node_visitor.py:1080‥1111) delete; since
  d5dca9e the scan starts *after* `end_lineno` (`oldLineRange`: before the repair it started *at* it).

The re-check is abstract: `St.raw` is the stream of diagnostics the visitor reports on the file *before any
ignore comment is honoured* (code, line, column — in emission order, duplicates already removed; C11 models
enablement / capture / the duplicate filter).  **Assumption A1** (C11's raw-stream independence, checked by
the differential harness on every run, not proved): the stream depends only on the non-comment content of
the file, so after a comment line has been inserted before line `p` the new stream is the old one
renumbered (`shiftDiag p`).

Not modelled: `replace_node`'s text (`ast_decompiler.decompile` — another library), the fix producers,
message/context rendering, diagnostics without a position or without a code, `fail_after_first`, the
interactive fixer (`codemod`), line numbers outside the file (IndexError in the implementation; cannot
come from a parsed file) — the total functions below return a default there and the driver prints `EXC`.
-/
namespace Pya.C16

open Pya.C11 (Line IC codedIC strip isSpace hasSub trailingMatch ownLineMatch fileLevelIdx)

/-! ## 1. `Replacement` and `_apply_changes_to_lines` -/

/-- `Replacement(linenos_to_delete, lines_to_add)`; `adds = none` is `lines_to_add=None`. Lines are kept
without their `"\n"`. -/
structure Replacement where
  dels : List Nat
  adds : Option (List Line)
  deriving DecidableEq, Repr, Inhabited

inductive Exc
  | valueError   -- `max()` of an empty sequence
  | indexError   -- `del lines[k]` / `lines[k]` out of range
  deriving DecidableEq, Repr

deriving instance DecidableEq for Except

/-- `max(lines_to_remove)`. -/
def pyMax : List Nat → Option Nat
  | [] => none
  | x :: xs => some (xs.foldl max x)

/-- `del lines[k - 1]` (`k = 0` is index `-1`: the last element). -/
def delLine (ls : List Line) (k : Nat) : Option (List Line) :=
  if k = 0 then (if ls.isEmpty then none else some ls.dropLast)
  else if k ≤ ls.length then some (ls.eraseIdx (k - 1))
  else none

/-- `for lineno in lines_to_remove: del lines[lineno - 1]` -/
def delAll : List Line → List Nat → Option (List Line)
  | ls, [] => some ls
  | ls, k :: ks =>
    match delLine ls k with
    | none => none
    | some ls' => delAll ls' ks

def insertDesc (x : Nat) : List Nat → List Nat
  | [] => [x]
  | y :: ys => if y ≤ x then x :: y :: ys else y :: insertDesc x ys

/-- `sorted(lines_to_remove, reverse=True)` -/
def sortDesc : List Nat → List Nat
  | [] => []
  | x :: xs => insertDesc x (sortDesc xs)

/-- The body of the `if additions is not None:` branch (:524‥531). -/
def applyChange (ls : List Line) (dels : List Nat) (adds : List Line) : Except Exc (List Line) :=
  match pyMax dels with
  | none => .error .valueError
  | some m =>
    match delAll (ls.take m ++ adds ++ ls.drop m) (sortDesc dels) with
    | none => .error .indexError
    | some r => .ok r

/-- `_apply_changes_to_lines(changes, input_lines)`: the first change only. -/
def applyChanges (changes : List Replacement) (ls : List Line) : Except Exc (List Line) :=
  match changes with
  | [] => .ok ls
  | c :: _ =>
    match c.adds with
    | none => .ok ls
    | some adds => applyChange ls c.dels adds

/-! ## 2. `_lines()` versus `readlines()` -/

/-- Characters at which `str.splitlines` breaks a line but `readlines` (and the tokenizer) do not. -/
def isExtraSep (c : Char) : Bool :=
  c == '\x0b' || c == '\x0c' || c == '\x1c' || c == '\x1d' || c == '\x1e' || c == '\r' ||
  c.toNat == 0x85 || c.toNat == 0x2028 || c.toNat == 0x2029

/-- Split at every extra separator (`k` separators give `k + 1` pieces). -/
def splitPieces : Line → List Line
  | [] => [[]]
  | c :: cs =>
    if isExtraSep c then [] :: splitPieces cs
    else match splitPieces cs with
      | [] => [[c]]
      | p :: ps => (c :: p) :: ps

/-- What `(l + "\n").splitlines()` gives for one `readlines` line `l`: a final `\r` fuses with the `\n`. -/
def pyLinesOf (l : Line) : List Line :=
  if l.getLast? == some '\r' then (splitPieces l).dropLast else splitPieces l

/-- `self._lines()` **before ba62f49** for a file whose `readlines()` are `ls` (file ending in a newline). -/
def oldPyLines (ls : List Line) : List Line := ls.flatMap pyLinesOf

/-- `self._lines()` for a file whose `readlines()` are `ls`: `re.split(r"\r\n|\r|\n", contents)` breaks the
text exactly where `readlines()` (universal newlines) does. -/
def pyLines (ls : List Line) : List Line := ls

/-! ## 3. `get_indentation` and the ignore tests of `show_error` -/

def lstrip (l : Line) : Line := l.dropWhile isSpace

/-- `analysis_lib.get_indentation` -/
def getIndentation (l : Line) : Nat :=
  if (lstrip l).length = 0 then 0 else l.length - (lstrip l).length

/-- A diagnostic of the visitor: `error_code.name`, `node.lineno`, `node.col_offset`. -/
structure Diag where
  code : String
  line : Nat
  col : Nat := 0
  deriving DecidableEq, Repr, Inhabited

/-- `lines[lineno - 1]` (default outside the file, see header). -/
def lineAt (pl : List Line) (ln : Nat) : Line := pl.getD (ln - 1) []

/-- `lines[lineno - 2].strip() if lineno >= 2 else ""` (before stripping). -/
def prevLineOf (pl : List Line) (ln : Nat) : Line :=
  if ln ≤ 1 then [] else pl.getD (ln - 2) []

/-- **Before 0cba813**: `lines[lineno - 2]`, for `lineno = 1` Python's index `-1`, the *last* line. -/
def oldPrevLineOf (pl : List Line) (ln : Nat) : Line :=
  if ln ≤ 1 then pl.getLast?.getD [] else pl.getD (ln - 2) []

/-- `has_file_level_ignore(error_code)` -/
def fileLevel (pl : List Line) (code : String) : Bool := (fileLevelIdx (some code) 0 pl).isSome

/-- The diagnostic is dropped by `show_error`: file-level ignore (:610), trailing comment on its line
(:655), own-line comment on the line above (:663). -/
def suppressed (pl : List Line) (d : Diag) : Bool :=
  fileLevel pl d.code || trailingMatch (lineAt pl d.line) (some d.code) ||
    ownLineMatch (prevLineOf pl d.line) (some d.code)

/-- The failures of a run, in emission order. -/
def visible (pl : List Line) (raw : List Diag) : List Diag := raw.filter fun d => !suppressed pl d

/-! ## 4. `--add-ignores` -/

/-- The inserted comment line. -/
def ignoreLine (pl : List Line) (d : Diag) : Line :=
  List.replicate (getIndentation (lineAt pl d.line)) ' ' ++ codedIC d.code

/-- The replacement `show_error` records for a reported diagnostic when `add_ignores` is on (:689‥699). -/
def ignoreChange (pl : List Line) (d : Diag) : Replacement :=
  ⟨[d.line], some [ignoreLine pl d, lineAt pl d.line]⟩

/-- Renumbering of the stream after one line has been inserted before line `p` (assumption A1). -/
def shiftDiag (p : Nat) (d : Diag) : Diag := if p ≤ d.line then { d with line := d.line + 1 } else d

structure St where
  lines : List Line
  raw : List Diag
  deriving DecidableEq, Repr, Inhabited

/-- The failures the run on `st` reports. -/
def St.diags (st : St) : List Diag := visible (pyLines st.lines) st.raw

/-- One `_run_and_apply_changes(kwargs, autofix=True)` with `add_ignores`: run, collect one replacement
per failure, apply the first. An exception while applying leaves the file as it is. -/
def addIgnoresRound (st : St) : St :=
  let pl := pyLines st.lines
  match visible pl st.raw with
  | [] => st
  | d :: ds =>
    match applyChanges ((d :: ds).map (ignoreChange pl)) st.lines with
    | .ok ls => { lines := ls, raw := st.raw.map (shiftDiag d.line) }
    | .error _ => st

/-- The round **before ba62f49**: line table from `splitlines()`, file from `readlines()`. -/
def oldAddIgnoresRound (st : St) : St :=
  let pl := oldPyLines st.lines
  match visible pl st.raw with
  | [] => st
  | d :: ds =>
    match applyChanges ((d :: ds).map (ignoreChange pl)) st.lines with
    | .ok ls => { lines := ls, raw := st.raw.map (shiftDiag d.line) }
    | .error _ => st

def iterate : Nat → St → St
  | 0, st => st
  | n + 1, st => iterate n (addIgnoresRound st)

/-- `ITERATION_LIMIT` (node_visitor.py:59) -/
def iterationLimit : Nat := 150

inductive Outcome
  /-- the loop ended after `runs` runs, the last of which reported nothing -/
  | done (st : St) (runs : Nat)
  /-- `assert iteration <= ITERATION_LIMIT` failed -/
  | limitExceeded (st : St)
  deriving DecidableEq, Repr

/-- `while cls._run_and_apply_changes(kwargs, autofix=True): iteration += 1; assert iteration <= LIMIT`
(:407‥415); `fuel` only bounds the recursion (`limit + 2` suffices). -/
def mainLoop (limit : Nat) : (fuel : Nat) → (iteration : Nat) → St → Outcome
  | 0, _, st => .limitExceeded st
  | fuel + 1, it, st =>
    if st.diags.isEmpty then .done st (it + 1)
    else if it + 1 > limit then .limitExceeded (addIgnoresRound st)
    else mainLoop limit fuel (it + 1) (addIgnoresRound st)

/-! ## 5. `get_line_range_for_node` -/

def tq1 : Line := ['"', '"', '"']
def tq2 : Line := ['\'', '\'', '\'']

/-- `is_part_of_same_node(first_line, line)` (analysis_lib.py:66‥85) -/
def isPartOfSameNode (first line : Line) : Bool :=
  let ci := getIndentation line
  let fi := getIndentation first
  if ci > fi then true
  else
    let l := lstrip line
    if l.length = 0 then false
    else if ci == fi && (l.head? == some ')' || l.head? == some ']' || l.head? == some '}') then true
    else (hasSub tq1 first && strip line == tq1) || (hasSub tq2 first && strip line == tq2)

/-- The `while` loop (:89‥92) over the lines from index `last - 1` on. -/
def extend (first : Line) : Nat → List Line → Nat
  | last, [] => last
  | last, l :: rest => if isPartOfSameNode first l then extend first (last + 1) rest else last

/-- `get_line_range_for_node(node, lines)` for a node starting on line `first` whose sub-nodes end at
most on line `astLast` (the maximum of `end_lineno` over `ast.walk(node)`). -/
def lineRange (lines : List Line) (first astLast : Nat) : List Nat :=
  let last0 := max (first + 1) (astLast + 1)
  let last := extend (lineAt lines first) last0 (lines.drop (last0 - 1))
  List.range' first (last - first)

/-- **Before d5dca9e**: `last_lineno = max(last_lineno, end_lineno)` — the last line of a multi-line node
was included only if the indentation heuristic accepted it. -/
def oldLineRange (lines : List Line) (first astLast : Nat) : List Nat :=
  let last0 := max (first + 1) astLast
  let last := extend (lineAt lines first) last0 (lines.drop (last0 - 1))
  List.range' first (last - first)

end Pya.C16
