/-!
# Core/Format — model of `pyanalyze/format_strings.py` (+ `_str_format_impl`)

Part 1 (`%` formatting) follows, branch by branch,
* `_FORMAT_STRING_REGEX` (format_strings.py:32) as a scanner (`specAt`, `scan`): the
  language of the regex, greedy optional groups in order, non-greedy `pre_match`, `$`;
* `PercentFormatString.from_pattern` / `from_bytes_pattern` (:221/:242): the specifier list and
  which raw pieces contain a `%`;
* `ConversionSpecifier.lint` (:127), `PercentFormatString.lint` (:264);
* `PercentFormatString.accept` (:283), `accept_mapping_args_no_mvv` (:310; after cf8a3b3 the
  `None` key of unkeyed specifiers is dropped from `keys_left`), `get_serial_specifiers` (:339),
  `accept_tuple_args_no_mvv` (:355), `ConversionSpecifier.accept_no_mvv` (:154),
  `StarConversionSpecifier.accept` (:199);
* `check_string_format` (:389): result type.

Part 2 (`str.format`) follows `parse_format_string` / `_parse_children` /
`_parse_replacement_field` (:552‥676), `iter_replacement_fields` (:507/:543) and the
index / keyword accounting of `implementation.py:_str_format_impl` (:1392).

Not modelled: the exact split of `raw_pieces` (only how many pieces contain `%`), the
f-string replacement (`maybe_replace_with_fstring`), message texts (only message kinds),
non-literal arguments (unions, `TypedValue`s, `TypedDictValue` kwargs, `*args`), `\d` on
non-ASCII decimal digits, non-ASCII bytes in a bytes mapping key (pyanalyze's
`decode("ascii")`), `in_union_decomposition`.

No imports: this file must stay core-only so the drivers start fast.
-/
namespace Pya.C17

/-! ## Argument universe (literal arguments, abstracted to what the checks look at) -/

/-- A literal scalar. `int v`: the value matters for `%c`; `str`/`bytes`: only the length. -/
inductive Scalar
  | int (v : Int) | bool (b : Bool) | float | str (len : Nat) | bytes (len : Nat)
  | none | complex | list
  deriving DecidableEq, Repr, Inhabited

/-- An element of a tuple argument / a value of a dict argument. -/
inductive Elem | sc (s : Scalar) | tuple | dict
  deriving DecidableEq, Repr, Inhabited

/-- A key of a literal dict argument. -/
inductive Key | str (s : List Char) | bytes (s : List Char) | other
  deriving DecidableEq, Repr, Inhabited

/-- The right operand of `%`. -/
inductive Arg | sc (s : Scalar) | tup (es : List Elem) | dict (kvs : List (Key × Elem))
  deriving DecidableEq, Repr, Inhabited

/-! ## The regex as a scanner -/

/-- `field_width` / `precision`: `None | "*" | int`. -/
inductive WP | none | star | num (n : Nat)
  deriving DecidableEq, Repr, Inhabited

/-- `ConversionSpecifier` (format_strings.py:70). `flags`/`len`: the group is not `None`. -/
structure CSpec where
  conv : Char
  key : Option (List Char) := none
  flags : Bool := false
  width : WP := .none
  prec : WP := .none
  len : Bool := false
  deriving DecidableEq, Repr, Inhabited

def isFlagCh (c : Char) : Bool := c == '#' || c == '0' || c == '-' || c == ' ' || c == '+'
def isDigitCh (c : Char) : Bool := c.isDigit
def isLenCh (c : Char) : Bool := c == 'h' || c == 'l' || c == 'L'
/-- `[diouxXeEfFgGcrs%ba]` -/
def isConvCh (c : Char) : Bool := "diouxXeEfFgGcrs%ba".toList.contains c

def numOf (ds : List Char) : Nat := ds.foldl (fun n c => n * 10 + (c.toNat - 48)) 0

/-- Longest prefix satisfying `p` / what follows it. -/
def takeWhileC (p : Char → Bool) : List Char → List Char
  | [] => []
  | c :: r => if p c then c :: takeWhileC p r else []
def dropWhileC (p : Char → Bool) : List Char → List Char
  | [] => []
  | c :: r => if p c then dropWhileC p r else c :: r

def notRParen (c : Char) : Bool := c != ')'

/-- `(?P<mapping_key>\([^\)]+\))?` on the text after `%`: the key (if the group matches) and the
text after the group. -/
def reKey (r : List Char) : Option (List Char) × List Char :=
  match r with
  | '(' :: r' =>
    match takeWhileC notRParen r', dropWhileC notRParen r' with
    | c :: k, ')' :: r'' => (some (c :: k), r'')
    | _, _ => (none, r)
  | _ => (none, r)

/-- `(\*|\d+)` (optional) -/
def reStarOrNum (r : List Char) : WP × List Char :=
  match r with
  | '*' :: r' => (.star, r')
  | _ =>
    match takeWhileC isDigitCh r with
    | [] => (.none, r)
    | d :: ds => (.num (numOf (d :: ds)), dropWhileC isDigitCh r)

/-- `(?P<precision>\.(\*|\d+))?` -/
def rePrec (r : List Char) : WP × List Char :=
  match r with
  | '.' :: r' =>
    match reStarOrNum r' with
    | (.none, _) => (.none, r)
    | (w, r'') => (w, r'')
  | _ => (.none, r)

/-- `(?P<length_modifier>[hlL])?` -/
def reLen (r : List Char) : Bool × List Char :=
  match r with
  | c :: r' => if isLenCh c then (true, r') else (false, r)
  | [] => (false, [])

/-- After the mapping-key group: flags, width, precision, length modifier, conversion type. -/
def specTail (key : Option (List Char)) (r1 : List Char) : Option (CSpec × List Char) :=
  let fl := takeWhileC isFlagCh r1
  let w := reStarOrNum (dropWhileC isFlagCh r1)
  let p := rePrec w.2
  let l := reLen p.2
  match l.2 with
  | c :: rest =>
    if isConvCh c then
      some ({ conv := c, key := key, flags := !fl.isEmpty, width := w.1, prec := p.1, len := l.1 }, rest)
    else none
  | [] => none

/-- The specifier alternative of the regex tried right after a `%`: the optional groups, greedy
and in order, then a conversion type. Result: the specifier and the text after the match.
(Backtracking never changes the outcome: all group alphabets are disjoint from the conversion
types, and giving `0`s back from the flags to the width can only succeed when the greedy parse
does.) -/
def specAt (r : List Char) : Option (CSpec × List Char) :=
  specTail (reKey r).1 (reKey r).2

/-- What `finditer` sees: a specifier, or a `%` at which the specifier alternative fails (that
`%` ends up inside a raw piece). -/
inductive Tok | spec (s : CSpec) | bad
  deriving DecidableEq, Repr, Inhabited

/-- `list(_FORMAT_STRING_REGEX.finditer(pattern))`, reduced to the tokens above. `skip` = number
of characters still covered by the previous specifier match. Structural on the text. -/
def scanAux : Nat → List Char → List Tok
  | _, [] => []
  | k + 1, _ :: r => scanAux k r
  | 0, c :: r =>
    if c == '%' then
      match specAt r with
      | some (s, rest) => .spec s :: scanAux (r.length - rest.length) r
      | none => .bad :: scanAux 0 r
    else scanAux 0 r

def scan (t : List Char) : List Tok := scanAux 0 t

def specsOf : List Tok → List CSpec
  | [] => []
  | .spec s :: r => s :: specsOf r
  | .bad :: r => specsOf r

/-- Number of raw pieces containing a `%`: maximal runs of `bad` between specifiers. -/
def badPieces : List Tok → Nat
  | [] => 0
  | .bad :: .bad :: r => badPieces (.bad :: r)
  | .bad :: r => badPieces r + 1
  | .spec _ :: r => badPieces r

def hasBad (ts : List Tok) : Bool := ts.any (· == .bad)

/-! ## lint / accept -/

/-- Kinds of `bad_format_string` messages. -/
inductive PErr
  | pctOpts      -- "using % combined with optional specifiers does not make sense"
  | bOnStr       -- "the %b conversion specifier works only on Python 3 bytes patterns"
  | combine      -- "cannot combine specifiers that require a mapping with those that do not"
  | badSpec      -- "invalid conversion specifier in …"
  | noSpecs      -- "use of % on string with no conversion specifiers"
  | needMapping  -- "% string requires a mapping, not …"
  | missingKeys  -- "No value specified for keys …"
  | tooFew | tooMany
  | numeric      -- "%d conversion specifier accepts numbers, not …"
  | intOnly      -- "%x conversion specifier accepts integers, not …" (a9a8c6b)
  | cRange       -- "%c requires an integer in range(256), not …"
  | cLen         -- "%c requires a single character, not …"
  | cType        -- "%c requires an integer or character, not …"
  | bytesOnly    -- "%b accepts only bytes, not …"
  | starInt      -- "'*' special specifier only accepts ints, not …"
  | pctArg       -- "%% does not accept arguments"
  deriving DecidableEq, Repr, Inhabited

def CSpec.hasOpts (s : CSpec) : Bool :=
  s.key.isSome || s.flags || s.width != .none || s.prec != .none || s.len

/-- `ConversionSpecifier.lint` (:127). -/
def CSpec.lint (isBytes : Bool) (s : CSpec) : List PErr :=
  if s.conv == '%' then (if s.hasOpts then [.pctOpts] else [])
  else if s.conv == 'b' then (if !isBytes then [.bOnStr] else [])
  else []

def needsMapping (ss : List CSpec) : Bool := ss.any (·.key.isSome)

/-- `PercentFormatString.lint` (:264). -/
def lintAll (isBytes : Bool) (ts : List Tok) : List PErr :=
  let ss := specsOf ts
  let nm := needsMapping ss
  (ss.flatMap fun s =>
    s.lint isBytes ++
      (if nm && (s.key.isNone || s.prec == .star || s.width == .star) then [.combine] else []))
  ++ List.replicate (badPieces ts) .badSpec

/-- `Numeric.is_assignable`, `TypedValue(int/str/bytes).is_assignable` on literal values. -/
def Elem.numericOk : Elem → Bool
  | .sc (.int _) | .sc (.bool _) | .sc .float => true
  | _ => false
def Elem.intOk : Elem → Bool
  | .sc (.int _) | .sc (.bool _) => true
  | _ => false
def Elem.strOk : Elem → Bool
  | .sc (.str _) => true
  | _ => false
def Elem.bytesOk : Elem → Bool
  | .sc (.bytes _) => true
  | _ => false

/-- `_NUMERIC_CONVERSION_TYPES = set("diouxXeEfFgG")` -/
def isNumericConv (c : Char) : Bool := "diouxXeEfFgG".toList.contains c
/-- `self.conversion_type in "oxX"` -/
def isHexConv (c : Char) : Bool := c == 'o' || c == 'x' || c == 'X'
/-- `TypedValue(_SupportsIndex).is_assignable` on the literal universe (only reached for values
that passed `Numeric`): int and bool have `__index__`, float does not. -/
def Elem.indexOk : Elem → Bool
  | .sc (.int _) | .sc (.bool _) => true
  | _ => false

/-- `ConversionSpecifier.accept_no_mvv` (:154). -/
def CSpec.accept (isBytes : Bool) (s : CSpec) (e : Elem) : List PErr :=
  if isNumericConv s.conv then
    if !e.numericOk then [.numeric]
    else if isHexConv s.conv && !e.indexOk then [.intOnly]
    else []
  else if s.conv == 'a' || s.conv == 'r' then []
  else if s.conv == 'c' then
    if e.intOk then
      match e with
      | .sc (.int v) => if 0 ≤ v && v < 256 then [] else [.cRange]   -- `arg.val not in range(256)`
      | _ => []
    else if (isBytes && e.bytesOk) || (!isBytes && e.strOk) then
      match e with
      | .sc (.str n) | .sc (.bytes n) => if n != 1 then [.cLen] else []
      | _ => []
    else [.cType]
  else if s.conv == 'b' || (isBytes && s.conv == 's') then
    (if e.bytesOk then [] else [.bytesOnly])
  else if s.conv == 's' then []
  else if s.conv == '%' then [.pctArg]
  else []   -- `assert False`: unreachable for specifiers produced by the regex

/-- An entry of `get_serial_specifiers()` (:339). -/
inductive Serial | star | cs (s : CSpec)
  deriving DecidableEq, Repr, Inhabited

def serialOf : List CSpec → List Serial
  | [] => []
  | s :: r =>
    (if s.width == .star then [Serial.star] else []) ++
    (if s.prec == .star then [Serial.star] else []) ++
    (if s.conv != '%' then [Serial.cs s] else []) ++ serialOf r

def Serial.accept (isBytes : Bool) : Serial → Elem → List PErr
  | .star, e => if e.intOk then [] else [.starInt]
  | .cs s, e => s.accept isBytes e

def zipAccept (isBytes : Bool) : List Elem → List Serial → List PErr
  | e :: es, s :: ss => s.accept isBytes e ++ zipAccept isBytes es ss
  | _, _ => []

/-- `all_args` of `accept_tuple_args_no_mvv` (:355): the members of a tuple, else the value itself. -/
def Arg.allArgs : Arg → List Elem
  | .tup es => es
  | .sc s => [.sc s]
  | .dict _ => [.dict]

def acceptTuple (isBytes : Bool) (ss : List CSpec) (a : Arg) : List PErr :=
  let all := a.allArgs
  let ser := serialOf ss
  if all.length < ser.length then [.tooFew]
  else if all.length > ser.length then [.tooMany]
  else zipAccept isBytes all ser

/-- `cs_map[key]` of `get_specifier_mapping` (:298): the non-`%` specifiers with that key, in order. -/
def specsForKey (ss : List CSpec) (k : List Char) : List CSpec :=
  ss.filter fun s => s.conv != '%' && s.key == some k

/-- `isinstance(pair.key, KnownValue) and isinstance(pair.key.val, str)` → the string. -/
def Key.strVal : Key → Option (List Char)
  | .str s => some s
  | _ => none

/-- `seen_keys` after the loop over `kv_pairs`. -/
def strKeys (kvs : List (Key × Elem)) : List (List Char) := kvs.filterMap fun kv => kv.1.strVal

/-- The messages of the loop over `args.kv_pairs` (:324): every specifier of a string key is
applied to that key's value. -/
def perKeyErrs (isBytes : Bool) (ss : List CSpec) (kvs : List (Key × Elem)) : List PErr :=
  kvs.flatMap fun kv =>
    match kv.1.strVal with
    | some ks => (specsForKey ss ks).flatMap fun s => s.accept isBytes kv.2
    | none => []

/-- Some mapping key of a non-`%` specifier is not among the string keys of the dict. -/
def strKeyLeft (ss : List CSpec) (kvs : List (Key × Elem)) : Bool :=
  (ss.filter (·.conv != '%')).any fun s =>
    match s.key with
    | some k => !(strKeys kvs).contains k
    | none => false

/-- `non_literals` is non-empty. -/
def hasNonLiteralKey (kvs : List (Key × Elem)) : Bool := kvs.any fun kv => kv.1.strVal.isNone

/-- `accept_mapping_args_no_mvv` (:310). `keys_left` only holds real mapping keys (the `None`
key of unkeyed specifiers is filtered out, cf8a3b3), so the generator always runs to completion. -/
def acceptMapping (isBytes : Bool) (ss : List CSpec) (a : Arg) : List PErr :=
  match a with
  | .dict kvs =>
    if strKeyLeft ss kvs && !hasNonLiteralKey kvs then perKeyErrs isBytes ss kvs ++ [.missingKeys]
    else perKeyErrs isBytes ss kvs
  | _ => [.needMapping]

/-- `PercentFormatString.accept` (:283). -/
def acceptAll (isBytes : Bool) (ss : List CSpec) (a : Arg) : List PErr :=
  if ss.isEmpty then
    (if a != .tup [] && a != .dict [] then [.noSpecs] else [])
  else if needsMapping ss then acceptMapping isBytes ss a
  else acceptTuple isBytes ss a

/-- Inferred type of the `%` expression: `TypedValue(type(format_str))`. -/
inductive RTy | str | bytes
  deriving DecidableEq, Repr, Inhabited

structure POut where
  errs : List PErr    -- `bad_format_string` messages in emission order (lint first)
  ty : RTy
  deriving DecidableEq, Repr, Inhabited

/-- `check_string_format` (:389) as used by `_visit_binop_internal` (name_check_visitor.py:3739). -/
def pyaPercent (isBytes : Bool) (t : List Char) (a : Arg) : POut :=
  let ts := scan t
  { errs := lintAll isBytes ts ++ acceptAll isBytes (specsOf ts) a,
    ty := if isBytes then .bytes else .str }

/-- Something is reported on the expression. -/
def POut.reports (o : POut) : Bool := !o.errs.isEmpty

/-! ### Union-typed right operands and whole programs

`accept_mapping_args` (:306) / `accept_tuple_args` (:351) loop over `flatten_values(args)`; the
no-specifier test of `accept` compares the whole value with `KnownValue(())` / `KnownValue({})`,
so a union (a `MultiValuedValue` of ≥ 2 distinct literals) always gets the `noSpecs` message there. -/

/-- `PercentFormatString.accept` on a right operand given by its union members (`[a]` = a plain
literal). -/
def acceptAllU (isBytes : Bool) (ss : List CSpec) (as : List Arg) : List PErr :=
  match as with
  | [a] => acceptAll isBytes ss a
  | _ =>
    if ss.isEmpty then [.noSpecs]
    else if needsMapping ss then as.flatMap (acceptMapping isBytes ss)
    else as.flatMap (acceptTuple isBytes ss)

def pyaPercentU (isBytes : Bool) (t : List Char) (as : List Arg) : POut :=
  let ts := scan t
  { errs := lintAll isBytes ts ++ acceptAllU isBytes (specsOf ts) as,
    ty := if isBytes then .bytes else .str }

/-- One `template % operand` expression of a checked program. -/
structure Occ where
  isBytes : Bool
  tmpl : List Char
  args : List Arg
  deriving DecidableEq, Repr, Inhabited

def pyaOcc (o : Occ) : POut := pyaPercentU o.isBytes o.tmpl o.args

/-- Checking a program: `check_string_format` (:389) is called once per occurrence; it parses the
template afresh (`from_pattern`), `get_specifier_mapping` (:298) builds a new `defaultdict` per
call, and neither the module nor `PercentFormatString` keeps anything between calls (this is the
obligation `format_checker_is_cache_free` over `Generated/FormatCaches.lean`). So the verdicts
of a program are the verdicts of its occurrences, one by one. -/
def pyaProgram (p : List Occ) : List POut := p.map pyaOcc

/-! ### Entry routes

`check_string_format` is reached from `_visit_binop_internal` (name_check_visitor.py:3742) under the
guard "`op` is `%` and the left operand is a `KnownValue` holding a str/bytes", whatever syntax
produced the operator node and the known left value; `_str_format_impl` is the `impl` of
`str.format`. The route is therefore only a tag: the verdict is a function of (template, operand).
The registered routes are pinned against the live source by `format_entry_routes_registered`
(`Generated/FormatRoutes.lean`), and the `route` correspondence stream drives every one of them. -/

/-- How a `%` occurrence is written in the checked program. -/
inductive Route
  | binop        -- `T % A`
  | augAssign    -- `t = T; t %= A`            (visit_AugAssign, is_inplace)
  | localName    -- `t = T; t % A`
  | moduleConst  -- `K = T` at module level, `K % A` in a function
  | finalName    -- `K: Final = T`
  | literalParam -- parameter annotated `Literal[T]`
  | concat       -- `"a%d" "b%s" % A` (adjacent literals)
  | multiline    -- parenthesised, operator on a continuation line
  | inCall | inReturn | inComprehension | inIf | inLambda
  deriving DecidableEq, Repr, Inhabited

def pyaOccR (_r : Route) (o : Occ) : POut := pyaOcc o
/-- The deliberately stricter lint rules (documented in the source: the comment in
`PercentFormatString.accept` about `'' % {'a': 3}`, and the mixing rule of `lint`). -/
def PErr.lintOnly : PErr → Bool
  | .noSpecs | .combine => true
  | _ => false

/-! ## `str.format` -/

/-- `ReplacementField.arg_name`: `None | int | str`. -/
inductive ArgName | auto | idx (n : Nat) | name (s : List Char)
  deriving DecidableEq, Repr, Inhabited

/-- Kinds of parse errors of `parse_format_string` (only the first one is reported). -/
inductive FErr
  | eofBrace      -- "expected '}' before end of string"
  | eofBracket    -- "expected ']' before end of string"
  | single        -- "single '}' encountered in format string"
  | expectedOne   -- "expected one of …"
  | badAttr       -- "invalid attribute '…'"
  | badConv       -- "Unknown conversion specifier '…'"
  | braceInName   -- "unexpected '{' in field name"
  deriving DecidableEq, Repr, Inhabited

/-- One parsed replacement field, flattened: `depth` is the nesting depth (0 = top level),
`path` the number of `.attr` / `[index]` steps, `hasSpec` whether a `:` part is present and
non-empty (has children). Fields appear in `iter_replacement_fields` order. -/
structure Field where
  name : ArgName
  path : Nat := 0
  conv : Option Char := none
  hasSpec : Bool := false
  depth : Nat := 0
  deriving DecidableEq, Repr, Inhabited

def isIdentStart (c : Char) : Bool := c.isAlpha || c == '_'
def isIdentCh (c : Char) : Bool := c.isAlphanum || c == '_'
/-- `_IDENTIFIER_REGEX = ^[A-Za-z_][A-Za-z_\d]*$` (ASCII; `$` also matches before a final `\n`). -/
def isIdentifier (s : List Char) : Bool :=
  let s' := match s.reverse with | '\n' :: r => r.reverse | _ => s
  match s' with
  | c :: r => isIdentStart c && r.all isIdentCh
  | [] => false

def isSpecial (c : Char) : Bool := c == '}' || c == '.' || c == '[' || c == '!' || c == ':'

/-- `arg_name_str` → `arg_name` (:669). -/
def mkArgName (cs : List Char) : ArgName :=
  if cs.isEmpty then .auto
  else if cs.all isDigitCh then .idx (numOf cs)
  else .name cs

/-- Parser state threaded through the mutually recursive parser: remaining text, errors so far
(in order), fields so far (in `iter_replacement_fields` order). -/
structure PSt where
  rest : List Char
  errs : List FErr := []
  fields : List Field := []
  deriving Repr, Inhabited

/-- The attribute loop after `.` (:619): characters up to the next special; `none` = end of string. -/
def takeAttr : List Char → Option (List Char × List Char)
  | [] => none
  | c :: r => if isSpecial c then some ([], c :: r) else
    match takeAttr r with
    | some (a, r') => some (c :: a, r')
    | none => none

/-- The index loop after `[` (:636): characters up to `]`; `none` = end of string. -/
def takeIndex : List Char → Option (List Char × List Char)
  | [] => none
  | c :: r => if c == ']' then some ([], r) else
    match takeIndex r with
    | some (a, r') => some (c :: a, r')
    | none => none

mutual
/-- `_parse_children` (:558). `endAt = true` ⇔ `end_at == "}"`. `fuel` bounds the
recursion by the length of the text (every call consumes a character before recursing, so
`length + 1` suffices; `parseFormat` passes `2 * length + 2`). -/
def parseChildren : Nat → Nat → Bool → PSt → PSt
  | 0, _, _, st => st
  | fuel + 1, depth, endAt, st =>
    match st.rest with
    | [] =>
      if endAt then { st with errs := st.errs ++ [.eofBrace] } else st
    | c :: r =>
      if endAt && c == '}' then { st with rest := r }
      else if c == '{' then
        match r with
        | '{' :: r' => parseChildren fuel depth endAt { st with rest := r' }
        | _ => parseChildren fuel depth endAt (fieldLoop fuel depth [] 0 none false { st with rest := r })
      else if c == '}' then
        match r with
        | '}' :: r' => parseChildren fuel depth endAt { st with rest := r' }
        | _ => parseChildren fuel depth endAt { st with rest := r, errs := st.errs ++ [.single] }
      else parseChildren fuel depth endAt { st with rest := r }

/-- `_parse_replacement_field` (:596), entered after the opening `{`: its `while True` loop. `name`: `arg_name_chars` (reversed),
`path`: number of index/attribute steps, `conv`, `afterConv`: `allowed_specials` has been
narrowed to `{":", "}"}`. -/
def fieldLoop : Nat → Nat → List Char → Nat → Option Char → Bool → PSt → PSt
  | 0, _, _, _, _, _, st => st
  | fuel + 1, depth, name, path, conv, afterConv, st =>
    match st.rest with
    | [] => { st with errs := st.errs ++ [.eofBrace] }
    | c :: r =>
      if isSpecial c then
        if afterConv && !(c == ':' || c == '}') then
          { st with rest := r, errs := st.errs ++ [.expectedOne] }
        else if c == '}' then
          { st with rest := r,
                    fields := st.fields ++ [⟨mkArgName name.reverse, path, conv, false, depth⟩] }
        else if c == '.' then
          match takeAttr r with
          | none => { st with rest := [], errs := st.errs ++ [.eofBrace] }
          | some (a, r') =>
            if !isIdentifier a then { st with rest := r', errs := st.errs ++ [.badAttr] }
            else fieldLoop fuel depth name (path + 1) conv afterConv { st with rest := r' }
        else if c == '[' then
          match takeIndex r with
          | none => { st with rest := [], errs := st.errs ++ [.eofBracket] }
          | some (_, r') => fieldLoop fuel depth name (path + 1) conv afterConv { st with rest := r' }
        else if c == '!' then
          match r with
          | [] => { st with rest := [], errs := st.errs ++ [.badConv] }      -- conversion = None
          | cv :: r' =>
            if !(cv == 'r' || cv == 's' || cv == 'a') then
              { st with rest := r', errs := st.errs ++ [.badConv] }
            else
              match r' with
              | n :: _ =>
                if n == ':' || n == '}' then
                  fieldLoop fuel depth name path (some cv) true { st with rest := r' }
                else { st with rest := r', errs := st.errs ++ [.expectedOne] }
              | [] => { st with rest := r', errs := st.errs ++ [.expectedOne] }
        else  -- ':'
          -- the field is yielded before the fields of its format spec
          let nonEmpty := match r with | '}' :: _ => false | [] => false | _ => true
          parseChildren fuel (depth + 1) true
            { st with rest := r,
                      fields := st.fields ++ [⟨mkArgName name.reverse, path, conv, nonEmpty, depth⟩] }
      else if c == '{' then
        { st with rest := r, errs := st.errs ++ [.braceInName] }
      else fieldLoop fuel depth (c :: name) path conv afterConv { st with rest := r }
end

/-- `parse_format_string` (:552): the fields in `iter_replacement_fields` order and the errors. -/
def parseFormat (t : List Char) : List Field × List FErr :=
  let st := parseChildren (2 * t.length + 2) 0 false { rest := t }
  (st.fields, st.errs)

/-- Kinds of `incompatible_call` messages of `_str_format_impl`. -/
inductive FMsg
  | parse (e : FErr)     -- first parse error
  | tooFew               -- "Too few arguments to format string (expected at least N)"
  | outOfRange           -- "Numbered argument N to format string is out of range"
  | notGiven             -- "Named argument X to format string was not given"
  | unusedIdx            -- "Numbered argument(s) … were not used"
  | unusedKw             -- "Named argument(s) … were not used"
  deriving DecidableEq, Repr, Inhabited

structure AccSt where
  cur : Nat := 0                    -- current_index
  usedIdx : List Nat := []
  usedKw : List (List Char) := []
  msgs : List FMsg := []
  deriving Repr, Inhabited

/-- One iteration of `for field in parsed.iter_replacement_fields()` (implementation.py:1425). -/
def accStep (nargs : Nat) (kws : List (List Char)) (st : AccSt) (f : Field) : AccSt :=
  match f.name with
  | .auto =>
    { st with msgs := if st.cur ≥ nargs then st.msgs ++ [.tooFew] else st.msgs,
              usedIdx := st.cur :: st.usedIdx, cur := st.cur + 1 }
  | .idx i =>
    { st with msgs := if i ≥ nargs then st.msgs ++ [.outOfRange] else st.msgs,
              usedIdx := i :: st.usedIdx }
  | .name s =>
    { st with msgs := if !kws.contains s then st.msgs ++ [.notGiven] else st.msgs,
              usedKw := s :: st.usedKw }

/-- The accounting part of `_str_format_impl` on an already parsed template. -/
def accountFields (fs : List Field) (nargs : Nat) (kws : List (List Char)) : List FMsg :=
  let st := fs.foldl (accStep nargs kws) {}
  st.msgs
    ++ (if (List.range nargs).any (fun i => !st.usedIdx.contains i) then [.unusedIdx] else [])
    ++ (if kws.any (fun k => !st.usedKw.contains k) then [.unusedKw] else [])

/-- `_str_format_impl` (implementation.py:1392) for a literal template, `nargs` literal
positional arguments and literal keyword names `kws`. -/
def pyaFormat (t : List Char) (nargs : Nat) (kws : List (List Char)) : List FMsg :=
  let (fs, errs) := parseFormat t
  match errs with
  | e :: _ => [.parse e]
  | [] => accountFields fs nargs kws

/-- "unused arguments" is the documented lint of `str.format` checking. -/
def FMsg.lintOnly : FMsg → Bool
  | .unusedIdx | .unusedKw => true
  | _ => false

/-- How a `str.format` occurrence is written. -/
inductive FRoute
  | method       -- `T.format(…)`
  | strDotFormat -- `str.format(T, …)`
  | localName    -- `t = T; t.format(…)`
  | moduleConst  -- `K = T`; `K.format(…)`
  | starNames    -- `T.format(*xs, **d)` with `xs`, `d` locals holding literals
  | starLiterals -- `T.format(*(…,), **{…})`
  deriving DecidableEq, Repr, Inhabited

def pyaFormatR (_r : FRoute) (t : List Char) (nargs : Nat) (kws : List (List Char)) : List FMsg :=
  pyaFormat t nargs kws

end Pya.C17
