import PyaModel.Core.Union
/-!
# Core/Measure — size measures on value terms and a depth-bounded `substitute_typevars`

The Lean models `ca`, `unite`, `subst`, `Ty.beq`, `Ty.hashEq` (Core/Assign.lean, Core/Union.lean) are
total functions: the kernel has checked a termination argument for each. What the *Python* code needs
in order not to loop or exhaust the stack is the structural content of those arguments, made explicit
here:

* `tsize`  — number of constructor nodes (every child of a value is strictly smaller);
* `tw`     — a weight that ignores `Annotated` wrappers (leaves weigh 2): `flatten_values` never
               increases it, which gives a multiplicative bound for substitution;
* `tdepth` — nesting depth = Python recursion depth of the structurally recursive methods;
* `substF`   — `substitute_typevars` with an explicit recursion budget (`none` = the budget is
               exhausted, Python's `RecursionError`); Props/C12 proves `depth t ≤ n → substF n m t =
               some (subst m t)`.
-/
namespace Pya.C12
open Pya

mutual
/-- number of constructor nodes -/
def tsize : Ty → Nat
  | .generic _ as => 1 + tsizeL as
  | .seq _ ms => 1 + tsizeL ms
  | .many t => 1 + tsize t
  | .union ts => 1 + tsizeL ts
  | .annotated t => 1 + tsize t
  | _ => 1
def tsizeL : List Ty → Nat
  | [] => 0
  | t :: ts => tsize t + tsizeL ts
end

mutual
/-- weight: leaves 2, `Annotated` free, every other node 1 (+1 for a generic/sequence so that an
argument-less one still weighs 2) -/
def tw : Ty → Nat
  | .generic _ as => 2 + twL as
  | .seq _ ms => 2 + twL ms
  | .many t => 1 + tw t
  | .union ts => 1 + twL ts
  | .annotated t => tw t
  | _ => 2
def twL : List Ty → Nat
  | [] => 0
  | t :: ts => tw t + twL ts
end

mutual
/-- nesting depth -/
def tdepth : Ty → Nat
  | .generic _ as => 1 + tdepthL as
  | .seq _ ms => 1 + tdepthL ms
  | .many t => 1 + tdepth t
  | .union ts => 1 + tdepthL ts
  | .annotated t => 1 + tdepth t
  | _ => 1
/-- maximum depth of a list (0 for the empty list) -/
def tdepthL : List Ty → Nat
  | [] => 0
  | t :: ts => max (tdepth t) (tdepthL ts)
end

/-- the direct sub-values of a value (what the recursive methods of `value.py` descend into) -/
def tchildren : Ty → List Ty
  | .generic _ as => as
  | .seq _ ms => ms
  | .many t => [t]
  | .union ts => ts
  | .annotated t => [t]
  | _ => []

/-- largest weight of an image of the map, at least 1 -/
def mapBound : TvMap → Nat
  | [] => 1
  | (_, t) :: m => max (tw t) (mapBound m)

/-- largest depth of an image of the map -/
def mapDepth : TvMap → Nat
  | [] => 0
  | (_, t) :: m => max (tdepth t) (mapDepth m)

/-- The members `unite_values` keeps: flattened operands, de-duplicated (`unite vs` packs this list:
`[] ↦ Never`, `[v] ↦ v`, otherwise the union). -/
def uniteList (vs : List Ty) : List Ty := dedup [] (vs.flatMap flatten1)

/-- the last step of `unite_values`: no member = `Never`, one member = that member, else a union -/
def pack : List Ty → Ty
  | [] => .union []
  | [v] => v
  | l => .union l

mutual
/-- `substitute_typevars` with a recursion budget: one unit per nested method call. -/
def substF : Nat → TvMap → Ty → Option Ty
  | 0, _, _ => none
  | _ + 1, m, .tvar i => some ((m.get i).getD (.tvar i))
  | n + 1, m, .generic c as => (substFL n m as).map (Ty.generic c)
  | n + 1, m, .seq c ms => (substFL n m ms).map (Ty.seq c)
  | n + 1, m, .many t => (substF n m t).map Ty.many
  | n + 1, m, .union ts =>
    if ts.isEmpty || m.isEmpty then some (.union ts) else (substFL n m ts).map mkUnion
  | n + 1, m, .annotated t => (substF n m t).map Ty.annotated
  | _ + 1, _, t => some t
def substFL : Nat → TvMap → List Ty → Option (List Ty)
  | _, _, [] => some []
  | n, m, t :: ts =>
    match substF n m t, substFL n m ts with
    | some t', some ts' => some (t' :: ts')
    | _, _ => none
end

end Pya.C12
