import PyaModel.Core.Union
import PyaModel.Core.Ops
import PyaModel.Generated.ClassTable
import PyaModel.Spec.Mem
/-!
# Core/MiniPy — a small Python fragment and the model of what pyanalyze infers for it (property C01)

`infer` is *assembled* from the shared kernels: `unite` (Core/Union.lean = `unite_values`), `flatten1`
(`flatten_values`), `ca` (Core/Assign.lean = `Value.can_assign`), `Pya.C19.getitem` (Core/Ops.lean =
`_sequence_common_getitem_impl`). What is new here is the plumbing of `name_check_visitor.py` /
`stacked_scopes.py` for loop-free code:

* `FunctionScope` as a map name → list of *definition nodes* (`Def.val`: an assignment and the value
  assigned, `stacked_scopes.py:1102 FunctionScope.set`; `Def.con`: the fake definition node of a constraint,
  `:1056 _add_single_constraint`, holding the definition nodes it was put over);
* a name lookup (`visit_Name` :4852 → `get_local` :1126 → `_get_value_from_nodes` :1323 → `_constrain_value`
  :1573): resolve every definition node, flatten, apply the constraints, `unite_values`;
* branches: `subscope()` :1232 copies the map, `combine_subscopes` :1282 / `get_combined_scope` :1263
  chains the definition-node lists of the branches that fall through (`uniq_chain`: first occurrence wins;
  a branch that returned — `LEAVES_SCOPE` — is left out);
* `visit_If` :4531 / `visit_IfExp` :4548: constraint in the body, inverted constraint in the else part;
  `IfExp` yields `unite_values(then, else)` whatever the test;
* conditions `x is None` / `x is not None` / `not …`: `_constraint_from_compare_op` :3606 gives a
  `predicate` constraint with `EqualsPredicate(None, use_is=True)` (predicates.py:87): a literal member stays
  iff `val is None` has the wanted outcome; a non-literal member becomes `Literal[None]` if it accepts
  `None` (`is_assignable`) and disappears otherwise (positive), stays as it is (negative);
* displays: `_maybe_make_sequence` :3351 → `SequenceValue.make_or_known` (value.py:1200): all members
  literal ⇒ one literal, else a `SequenceValue`;
* literal subscripts: a literal tuple/list is first expanded (`replace_known_sequence_value`), then
  `_sequence_common_getitem_impl` (`Pya.C19.getitem`): a member, the union of all members (`args[0]`,
  fallback) or `Any[error]`; `list[T]` / `tuple[T, ...]` / `Sequence[T]` give `T`; a union on the left
  distributes (`flatten_unions`) and the results are united.

* unpacking `x1, …, xn = e` without starred target (`unpack_values`, section below) and calls to annotated
  module-level helper functions (the declared return type, whatever the arguments).

* `a + b` and `x += e` on ints / bools / strs (section "`+` on ints and strs");
* `for x in e: body` without break / continue / else (section "for loops" and the `forS` case of `inferStmt`).

Not modelled: everything else (`while`, break / continue / loop else, try, match, generic / builtin calls, boolean operators as values, comparisons as
values, attribute access, augmented assignment, starred unpacking, `possibly_undefined_name` for names bound on one
path only — the generator only reads definitely assigned names —, `simplification_limit`).
-/
namespace Pya.C01

abbrev Var := Nat
/-- Node identity: the path from the root (innermost index first). -/
abbrev Path := List Nat

/-- Conditions that pyanalyze turns into a constraint on one variable. -/
inductive Test where
  | isNone (x : Var) (pos : Bool)   -- `x is None` (pos) / `x is not None`
  | tnot (t : Test)
  deriving Repr, Inhabited

inductive Expr where
  | lit (o : Obj)
  | var (x : Var)
  | disp (isList : Bool) (es : List Expr)     -- `(e, …)` / `[e, …]`
  | sub (e : Expr) (i : Int)                  -- `e[i]`, literal int index
  | ite (t : Test) (a b : Expr)               -- `a if t else b`
  | call (f : Nat) (args : List Expr)         -- `h_f(e, …)`: an annotated module-level helper function
  | add (a b : Expr)                          -- `a + b`
  deriving Repr, Inhabited

inductive Stmt where
  | assign (x : Var) (e : Expr)
  | ifs (t : Test) (body els : List Stmt)
  | ret (e : Expr)
  | unpack (xs : List Var) (e : Expr)         -- `x1, …, xn = e` (plain names, no starred target)
  | forS (x : Var) (e : Expr) (body : List Stmt)   -- `for x in e: body` (no break / continue / else)
  | aug (x : Var) (e : Expr)                  -- `x += e`
  deriving Repr, Inhabited

/-- A function: the declared parameter types (parameters are the variables 0, 1, …), the declared return types of
the helper functions it may call, and the body. -/
structure Prog where
  params : List Ty
  rets : List Ty := []
  body : List Stmt
  deriving Repr, Inhabited

/-- the variable a test constrains and the polarity of the `is None` constraint -/
def Test.con : Test → Var × Bool
  | .isNone x pos => (x, pos)
  | .tnot t => let (x, p) := t.con; (x, !p)

/-! ## definition nodes -/

inductive Def where
  | val (id : Nat) (v : Ty)
  | con (id : Nat) (ds : List Def) (pos : Bool)
  deriving Repr, Inhabited

def isNoneObj : Obj → Bool
  | .none => true
  | _ => false

def unannot : Ty → Ty
  | .annotated t => t
  | t => t

/-- `EqualsPredicate(None, use_is=True)(value, positive)` through `Constraint.apply_to_value` (:411). -/
def narrowNone (pos : Bool) (v : Ty) : List Ty :=
  match unannot v with
  | .known k => if isNoneObj k == pos then [v] else []
  | _ => if pos then (if ca liveTable false v (.known .none) then [.known .none] else []) else [v]

/-- `_constrain_value(values, [constraint])` (:1573). -/
def constrainUnite (pos : Bool) (vs : List Ty) : Ty :=
  unite ((vs.flatMap flatten1).flatMap (narrowNone pos))

mutual
/-- `_resolve_value` (:1289) of the value stored for a definition node -/
def Def.resolve : Def → Ty
  | .val _ v => v
  | .con _ ds pos => constrainUnite pos (Def.resolveL ds)
def Def.resolveL : List Def → List Ty
  | [] => []
  | d :: ds => d.resolve :: Def.resolveL ds
end

def Def.id : Def → Nat
  | .val i _ => i
  | .con i _ _ => i

mutual
/-- identity of definition nodes as `uniq_chain` sees it (same node object): same id, and — always true of
two nodes with the same id in a run — the same content up to `==` of the stored values -/
def Def.sameB : Def → Def → Bool
  | .val i v, .val j w => i == j && Ty.beq v w
  | .con i ds p, .con j es q => i == j && p == q && Def.sameBL ds es
  | _, _ => false
def Def.sameBL : List Def → List Def → Bool
  | [], [] => true
  | d :: ds, e :: es => Def.sameB d e && Def.sameBL ds es
  | _, _ => false
end

/-- `uniq_chain` (:1569): flatten, first occurrence wins -/
def uniqInto : List Def → List Def → List Def
  | acc, [] => acc
  | acc, d :: ds => if acc.any (fun e => Def.sameB e d) then uniqInto acc ds else uniqInto (acc ++ [d]) ds

/-! ## the scope -/

abbrev Scope := List (Var × List Def)

def Scope.get (sc : Scope) (x : Var) : List Def :=
  match sc with
  | [] => []
  | (y, ds) :: rest => if y == x then ds else Scope.get rest x

def Scope.set (sc : Scope) (x : Var) (ds : List Def) : Scope :=
  match sc with
  | [] => [(x, ds)]
  | (y, es) :: rest => if y == x then (y, ds) :: rest else (y, es) :: Scope.set rest x ds

def Scope.keys (sc : Scope) : List Var := sc.map (·.1)

/-- `get_combined_scope` (:1263) of two branches that both fall through -/
def joinScopes (a b : Scope) : Scope :=
  let keys := (a.keys ++ b.keys).eraseDups
  keys.map fun x => (x, uniqInto [] (a.get x ++ b.get x))

/-- the value a name evaluates to: `_get_value_from_nodes` + `_constrain_value(values, ())` -/
def lookupDefs (ds : List Def) : Ty := unite ((Def.resolveL ds).flatMap flatten1)

/-! ## exception-class / fragment flags raised while inferring

* `noneReject` (class `C03:noneAssign`, hypothetical: never seen on the live tree): a member that contains
  `None` (`mem`) is not accepted by the model of `is_assignable(Literal[None])`;
* `litEq` (class `literalEqMerge`, a real defect): a literal subscript picks, out of a *literal* container, an
  element equal to `0`, `1`, `False` or `True` — `KnownValue.__eq__` is `type(a) is type(b) and a == b`,
  which identifies `(1,)` and `(True,)`, so `unite_values` keeps only one of them;
* `loopNotFix` (class `loopCarriedLiteral`, a real defect): the values a loop body leaves in the variables it assigns
  are not covered by the values assumed for them at the loop head (pyanalyze visits a loop body twice while
  collecting and once while checking — no fixed point);
* `frag`: a subscript outside the proved fragment (an unpacked member in the sequence, a base that is
  neither a literal/known sequence nor `list[T]`/`tuple[T, ...]`). -/
structure Flags where
  noneReject : Bool := false
  litEq : Bool := false
  frag : Bool := false
  loopNotFix : Bool := false
  deriving Repr, Inhabited, DecidableEq

def Flags.or (a b : Flags) : Flags :=
  ⟨a.noneReject || b.noneReject, a.litEq || b.litEq, a.frag || b.frag, a.loopNotFix || b.loopNotFix⟩

def Flags.none (f : Flags) : Bool := !f.noneReject && !f.litEq && !f.frag && !f.loopNotFix

mutual
/-- does resolving this definition node go through a `noneReject` member? -/
def Def.bad : Def → Bool
  | .val _ _ => false
  | .con _ ds pos =>
    Def.badL ds ||
      (pos && ((Def.resolveL ds).flatMap flatten1).any fun v =>
        match unannot v with
        | .known _ => false
        | _ => mem liveTable .none v && !ca liveTable false v (.known .none))
def Def.badL : List Def → Bool
  | [] => false
  | d :: ds => d.bad || Def.badL ds
end

/-! ## displays and subscripts -/

def allKnown : List Ty → Option (List Obj)
  | [] => some []
  | .known o :: ts => (allKnown ts).map (o :: ·)
  | _ :: _ => none

/-- `SequenceValue.make_or_known` (value.py:1200) -/
def makeOrKnown (isList : Bool) (vs : List Ty) : Ty :=
  match allKnown vs with
  | some os => .known (if isList then .list os else .tuple os)
  | none => .seq (if isList then C.list else C.tuple) vs

def memberPairs : List Ty → List (Bool × Ty)
  | [] => []
  | .many t :: ms => (true, t) :: memberPairs ms
  | t :: ms => (false, t) :: memberPairs ms

/-- literals that are `==` to a literal of another type (`1 == True`, `{1} == frozenset({1})`) -/
def numLike : Obj → Bool
  | .int n => n == 0 || n == 1
  | .bool _ => true
  | .set _ => true
  | .fset _ => true
  | _ => false

/-- `_sequence_common_getitem_impl` on a member list (`lit`: the members are the elements of a literal) -/
def seqCase (isList : Bool) (ms : List Ty) (lit : Bool) (i : Int) : Ty × Flags :=
  let pairs := memberPairs ms
  match C19.getitem (if isList then C19.SeqTyp.list else C19.SeqTyp.tuple) pairs i with
  | .member m =>
    (m, { litEq := lit && (match m with | .known o => numLike o | _ => false),
          frag := pairs.any (·.1) })
  | .fallback =>
    -- `self_value.args[0]`: the union of the members; `Any[unreachable]` for an empty member list, which
    -- disappears again in later unions, and how `args[0]` treats an `Any` member, are not modelled: flagged
    if pairs.isEmpty then (.any, { frag := true })
    else (unite (pairs.map (·.2)),
          { frag := pairs.any (·.1) || pairs.any (fun q => match q.2 with | .any => true | _ => false) })
  -- "Tuple index out of range": `Any[error]`; how that value fares afterwards is not modelled: flagged
  | .error => (.any, { frag := true })

/-- subscript of one (non-union) value by a literal int; second component: flags -/
def sub1 (v : Ty) (i : Int) : Ty × Flags :=
  match unannot v with
  | .known (.tuple xs) => seqCase false (xs.map Ty.known) true i
  | .known (.list xs) => seqCase true (xs.map Ty.known) true i
  | .seq c ms =>
    if c == C.tuple then seqCase false ms false i
    else if c == C.list then seqCase true ms false i
    else (.any, { frag := true })
  | .generic c [t] =>
    if c == C.list || c == C.tuple then (t, {}) else (t, { frag := true })
  | .any => (.any, {})
  | _ => (.any, { frag := true })

def subL (i : Int) : List Ty → List Ty × Flags
  | [] => ([], {})
  | v :: vs =>
    let (t, f) := sub1 v i
    let (ts, g) := subL i vs
    (t :: ts, f.or g)

/-- `e[i]`: `_check_dunder_call` distributes over the members of a union and unites the results -/
def subscript0 (v : Ty) (i : Int) : Ty × Flags :=
  match v with
  | .union [] => (.union [], { frag := true })   -- a call on `Never` also marks the scope as left: not modelled
  | .union ts => let (rs, f) := subL i ts; (unite rs, f)
  | _ => sub1 v i

/-- `e[i]`. A `__getitem__` whose result is `Never` (the selected member is `Never`) is a call that does not return:
pyanalyze marks the scope as left (the rest of the branch does not reach the join), which is not modelled: flagged. -/
def subscript (v : Ty) (i : Int) : Ty × Flags :=
  let r := subscript0 v i
  (r.1, r.2.or { frag := match r.1 with | .union [] => true | _ => false })

/-! ## iterable unpacking (`value.py:3135 unpack_values`, no starred target) -/

/-- `replace_known_sequence_value` (value.py) for the shapes of the fragment -/
def replaceKnownSeq (v : Ty) : Ty :=
  match unannot v with
  | .known (.tuple xs) => .seq C.tuple (xs.map Ty.known)
  | .known (.list xs) => .seq C.list (xs.map Ty.known)
  | t => t

def isKnown : Ty → Bool
  | .known _ => true
  | _ => false

/-- one non-union value: `none` = `CanAssignError` (every target then gets `Any[error]`).
Tuple forms must have exactly `n` members (`_unpack_sequence_value`); list forms of another length fall back to
the element type `args[0]`; `list[T]` / `tuple[T, ...]` give `T` (`is_iterable`). Forms with an unpacked member
and the other iterables are computed roughly and flagged `frag`. -/
def unpack1 (v : Ty) (n : Nat) : Option (List Ty) × Flags :=
  match replaceKnownSeq v with
  | .seq c ms =>
    let pairs := memberPairs ms
    let lit : Flags := { litEq := isKnown (unannot v) && ms.any (fun m => match m with | .known o => numLike o | _ => false) }
    if pairs.any (·.1) then (some (List.replicate n .any), { frag := true })
    else if c == C.tuple then (if ms.length == n then (some ms, lit) else (none, {}))
    else if c == C.list then
      (if ms.length == n then (some ms, lit)
       else if ms.isEmpty then (some (List.replicate n .any), { frag := true })
       else (some (List.replicate n (unite ms)),
             { frag := ms.any (fun m => match m with | .any => true | _ => false) }))
    else (some (List.replicate n .any), { frag := true })
  | .generic c [t] =>
    if c == C.list || c == C.tuple then (some (List.replicate n t), {}) else (some (List.replicate n t), { frag := true })
  | .any => (some (List.replicate n .any), {})
  | _ => (none, { frag := true })

def unpackL (n : Nat) : List Ty → Option (List (List Ty)) × Flags
  | [] => (some [], {})
  | v :: vs =>
    let (r, f) := unpack1 v n
    let (rs, g) := unpackL n vs
    (match r, rs with
     | some x, some xs => some (x :: xs)
     | _, _ => none, f.or g)

/-- `[unite_values(*vals) for vals in zip(*rows)]` -/
def colsUnite : Nat → List (List Ty) → List Ty
  | 0, _ => []
  | n + 1, rows => unite (rows.map (·.headD .any)) :: colsUnite n (rows.map List.tail)

/-- `unpack_values(value, ctx, n)`; on an error every target is `Any[error]` (`_visit_display` :3297) -/
def unpackVals (v : Ty) (n : Nat) : List Ty × Flags :=
  match v with
  | .union [] => (List.replicate n .any, { frag := true })
  | .union ts =>
    (match unpackL n ts with
     | (some rows, f) => (colsUnite n rows, f)
     | (none, f) => (List.replicate n .any, f))
  | _ =>
    (match unpack1 v n with
     | (some vs, f) => (vs, f)
     | (none, f) => (List.replicate n .any, f))

/-! ## `+` on ints and strs (`name_check_visitor.py:3712 _visit_binop_internal`, `:3794 _visit_binop_no_mvv`)

The left operand is flattened, the right one is passed as it is; `int.__add__` / `str.__add__` come from typeshed.
Two literals (the right operand not a union): the call is performed and the result is a literal. Otherwise the declared
return type: `int` when both sides are int-like (int / bool, literal or not), `str` when both are str-like — except a
literal str on the left with a union of literal strs on the right, which typeshed's `LiteralString` overload types as
`LiteralString` (not representable: flagged). Every other combination (tuples, lists, floats, errors) is flagged. -/

/-- int-like: `some (some n)` a literal int / bool of value `n`, `some none` the types `int` / `bool` -/
def ikind (t : Ty) : Option (Option Int) :=
  match unannot t with
  | .known (.int n) => some (some n)
  | .known (.bool b) => some (some (if b then 1 else 0))
  | .typed c => if c == C.int || c == C.bool then some none else none
  | _ => none

/-- str-like: `some (some s)` a literal str, `some none` the type `str` -/
def skind (t : Ty) : Option (Option String) :=
  match unannot t with
  | .known (.str s) => some (some s)
  | .typed c => if c == C.str then some none else none
  | _ => none

def isUnion : Ty → Bool
  | .union _ => true
  | _ => false

def add1 (l r : Ty) : Ty × Flags :=
  match ikind l with
  | some kl =>
    if (flatten1 r).all (fun m => (ikind m).isSome) && !(flatten1 r).isEmpty then
      (match kl, (if isUnion r then none else (ikind r).getD none) with
       | some a, some b => (.known (.int (a + b)), {})
       | _, _ => (.typed C.int, {}))
    else (.any, { frag := true })
  | none =>
    match skind l with
    | some kl =>
      if (flatten1 r).all (fun m => (skind m).isSome) && !(flatten1 r).isEmpty then
        (match kl, (if isUnion r then none else (skind r).getD none) with
         | some a, some b => (.known (.str (a ++ b)), {})
         | some _, none =>
           -- `LiteralString` when every member on the right is a literal
           (.typed C.str, { frag := isUnion r && (flatten1 r).all (fun m => match skind m with | some (some _) => true | _ => false) })
         | _, _ => (.typed C.str, {}))
      else (.any, { frag := true })
    | none => (.any, { frag := true })

def addL (r : Ty) : List Ty → List Ty × Flags
  | [] => ([], {})
  | l :: ls =>
    let (t, f) := add1 l r
    let (ts, g) := addL r ls
    (t :: ts, f.or g)

/-- `a + b` / the value `x += b` assigns -/
def addVals (l r : Ty) : Ty × Flags :=
  let (ts, f) := addL r (flatten1 l)
  (unite ts, f.or { frag := (flatten1 l).isEmpty })

/-! ## `for` loops: what is iterated (`value.py:2935 concrete_values_from_iterable`, `visit_For` :4207) -/

structure IterInfo where
  elem : Ty          -- the value bound to the loop variable
  always : Bool      -- `always_entered`: the iterable is known to be non-empty
  flags : Flags := {}
  deriving Repr, Inhabited

/-- one non-union value: `some ms` = the exact members, `none` = only the element type `elem` is known -/
def iter1 (v : Ty) : Option (List Ty) × Ty × Flags :=
  match replaceKnownSeq v with
  | .seq c ms =>
    let pairs := memberPairs ms
    let lit : Flags := { litEq := isKnown (unannot v) && ms.any (fun m => match m with | .known o => numLike o | _ => false) }
    if !(c == C.tuple || c == C.list) then (none, .any, { frag := true })
    else if pairs.any (·.1) then (none, unite (pairs.map (·.2)), { frag := true })
    else if ms.isEmpty then (some [], .union [], { frag := true })
    else (some ms, unite ms, lit)
  | .generic c [t] =>
    if c == C.list || c == C.tuple then (none, t, {}) else (none, t, { frag := true })
  | .any => (none, .any, {})
  | _ => (none, .any, { frag := true })

def iterL : List Ty → List (Option (List Ty) × Ty) × Flags
  | [] => ([], {})
  | v :: vs =>
    let (r, t, f) := iter1 v
    let (rs, g) := iterL vs
    ((r, t) :: rs, f.or g)

def allSameLen : List (Option Nat) → Bool
  | some n :: rest => decide (n > 0) && rest.all (· == some n)
  | _ => false

def lenOf (r : Option (List Ty) × Ty) : Option Nat :=
  match r.1 with
  | some ms => some ms.length
  | none => none

def iterInfo (v : Ty) : IterInfo :=
  match v with
  | .union [] => { elem := .union [], always := false, flags := { frag := true } }
  | .union ts =>
    -- all members with exactly known elements, and the same positive number of them: always entered
    { elem := unite ((iterL ts).1.map (·.2)), always := allSameLen ((iterL ts).1.map lenOf), flags := (iterL ts).2 }
  | _ =>
    { elem := (iter1 v).2.1, always := (match (iter1 v).1 with | some ms => !ms.isEmpty | none => false),
      flags := (iter1 v).2.2 }

/-- is the definition node `d` accounted for among `es`: the same node, or an assignment whose value has only members
that some assignment in `es` has too -/
def tyCovers (w v : Ty) : Bool := (flatten1 v).all fun m => dictMem m (flatten1 w)

def entryCovered (d : Def) (es : List Def) : Bool :=
  es.any (fun e => Def.sameB e d) ||
    (match d with
     | .val _ v => es.any fun e => match e with | .val _ w => tyCovers w v | _ => false
     | _ => false)

/-- every definition node the loop body leaves behind is covered by the scope assumed at the loop head -/
def scopeCovers (head exit : Scope) : Bool :=
  exit.all fun yd => yd.2.all fun d => entryCovered d (head.get yd.1)

mutual
def Expr.noIte : Expr → Bool
  | .ite .. => false
  | .disp _ es => Expr.noIteL es
  | .sub e _ => e.noIte
  | .call _ es => Expr.noIteL es
  | .add a b => a.noIte && b.noIte
  | _ => true
def Expr.noIteL : List Expr → Bool
  | [] => true
  | e :: es => e.noIte && Expr.noIteL es
end

mutual
/-- the names that occur as the base of a subscript -/
def Expr.subBases : Expr → List Var
  | .sub e _ => (match e with | .var x => [x] | _ => []) ++ e.subBases
  | .disp _ es => Expr.subBasesL es
  | .ite _ a b => a.subBases ++ b.subBases
  | .call _ es => Expr.subBasesL es
  | .add a b => a.subBases ++ b.subBases
  | _ => []
def Expr.subBasesL : List Expr → List Var
  | [] => []
  | e :: es => e.subBases ++ Expr.subBasesL es
end

mutual
def Stmt.subBases : Stmt → List Var
  | .assign _ e => e.subBases
  | .ret e => e.subBases
  | .unpack _ e => e.subBases
  | .aug _ e => e.subBases
  | .forS _ e b => e.subBases ++ Stmt.subBasesL b
  | .ifs _ b e => Stmt.subBasesL b ++ Stmt.subBasesL e
def Stmt.subBasesL : List Stmt → List Var
  | [] => []
  | s :: ss => s.subBases ++ Stmt.subBasesL ss
end

mutual
def Stmt.assigned : Stmt → List Var
  | .assign x _ => [x]
  | .ret _ => []
  | .unpack xs _ => xs
  | .aug x _ => [x]
  | .forS x _ b => x :: Stmt.assignedL b
  | .ifs _ b e => Stmt.assignedL b ++ Stmt.assignedL e
def Stmt.assignedL : List Stmt → List Var
  | [] => []
  | s :: ss => s.assigned ++ Stmt.assignedL ss
end

/-- a subscript `y[i]` in a loop body that also assigns `y`: pyanalyze resolves the composite variable `y[i]` from only
part of the definitions of `y` (known class `loopCarriedSubscript`); not modelled: flagged -/
def carriedSub (x : Var) (body : List Stmt) : Bool :=
  (x :: Stmt.assignedL body).any fun y => (Stmt.subBasesL body).contains y

/-- loop bodies for which the three-visit model below is exact: assignments and unpackings without conditional
expressions (no constraint is created inside the loop) -/
def simpleBody : List Stmt → Bool
  | [] => true
  | .assign _ e :: ss => e.noIte && simpleBody ss
  | .unpack _ e :: ss => e.noIte && simpleBody ss
  | .aug _ e :: ss => e.noIte && simpleBody ss
  | _ :: _ => false

/-! ## inference -/

structure St where
  sc : Scope
  next : Nat
  flags : Flags
  log : List (Path × Ty)
  deriving Repr, Inhabited

/-- `add_constraint` (:1039): the name now has one fake definition node over its current ones -/
def St.addCon (st : St) (x : Var) (pos : Bool) : St :=
  { st with sc := st.sc.set x [.con st.next (st.sc.get x) pos], next := st.next + 1 }

def St.lookup (st : St) (x : Var) : Ty × St :=
  let ds := st.sc.get x
  (lookupDefs ds, { st with flags := st.flags.or { noneReject := Def.badL ds } })

/-- visiting the test reads the variable (`visit_Compare` → `visit_Name`) -/
def Test.var (t : Test) : Var := t.con.1

section
-- `R`: the declared return types of the helper functions
variable (R : List Ty)

mutual
def inferExpr (st : St) (p : Path) : Expr → Ty × St
  | .lit o => let t := Ty.known o; (t, { st with log := st.log ++ [(p, t)] })
  | .var x =>
    let (t, st1) := st.lookup x
    (t, { st1 with log := st1.log ++ [(p, t)] })
  | .disp isList es =>
    let (ts, st1) := inferList st p 0 es
    let t := makeOrKnown isList ts
    (t, { st1 with log := st1.log ++ [(p, t)] })
  | .sub e i =>
    let (v, st1) := inferExpr st (0 :: p) e
    let (t, f) := subscript v i
    (t, { st1 with flags := st1.flags.or f, log := st1.log ++ [(p, t)] })
  | .ite tst a b =>
    let (_, st0) := st.lookup tst.var
    let (x, pos) := tst.con
    let (va, sa) := inferExpr (st0.addCon x pos) (1 :: p) a
    let (vb, sb) := inferExpr ({ sa with sc := st0.sc }.addCon x (!pos)) (2 :: p) b
    let t := unite [va, vb]
    (t, { sb with sc := joinScopes sa.sc sb.sc, log := sb.log ++ [(p, t)] })
  | .call f args =>
    -- `visit_Call` on an annotated function: the arguments are visited (and checked — diagnostics are not modelled),
    -- the result is the declared return type whether or not the arguments fit (signature.py check_call)
    let (ts, st1) := inferList st p 0 args
    let t := R.getD f .any
    -- (a `Never` argument makes the call `NoReturn` and marks the scope as left: not modelled, flagged)
    let fl : Flags := { frag := ts.any fun a => match a with | .union [] => true | _ => false }
    (t, { st1 with flags := st1.flags.or fl, log := st1.log ++ [(p, t)] })
  | .add a b =>
    let (va, st1) := inferExpr st (0 :: p) a
    let (vb, st2) := inferExpr st1 (1 :: p) b
    let (t, f) := addVals va vb
    (t, { st2 with flags := st2.flags.or f, log := st2.log ++ [(p, t)] })
def inferList (st : St) (p : Path) (k : Nat) : List Expr → List Ty × St
  | [] => ([], st)
  | e :: es =>
    let (t, st1) := inferExpr st (k :: p) e
    let (ts, st2) := inferList st1 p (k + 1) es
    (t :: ts, st2)
end

/-- the targets are visited left to right, each one is a new definition node -/
def assignAll (st : St) : List Var → List Ty → St
  | x :: xs, v :: vs => assignAll { st with sc := st.sc.set x [.val st.next v], next := st.next + 1 } xs vs
  | _, _ => st

/-- the state in which a visit of a loop body starts: the loop variable is bound to the element value (its definition
node is the `for` target: the same in every visit), the rest of the scope is `sc` -/
def forStart (st0 : St) (x : Var) (elem : Ty) (sc : Scope) (fl : Flags) (lg : List (Path × Ty)) : St :=
  { sc := sc.set x [.val st0.next elem], next := st0.next + 1, flags := fl, log := lg }

/-! Result of a block: the state, and whether the block falls through (no `return` on the way). -/
mutual
def inferStmt (st : St) (p : Path) : Stmt → St × Bool
  | .assign x e =>
    let (v, st1) := inferExpr R st (0 :: p) e
    ({ st1 with sc := st1.sc.set x [.val st1.next v], next := st1.next + 1 }, true)
  | .ret e =>
    let (_, st1) := inferExpr R st (0 :: p) e
    (st1, false)
  | .unpack xs e =>
    let (v, st1) := inferExpr R st (0 :: p) e
    let (vs, f) := unpackVals v xs.length
    (assignAll { st1 with flags := st1.flags.or f } xs vs, true)
  | .aug x e =>
    -- `visit_AugAssign` :4743: the right operand first, then the target is read, `+` as above (ints and strs have
    -- no `__iadd__`), then assigned
    let (vr, st1) := inferExpr R st (0 :: p) e
    let (vl, st2) := st1.lookup x
    let (t, f) := addVals vl vr
    ({ st2 with sc := st2.sc.set x [.val st2.next t], next := st2.next + 1, flags := st2.flags.or f }, true)
  | .forS x e body =>
    -- `visit_For` :4207. Collecting phase: the body is visited from the pre-loop scope, then again from the scope
    -- after the loop; checking phase: once, every read using the definition nodes recorded by BOTH collecting visits
    -- (`usage_to_definition_nodes`), i.e. the pre-loop ones and those the second visit saw, with the values the
    -- second visit stored. No further iteration: `loopNotFix` records that the result is not a fixed point.
    let (v, st0) := inferExpr R st (0 :: p) e
    let info := iterInfo v
    let p1 := inferBlock (forStart st0 x info.elem st0.sc {} []) (1 :: p) 0 body
    let s2 := if info.always then p1.1.sc else joinScopes p1.1.sc st0.sc
    let p2 := inferBlock (forStart st0 x info.elem s2 {} []) (1 :: p) 0 body
    let s3 := joinScopes st0.sc p2.1.sc
    let p3 := inferBlock (forStart st0 x info.elem s3 (st0.flags.or info.flags) st0.log) (1 :: p) 0 body
    let after := if info.always then p3.1.sc else joinScopes p3.1.sc st0.sc
    ({ p3.1 with sc := after,
                 flags := p3.1.flags.or { loopNotFix := !scopeCovers s3 p3.1.sc,
                                          frag := !simpleBody body || !p3.2 || p1.1.flags.frag || p2.1.flags.frag ||
                                                  carriedSub x body } }, true)
  | .ifs tst body els =>
    let (_, st0) := st.lookup tst.var
    let (x, pos) := tst.con
    let (sa, fa) := inferBlock (st0.addCon x pos) (1 :: p) 0 body
    let (sb, fb) := inferBlock ({ sa with sc := st0.sc }.addCon x (!pos)) (2 :: p) 0 els
    let sc := if fa && fb then joinScopes sa.sc sb.sc else if fa then sa.sc else if fb then sb.sc else st0.sc
    ({ sb with sc := sc }, fa || fb)
def inferBlock (st : St) (p : Path) (k : Nat) : List Stmt → St × Bool
  | [] => (st, true)
  | s :: ss =>
    let (st1, f1) := inferStmt st (k :: p) s
    if f1 then inferBlock st1 p (k + 1) ss else (st1, false)
end

end

def initScope (k : Nat) : List Ty → Scope
  | [] => []
  | t :: ts => (k, [Def.val k t]) :: initScope (k + 1) ts

def initSt (prog : Prog) : St :=
  { sc := initScope 0 prog.params, next := prog.params.length, flags := {}, log := [] }

/-- What pyanalyze infers for every expression node of the function: `(path, value)` in visiting order. -/
def infer (prog : Prog) : St := (inferBlock prog.rets (initSt prog) [] 0 prog.body).1

end Pya.C01
