import PyaModel.Core.Union
/-!
# Core/Narrow — model of type narrowing (property C02)

Follows, branch by branch:

* `pyanalyze/stacked_scopes.py` — `Constraint.apply_to_value` (:321, one clause per
  `ConstraintType`), `Constraint.invert` (:307), `NullConstraint`, `PredicateProvider`,
  `EquivalentConstraint`, `AndConstraint`, `OrConstraint` (`apply` / `invert` / `make`, :460-:640),
  `constrain_value` / `_constrain_value` (:1556-:1592: flatten the union, apply every concrete
  constraint to every member, unite);
* `pyanalyze/predicates.py` — `is_universally_assignable` (:32), `IsAssignablePredicate` (:48, incl.
  `positive_only`), `EqualsPredicate` (:87), `InPredicate` (:133);
* `pyanalyze/value.py` — `_deliteral` (:3372), `is_overlapping` (:3381), `flatten_values`,
  `annotate_value`; `Value.is_assignable` is `ca tbl false` of `Core/Assign.lean`;
* `pyanalyze/boolability.py` — `get_boolability` (:72), `_get_boolability_no_mvv` (:100),
  `Boolability.is_safely_true/false`; `_get_type_boolability` enters as a regenerated per-class
  table (`BoolTable`, `Generated/NarrowTables.lean`);
* `pyanalyze/implementation.py` — `len_of_value` (:1545), `len_transformer` (:1563), and
  `name_check_visitor.py` `_constraint_from_predicate_provider` (:3657) for `len(x) <op> n`;
* how conditions become constraints: `_isinstance_impl` (:137), `_issubclass_impl` (:114),
  `_constraint_from_compare_op` (:3606: `is`/`is not`/`==`/`!=`/`in`/`not in`),
  `_visit_possible_constraint` (:4184: truthiness), `signature.py:737/:726` (TypeIs / TypeGuard),
  `patma.py:312` (class pattern without sub-patterns = `positive_only`),
  `implementation.py:179` (`assert_is_instance` → `is_instance`), `visit_If` (:4531: the else branch
  applies `constraint.invert()`), `visit_BoolOp` (:3411) / `extract_constraints` (:1600) for
  `and` / `or` / `not`.

Normal-form choices (validated by the correspondence run):
* a single variable is narrowed, so the `varname` of a constraint is dropped and
  `OrConstraint._group_constraints` has one group per disjunct;
* `id()`-based de-duplication / absorption inside `AndConstraint.make` / `OrConstraint.make` is not
  modelled (the harness never passes the same constraint object twice); `OrConstraint.apply`
  de-duplicates its alternatives in order (`dict.fromkeys`, /repo 5fee81d; formerly `list(set(...))`),
  the model keeps them in order too; results are nevertheless compared as sets (member order is C10's);
* metadata of `AnnotatedValue` is not represented (`annotated t` stands for any metadata), so
  `annotate_value(v, [MinLen…])` is `annotate v`;
* `is` on literals is `type(a) is type(b) and a == b` (`Obj.same`) — exact for the singletons
  (None, bools, enum members, classes) the `is` conditions of the fragment use.
Not modelled: comparison predicates `<`,`<=`,… on the variable itself (they only add
`CustomCheckExtension` metadata), `sys.platform`/`sys.version_info` definite values, match sequence /
mapping patterns (`LenPredicate`), TypedDict / Callable / unbound-method values, constraints on
attribute or subscript varnames, `simplification_limit` (`unite_and_simplify` only acts on unions of
≥ 100 members).
-/
namespace Pya.C02

/-! ## Regenerated per-class facts -/

/-- `Boolability` (boolability.py:33); the numeric order is the one `min(..., key=b.value)` uses. -/
inductive Boolab where
  | erroring | boolable | vaFalseMut | vaTrueMut | vaFalse | vaTrue | typeTrue
  deriving Repr, DecidableEq, Inhabited

def Boolab.rank : Boolab → Nat
  | .erroring => 1 | .boolable => 2 | .vaFalseMut => 3 | .vaTrueMut => 4 | .vaFalse => 5
  | .vaTrue => 6 | .typeTrue => 7

def Boolab.ofCode : Nat → Boolab
  | 1 => .erroring | 3 => .vaFalseMut | 4 => .vaTrueMut | 5 => .vaFalse | 6 => .vaTrue
  | 7 => .typeTrue | _ => .boolable

def Boolab.name : Boolab → String
  | .erroring => "erroring_bool" | .boolable => "boolable" | .vaFalseMut => "value_always_false_mutable"
  | .vaTrueMut => "value_always_true_mutable" | .vaFalse => "value_always_false"
  | .vaTrue => "value_always_true" | .typeTrue => "type_always_true"

/-- `is_safely_true` (boolability.py:50) -/
def Boolab.safelyTrue : Boolab → Bool
  | .vaTrue => true | .vaTrueMut => true | .typeTrue => true | _ => false
/-- `is_safely_false` (boolability.py:53): `value_always_false_mutable` is deliberately not safe -/
def Boolab.safelyFalse : Boolab → Bool
  | .vaFalse => true | _ => false

/-- Facts regenerated from the live tree for every class of the universe (same index as the
class table): `_get_type_boolability(c)` and `_get_type_boolability(c, is_exact=True)` as
`Boolability.value`, the number of members of an Enum class, `issubclass(c, KNOWN_MUTABLE_TYPES)`. -/
structure BoolTable where
  typeBoolL : List Nat
  typeBoolExactL : List Nat
  enumCountL : List Nat
  mutableL : List Bool
  /-- behaviour of `_visit_single_compare` for `<literal> <op> len(x)` (probed on the live tree):
  `true` = the operator is mirrored before the constraint is built (correct), `false` = the
  operator is used as written, as if the comparison were `len(x) <op> <literal>` (the defect
  `reversedLenCompare`) -/
  lenRevMirrored : Bool := false
  /-- behaviour of `visit_BoolOp` for `and` (probed on the live tree): `true` = the member values of the
  `and` expression keep the `ConstraintExtension`s of the operands, so `extract_constraints` can read
  them back (the defect `nullAbsorbLeak`), `false` = they are stripped -/
  andValueLeaks : Bool := true
  deriving Repr, Inhabited

namespace BoolTable
variable (T : BoolTable)
def typeBool (c : Cls) : Boolab := Boolab.ofCode (T.typeBoolL.getD c 2)
def typeBoolExact (c : Cls) : Boolab := Boolab.ofCode (T.typeBoolExactL.getD c 2)
def enumCount (c : Cls) : Nat := T.enumCountL.getD c 0
def isMutable (c : Cls) : Bool := T.mutableL.getD c false
end BoolTable

/-! ## Small helpers on terms and objects -/

/-- `unannotate` (value.py:2855): one level. -/
def unann : Ty → Ty
  | .annotated t => t
  | t => t

/-- `replace_known_sequence_value` strips every `Annotated` layer. -/
def unannAll : Ty → Ty
  | .annotated t => unannAll t
  | t => t

/-- `bool(o)` on the object universe (floats / complex tokens are non-zero, instances of the user
classes and class objects are true — validated against CPython by the `spec` stream). -/
def truthy : Obj → Bool
  | .int n => n != 0
  | .bool b => b
  | .str s => s != ""
  | .bytes s => s != ""
  | .none => false
  | .flt _ => true | .cplx _ => true | .inst _ _ => true | .cls _ => true
  | .tuple xs => !xs.isEmpty | .list xs => !xs.isEmpty | .set xs => !xs.isEmpty
  | .fset xs => !xs.isEmpty
  | .dict ks _ => !ks.isEmpty

/-- `len(o)`; `none` = `TypeError` (the universe has no other sized objects). -/
def objLen : Obj → Option Nat
  | .str s => some s.length
  | .bytes s => some s.length
  | .tuple xs => some xs.length | .list xs => some xs.length | .set xs => some xs.length
  | .fset xs => some xs.length
  | .dict ks _ => some ks.length
  | _ => none

/-- the class a `TypedValue`-like term carries (`isinstance(v, TypedValue)`: also NewType, generic
and sequence values) -/
def typOf? : Ty → Option Cls
  | .typed c => some c
  | .newtype _ c => some c
  | .generic c _ => some c
  | .seq c _ => some c
  | _ => none

def isManyAll : List Ty → Bool
  | [] => true
  | .many _ :: ms => isManyAll ms
  | _ :: _ => false

def hasManyMember : List Ty → Bool
  | [] => false
  | .many _ :: _ => true
  | _ :: ms => hasManyMember ms

/-! ## Boolability (boolability.py) -/

/-- `_get_boolability_no_mvv` (boolability.py:100). A falsy literal of an always-true type trips an
`assert` in the code; the universe has none, the model answers `erroring`. A union reaching this
function (a union nested in a union / in `Annotated` inside a union; since /repo 67ee234 handed back
to `get_boolability`, before that an `assert False`) is outside the fragment: values are flat
(`valueOk`), the model answers `boolable` there and the harness never builds such a value. -/
def boolNoMvv (tbl : ClassTable) (T : BoolTable) (v : Ty) : Boolab :=
  match unannAll v with
  | .any => .boolable
  | .seq c ms =>
    if ms.isEmpty then (if c == C.tuple then .vaFalse else .vaFalseMut)
    else if isManyAll ms then .boolable
    else if c == C.tuple then .typeTrue else .vaTrueMut
  | .known (.tuple xs) => if xs.isEmpty then .vaFalse else .typeTrue
  | .known (.list xs) => if xs.isEmpty then .vaFalseMut else .vaTrueMut
  | .known (.set xs) => if xs.isEmpty then .vaFalseMut else .vaTrueMut
  | .known (.dict ks _) => if ks.isEmpty then .vaFalseMut else .vaTrueMut
  | .subclass _ => .typeTrue
  | .known o =>
    let tb := T.typeBoolExact (clsOf tbl o)
    if truthy o then
      (match tb with | .boolable => .vaTrue | .typeTrue => .typeTrue | _ => .erroring)
    else (match tb with | .boolable => .vaFalse | _ => .erroring)
  | .typed c => T.typeBool c
  | .newtype _ c => T.typeBool c
  | .generic c _ => T.typeBool c
  | _ => .boolable

def minRank : List Boolab → Boolab
  | [] => .boolable
  | [b] => b
  | b :: bs => let m := minRank bs; if b.rank ≤ m.rank then b else m

/-- `get_boolability` (boolability.py:72): the union rule. -/
def getBool (tbl : ClassTable) (T : BoolTable) (v : Ty) : Boolab :=
  match unannAll v with
  | .union ts =>
    let bs := ts.map (boolNoMvv tbl T)
    if bs.contains .erroring then .erroring
    else if bs.contains .boolable then .boolable
    else if bs.any Boolab.safelyTrue && bs.any (fun b => b == .vaFalse || b == .vaFalseMut) then .boolable
    else minRank bs
  | _ => boolNoMvv tbl T v

/-! ## Predicates (predicates.py) -/

inductive CmpOp where
  | eq | ne | lt | le | gt | ge
  deriving Repr, DecidableEq, Inhabited

def CmpOp.eval (op : CmpOp) (a b : Int) : Bool :=
  match op with
  | .eq => a == b | .ne => a != b | .lt => decide (a < b) | .le => decide (a ≤ b)
  | .gt => decide (a > b) | .ge => decide (a ≥ b)

/-- the second component of `COMPARATOR_TO_OPERATOR` (= `AST_TO_REVERSE`) -/
def CmpOp.neg : CmpOp → CmpOp
  | .eq => .ne | .ne => .eq | .lt => .ge | .le => .gt | .gt => .le | .ge => .lt

/-- the operator with its operands exchanged: `a op b ↔ b op.mirror a` -/
def CmpOp.mirror : CmpOp → CmpOp
  | .eq => .eq | .ne => .ne | .lt => .gt | .le => .ge | .gt => .lt | .ge => .le

/-- The predicate objects a `predicate` constraint carries. -/
inductive Pred where
  | isAssignable (pat : Ty) (positiveOnly : Bool)
  | equals (l : Obj) (useIs : Bool)
  | inP (container : Obj)
  | len (op : CmpOp) (n : Int)
  | always                       -- patma.py:172 `AlwaysMatching` (wildcard / capture pattern)
  deriving Repr, Inhabited

/-- `_deliteral` (value.py:3372) -/
def deliteral (tbl : ClassTable) (v : Ty) : Ty :=
  match unann v with
  | .known o => .typed (clsOf tbl o)
  | .seq c _ => .typed c
  | t => t

/-- `is_overlapping(pattern, value)` (value.py:3381). A non-empty union on the left is decomposed
with the operands swapped, so a union `value` (the pattern a previous constraint of an AND returned) is
decomposed in the nested call; members of a union are never unions themselves. -/
def overlapping (tbl : ClassTable) (pat v : Ty) : Bool :=
  let r := deliteral tbl v
  match deliteral tbl pat with
  | .union (p :: ps) =>
    (p :: ps).any fun q =>
      let q' := deliteral tbl q
      match r with
      | .union (w :: ws) =>
        (w :: ws).any fun x =>
          let x' := deliteral tbl x
          ca tbl false q' x' || ca tbl false x' q'
      | _ => ca tbl false r q' || ca tbl false q' r
  | l => ca tbl false l r || ca tbl false r l

/-- `is_universally_assignable(value, target)` (predicates.py:32) -/
def univAssignable : Ty → Ty → Bool
  | .any, _ => true
  | .union [], _ => true
  | .typed c, .subclass _ => c == C.type
  | .annotated v, t => univAssignable v t
  | .union vs, t => univAll vs t
  | .tvar _, _ => true
  | _, _ => false
where univAll : List Ty → Ty → Bool
  | [], _ => true
  | v :: vs, t => univAssignable v t && univAll vs t

/-- elements of a literal container (`list(other_val)`), `none` for a non-container -/
def containerElems : Obj → Option (List Obj)
  | .tuple xs => some xs | .list xs => some xs | .set xs => some xs | .fset xs => some xs
  | _ => none

def isHashContainer : Obj → Bool
  | .set _ => true | .fset _ => true | _ => false

/-- `k in container` does not raise: hash containers need a hashable key (a `set` key is retried as
a frozenset by CPython) -/
def inDefined (container k : Obj) : Bool :=
  !isHashContainer container || k.hashable ||
    (match k with | .set xs => Obj.hashableAll xs | _ => false)

/-- `pattern_type`: the common type of the elements, else `object`
(name_check_visitor.py:3623-3628). Only the enum branch looks at it. -/
def patternEnum (tbl : ClassTable) (elems : List Obj) : Option Cls :=
  match elems with
  | .inst c _ :: rest =>
    if tbl.isEnum c && rest.all (fun e => match e with | .inst d _ => d == c | _ => false) then some c
    else none
  | _ => none

/-- `unite_values(*[KnownValue(m) for m in enum if keep m])` -/
def enumRest (T : BoolTable) (c : Cls) (drop : Nat → Bool) : Ty :=
  unite (((List.range (T.enumCount c)).filter (fun i => !drop i)).map fun i => .known (.inst c i))

/-- `len_of_value` (implementation.py:1545): `some n` = `KnownValue(n)`, `none` = `TypedValue(int)`. -/
def lenOfValue (T : BoolTable) : Ty → Option Nat
  | .seq c ms => if !T.isMutable c && !hasManyMember ms then some ms.length else none
  | .known (.list _) => none
  | .known (.set _) => none
  | .known (.dict _ _) => none
  | .known o => objLen o
  | _ => none

/-- `predicate(value, positive)`: `none` = filtered out. -/
def applyPred (tbl : ClassTable) (T : BoolTable) (p : Pred) (v : Ty) (pos : Bool) : Option Ty :=
  match p with
  | .isAssignable pat positiveOnly =>
    if pos then
      if !overlapping tbl pat v then none
      else if ca tbl false pat v then
        (if univAssignable v (unann pat) then some pat else some v)
      else some pat
    else if !positiveOnly && ca tbl false pat v && !univAssignable v (unann pat) then none
    else some v
  | .equals l useIs =>
    match unann v with
    | .known k =>
      let r := if useIs then Obj.same k l else Obj.pyEq k l
      if r == pos then some v else none
    | inner =>
      if pos then (if ca tbl false v (.known l) then some (.known l) else none)
      else match l, inner with
        | .bool b, .typed c => if c == C.bool then some (.known (.bool !b)) else some v
        | .inst e i, .typed c =>
          if tbl.isEnum e && c == e then some (enumRest T e (fun j => j == i)) else some v
        | _, _ => some v
  | .inP container =>
    let elems := (containerElems container).getD []
    match unann v with
    | .known k =>
      if !inDefined container k then some v
      else if (elems.any fun e => Obj.pyEq k e) == pos then some v else none
    | inner =>
      if pos then
        match elems.filter (fun e => ca tbl false v (.known e)) with
        | [] => none
        | acc => some (unite (acc.map .known))
      else match patternEnum tbl elems, inner with
        | some e, .typed c =>
          if c == e then
            some (enumRest T e fun j => elems.any fun x => Obj.pyEq (.inst e j) x)
          else some v
        | _, _ => some v
  | .always => if pos then some v else none
  | .len op n =>
    match lenOfValue T v with
    | some k =>
      if (if pos then op else op.neg).eval (Int.ofNat k) n then some v else none
    | none =>
      match (if pos then op else op.neg) with
      | .ne => some v
      | _ => some (annotate v)

/-! ## Concrete constraints (`Constraint`, stacked_scopes.py:267) -/

inductive K where
  | isInstance (c : Cls) (pos : Bool)
  | isValue (o : Obj) (pos : Bool)
  | isValueObject (t : Ty) (pos : Bool)
  | isTruthy (pos : Bool)
  | predicate (p : Pred) (pos : Bool)
  | addAnnotation (pos : Bool)
  | oneOf (ks : List K)
  | allOf (ks : List K)
  deriving Repr, Inhabited

/-- `Constraint.invert` (:307): flips `positive`; `one_of` / `all_of` ignore the flag. -/
def K.invert : K → K
  | .isInstance c p => .isInstance c !p
  | .isValue o p => .isValue o !p
  | .isValueObject t p => .isValueObject t !p
  | .isTruthy p => .isTruthy !p
  | .predicate q p => .predicate q !p
  | .addAnnotation p => .addAnnotation !p
  | k => k

mutual
/-- `Constraint.apply_to_value` (:321) on a non-union value. -/
def applyK (tbl : ClassTable) (T : BoolTable) : K → Ty → List Ty
  | .isInstance c pos, v =>
    match unann v with
    | .any => if pos then [.typed c] else [.any]
    | .known o => if tbl.issub (clsOf tbl o) c == pos then [v] else []
    | .subclass d => if tbl.issub (tbl.metaOf d) c == pos then [v] else []
    | inner =>
      match typOf? inner with
      | some d =>
        if pos then
          (if tbl.issub d c then [v] else if tbl.issub c d then [.typed c] else [])
        else (if tbl.issub d c then [] else [v])
      | none => []
  | .isValue o pos, v =>
    if pos then
      match unann v with
      | .any => [.known o]
      | .known k => if Obj.same k o then [v] else []
      | .subclass d => (match o with | .cls e => if tbl.issub e d then [.known o] else [] | _ => [])
      | inner =>
        match typOf? inner with
        | some d => if tbl.issub (clsOf tbl o) d then [.known o] else []
        | none => []
    else
      match unann v with
      | .known k => if Obj.same k o then [] else [v]
      | _ => [v]
  | .isValueObject t pos, v => if pos then [t] else [v]
  | .isTruthy pos, v =>
    let b := getBool tbl T (unann v)
    if pos then (if b.safelyFalse then [] else [v]) else (if b.safelyTrue then [] else [v])
  | .predicate p pos, v => (applyPred tbl T p v pos).toList
  | .addAnnotation pos, v => if pos then [annotate v] else [v]
  | .oneOf ks, v => applyOne tbl T ks v
  | .allOf ks, v => applySeq tbl T ks [v]
/-- `one_of`: the results of every alternative, concatenated -/
def applyOne (tbl : ClassTable) (T : BoolTable) : List K → Ty → List Ty
  | [], _ => []
  | k :: ks, v => applyK tbl T k v ++ applyOne tbl T ks v
/-- `all_of` / the loop of `_constrain_value` (`Constraint.apply_to_values` :316): each constraint
filters the current list -/
def applySeq (tbl : ClassTable) (T : BoolTable) : List K → List Ty → List Ty
  | [], vs => vs
  | k :: ks, vs => applySeq tbl T ks (vs.flatMap fun v => applyK tbl T k v)
end

/-- `_constrain_value` (:1572) -/
def constrainKs (tbl : ClassTable) (T : BoolTable) (v : Ty) (ks : List K) : Ty :=
  match applySeq tbl T ks (flatten1 v) with
  | [] => Ty.never
  | vs => unite vs

/-! ## Abstract constraints -/

inductive AC where
  | null
  | k (c : K)
  | and (cs : List AC)
  | or (cs : List AC)
  | equiv (cs : List AC)
  | provider
  | otherK        -- a concrete constraint on *another* variable (a distinct object, never `NULL_CONSTRAINT`)
  deriving Repr, Inhabited

mutual
/-- `AbstractConstraint.invert` -/
def AC.invert : AC → AC
  | .null => .null
  | .k c => .k c.invert
  | .and cs => .or (AC.invertL cs)
  | .or cs => .and (AC.invertL cs)
  | .equiv cs => .equiv (AC.invertL cs)
  | .provider => .null
  | .otherK => .otherK
def AC.invertL : List AC → List AC
  | [] => []
  | c :: cs => c.invert :: AC.invertL cs
end

/-- `_constraint_from_list` (:583) -/
def groupK : List K → K
  | [k] => k
  | ks => .allOf ks

mutual
/-- `AbstractConstraint.apply`: the concrete constraints that are active. -/
def AC.apply : AC → List K
  | .null => []
  | .k c => [c]
  | .and cs => AC.applyL cs
  | .equiv cs => AC.applyL cs
  | .or cs =>
    -- OrConstraint.apply (:603): a `one_of` only if every disjunct constrains the variable
    match AC.groups cs with
    | [] => []
    | g :: gs => if g.isEmpty || gs.any List.isEmpty then [] else [.oneOf ((g :: gs).map groupK)]
  | .provider => []
  | .otherK => []
def AC.applyL : List AC → List K
  | [] => []
  | c :: cs => c.apply ++ AC.applyL cs
def AC.groups : List AC → List (List K)
  | [] => []
  | c :: cs => c.apply :: AC.groups cs
end

/-- splice the children of nested nodes of the same kind (first loop of every `make`) -/
def spliceAnd : List AC → List AC
  | [] => []
  | .and xs :: cs => xs ++ spliceAnd cs
  | c :: cs => c :: spliceAnd cs
def spliceOr : List AC → List AC
  | [] => []
  | .or xs :: cs => xs ++ spliceOr cs
  | c :: cs => c :: spliceOr cs

def AC.isNull : AC → Bool
  | .null => true
  | _ => false
def hasNull (cs : List AC) : Bool := cs.any AC.isNull

/-- the `processed` dict of every `make` is keyed by `id()`: the singleton `NULL_CONSTRAINT` occurs
at most once in the result -/
def dedupNull : List AC → List AC
  | [] => []
  | .null :: cs => .null :: cs.filter (fun c => !c.isNull)
  | c :: cs => c :: dedupNull cs

/-- "A AND (A OR B) reduces to A" (stacked_scopes.py:578) for the one shared object of the fragment, the
singleton `NULL_CONSTRAINT`: an `or` conjunct with `NULL` among its alternatives is dropped when
`NULL` is a conjunct (opaque operands). -/
def absorbAnd (xs : List AC) : List AC :=
  if hasNull xs then
    dedupNull (xs.filter (fun c => match c with | .or ys => !hasNull ys | _ => true))
  else xs
/-- dually "A OR (A AND B) reduces to A" (:630) with `A = NULL` -/
def absorbOr (xs : List AC) : List AC :=
  if hasNull xs then
    dedupNull (xs.filter (fun c => match c with | .and ys => !hasNull ys | _ => true))
  else xs

/-- `AndConstraint.make` (:566); of the `id()`-based rules only the instance above is modelled -/
def AC.mkAnd (cs : List AC) : AC :=
  match absorbAnd (spliceAnd cs) with
  | [] => .null
  | [c] => c
  | xs => .and xs
/-- `OrConstraint.make` (:618) -/
def AC.mkOr (cs : List AC) : AC :=
  match absorbOr (spliceOr cs) with
  | [] => .null
  | [c] => c
  | xs => .or xs

/-- `constrain_value(value, constraint)` (:1556) -/
def constrain (tbl : ClassTable) (T : BoolTable) (v : Ty) (a : AC) : Ty :=
  constrainKs tbl T v a.apply

/-! ## Conditions and the constraints the checker builds for them -/

/-- The conditions of the fragment (on one variable `x`). -/
inductive Cond where
  | isinst (cs : List Cls)          -- isinstance(x, (C1, …))
  | issub (cs : List Cls)           -- issubclass(x, (C1, …))
  | is (l : Obj) | isNot (l : Obj)  -- x is l / x is not l   (l a singleton)
  | eq (l : Obj) | ne (l : Obj)     -- x == l / x != l       (also `case l:`)
  | inC (container : Obj) | notIn (container : Obj)
  | truthy                          -- if x:
  | len (op : CmpOp) (n : Int)      -- len(x) <op> n
  | lenRev (op : CmpOp) (n : Int)   -- n <op> len(x)   (the literal on the left)
  | typeIs (t : Ty)                 -- f(x) with f returning TypeIs[t]
  | typeGuard (t : Ty)              -- f(x) with f returning TypeGuard[t]
  | matchClass (c : Cls)            -- case C():
  | assertInst (c : Cls)            -- the `is_instance` constraint of assert_is_instance
  | assertIs (l : Obj)              -- the `is_value` constraint of qcore assert_is
  deriving Repr, Inhabited

/-- the constraint for the branch in which the condition holds -/
def Cond.k (T : BoolTable) : Cond → K
  | .isinst cs => .predicate (.isAssignable (unite (cs.map .typed)) false) true
  | .issub cs => .predicate (.isAssignable (unite (cs.map .subclass)) false) true
  | .is l => .predicate (.equals l true) true
  | .isNot l => .predicate (.equals l true) false
  | .eq l => .predicate (.equals l false) true
  | .ne l => .predicate (.equals l false) false
  | .inC c => .predicate (.inP c) true
  | .notIn c => .predicate (.inP c) false
  | .truthy => .isTruthy true
  | .len op n => .predicate (.len op n) true
  -- name_check_visitor.py:3560 `_constraint_from_predicate_provider(rhs_constraint, lhs.val, op)`
  | .lenRev op n => .predicate (.len (if T.lenRevMirrored then op.mirror else op) n) true
  | .typeIs t => .predicate (.isAssignable t false) true
  | .typeGuard t => .isValueObject t true
  | .matchClass c => .predicate (.isAssignable (.typed c) true) true
  | .assertInst c => .isInstance c true
  | .assertIs l => .isValue l true

/-- Boolean combinations (`visit_BoolOp`, `visit_UnaryOp`) over three kinds of atoms: a condition on
the narrowed variable (`leaf`), a condition on *another* variable (`other`: its constraint carries a
different varname), and an **opaque** operand that yields no constraint at all (`opaque i`: a call, a
comparison of two non-literals, `isinstance(x, cls_var)` …; its truth is the `i`-th bit of the
environment and is independent of the narrowed variable). -/
inductive BCond where
  | leaf (c : Cond)
  | other (c : Cond)
  | capture (c : Cond)   -- an atom on a *capture* of the same object (`case y if y is None`): another varname
  | opaque (i : Nat)
  | not (b : BCond)
  | and (bs : List BCond)
  | or (bs : List BCond)
  deriving Repr, Inhabited

mutual
/-- **The ideal constraint algebra**: the constraint of the condition expression projected on the
narrowed variable when every operator only combines the constraints of its operands — `not` inverts
(name_check_visitor.py:3699), `and` is `AndConstraint.make(reversed(...))` (:3463), `or` is
`OrConstraint.make` of the operands' constraints **including `NULL_CONSTRAINT` for an operand without
constraint**. An opaque operand contributes `NullConstraint`, an atom on another variable a
constraint that `apply` never yields for this variable. `NULL` is the unit of AND and **absorbing**
for OR (`AC.apply` on `.or`: some group empty ⇒ nothing is applied). -/
def BCond.acIdeal (T : BoolTable) : BCond → AC
  | .leaf c => .k (c.k T)
  | .other _ => .otherK
  | .capture _ => .otherK
  | .opaque _ => .null
  | .not b => (b.acIdeal T).invert
  | .and bs => AC.mkAnd (BCond.acIdealL T bs).reverse
  | .or bs => AC.mkOr (BCond.acIdealL T bs)
def BCond.acIdealL (T : BoolTable) : List BCond → List AC
  | [] => []
  | b :: bs => b.acIdeal T :: BCond.acIdealL T bs
end

/-- The value of a condition expression as far as `extract_constraints` (stacked_scopes.py:1600) can
see it: a union of member values, each carrying the constraint of its own `ConstraintExtension`s
(`null` = none), under an optional annotation of the whole value (`top`). -/
structure CVal where
  top : AC
  members : List AC
  deriving Inhabited

def nonNull (cs : List AC) : List AC := cs.filter fun c => !c.isNull

/-- `extract_constraints`: `AnnotatedValue` → `AndConstraint.make([its constraints, the base's])`,
`MultiValuedValue` → `OrConstraint.make` of the members' constraints, anything else `NULL`.
Normal form: when the annotation of the whole value is present, the `or` of the members is one of the
conjuncts `AndConstraint.make` absorbs by identity (one of its alternatives *is* a conjunct) or an
additional weaker conjunct; it is left out. When the annotation is `NULL` — the conjunction collapsed —
the `or` of the members is all that is extracted. -/
def CVal.ext (v : CVal) : AC :=
  let base := match v.members with
    | [m] => m
    | ms => AC.mkOr ms
  if v.top.isNull then base else v.top

/-- the members as `unite_values` splices them into an enclosing union: the annotation of the whole
value is handed down to every member (`annotate_value(subval, value.metadata)`, value.py:2894) -/
def CVal.flat (v : CVal) : List AC :=
  if v.top.isNull then v.members else v.members.map fun m => AC.mkAnd (nonNull [m, v.top])

mutual
/-- The value `visit_BoolOp` / `visit_UnaryOp` / the atoms produce. For `and` the value is the
union of the operand values (the earlier ones constrained falsy, which keeps their annotations)
annotated with the `AndConstraint`; for `or` the bare union (name_check_visitor.py:3458-3468). -/
def BCond.cv (T : BoolTable) : BCond → CVal
  | .leaf c => ⟨.null, [.k (c.k T)]⟩
  | .other _ => ⟨.null, [.otherK]⟩
  | .capture _ => ⟨.null, [.otherK]⟩
  | .opaque _ => ⟨.null, [.null]⟩
  | .not b => ⟨.null, [(b.cv T).ext.invert]⟩
  | .and bs =>
    ⟨AC.mkAnd (BCond.extL T bs).reverse,
     -- without the leak the member values are stripped of their constraints: whatever their number, they all
     -- get the one annotation of the whole value when spliced into a union, and `make` keeps one copy of it
     if T.andValueLeaks then BCond.flatL T bs else [.null]⟩
  | .or bs => ⟨.null, BCond.flatL T bs⟩
def BCond.extL (T : BoolTable) : List BCond → List AC
  | [] => []
  | b :: bs => (b.cv T).ext :: BCond.extL T bs
def BCond.flatL (T : BoolTable) : List BCond → List AC
  | [] => []
  | b :: bs => (b.cv T).flat ++ BCond.flatL T bs
end

/-- **The constraint the checker extracts from the condition** (`constraint_from_condition`,
name_check_visitor.py:4569: `extract_constraints` of the value of the expression). It differs from
`acIdeal` exactly where the members of the value are read back: when a conjunction collapses to
`NULL` (every conjunct is opaque or an `or` with an opaque alternative), the constraints of the
operands' member values survive as a disjunction — exception class `nullAbsorbLeak`. -/
def BCond.ac (T : BoolTable) (b : BCond) : AC := (b.cv T).ext

/-- **The narrowed type** of a variable of type `v` in the branch of `if <c>` taken when the
condition evaluates to `pol` (`visit_If`: the body gets the constraint, the else branch its
inverse). -/
def narrow (tbl : ClassTable) (T : BoolTable) (v : Ty) (c : Cond) (pol : Bool) : Ty :=
  constrainKs tbl T v [if pol then c.k T else (c.k T).invert]

def narrowB (tbl : ClassTable) (T : BoolTable) (v : Ty) (b : BCond) (pol : Bool) : Ty :=
  constrain tbl T v (if pol then b.ac T else (b.ac T).invert)

/-- narrowing with the ideal constraint algebra -/
def narrowBIdeal (tbl : ClassTable) (T : BoolTable) (v : Ty) (b : BCond) (pol : Bool) : Ty :=
  constrain tbl T v (if pol then b.acIdeal T else (b.acIdeal T).invert)

/-! ## `match` statements (patma.py, name_check_visitor.py:5666 `visit_Match`) -/

/-- The patterns of the fragment. A **singleton** pattern (`case None` / `case True` / `case False`,
`visit_MatchSingleton` patma.py:184) tests *identity* (`EqualsPredicate(..., use_is=True)`), a **value**
pattern (`case 1`, `case "a"`, `case Color.RED`, `visit_MatchValue` :191) tests `==`; `case C():`
is the class pattern without sub-patterns (:300, `positive_only`), `case _:` the wildcard
(`AlwaysMatching`), `p | q` the or-pattern (`OrConstraint.make`, :399). -/
inductive Pat where
  | singleton (l : Obj)
  | value (l : Obj)
  | cls (c : Cls)
  | wildcard
  | or (ps : List Pat)
  deriving Repr, Inhabited

mutual
/-- the constraint `PatmaVisitor.visit(pattern)` returns -/
def Pat.ac (T : BoolTable) : Pat → AC
  | .singleton l => .k ((Cond.is l).k T)
  | .value l => .k ((Cond.eq l).k T)
  | .cls c => .k ((Cond.matchClass c).k T)
  | .wildcard => .k (.predicate .always true)
  | .or ps => AC.mkOr (Pat.acL T ps)
def Pat.acL (T : BoolTable) : List Pat → List AC
  | [] => []
  | p :: ps => p.ac T :: Pat.acL T ps
end

/-- what `visit_Match` adds for the cases after a pattern: `AndConstraint.make([pattern]).invert()` -/
def Pat.negKs (T : BoolTable) (p : Pat) : List K := (AC.mkAnd [p.ac T]).invert.apply

/-- the concrete constraints active in the body of case `i` (`i = ps.length`: after the last
case, i.e. no case matched): the inverses of all earlier patterns, then the pattern itself -/
def caseKs (T : BoolTable) (ps : List Pat) (i : Nat) : List K :=
  ((ps.take i).flatMap (Pat.negKs T)) ++ (match ps[i]? with | some p => (p.ac T).apply | none => [])

/-- the type of the subject variable in the body of case `i` / on the fall-through path -/
def matchBody (tbl : ClassTable) (T : BoolTable) (v : Ty) (ps : List Pat) (i : Nat) : Ty :=
  constrainKs tbl T v (caseKs T ps i)

/-- the type of the subject after the statement when no body leaves the function: the case scopes
and the fall-through scope are combined -/
def matchAfter (tbl : ClassTable) (T : BoolTable) (v : Ty) (ps : List Pat) : Ty :=
  unite ((List.range (ps.length + 1)).map (matchBody tbl T v ps))

/-! ### guarded cases (name_check_visitor.py:5712-5745) -/

/-- a case of a `match` statement: a pattern and an optional guard (any condition of the grammar:
atoms on the subject, on a capture, on another variable, opaque operands) -/
structure MCase where
  pat : Pat
  guard : Option BCond := none
  deriving Inhabited

/-- the constraints `visit_Match` collects for a case: the pattern's and — *also when it is the null
constraint* — the guard's (`constraint_from_condition(case.guard)`) -/
def MCase.acs (T : BoolTable) (c : MCase) : List AC :=
  c.pat.ac T :: (match c.guard with | some g => [g.ac T] | none => [])

/-- what is added for the following cases and the code after the statement:
`AndConstraint.make(constraints).invert()`. With an opaque guard this is `OR(¬pattern, NULL)`, which
applies nothing: an object that matched the pattern but failed the guard flows on. -/
def MCase.negKs (T : BoolTable) (c : MCase) : List K := (AC.mkAnd (c.acs T)).invert.apply

/-- what is active in the body: `add_constraint(case.pattern, …)`, then `add_constraint(case.guard, …)` -/
def MCase.posKs (T : BoolTable) (c : MCase) : List K := AC.applyL (c.acs T)

def gcaseKs (T : BoolTable) (cs : List MCase) (i : Nat) : List K :=
  ((cs.take i).flatMap (MCase.negKs T)) ++ (match cs[i]? with | some c => c.posKs T | none => [])

def gmatchBody (tbl : ClassTable) (T : BoolTable) (v : Ty) (cs : List MCase) (i : Nat) : Ty :=
  constrainKs tbl T v (gcaseKs T cs i)

def gmatchAfter (tbl : ClassTable) (T : BoolTable) (v : Ty) (cs : List MCase) : Ty :=
  unite ((List.range (cs.length + 1)).map (gmatchBody tbl T v cs))

end Pya.C02
