/-!
# Core/NodeCopy — model of `pyanalyze.node_visitor.NodeTransformer.generic_visit` (property C16)

The non-mutating AST copier behind `ReplacingNodeVisitor.replace_node`, i.e. behind every node-level
automatic fix (`missing_f`, `use_fstrings`, unused comprehension variable → `_`,
`too_many_positional_args`, `missing_await`, `task_needs_yield`, `impure_async_call`).

`generic_visit(node)` (node_visitor.py:1043‥1064), field by field (`ast.iter_fields`):

* a **list** field: every entry that is an AST node is visited — result `None` ⇒ the entry is dropped,
  result not an AST (a list) ⇒ its elements are spliced in, otherwise the result is appended; an entry that
  is **not** an AST node (a string of `Global.names`, the `None` placeholders of `Dict.keys` for `**m` and
  of `arguments.kw_defaults` for keyword-only parameters without default) is appended **as it is**;
* an AST-valued field is replaced by whatever `visit` returns;
* any other value (numbers, strings, `None`) is copied;
* the node is rebuilt as `type(node)(**attributes)`; `copy_location` only concerns line/column attributes,
  which are not fields and are not modelled.

`visit` dispatches to `generic_visit` unless a subclass intercepts the node: the interception is the
parameter `hook` (for `ReplaceNodeTransformer`: the node that *is* `node_to_replace` — identity, here the
node's `id` — returns the replacement without descending).

A generic tree type stands for `ast.AST`: a node has a kind, an identity and named fields; a field is a
leaf value, a child node, or a list whose entries are `None`, a non-AST value, or a node.
-/
namespace Pya.C16

mutual
  inductive Tree
    | mk (kind : String) (id : Nat) (fields : FieldList)
  inductive FieldList
    | nil
    | cons (name : String) (f : Field) (rest : FieldList)
  inductive Field
    /-- a value that is neither an AST node nor a list (`None` is the leaf `"None"`) -/
    | leaf (v : String)
    | child (t : Tree)
    | many (items : ItemList)
  inductive ItemList
    | nil
    | cons (i : Item) (rest : ItemList)
  inductive Item
    /-- a `None` entry of a list field in the *original* tree -/
    | none
    /-- another non-AST entry (e.g. a name in `Global.names`) -/
    | val (v : String)
    | tree (t : Tree)
end

def Tree.id : Tree → Nat
  | .mk _ i _ => i

/-- What `visit` may return. -/
inductive VR
  | tree (t : Tree)
  | none
  /-- not an AST: a list of nodes, spliced into a list field -/
  | many (ts : List Tree)

def ItemList.append : ItemList → ItemList → ItemList
  | .nil, b => b
  | .cons i r, b => .cons i (r.append b)

def itemsOfTrees : List Tree → ItemList
  | [] => .nil
  | t :: ts => .cons (.tree t) (itemsOfTrees ts)

mutual
  /-- `self.visit(node)`: the subclass's interception, else `generic_visit`. -/
  def visit (hook : Tree → Option VR) : Tree → VR
    | .mk k i fs =>
      match hook (.mk k i fs) with
      | some r => r
      | Option.none => .tree (.mk k i (copyFields hook fs))
  def copyFields (hook : Tree → Option VR) : FieldList → FieldList
    | .nil => .nil
    | .cons n f rest => .cons n (copyField hook f) (copyFields hook rest)
  def copyField (hook : Tree → Option VR) : Field → Field
    | .leaf v => .leaf v
    | .child t =>
      match visit hook t with
      | .tree t' => .child t'
      | .none => .leaf "None"
      | .many ts => .many (itemsOfTrees ts)
    | .many items => .many (copyItems hook items)
  def copyItems (hook : Tree → Option VR) : ItemList → ItemList
    | .nil => .nil
    | .cons .none rest => .cons .none (copyItems hook rest)            -- not an AST: `new_value.append(value)`
    | .cons (.val v) rest => .cons (.val v) (copyItems hook rest)
    | .cons (.tree t) rest =>
      match visit hook t with
      | .tree t' => .cons (.tree t') (copyItems hook rest)
      | .none => copyItems hook rest                                   -- `if value is None: continue`
      | .many ts => (itemsOfTrees ts).append (copyItems hook rest)     -- `new_value.extend(value)`
end

/-- `NodeTransformer()` itself: nothing intercepted. -/
def noHook : Tree → Option VR := fun _ => Option.none

/-- `ReplaceNodeTransformer(node_to_replace, replacement)` (:1067‥1076). -/
def replaceHook (target : Nat) (r : Tree) : Tree → Option VR :=
  fun t => if t.id == target then some (.tree r) else Option.none

/-! ## The registry of fix routes (regenerated: `Generated/FixRoutes.lean`) -/

/-- One place where a fix is produced: a call of `replace_node` / `remove_node` / `Replacement(…)` (or a store
into `_changes_for_fixer`) inside `func`, the expression it rewrites (`target`), what is known about the kind of
that node (`targetKind`: `expr:<classes>`, `stmt:<classes>`, `other:…`, `unknown`) and of the replacement
(`replKind`), the conditions it sits under (`guards`, outermost first; `not (…)` for else branches and early
exits) and the callers of `func`. -/
structure Route where
  file : String
  func : String
  call : String
  target : String
  targetKind : String
  replKind : String
  guards : List String
  callers : List String
  deriving DecidableEq, Repr

end Pya.C16
