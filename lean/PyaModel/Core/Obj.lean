/-!
# Core/Obj — the runtime object universe and value terms

`Obj` is the universe of concrete Python objects the properties quantify over;
`Ty` mirrors the `Value` classes of `pyanalyze/value.py` that the modelled kernels
dispatch on. Classes are numbers indexing the regenerated class table
(`Generated/ClassTable.lean`); the ids of the builtins below are fixed and the
translator is obliged to emit them at these positions (`ClassTable.builtinNames_ok`).
-/
namespace Pya

abbrev Cls := Nat

namespace C
def object : Cls := 0
def int : Cls := 1
def bool : Cls := 2
def float : Cls := 3
def complex : Cls := 4
def str : Cls := 5
def bytes : Cls := 6
def none : Cls := 7
def tuple : Cls := 8
def list : Cls := 9
def set : Cls := 10
def frozenset : Cls := 11
def dict : Cls := 12
def type : Cls := 13
end C

/-- Concrete objects. Floats and complex numbers are opaque tokens (never equal to an
int: the generators only use non-integral floats); `inst c i` is the `i`-th instance of user
class `c` (for an Enum class: its `i`-th member); `cls c` is the class object itself.
Sets are lists without duplicates in canonical order (the codec sorts them). -/
inductive Obj where
  | int (n : Int) | bool (b : Bool) | str (s : String) | bytes (s : String) | none
  | flt (id : Nat) | cplx (id : Nat)
  | inst (c : Cls) (id : Nat)
  | cls (c : Cls)
  | tuple (xs : List Obj) | list (xs : List Obj) | set (xs : List Obj) | fset (xs : List Obj)
  | dict (ks : List Obj) (vs : List Obj)
  deriving Repr, Inhabited

/-- Value terms (`pyanalyze.value`). `many t` only occurs as a member of `seq` (an `is_many`
member, i.e. `*tuple[t, ...]`). `subclass c` is `type[c]`; `newtype n c` a NewType number `n`
over class `c`; `annotated t` an `Annotated[t, ...]` without extensions; `tvar i` a `TypeVarValue` (only the
union/substitution algebra and the type-variable solver look inside; assignability and
membership treat a free type variable as outside their fragment). -/
inductive Ty where
  | any
  | known (o : Obj)
  | typed (c : Cls)
  | newtype (n : Nat) (c : Cls)
  | generic (c : Cls) (args : List Ty)
  | seq (c : Cls) (ms : List Ty)
  | many (t : Ty)
  | union (ts : List Ty)
  | subclass (c : Cls)
  | annotated (t : Ty)
  | tvar (i : Nat)
  deriving Repr, Inhabited

def Ty.never : Ty := .union []

/-! ## Equality on objects

`Obj.same` is identity-of-value *and type* (what `Literal[...]` membership and
`KnownValue.__eq__` need at top level: `type(a) is type(b) and a == b`); `Obj.pyEq` is
Python's `==`, which identifies `1 == True` and `{1} == frozenset({1})` and is what nested
comparisons inside containers use. -/
mutual
def Obj.pyEq : Obj → Obj → Bool
  | .int a, .int b => a == b
  | .int a, .bool b => a == (if b then 1 else 0)
  | .bool a, .int b => (if a then 1 else 0) == b
  | .bool a, .bool b => a == b
  | .str a, .str b => a == b
  | .bytes a, .bytes b => a == b
  | .none, .none => true
  | .flt a, .flt b => a == b
  | .cplx a, .cplx b => a == b
  | .inst c i, .inst d j => c == d && i == j
  | .cls c, .cls d => c == d
  | .tuple xs, .tuple ys => Obj.pyEqList xs ys
  | .list xs, .list ys => Obj.pyEqList xs ys
  | .set xs, .set ys => Obj.pyEqList xs ys
  | .set xs, .fset ys => Obj.pyEqList xs ys
  | .fset xs, .set ys => Obj.pyEqList xs ys
  | .fset xs, .fset ys => Obj.pyEqList xs ys
  | .dict ks vs, .dict ks' vs' => Obj.pyEqList ks ks' && Obj.pyEqList vs vs'
  | _, _ => false
def Obj.pyEqList : List Obj → List Obj → Bool
  | [], [] => true
  | x :: xs, y :: ys => Obj.pyEq x y && Obj.pyEqList xs ys
  | _, _ => false
end

/-- Constructor tag = `type(o)` up to the class table (`clsOf` refines it). -/
def Obj.tag : Obj → Nat
  | .int _ => 0 | .bool _ => 1 | .str _ => 2 | .bytes _ => 3 | .none => 4 | .flt _ => 5
  | .cplx _ => 6 | .inst c _ => 100 + c | .cls _ => 7 | .tuple _ => 8 | .list _ => 9
  | .set _ => 10 | .fset _ => 11 | .dict _ _ => 12

/-- `type(a) is type(b) and a == b`. -/
def Obj.same (a b : Obj) : Bool := a.tag == b.tag && Obj.pyEq a b

/-! Is the object hashable in Python (lists, sets, dicts and anything containing them are not)? -/
mutual
def Obj.hashable : Obj → Bool
  | .list _ => false | .set _ => false | .dict _ _ => false
  | .tuple xs => Obj.hashableAll xs
  | .fset xs => Obj.hashableAll xs
  | _ => true
def Obj.hashableAll : List Obj → Bool
  | [] => true
  | x :: xs => Obj.hashable x && Obj.hashableAll xs
end

end Pya
