import PyaModel.Spec.SigAssignSpec
/-!
# Core/Obtain — the signature of a callable as a function of how it was obtained

The actual callable `g` that is passed where a callable is expected is rarely a bare `def`: it is
read off an instance or a class, wrapped in `staticmethod` / `classmethod`, inherited, returned by
a property, or it is an object with `__call__`, or a class.  pyanalyze derives its signature in
`attributes.py` (`_get_attribute_from_mro` → `_unwrap_value_from_typed`: property / classmethod /
bound method / function-or-staticmethod via `inspect.getattr_static` → `UnboundMethodValue` or the
plain function) and `signature_from_value` (`bind_self` for `UnboundMethodValue`, `__call__`,
`__init__`).  The model of all that is one function: `effectiveSig how hdr` — the header a caller
of the obtained object has to satisfy, `hdr` being the header as written in the `def` (without
`self` / `cls`).  It does not depend on whether the member is defined on the class or inherited
(`Obtained.depth`).  The `obtain` correspondence stream ties the implementation to it; CPython's
`inspect.signature` of the really obtained object validates it as a specification.
-/
namespace Pya.C07

/-- How the callable value is obtained. -/
inductive How
  | plain          -- module-level `def g(hdr)`
  | nested         -- `def` inside a function
  | lambda         -- `lambda hdr: …`
  | bound          -- `inst.h`, `def h(self, hdr)`
  | funcViaClass   -- `Cls.h`, `def h(self, hdr)`: the plain function, `self` is an ordinary parameter
  | staticInst     -- `inst.s`, `@staticmethod def s(hdr)`
  | staticCls      -- `Cls.s`
  | classInst      -- `inst.k`, `@classmethod def k(cls, hdr)`
  | classCls       -- `Cls.k`
  | callInst       -- `inst`, its class has `def __call__(self, hdr)`
  | ctor           -- `Cls`, `def __init__(self, hdr)`
  | prop           -- `inst.p`, `@property def p(self): return g`
  deriving DecidableEq, Repr, Inhabited

/-- An obtained callable: how, and how many classes up the member is defined (0 = on the class
itself). -/
structure Obtained where
  how : How
  depth : Nat
  deriving DecidableEq, Repr, Inhabited

variable {τ : Type}

/-- `hdr` with an ordinary first parameter `self` (annotation `a`). -/
def withSelfParam (a : τ) (hdr : TDefSig τ) : TDefSig τ :=
  if hdr.po.isEmpty then { hdr with pk := ⟨"self", false, a⟩ :: hdr.pk }
  else { hdr with po := ⟨"self", false, a⟩ :: hdr.po }

/-- The header a caller of the obtained object has to satisfy (`a` = the "no annotation" value,
used for `self` and for the result of a constructor). -/
def effectiveSig (a : τ) (o : Obtained) (hdr : TDefSig τ) : TDefSig τ :=
  match o.how with
  | .funcViaClass => withSelfParam a hdr
  | .ctor => { hdr with ret := a }
  | _ => hdr

/-- pyanalyze's verdict for an obtained callable where `exp` is expected. -/
def obtainOk (R : TyRel τ) (a : τ) (exp : TDefSig τ) (o : Obtained) (hdr : TDefSig τ) : Bool :=
  sigCanAssign R exp.tsig (effectiveSig a o hdr).tsig

end Pya.C07
