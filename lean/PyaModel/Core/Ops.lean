/-!
# Core/Ops — models of pyanalyze's "operate on known objects" kernels (property C19)

Four models, each following the Python branch by branch (defects included; the off-by-two of
`index_from_back`, implementation.py:447, was repaired in /repo by 07b1f6d and the model follows the repaired code):

* `getitem` — `implementation.py:408 _sequence_common_getitem_impl`, the branch
  `isinstance(key, KnownValue) and isinstance(key.val, int) and isinstance(self_value, SequenceValue)`
  (implementation.py:419‥457): indexing a tuple/list whose members are known one by one, possibly
  with variadic members `(is_many=True, T)` (`*tuple[T, ...]`), by a literal int (negative allowed).
* `binop` — `name_check_visitor.py:3794 _visit_binop_no_mvv` (the `rmethod is not None` part,
  lines 3855‥3896) on top of `_check_dunder_call_no_mvv` (5145) and the "perform the call on known
  arguments" step of `_check_call_no_mvv` (5582‥5600): try `type(l).__op__(l, r)`, then
  `type(r).__rop__(r, l)`, report `unsupported_operation` iff both produced errors.
* `attrFallback` — `name_check_visitor.py:5319 _get_attribute_fallback`, `KnownValue` branch
  (5330‥5350, 5373): what happens when `attributes.get_attribute` found nothing on a known object.
* `knownAttr` / `attrReported` — `attributes.py:430 _get_attribute_from_known` and `:504
  _get_attribute_from_mro`: the precedence of the lookup of `obj.name` on a known object.

Not modelled: keys that are not literal ints (slices, `__index__` objects, unions), `typ is Sequence`,
the in-place operators, `in`, `%` on str/bytes (format strings, property C17), unions of operands,
`AnnotatedValue` wrappers, `IgnoredPaths`, `super()` objects.

Core-only, no imports (the driver must start fast).
-/
namespace Pya.C19

/-! ## 1. literal subscript on a `SequenceValue` -/

/-- `typ` argument of `_sequence_common_getitem_impl`; only "is it `tuple`" matters in the modelled branch. -/
inductive SeqTyp | tuple | list
  deriving DecidableEq, Repr, Inhabited

/-- Outcome of the modelled branch: one member, the common type `self_value.args[0]` (the union of all
members), or the error "Tuple index out of range" (`incompatible_call`) with `Any[error]`. -/
inductive GetRes (α : Type) | member (x : α) | fallback | error
  deriving DecidableEq, Repr, Inhabited

/-- `SequenceValue.get_member_sequence` (value.py): the plain member list, or `None` as soon as one
member is variadic. -/
def memberSequence {α : Type} : List (Bool × α) → Option (List α)
  | [] => some []
  | (many, m) :: rest => if many then none else (memberSequence rest).map (m :: ·)

/-- CPython's `members[key]` for a list and a possibly negative int (`list_subscript`:
negative indices get `len` added once, then a bounds check). -/
def pyIndex {α : Type} (ms : List α) (key : Int) : Option α :=
  if key < 0 then
    (if -key ≤ (ms.length : Int) then ms[ms.length - (-key).toNat]? else none)
  else ms[key.toNat]?

/-- The two scanning loops (implementation.py:440‥445 and 448‥455):
```
for i, (is_many, member) in enumerate(members):
    if is_many: break
    if i == target: return member
```
`none` = fell out of the loop (give up). -/
def scan {α : Type} (target : Nat) : Nat → List (Bool × α) → Option α
  | _, [] => none
  | i, (many, m) :: rest =>
    if many then none else if i == target then some m else scan target (i + 1) rest

/-- implementation.py:419‥457. `ms` = `self_value.members`, `key` = `key.val`. -/
def getitem {α : Type} (typ : SeqTyp) (ms : List (Bool × α)) (key : Int) : GetRes α :=
  match memberSequence ms with
  | some members =>
    -- :424 `if -len(members) <= key.val < len(members): return members[key.val]`
    if -(members.length : Int) ≤ key ∧ key < (members.length : Int) then
      match pyIndex members key with
      | some m => .member m
      | none => .error            -- unreachable (see `Proofs/C19.pyIndex_isSome`)
    else if typ = .tuple then .error       -- :426‥428
    else .fallback                          -- :431
  | none =>
    if key ≥ 0 then
      -- :439‥445
      match scan key.toNat 0 ms with
      | some m => .member m
      | none => .fallback
    else
      -- :447 `index_from_back = -key.val - 1`  (repaired in /repo 07b1f6d; it was `+ 1`)
      let indexFromBack : Int := -key - 1
      match scan indexFromBack.toNat 0 ms.reverse with
      | some m => .member m
      | none => .fallback

/-- The set of member types a result stands for (`fallback` = every member, `error` = nothing). -/
def GetRes.covers {α : Type} [BEq α] (ms : List (Bool × α)) : GetRes α → α → Bool
  | .member m, x => m == x
  | .fallback, x => ms.any (·.2 == x)
  | .error, _ => false

/-! ## 2. binary operators: `__op__`, then `__rop__`, report iff both fail -/

/-- What really happens when the bound dunder is called on the two known operands
(`callee_wrapped.val(*args)`, name_check_visitor.py:5587): it returns `NotImplemented`, raises
`TypeError`, raises something else, or returns a value. -/
inductive Rt | notImpl | raisesTE | raisesOther | value
  deriving DecidableEq, Repr, Inhabited

/-- One side of the protocol: does `type(x)` have the dunder (`_get_dunder`, :5062), does the
signature check of `check_call` accept the other operand, is the signature's declared return type
`Any`, and what does the performed call do. -/
structure Side where
  has : Bool
  sigOk : Bool
  retAny : Bool
  rt : Rt
  deriving DecidableEq, Repr, Inhabited

/-- Did `_check_dunder_call` leave errors in the `catch_errors()` block?
missing dunder (:5071 `unsupported_operation`), signature mismatch (`incompatible_argument`),
or the performed call returned `NotImplemented` (:5594 `incompatible_call`). An exception raised
by the performed call is only logged (:5591). -/
def Side.errs (s : Side) : Bool :=
  !s.has || !s.sigOk || s.rt == .notImpl

/-- Is the value returned by `_check_dunder_call` a literal (`KnownValue(result)`, :5600)? -/
def Side.literal (s : Side) : Bool :=
  s.has && (s.rt == .value || s.rt == .notImpl)

/-- Is it an `AnyValue`? (missing dunder → `Any[error]`; otherwise the signature's return type unless
the performed call produced a literal). -/
def Side.isAny (s : Side) : Bool :=
  !s.has || (!s.literal && (s.retAny || !s.sigOk))

inductive BinRes
  | report          -- `unsupported_operation`, `Any[error]`
  | leftLit         -- the literal the left call produced
  | rightLit        -- the literal the reflected call produced
  | nonLit          -- a non-literal type (declared return type / Any)
  deriving DecidableEq, Repr, Inhabited

/-- name_check_visitor.py:3855‥3896. -/
def binop (l r : Side) : BinRes :=
  if l.errs then
    if r.errs then .report                                  -- :3873‥3879
    else if r.literal then .rightLit else .nonLit           -- :3880
  else
    if r.errs then (if l.literal then .leftLit else .nonLit)   -- :3883
    else if r.isAny then .nonLit                            -- :3894
    else if l.literal then .leftLit else .nonLit            -- :3896

/-! ## 3. attribute not found on a known object -/

/-- Inputs of the `KnownValue` branch of `_get_attribute_fallback` (:5330‥5350):
`onlyKnown` = `_has_only_known_attributes(ts_finder, root_value.val)` (:6084; false whenever the
object is not a class), `hasGetattr` = `_static_hasattr(val, "__getattr__")`,
`ignoredRef` = `_should_ignore_val(node)`: the expression is a dotted name path whose last component
is in `IgnoredEndOfReference` (`count`, `called`, `call_count`, …, :496). -/
structure AttrMiss where
  onlyKnown : Bool
  hasGetattr : Bool
  ignoredRef : Bool
  deriving DecidableEq, Repr, Inhabited

/-- `true` = `undefined_attribute` is shown (:5373); `false` = `Any[inference]` silently (:5350). -/
def attrFallback (m : AttrMiss) : Bool :=
  !(!m.onlyKnown && (m.hasGetattr || m.ignoredRef))

/-! ## 4. attribute lookup on a known object -/

/-- What `getattr(obj, name)` really does. -/
inductive Getattr | ok | attributeError | otherExc
  deriving DecidableEq, Repr, Inhabited

/-- The facts the known-object route looks at, in the order it looks at them
(`attributes.py:430 _get_attribute_from_known`, `:504 _get_attribute_from_mro(obj, ctx, on_class=True)`):
`hooked` = the default `KnownAttributeHook` answers (`sys.modules`, `typing.Any`; :402‥411);
`isEnumCls` = obj is an Enum subclass (:508); `isModule`/`modAnn` = obj is a module and the name is in its
`__annotations__` (:516‥526); `isType` = obj is a class; `stubAttr` = walking `type.mro(obj)` the stubs
give a non-callable attribute type for the name (:539‥549); `inMroDict` = the `__dict__` of a class of
the MRO has the name (:573‥584); `getattr` = what `getattr(obj, name)` does (:581, :596). -/
structure AttrFacts where
  hooked : Bool
  isEnumCls : Bool
  isModule : Bool
  modAnn : Bool
  isType : Bool
  stubAttr : Bool
  inMroDict : Bool
  getattr : Getattr
  deriving DecidableEq, Repr, Inhabited

/-- `KnownValue(getattr(obj, name))`, a type taken from annotations/stubs/hook, `Any`, or
`UNINITIALIZED_VALUE` (nothing found). -/
inductive AttrRes | literal | typed | any | missing
  deriving DecidableEq, Repr, Inhabited

/-- The precedence of `_get_attribute_from_known`: hook, then (Enum classes) `getattr` on the class, then
module annotations, then for classes the MRO walk (stub attribute, else `__dict__` hit → `getattr`),
finally plain `getattr` on the object. There is no special-casing of attribute names (`__dict__`,
`__class__`, …) on this route: the object itself is always consulted. Simplification: the MRO walk is
per base class (stub, then `__dict__`); the model asks for a stub attribute anywhere first. -/
def knownAttr (f : AttrFacts) : AttrRes :=
  bif f.hooked then .typed                                          -- :438‥440
  else bif f.isEnumCls && f.getattr == .ok then .literal            -- :508‥515
  else bif f.isModule && f.modAnn then .typed                       -- :516‥526
  else bif f.isType && f.stubAttr then .typed                       -- :539‥549
  else bif f.isType && f.inMroDict then                             -- :573‥584
    (bif f.getattr == .ok then .literal else .any)
  else match f.getattr with                                         -- :593‥603
    | .ok => .literal
    | .attributeError => .missing
    | .otherExc => .any

/-- `visit_Attribute` → `get_attribute(…, use_fallback=True)` (name_check_visitor.py:5228, :5308):
`undefined_attribute` is reported iff the lookup found nothing and the fallback does not swallow it. -/
def attrReported (f : AttrFacts) (m : AttrMiss) : Bool :=
  knownAttr f == .missing && attrFallback m

end Pya.C19
