/-!
# Core/Options — model of `pyanalyze/options.py` (configuration layering)

Follows, branch by branch:

* `ConfigOption.is_applicable_to` (options.py:112), `ConfigOption.sort_key` (options.py:115);
* `ConfigOption.get_value_from_instances` (options.py:102) and
  `ConcatenatedOption.get_value_from_instances` (options.py:168);
* the `parse` type checks of `BooleanOption` (:132), `IntegerOption` (:149),
  `StringSequenceOption` (:185), `PathSequenceOption` (:208);
* `Options.from_option_list` (:273, grouping by name + *stable* `sorted` by `sort_key`),
  `Options.get_value_for` / `_get_value_for_no_default` / `is_error_code_enabled` (:292‥:307);
* `parse_config_file` (:344) and `_parse_config_section` (:368): `module`, `extend_config`
  (priority + 1, `seen_paths`), `overrides`, `disable_all`, unknown keys, value type checks;
* `NameCheckVisitor.prepare_constructor_kwargs` (name_check_visitor.py:5810): settings / keyword
  values become `from_command_line=True` instances placed before the file instances.

The model follows the tree repaired by the fix commits 67f91cf (instances carry the `priority` of
their file: the including file 0, each `extend_config` level + 1), 7e56ba6 (`IntegerOption.parse`
rejects booleans), df9545b (`disable_all` must be a boolean) and 4427783 (the default of a
concatenated option is contributed once, by the default instance of `_get_value_for_no_default`).
One deviation from the property's sentence remains and is modelled as it is: `PathSequenceOption`
is list-valued but derives from the plain `ConfigOption`, so the first applicable instance wins
(class `D18_pathListNoConcat`).

Not modelled: `PyObjectSequenceOption` / `IgnoredPaths` values (kind `other`; the parser model
answers `unmodelled`), path resolution (`Path.resolve`, files are atoms in one directory), TOML
syntax (the input is the already decoded `tool.pyanalyze` table), argparse.

No imports: this file must stay core-only so the drivers start fast.
-/
namespace Pya.C18

/-- A decoded TOML value. `float` only records whether it is non-zero (truthiness). -/
inductive TV where
  | bool (b : Bool)
  | int (n : Int)
  | str (s : String)
  | float (nonzero : Bool)
  | arr (xs : List TV)
  | tbl (kvs : List (String × TV))
  deriving Repr, Inhabited

abbrev Table := List (String × TV)

/-- Values of the modelled option classes. -/
inductive Val where
  | bool (b : Bool)
  | int (n : Int)
  | strs (l : List String)
  | paths (l : List String)
  deriving DecidableEq, Repr, Inhabited

inductive OptKind | bool | int | strSeq | pathSeq | other
  deriving DecidableEq, Repr, Inhabited

/-- One entry of `ConfigOption.registry`. `isCode`: the name is an `ErrorCode` member
(`get_all_error_codes`, options.py:364). -/
structure OptDecl where
  name : String
  kind : OptKind
  dflt : Val
  isCode : Bool
  deriving DecidableEq, Repr, Inhabited

abbrev Registry := List OptDecl

def Registry.find (r : Registry) (n : String) : Option OptDecl := r.find? (·.name == n)

/-- `get_all_error_codes()`. -/
def Registry.codes (r : Registry) : List String := (r.filter (·.isCode)).map (·.name)

/-- A `ConfigOption` instance (options.py:84‥87). -/
structure Inst where
  name : String
  val : Val
  app : List String := []
  cli : Bool := false
  prio : Nat := 0
  deriving DecidableEq, Repr, Inhabited

/-- options.py:112 `module_path[: len(self.applicable_to)] == self.applicable_to`. -/
def Inst.applicable (i : Inst) (mod : List String) : Bool := mod.take i.app.length == i.app

/-- options.py:115 `sort_key`: `(not from_command_line, priority, -len(applicable_to))`,
compared lexicographically; `keyLe a b` is `a.sort_key() <= b.sort_key()`. -/
def Inst.cliRank (i : Inst) : Nat := if i.cli then 0 else 1

def keyLe (a b : Inst) : Bool :=
  decide (a.cliRank < b.cliRank) ||
  (a.cliRank == b.cliRank &&
    (decide (a.prio < b.prio) || (a.prio == b.prio && decide (b.app.length ≤ a.app.length))))

/-! ### Stable sort (`sorted(instances, key=...)`, options.py:284) -/

/-- Insert `x` (which stood before all of `ys` in the original list) before the first element
whose key is not smaller: equal keys keep their original order. -/
def insertBy {α} (le : α → α → Bool) (x : α) : List α → List α
  | [] => [x]
  | y :: ys => if le x y then x :: y :: ys else y :: insertBy le x ys

/-- The stable sort by a total preorder `le` (insertion sort from the right). -/
def sortBy {α} (le : α → α → Bool) : List α → List α
  | [] => []
  | x :: xs => insertBy le x (sortBy le xs)

/-- `Options.options[name]` after `from_option_list` (options.py:280‥286). -/
def optionsFor (insts : List Inst) (name : String) : List Inst :=
  sortBy keyLe (insts.filter (·.name == name))

def defaultInst (d : OptDecl) : Inst := { name := d.name, val := d.dflt }

def Val.asStrs : Val → List String
  | .strs l => l
  | .paths l => l
  | _ => []

/-- options.py:298 `_get_value_for_no_default`: the sorted instances plus a default instance. -/
def candidates (d : OptDecl) (insts : List Inst) : List Inst :=
  optionsFor insts d.name ++ [defaultInst d]

/-- options.py:102 (plain options; `NotFound` → `default_value`, options.py:295). -/
def getFirst (d : OptDecl) (insts : List Inst) (mod : List String) : Val :=
  match (candidates d insts).find? (·.applicable mod) with
  | some i => i.val
  | none => d.dflt

/-- options.py:168 `ConcatenatedOption.get_value_from_instances`
(`values += instance.value` for every applicable instance; the default comes from the default
instance that `_get_value_for_no_default` appends). -/
def getConcat (d : OptDecl) (insts : List Inst) (mod : List String) : Val :=
  .strs (((candidates d insts).filter (·.applicable mod)).flatMap (·.val.asStrs))

/-- `Options.for_module(mod).get_value_for(option)`; `StringSequenceOption` is the only modelled
`ConcatenatedOption` (`PathSequenceOption` derives from plain `ConfigOption`, options.py:204). -/
def getValueFor (d : OptDecl) (insts : List Inst) (mod : List String) : Val :=
  if d.kind == .strSeq then getConcat d insts mod else getFirst d insts mod

/-! ### Value type checks (`parse` class methods) -/

def allStr : List TV → Option (List String)
  | [] => some []
  | .str s :: r => (allStr r).map (s :: ·)
  | _ :: _ => none

def parseValue (k : OptKind) (v : TV) : Option Val :=
  match k, v with
  | .bool, .bool b => some (.bool b)                       -- options.py:133
  | .int, .int n => some (.int n)                          -- options.py:150 (booleans excluded)
  | .strSeq, .arr xs => (allStr xs).map .strs              -- options.py:188
  | .pathSeq, .arr xs => (allStr xs).map .paths            -- options.py:211
  | _, _ => none

/-! ### `_parse_config_section` / `parse_config_file` -/

inductive CfgErr where
  | topLevelModule | extendNotStr | cannotOpen | recursive | nestedOverrides
  | overridesNotList | overrideNotDict | overrideModule
  | disableNotBool
  | unknownKey (k : String) | badValue (opt : String) | unmodelled (opt : String) | fuel
  deriving DecidableEq, Repr, Inhabited

def lookupKey (kvs : Table) (k : String) : Option TV := (kvs.find? (·.1 == k)).map (·.2)

/-- `str.split(sep)` on a list of characters: never empty. -/
def splitChars (sep : Char) : List Char → List (List Char)
  | [] => [[]]
  | c :: cs =>
    if c == sep then [] :: splitChars sep cs
    else match splitChars sep cs with
      | [] => [[c]]
      | w :: ws => (c :: w) :: ws

/-- `override["module"].split(".")` (options.py:411). -/
def pySplit (s : String) : List String := (splitChars '.' s.toList).map String.ofList

/-- The instance `_parse_config_section` creates (`option_cls(value, module_path,
priority=priority)`). -/
def fileInst (name : String) (v : Val) (modPath : List String) (prio : Nat) : Inst :=
  { name := name, val := v, app := modPath, cli := false, prio := prio }

/-- Loop state of `_parse_config_section`: instances yielded so far, `enabled_error_codes`,
`disable_all_default_error_codes`. -/
structure SecState where
  out : List Inst := []
  enabled : List String := []
  disable : Bool := false
  deriving Repr, Inhabited

/-- One iteration of `for key, value in section.items()` (options.py:386‥428).
`ext t p` parses the extended file `t` with priority `p`; `onOv v` handles an `overrides` value
(it raises for nested sections). -/
def sectionStep (reg : Registry) (ext : String → Nat → Except CfgErr (List Inst))
    (onOv : TV → Except CfgErr (List Inst)) (modPath : List String) (prio : Nat)
    (st : SecState) (kv : String × TV) : Except CfgErr SecState :=
  let (key, value) := kv
  if key == "module" then
    if modPath.isEmpty then .error .topLevelModule else .ok st
  else if key == "extend_config" then
    match value with
    | .str t => do let r ← ext t (prio + 1); pure { st with out := st.out ++ r }
    | _ => .error .extendNotStr
  else if key == "overrides" then do
    let r ← onOv value
    pure { st with out := st.out ++ r }
  else if key == "disable_all" then
    match value with
    | .bool b => .ok { st with disable := b }
    | _ => .error .disableNotBool
  else
    match reg.find key with
    | none => .error (.unknownKey key)
    | some d =>
      if d.kind == .other then .error (.unmodelled key) else
      let enabled := match value with
        | .bool true => if d.isCode then key :: st.enabled else st.enabled
        | _ => st.enabled
      match parseValue d.kind value with
      | none => .error (.badValue key)
      | some v => .ok { st with out := st.out ++ [fileInst key v modPath prio], enabled := enabled }

/-- options.py:430‥434: after the loop, `disable_all` yields `False` for every error code that
was not explicitly enabled in this section. -/
def disableTail (reg : Registry) (modPath : List String) (prio : Nat) (st : SecState) : List Inst :=
  if st.disable then
    (reg.codes.filter (fun c => !st.enabled.contains c)).map (fun c => fileInst c (.bool false) modPath prio)
  else []

/-- `_parse_config_section` (options.py:368). -/
def parseSection (reg : Registry) (ext : String → Nat → Except CfgErr (List Inst))
    (onOv : TV → Except CfgErr (List Inst)) (modPath : List String) (prio : Nat)
    (items : Table) : Except CfgErr (List Inst) := do
  if modPath.isEmpty && items.any (·.1 == "module") then throw .topLevelModule
  let st ← items.foldlM (sectionStep reg ext onOv modPath prio) {}
  pure (st.out ++ disableTail reg modPath prio st)

/-- The `overrides` branch for a section whose `module_path` is non-empty (options.py:400). -/
def nestedOv : TV → Except CfgErr (List Inst) := fun _ => .error .nestedOverrides

/-- One element of the `overrides` list (options.py:404‥418). `str.split(".")` never returns
an empty tuple, so the nested section always has a non-empty module path. -/
def parseOverride (reg : Registry) (ext : String → Nat → Except CfgErr (List Inst)) (prio : Nat)
    (ov : TV) : Except CfgErr (List Inst) :=
  match ov with
  | .tbl kvs =>
    match lookupKey kvs "module" with
    | some (.str m) => parseSection reg ext nestedOv (pySplit m) prio kvs
    | _ => .error .overrideModule
  | _ => .error .overrideNotDict

/-- The `overrides` branch at top level (options.py:399‥418). -/
def parseOverrides (reg : Registry) (ext : String → Nat → Except CfgErr (List Inst)) (prio : Nat)
    (v : TV) : Except CfgErr (List Inst) :=
  match v with
  | .arr ovs => ovs.foldlM (fun acc ov => do let r ← parseOverride reg ext prio ov; pure (acc ++ r)) []
  | _ => .error .overridesNotList

/-- The top-level section of a file. -/
def parseTop (reg : Registry) (ext : String → Nat → Except CfgErr (List Inst)) (prio : Nat)
    (body : Table) : Except CfgErr (List Inst) :=
  parseSection reg ext (parseOverrides reg ext prio) [] prio body

/-- The files that exist: resolved path ↦ decoded `tool.pyanalyze` table (`{}` when absent). -/
abbrev FS := List (String × Table)

def FS.get (fs : FS) (p : String) : Option Table := (fs.find? (·.1 == p)).map (·.2)

/-- `parse_config_file` (options.py:344). Fuel bounds the inclusion depth; since `seen` grows by a
new existing path at every level, `fs.length + 1` always suffices. -/
def parseFile (reg : Registry) (fs : FS) : Nat → String → Nat → List String → Except CfgErr (List Inst)
  | 0, _, _, _ => .error .fuel
  | fuel + 1, path, prio, seen =>
    match fs.get path with
    | none => .error .cannotOpen                                   -- options.py:350
    | some body =>
      if seen.contains path then .error .recursive                 -- options.py:352
      else parseTop reg (fun t p => parseFile reg fs fuel t p (path :: seen)) prio body

/-- name_check_visitor.py:5814‥5828: command-line / `settings` values. -/
def cliInsts (cli : List (String × Val)) : List Inst :=
  cli.map fun (n, v) => { name := n, val := v, app := [], cli := true, prio := 0 }

/-- `prepare_constructor_kwargs` + `Options.from_option_list(instances, config_file)` +
`for_module(mod).get_value_for(option)`. -/
def effective (reg : Registry) (fs : FS) (fuel : Nat) (main : String) (cli : List (String × Val))
    (d : OptDecl) (mod : List String) : Except CfgErr Val := do
  let fileInsts ← parseFile reg fs fuel main 0 []
  pure (getValueFor d (cliInsts cli ++ fileInsts) mod)

end Pya.C18
