import PyaModel.Core.Union
import PyaModel.Core.Sig
/-!
# Core/Overload — model of `OverloadedSignature.check_call` (pyanalyze/signature.py:2294‥2443),
`_unite_rets` (:2445), `Signature.check_call_preprocessed` / `check_call_with_bound_args` (:1224 / :1244,
the per-parameter loop :1290‥1322), `_check_param_type_compatibility` (:629), `decompose_union` (:2753)
and the "Any was used" flag of `can_assign_and_used_any` (value.py:3363; `record_any_used` at
value.py:102 `Value.can_assign`, :2010 `MultiValuedValue.can_assign`).

Fragment: overloads whose parameters are positional-only / positional-or-keyword / `*args` /
keyword-only (with or without default, every parameter annotated), no type variables, no `impl`,
no evaluator, not `allow_call`, not deprecated; calls with plain positional and keyword arguments
(no `*x` / `**x` in the call). Binding is the shared `pyaBind` (Core/Sig.lean), argument-to-parameter
assignability the shared `ca` (Core/Assign.lean).

Not modelled: `**kwargs` parameters (the bound value is a `TypedDictValue`, outside `Ty`), star
arguments in the call, TypeVars / `resolve_bounds_map`, `impl` functions, evaluators, `allow_call`,
`@deprecated`, the *text* and the *error code* of the diagnostic (only diagnosed / not diagnosed),
`maybe_show_too_many_pos_args_error`.

Everything C08 defines lives in `Pya.C08`.
-/
namespace Pya.C08

/-! ## "Any was used for the match" — `ctx.has_used_any_match()` after `e.can_assign(a, ctx)`

`ua tbl e a` = was `record_any_used()` called while `e.can_assign(a, ctx)` ran (normal mode,
`should_exclude_any() = False`). It is only consulted when the assignment succeeded, so loops that
stop at the first failure are modelled as visiting every element. One clause per place where the
flag can be set:

* `AnyValue.can_assign` never records (value.py:424: "Any on the left-hand side");
* `Value.can_assign` (value.py:102) and `MultiValuedValue.can_assign` (:2010) record when the other
  side is an `AnyValue`; every other class reaches `Value.can_assign` through `super()`;
* a union on the right is visited member by member; a union on the left tries every member
  (value.py:2027, no short-circuit), an `Annotated` on either side is looked through;
* `GenericValue.can_assign` (value.py:1042) compares generic arguments pairwise, the actual's
  arguments being `TypedValue.get_generic_args_for_type` (shared `theirArgs`); a missing argument is
  `AnyValue(generic_argument)`, **the argument of an empty `SequenceValue` is
  `AnyValue(AnySource.unreachable)`** (value.py:1179) — both record;
* `SequenceValue` against `SequenceValue`: member by member.
Not modelled (→ `false`): a `SequenceValue` expected type against a non-sequence actual, the
`_known_subvals` shortcut of a union (it only concerns literal actuals, which contain no `Any`). -/
mutual
def ua (tbl : ClassTable) : Ty → Ty → Bool
  | .any, _ => false
  | e, .annotated t => ua tbl e t
  | e, .union bs => uaAnyR tbl e bs
  | .union es, a => (match a with | .any => true | _ => uaAnyL tbl es a)
  | .annotated t, a => ua tbl t a
  | _, .any => true
  | .generic c args, a =>
    (match theirArgs tbl c a with
     | some (_, theirs) => if theirs.length == args.length then uaArgs tbl args theirs else false
     | none => false)
  | .seq _ ms, a => (match a with | .seq _ ns => uaZip tbl ms ns | _ => false)
  | _, _ => false
termination_by e a => (sizeOf e, sizeOf a, 0)
def uaAnyR (tbl : ClassTable) : Ty → List Ty → Bool
  | _, [] => false
  | e, b :: bs => ua tbl e b || uaAnyR tbl e bs
termination_by e bs => (sizeOf e, sizeOf bs, 0)
def uaAnyL (tbl : ClassTable) : List Ty → Ty → Bool
  | [], _ => false
  | e :: es, a => ua tbl e a || uaAnyL tbl es a
termination_by es a => (sizeOf es, sizeOf a, 0)
def uaArgs (tbl : ClassTable) : List Ty → List TArg → Bool
  | [], _ => false
  | _, [] => false
  | e :: es, t :: ts => uaArg tbl e t || uaArgs tbl es ts
termination_by es ts => (sizeOf es, sizeOf ts, 0)
def uaArg (tbl : ClassTable) : Ty → TArg → Bool
  | e, .ty t => ua tbl e t
  | e, .mems [] => ua tbl e .any
  | e, .mems (n :: ns) => uaMems tbl e (n :: ns)
termination_by e t => (sizeOf e, sizeOf t, 0)
def uaMems (tbl : ClassTable) : Ty → List Ty → Bool
  | _, [] => false
  | e, .many n :: ns => ua tbl e n || uaMems tbl e ns
  | e, n :: ns => ua tbl e n || uaMems tbl e ns
termination_by e ns => (sizeOf e, sizeOf ns, 0)
def uaZip (tbl : ClassTable) : List Ty → List Ty → Bool
  | [], _ => false
  | _, [] => false
  | .many m :: ms, .many n :: ns => ua tbl m n || uaZip tbl ms ns
  | .many _ :: _, _ :: _ => false
  | _ :: _, .many _ :: _ => false
  | m :: ms, n :: ns => ua tbl m n || uaZip tbl ms ns
termination_by ms ns => (sizeOf ms, sizeOf ns, 0)
end

/-- `can_assign_and_used_any`, abstractly: the two questions the overload kernel asks about a
(parameter type, argument type) pair. The kernel below is parametric in it; pyanalyze's is
`liveJudge`. -/
structure Judge where
  acc : Ty → Ty → Bool      -- `not isinstance(e.can_assign(a, ctx), CanAssignError)`
  used : Ty → Ty → Bool     -- `ctx.has_used_any_match()` afterwards

def liveJudge (tbl : ClassTable) : Judge := ⟨ca tbl false, ua tbl⟩

/-! ## Signatures and calls -/

/-- `SigParameter`: name, kind, has-default, annotation (`*args: T` carries `T`). -/
structure OParam where
  name : String
  kind : Kind
  dflt : Bool
  ty : Ty
  deriving Repr, Inhabited

structure OSig where
  params : List OParam
  ret : Ty
  deriving Repr, Inhabited

/-- `ActualArguments` of a call `f(v0, v1, k=v2)`: positionals and keywords with their values. -/
structure CallArgs where
  pos : List Ty
  kws : List (String × Ty)
  deriving Repr, Inhabited

def OSig.shape (s : OSig) : List Param := s.params.map fun p => ⟨p.name, p.kind, p.dflt⟩

def CallArgs.actual (a : CallArgs) : Actual :=
  { pos := a.pos.map fun _ => true, starArgs := false,
    kws := a.kws.map fun k => (k.1, true), starKw := false, kwReq := false }

/-- `sig.bind_arguments(actual_args, ctx)` (shape only; `none` = an error was shown). -/
def OSig.bind (s : OSig) (a : CallArgs) : Option (List (String × Pos)) := pyaBind s.shape a.actual

/-- The annotation the bound value is checked against: `*args: T` has annotation `tuple[T, ...]`
(`GenericValue(tuple, [T])`). -/
def OParam.annot (p : OParam) : Ty :=
  match p.kind with
  | .varPos => .generic C.tuple [p.ty]
  | _ => p.ty

def isIdx : Pos → Bool
  | .idx _ => true
  | _ => false

/-- Number of positionals consumed by named parameters = `positional_index` when `*args` is reached. -/
def idxCount (b : List (String × Pos)) : Nat := (b.filter fun e => isIdx e.2).length

def CallArgs.kwVal (a : CallArgs) (n : String) : Option Ty := (a.kws.find? (·.1 == n)).map (·.2)

/-- The value of the `Composite` bound to a parameter (signature.py:845, :884, :932, :973, :1016);
`none` = the parameter's own default (`composite.value is param.default`: accepted without a
type check and without Any, signature.py:653‥657). -/
def entryVal (a : CallArgs) (b : List (String × Pos)) (p : OParam) : Pos → Option Ty
  | .idx i => a.pos[i]?
  | .kw n => a.kwVal n
  | .args => some (.seq C.tuple (a.pos.drop (idxCount b)))
  | .dflt => (match p.kind with
      | .varPos => some (.seq C.tuple [])     -- `SequenceValue(tuple, [])`, position DEFAULT
      | _ => none)
  | _ => none

/-- What `check_call_with_bound_args` does for one item of `bound_args`:
`some (annotation, value)` = call `_check_param_type_compatibility`, `none` = nothing to check. -/
def entryTask (s : OSig) (a : CallArgs) (b : List (String × Pos)) (e : String × Pos) : Option (Ty × Ty) :=
  match s.params.find? (·.name == e.1) with
  | none => none
  | some p => (entryVal a b p e.2).map fun v => (p.annot, v)

def tasks (s : OSig) (a : CallArgs) (b : List (String × Pos)) : List (Pos × Option (Ty × Ty)) :=
  b.map fun e => (e.2, entryTask s a b e)

/-! ## `decompose_union` (signature.py:2753) -/

/-- `unannotate` (value.py:2855). -/
def unannot : Ty → Ty
  | .annotated t => t
  | t => t

/-- `Some (union_used_any, unite_values(*remaining))`, or `None`. When every member is accepted the
Python raises `AssertionError`; that branch is unreachable because the caller only decomposes a
value the whole of which was rejected (`decompose_rest_ne` in Proofs/C08.lean) — modelled as `none`. -/
def decompose (J : Judge) (e v : Ty) : Option (Bool × Ty) :=
  match unannot v with
  | .union vals =>
    let ok := vals.filter (J.acc e)
    let rest := vals.filter fun m => !J.acc e m
    if ok.isEmpty then none
    else if rest.isEmpty then none
    else some (ok.any (J.used e), unite rest)
  | _ => none

/-! ## One overload: `Signature.check_call_preprocessed` -/

/-- `replace(preprocessed, positionals=…)` / `keywords=…` (signature.py:1307‥1318). Other positions
hit `assert False`; unreachable, because only a union value decomposes and an `*args` pack is a
`SequenceValue`. -/
def CallArgs.setAt (a : CallArgs) : Pos → Ty → CallArgs
  | .idx i, v => { a with pos := a.pos.set i v }
  | .kw n, v => { a with kws := a.kws.map fun k => if k.1 == n then (k.1, v) else k }
  | _, _ => a

structure ChkSt where
  hadError : Bool := false
  usedAny : Bool := false
  newArgs : Option CallArgs := none
  isOv : Bool
  deriving Repr, Inhabited

/-- One iteration of `for name, (position, composite) in bound_args.items()` (signature.py:1290). -/
def chkStep (J : Judge) (a : CallArgs) (st : ChkSt) (t : Pos × Option (Ty × Ty)) : ChkSt :=
  match t.2 with
  | none => st
  | some (e, v) =>
    -- `if param_used_any and position is not DEFAULT` (signature.py:1304‥1306, /repo commit 41847cf):
    -- an empty `*args` pack was not provided by the caller and cannot make the match one "due to Any"
    if J.acc e v then { st with usedAny := st.usedAny || (J.used e v && !(t.1 == Pos.dflt)) }
    else if st.isOv then
      match decompose J e v with
      | some (u, r) =>
        -- "You only get to do this once per call."
        { st with usedAny := st.usedAny || u, newArgs := some (a.setAt t.1 r), isOv := false }
      | none => { st with hadError := true }
    else { st with hadError := true }

/-- `CallReturn`: `is_error`, `used_any_for_match`, `remaining_arguments`, `return_value`. -/
structure CallRet where
  isError : Bool
  usedAny : Bool
  remaining : Option CallArgs
  ret : Ty
  deriving Repr, Inhabited

def checkOne (J : Judge) (s : OSig) (a : CallArgs) (isOv : Bool) : CallRet :=
  match s.bind a with
  | none => ⟨true, false, none, s.ret⟩                        -- `get_default_return()`
  | some b =>
    let st := (tasks s a b).foldl (chkStep J a) { isOv := isOv }
    ⟨st.hadError, st.usedAny, st.newArgs, s.ret⟩

/-! ## The overload loop -/

/-- Outcome of the call: the inferred type, `Any[multiple_overload_matches]`, or a diagnostic
("Cannot call overloaded function", value `Any[error]`). -/
inductive Res where
  | ok (t : Ty)
  | anyMulti
  | err
  deriving Repr, Inhabited

/-- `_unite_rets` (signature.py:2445). `deduped` is a Python set: de-duplication by hash and `==`. -/
def uniteRets (anyRets unionAnyRets unionRets : List Ty) (clean : Option Ty) : Res :=
  if !anyRets.isEmpty || !unionAnyRets.isEmpty then
    if (dedup [] anyRets).length == 1 && unionRets.isEmpty && unionAnyRets.isEmpty && clean.isNone then
      .ok (unite anyRets)
    else .anyMulti
  else if !unionRets.isEmpty then .ok (unite (unionRets ++ clean.toList))
  else match clean with
    | some c => .ok (unite [c])
    | none => .err                                             -- `assert clean_ret is not None`

structure OvSt where
  anyRets : List Ty := []
  unionAnyRets : List Ty := []
  unionRets : List Ty := []
  args : CallArgs
  deriving Repr, Inhabited

/-- `for i, sig in enumerate(sigs)` with `is_overload = i != last` (signature.py:2384‥2443). -/
def ovLoop (J : Judge) : List OSig → OvSt → Res
  | [], st =>
    if !st.anyRets.isEmpty then uniteRets st.anyRets st.unionAnyRets st.unionRets none
    else .err
  | s :: rest, st =>
    let r := checkOne J s st.args (!rest.isEmpty)
    if r.isError then ovLoop J rest st
    else match r.remaining with
      | some a' =>
        if r.usedAny then ovLoop J rest { st with unionAnyRets := st.unionAnyRets ++ [r.ret], args := a' }
        else ovLoop J rest { st with unionRets := st.unionRets ++ [r.ret], args := a' }
      | none =>
        if r.usedAny then ovLoop J rest { st with anyRets := st.anyRets ++ [r.ret] }
        else uniteRets st.anyRets st.unionAnyRets st.unionRets (some r.ret)

/-- `OverloadedSignature.check_call`: bind every overload first; none binds ⇒ diagnostic;
otherwise loop over the overloads that bind. -/
def resolve (J : Judge) (sigs : List OSig) (a : CallArgs) : Res :=
  let bound := sigs.filter fun s => (s.bind a).isSome
  if bound.isEmpty then .err else ovLoop J bound { args := a }

end Pya.C08
