import PyaModel.Core.SigAssign
/-!
# Core/Override — model of the override route into `Signature.can_assign`

`NameCheckVisitor._check_for_incompatible_overrides` (name_check_visitor.py:1538): when a class
body binds a name, the value is compared with the attribute of that name in **every** base class
that has it *in its own body* — `_get_base_class_attributes` (line 1517) walks
`get_generic_bases(current_class)` (all ancestors) and reads the attribute with `skip_mro=True` —
and one `incompatible_override` is reported per incompatible base.  `overrideOk` is "no error".

Per base, `_can_assign_to_base` (line 1572) dispatches on the base value:
* a `property` → `_can_assign_to_base_property` (line 1589): a settable (deletable) base property
  needs a settable child; the getter types are compared covariantly, and invariantly when the base
  property is settable;
* anything callable → `_can_assign_to_base_callable`: each signature goes through
  `Signature.bind_self` (signature.py:1968) unless the class binds the name as a `staticmethod`
  (`_is_staticmethod_of`, since /repo 7244153; before that repair staticmethods lost their first
  parameter too — class `staticFirst`, now a regression witness), and the resulting signatures are
  compared with `Signature.can_assign` (Core/SigAssign.lean).

The MRO is modelled by C3 linearisation (`c3Mros`), validated against CPython's `__mro__` by the
harness; the verdict itself only depends on the *set* of ancestors.

Not modelled: classmethods (a `classmethod` object is not callable, so the code falls through to
`KnownValue.can_assign` and effectively never compares signatures), a property overriding a
function or vice versa (`memberOk` answers `false`, outside the validated fragment), deleters,
`IgnoredForIncompatibleOverride`, non-function class attributes.
-/
namespace Pya.C07

/-- `Signature.bind_self` on the parameter list: `none` = "no self argument". -/
def bindSelf {τ} (s : TSig τ) : Option (TSig τ) :=
  match s.params with
  | [] => none
  | p :: ps =>
    match p.kind with
    | .varPos => some s                       -- `def m(*args)`: parameters unchanged
    | .posOnly => some ⟨ps, s.ret⟩
    | .posOrKw => some ⟨ps, s.ret⟩
    | _ => none

/-- `_can_assign_to_base_callable` on two plain `Signature`s; `bs` / `cs` = the base / child class
binds the name as a staticmethod (`base_is_static`, `child_is_static`). -/
def callableOk {τ} (R : TyRel τ) (bs : Bool) (base : TSig τ) (cs : Bool) (child : TSig τ) : Bool :=
  match (if bs then some base else bindSelf base) with
  | none => true                               -- `base_bound is None` → `{}`
  | some b =>
    match (if cs then some child else bindSelf child) with
    | none => false                            -- "… is missing a 'self' argument"
    | some c => sigCanAssign R b c

/-- What a class body binds under the name being checked. `fn static raw`: a function
(`static` = wrapped in `staticmethod`) with the signature `raw` as `signature_from_value` sees it
(for a method: including `self`); `prop ty settable`: a property with getter type `ty`. -/
inductive Member (τ : Type) where
  | fn (static : Bool) (raw : TSig τ)
  | prop (ty : τ) (settable : Bool)
  deriving Repr, Inhabited

/-- `_can_assign_to_base(base_value, child_value, …)` is not a `CanAssignError`. -/
def memberOk {τ} (R : TyRel τ) : Member τ → Member τ → Bool
  | .fn bs b, .fn cs c => callableOk R bs b cs c
  | .prop bt bs, .prop ct cs => (!bs || cs) && R.asg bt ct && (!bs || R.asg ct bt)
  | _, _ => false

/-- `_check_for_incompatible_overrides` reports nothing: `ancestors` = the classes of
`get_generic_bases(current_class)` other than the class itself, `defs i` = what ancestor `i`
binds under the name in its own body. -/
def overrideOk {τ} (R : TyRel τ) (defs : Nat → Option (Member τ)) (ancestors : List Nat)
    (child : Member τ) : Bool :=
  (ancestors.filterMap defs).all fun b => memberOk R b child

/-- The ancestors whose definition the child is incompatible with (one error each). -/
def overrideBad {τ} (R : TyRel τ) (defs : Nat → Option (Member τ)) (ancestors : List Nat)
    (child : Member τ) : List Nat :=
  ancestors.filter fun i => match defs i with
    | some b => !memberOk R b child
    | none => false

/-! ## C3 linearisation (CPython `mro_implementation` / `pmerge`) -/

/-- `pmerge`: repeatedly take the first head that occurs in no tail. `none` = "Cannot create a
consistent method resolution order". Fuel = total number of elements. -/
def c3Merge : Nat → List (List Nat) → Option (List Nat)
  | 0, seqs => if seqs.all (·.isEmpty) then some [] else none
  | fuel + 1, seqs =>
    let seqs := seqs.filter (!·.isEmpty)
    if seqs.isEmpty then some []
    else
      match seqs.findSome? (fun s => match s with
          | [] => none
          | h :: _ => if seqs.all (fun t => !(t.drop 1).contains h) then some h else none) with
      | none => none
      | some h =>
        (c3Merge fuel (seqs.map fun s => if s.head? == some h then s.drop 1 else s)).map (h :: ·)

/-- MROs of the classes `0 … n-1` given the base lists (bases have smaller indices, as in any
module that defines its classes in order); `none` where CPython raises `TypeError`. -/
def c3Mros (bases : List (List Nat)) : List (Option (List Nat)) :=
  bases.foldl (fun (acc : List (Option (List Nat))) bs =>
    let i := acc.length
    let parents : Option (List (List Nat)) := bs.mapM fun b => (acc.getD b none)
    let m := match parents with
      | none => none
      | some ps =>
        if bs.eraseDups.length != bs.length then none     -- "duplicate base class"
        else
          let seqs := ps ++ [bs]
          (c3Merge ((seqs.map (·.length)).sum + 1) seqs).map (i :: ·)
    acc ++ [m]) []

end Pya.C07
