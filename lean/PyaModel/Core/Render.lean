import PyaModel.Core.Emit
/-!
# Core/Render — model of the `Failure` record `BaseNodeVisitor.show_error` builds

Core/Emit.lean (namespace `Pya.C11`) models *which* `show_error` calls survive (enablement, file-level
and per-line ignore comments, duplicate filter). This file re-uses its primitives and adds what C12 is
about: the record that is appended to `all_failures` (node_visitor.py:619‥733):

* `e` defaults to the registered description of the code (:619‥623; `assert` when both are missing);
* location extraction (:625‥629): `lineno`/`col_offset` only if the node has both;
* `description`, `code` (:631‥640), `lineno` (:643‥647), `col_offset` (:648‥649);
* the per-line ignore tests (:659‥677; since fix 0cba813 an error on line 1 has no previous line — the
  `lines[lineno - 2]` wrap-around is gone) — an `IndexError` escapes when the line number lies
  beyond the file;
* context rendering (:673‥686): up to `CONTEXT_LINES` lines around the position, `"%4d: %s"`, a caret
  under the column;
* `message` (:637‥647, :685, :708).

`showError` returns `none` when the Python raises (`AssertionError` :620, `IndexError` :654/:662).
Not modelled: `extra_metadata`, `_changes_for_fixer` / `add_ignores` (C16), `fail_after_first`, a
non-default `ignore_comment`, the write to stderr. The file is its list of lines without the newline
`_lines()` re-appends (it is re-appended where the context is rendered).
-/
namespace Pya.C12
open Pya.C11 (Line IC hasSub findSub fileLevelIdx trailingMatch ownLineMatch pyGet NodeKey zipIdxFrom)

/-- One call of `show_error`, with the arguments the record is built from. -/
structure Call where
  /-- `self.caught_errors is not None` at the time of the call -/
  captured : Bool := false
  node : NodeKey
  /-- `error_code.name` -/
  code : Option String
  /-- the message argument `e` -/
  e : Option String
  detail : Option String := none
  /-- `(node.lineno, node.col_offset)` when the node has both -/
  pos : Option (Nat × Nat)
  obey : Bool := true
  save : Bool := true
  deriving DecidableEq, Repr, Inhabited

/-- The record appended to `all_failures` (the fields the property speaks about, plus `context`). -/
structure Failure where
  code : Option String
  lineno : Option Nat
  col : Option Nat
  description : String
  message : String
  context : Option String
  deriving DecidableEq, Repr, Inhabited

/-- the error-code registry: `(name, description)` -/
abbrev Reg := List (String × String)

def Reg.descr (reg : Reg) (c : String) : Option String := (reg.find? (·.1 == c)).map (·.2)

/-- The duplicate key `(node, error_code or e)` (:613): `.inl` = an error code's name, `.inr` = the
message argument (`None` and `""` are different keys). -/
structure CKey where
  node : NodeKey
  tag : String ⊕ Option String
  deriving DecidableEq, Repr

def Call.key (c : Call) : CKey :=
  ⟨c.node, match c.code with | some k => .inl k | none => .inr c.e⟩

/-- `"%4d" % i` -/
def pad4 (i : Nat) : String :=
  let s := toString i
  String.ofList (List.replicate (4 - s.length) ' ') ++ s

/-- node_visitor.py:673‥686: the context block for an error at `(ln, col)`. -/
def renderContext (ctxLines : Nat) (lines : List Line) (ln : Nat) (col : Option Nat) : String :=
  let lo := max (ln - ctxLines) 1
  let hi := min (ln + ctxLines + 1) (lines.length + 1)
  (List.range' lo (hi - lo)).foldl (fun acc i =>
    let acc := acc ++ pad4 i ++ ": " ++ String.ofList (lines.getD (i - 1) []) ++ "\n"
    match (if i == ln then col else none) with
    | some c => acc ++ String.ofList (List.replicate (6 + c) ' ') ++ "^\n"
    | none => acc) ""

/-- The record for a call whose message text is `e` (node_visitor.py:631‥651, :673‥708). -/
def render (ctxLines : Nat) (fname : String) (lines : List Line) (c : Call) (e : String) : Failure :=
  let m := "\n" ++ e
  let m := match c.code with | some k => m ++ " (code: " ++ k ++ ")" | none => m
  let m := match c.detail with | some d => m ++ "\n" ++ d | none => m
  let m := match c.pos with
    | some (ln, _) => m ++ "\nIn " ++ fname ++ " at line " ++ toString ln ++ "\n"
    | none => m ++ "\n In " ++ fname
  let ctx := c.pos.map fun (ln, col) => renderContext ctxLines lines ln (some col)
  { code := c.code, lineno := c.pos.map (·.1), col := c.pos.map (·.2), description := e,
    message := m ++ ctx.getD "", context := ctx }

/-- The message text `show_error` uses (node_visitor.py:619‥623): the argument `e`, else the
description of the code; `none` = neither is given (`AssertionError`). -/
def Call.text (reg : Reg) (c : Call) : Option String :=
  match c.e with
  | some s => some s
  | none => c.code.map fun k => (reg.descr k).getD ""

structure St where
  seen : List CKey := []     -- seen_errors
  used : List Int := []      -- used_ignores
  fails : List Failure := [] -- all_failures
  deriving DecidableEq, Repr, Inhabited

structure Env where
  reg : Reg
  en : String → Bool
  fname : String
  ctxLines : Nat := 3

/-- `show_error`; `none` = an exception escapes (`AssertionError`: neither message nor code;
`IndexError`: line number beyond the file while `obey_ignore`). -/
def showError (env : Env) (lines : List Line) (st : St) (c : Call) : Option St :=
  if c.captured then some st                                              -- :594
  else if (match c.code with | some k => !env.en k | none => false) then some st   -- :607
  else match fileLevelIdx c.code 0 lines with                             -- :610
    | some i => some { st with used := (i : Int) :: st.used }
    | none =>
      if st.seen.contains c.key then some st                              -- :614
      else
        let st := { st with seen := c.key :: st.seen }                    -- :617
        match c.text env.reg with                                         -- :619‥623
        | none => none                                                    -- AssertionError
        | some e =>
          let emit : Option St :=
            some (if c.save then { st with fails := st.fails ++ [render env.ctxLines env.fname lines c e] } else st)
          match (if c.obey then c.pos else none) with                     -- :653
          | none => emit
          | some (ln, _) =>
            match pyGet lines ((ln : Int) - 1) with                       -- :654
            | none => none
            | some thisLine =>
              if trailingMatch thisLine c.code then
                some { st with used := ((ln : Int) - 1) :: st.used }      -- :660
              else match (if 2 ≤ ln then pyGet lines ((ln : Int) - 2) else some []) with  -- :668‥670 (no previous line for ln < 2)
                | none => none
                | some prev =>
                  if ownLineMatch prev c.code then
                    some { st with used := ((ln : Int) - 2) :: st.used }  -- :668
                  else emit

/-- the visitor's calls in order -/
def run (env : Env) (lines : List Line) : St → List Call → Option St
  | st, [] => some st
  | st, c :: cs =>
    match showError env lines st c with
    | none => none
    | some st' => run env lines st' cs

/-- the `show_error` calls of `show_errors_for_unused_ignores` (node_visitor.py:267) -/
def unusedCalls (unusedCode : String) (lines : List Line) (used : List Int) : List Call :=
  (zipIdxFrom 0 lines).filterMap fun (i, l) =>
    if hasSub IC l && !used.contains (i : Int) then
      let col := (findSub IC l).getD 0
      some { node := .fake (i + 1) col, code := some unusedCode, e := none, pos := some (i + 1, col), obey := false }
    else none

/-- the `show_error` calls of `show_errors_for_bare_ignores` (node_visitor.py:285) -/
def bareCalls (bareCode : String) (lines : List Line) : List Call :=
  (zipIdxFrom 0 lines).filterMap fun (i, l) =>
    if hasSub IC l && !hasSub (IC ++ ['[']) l then
      let col := (findSub IC l).getD 0
      some { node := .fake (i + 1) col, code := some bareCode, e := none, pos := some (i + 1, col), obey := false }
    else none

/-- `NameCheckVisitor.check` from the first `show_error` call on (name_check_visitor.py:1328‥1334):
visitor stream, unused-ignore pass, bare-ignore pass. -/
def check (env : Env) (lines : List Line) (calls : List Call) : Option St :=
  match run env lines {} calls with
  | none => none
  | some st =>
    match run env lines st (unusedCalls "unused_ignore" lines st.used) with
    | none => none
    | some st =>
      match fileLevelIdx none 0 lines with
      | some i => some { st with used := (i : Int) :: st.used }
      | none => run env lines st (bareCalls "bare_ignore" lines)

end Pya.C12
