/-!
# Core/Scope — model of pyanalyze's reaching-definitions kernel (property C09)

Follows, branch by branch (defects included):

* `pyanalyze/stacked_scopes.py` `FunctionScope`: `set` (:1102), `get_local` (:1126), `suppressing_subscope`
  (:1191), `subscope` (:1232), `loop_scope` (:1250), `get_combined_scope` (:1263), `combine_subscopes` (:1282),
  `_get_value_from_nodes` (:1319, only the `_UNINITIALIZED` → `UNINITIALIZED_VALUE` mapping);
* `pyanalyze/name_check_visitor.py`: `visit_If` (:4531), `visit_For` (:4207), `visit_While` (:4249),
  `_handle_loop_else` (:4279), `visit_With`/`visit_single_cm` (:4326/:4351), `visit_try_except` (:4402),
  `visit_Try` (:4435), `visit_Return` (:4091), `visit_Raise` (:4136), `visit_Break`/`visit_Continue` (:4201/:4204),
  the two-phase visit of a function body in `_visit_function_body` (:2312-:2340: collecting, then checking, in the
  *same* `FunctionScope`), the collect-phase second visit of loop bodies, and `resolve_name` (:1663).

The model tracks ONE variable `x` of the function (the analysis of a variable never reads another variable's
entries: every dictionary operation of `FunctionScope` is key-wise). A `SubScope` dictionary is therefore the
record `Sub`: the entry for `x` (absent / list of definition nodes), and the presence of the pseudo-names
`%LEAVES_SCOPE` / `%LEAVES_LOOP` (their values are never read).

Not modelled: constraints (`add_constraint`; the generated conditions are opaque calls and carry none), composite
variables, `ReferencingValue` (global / nonlocal), lookups from nested functions, `del`, `match`, comprehension
scopes, `assert` / `NoReturn` calls setting `%LEAVES_SCOPE`.
-/
namespace Pya.C09

/-! ## Syntax of statement skeletons -/
mutual
inductive Stmt where
  /-- `v = d` (every assignment in a program carries a distinct literal `d`) -/
  | assign (v d : Nat)
  /-- `reveal_type(v)`, use number `u` -/
  | use (v u : Nat)
  /-- a call statement (may raise) -/
  | call
  | ite (t e : Block)
  /-- `while c:` / `while True:` (`always`) / `for _ in it:`; `always` = pyanalyze's `always_entered` -/
  | loop (isWhile always : Bool) (body orelse : Block)
  /-- `break` / `continue`; `j` identifies the statement (AST node identity) -/
  | brk (j : Nat)
  | cont (j : Nat)
  | ret
  | raise
  /-- `try: body except: h … else: orelse [finally: fin]` -/
  | try_ (body : Block) (hs : Handlers) (orelse : Block) (hasFin : Bool) (fin : Block)
  /-- `with cm: body`; `sup` = the context manager may suppress exceptions -/
  | with_ (sup : Bool) (body : Block)
inductive Block where
  | nil
  | cons (s : Stmt) (b : Block)
inductive Handlers where
  | nil
  | cons (h : Block) (hs : Handlers)
end

def Block.ofList : List Stmt → Block
  | [] => .nil
  | s :: r => .cons s (Block.ofList r)

def Handlers.ofList : List Block → Handlers
  | [] => .nil
  | h :: r => .cons h (Handlers.ofList r)

/-! ## State -/

/-- A definition node of `x`: `none` = `_UNINITIALIZED`, `some d` = the assignment statement `x = d`. -/
abbrev Node := Option Nat

/-- A `SubScope` (`dict[Varname, list[Node]]`) restricted to the keys `x`, `%LEAVES_SCOPE`, `%LEAVES_LOOP`. -/
structure Sub where
  x  : Option (List Node) := none
  ls : Bool := false
  ll : Bool := false
deriving Repr, DecidableEq, Inhabited

structure St where
  /-- `name_to_current_definition_nodes` -/
  cur   : Sub := {}
  /-- `name_to_all_definition_nodes[x]` (a set; kept as a duplicate-free list) -/
  allX  : List Nat := []
  /-- `name_to_all_definition_nodes[%LEAVES_LOOP]`: the break/continue statements seen so far -/
  allJ  : List Nat := []
  /-- `current_loop_scopes`, *without* the main scope of the innermost loop (that one is `cur` while the
  body is being visited; `loopScope` puts it in front when the loop scope is left) -/
  loops : List Sub := []
  /-- `usage_to_definition_nodes` for the uses of `x` (insertion-ordered association list) -/
  u2d   : List (Nat × List Node) := []
  /-- checking phase: what `get_local` returned at every visit of a use of `x`
  (`none`: key not in `usage_to_definition_nodes`) -/
  out   : List (Nat × Option (List Node)) := []
deriving Repr, Inhabited

/-- `OrderedDict.fromkeys(l)`: drop later duplicates, keep order. -/
def uniq : List Node → List Node
  | [] => []
  | a :: l => a :: (uniq l).filter (· != a)

def insertNat (a : Nat) (l : List Nat) : List Nat := if l.contains a then l else l ++ [a]

def lookup (u : Nat) : List (Nat × List Node) → Option (List Node)
  | [] => none
  | (k, v) :: r => if k = u then some v else lookup u r

/-- `usage_to_definition_nodes[key] += definers` on a `defaultdict(list)`. -/
def addUse (u : Nat) (ds : List Node) : List (Nat × List Node) → List (Nat × List Node)
  | [] => [(u, ds)]
  | (k, v) :: r => if k = u then (k, v ++ ds) :: r else (k, v) :: addUse u ds r

/-- `FunctionScope.subscope` entry (stacked_scopes.py:1232): a copy of the current dictionary without
`%LEAVES_SCOPE`. -/
def enter (st : St) : St := { st with cur := { st.cur with ls := false } }

/-- `with subscope() as s: a = f()` — returns what `f` returned, the dictionary `s` as it is when the block
is left, and the state with `name_to_current_definition_nodes` restored (everything else is shared with the
subscope). -/
@[inline] def subscopeR {α : Type} (f : St → α × St) (st : St) : α × Sub × St :=
  let r := f (enter st)
  (r.1, r.2.cur, { r.2 with cur := st.cur })

@[inline] def subscope (f : St → St) (st : St) : Sub × St :=
  let st' := f (enter st)
  (st'.cur, { st' with cur := st.cur })

/-- `get_combined_scope` + `combine_subscopes` (stacked_scopes.py:1263, :1282). Scopes containing
`%LEAVES_LOOP` are appended to `current_loop_scopes`; of the others, those without `%LEAVES_SCOPE` are merged
key-wise (a scope lacking `x` contributes `[_UNINITIALIZED]`); if none is left the result is
`{%LEAVES_SCOPE: []}`. The result *updates* the current dictionary (other keys stay). -/
def combine (ss : List Sub) (st : St) : St :=
  let pushed := ss.filter (·.ll)
  let kept := ss.filter (fun s => !s.ll && !s.ls)
  let st := { st with loops := st.loops ++ pushed }
  if kept.isEmpty then { st with cur := { st.cur with ls := true } }
  else if kept.any (·.x.isSome) then
    { st with cur := { st.cur with x := some (uniq (kept.flatMap fun s => s.x.getD [none])) } }
  else st

/-- `FunctionScope.set(x, …)` (:1102). -/
def setX (d : Nat) (st : St) : St :=
  { st with cur := { st.cur with x := some [some d] }, allX := insertNat d st.allX }

/-- `_set_name_in_scope(LEAVES_SCOPE, …)` -/
def setLS (st : St) : St := { st with cur := { st.cur with ls := true } }

/-- `_set_name_in_scope(LEAVES_LOOP, node, …)` -/
def setLL (j : Nat) (st : St) : St :=
  { st with cur := { st.cur with ll := true }, allJ := insertNat j st.allJ }

/-- `FunctionScope.get_local` for a use of `x` (:1126): collecting — if `x` is a key of the current dictionary
its nodes are appended to `usage_to_definition_nodes[u]`; checking — read that entry. -/
def useX (collecting : Bool) (u : Nat) (st : St) : St :=
  if collecting then
    match st.cur.x with
    | some ds => { st with u2d := addUse u ds st.u2d }
    | none => st
  else { st with out := st.out ++ [(u, lookup u st.u2d)] }

/-- `FunctionScope.loop_scope` (:1250) around `f`. Returns `loop_scopes` (main scope first). -/
@[inline] def loopScope (f : St → St) (st : St) : List Sub × St :=
  let st1 := f { enter st with loops := [] }
  let loopScopes := st1.cur :: st1.loops
  let st2 := { st1 with cur := st.cur, loops := st.loops }
  (loopScopes, combine (loopScopes.map fun s => { s with ll := false }) st2)

/-- `FunctionScope.suppressing_subscope` (:1191) around `f`. Returns the inner scope. -/
@[inline] def suppressing (f : St → St) (st : St) : Sub × St :=
  let oldX := st.allX
  let oldJ := st.allJ
  let (inner, st) := subscope f st
  let restX := st.allX.filter (fun d => !oldX.contains d)
  let restJ := st.allJ.filter (fun j => !oldJ.contains j)
  let dummy : Sub := { st.cur with ls := false }
  let new : Sub :=
    { x := if dummy.x.isSome || !restX.isEmpty then some (dummy.x.getD [] ++ restX.map some) else none
      ls := false
      ll := dummy.ll || !restJ.isEmpty }
  (inner, combine [dummy, new] st)

/-- visit_try_except (:4402), given the visitors of the try body, the `else` block and the handlers. -/
@[inline] def tryExcept (vBody vElse : St → St) (vHandlers : Sub → Sub → St → List Sub × St) (st : St) : St :=
  let st0 := enter st                                    -- `with self.scopes.subscope():` (:4403)
  let (dummy, st1) := subscope id st0
  let (success, failure, st2) := subscopeR (suppressing vBody) st1
  let (elseScope, st3) := subscope (fun s => vElse (combine [success] s)) st2
  let (excs, st4) := vHandlers dummy failure st3
  combine (elseScope :: excs) { st4 with cur := st.cur }  -- (:4433), outside the outer subscope

/-! ## The visitor -/
mutual
def visitStmt (collecting : Bool) (x : Nat) : Stmt → St → St
  | .assign v d, st => if v = x then setX d st else st
  | .use v u, st => if v = x then useX collecting u st else st
  | .call, st => st
  -- visit_If (:4531)
  | .ite t e, st =>
    let (b, st) := subscope (visitBlock collecting x t) st
    let (e, st) := subscope (visitBlock collecting x e) st
    combine [b, e] st
  -- visit_For (:4207) / visit_While (:4249)
  | .loop isWhile always body orelse, st =>
    let (loopScopes, bodyScope, st) := subscopeR (loopScope (visitBlock collecting x body)) st
    -- _handle_loop_else (:4279)
    let (bodyScope, st) := if always then subscope id (combine [bodyScope] st) else (bodyScope, st)
    let (elseScope, st) := subscope (visitBlock collecting x orelse) st
    let st := combine [bodyScope, elseScope] st
    -- the second visit of the body in the collecting phase (:4241, :4267)
    let st := if collecting then (subscope (visitBlock collecting x body) st).2 else st
    -- visit_While:4275
    if isWhile && always && loopScopes.all (fun s => !s.ll) then setLS st else st
  | .brk j, st => setLL j st
  | .cont j, st => setLL j st
  | .ret, st => setLS st
  | .raise, st => setLS st
  -- visit_With (:4326) / visit_single_cm (:4351)
  | .with_ sup body, st =>
    if sup then (suppressing (visitBlock collecting x body) st).2 else visitBlock collecting x body st
  -- visit_Try (:4435)
  | .try_ body hs orelse hasFin fin, st =>
    let vte := tryExcept (visitBlock collecting x body) (visitBlock collecting x orelse)
      (visitHandlers collecting x hs)
    if hasFin then
      let (successScope, failureScope, st) := subscopeR (suppressing vte) st
      let st := (subscope (fun s => visitBlock collecting x fin (combine [failureScope] s)) st).2
      visitBlock collecting x fin (combine [successScope] st)
    else vte st

/-- the `for handler in node.handlers` loop of visit_try_except (:4417) -/
def visitHandlers (collecting : Bool) (x : Nat) : Handlers → (dummy failure : Sub) → St → List Sub × St
  | .nil, _, _, st => ([], st)
  | .cons h hs, dummy, failure, st =>
    let (e, st) := subscope (fun s => visitBlock collecting x h (combine [dummy, failure] s)) st
    let (es, st) := visitHandlers collecting x hs dummy failure st
    (e :: es, st)

def visitBlock (collecting : Bool) (x : Nat) : Block → St → St
  | .nil, st => st
  | .cons s b, st => visitBlock collecting x b (visitStmt collecting x s st)
end

/-! ## The function-level driver (`_visit_function_body`, :2312-:2340) -/

/-- The collecting phase on a fresh `FunctionScope`. -/
def collect (p : Block) (x : Nat) : St := visitBlock true x p {}

/-- Collecting, then checking, in the same scope object. -/
def analyse (p : Block) (x : Nat) : St := visitBlock false x p (collect p x)

/-- What `reveal_type` / `resolve_name` show at use `u`: the definition nodes `get_local` resolves, with
`_UNINITIALIZED` (`none`) standing for `UNINITIALIZED_VALUE`. A use whose key is not in
`usage_to_definition_nodes` falls through to the enclosing scopes, where the name is not defined: `[none]`. -/
def reported (p : Block) (x u : Nat) : List Node :=
  match lookup u (collect p x).u2d with
  | some ds => ds
  | none => [none]

inductive Diag | ok | undefined | possibly
deriving Repr, DecidableEq

/-- `resolve_name` (:1697-:1735): `undefined_name` when the value is exactly `UNINITIALIZED_VALUE`,
`possibly_undefined_name` when it is a union containing it. -/
def diagOf (ds : List Node) : Diag :=
  if ds.all (· == none) then .undefined
  else if ds.contains none then .possibly else .ok

/-! ## Scope kinds

How the name is bound in the analysed function. The flow-sensitive bookkeeping of `FunctionScope.set`
(stacked_scopes.py:1116-1123: `definition_node_to_value`, `name_to_current_definition_nodes`,
`name_to_all_definition_nodes`) runs for every kind of name — `Generated/ScopeSet.lean` is regenerated from the live
source and `scope_set_bookkeeping_registered` (Props/C09.lean) checks it. What differs:

* a **parameter** is set once when the scope is created (`_visit_function_body` :2305), exactly like an assignment in
  front of the body;
* a name declared **`global` / `nonlocal`** is backed by a `ReferencingValue` (`visit_Global` :2569, `visit_Nonlocal`
  :2583 → `FunctionScope.set` :1105-1107). Every assignment is *additionally* forwarded to the owning scope
  (`ref_var.scope.set`, :1110): the module `Scope` unites all values it is ever given (`Scope.set` :759), the enclosing
  `FunctionScope` records the node in its `name_to_all_definition_nodes`. Uses are resolved from the same
  `usage_to_definition_nodes`, but `_UNINITIALIZED` — and a use whose key is missing (`get_local` falls back to
  `referencing_value_vars`) — stands for "whatever the owning scope holds" (`_get_value_from_nodes` :1329-1338
  `should_use_unconstrained` → `_resolve_value(_empty_constrained)` → `parent_scope.get(varname, None, …)`;
  `resolve_reference` :838): the binding made outside the function plus every value ever assigned to the name in
  the function, dead code included. Such a name is never reported as undefined. -/
inductive ScopeKind where
  /-- ordinary local variable, unbound on entry -/
  | loc
  /-- parameter `x: Literal[d0] = d0` -/
  | param (d0 : Nat)
  /-- `global x`, the module binds `x = d0` -/
  | glob (d0 : Nat)
  /-- `nonlocal x` in a nested function, the enclosing function binds `x = d0` before the `def` -/
  | nonloc (d0 : Nat)
deriving Repr, DecidableEq

mutual
/-- the literals of all assignments to `x`, in program order (every statement is visited in the collecting phase) -/
def Stmt.defsOf (x : Nat) : Stmt → List Nat
  | .assign v d => if v = x then [d] else []
  | .ite t e => t.defsOf x ++ e.defsOf x
  | .loop _ _ b e => b.defsOf x ++ e.defsOf x
  | .try_ b hs e _ f => b.defsOf x ++ hs.defsOf x ++ e.defsOf x ++ f.defsOf x
  | .with_ _ b => b.defsOf x
  | _ => []
def Block.defsOf (x : Nat) : Block → List Nat
  | .nil => []
  | .cons s b => s.defsOf x ++ b.defsOf x
def Handlers.defsOf (x : Nat) : Handlers → List Nat
  | .nil => []
  | .cons h hs => h.defsOf x ++ hs.defsOf x
end

/-- what the owning scope of a `global` / `nonlocal` name holds when the function is checked -/
def ownerHolds (d0 : Nat) (p : Block) (x : Nat) : List Node := (d0 :: p.defsOf x).map some

/-- `_UNINITIALIZED` of a ReferencingValue-backed name is resolved through the owning scope -/
def expandRef (d0 : Nat) (p : Block) (x : Nat) (ds : List Node) : List Node :=
  ds.flatMap fun n => match n with
    | none => ownerHolds d0 p x
    | some d => [some d]

/-- what is reported at use `u` of `x` when `x` is bound the way `k` says -/
def reportedK (k : ScopeKind) (p : Block) (x u : Nat) : List Node :=
  match k with
  | .loc => reported p x u
  | .param d0 => reported (.cons (.assign x d0) p) x u
  | .glob d0 => expandRef d0 p x (reported p x u)
  | .nonloc d0 => expandRef d0 p x (reported p x u)

end Pya.C09
