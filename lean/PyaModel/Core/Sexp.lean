import PyaModel.Core.Assign
/-!
# Core/Sexp — text codec for `Obj` / `Ty` (line protocol of the drivers)

`(typed 1)`, `(generic 9 (typed 1))`, `(known (tuple (int 1) (str a)))`, `any`, `none` …
-/
namespace Pya

inductive Sexp where
  | atom (s : String)
  | node (xs : List Sexp)
  deriving Repr, Inhabited

def tokenize (s : String) : List String :=
  let rec go (cs : List Char) (cur : String) (acc : List String) : List String :=
    match cs with
    | [] => (if cur.isEmpty then acc else cur :: acc).reverse
    | c :: cs =>
      if c == '(' || c == ')' then
        go cs "" (String.singleton c :: (if cur.isEmpty then acc else cur :: acc))
      else if c == ' ' then go cs "" (if cur.isEmpty then acc else cur :: acc)
      else go cs (cur.push c) acc
  go s.toList "" []

/-- Parse one s-expression; fuel = number of tokens. Returns the rest. -/
def parseSexp : Nat → List String → Option (Sexp × List String)
  | 0, _ => none
  | _, [] => none
  | fuel + 1, t :: ts =>
    if t == "(" then
      let rec items (f : Nat) (ts : List String) (acc : List Sexp) : Option (List Sexp × List String) :=
        match f, ts with
        | 0, _ => none
        | _, [] => none
        | f + 1, ")" :: rest => some (acc.reverse, rest)
        | f + 1, ts => match parseSexp fuel ts with
          | some (x, rest) => items f rest (x :: acc)
          | none => none
      (items (fuel + 1) ts []).map fun (xs, rest) => (Sexp.node xs, rest)
    else if t == ")" then none
    else some (.atom t, ts)

def readSexps (s : String) : Option (List Sexp) :=
  let toks := tokenize s
  let rec go (f : Nat) (ts : List String) (acc : List Sexp) : Option (List Sexp) :=
    match f, ts with
    | _, [] => some acc.reverse
    | 0, _ => none
    | f + 1, ts => match parseSexp (toks.length + 1) ts with
      | some (x, rest) => go f rest (x :: acc)
      | none => none
  go (toks.length + 1) toks []

mutual
def Sexp.toObj : Sexp → Option Obj
  | .atom "none" => some .none
  | .node [.atom "int", .atom n] => n.toInt?.map .int
  | .node [.atom "bool", .atom b] => some (.bool (b == "1"))
  | .node [.atom "str"] => some (.str "")
  | .node [.atom "str", .atom s] => some (.str s)
  | .node [.atom "bytes"] => some (.bytes "")
  | .node [.atom "bytes", .atom s] => some (.bytes s)
  | .node [.atom "flt", .atom n] => n.toNat?.map .flt
  | .node [.atom "cplx", .atom n] => n.toNat?.map .cplx
  | .node [.atom "inst", .atom c, .atom i] => do some (.inst (← c.toNat?) (← i.toNat?))
  | .node [.atom "cls", .atom c] => c.toNat?.map .cls
  | .node (.atom "tuple" :: xs) => (Sexp.toObjs xs).map .tuple
  | .node (.atom "list" :: xs) => (Sexp.toObjs xs).map .list
  | .node (.atom "set" :: xs) => (Sexp.toObjs xs).map .set
  | .node (.atom "fset" :: xs) => (Sexp.toObjs xs).map .fset
  | .node [.atom "dict", .node ks, .node vs] => do some (.dict (← Sexp.toObjs ks) (← Sexp.toObjs vs))
  | _ => none
def Sexp.toObjs : List Sexp → Option (List Obj)
  | [] => some []
  | x :: xs => do some ((← Sexp.toObj x) :: (← Sexp.toObjs xs))
end

mutual
def Sexp.toTy : Sexp → Option Ty
  | .atom "any" => some .any
  | .node [.atom "known", o] => o.toObj.map .known
  | .node [.atom "typed", .atom c] => c.toNat?.map .typed
  | .node [.atom "newtype", .atom n, .atom c] => do some (.newtype (← n.toNat?) (← c.toNat?))
  | .node (.atom "generic" :: .atom c :: xs) => do some (.generic (← c.toNat?) (← Sexp.toTys xs))
  | .node (.atom "seq" :: .atom c :: xs) => do some (.seq (← c.toNat?) (← Sexp.toTys xs))
  | .node [.atom "many", t] => t.toTy.map .many
  | .node (.atom "union" :: xs) => (Sexp.toTys xs).map .union
  | .node [.atom "subclass", .atom c] => c.toNat?.map .subclass
  | .node [.atom "annotated", t] => t.toTy.map .annotated
  | .node [.atom "tvar", .atom i] => i.toNat?.map .tvar
  | _ => none
def Sexp.toTys : List Sexp → Option (List Ty)
  | [] => some []
  | x :: xs => do some ((← Sexp.toTy x) :: (← Sexp.toTys xs))
end

mutual
def Obj.show : Obj → String
  | .none => "none"
  | .int n => s!"(int {n})"
  | .bool b => s!"(bool {if b then 1 else 0})"
  | .str s => if s.isEmpty then "(str)" else s!"(str {s})"
  | .bytes s => if s.isEmpty then "(bytes)" else s!"(bytes {s})"
  | .flt n => s!"(flt {n})"
  | .cplx n => s!"(cplx {n})"
  | .inst c i => s!"(inst {c} {i})"
  | .cls c => s!"(cls {c})"
  | .tuple xs => "(tuple" ++ Obj.showList xs ++ ")"
  | .list xs => "(list" ++ Obj.showList xs ++ ")"
  | .set xs => "(set" ++ Obj.showList xs ++ ")"
  | .fset xs => "(fset" ++ Obj.showList xs ++ ")"
  | .dict ks vs => "(dict (" ++ (Obj.showList ks).trimAsciiStart.toString ++ ") (" ++ (Obj.showList vs).trimAsciiStart.toString ++ "))"
def Obj.showList : List Obj → String
  | [] => ""
  | x :: xs => " " ++ Obj.show x ++ Obj.showList xs
end

mutual
def Ty.show : Ty → String
  | .any => "any"
  | .known o => s!"(known {o.show})"
  | .typed c => s!"(typed {c})"
  | .newtype n c => s!"(newtype {n} {c})"
  | .generic c xs => s!"(generic {c}" ++ Ty.showList xs ++ ")"
  | .seq c xs => s!"(seq {c}" ++ Ty.showList xs ++ ")"
  | .many t => "(many " ++ Ty.show t ++ ")"
  | .union xs => "(union" ++ Ty.showList xs ++ ")"
  | .subclass c => s!"(subclass {c})"
  | .annotated t => "(annotated " ++ Ty.show t ++ ")"
  | .tvar i => s!"(tvar {i})"
def Ty.showList : List Ty → String
  | [] => ""
  | x :: xs => " " ++ Ty.show x ++ Ty.showList xs
end

end Pya
