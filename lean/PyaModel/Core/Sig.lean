/-!
# Core/Sig — model of `pyanalyze.signature.Signature.bind_arguments` and `preprocess_args`

Faithful layer: one Lean branch per Python branch of `bind_arguments`
(signature.py:802‥1136), restricted to the parameter kinds a `def` can
produce (POSITIONAL_ONLY, POSITIONAL_OR_KEYWORD, VAR_POSITIONAL, KEYWORD_ONLY,
VAR_KEYWORD).  Not modelled: `ELLIPSIS` / `PARAM_SPEC` parameters, the
`pos_or_keyword_params` set (only produced by `Signature.can_assign`), the
`ellipsis` flag of `Callable[..., T]` actuals.

No imports: this file must stay core-only so the drivers start fast.
-/
namespace Pya

inductive Kind | posOnly | posOrKw | varPos | kwOnly | varKw
  deriving DecidableEq, Repr, Inhabited

structure Param where
  name : String
  kind : Kind
  dflt : Bool
  deriving DecidableEq, Repr, Inhabited

/-- `Position` of signature.py: `int | str | ARGS | KWARGS | DEFAULT | UNKNOWN`. -/
inductive Pos | idx (n : Nat) | kw (s : String) | args | kwargs | dflt | unknown
  deriving DecidableEq, Repr, Inhabited

/-- `ActualArguments` (signature.py:232): what `preprocess_args` hands to the binder.
`pos` holds the `definitely_provided` flag of every positional, `kws` the
(name, definitely_provided) pairs in insertion order, `starArgs`/`starKw`
whether a `*args` / `**kwargs` of unknown length is present. -/
structure Actual where
  pos : List Bool
  starArgs : Bool
  kws : List (String × Bool)
  starKw : Bool
  kwReq : Bool
  deriving Repr, Inhabited

def Actual.hasKw (a : Actual) (n : String) : Bool := a.kws.any (·.1 == n)
def Actual.kwProvided (a : Actual) (n : String) : Bool :=
  match a.kws.find? (·.1 == n) with
  | some (_, b) => b
  | none => true

structure BindSt where
  posIdx : Nat := 0
  consumed : List String := []
  bound : List (String × Pos) := []
  sac : Bool := false   -- star_args_consumed
  skc : Bool := false   -- star_kwargs_consumed
  xok : Bool := false   -- accepts_extra_keywords (a `**kwargs` parameter exists)
  deriving Repr, Inhabited

def BindSt.bind (st : BindSt) (n : String) (p : Pos) : BindSt :=
  { st with bound := st.bound ++ [(n, p)] }

/-- One iteration of the `for param in self.parameters.values()` loop. -/
def bindStep (a : Actual) (st : BindSt) (p : Param) : Option BindSt :=
  match p.kind with
  | .posOnly =>
    if st.posIdx < a.pos.length then
      if !(a.pos.getD st.posIdx true) && !p.dflt then none
      else some { (st.bind p.name (.idx st.posIdx)) with posIdx := st.posIdx + 1 }
    else if a.starArgs then
      some { (st.bind p.name (if p.dflt then .unknown else .args)) with sac := true }
    else if p.dflt then some (st.bind p.name .dflt)
    else none
  | .posOrKw =>
    if st.posIdx < a.pos.length then
      if !(a.pos.getD st.posIdx true) && !p.dflt then none
      else if a.hasKw p.name then none
      else some { (st.bind p.name (.idx st.posIdx)) with posIdx := st.posIdx + 1 }
    else if a.starArgs then
      if a.hasKw p.name then none
      else if a.starKw then
        some { (st.bind p.name .unknown) with sac := true, skc := true }
      else
        some { (st.bind p.name (if p.dflt then .unknown else .args)) with sac := true }
    else if a.hasKw p.name then
      if !(a.kwProvided p.name) && !p.dflt then none
      else some { (st.bind p.name (.kw p.name)) with consumed := p.name :: st.consumed }
    else if a.starKw then
      some { (st.bind p.name (if p.dflt then .unknown else .kwargs)) with skc := true }
    else if p.dflt then some (st.bind p.name .dflt)
    else none
  | .kwOnly =>
    if a.hasKw p.name then
      if !(a.kwProvided p.name) && !p.dflt then none
      else some { (st.bind p.name (.kw p.name)) with consumed := p.name :: st.consumed }
    else if a.starKw then
      some { (st.bind p.name (if p.dflt then .unknown else .kwargs)) with
             skc := true, consumed := p.name :: st.consumed }
    else if p.dflt then some (st.bind p.name .dflt)
    else none
  | .varPos =>
    let position := if a.starArgs || st.posIdx < a.pos.length then Pos.args else Pos.dflt
    some { (st.bind p.name position) with sac := true, posIdx := max st.posIdx a.pos.length }
  | .varKw =>
    let items := a.kws.filter (fun k => !st.consumed.contains k.1)
    let position := if a.starKw || !items.isEmpty then Pos.kwargs else Pos.dflt
    some { (st.bind p.name position) with skc := true, xok := true }

/-- The checks after the loop (signature.py:1107‥1133). -/
def bindFinish (a : Actual) (st : BindSt) : Option (List (String × Pos)) :=
  if !st.sac && st.posIdx != a.pos.length then none
  else if !st.xok && !(a.kws.filter (fun k => !st.consumed.contains k.1)).isEmpty then none
  else if !st.sac && a.starArgs then none
  else if !st.skc && a.starKw && a.kwReq then none
  else some st.bound

def pyaBind (sig : List Param) (a : Actual) : Option (List (String × Pos)) :=
  (sig.foldlM (bindStep a) ({} : BindSt)).bind (bindFinish a)

/-! ## `preprocess_args` for statically shaped calls -/

/-- One syntactic argument of a call whose shape is statically known. -/
inductive Arg
  | pos                           -- `f(1)`
  | starLit (n : Nat)             -- `f(*(1, 2))`  literal tuple/list of n elements
  | starUnk                       -- `f(*xs)`      xs : list[int] / tuple[int, ...]
  | kw (name : String)            -- `f(a=1)`
  | dstarLit (names : List String) -- `f(**{'a': 1, 'b': 2})`
  | dstarUnk                      -- `f(**d)`      d : dict[str, int]
  deriving DecidableEq, Repr, Inhabited

structure PreSt where
  pos : List Bool := []
  starArgs : Bool := false
  kws : List (String × Bool) := []
  starKw : Bool := false
  kwReqs : List Bool := []
  deriving Repr, Inhabited

/-- Step 2 of `preprocess_args` on one already split argument
(`none` = positional, `some n` = keyword n). -/
def PreSt.addPos (s : PreSt) : Option PreSt :=
  if !s.kws.isEmpty || s.starKw then none          -- "Positional argument follow keyword arguments"
  else if s.starArgs then some s                    -- dumped into *args
  else some { s with pos := s.pos ++ [true] }

def PreSt.addKw (s : PreSt) (n : String) : Option PreSt :=
  if s.kws.any (·.1 == n) then none                 -- "Multiple values provided"
  else some { s with kws := s.kws ++ [(n, true)] }

def preStep (s : PreSt) : Arg → Option PreSt
  | .pos => s.addPos
  | .starLit n => (List.replicate n ()).foldlM (fun s _ => s.addPos) s
  | .starUnk => if s.starKw then none else some { s with starArgs := true }
  | .kw n => s.addKw n
  | .dstarLit ns => ns.reverse.foldlM (fun s n => s.addKw n) s   -- `for pair in reversed(items)`
  | .dstarUnk => some { s with starKw := true, kwReqs := s.kwReqs ++ [true] }

def preprocess (args : List Arg) : Option Actual :=
  (args.foldlM preStep ({} : PreSt)).map fun s =>
    { pos := s.pos, starArgs := s.starArgs, kws := s.kws, starKw := s.starKw,
      kwReq := s.kwReqs.any id }

/-- The whole pipeline `preprocess_args` → `bind_arguments`; `none` = an
`incompatible_call` diagnostic is emitted. -/
def pyaCall (sig : List Param) (args : List Arg) : Option (List (String × Pos)) :=
  (preprocess args).bind (pyaBind sig)

end Pya
