import PyaModel.Core.Sig
/-!
# Core/SigAssign — model of `pyanalyze.signature.Signature.can_assign`

Faithful layer. `sigCanAssign R exp act` follows `Signature.can_assign`
(signature.py:1445‥1720, the branch taken when `USE_CHECK_CALL_FOR_CAN_ASSIGN` is false,
which is the module constant's value): `self` = `exp` (the expected callable), `other` = `act`
(the function offered).  One Lean branch per Python branch of the loop
`for i, my_param in enumerate(self.parameters.values())` (my_param kinds POSITIONAL_ONLY,
POSITIONAL_OR_KEYWORD, KEYWORD_ONLY, VAR_POSITIONAL, VAR_KEYWORD), the three `consumed_*` sets,
and the trailing loop over `their_params` ("takes extra … parameter").
`ovCanAssign` follows the two overload wrappers (signature.py:1451‥1465 `other` overloaded = any,
signature.py:2555‥2567 `OverloadedSignature.can_assign` = all).

Types are abstract: the model is parametrised by a record `R : TyRel τ` of the seven
value-level questions the kernel asks about annotations (`Value.can_assign` on the annotation
values, `can_assign_var_positional` signature.py:2670, `can_assign_var_keyword` signature.py:2708).
The instance for the tag universe of the harness is regenerated from the live tree
(`Generated/SigTypes.lean`).

Not modelled: PARAM_SPEC / ELLIPSIS parameters (`Callable[..., T]`, `Callable[P, T]`), the
`is_asynq` test, `SequenceValue` annotations of `*args` (`*args: *tuple[int, str]`, the only use of
`i - their_args_index`), `TypedDictValue` annotations of `**kwargs` (`Unpack[TD]`), the bounds
maps (type variables) that a successful comparison returns.
-/
namespace Pya.C07

/-- The questions `Signature.can_assign` asks about annotations; first argument = the annotation
of the *actual* (their) parameter, second = of the *expected* (my) parameter, except `asg` on the
return annotations where it is `my_return.can_assign(their_return)`. -/
structure TyRel (τ : Type) where
  /-- `T.can_assign(S)` on two plain annotations. -/
  asg : τ → τ → Bool
  /-- `their *args annotation .can_assign( my *args annotation )` (line 1621). -/
  vpvp : τ → τ → Bool
  /-- `their **kwargs annotation .can_assign( my **kwargs annotation )` (line 1647). -/
  vkvk : τ → τ → Bool
  /-- `extra_param.get_annotation().can_assign(my *args annotation)` (line 1636): note that the
  right-hand side is the *tuple* annotation of `*args`, not its element type. -/
  xvp : τ → τ → Bool
  /-- `extra_param.get_annotation().can_assign(my **kwargs annotation)` (line 1660). -/
  xvk : τ → τ → Bool
  /-- `can_assign_var_positional(my_param, their *args annotation, …)` succeeds. -/
  evp : τ → τ → Bool
  /-- `can_assign_var_keyword(my_param, their **kwargs annotation)` succeeds. -/
  evk : τ → τ → Bool

/-- A `SigParameter`: name, kind, "has a default", annotation (for `*args: T` / `**kw: T` the
element annotation `T`; the harness' translation table accounts for the `tuple[T, ...]` /
`dict[str, T]` wrapping). -/
structure TParam (τ : Type) where
  name : String
  kind : Kind
  dflt : Bool
  ann : τ
  deriving Repr, Inhabited

def TParam.toParam {τ} (p : TParam τ) : Param := ⟨p.name, p.kind, p.dflt⟩

structure TSig (τ : Type) where
  params : List (TParam τ)
  ret : τ
  deriving Repr, Inhabited

def isPositional (k : Kind) : Bool := k == .posOnly || k == .posOrKw

/-- `Signature.get_param_of_kind(kind)` reduced to the annotation. -/
def annOfKind {τ} (ps : List (TParam τ)) (k : Kind) : Option τ :=
  (ps.find? (·.kind == k)).map (·.ann)

/-- `their_params[i]` if `i < len(their_params)` and its kind is positional(-only / -or-keyword). -/
def posAt {τ} (their : List (TParam τ)) (i : Nat) : Option (TParam τ) :=
  (their[i]?).filter (fun t => isPositional t.kind)

/-- `other.parameters.get(name)` if it exists and is positional-or-keyword or keyword-only. -/
def kwAt {τ} (their : List (TParam τ)) (n : String) : Option (TParam τ) :=
  (their.find? (·.name == n)).filter (fun t => t.kind == .posOrKw || t.kind == .kwOnly)

/-- `other.parameters.get(name)` if it exists and is keyword-only. -/
def koAt {τ} (their : List (TParam τ)) (n : String) : Option (TParam τ) :=
  (their.find? (·.name == n)).filter (fun t => t.kind == .kwOnly)

/-- Loop state: `i` of `enumerate`, `consumed_positional`, `consumed_required_pos_only`,
`consumed_keyword`. -/
structure SaSt where
  i : Nat := 0
  cp : List String := []
  crpo : List String := []
  ck : List String := []
  deriving Repr, Inhabited

def SaSt.next (s : SaSt) : Option SaSt := some { s with i := s.i + 1 }

/-- One iteration of `for i, my_param in enumerate(self.parameters.values())`. -/
def saStep {τ} (R : TyRel τ) (their : List (TParam τ)) (argsAnn kwargsAnn : Option τ)
    (st : SaSt) (my : TParam τ) : Option SaSt :=
  match my.kind with
  | .posOnly =>
    match posAt their st.i with
    | some t =>
      if my.dflt && !t.dflt then none                      -- "positional-only param has no default"
      else if !R.asg t.ann my.ann then none                 -- "type of positional-only parameter … is incompatible"
      else SaSt.next { st with cp := t.name :: st.cp,
                               crpo := if t.dflt then st.crpo else t.name :: st.crpo }
    | none =>
      match argsAnn with
      | some T => if R.evp T my.ann then st.next else none  -- can_assign_var_positional
      | none => none                                        -- "positional-only parameter i is not accepted"
  | .posOrKw =>
    match posAt their st.i with
    | some t =>
      if t.kind == .posOrKw then
        if my.name != t.name then none                      -- "param name … does not match"
        else if my.dflt && !t.dflt then none                -- "param … has no default"
        else if !R.asg t.ann my.ann then none
        else SaSt.next { st with cp := t.name :: st.cp, ck := t.name :: st.ck }
      else none                                             -- their_params[i] is POSITIONAL_ONLY: "not accepted as a keyword argument"
    | none =>
      match argsAnn, kwargsAnn with
      | some T, some U =>
        if !R.evp T my.ann then none                        -- can_assign_var_positional
        else
          match koAt their my.name with                     -- (fix d699eb1) their keyword-only parameter of
          | some t =>                                       -- the same name receives the keyword, not **kwargs
            if !R.asg t.ann my.ann then none else st.next
          | none =>                                         -- no such parameter, or one of another kind
            if !R.evk U my.ann then none else st.next       -- can_assign_var_keyword
      | _, _ => none                                        -- "parameter … is not accepted"
  | .kwOnly =>
    match kwAt their my.name with
    | some t =>
      if my.dflt && !t.dflt then none                       -- "keyword-only param … has no default"
      else if !R.asg t.ann my.ann then none
      else SaSt.next { st with ck := t.name :: st.ck }
    | none =>
      match kwargsAnn with
      | some U => if R.evk U my.ann then st.next else none  -- can_assign_var_keyword
      | none => none
  | .varPos =>
    match argsAnn with
    | none => none                                          -- "*args are not accepted"
    | some T =>
      if !R.vpvp T my.ann then none
      else
        let extra := their.filter fun p => !st.cp.contains p.name && isPositional p.kind
        if extra.all (fun p => R.xvp p.ann my.ann) then st.next else none
  | .varKw =>
    match kwargsAnn with
    | none => none                                          -- "**kwargs are not accepted"
    | some U =>
      if !R.vkvk U my.ann then none
      else
        let extra := their.filter fun p =>
          !st.ck.contains p.name && (p.kind == .kwOnly || p.kind == .posOrKw) && !st.crpo.contains p.name
        if extra.all (fun p => R.xvk p.ann my.ann) then st.next else none

/-- The trailing loop `for param in their_params` (signature.py:1690‥1718); `true` = no
"takes extra … parameter" error. -/
def saFinish {τ} (their : List (TParam τ)) (st : SaSt) : Bool :=
  their.all fun p =>
    match p.kind with
    | .varPos => true
    | .varKw => true
    | .posOnly => p.dflt || st.cp.contains p.name
    | .posOrKw => p.dflt || st.cp.contains p.name || st.ck.contains p.name
    | .kwOnly => p.dflt || st.ck.contains p.name

/-- `exp.can_assign(act, ctx)` is not a `CanAssignError`. -/
def sigCanAssign {τ} (R : TyRel τ) (exp act : TSig τ) : Bool :=
  R.asg exp.ret act.ret &&
  match exp.params.foldlM
      (saStep R act.params (annOfKind act.params .varPos) (annOfKind act.params .varKw)) ({} : SaSt) with
  | none => false
  | some st => saFinish act.params st

/-- Overloads on either side: every expected overload must be matched by some actual overload
(a plain `Signature` is the one-element list). -/
def ovCanAssign {τ} (R : TyRel τ) (exps acts : List (TSig τ)) : Bool :=
  exps.all fun e => acts.any fun a => sigCanAssign R e a

/-- Annotation tags of the harness universe (`any` = no annotation). -/
inductive Tag | any | object | int | bool | float | str
  deriving DecidableEq, Repr, Inhabited

def Tag.idx : Tag → Nat
  | .any => 0 | .object => 1 | .int => 2 | .bool => 3 | .float => 4 | .str => 5

def Tag.all : List Tag := [.any, .object, .int, .bool, .float, .str]

/-- Table lookup used by the generated instance. -/
def tabRel (m : List (List Bool)) (a b : Tag) : Bool := (m.getD a.idx []).getD b.idx false

end Pya.C07
