/-!
# Core/Tfr — the recursion guard of `annotations._type_from_runtime`

Runtime annotations are graphs of typing objects. Generic aliases (`List[x]`, `Dict[k, v]`,
`Tuple[a, b]`) are built bottom-up, so they only point at *older* objects; the only way back up is a
`ForwardRef`, whose string names a module-level object that may be defined later (recursive aliases:
`Json = List["Json"]`). `_type_from_runtime` (annotations.py:401‥) descends into the arguments of an
alias (`_value_of_origin_args` :1154) and, for a `ForwardRef` (:499‥512):

```
if ctx.is_being_evaluted(val): return AnyValue(inference)          # the guard hit
with ctx.add_evaluation(val):                                      # the guard set grows
    with ctx.suppress_undefined_names():
        return _eval_forward_ref(val.__forward_arg__, ctx, …)      # parse the string, resolve the name, recurse
```

`Context._being_evaluated` (:132‥152) is a set of object ids. The model: a graph is a list of nodes,
`app` nodes may only use smaller indices (a larger one is an ill-formed input and yields `Any`), a
`fref t ev` node names node `t` (`ev` = typing has already resolved it, `__forward_evaluated__`).
`unguarded = true` models a tree in which some route of the ForwardRef branch re-enters
`_type_from_runtime` *outside* `add_evaluation` for an evaluated reference (what
`Generated/TfrRoutes.lean`, regenerated from the live source, says about the live tree).
Fuel counts Python frames: `exhausted` is `RecursionError`.
-/
namespace Pya.C12

inductive RNode
  | leaf (c : Nat)
  | app (args : List Nat)
  | fref (target : Nat) (evaluated : Bool)
  deriving Repr, DecidableEq, Inhabited

abbrev RGraph := List RNode

/-- the `Value` that comes back, as far as the guard is concerned -/
inductive Shape
  | any
  | leaf (c : Nat)
  | app (args : List Shape)
  | exhausted
  deriving Repr, Inhabited

/-- `_type_from_runtime(node n)` with `gs` = the ForwardRef nodes being evaluated. -/
def tfr (unguarded : Bool) (g : RGraph) : Nat → List Nat → Nat → Shape
  | 0, _, _ => .exhausted
  | f + 1, gs, n =>
    match g[n]? with
    | none => .any                                   -- an undefined name under suppress_undefined_names
    | some (.leaf c) => .leaf c
    | some (.app args) => .app (args.map fun a => if a < n then tfr unguarded g f gs a else .any)
    | some (.fref t ev) =>
      if gs.contains n then .any                     -- :502 is_being_evaluted
      else if unguarded && ev then tfr unguarded g f gs t          -- a route outside add_evaluation
      else tfr unguarded g f (n :: gs) t             -- :504 with ctx.add_evaluation(val)

mutual
def Shape.hasExh : Shape → Bool
  | .exhausted => true
  | .app args => Shape.hasExhL args
  | _ => false
def Shape.hasExhL : List Shape → Bool
  | [] => false
  | s :: ss => Shape.hasExh s || Shape.hasExhL ss
end

mutual
def Shape.show : Shape → String
  | .any => "any"
  | .leaf c => s!"L{c}"
  | .app args => "(A" ++ Shape.showL args ++ ")"
  | .exhausted => "X"
def Shape.showL : List Shape → String
  | [] => ""
  | s :: ss => " " ++ Shape.show s ++ Shape.showL ss
end

/-- does some path of the evaluation use up the budget? (= `(tfr …).hasExh`, `tfrDiverges_eq`; computed without
building the — possibly exponentially large — result) -/
def tfrDiverges (unguarded : Bool) (g : RGraph) : Nat → List Nat → Nat → Bool
  | 0, _, _ => true
  | f + 1, gs, n =>
    match g[n]? with
    | none => false
    | some (.leaf _) => false
    | some (.app args) => args.any fun a => if a < n then tfrDiverges unguarded g f gs a else false
    | some (.fref t ev) =>
      if gs.contains n then false
      else if unguarded && ev then tfrDiverges unguarded g f gs t
      else tfrDiverges unguarded g f (n :: gs) t

def isFref (g : RGraph) (i : Nat) : Bool :=
  match g[i]? with
  | some (.fref _ _) => true
  | _ => false

/-- ForwardRef nodes not yet in the guard set -/
def remaining (g : RGraph) (gs : List Nat) : Nat :=
  (List.range g.length).countP fun i => isFref g i && !gs.contains i

/-- frames that always suffice when every route is guarded -/
def tfrBound (g : RGraph) (gs : List Nat) (n : Nat) : Nat :=
  remaining g gs * (g.length + 1) + min n g.length + 1

end Pya.C12
