import PyaModel.Core.Union
import PyaModel.Core.Sig
/-!
# Core/TypeEval — model of `pyanalyze/type_evaluation.py` (the `@evaluated` symbolic interpreter)

Faithful layer, one Lean clause per Python branch:

* `ConditionEvaluator` (type_evaluation.py:336): `visit_Call` :346 (`is_provided` / `is_positional` /
  `is_keyword` on the bound `Position`, `is_of_type`), `visit_is_of_type` :407, `visit_UnaryOp` :461,
  `visit_Compare` :468 (`==`/`is` and `!=`/`is not` against a literal = (reversed) `is_of_type` against
  `KnownValue(literal)` with `exclude_any=True`; `sys.version_info` / `sys.platform` comparisons enter
  as their boolean outcome), `visit_BoolOp` :519 (the narrowed / remaining varmap bookkeeping and the
  `ExitStack` of `narrow_variables`), `ConditionReturn.reverse` :327, `unite_varmaps`, `subtract_unions` :182;
* `decompose_union` :784, `can_assign_maybe_exclude_any` :808 (= `ca tbl exclude_any`);
* the positive narrowing of the matched variable: `constrain_value` (stacked_scopes.py:1556) with a
  `ConstraintType.predicate` constraint holding `IsAssignablePredicate(typ, ctx, positive_only=False)`
  (predicates.py:48), which uses `is_overlapping` / `_deliteral` (value.py:3372‥3388) and
  `is_universally_assignable` (predicates.py:31) — note: evaluated *outside* `set_exclude_any`;
* `EvaluateVisitor` (:619): `visit_block` :658 with `CombinedReturn.make` :304, `visit_If` :746,
  `visit_Return`, `visit_Pass`, `visit_show_error` :715, `_evaluate_ret` :630;
* how `Signature.check_call_with_bound_args` (signature.py:1344‥1365) feeds the evaluator: `varmap`
  and `positions` from the `bound_args` of `bind_arguments` (positions: `pyaCall` of Core/Sig.lean;
  values: `bindValue` below, following the `Composite(...)` each branch of signature.py:822‥1053 stores).

Representation choices (each validated by the correspondence run):
* `EvalReturn = None | Value | CombinedReturn` is the non-empty list of its flattened children
  (`None` ≙ `[none]`, a `Value` ≙ `[some v]`; a `CombinedReturn` made by `make` always has ≥ 2 children);
* `ctx.variables` is a function `Env`; the varmaps returned by conditions are association lists
  (first match wins; `dict.update` = prepend); `unite_varmaps` intersects key sets as the code does;
* a `UserRaisedError` is recorded by its message only (`active_conditions`, i.e. the *detail* text of the
  diagnostic, and the `argument=` node are not modelled).
Not modelled: type variables (`tv_map`), `reveal_type` inside evaluators, validation mode, bodies that
mention names that are not parameters (pyanalyze reports `bad_evaluator` at the definition and the
`or`-loop raises `TypeError` on them), TypedDict-valued `**kwargs` parameters as `is_of_type` subjects.
-/
namespace Pya.C20

/-! ## Syntax of evaluator bodies (the restricted grammar of docs/type_evaluation.md) -/

inductive KindFn | provided | positional | keyword
  deriving DecidableEq, Repr, Inhabited

inductive Cond where
  | ofType (v : String) (t : Ty) (excl : Bool)   -- `is_of_type(v, t, exclude_any=excl)`
  | cmp (v : String) (k : Obj) (neg : Bool)      -- `v == k` / `v is k` (neg = false), `v != k` / `v is not k`
  | kind (f : KindFn) (v : String)               -- `is_provided(v)` …
  | sys (b : Bool)                               -- a `sys.version_info` / `sys.platform` comparison with outcome `b`
  | not (c : Cond)
  | and (cs : List Cond)
  | or (cs : List Cond)
  deriving Repr, Inhabited

inductive Stmt where
  | pass
  | ret (t : Ty)
  | err (m : String)                             -- `show_error("m")`
  | ite (c : Cond) (body orelse : List Stmt)     -- `elif` = an `ite` alone in `orelse`
  deriving Repr, Inhabited

abbrev VarMap := List (String × Ty)
abbrev Env := String → Option Ty
abbrev Positions := List (String × Pos)

/-- `{**old, **varmap}` of `EvalContext.narrow_variables` (:257). -/
def Env.over (e : Env) (m : VarMap) : Env := fun s =>
  match m.lookup s with
  | some t => some t
  | none => e s

def Env.ofList (m : VarMap) : Env := fun s => m.lookup s

/-- `ConditionReturn` (:320) without the display-only `condition`. -/
structure CondRet where
  left : Option VarMap
  right : Option VarMap
  deriving Repr, Inhabited

def CondRet.reverse (r : CondRet) : CondRet := ⟨r.right, r.left⟩

/-! ## Narrowing of the tested variable -/

/-- `unannotate` (value.py:2855). -/
def unannotate : Ty → Ty
  | .annotated t => t
  | t => t

/-- `_deliteral` (value.py:3372). -/
def deliteral (tbl : ClassTable) (t : Ty) : Ty :=
  match unannotate t with
  | .known k => .typed (clsOf tbl k)
  | .seq c _ => .typed c
  | u => u

def overlapBase (tbl : ClassTable) (l r : Ty) : Bool := ca tbl false l r || ca tbl false r l

/-- `is_overlapping` (value.py:3381). The Python recursion swaps its operands each time it meets a
non-empty union on the left; union members are not unions, so it bottoms out after two swaps. -/
def overlapping (tbl : ClassTable) (l r : Ty) : Bool :=
  let l := deliteral tbl l
  let r := deliteral tbl r
  match l with
  | .union (v :: vs) => (v :: vs).any fun m =>
      let m := deliteral tbl m
      match r with
      | .union (w :: ws) => (w :: ws).any fun n => overlapBase tbl m (deliteral tbl n)
      | _ => overlapBase tbl r m
  | _ => overlapBase tbl l r

mutual
/-- `is_universally_assignable(value, target)` (predicates.py:31). -/
def univAssignable : Ty → Ty → Bool
  | .any, _ => true
  | .union [], _ => true
  | .typed c, .subclass _ => c == C.type
  | .annotated v, t => univAssignable v t
  | .union vs, t => univAssignableL vs t
  | .tvar _, _ => true
  | _, _ => false
def univAssignableL : List Ty → Ty → Bool
  | [], _ => true
  | v :: vs, t => univAssignable v t && univAssignableL vs t
end

/-- What `IsAssignablePredicate.__call__(value, positive=True)` does with one union member. -/
inductive NarrowTag | drop | keep | pattern
  deriving DecidableEq, Repr, Inhabited

def narrowTag (tbl : ClassTable) (pat v : Ty) : NarrowTag :=
  if !overlapping tbl pat v then .drop
  else if ca tbl false pat v then
    (if univAssignable v (unannotate pat) then .pattern else .keep)
  else .pattern

def narrowPos (tbl : ClassTable) (pat v : Ty) : Option Ty :=
  match narrowTag tbl pat v with
  | .drop => none
  | .keep => some v
  | .pattern => some pat

/-- `constrain_value(val, Constraint(predicate, True, IsAssignablePredicate(pat)))`
(`_constrain_value`, stacked_scopes.py:1573: flatten, apply per member, unite). -/
def narrow (tbl : ClassTable) (pat val : Ty) : Ty :=
  unite ((flatten1 val).filterMap (narrowPos tbl pat))

/-- `decompose_union` (:784): the united non-matching members, if the value is a union and at
least one member matches. -/
def decompose (tbl : ClassTable) (x : Bool) (pat val : Ty) : Option Ty :=
  match unannotate val with
  | .union ms =>
    if ms.any (fun m => ca tbl x pat m) then some (unite (ms.filter fun m => !ca tbl x pat m))
    else none
  | _ => none

/-- `subtract_unions(left, right)` (:182): the members of `left` that are not (by hash and `==`, a
`set` look-up) among the members of `right`, united. -/
def subtractUnions (left right : Ty) : Ty :=
  match right with
  | .union [] => left                                  -- `right is NO_RETURN_VALUE`
  | _ => unite ((flatten1 (unannotate left)).filter fun m => !dictMem m (flatten1 right))

/-- `visit_is_of_type` (:407) once the variable's value is in hand: a full match narrows through
`constrain_value`; a partial match (some union members match) gives exactly the matched members on the
positive side (`subtract_unions(val, remaining)`) and the others on the negative side. -/
def ofTypeVal (tbl : ClassTable) (v : String) (t : Ty) (x : Bool) (val : Ty) : CondRet :=
  if ca tbl x t val then ⟨some [(v, narrow tbl t val)], none⟩
  else match decompose tbl x t val with
    | some rem => ⟨some [(v, subtractUnions val rem)], some [(v, rem)]⟩
    | none => ⟨none, some []⟩

/-- `visit_is_of_type` (:407). -/
def ofTypeRet (tbl : ClassTable) (e : Env) (v : String) (t : Ty) (x : Bool) : CondRet :=
  match e v with
  | none => ⟨none, none⟩                         -- get_name: "Invalid variable"
  | some val => ofTypeVal tbl v t x val

/-- `visit_Call` for the three argument-kind functions (:364‥369). -/
def kindMatch : KindFn → Pos → Bool
  | .provided, p => p != .dflt && p != .unknown
  | .positional, p => (match p with | .args => true | .idx _ => true | _ => false)
  | .keyword, p => (match p with | .kwargs => true | .kw _ => true | _ => false)

/-- `unite_varmaps` (:818). -/
def uniteVarmaps : List VarMap → Option VarMap
  | [] => none
  | m :: ms =>
    some ((m.filter fun kv => ms.all fun vm => (vm.lookup kv.1).isSome).map fun kv =>
      (kv.1, unite ((m :: ms).map fun vm => (vm.lookup kv.1).getD Ty.never)))

/-- the variable map of an early `return` of `visit_BoolOp` (:534‥545 / :560‥569): the deciding operand's
map, united with the maps earlier partially-matching operands set aside (`remaining_varmaps`) -/
def stopMap (remaining : List VarMap) : Option VarMap → Option VarMap
  | none => none
  | some r => if remaining.isEmpty then some r else uniteVarmaps (remaining ++ [r])

/-! ## `ConditionEvaluator` -/

mutual
def evalCond (tbl : ClassTable) (ps : Positions) (e : Env) : Cond → CondRet
  | .ofType v t x => ofTypeRet tbl e v t x
  | .cmp v k neg =>
    let r := ofTypeRet tbl e v (.known k) true
    if neg then r.reverse else r
  | .kind f v =>
    (match ps.lookup v with
     | none => ⟨none, none⟩                      -- "is not a valid variable"
     | some p => if kindMatch f p then ⟨some [], none⟩ else ⟨none, some []⟩)
  | .sys b => if b then ⟨some [], none⟩ else ⟨none, some []⟩
  | .not c => (evalCond tbl ps e c).reverse
  | .and cs => evalAnd tbl ps e [] [] cs
  | .or cs => evalOr tbl ps e [] [] cs
/-- the `for operand in node.values` loop of `visit_BoolOp` for `and` -/
def evalAnd (tbl : ClassTable) (ps : Positions) (e : Env) (narrowed : VarMap)
    (remaining : List VarMap) : List Cond → CondRet
  | [] => ⟨some narrowed, uniteVarmaps remaining⟩
  | c :: cs =>
    let r := evalCond tbl ps e c
    match r.left, r.right with
    | none, rr => ⟨none, stopMap remaining rr⟩                      -- condition returns False
    | some l, none => evalAnd tbl ps (e.over l) (l ++ narrowed) remaining cs
    | some l, some rr => evalAnd tbl ps (e.over l) (l ++ narrowed) (remaining ++ [rr]) cs
/-- … and for `or` -/
def evalOr (tbl : ClassTable) (ps : Positions) (e : Env) (narrowed : VarMap)
    (remaining : List VarMap) : List Cond → CondRet
  | [] => ⟨uniteVarmaps remaining, some narrowed⟩
  | c :: cs =>
    let r := evalCond tbl ps e c
    match r.left, r.right with
    | none, some rr => evalOr tbl ps (e.over rr) (rr ++ narrowed) remaining cs
    | none, none => ⟨none, none⟩               -- (the Python raises TypeError here: outside the fragment)
    | some l, none => ⟨stopMap remaining (some l), none⟩            -- condition returns True
    | some l, some rr => evalOr tbl ps (e.over rr) (rr ++ narrowed) (remaining ++ [l]) cs
end

/-! ## `EvaluateVisitor` -/

/-- flattened children of an `EvalReturn` -/
abbrev EvalRet := List (Option Ty)

mutual
def evalStmt (tbl : ClassTable) (ps : Positions) (e : Env) : Stmt → EvalRet × List String
  | .pass => ([none], [])
  | .ret t => ([some t], [])
  | .err m => ([none], [m])
  | .ite c body orelse =>
    let r := evalCond tbl ps e c
    match r.left, r.right with
    | some l, some rr =>
      let a := evalBlock tbl ps (e.over l) [] body
      let b := evalBlock tbl ps (e.over rr) [] orelse
      (a.1 ++ b.1, a.2 ++ b.2)
    | some l, none => evalBlock tbl ps (e.over l) [] body
    | none, some rr => evalBlock tbl ps (e.over rr) [] orelse
    | none, none => ([none], [])               -- "Condition must either match or not match"
/-- `visit_block` (:658); `possible` = `possible_returns`. -/
def evalBlock (tbl : ClassTable) (ps : Positions) (e : Env) (possible : List (Option Ty)) :
    List Stmt → EvalRet × List String
  | [] => (possible ++ [none], [])
  | s :: ss =>
    let r := evalStmt tbl ps e s
    if r.1.all Option.isSome then (possible ++ r.1, r.2)
    else
      let rest := evalBlock tbl ps e (possible ++ r.1.filter Option.isSome) ss
      (rest.1, r.2 ++ rest.2)
end

/-- `_evaluate_ret` (:630). -/
def finalize (retAnn : Ty) : EvalRet → Ty
  | [x] => x.getD retAnn
  | xs => unite (xs.map fun x => x.getD retAnn)

/-- `Evaluator.evaluate` (:275): the call's type and the messages of the `show_error`s that fired,
in firing order. -/
def evaluate (tbl : ClassTable) (ps : Positions) (e : Env) (retAnn : Ty) (body : List Stmt) :
    Ty × List String :=
  let r := evalBlock tbl ps e [] body
  (finalize retAnn r.1, r.2)

/-! ## From a call to the evaluator's context (signature.py:1344‥1365 after `bind_arguments`) -/

/-- Default of a parameter of an evaluation function: a literal, or `...` (then the variable has
the parameter's annotation as its type). -/
inductive Dflt | none | lit (o : Obj) | ann (t : Ty)
  deriving Repr, Inhabited

structure EParam where
  name : String
  kind : Kind
  dflt : Dflt
  deriving Repr, Inhabited

def EParam.toParam (p : EParam) : Param :=
  ⟨p.name, p.kind, match p.dflt with | .none => false | _ => true⟩

/-- One syntactic argument together with its inferred type. -/
inductive EArg
  | pos (t : Ty)                    -- `f(v)`
  | kw (n : String) (t : Ty)        -- `f(n=v)`
  | star (t : Ty)                   -- `f(*xs)`, `xs : list[t]`
  | dstar (t : Ty)                  -- `f(**d)`, `d : dict[str, t]`
  deriving Repr, Inhabited

def EArg.toArg : EArg → Arg
  | .pos _ => .pos | .kw n _ => .kw n | .star _ => .starUnk | .dstar _ => .dstarUnk

def posTypes (as : List EArg) : List Ty := as.filterMap fun | .pos t => some t | _ => none
def kwType (as : List EArg) (n : String) : Option Ty :=
  as.findSome? fun | .kw m t => if m == n then some t else none | _ => none
def starType (as : List EArg) : Option Ty := as.findSome? fun | .star t => some t | _ => none
def dstarType (as : List EArg) : Option Ty := as.findSome? fun | .dstar t => some t | _ => none

/-- The `Composite(...).value` stored next to each position by `bind_arguments`
(signature.py:845 / :852 / :855 / :911‥918 / :932 / :939 / :944 / :973 / :980 / :986 / :1008‥1018);
`none` for the variadic parameters themselves (their `SequenceValue` / TypedDict values are never
inspected by the modelled conditions: only the argument-kind functions apply to them). -/
def bindValue (ell : Ty → Ty) (as : List EArg) (p : EParam) : Pos → Option Ty
  | .idx n => (posTypes as)[n]?
  | .kw s => kwType as s
  | .dflt =>
    (match p.kind, p.dflt with
     | .varPos, _ => none
     | .varKw, _ => none
     | _, .lit o => some (.known o)
     | _, .ann t => some (ell t)
     | _, .none => none)
  | .args => (match p.kind with | .varPos => none | _ => starType as)
  | .kwargs => (match p.kind with | .varKw => none | _ => dstarType as)
  | .unknown =>
    (match p.kind with
     | .posOnly => starType as
     | .posOrKw =>
       (match starType as, dstarType as with
        | some a, some k => some (unite [a, k])
        | some a, none => some a
        | none, k => k)
     | _ => dstarType as)

/-- What the variable of an omitted parameter with default `...` holds: the parameter's annotation
(signature.py:1345‥1357, as the document prescribes; before commit d1ebe72 it was the Ellipsis object). -/
def ellipsisDefaultValue (ann : Ty) : Ty := ann

structure EvalCase where
  params : List EParam
  args : List EArg
  retAnn : Ty
  body : List Stmt
  deriving Repr, Inhabited

/-- positions and variables of a call, or `none` when the call does not bind (then pyanalyze
reports `incompatible_call` and never runs the evaluator). -/
def contextWith (ell : Ty → Ty) (c : EvalCase) : Option (Positions × VarMap) :=
  (pyaCall (c.params.map EParam.toParam) (c.args.map EArg.toArg)).map fun poss =>
    (poss, poss.filterMap fun np =>
      match c.params.find? (·.name == np.1) with
      | some p => (bindValue ell c.args p np.2).map fun t => (np.1, t)
      | none => none)

def context (c : EvalCase) : Option (Positions × VarMap) := contextWith ellipsisDefaultValue c

/-- The whole pipeline: bind, then evaluate. -/
def evalCall (tbl : ClassTable) (c : EvalCase) : Option (Ty × List String) :=
  (context c).map fun (poss, vars) => evaluate tbl poss (Env.ofList vars) c.retAnn c.body

end Pya.C20
