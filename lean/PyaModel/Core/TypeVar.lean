import PyaModel.Core.Union
/-!
# Core/TypeVar — model of the type-variable solver (pyanalyze/typevar.py, value.py)

Follows, branch by branch:

* `Bound` classes                     value.py:2127-2165 (`LowerBound`, `UpperBound`, `OrBound`, `IsOneOf`)
* `resolve_bounds_map`                typevar.py:31  — per type variable: `tuple(dict.fromkeys(bounds))`
                                      (order-preserving de-duplication by hash + `==`), then `solve`;
* `solve`                             typevar.py:81  — the left fold over the bounds with the state
                                      `bottom` / `top` / `options`, the skip of `Any` lower and upper bounds, the
                                      three-way branch on `is_assignable` for lower and upper bounds
                                      (incomparable bounds are **united**, also the upper ones), `OrBound`
                                      ignored, `IsOneOf` overwriting `options`; the final
                                      `top.can_assign(bottom)` check; the constraint selection :139-159;
* `remove_redundant_solutions`        typevar.py:163;
* `TypeVarValue.get_inherent_bounds`, `.can_assign`, `.can_be_assigned`, `.make_bounds_map`
                                      value.py:2183-2216 (bound generation, against a closed value and against
                                      another `TypeVarValue`);
* `unify_bounds_maps`                 value.py:2784 (per type variable: concatenation);
* `Signature.check_call_with_bound_args` signature.py:1259-1285, the type-variable step: unify the bounds
                                      maps of all parameters, solve once over the union (`solveCall`).

The solver is parametrised by the assignability relation `le a b` = "`b.is_assignable(a, ctx)`"
(`a` may be assigned to `b`) and by the binary `join a b` = `unite_values(a, b)`, so that the
algebraic theorems do not depend on `ca`; `leCa tbl` / `joinU` instantiate them with the shared
models `ca tbl false` (Core/Assign.lean) and `unite` (Core/Union.lean).

Not modelled: `solve_paramspec` (ParamSpec variables), bounds whose values contain type variables
(the solver works on closed bound values), `intersect_bounds_maps` (the only producer of `OrBound`;
`solve` ignores an `OrBound` whatever it contains), the text of the `CanAssignError`s.
-/
namespace Pya.C15

/-- value.py:2127-2165. All bounds of one list speak about the same type variable, so the
`typevar` field is not represented. -/
inductive Bound where
  | lower (v : Ty)                    -- `LowerBound(T, v)`: v must be assignable to the value of T
  | upper (v : Ty)                    -- `UpperBound(T, v)`: the value of T must be assignable to v
  | oneOf (cs : List Ty)              -- `IsOneOf(T, constraints)`
  | or (bss : List (List Bound))      -- `OrBound(bounds)`
  deriving Inhabited

/-- where an `Any` solution comes from (`AnySource`); `value` = the solution is a bound value
(or a union of bound values, or a constraint) -/
inductive Src where
  | value | generic | inference
  deriving Inhabited, DecidableEq, Repr

inductive Result where
  | ok (s : Ty) (src : Src)
  | errBounds        -- "Incompatible bounds on type variable" (typevar.py:131)
  | errOptions       -- no constraint accepts the solution (typevar.py:143)
  deriving Inhabited

def Result.isOk : Result → Bool
  | .ok _ _ => true
  | _ => false

def Result.val? : Result → Option Ty
  | .ok s _ => some s
  | _ => none

def isAny : Ty → Bool
  | .any => true
  | _ => false

/-! ### `tuple(dict.fromkeys(bounds))` — typevar.py:40

Dict lookup = same hash and `==`. The bounds are frozen dataclasses: same class, `==` fields;
the hash is the hash of the field tuple. `constraints` / `bounds` are tuples (element-wise). -/
mutual
def Bound.keyEq : Bound → Bound → Bool
  | .lower a, .lower b => Ty.hashEq a b && Ty.beq a b
  | .upper a, .upper b => Ty.hashEq a b && Ty.beq a b
  | .oneOf as, .oneOf bs => Ty.hashEqList as bs && Ty.beqList as bs
  | .or xss, .or yss => Bound.keyEqLL xss yss
  | _, _ => false
def Bound.keyEqLL : List (List Bound) → List (List Bound) → Bool
  | [], [] => true
  | xs :: xss, ys :: yss => Bound.keyEqL xs ys && Bound.keyEqLL xss yss
  | _, _ => false
def Bound.keyEqL : List Bound → List Bound → Bool
  | [], [] => true
  | x :: xs, y :: ys => Bound.keyEq x y && Bound.keyEqL xs ys
  | _, _ => false
end

def keyMem (b : Bound) : List Bound → Bool
  | [] => false
  | e :: es => Bound.keyEq e b || keyMem b es

/-- insertion-ordered de-duplication: the first occurrence of a key stays, at its position. -/
def dedupB : List Bound → List Bound → List Bound
  | acc, [] => acc
  | acc, b :: bs => if keyMem b acc then dedupB acc bs else dedupB (acc ++ [b]) bs

section Solver
variable (le : Ty → Ty → Bool) (join : Ty → Ty → Ty)

/-- the loop state of `solve`; `none` = the markers `BOTTOM` / `TOP` / `options is None` -/
structure St where
  bottom : Option Ty := none
  top : Option Ty := none
  options : Option (List Ty) := none
  deriving Inhabited

/-- one iteration of the loop typevar.py:88-115 -/
def step (st : St) : Bound → St
  | .lower v =>
    match st.bottom with
    | none => { st with bottom := some v }                       -- bottom is BOTTOM: adopt
    | some b =>
      if isAny v then st                                         -- "Ignore lower bounds to Any"
      else if le b v then { st with bottom := some v }           -- bound.value.is_assignable(bottom)
      else if le v b then st                                     -- bottom.is_assignable(bound.value)
      else { st with bottom := some (join b v) }                 -- unite_values(bottom, bound.value)
  | .upper v =>
    match st.top with
    | none => { st with top := some v }
    | some t =>
      if isAny v then st                                         -- "Ignore upper bounds to Any"
      else if le v t then { st with top := some v }              -- top.is_assignable(bound.value)
      else if le t v then st                                     -- bound.value.is_assignable(top)
      else { st with top := some (join t v) }                    -- unite_values(top, bound.value)  (sic)
  | .or _ => st                                                  -- "TODO figure out how to handle this"
  | .oneOf cs => { st with options := some cs }

def run (st : St) (bs : List Bound) : St := bs.foldl (step le join) st

/-- `remove_redundant_solutions` typevar.py:163. `kept` = the survivors among the entries already
visited (the `None` entries are skipped by the inner loop), `rest` = the entries not yet visited;
the entry under inspection is dropped when some *other* surviving entry is strictly narrower. -/
def rrGo : List Ty → List Ty → List Ty
  | kept, [] => kept
  | kept, s :: rest =>
    if (kept ++ rest).any (fun o => le o s && !le s o) then rrGo kept rest
    else rrGo (kept ++ [s]) rest

def removeRedundant (sols : List Ty) : List Ty :=
  if sols.length > 10 then sols else rrGo le [] sols

/-- typevar.py:117-137: the solution before the constraints are looked at -/
def pick (st : St) : Result :=
  match st.bottom, st.top with
  | none, none => .ok .any .generic
  | none, some t => .ok t .value
  | some b, none => .ok b .value
  | some b, some t => if le b t then .ok b .value else .errBounds    -- top.can_assign(bottom)

/-- typevar.py:139-159 -/
def choose (sol : Ty) (src : Src) : Option (List Ty) → Result
  | none => .ok sol src
  | some opts =>
    match opts.filter (fun o => le sol o) with       -- option.can_assign(solution)
    | [] => .errOptions                              -- all_of_type(can_assigns, CanAssignError)
    | [a] => .ok a .value
    | avail =>
      if isAny sol then .ok sol src                  -- "If we inferred Any, keep it"
      else match removeRedundant le avail with
        | [a] => .ok a .value
        | _ => .ok .any .inference

def finish (st : St) : Result :=
  match pick le st with
  | .ok sol src => choose le sol src st.options
  | e => e

/-- `solve(bounds, ctx)` typevar.py:81 -/
def solve (bs : List Bound) : Result := finish le (run le join {} bs)

/-- the solution `resolve_bounds_map` stores for one type variable (typevar.py:40-48; on an error
it stores `AnyValue(AnySource.error)` and reports the error) -/
def resolve (bs : List Bound) : Result := solve le join (dedupB [] bs)

/-! ### bound generation — value.py:2183-2216 -/

/-- a `TypeVarValue`: declared bound and constraints -/
structure TV where
  bound : Option Ty := none
  constraints : List Ty := []
  deriving Inhabited

/-- `get_inherent_bounds` -/
def TV.inherent (tv : TV) : List Bound :=
  (match tv.bound with | some b => [.upper b] | none => []) ++
  (if tv.constraints.isEmpty then [] else [.oneOf tv.constraints])

/-- `make_bounds_map`: the bounds, unless they cannot be solved -/
def makeBoundsMap (bounds : List Bound) : Option (List Bound) :=
  if (resolve le join bounds).isOk then some bounds else none

/-- `TypeVarValue.can_assign(other)` for an `other` that is not a type variable -/
def TV.accepts (tv : TV) (other : Ty) : Option (List Bound) :=
  makeBoundsMap le join (.lower other :: tv.inherent)

/-- `TypeVarValue.can_be_assigned(left)` for a `left` that is not a type variable -/
def TV.acceptedBy (tv : TV) (left : Ty) : Option (List Bound) :=
  makeBoundsMap le join (.upper left :: tv.inherent)

/-- `TypeVarValue.can_assign(other)` and `.can_be_assigned(other)` for an `other` that is itself a
`TypeVarValue` (value.py:2195, :2209): an equal one (`same`) needs no bounds; otherwise the inherent
bounds of both, all filed under this type variable -/
def TV.withTV (tv other : TV) (same : Bool) : Option (List Bound) :=
  if same then some [] else makeBoundsMap le join (tv.inherent ++ other.inherent)

end Solver

/-- `unify_bounds_maps` restricted to one type variable: concatenation in argument order -/
def unifyBounds (maps : List (List Bound)) : List Bound := maps.flatten

/-- The type-variable step of `Signature.check_call_with_bound_args` (signature.py:1259-1285) for one
type variable: the bounds maps that the parameters — and, inside one parameter, the individual
occurrences ("leaves") of the type variable — contributed are unified and solved **once over the
union**. `groups` lists the contributions in parameter order, leaf by leaf. -/
def solveCall (le : Ty → Ty → Bool) (join : Ty → Ty → Ty) (groups : List (List Bound)) : Result :=
  resolve le join (unifyBounds groups)

/-- Each leaf was validated alone when its bounds map was built (`make_bounds_map`); that does not
make the union solvable, so the call-level solve decides. The call gets past the type-variable
step exactly when every leaf and the union are solvable. -/
def callOk (le : Ty → Ty → Bool) (join : Ty → Ty → Ty) (groups : List (List Bound)) : Bool :=
  (groups.all fun g => (resolve le join g).isOk) && (solveCall le join groups).isOk

/-! ### the instantiation with the shared value models -/

/-- `b.is_assignable(a, ctx)` with a context that does not exclude `Any` -/
def leCa (tbl : ClassTable) (a b : Ty) : Bool := ca tbl false b a

/-- `unite_values(a, b)` -/
def joinU (a b : Ty) : Ty := unite [a, b]

def solveCa (tbl : ClassTable) : List Bound → Result := solve (leCa tbl) joinU
def resolveCa (tbl : ClassTable) : List Bound → Result := resolve (leCa tbl) joinU
def solveCallCa (tbl : ClassTable) : List (List Bound) → Result := solveCall (leCa tbl) joinU

end Pya.C15
