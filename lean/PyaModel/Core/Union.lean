import PyaModel.Core.Assign
/-!
# Core/Union — model of `unite_values`, `MultiValuedValue.__post_init__`, `__hash__`
(pyanalyze/value.py:2873 `unite_values`, :2746 `flatten_values`, :632 `KnownValue.__hash__`,
the dataclass-generated hashes of the other Value classes)

`Ty.hashEq a b` models `hash(a) == hash(b)` (no accidental collisions): structural and
**order-sensitive on unions** (dataclass hash of the `vals` tuple), type-sensitive on literals
(`hash((type(val), val))`), and *never* equal for two distinct unhashable literals (identity hash;
the model cannot see object identity, the correspondence builds distinct objects); the one systematic
collision (a literal with Python hash 0 against the `TypedValue` of its class) is modelled, see
Core/Assign.lean. `Ty.beq` (Core/Assign.lean) models `==`, which is order-*in*sensitive on unions.
`unite_values` de-duplicates through a dict, i.e. with `hashEq ∧ beq` — since hash equality alone
does not imply `==` (the collision), both conjuncts matter.
-/
namespace Pya

/-! `Ty.hashEq` / `Ty.hashEqList` are defined in Core/Assign.lean (before `Ty.beq`, which looks union
members up by hash). -/

/-- `annotate_value(t, metadata)` for the single fixed metadata item of the model: an already
annotated value keeps one (de-duplicated) metadata tuple. -/
def annotate : Ty → Ty
  | .annotated t => .annotated t
  | t => .annotated t

/-- `flatten_values(val)` (value.py:2746): the members of a union; an annotated union hands its
metadata down to each member; anything else is a singleton. -/
def flatten1 : Ty → List Ty
  | .union ts => ts
  | .annotated (.union ts) => ts.map annotate
  | t => [t]

/-- dict-keyed membership: same hash and `==`. -/
def dictMem (v : Ty) : List Ty → Bool
  | [] => false
  | e :: es => (Ty.hashEq e v && Ty.beq e v) || dictMem v es

/-- insertion-ordered de-duplication (`hashable_vals` dict of `unite_values`). -/
def dedup : List Ty → List Ty → List Ty
  | acc, [] => acc
  | acc, v :: vs => if dictMem v acc then dedup acc vs else dedup (acc ++ [v]) vs

/-- `unite_values(*vs)`. -/
def unite (vs : List Ty) : Ty :=
  match dedup [] (vs.flatMap flatten1) with
  | [] => .union []
  | [v] => v
  | existing => .union existing

/-- `MultiValuedValue(vs)`: flattens, no de-duplication. -/
def mkUnion (vs : List Ty) : Ty := .union (vs.flatMap flatten1)

/-! ### `substitute_typevars` (value.py: one clause per class)

`TypeVarValue` :2181 looks the variable up; `GenericValue` :1146 / `SequenceValue` :1258 /
`AnnotatedValue` :2593 rebuild themselves around the substituted parts; `MultiValuedValue` :1985
returns itself when it has no members or the map is empty and otherwise re-runs the flattening
constructor (no de-duplication); every other class returns itself. -/

abbrev TvMap := List (Nat × Ty)

def TvMap.get (m : TvMap) (i : Nat) : Option Ty := (m.find? (·.1 == i)).map (·.2)

mutual
def subst (m : TvMap) : Ty → Ty
  | .tvar i => (m.get i).getD (.tvar i)
  | .generic c as => .generic c (substL m as)
  | .seq c ms => .seq c (substL m ms)
  | .many t => .many (subst m t)
  | .union ts => if ts.isEmpty || m.isEmpty then .union ts else mkUnion (substL m ts)
  | .annotated t => .annotated (subst m t)
  | t => t
def substL (m : TvMap) : List Ty → List Ty
  | [] => []
  | t :: ts => subst m t :: substL m ts
end

mutual
/-- the type variables occurring in a term -/
def Ty.tvars : Ty → List Nat
  | .tvar i => [i]
  | .generic _ as => Ty.tvarsL as
  | .seq _ ms => Ty.tvarsL ms
  | .many t => Ty.tvars t
  | .union ts => Ty.tvarsL ts
  | .annotated t => Ty.tvars t
  | _ => []
def Ty.tvarsL : List Ty → List Nat
  | [] => []
  | t :: ts => Ty.tvars t ++ Ty.tvarsL ts
end

end Pya
