import PyaModel.Core.Assign
/-!
# Core/Union — model of `unite_values`, `MultiValuedValue.__post_init__`, `__hash__`
(pyanalyze/value.py:2873 `unite_values`, :2746 `flatten_values`, :632 `KnownValue.__hash__`,
the dataclass-generated hashes of the other Value classes)

`Ty.hashEq a b` models `hash(a) == hash(b)` (no accidental collisions): structural and
**order-sensitive on unions** (dataclass hash of the `vals` tuple), type-sensitive on literals
(`hash((type(val), val))`), and *never* equal for two distinct unhashable literals (identity hash;
the model cannot see object identity, the correspondence builds distinct objects).
`Ty.beq` (Core/Assign.lean) models `==`, which is order-*in*sensitive on unions.
`unite_values` de-duplicates through a dict, i.e. with `hashEq ∧ beq`.
-/
namespace Pya

mutual
def Ty.hashEq : Ty → Ty → Bool
  | .any, .any => true
  | .known a, .known b => a.hashable && b.hashable && Obj.same a b
  | .typed c, .typed d => c == d
  | .newtype n c, .newtype m d => n == m && c == d
  | .generic c as, .generic d bs => c == d && Ty.hashEqList as bs
  | .seq c as, .seq d bs => c == d && Ty.hashEqList as bs
  | .many a, .many b => Ty.hashEq a b
  | .union as, .union bs => Ty.hashEqList as bs
  | .subclass c, .subclass d => c == d
  | .annotated a, .annotated b => Ty.hashEq a b
  | _, _ => false
def Ty.hashEqList : List Ty → List Ty → Bool
  | [], [] => true
  | a :: as, b :: bs => Ty.hashEq a b && Ty.hashEqList as bs
  | _, _ => false
end

/-- `annotate_value(t, metadata)` for the single fixed metadata item of the model: an already
annotated value keeps one (de-duplicated) metadata tuple. -/
def annotate : Ty → Ty
  | .annotated t => .annotated t
  | t => .annotated t

/-- `flatten_values(val)` (value.py:2746): the members of a union; an annotated union hands its
metadata down to each member; anything else is a singleton. -/
def flatten1 : Ty → List Ty
  | .union ts => ts
  | .annotated (.union ts) => ts.map annotate
  | t => [t]

/-- dict-keyed membership: same hash and `==`. -/
def dictMem (v : Ty) : List Ty → Bool
  | [] => false
  | e :: es => (Ty.hashEq e v && Ty.beq e v) || dictMem v es

/-- insertion-ordered de-duplication (`hashable_vals` dict of `unite_values`). -/
def dedup : List Ty → List Ty → List Ty
  | acc, [] => acc
  | acc, v :: vs => if dictMem v acc then dedup acc vs else dedup (acc ++ [v]) vs

/-- `unite_values(*vs)`. -/
def unite (vs : List Ty) : Ty :=
  match dedup [] (vs.flatMap flatten1) with
  | [] => .union []
  | [v] => v
  | existing => .union existing

/-- `MultiValuedValue(vs)`: flattens, no de-duplication. -/
def mkUnion (vs : List Ty) : Ty := .union (vs.flatMap flatten1)

end Pya
