/-! Regenerated on every run by `translate` in harness/props/c17.py from the live
`pyanalyze/format_strings.py` (+ the decorators of `implementation._str_format_impl`): everything
that could carry state from one `%` / `str.format` check to the next. DO NOT EDIT. -/
namespace Pya.C17

/-- functions / methods under a caching decorator (`decorator@qualified name`) -/
def liveCaches : List String := []

/-- module-level names of format_strings.py bound to a mutable container -/
def liveModuleMutables : List String := ["_FORMAT_STRING_CONVERSIONS", "_NUMERIC_CONVERSION_TYPES"]

/-- attribute stores on `self`/`cls` inside methods of its classes (`Class.method:target`) -/
def liveSelfStores : List String := ["_ParserState.next:self.current_index"]

end Pya.C17
