/-! Regenerated on every run by `translate` in harness/props/c17.py from the live name_check_visitor.py,
implementation.py and format_strings.py: every entry route into the format checkers. DO NOT EDIT. -/
namespace Pya.C17

/-- `callee<-file:enclosing function` for every call site (and the callers one level up);
`_str_format_impl<-impl@callable` for every registration of the `str.format` implementation -/
def liveRoutes : List String := ["_str_format_impl<-impl@str.format", "_visit_binop_internal<-name_check_visitor:NameCheckVisitor._visit_single_compare", "_visit_binop_internal<-name_check_visitor:NameCheckVisitor._visit_single_compare", "_visit_binop_internal<-name_check_visitor:NameCheckVisitor.visit_AugAssign", "_visit_binop_internal<-name_check_visitor:NameCheckVisitor.visit_BinOp", "check_string_format<-name_check_visitor:NameCheckVisitor._visit_binop_internal", "from_bytes_pattern<-format_strings:check_string_format", "from_pattern<-format_strings:check_string_format", "parse_format_string<-implementation:_str_format_impl"]

/-- the conditions under which `check_string_format` is reached -/
def liveRouteGuards : List String := ["name_check_visitor:NameCheckVisitor._visit_binop_internal: isinstance(op, ast.Mod) and isinstance(left, KnownValue) and isinstance(left.val, (bytes, str))"]

end Pya.C17
