/-! Regenerated on every run by `translate` in harness/props/c09.py from the live
`pyanalyze/stacked_scopes.py`: the statements of `FunctionScope.set`, by the condition they run under.
DO NOT EDIT. -/
namespace Pya.C09

/-- `value` is a ReferencingValue: the `global` / `nonlocal` declaration itself -/
def setDecl : List String := ["self.referencing_value_vars[varname] = value", "return EMPTY_ORIGIN"]

/-- executed for every assignment, whatever backs the name -/
def setAlways : List String := ["ref_var = self.referencing_value_vars[varname]", "self.definition_node_to_value[node] = value", "self.name_to_current_definition_nodes[varname] = [node]", "for composite in self.name_to_composites[varname]: self.name_to_current_definition_nodes[composite] = []", "self.name_to_all_definition_nodes[varname].add(node)", "self._add_composite(varname)", "return frozenset([node])"]

/-- only for a name backed by a ReferencingValue (declared `global` / `nonlocal`) -/
def setIfRef : List String := ["ref_var.scope.set(ref_var.name, value, node, state)", "if isinstance(ref_var.scope, FunctionScope): ref_var.scope.accessed_from_special_nodes.add(varname)", "self.accessed_from_special_nodes.add(varname)"]

/-- only for a name NOT backed by a ReferencingValue -/
def setIfNotRef : List String := []

/-- under some other condition -/
def setOther : List String := []

end Pya.C09
