import PyaModel.Spec.MiniSem
import PyaModel.Proofs.C14
import PyaModel.Proofs.C19
import PyaModel.Proofs.C04Refl
/-!
# Proofs/C01 — helper lemmas for Props/C01 (soundness of `infer` on the MiniPy fragment)

The invariant: every variable that has a runtime value `o` has, among its current definition nodes, one that
*holds* of `o` (`Def.holdsB`): a `val` node whose stored value contains `o`, or a `con` node over nodes one of
which holds of `o` and whose `is None` constraint has the outcome `o` really has.
-/
namespace Pya.C01
open Pya

abbrev tb : ClassTable := liveTable

/-! ## 1. definition nodes -/

mutual
def Def.holdsB (o : Obj) : Def → Bool
  | .val _ v => mem tb o v
  | .con _ ds pos => Def.holdsAny o ds && (isNoneObj o == pos)
def Def.holdsAny (o : Obj) : List Def → Bool
  | [] => false
  | d :: ds => d.holdsB o || Def.holdsAny o ds
end

theorem holdsAny_iff (o : Obj) : ∀ ds, Def.holdsAny o ds = true ↔ ∃ d ∈ ds, d.holdsB o = true
  | [] => by simp [Def.holdsAny]
  | d :: ds => by simp [Def.holdsAny, holdsAny_iff o ds]

theorem holdsAny_append (o : Obj) (a b : List Def) :
    Def.holdsAny o (a ++ b) = (Def.holdsAny o a || Def.holdsAny o b) := by
  induction a with
  | nil => simp [Def.holdsAny]
  | cons d a ih => simp [Def.holdsAny, ih, Bool.or_assoc]

mutual
theorem sameB_holds (o : Obj) : ∀ (e d : Def), Def.sameB e d = true → e.holdsB o = d.holdsB o
  | .val i v, .val j w, h => by
    simp only [Def.sameB, Bool.and_eq_true] at h
    simp only [Def.holdsB]
    exact Ty.beq_mem' tb h.2 o
  | .con i ds p, .con j es q, h => by
    simp only [Def.sameB, Bool.and_eq_true, beq_iff_eq] at h
    simp only [Def.holdsB]
    rw [sameBL_holds o ds es h.2, h.1.2]
  | .val _ _, .con _ _ _, h => by simp [Def.sameB] at h
  | .con _ _ _, .val _ _, h => by simp [Def.sameB] at h
theorem sameBL_holds (o : Obj) : ∀ (ds es : List Def), Def.sameBL ds es = true →
    Def.holdsAny o ds = Def.holdsAny o es
  | [], [], _ => rfl
  | d :: ds, e :: es, h => by
    simp only [Def.sameBL, Bool.and_eq_true] at h
    simp only [Def.holdsAny]
    rw [sameB_holds o d e h.1, sameBL_holds o ds es h.2]
  | [], _ :: _, h => by simp [Def.sameBL] at h
  | _ :: _, [], h => by simp [Def.sameBL] at h
end

theorem uniqInto_holds (o : Obj) : ∀ (l acc : List Def),
    Def.holdsAny o (uniqInto acc l) = (Def.holdsAny o acc || Def.holdsAny o l)
  | [], acc => by simp [uniqInto, Def.holdsAny]
  | d :: l, acc => by
    unfold uniqInto
    split
    · rename_i h
      rw [uniqInto_holds o l acc]
      obtain ⟨e, he, hs⟩ := List.any_eq_true.mp h
      have := sameB_holds o e d hs
      simp only [Def.holdsAny]
      cases hd : d.holdsB o
      · simp
      · have : Def.holdsAny o acc = true := (holdsAny_iff o acc).2 ⟨e, he, by rw [this, hd]⟩
        simp [this]
    · rw [uniqInto_holds o l (acc ++ [d]), holdsAny_append]
      simp [Def.holdsAny, Bool.or_assoc]

/-! ## 2. the `is None` constraint and lookups -/

theorem isNoneObj_of_same {o k : Obj} (h : Obj.same o k = true) : isNoneObj o = isNoneObj k := by
  cases o <;> cases k <;> simp_all [Obj.same, Obj.tag, isNoneObj] <;> omega

theorem mem_unannot (o : Obj) (v : Ty) : mem tb o (unannot v) = mem tb o v := by
  cases v <;> simp [unannot, mem]

theorem isNoneObj_eq {o : Obj} (h : isNoneObj o = true) : o = .none := by
  cases o <;> simp_all [isNoneObj]

/-- the narrowing keeps the runtime value, unless the member is one on which the model of
`is_assignable(Literal[None])` disagrees with membership (`noneReject`) -/
theorem narrowNone_keeps (o : Obj) (pos : Bool) (m : Ty) (hm : mem tb o m = true)
    (hc : (isNoneObj o == pos) = true)
    (hbad : (pos && (match unannot m with
        | .known _ => false
        | _ => mem tb .none m && !ca tb false m (.known .none))) = false) :
    (narrowNone pos m).any (fun v => mem tb o v) = true := by
  unfold narrowNone
  have hu := mem_unannot o m
  cases hk : unannot m with
  | known k =>
    rw [hk] at hu
    simp only [mem] at hu
    have : Obj.same o k = true := by rw [hu]; exact hm
    have h2 := isNoneObj_of_same this
    simp only [beq_iff_eq] at hc
    simp [← h2, hc, hm]
  | _ =>
    all_goals
      rw [hk] at hbad
      cases pos
      · simp [hm]
      · simp only [beq_iff_eq] at hc
        have ho := isNoneObj_eq hc
        subst ho
        simp only [Bool.true_and, hm, Bool.not_eq_false'] at hbad
        simp [hbad, mem, Obj.same, Obj.tag, Obj.pyEq]

mutual
theorem resolve_sound (o : Obj) : ∀ (d : Def), d.holdsB o = true → d.bad = false →
    mem tb o d.resolve = true
  | .val _ v, h, _ => by simpa [Def.holdsB, Def.resolve] using h
  | .con _ ds pos, h, hb => by
    simp only [Def.holdsB, Bool.and_eq_true] at h
    simp only [Def.bad, Bool.or_eq_false_iff] at hb
    obtain ⟨v, hv, hov⟩ := resolveL_sound o ds h.1 hb.1
    simp only [Def.resolve, constrainUnite]
    rw [unite_mem']
    -- some flattened member contains o
    have h1 : memAny tb o ((Def.resolveL ds).flatMap flatten1) = true := by
      rw [memAny_flatMap_flatten1]; exact List.any_eq_true.mpr ⟨v, hv, hov⟩
    rw [memAny_eq_any] at h1
    obtain ⟨m, hm, hom⟩ := List.any_eq_true.mp h1
    have hbm : (pos && (match unannot m with
        | .known _ => false
        | _ => mem tb .none m && !ca tb false m (.known .none))) = false := by
      have := hb.2
      cases pos
      · rfl
      · simp only [Bool.true_and] at this ⊢
        have h3 := List.any_eq_false.mp this m hm
        exact Bool.eq_false_iff.mpr h3
    have := narrowNone_keeps o pos m hom h.2 hbm
    obtain ⟨w, hw, how⟩ := List.any_eq_true.mp this
    exact List.any_eq_true.mpr ⟨w, List.mem_flatMap.mpr ⟨m, hm, hw⟩, how⟩
theorem resolveL_sound (o : Obj) : ∀ (ds : List Def), Def.holdsAny o ds = true → Def.badL ds = false →
    ∃ v ∈ Def.resolveL ds, mem tb o v = true
  | [], h, _ => by simp [Def.holdsAny] at h
  | d :: ds, h, hb => by
    simp only [Def.badL, Bool.or_eq_false_iff] at hb
    simp only [Def.holdsAny, Bool.or_eq_true] at h
    simp only [Def.resolveL]
    rcases h with h | h
    · exact ⟨d.resolve, by simp, resolve_sound o d h hb.1⟩
    · obtain ⟨v, hv, hov⟩ := resolveL_sound o ds h hb.2
      exact ⟨v, by simp [hv], hov⟩
end

theorem lookup_sound (o : Obj) (ds : List Def) (h : Def.holdsAny o ds = true) (hb : Def.badL ds = false) :
    mem tb o (lookupDefs ds) = true := by
  obtain ⟨v, hv, hov⟩ := resolveL_sound o ds h hb
  unfold lookupDefs
  rw [unite_mem', ← memAny_eq_any, memAny_flatMap_flatten1]
  exact List.any_eq_true.mpr ⟨v, hv, hov⟩


/-! ## 3. scopes, environments, the invariant -/

theorem Scope.get_set (sc : Scope) (x y : Var) (ds : List Def) :
    (Scope.set sc x ds).get y = if y = x then ds else sc.get y := by
  induction sc with
  | nil =>
    by_cases h : y = x
    · simp [Scope.set, Scope.get, h]
    · have h' : ¬ x = y := fun e => h e.symm
      simp [Scope.set, Scope.get, h, h']
  | cons hd tl ih =>
    obtain ⟨z, es⟩ := hd
    by_cases hz : z = x
    · subst hz
      by_cases h : y = z
      · simp [Scope.set, Scope.get, h]
      · have h' : ¬ z = y := fun e => h e.symm
        simp [Scope.set, Scope.get, h, h']
    · by_cases h : y = x
      · subst h
        have h' : ¬ z = y := hz
        simp [Scope.set, Scope.get, hz, ih]
      · by_cases hzy : z = y
        · simp [Scope.set, Scope.get, hz, hzy, h]
        · simp [Scope.set, Scope.get, hz, hzy, ih, h]

theorem Env.get_set (env : Env) (x y : Var) (o : Obj) :
    (Env.set env x o).get y = if y = x then some o else env.get y := by
  induction env with
  | nil =>
    by_cases h : y = x
    · simp [Env.set, Env.get, h]
    · have h' : ¬ x = y := fun e => h e.symm
      simp [Env.set, Env.get, h, h']
  | cons hd tl ih =>
    obtain ⟨z, v⟩ := hd
    by_cases hz : z = x
    · subst hz
      by_cases h : y = z
      · simp [Env.set, Env.get, h]
      · have h' : ¬ z = y := fun e => h e.symm
        simp [Env.set, Env.get, h, h']
    · by_cases h : y = x
      · subst h
        simp [Env.set, Env.get, hz, ih]
      · by_cases hzy : z = y
        · simp [Env.set, Env.get, hz, hzy, h]
        · simp [Env.set, Env.get, hz, hzy, ih, h]

/-- every variable that has a runtime value has a definition node that holds of it -/
def Inv (env : Env) (sc : Scope) : Prop :=
  ∀ x o, env.get x = some o → Def.holdsAny o (sc.get x) = true

theorem Scope.get_ne_nil_mem_keys (sc : Scope) (x : Var) (h : sc.get x ≠ []) : x ∈ sc.keys := by
  induction sc with
  | nil => simp [Scope.get] at h
  | cons hd tl ih =>
    obtain ⟨z, es⟩ := hd
    by_cases hz : z = x
    · simp [Scope.keys, hz]
    · simp only [Scope.get, beq_iff_eq, hz, if_false] at h
      have := ih h
      simp only [Scope.keys] at this ⊢
      simp [this]

theorem get_map_keys (keys : List Var) (g : Var → List Def) (x : Var) (h : x ∈ keys) :
    Scope.get (keys.map fun y => (y, g y)) x = g x := by
  induction keys with
  | nil => simp at h
  | cons k ks ih =>
    by_cases hk : k = x
    · simp [Scope.get, hk]
    · have : x ∈ ks := by
        rcases List.mem_cons.mp h with h | h
        · exact absurd h.symm hk
        · exact h
      simp [Scope.get, hk, ih this]

theorem join_get (a b : Scope) (x : Var) (h : x ∈ a.keys ∨ x ∈ b.keys) :
    (joinScopes a b).get x = uniqInto [] (a.get x ++ b.get x) := by
  unfold joinScopes
  apply get_map_keys
  rw [List.mem_eraseDups, List.mem_append]
  exact h

theorem holdsAny_ne_nil {o : Obj} {ds : List Def} (h : Def.holdsAny o ds = true) : ds ≠ [] := by
  intro e; subst e; simp [Def.holdsAny] at h

theorem Inv_join_left {env : Env} {a : Scope} (b : Scope) (h : Inv env a) : Inv env (joinScopes a b) := by
  intro x o hx
  have h1 := h x o hx
  rw [join_get a b x (Or.inl (Scope.get_ne_nil_mem_keys a x (holdsAny_ne_nil h1))),
    uniqInto_holds, holdsAny_append, h1]
  simp [Def.holdsAny]

theorem Inv_join_right {env : Env} (a : Scope) {b : Scope} (h : Inv env b) : Inv env (joinScopes a b) := by
  intro x o hx
  have h1 := h x o hx
  rw [join_get a b x (Or.inr (Scope.get_ne_nil_mem_keys b x (holdsAny_ne_nil h1))),
    uniqInto_holds, holdsAny_append, h1]
  simp [Def.holdsAny]

/-- what a test means at run time, in terms of its constraint -/
theorem evalTest_con (env : Env) : ∀ (t : Test) (b : Bool), evalTest env t = some b →
    ∃ o, env.get t.con.1 = some o ∧ b = (isNoneObj o == t.con.2)
  | .isNone x pos, b, h => by
    simp only [evalTest, Option.map_eq_some_iff] at h
    obtain ⟨o, ho, rfl⟩ := h
    exact ⟨o, ho, rfl⟩
  | .tnot t, b, h => by
    simp only [evalTest, Option.map_eq_some_iff] at h
    obtain ⟨b', hb', rfl⟩ := h
    obtain ⟨o, ho, rfl⟩ := evalTest_con env t b' hb'
    refine ⟨o, by simpa [Test.con] using ho, ?_⟩
    simp only [Test.con]
    cases isNoneObj o <;> cases t.con.2 <;> rfl

theorem evalTest_none (env : Env) : ∀ (t : Test), evalTest env t = none → env.get t.con.1 = none
  | .isNone x pos, h => by simpa [evalTest, Test.con] using h
  | .tnot t, h => by
    simp only [evalTest, Option.map_eq_none_iff] at h
    simpa [Test.con] using evalTest_none env t h

theorem Inv_addCon {env : Env} {st : St} (x : Var) (pos : Bool) (h : Inv env st.sc)
    (hx : ∀ o, env.get x = some o → (isNoneObj o == pos) = true) : Inv env (st.addCon x pos).sc := by
  intro y o hy
  simp only [St.addCon, Scope.get_set]
  by_cases hyx : y = x
  · subst hyx
    simp only [if_true, Def.holdsAny, Def.holdsB, Bool.or_false, Bool.and_eq_true]
    exact ⟨h y o hy, hx o hy⟩
  · simp only [hyx, if_false]
    exact h y o hy

theorem Inv_assign {env : Env} {sc : Scope} (x : Var) (o : Obj) (id : Nat) (v : Ty) (h : Inv env sc)
    (hm : mem tb o v = true) : Inv (env.set x o) (sc.set x [.val id v]) := by
  intro y o' hy
  rw [Env.get_set] at hy
  rw [Scope.get_set]
  by_cases hyx : y = x
  · simp only [hyx, if_true, Option.some.injEq] at hy ⊢
    subst hy
    simp [Def.holdsAny, Def.holdsB, hm]
  · simp only [hyx, if_false] at hy ⊢
    exact h y o' hy


/-! ## 4. pointwise relations and `elemAt` -/

/-- two lists of the same length, related position by position -/
def R2 {α β : Type} (R : α → β → Bool) : List α → List β → Bool
  | [], [] => true
  | x :: xs, y :: ys => R x y && R2 R xs ys
  | _, _ => false

theorem R2_length {α β : Type} (R : α → β → Bool) : ∀ (xs : List α) (ys : List β),
    R2 R xs ys = true → xs.length = ys.length
  | [], [], _ => rfl
  | x :: xs, y :: ys, h => by
    simp only [R2, Bool.and_eq_true] at h
    simp [R2_length R xs ys h.2]
  | [], _ :: _, h => by simp [R2] at h
  | _ :: _, [], h => by simp [R2] at h

theorem R2_get {α β : Type} (R : α → β → Bool) : ∀ (xs : List α) (ys : List β) (j : Nat) (x : α),
    R2 R xs ys = true → xs[j]? = some x → ∃ y, ys[j]? = some y ∧ R x y = true
  | [], _, j, x, _, h => by simp at h
  | _ :: _, [], _, _, h, _ => by simp [R2] at h
  | a :: xs, b :: ys, 0, x, h, hx => by
    simp only [R2, Bool.and_eq_true] at h
    simp only [List.getElem?_cons_zero, Option.some.injEq] at hx
    subst hx
    exact ⟨b, by simp, h.1⟩
  | a :: xs, b :: ys, j + 1, x, h, hx => by
    simp only [R2, Bool.and_eq_true] at h
    simp only [List.getElem?_cons_succ] at hx ⊢
    exact R2_get R xs ys j x h.2 hx

theorem R2_elemAt {α β : Type} (R : α → β → Bool) (xs : List α) (ys : List β) (k : Int) (x : α)
    (h : R2 R xs ys = true) (hx : C19.elemAt xs k = some x) :
    ∃ y, C19.elemAt ys k = some y ∧ R x y = true := by
  have hl := R2_length R xs ys h
  unfold C19.elemAt at hx ⊢
  by_cases hk : k ≥ 0
  · simp only [hk, if_true] at hx ⊢
    exact R2_get R xs ys _ x h hx
  · simp only [hk, if_false] at hx ⊢
    by_cases hm : (-k - 1).toNat < xs.length
    · rw [List.getElem?_reverse hm] at hx
      rw [List.getElem?_reverse (hl ▸ hm), ← hl]
      exact R2_get R xs ys _ x h hx
    · have : xs.reverse[(-k - 1).toNat]? = none := by
        apply List.getElem?_eq_none; simp; omega
      rw [this] at hx; simp at hx

theorem pyEqList_eq_R2 : ∀ (xs ys : List Obj), Obj.pyEqList xs ys = R2 Obj.pyEq xs ys
  | [], [] => by simp [Obj.pyEqList, R2]
  | x :: xs, y :: ys => by simp [Obj.pyEqList, R2, pyEqList_eq_R2 xs ys]
  | [], _ :: _ => by simp [Obj.pyEqList, R2]
  | _ :: _, [] => by simp [Obj.pyEqList, R2]

/-- an element `==` to a literal that is not one of the cross-type-equal literals has the literal's type -/
theorem same_of_pyEq (r k : Obj) (h : Obj.pyEq r k = true) (hn : numLike k = false) :
    Obj.same r k = true := by
  cases r <;> cases k <;> simp_all [Obj.same, Obj.tag, Obj.pyEq, numLike] <;> omega

/-! ## 5. subscripts -/

theorem memberPairs_known (xs : List Obj) :
    memberPairs (xs.map Ty.known) = xs.map (fun x => (false, Ty.known x)) := by
  induction xs with
  | nil => rfl
  | cons x xs ih => simp [memberPairs, ih]

theorem memberPairs_noMany : ∀ (ms : List Ty), (memberPairs ms).any (·.1) = false →
    (memberPairs ms).map (·.2) = ms ∧ ∀ (xs : List Obj), matchSeq tb xs ms = R2 (fun x t => mem tb x t) xs ms
  | [], _ => by
    refine ⟨rfl, fun xs => ?_⟩
    cases xs <;> simp [matchSeq, R2]
  | t :: ms, h => by
    cases t with
    | many t' => simp [memberPairs] at h
    | _ =>
      all_goals
        simp only [memberPairs, List.any_cons, Bool.false_or] at h
        obtain ⟨h1, h2⟩ := memberPairs_noMany ms h
        refine ⟨by simp [memberPairs, h1], fun xs => ?_⟩
        cases xs with
        | nil => simp [matchSeq, R2]
        | cons x xs => simp [matchSeq, R2, h2 xs]

theorem flags_none_iff (f : Flags) :
    f.none = true ↔ f.noneReject = false ∧ f.litEq = false ∧ f.frag = false ∧ f.loopNotFix = false := by
  cases f; simp [Flags.none, and_assoc]

theorem flags_or_none (a b : Flags) : (a.or b).none = true ↔ a.none = true ∧ b.none = true := by
  cases a; cases b; simp [Flags.or, Flags.none]; grind

theorem seqCase_many (isList : Bool) (ms : List Ty) (lit : Bool) (i : Int)
    (h : (memberPairs ms).any (·.1) = true) (hf : (seqCase isList ms lit i).2.none = true) :
    (seqCase isList ms lit i).1 = .any := by
  simp only [seqCase] at hf ⊢
  generalize C19.getitem (if isList then C19.SeqTyp.list else C19.SeqTyp.tuple) (memberPairs ms) i = g at hf ⊢
  cases g with
  | member m' => simp [flags_none_iff, h] at hf
  | fallback =>
    by_cases he : (memberPairs ms).isEmpty = true
    · simp [he, flags_none_iff] at hf
    · simp [he, flags_none_iff, h] at hf
  | error => rfl

/-- the modelled getitem on a member list without unpacked members, applied to an actual sequence whose elements
are related to the members position by position -/
theorem seqCase_sound (isList : Bool) (ms : List Ty) (lit : Bool) (i : Int) (xs : List Obj) (r : Obj)
    (R : Obj → Ty → Bool) (hR : R2 R xs ms = true) (hr : C19.elemAt xs i = some r)
    (hf : (seqCase isList ms lit i).2.none = true)
    (hpairs : (memberPairs ms).map (·.2) = ms)
    (hres : ∀ m, R r m = true → (lit && (match m with | .known o => numLike o | _ => false)) = false →
      mem tb r m = true) :
    mem tb r (seqCase isList ms lit i).1 = true := by
  obtain ⟨m, hm, hrm⟩ := R2_elemAt R xs ms i r hR hr
  by_cases hmany : C19.hasMany (memberPairs ms) = true
  · -- an unpacked member: outside the fragment (the flag is raised in every branch that yields a type)
    simp only [C19.hasMany] at hmany
    rw [seqCase_many isList ms lit i hmany hf]
    simp [mem]
  · have hno : C19.hasMany (memberPairs ms) = false := by simpa using hmany
    simp only [seqCase] at hf ⊢
    rw [C19.getitem_noMany _ _ hno, hpairs, hm] at hf ⊢
    simp only [flags_none_iff] at hf
    exact hres m hrm hf.2.1

theorem sub_tuple_cls : sub tb C.str C.list = false ∧ sub tb C.str C.tuple = false ∧
    sub tb C.bytes C.list = false ∧ sub tb C.bytes C.tuple = false := by decide +kernel


theorem memAll_mem (t : Ty) : ∀ (xs : List Obj) (x : Obj), memAll tb xs t = true → x ∈ xs → mem tb x t = true
  | [], _, _, h => by simp at h
  | y :: ys, x, h, hx => by
    simp only [memAll, Bool.and_eq_true] at h
    rcases List.mem_cons.mp hx with rfl | hx
    · exact h.1
    · exact memAll_mem t ys x h.2 hx

/-- relation between an actual element and a literal member -/
def litRel (x : Obj) (t : Ty) : Bool :=
  match t with
  | .known k => Obj.pyEq x k
  | _ => false

theorem R2_litRel : ∀ (ys xs : List Obj), R2 Obj.pyEq ys xs = true → R2 litRel ys (xs.map Ty.known) = true
  | [], [], _ => rfl
  | y :: ys, x :: xs, h => by
    simp only [R2, Bool.and_eq_true] at h
    simp [R2, litRel, h.1, R2_litRel ys xs h.2]
  | [], _ :: _, h => by simp [R2] at h
  | _ :: _, [], h => by simp [R2] at h

theorem seqCase_known (isList : Bool) (xs ys : List Obj) (i : Int) (r : Obj)
    (heq : Obj.pyEqList ys xs = true) (hr : C19.elemAt ys i = some r)
    (hf : (seqCase isList (xs.map Ty.known) true i).2.none = true) :
    mem tb r (seqCase isList (xs.map Ty.known) true i).1 = true := by
  apply seqCase_sound isList (xs.map Ty.known) true i ys r litRel
    (R2_litRel ys xs (by rw [← pyEqList_eq_R2]; exact heq)) hr hf
  · rw [memberPairs_known]; simp [Function.comp_def]
  · intro m hm hl
    cases m with
    | known k =>
      simp only [litRel] at hm
      simp only [Bool.true_and] at hl
      simpa [mem] using same_of_pyEq r k hm hl
    | _ => simp [litRel] at hm

theorem seqCase_seq (isList : Bool) (ms : List Ty) (xs : List Obj) (i : Int) (r : Obj)
    (hmatch : matchSeq tb xs ms = true) (hr : C19.elemAt xs i = some r)
    (hf : (seqCase isList ms false i).2.none = true) :
    mem tb r (seqCase isList ms false i).1 = true := by
  by_cases hmany : (memberPairs ms).any (·.1) = true
  · rw [seqCase_many isList ms false i hmany hf]; simp [mem]
  · obtain ⟨h1, h2⟩ := memberPairs_noMany ms (by simpa using hmany)
    apply seqCase_sound isList ms false i xs r (fun x t => mem tb x t) (by rw [← h2]; exact hmatch) hr hf h1
    intro m hm _
    exact hm

theorem sub1_sound (o r : Obj) (v : Ty) (i : Int) (hm : mem tb o v = true) (hs : subObj o i = some r)
    (hf : (sub1 v i).2.none = true) : mem tb r (sub1 v i).1 = true := by
  have hu := mem_unannot o v
  rw [hm] at hu
  unfold sub1 at hf ⊢
  cases hk : unannot v with
  | known k =>
    rw [hk] at hu hf
    simp only [mem] at hu
    cases k with
    | tuple xs =>
      dsimp only at hf ⊢
      cases o <;> simp [Obj.same, Obj.tag, Obj.pyEq] at hu
      rename_i ys
      simp only [subObj] at hs
      exact seqCase_known false xs ys i r hu hs hf
    | list xs =>
      dsimp only at hf ⊢
      cases o <;> simp [Obj.same, Obj.tag, Obj.pyEq] at hu
      rename_i ys
      simp only [subObj] at hs
      exact seqCase_known true xs ys i r hu hs hf
    | _ => simp [mem]
  | seq c ms =>
    rw [hk] at hu hf
    dsimp only at hf ⊢
    simp only [mem, Bool.and_eq_true] at hu
    by_cases hc : (c == C.tuple) = true
    · simp only [hc, if_true] at hf ⊢
      cases o <;> simp [memSeq] at hu
      all_goals
        simp only [subObj] at hs
        exact seqCase_seq false ms _ i r hu.2 hs hf
    · by_cases hc2 : (c == C.list) = true
      · simp only [hc, hc2, if_true, if_false] at hf ⊢
        cases o <;> simp [memSeq] at hu
        all_goals
          simp only [subObj] at hs
          exact seqCase_seq true ms _ i r hu.2 hs hf
      · simp [hc, hc2, mem]
  | generic c args =>
    rw [hk] at hu hf
    match args, hu, hf with
    | [t], hu, hf =>
      by_cases hc : (c == C.list || c == C.tuple) = true
      · simp only [hc, if_true] at hf ⊢
        simp only [mem, Bool.and_eq_true] at hu
        have hc' : c = C.list ∨ c = C.tuple := by simpa using hc
        cases o with
        | tuple xs =>
          simp only [subObj] at hs
          exact memAll_mem t xs r (by simpa [memArgs] using hu.2) (C19.elemAt_mem xs i r hs)
        | list xs =>
          simp only [subObj] at hs
          exact memAll_mem t xs r (by simpa [memArgs] using hu.2) (C19.elemAt_mem xs i r hs)
        | str s =>
          have := sub_tuple_cls
          rcases hc' with rfl | rfl <;> simp_all [clsOf]
        | bytes s =>
          have := sub_tuple_cls
          rcases hc' with rfl | rfl <;> simp_all [clsOf]
        | _ => simp [subObj] at hs
      · simp [hc, flags_none_iff] at hf
    | [], _, _ => simp [mem]
    | _ :: _ :: _, _, _ => simp [mem]
  | _ => simp [mem]

theorem subL_eq (i : Int) : ∀ (ts : List Ty), (subL i ts).1 = ts.map (fun v => (sub1 v i).1) ∧
    ((subL i ts).2.none = true → ∀ v ∈ ts, (sub1 v i).2.none = true)
  | [] => by simp [subL]
  | v :: ts => by
    obtain ⟨h1, h2⟩ := subL_eq i ts
    simp only [subL]
    refine ⟨by simp [h1], fun hf w hw => ?_⟩
    rw [flags_or_none] at hf
    rcases List.mem_cons.mp hw with rfl | hw
    · exact hf.1
    · exact h2 hf.2 w hw

theorem subscript0_sound (o r : Obj) (v : Ty) (i : Int) (hm : mem tb o v = true) (hs : subObj o i = some r)
    (hf : (subscript0 v i).2.none = true) : mem tb r (subscript0 v i).1 = true := by
  unfold subscript0 at hf ⊢
  split at hf
  · simp [mem, memAny] at hm
  · rename_i ts _
    obtain ⟨h1, h2⟩ := subL_eq i ts
    simp only [mem] at hm
    rw [memAny_eq_any] at hm
    obtain ⟨m, hmm, hom⟩ := List.any_eq_true.mp hm
    simp only at hf ⊢
    rw [unite_mem', h1]
    exact List.any_eq_true.mpr ⟨_, List.mem_map.mpr ⟨m, hmm, rfl⟩, sub1_sound o r m i hom hs (h2 hf m hmm)⟩
  · exact sub1_sound o r v i hm hs hf

theorem subscript_sound (o r : Obj) (v : Ty) (i : Int) (hm : mem tb o v = true) (hs : subObj o i = some r)
    (hf : (subscript v i).2.none = true) : mem tb r (subscript v i).1 = true := by
  unfold subscript at hf ⊢
  simp only [flags_or_none] at hf
  exact subscript0_sound o r v i hm hs hf.1


/-! ## 6. displays -/

theorem matchSeq_of_R2 : ∀ (os : List Obj) (ts : List Ty), R2 (fun x t => mem tb x t) os ts = true →
    matchSeq tb os ts = true
  | [], [], _ => by simp [matchSeq]
  | o :: os, t :: ts, h => by
    simp only [R2, Bool.and_eq_true] at h
    have ih := matchSeq_of_R2 os ts h.2
    cases t with
    | many t' => simp [mem] at h
    | _ => simp [matchSeq, h.1, ih]
  | [], _ :: _, h => by simp [R2] at h
  | _ :: _, [], h => by simp [R2] at h

theorem allKnown_some : ∀ (ts : List Ty) (ks : List Obj), allKnown ts = some ks → ts = ks.map Ty.known
  | [], ks, h => by simp [allKnown] at h; subst h; rfl
  | t :: ts, ks, h => by
    cases t with
    | known o =>
      simp only [allKnown, Option.map_eq_some_iff] at h
      obtain ⟨ks', hk, rfl⟩ := h
      simp [allKnown_some ts ks' hk]
    | _ => simp [allKnown] at h

theorem pyEqList_of_R2_known : ∀ (os ks : List Obj), R2 (fun x t => mem tb x t) os (ks.map Ty.known) = true →
    Obj.pyEqList os ks = true
  | [], [], _ => by simp [Obj.pyEqList]
  | o :: os, k :: ks, h => by
    simp only [List.map_cons, R2, Bool.and_eq_true, mem, Obj.same] at h
    simp [Obj.pyEqList, h.1.2, pyEqList_of_R2_known os ks h.2]
  | [], _ :: _, h => by simp [R2] at h
  | _ :: _, [], h => by simp [R2] at h

theorem sub_self_cls : sub tb C.list C.list = true ∧ sub tb C.tuple C.tuple = true := by decide +kernel

theorem makeOrKnown_sound (isList : Bool) (os : List Obj) (ts : List Ty)
    (h : R2 (fun x t => mem tb x t) os ts = true) :
    mem tb (if isList then Obj.list os else Obj.tuple os) (makeOrKnown isList ts) = true := by
  unfold makeOrKnown
  cases hk : allKnown ts with
  | none =>
    have hm := matchSeq_of_R2 os ts h
    cases isList <;> simp [mem, memSeq, clsOf, hm, sub_self_cls.1, sub_self_cls.2]
  | some ks =>
    have := allKnown_some ts ks hk
    subst this
    have hp := pyEqList_of_R2_known os ks h
    cases isList <;> simp [mem, Obj.same, Obj.tag, Obj.pyEq, hp]

/-! ## 6b. iterable unpacking -/

theorem R2_replicate_any : ∀ (os : List Obj) (n : Nat), os.length = n →
    R2 (fun x t => mem tb x t) os (List.replicate n Ty.any) = true
  | [], n, h => by subst h; rfl
  | o :: os, n, h => by
    subst h
    simp [List.replicate, R2, mem, R2_replicate_any os os.length rfl]

theorem R2_replicate (t : Ty) : ∀ (os : List Obj) (n : Nat), os.length = n → memAll tb os t = true →
    R2 (fun x t => mem tb x t) os (List.replicate n t) = true
  | [], n, h, _ => by subst h; rfl
  | o :: os, n, h, hm => by
    subst h
    simp only [memAll, Bool.and_eq_true] at hm
    simp [List.replicate, R2, hm.1, R2_replicate t os os.length rfl hm.2]

theorem R2_known_of_pyEq : ∀ (ys xs : List Obj), R2 Obj.pyEq ys xs = true →
    xs.any numLike = false → R2 (fun x t => mem tb x t) ys (xs.map Ty.known) = true
  | [], [], _, _ => rfl
  | y :: ys, x :: xs, h, hn => by
    simp only [R2, Bool.and_eq_true] at h
    simp only [List.any_cons, Bool.or_eq_false_iff] at hn
    simp [R2, mem, same_of_pyEq y x h.1 hn.1, R2_known_of_pyEq ys xs h.2 hn.2]
  | [], _ :: _, h, _ => by simp [R2] at h
  | _ :: _, [], h, _ => by simp [R2] at h

theorem any_known_numLike (xs : List Obj) :
    (xs.map Ty.known).any (fun m => match m with | .known o => numLike o | _ => false) = xs.any numLike := by
  induction xs with
  | nil => rfl
  | cons x xs ih => simp [ih]

theorem iter_cls_facts :
    sub tb C.str C.list = false ∧ sub tb C.str C.tuple = false ∧ sub tb C.bytes C.list = false ∧
    sub tb C.bytes C.tuple = false ∧ sub tb C.set C.list = false ∧ sub tb C.set C.tuple = false ∧
    sub tb C.frozenset C.list = false ∧ sub tb C.frozenset C.tuple = false ∧ sub tb C.dict C.list = false ∧
    sub tb C.dict C.tuple = false := by decide +kernel

/-- unpacking a member list without unpacked members: the cases `tuple` / `list` of `unpack1` -/
theorem unpack_seq_sound (c : Cls) (ms : List Ty) (lit : Flags) (n : Nat) (os : List Obj) (hlen : os.length = n)
    (hR : R2 (fun x t => mem tb x t) os ms = true) (vs : List Ty)
    (h : (if c == C.tuple then (if ms.length == n then (some ms, lit) else (none, {}))
      else if c == C.list then
        (if ms.length == n then (some ms, lit)
         else if ms.isEmpty then (some (List.replicate n .any), { frag := true })
         else (some (List.replicate n (unite ms)),
               { frag := ms.any (fun m => match m with | .any => true | _ => false) }))
      else (some (List.replicate n .any), ({ frag := true } : Flags))).1 = some vs) :
    R2 (fun x t => mem tb x t) os vs = true := by
  have hl := R2_length _ os ms hR
  have hn : ms.length = n := by omega
  by_cases hc : c = C.tuple
  · simp [hc, hn] at h
    subst h; exact hR
  · by_cases hc2 : c = C.list
    · simp [hc2, hn, C.list, C.tuple] at h
      subst h; exact hR
    · simp [hc, hc2] at h
      subst h; exact R2_replicate_any os n hlen

theorem unpack1_sound (o : Obj) (v : Ty) (n : Nat) (os : List Obj) (hm : mem tb o v = true)
    (hi : iterObj o = some os) (hlen : os.length = n) (hf : (unpack1 v n).2.none = true)
    (vs : List Ty) (hv : (unpack1 v n).1 = some vs) : R2 (fun x t => mem tb x t) os vs = true := by
  have hu := mem_unannot o v
  rw [hm] at hu
  unfold unpack1 replaceKnownSeq at hf hv
  cases hk : unannot v with
  | known k =>
    rw [hk] at hu hf hv
    simp only [mem] at hu
    cases k with
    | tuple xs =>
      dsimp only at hf hv
      cases o <;> simp [Obj.same, Obj.tag, Obj.pyEq] at hu
      rename_i ys
      simp only [iterObj, Option.some.injEq] at hi
      subst hi
      rw [pyEqList_eq_R2] at hu
      have hl : xs.length = n := by have := R2_length _ ys xs hu; omega
      simp [memberPairs_known, isKnown, any_known_numLike, hl, flags_none_iff, Function.comp_def] at hf hv
      subst hv
      exact R2_known_of_pyEq ys xs hu (Bool.eq_false_iff.mpr (by simpa using hf))
    | list xs =>
      dsimp only at hf hv
      cases o <;> simp [Obj.same, Obj.tag, Obj.pyEq] at hu
      rename_i ys
      simp only [iterObj, Option.some.injEq] at hi
      subst hi
      rw [pyEqList_eq_R2] at hu
      have hl : xs.length = n := by have := R2_length _ ys xs hu; omega
      simp [memberPairs_known, isKnown, any_known_numLike, hl, flags_none_iff, Function.comp_def, C.list, C.tuple] at hf hv
      subst hv
      exact R2_known_of_pyEq ys xs hu (Bool.eq_false_iff.mpr (by simpa using hf))
    | _ => simp at hv
  | seq c ms =>
    rw [hk] at hu hf hv
    dsimp only at hf hv
    simp only [mem, Bool.and_eq_true] at hu
    have hys : ∃ ys, iterObj o = some ys ∧ matchSeq tb ys ms = true := by
      cases o <;> simp [memSeq] at hu
      · exact ⟨_, rfl, hu.2⟩
      · exact ⟨_, rfl, hu.2⟩
    obtain ⟨ys, hiy, hmatch⟩ := hys
    rw [hi, Option.some.injEq] at hiy
    subst hiy
    by_cases hmany : (memberPairs ms).any (·.1) = true
    · simp only [hmany, if_true, Option.some.injEq] at hv
      subst hv; exact R2_replicate_any os n hlen
    · have hmany' : (memberPairs ms).any (·.1) = false := by simpa using hmany
      obtain ⟨_, h2⟩ := memberPairs_noMany ms hmany'
      simp only [hmany', Bool.false_eq_true, if_false] at hv
      exact unpack_seq_sound c ms _ n os hlen (by rw [← h2]; exact hmatch) vs hv
  | generic c args =>
    rw [hk] at hu hf hv
    match args, hu, hf, hv with
    | [t], hu, hf, hv =>
      dsimp only at hf hv
      by_cases hc : (c == C.list || c == C.tuple) = true
      · simp only [hc, if_true, Option.some.injEq] at hv
        subst hv
        simp only [mem, Bool.and_eq_true] at hu
        have hc' : c = C.list ∨ c = C.tuple := by simpa using hc
        have hfacts := iter_cls_facts
        cases o with
        | tuple xs =>
          simp only [iterObj, Option.some.injEq] at hi; subst hi
          exact R2_replicate t _ n hlen (by simpa [memArgs] using hu.2)
        | list xs =>
          simp only [iterObj, Option.some.injEq] at hi; subst hi
          exact R2_replicate t _ n hlen (by simpa [memArgs] using hu.2)
        | str s => rcases hc' with rfl | rfl <;> simp_all [clsOf]
        | bytes s => rcases hc' with rfl | rfl <;> simp_all [clsOf]
        | set xs => rcases hc' with rfl | rfl <;> simp_all [clsOf]
        | fset xs => rcases hc' with rfl | rfl <;> simp_all [clsOf]
        | dict ks vs' => rcases hc' with rfl | rfl <;> simp_all [clsOf]
        | _ => simp [iterObj] at hi
      · simp [hc, flags_none_iff] at hf
    | [], _, _, hv => simp at hv
    | _ :: _ :: _, _, _, hv => simp at hv
  | any =>
    rw [hk] at hv
    simp only [Option.some.injEq] at hv
    subst hv; exact R2_replicate_any os n hlen
  | _ => rw [hk] at hv; simp at hv

theorem colsUnite_sound : ∀ (n : Nat) (os : List Obj) (rows : List (List Ty)) (row : List Ty),
    row ∈ rows → os.length = n → R2 (fun x t => mem tb x t) os row = true →
    R2 (fun x t => mem tb x t) os (colsUnite n rows) = true
  | 0, os, rows, row, _, hl, _ => by
    have : os = [] := List.length_eq_zero_iff.mp hl
    subst this; rfl
  | n + 1, [], _, _, _, hl, _ => by simp at hl
  | n + 1, o :: os, rows, [], _, _, hR => by simp [R2] at hR
  | n + 1, o :: os, rows, t :: row, hrow, hl, hR => by
    simp only [R2, Bool.and_eq_true] at hR
    simp only [colsUnite, R2, Bool.and_eq_true]
    refine ⟨?_, colsUnite_sound n os (rows.map List.tail) row (List.mem_map.mpr ⟨_, hrow, rfl⟩) (by simpa using hl) hR.2⟩
    rw [unite_mem']
    exact List.any_eq_true.mpr ⟨t, List.mem_map.mpr ⟨_, hrow, rfl⟩, hR.1⟩

theorem unpackL_some (n : Nat) : ∀ (ts : List Ty) (rows : List (List Ty)),
    (unpackL n ts).1 = some rows → (unpackL n ts).2.none = true →
    ∀ m ∈ ts, ∃ row ∈ rows, (unpack1 m n).1 = some row ∧ (unpack1 m n).2.none = true
  | [], _, _, _ => by simp
  | v :: ts, rows, h, hf => by
    simp only [unpackL] at h hf
    rw [flags_or_none] at hf
    cases h1 : (unpack1 v n).1 with
    | none => simp [h1] at h
    | some x =>
      cases h2 : (unpackL n ts).1 with
      | none => simp [h1, h2] at h
      | some xs =>
        simp only [h1, h2, Option.some.injEq] at h
        subst h
        intro m hm
        rcases List.mem_cons.mp hm with rfl | hm
        · exact ⟨x, by simp, h1, hf.1⟩
        · obtain ⟨row, hr, hh⟩ := unpackL_some n ts xs h2 hf.2 m hm
          exact ⟨row, List.mem_cons_of_mem _ hr, hh⟩

theorem unpackVals_sound (o : Obj) (v : Ty) (n : Nat) (os : List Obj) (hm : mem tb o v = true)
    (hi : iterObj o = some os) (hlen : os.length = n) (hf : (unpackVals v n).2.none = true) :
    R2 (fun x t => mem tb x t) os (unpackVals v n).1 = true := by
  unfold unpackVals at hf ⊢
  split at hf
  · simp [mem, memAny] at hm
  · rename_i ts _
    simp only [mem] at hm
    rw [memAny_eq_any] at hm
    obtain ⟨m, hmm, hom⟩ := List.any_eq_true.mp hm
    cases hu : unpackL n ts with
    | mk r f =>
      rw [hu] at hf
      cases r with
      | none => exact R2_replicate_any os n hlen
      | some rows =>
        dsimp only at hf ⊢
        obtain ⟨row, hrow, h1, h2⟩ := unpackL_some n ts rows (by rw [hu]) (by rw [hu]; exact hf) m hmm
        exact colsUnite_sound n os rows row hrow hlen (unpack1_sound o m n os hom hi hlen h2 row h1)
  · cases hu : unpack1 v n with
    | mk r f =>
      rw [hu] at hf
      cases r with
      | none => exact R2_replicate_any os n hlen
      | some vs =>
        dsimp only at hf ⊢
        exact unpack1_sound o v n os hm hi hlen (by rw [hu]; exact hf) vs (by rw [hu])

theorem assignAll_keep : ∀ (xs : List Var) (vs : List Ty) (st : St),
    (assignAll st xs vs).log = st.log ∧ (assignAll st xs vs).flags = st.flags
  | [], _, st => by simp [assignAll]
  | _ :: _, [], st => by simp [assignAll]
  | x :: xs, v :: vs, st => by
    simp only [assignAll]
    exact assignAll_keep xs vs _

theorem Inv_assignAll : ∀ (xs : List Var) (os : List Obj) (vs : List Ty) (env : Env) (st : St),
    Inv env st.sc → R2 (fun x t => mem tb x t) os vs = true → Inv (setAll env xs os) (assignAll st xs vs).sc
  | [], _, _, env, st, h, _ => by simpa [setAll, assignAll] using h
  | x :: xs, [], [], env, st, h, _ => by simpa [setAll, assignAll] using h
  | x :: xs, [], _ :: _, _, _, _, hR => by simp [R2] at hR
  | x :: xs, _ :: _, [], _, _, _, hR => by simp [R2] at hR
  | x :: xs, o :: os, v :: vs, env, st, h, hR => by
    simp only [R2, Bool.and_eq_true] at hR
    simp only [setAll, assignAll]
    exact Inv_assignAll xs os vs _ _ (Inv_assign x o st.next v h hR.1) hR.2


/-! ## 6c. `for` loops: the iterated value, covering, the loop itself -/

theorem R2_mem_exists {α β : Type} (R : α → β → Bool) : ∀ (xs : List α) (ys : List β) (x : α),
    R2 R xs ys = true → x ∈ xs → ∃ y ∈ ys, R x y = true
  | [], _, _, _, h => by simp at h
  | _ :: _, [], _, h, _ => by simp [R2] at h
  | a :: xs, b :: ys, x, h, hx => by
    simp only [R2, Bool.and_eq_true] at h
    rcases List.mem_cons.mp hx with rfl | hx
    · exact ⟨b, by simp, h.1⟩
    · obtain ⟨y, hy, hr⟩ := R2_mem_exists R xs ys x h.2 hx
      exact ⟨y, List.mem_cons_of_mem _ hy, hr⟩

theorem unite_of_R2 (os : List Obj) (ms : List Ty) (h : R2 (fun x t => mem tb x t) os ms = true) :
    ∀ x ∈ os, mem tb x (unite ms) = true := by
  intro x hx
  obtain ⟨t, ht, hm⟩ := R2_mem_exists _ os ms x h hx
  rw [unite_mem']
  exact List.any_eq_true.mpr ⟨t, ht, hm⟩

theorem memAll_forall (t : Ty) (os : List Obj) (h : memAll tb os t = true) : ∀ x ∈ os, mem tb x t = true :=
  fun x hx => memAll_mem t os x h hx

/-- the members case of `iter1` on an actual sequence related to the members position by position -/
theorem iter_seq_sound (c : Cls) (ms : List Ty) (lit : Flags) (os : List Obj)
    (hR : R2 (fun x t => mem tb x t) os ms = true) (hno : (memberPairs ms).any (·.1) = false) :
    let r : Option (List Ty) × Ty × Flags :=
      if !(c == C.tuple || c == C.list) then (none, .any, { frag := true })
      else if (memberPairs ms).any (·.1) then (none, unite ((memberPairs ms).map (·.2)), { frag := true })
      else if ms.isEmpty then (some [], .union [], { frag := true })
      else (some ms, unite ms, lit)
    r.2.2.none = true → (∀ x ∈ os, mem tb x r.2.1 = true) ∧ (∀ ms', r.1 = some ms' → os.length = ms'.length) := by
  intro r hf
  have hl := R2_length _ os ms hR
  by_cases hc : (!(c == C.tuple || c == C.list)) = true
  · simp [r, hc, flags_none_iff] at hf
  · by_cases he : ms.isEmpty = true
    · simp [r, hc, hno, he, flags_none_iff] at hf
    · simp only [r, hc, hno, he, Bool.false_eq_true, if_false]
      exact ⟨unite_of_R2 os ms hR, fun ms' h => by simp only [Option.some.injEq] at h; subst h; exact hl⟩

theorem iter1_sound (o : Obj) (v : Ty) (os : List Obj) (hm : mem tb o v = true) (hi : iterObj o = some os)
    (hf : (iter1 v).2.2.none = true) :
    (∀ x ∈ os, mem tb x (iter1 v).2.1 = true) ∧ (∀ ms, (iter1 v).1 = some ms → os.length = ms.length) := by
  have hu := mem_unannot o v
  rw [hm] at hu
  unfold iter1 replaceKnownSeq at hf ⊢
  cases hk : unannot v with
  | known k =>
    rw [hk] at hu hf
    simp only [mem] at hu
    cases k with
    | tuple xs =>
      dsimp only at hf ⊢
      cases o <;> simp [Obj.same, Obj.tag, Obj.pyEq] at hu
      rename_i ys
      simp only [iterObj, Option.some.injEq] at hi
      subst hi
      rw [pyEqList_eq_R2] at hu
      have hno : (memberPairs (xs.map Ty.known)).any (·.1) = false := by
        rw [memberPairs_known]; simp [Function.comp_def]
      have hnl : xs.any numLike = false := by
        by_cases he : (xs.map Ty.known).isEmpty = true
        · simp at he; subst he; rfl
        · have hc : (!(C.tuple == C.tuple || C.tuple == C.list)) = false := by decide
          simp only [hc, hno, he, Bool.false_eq_true, if_false, isKnown, Bool.true_and, any_known_numLike,
            flags_none_iff] at hf
          rw [← any_known_numLike]; exact hf.2.1
      exact iter_seq_sound C.tuple (xs.map Ty.known) _ ys (R2_known_of_pyEq ys xs hu hnl) hno hf
    | list xs =>
      dsimp only at hf ⊢
      cases o <;> simp [Obj.same, Obj.tag, Obj.pyEq] at hu
      rename_i ys
      simp only [iterObj, Option.some.injEq] at hi
      subst hi
      rw [pyEqList_eq_R2] at hu
      have hno : (memberPairs (xs.map Ty.known)).any (·.1) = false := by
        rw [memberPairs_known]; simp [Function.comp_def]
      have hnl : xs.any numLike = false := by
        by_cases he : (xs.map Ty.known).isEmpty = true
        · simp at he; subst he; rfl
        · have hc : (!(C.list == C.tuple || C.list == C.list)) = false := by decide
          simp only [hc, hno, he, Bool.false_eq_true, if_false, isKnown, Bool.true_and, any_known_numLike,
            flags_none_iff] at hf
          rw [← any_known_numLike]; exact hf.2.1
      exact iter_seq_sound C.list (xs.map Ty.known) _ ys (R2_known_of_pyEq ys xs hu hnl) hno hf
    | _ => simp [flags_none_iff] at hf
  | seq c ms =>
    rw [hk] at hu hf
    dsimp only at hf ⊢
    simp only [mem, Bool.and_eq_true] at hu
    have hys : ∃ ys, iterObj o = some ys ∧ matchSeq tb ys ms = true := by
      cases o <;> simp [memSeq] at hu
      · exact ⟨_, rfl, hu.2⟩
      · exact ⟨_, rfl, hu.2⟩
    obtain ⟨ys, hiy, hmatch⟩ := hys
    rw [hi, Option.some.injEq] at hiy
    subst hiy
    by_cases hmany : (memberPairs ms).any (·.1) = true
    · by_cases hc : (!(c == C.tuple || c == C.list)) = true
      · simp [hc, flags_none_iff] at hf
      · simp [hc, hmany, flags_none_iff] at hf
    · have hmany' : (memberPairs ms).any (·.1) = false := by simpa using hmany
      obtain ⟨_, h2⟩ := memberPairs_noMany ms hmany'
      exact iter_seq_sound c ms _ os (by rw [← h2]; exact hmatch) hmany' hf
  | generic c args =>
    rw [hk] at hu hf
    match args, hu, hf with
    | [t], hu, hf =>
      dsimp only at hf ⊢
      by_cases hc : (c == C.list || c == C.tuple) = true
      · simp only [hc, if_true]
        refine ⟨?_, fun ms h => by simp at h⟩
        simp only [mem, Bool.and_eq_true] at hu
        have hc' : c = C.list ∨ c = C.tuple := by simpa using hc
        have hfacts := iter_cls_facts
        cases o with
        | tuple xs =>
          simp only [iterObj, Option.some.injEq] at hi; subst hi
          exact memAll_forall t _ (by simpa [memArgs] using hu.2)
        | list xs =>
          simp only [iterObj, Option.some.injEq] at hi; subst hi
          exact memAll_forall t _ (by simpa [memArgs] using hu.2)
        | str s => rcases hc' with rfl | rfl <;> simp_all [clsOf]
        | bytes s => rcases hc' with rfl | rfl <;> simp_all [clsOf]
        | set xs => rcases hc' with rfl | rfl <;> simp_all [clsOf]
        | fset xs => rcases hc' with rfl | rfl <;> simp_all [clsOf]
        | dict ks vs' => rcases hc' with rfl | rfl <;> simp_all [clsOf]
        | _ => simp [iterObj] at hi
      · simp [hc, flags_none_iff] at hf
    | [], _, hf => simp [flags_none_iff] at hf
    | _ :: _ :: _, _, hf => simp [flags_none_iff] at hf
  | any => exact ⟨fun x _ => by simp [mem], fun ms h => by simp at h⟩
  | _ => rw [hk] at hf; simp [flags_none_iff] at hf

theorem iterL_eq : ∀ (ts : List Ty), (iterL ts).1 = ts.map (fun v => ((iter1 v).1, (iter1 v).2.1)) ∧
    ((iterL ts).2.none = true → ∀ v ∈ ts, (iter1 v).2.2.none = true)
  | [] => by simp [iterL]
  | v :: ts => by
    obtain ⟨h1, h2⟩ := iterL_eq ts
    simp only [iterL]
    refine ⟨by simp [h1], fun hf w hw => ?_⟩
    rw [flags_or_none] at hf
    rcases List.mem_cons.mp hw with rfl | hw
    · exact hf.1
    · exact h2 hf.2 w hw

theorem allSameLen_spec : ∀ (lens : List (Option Nat)), allSameLen lens = true →
    ∃ n, n > 0 ∧ ∀ z ∈ lens, z = some n
  | [], h => by simp [allSameLen] at h
  | none :: _, h => by simp [allSameLen] at h
  | some n :: rest, h => by
    simp only [allSameLen, Bool.and_eq_true, decide_eq_true_eq] at h
    refine ⟨n, h.1, fun z hz => ?_⟩
    rcases List.mem_cons.mp hz with rfl | hz
    · rfl
    · simpa using List.all_eq_true.mp h.2 z hz

theorem iterInfo_sound (o : Obj) (v : Ty) (os : List Obj) (hm : mem tb o v = true) (hi : iterObj o = some os)
    (hf : (iterInfo v).flags.none = true) :
    (∀ x ∈ os, mem tb x (iterInfo v).elem = true) ∧ ((iterInfo v).always = true → os ≠ []) := by
  unfold iterInfo at hf ⊢
  split at hf
  · simp [mem, memAny] at hm
  · rename_i ts _
    simp only [mem] at hm
    rw [memAny_eq_any] at hm
    obtain ⟨m, hmm, hom⟩ := List.any_eq_true.mp hm
    obtain ⟨h1, h2⟩ := iterL_eq ts
    dsimp only at hf ⊢
    obtain ⟨g1, g2⟩ := iter1_sound o m os hom hi (h2 hf m hmm)
    refine ⟨fun x hx => ?_, fun ha => ?_⟩
    · rw [unite_mem', h1]
      exact List.any_eq_true.mpr ⟨(iter1 m).2.1, by simp only [List.map_map, List.mem_map]; exact ⟨m, hmm, rfl⟩, g1 x hx⟩
    · obtain ⟨n, hn, hall⟩ := allSameLen_spec _ ha
      have hz := hall (lenOf ((iter1 m).1, (iter1 m).2.1))
        (by rw [h1]; simp only [List.map_map, List.mem_map]; exact ⟨m, hmm, rfl⟩)
      simp only [lenOf] at hz
      cases hr : (iter1 m).1 with
      | none => rw [hr] at hz; simp at hz
      | some ms =>
        rw [hr] at hz
        simp only [Option.some.injEq] at hz
        have := g2 ms hr
        intro he; subst he
        simp at this; omega
  · dsimp only at hf ⊢
    obtain ⟨g1, g2⟩ := iter1_sound o v os hm hi hf
    refine ⟨g1, fun ha => ?_⟩
    cases hr : (iter1 v).1 with
    | none => rw [hr] at ha; simp at ha
    | some ms =>
      rw [hr] at ha
      have := g2 ms hr
      intro he; subst he
      simp only [List.length_nil] at this
      have : ms = [] := List.length_eq_zero_iff.mp this.symm
      subst this
      simp at ha

theorem tyCovers_mem (o : Obj) (w v : Ty) (h : tyCovers w v = true) (hm : mem tb o v = true) :
    mem tb o w = true := by
  have h1 : memAny tb o (flatten1 v) = true := by rw [memAny_flatten1]; exact hm
  rw [memAny_eq_any] at h1
  obtain ⟨m, hmm, hom⟩ := List.any_eq_true.mp h1
  have := List.all_eq_true.mp h m hmm
  obtain ⟨e, he, hhe⟩ := dictMem_iff.mp this
  have hb := Ty.hashEq_imp_beq' e m hhe
  rw [← memAny_flatten1, memAny_eq_any]
  exact List.any_eq_true.mpr ⟨e, he, by rw [Ty.beq_mem' tb hb o]; exact hom⟩

theorem entryCovered_holds (o : Obj) (d : Def) (es : List Def) (hd : d.holdsB o = true)
    (hc : entryCovered d es = true) : Def.holdsAny o es = true := by
  unfold entryCovered at hc
  rcases Bool.or_eq_true_iff.mp hc with h | h
  · obtain ⟨e, he, hs⟩ := List.any_eq_true.mp h
    exact (holdsAny_iff o es).2 ⟨e, he, by rw [sameB_holds o e d hs]; exact hd⟩
  · cases d with
    | val i v =>
      obtain ⟨e, he, hs⟩ := List.any_eq_true.mp h
      cases e with
      | val j w =>
        simp only [Def.holdsB] at hd
        exact (holdsAny_iff o es).2 ⟨_, he, by simpa [Def.holdsB] using tyCovers_mem o w v hs hd⟩
      | con _ _ _ => simp at hs
    | con _ _ _ => simp at h

theorem Scope.get_mem (sc : Scope) (y : Var) (h : sc.get y ≠ []) : (y, sc.get y) ∈ sc := by
  induction sc with
  | nil => simp [Scope.get] at h
  | cons hd tl ih =>
    obtain ⟨z, es⟩ := hd
    by_cases hz : z = y
    · subst hz; simp [Scope.get]
    · simp only [Scope.get, beq_iff_eq, hz, if_false] at h ⊢
      exact List.mem_cons_of_mem _ (ih h)

theorem scopeCovers_Inv {env : Env} {head exit : Scope} (h : Inv env exit) (hc : scopeCovers head exit = true) :
    Inv env head := by
  intro y o hy
  have h1 := h y o hy
  obtain ⟨d, hd, hh⟩ := (holdsAny_iff o _).1 h1
  have hmem := Scope.get_mem exit y (holdsAny_ne_nil h1)
  have := List.all_eq_true.mp hc _ hmem
  exact entryCovered_holds o d _ hh (List.all_eq_true.mp this d hd)

/-- the loop: every iteration starts in an environment that satisfies the invariant for the loop-head scope -/
theorem forLoop_sound (run : Env → Outcome × RLog) (x : Var) (head exit : Scope) (idx : Nat) (elemT : Ty)
    (logT : List (Path × Ty))
    (hrun : ∀ env', Inv env' (head.set x [.val idx elemT]) →
      (∀ n o, (n, o) ∈ (run env').2 → ∃ T', (n, T') ∈ logT ∧ mem tb o T' = true) ∧
      (∀ env'', (run env').1 = .normal env'' → Inv env'' exit))
    (hcov : scopeCovers head exit = true) :
    ∀ (os : List Obj) (env : Env), Inv env head → (∀ o ∈ os, mem tb o elemT = true) →
      (∀ n o, (n, o) ∈ (forLoop run x env os).2 → ∃ T', (n, T') ∈ logT ∧ mem tb o T' = true) ∧
      (∀ env'', (forLoop run x env os).1 = .normal env'' → (os = [] ∧ env'' = env) ∨ Inv env'' exit)
  | [], env, _, _ => by
    simp only [forLoop]
    exact ⟨fun n o h => by simp at h,
      fun env'' h => by simp only [Outcome.normal.injEq] at h; exact Or.inl ⟨trivial, h.symm⟩⟩
  | o :: os, env, hinv, hel => by
    simp only [forLoop]
    obtain ⟨r1, r2⟩ := hrun (env.set x o) (Inv_assign x o idx elemT hinv (hel o (by simp)))
    cases hr : run (env.set x o) with
    | mk out lg =>
      rw [hr] at r1 r2
      cases out with
      | normal env1 =>
        have hinv1 : Inv env1 head := scopeCovers_Inv (r2 env1 rfl) hcov
        obtain ⟨g1, g2⟩ := forLoop_sound run x head exit idx elemT logT hrun hcov os env1 hinv1
          (fun o' ho' => hel o' (List.mem_cons_of_mem _ ho'))
        dsimp only
        refine ⟨fun n o' h => ?_, fun env'' h => ?_⟩
        · rcases List.mem_append.mp h with h | h
          · exact r1 n o' h
          · exact g1 n o' h
        · rcases g2 env'' h with ⟨_, he⟩ | h'
          · exact Or.inr (he ▸ r2 env1 rfl)
          · exact Or.inr h'
      | returned v => exact ⟨r1, fun env'' h => by simp at h⟩
      | raised => exact ⟨r1, fun env'' h => by simp at h⟩

/-! ## 6d. `+` and `+=` on ints and strs -/

def intVal : Obj → Option Int
  | .int n => some n
  | .bool b => some (if b then 1 else 0)
  | _ => none

theorem add_cls_facts :
    sub tb C.int C.int = true ∧ sub tb C.str C.str = true ∧
    sub tb C.str C.int = false ∧ sub tb C.str C.bool = false ∧ sub tb C.bytes C.int = false ∧
    sub tb C.bytes C.bool = false ∧ sub tb C.tuple C.int = false ∧ sub tb C.tuple C.bool = false ∧
    sub tb C.list C.int = false ∧ sub tb C.list C.bool = false ∧
    sub tb C.int C.str = false ∧ sub tb C.bool C.str = false ∧ sub tb C.bytes C.str = false ∧
    sub tb C.tuple C.str = false ∧ sub tb C.list C.str = false := by decide +kernel

theorem ikind_known (t : Ty) (n : Int) (o : Obj) (h : ikind t = some (some n)) (hm : mem tb o t = true) :
    intVal o = some n := by
  have hu := mem_unannot o t
  rw [hm] at hu
  unfold ikind at h
  cases hk : unannot t with
  | known k =>
    rw [hk] at h hu
    simp only [mem] at hu
    cases k <;> simp at h
    · subst h
      cases o <;> simp [Obj.same, Obj.tag, Obj.pyEq] at hu
      simp [intVal, hu]
    · subst h
      cases o <;> simp [Obj.same, Obj.tag, Obj.pyEq] at hu
      simp [intVal, hu]
  | typed c => rw [hk] at h; dsimp only at h; split at h <;> simp at h
  | _ => rw [hk] at h; simp at h

theorem skind_known (t : Ty) (z : String) (o : Obj) (h : skind t = some (some z)) (hm : mem tb o t = true) :
    o = .str z := by
  have hu := mem_unannot o t
  rw [hm] at hu
  unfold skind at h
  cases hk : unannot t with
  | known k =>
    rw [hk] at h hu
    simp only [mem] at hu
    cases k <;> simp at h
    subst h
    cases o <;> simp [Obj.same, Obj.tag, Obj.pyEq] at hu
    simp [hu]
  | typed c => rw [hk] at h; dsimp only at h; split at h <;> simp at h
  | _ => rw [hk] at h; simp at h

/-- an object of an int-like value that `+` accepts on the left is an int or a bool -/
theorem ikind_add_left (t : Ty) (k : Option Int) (a b r : Obj) (h : ikind t = some k) (hm : mem tb a t = true)
    (hadd : addObj a b = some r) : ∃ x, intVal a = some x := by
  cases k with
  | some n => exact ⟨n, ikind_known t n a h hm⟩
  | none =>
    have hu := mem_unannot a t
    rw [hm] at hu
    unfold ikind at h
    have hfacts := add_cls_facts
    cases hk : unannot t with
    | known kk => rw [hk] at h; cases kk <;> simp at h
    | typed c =>
      rw [hk] at h hu
      dsimp only at h
      have hc : c = C.int ∨ c = C.bool := by
        by_cases hc : (c == C.int || c == C.bool) = true
        · simpa using hc
        · simp [hc] at h
      simp only [mem] at hu
      cases a with
      | int n => exact ⟨n, rfl⟩
      | bool v => exact ⟨_, rfl⟩
      | str z => rcases hc with rfl | rfl <;> simp_all [clsOf]
      | bytes z => rcases hc with rfl | rfl <;> simp_all [clsOf]
      | tuple xs => rcases hc with rfl | rfl <;> simp_all [clsOf]
      | list xs => rcases hc with rfl | rfl <;> simp_all [clsOf]
      | _ => simp [addObj] at hadd
    | _ => rw [hk] at h; simp at h

theorem skind_add_left (t : Ty) (k : Option String) (a b r : Obj) (h : skind t = some k) (hm : mem tb a t = true)
    (hadd : addObj a b = some r) : ∃ z, a = .str z := by
  cases k with
  | some z => exact ⟨z, skind_known t z a h hm⟩
  | none =>
    have hu := mem_unannot a t
    rw [hm] at hu
    unfold skind at h
    have hfacts := add_cls_facts
    cases hk : unannot t with
    | known kk => rw [hk] at h; cases kk <;> simp at h
    | typed c =>
      rw [hk] at h hu
      dsimp only at h
      have hc : c = C.str := by
        by_cases hc : (c == C.str) = true
        · simpa using hc
        · simp [hc] at h
      subst hc
      simp only [mem] at hu
      cases a with
      | str z => exact ⟨z, rfl⟩
      | int n => simp_all [clsOf]
      | bool v => simp_all [clsOf]
      | bytes z => simp_all [clsOf]
      | tuple xs => simp_all [clsOf]
      | list xs => simp_all [clsOf]
      | _ => simp [addObj] at hadd
    | _ => rw [hk] at h; simp at h

theorem addObj_int (a b r : Obj) (x : Int) (ha : intVal a = some x) (hadd : addObj a b = some r) :
    ∃ y, intVal b = some y ∧ r = .int (x + y) := by
  cases a <;> simp [intVal] at ha <;> cases b <;> simp [addObj] at hadd <;> subst ha <;> subst hadd <;> simp [intVal]

theorem addObj_str (z : String) (b r : Obj) (hadd : addObj (.str z) b = some r) :
    ∃ w, b = .str w ∧ r = .str (z ++ w) := by
  cases b <;> simp [addObj] at hadd
  subst hadd; exact ⟨_, rfl, rfl⟩

theorem add1_sound (a b r : Obj) (l rt : Ty) (hl : mem tb a l = true) (hr : mem tb b rt = true)
    (hadd : addObj a b = some r) (hf : (add1 l rt).2.none = true) : mem tb r (add1 l rt).1 = true := by
  have hfacts := add_cls_facts
  unfold add1
  cases hik : ikind l with
  | some kl =>
    dsimp only
    obtain ⟨x, hx⟩ := ikind_add_left l kl a b r hik hl hadd
    obtain ⟨y, hy, hrr⟩ := addObj_int a b r x hx hadd
    subst hrr
    by_cases hcond : ((flatten1 rt).all (fun m => (ikind m).isSome) && !(flatten1 rt).isEmpty) = true
    · simp only [hcond, if_true]
      generalize hrk : (if isUnion rt = true then none else (ikind rt).getD none) = rk
      cases kl with
      | none => simp [mem, clsOf, hfacts.1]
      | some a' =>
        cases rk with
        | none => simp [mem, clsOf, hfacts.1]
        | some b' =>
          dsimp only
          have hxa := ikind_known l a' a hik hl
          rw [hx] at hxa
          simp only [Option.some.injEq] at hxa
          by_cases hun : isUnion rt = true
          · simp [hun] at hrk
          · simp only [hun, Bool.false_eq_true, if_false] at hrk
            cases hir : ikind rt with
            | none => simp [hir] at hrk
            | some kk =>
              simp only [hir, Option.getD_some] at hrk
              subst hrk
              have hyb := ikind_known rt b' b hir hr
              rw [hy] at hyb
              simp only [Option.some.injEq] at hyb
              subst hxa; subst hyb
              simp [mem, Obj.same_refl]
    · simp only [hcond]
      simp [mem]
  | none =>
    dsimp only
    cases hsk : skind l with
    | some kl =>
      dsimp only
      obtain ⟨z, hz⟩ := skind_add_left l kl a b r hsk hl hadd
      subst hz
      obtain ⟨w, hw, hrr⟩ := addObj_str z b r hadd
      subst hw; subst hrr
      by_cases hcond : ((flatten1 rt).all (fun m => (skind m).isSome) && !(flatten1 rt).isEmpty) = true
      · simp only [hcond, if_true]
        generalize hrk : (if isUnion rt = true then none else (skind rt).getD none) = rk
        cases kl with
        | none => simp [mem, clsOf, hfacts.2.1]
        | some a' =>
          cases rk with
          | none => simp [mem, clsOf, hfacts.2.1]
          | some b' =>
            dsimp only
            have hza := skind_known l a' (.str z) hsk hl
            simp only [Obj.str.injEq] at hza
            by_cases hun : isUnion rt = true
            · simp [hun] at hrk
            · simp only [hun, Bool.false_eq_true, if_false] at hrk
              cases hir : skind rt with
              | none => simp [hir] at hrk
              | some kk =>
                simp only [hir, Option.getD_some] at hrk
                subst hrk
                have hwb := skind_known rt b' (.str w) hir hr
                simp only [Obj.str.injEq] at hwb
                subst hza; subst hwb
                simp [mem, Obj.same_refl]
      · simp only [hcond]
        simp [mem]
    | none => simp [mem]

theorem addL_eq (r : Ty) : ∀ (ls : List Ty), (addL r ls).1 = ls.map (fun l => (add1 l r).1) ∧
    ((addL r ls).2.none = true → ∀ l ∈ ls, (add1 l r).2.none = true)
  | [] => by simp [addL]
  | l :: ls => by
    obtain ⟨h1, h2⟩ := addL_eq r ls
    simp only [addL]
    refine ⟨by simp [h1], fun hf w hw => ?_⟩
    rw [flags_or_none] at hf
    rcases List.mem_cons.mp hw with rfl | hw
    · exact hf.1
    · exact h2 hf.2 w hw

theorem addVals_sound (a b r : Obj) (vl vr : Ty) (hl : mem tb a vl = true) (hr : mem tb b vr = true)
    (hadd : addObj a b = some r) (hf : (addVals vl vr).2.none = true) : mem tb r (addVals vl vr).1 = true := by
  unfold addVals at hf ⊢
  obtain ⟨h1, h2⟩ := addL_eq vr (flatten1 vl)
  dsimp only at hf ⊢
  have hf' := (flags_or_none _ _).mp hf
  have hm1 : memAny tb a (flatten1 vl) = true := by rw [memAny_flatten1]; exact hl
  rw [memAny_eq_any] at hm1
  obtain ⟨l, hlm, hal⟩ := List.any_eq_true.mp hm1
  rw [unite_mem', h1]
  exact List.any_eq_true.mpr ⟨_, List.mem_map.mpr ⟨l, hlm, rfl⟩, add1_sound a b r l vr hal hr hadd (h2 hf'.1 l hlm)⟩

/-- `+=` with a list on the left: the modelled `+` gives up (`Any`) -/
theorem add1_list (xs : List Obj) (l rt : Ty) (hl : mem tb (.list xs) l = true) : (add1 l rt).1 = .any := by
  have hfacts := add_cls_facts
  have hu := mem_unannot (.list xs) l
  rw [hl] at hu
  have hi : ikind l = none := by
    unfold ikind
    cases hk : unannot l with
    | known k => rw [hk] at hu; cases k <;> simp_all [mem, Obj.same, Obj.tag]
    | typed c =>
      rw [hk] at hu
      simp only [mem, clsOf] at hu
      by_cases hc : (c == C.int || c == C.bool) = true
      · have hc' : c = C.int ∨ c = C.bool := by simpa using hc
        rcases hc' with rfl | rfl <;> simp_all
      · simp [hc]
    | _ => rfl
  have hs : skind l = none := by
    unfold skind
    cases hk : unannot l with
    | known k => rw [hk] at hu; cases k <;> simp_all [mem, Obj.same, Obj.tag]
    | typed c =>
      rw [hk] at hu
      simp only [mem, clsOf] at hu
      by_cases hc : (c == C.str) = true
      · have hc' : c = C.str := by simpa using hc
        subst hc'; simp_all
      · simp [hc]
    | _ => rfl
  simp [add1, hi, hs]

theorem augVals_sound (a b r : Obj) (vl vr : Ty) (hl : mem tb a vl = true) (hr : mem tb b vr = true)
    (hadd : augObj a b = some r) (hf : (addVals vl vr).2.none = true) : mem tb r (addVals vl vr).1 = true := by
  cases a with
  | list xs =>
    unfold addVals
    obtain ⟨h1, _⟩ := addL_eq vr (flatten1 vl)
    dsimp only
    have hm1 : memAny tb (.list xs) (flatten1 vl) = true := by rw [memAny_flatten1]; exact hl
    rw [memAny_eq_any] at hm1
    obtain ⟨l, hlm, hal⟩ := List.any_eq_true.mp hm1
    rw [unite_mem', h1]
    exact List.any_eq_true.mpr ⟨_, List.mem_map.mpr ⟨l, hlm, rfl⟩, by rw [add1_list xs l vr hal]; simp [mem]⟩
  | _ => exact addVals_sound _ b r vl vr hl hr (by simpa [augObj] using hadd) hf

/-! ## 7. monotonicity of the inference state (log and flags only grow) -/

/-- the assumption on the helper functions, as an instance so that the induction carries it along -/
class ImplOkC (impl : Impl) (R : List Ty) : Prop where
  ok : ImplOk impl R

variable {impl : Impl} {R : List Ty}

def St.le (a b : St) : Prop :=
  (∀ x, x ∈ a.log → x ∈ b.log) ∧ (b.flags.none = true → a.flags.none = true)

theorem St.le_refl (a : St) : St.le a a := ⟨fun _ h => h, fun h => h⟩
theorem St.le_trans {a b c : St} (h1 : St.le a b) (h2 : St.le b c) : St.le a c :=
  ⟨fun x h => h2.1 x (h1.1 x h), fun h => h1.2 (h2.2 h)⟩

theorem St.le_lookup (st : St) (x : Var) : St.le st (st.lookup x).2 :=
  ⟨fun _ h => h, fun h => by simp only [St.lookup, flags_or_none] at h; exact h.1⟩

theorem St.le_of_eq {a b : St} (hl : a.log = b.log) (hf : a.flags = b.flags) : St.le a b :=
  ⟨fun x h => hl ▸ h, fun h => hf ▸ h⟩

theorem St.le_log {a : St} (sc : Scope) (e : Path × Ty) (f : Flags) :
    St.le a { a with sc := sc, flags := a.flags.or f, log := a.log ++ [e] } :=
  ⟨fun x h => List.mem_append_left _ h, fun h => by simp only [flags_or_none] at h; exact h.1⟩

mutual
theorem inferExpr_le : ∀ (e : Expr) (st : St) (p : Path), St.le st (inferExpr R st p e).2
  | .lit o, st, p => by
    simp only [inferExpr]
    exact ⟨fun x h => List.mem_append_left _ h, fun h => h⟩
  | .var x, st, p => by
    simp only [inferExpr]
    exact St.le_trans (St.le_lookup st x) ⟨fun x h => List.mem_append_left _ h, fun h => h⟩
  | .disp isList es, st, p => by
    simp only [inferExpr]
    exact St.le_trans (inferList_le es st p 0) ⟨fun x h => List.mem_append_left _ h, fun h => h⟩
  | .sub e i, st, p => by
    simp only [inferExpr]
    refine St.le_trans (inferExpr_le e st (0 :: p)) ⟨fun x h => List.mem_append_left _ h, fun h => ?_⟩
    simp only [flags_or_none] at h
    exact h.1
  | .ite t a b, st, p => by
    simp only [inferExpr]
    have h1 := St.le_lookup st t.var
    have h2 : St.le (st.lookup t.var).2 ((st.lookup t.var).2.addCon t.con.1 t.con.2) := St.le_of_eq rfl rfl
    have h3 := inferExpr_le a ((st.lookup t.var).2.addCon t.con.1 t.con.2) (1 :: p)
    have h4 : St.le (inferExpr R ((st.lookup t.var).2.addCon t.con.1 t.con.2) (1 :: p) a).2
        ({ (inferExpr R ((st.lookup t.var).2.addCon t.con.1 t.con.2) (1 :: p) a).2 with
            sc := (st.lookup t.var).2.sc }.addCon t.con.1 (!t.con.2)) := St.le_of_eq rfl rfl
    have h5 := inferExpr_le b ({ (inferExpr R ((st.lookup t.var).2.addCon t.con.1 t.con.2) (1 :: p) a).2 with
            sc := (st.lookup t.var).2.sc }.addCon t.con.1 (!t.con.2)) (2 :: p)
    refine St.le_trans (St.le_trans h1 (St.le_trans h2 (St.le_trans h3 (St.le_trans h4 h5)))) ?_
    exact ⟨fun x h => List.mem_append_left _ h, fun h => h⟩
  | .call f args, st, p => by
    simp only [inferExpr]
    exact St.le_trans (inferList_le args st p 0)
      ⟨fun x h => List.mem_append_left _ h, fun h => ((flags_or_none _ _).mp h).1⟩
  | .add a b, st, p => by
    simp only [inferExpr]
    refine St.le_trans (inferExpr_le a st (0 :: p)) (St.le_trans (inferExpr_le b _ (1 :: p)) ?_)
    exact ⟨fun x h => List.mem_append_left _ h, fun h => ((flags_or_none _ _).mp h).1⟩
theorem inferList_le : ∀ (es : List Expr) (st : St) (p : Path) (k : Nat), St.le st (inferList R st p k es).2
  | [], st, p, k => by simp only [inferList]; exact St.le_refl st
  | e :: es, st, p, k => by
    simp only [inferList]
    exact St.le_trans (inferExpr_le e st (k :: p)) (inferList_le es _ p (k + 1))
end


/-! ## 8. soundness of expression inference -/


theorem beq_not_of_false {a b : Bool} (h : false = (a == b)) : (a == !b) = true := by
  cases a <;> cases b <;> simp at h ⊢

/-- what one inference step has to deliver about the evaluation of the same expression -/
def ESound (env : Env) (st' : St) (T : Ty) (ev : Option Obj × RLog) : Prop :=
  Inv env st'.sc ∧
  (∀ n o, (n, o) ∈ ev.2 → ∃ T', (n, T') ∈ st'.log ∧ mem tb o T' = true) ∧
  (∀ o, ev.1 = some o → mem tb o T = true)

def LSound (env : Env) (st' : St) (ts : List Ty) (ev : Option (List Obj) × RLog) : Prop :=
  Inv env st'.sc ∧
  (∀ n o, (n, o) ∈ ev.2 → ∃ T', (n, T') ∈ st'.log ∧ mem tb o T' = true) ∧
  (∀ os, ev.1 = some os → R2 (fun x t => mem tb x t) os ts = true)

theorem log_lift {lg : RLog} {a b : St} (hle : St.le a b)
    (h : ∀ n o, (n, o) ∈ lg → ∃ T', (n, T') ∈ a.log ∧ mem tb o T' = true) :
    ∀ n o, (n, o) ∈ lg → ∃ T', (n, T') ∈ b.log ∧ mem tb o T' = true := by
  intro n o hn
  obtain ⟨T', h1, h2⟩ := h n o hn
  exact ⟨T', hle.1 _ h1, h2⟩

section
variable [hI : ImplOkC impl R]
mutual
theorem inferExpr_sound : ∀ (e : Expr) (st : St) (p : Path) (env : Env), Inv env st.sc →
    (inferExpr R st p e).2.flags.none = true →
    ESound env (inferExpr R st p e).2 (inferExpr R st p e).1 (evalExpr impl env p e)
  | .lit o, st, p, env, hinv, _ => by
    simp only [inferExpr, evalExpr]
    refine ⟨hinv, fun n o' h => ?_, fun o' h => ?_⟩
    · simp only [List.mem_singleton, Prod.mk.injEq] at h
      obtain ⟨rfl, rfl⟩ := h
      exact ⟨.known o', by simp, by simp [mem, Obj.same_refl]⟩
    · simp only [Option.some.injEq] at h
      subst h
      simp [mem, Obj.same_refl]
  | .var x, st, p, env, hinv, hf => by
    simp only [inferExpr, St.lookup, flags_or_none] at hf ⊢
    have hbad : Def.badL (st.sc.get x) = false := by
      have := hf.2; simp only [flags_none_iff] at this; exact this.1
    simp only [evalExpr]
    cases hx : env.get x with
    | none => exact ⟨hinv, fun n o h => by simp at h, fun o h => by simp at h⟩
    | some o =>
      have hm := lookup_sound o _ (hinv x o hx) hbad
      refine ⟨hinv, fun n o' h => ?_, fun o' h => ?_⟩
      · simp only [List.mem_singleton, Prod.mk.injEq] at h
        obtain ⟨rfl, rfl⟩ := h
        exact ⟨_, by simp, hm⟩
      · simp only [Option.some.injEq] at h
        subst h
        exact hm
  | .disp isList es, st, p, env, hinv, hf => by
    simp only [inferExpr] at hf ⊢
    obtain ⟨h1, h2, h3⟩ := inferList_sound es st p 0 env hinv hf
    simp only [evalExpr]
    cases hev : evalList impl env p 0 es with
    | mk r lg =>
      rw [hev] at h2 h3
      cases r with
      | none =>
        refine ⟨h1, fun n o h => ?_, fun o h => by simp at h⟩
        obtain ⟨T', hT, hm⟩ := h2 n o h
        exact ⟨T', List.mem_append_left _ hT, hm⟩
      | some os =>
        have hm := makeOrKnown_sound isList os _ (h3 os rfl)
        refine ⟨h1, fun n o h => ?_, fun o h => ?_⟩
        · simp only [List.mem_append, List.mem_singleton, Prod.mk.injEq] at h
          rcases h with h | ⟨rfl, rfl⟩
          · obtain ⟨T', hT, hm'⟩ := h2 n o h
            exact ⟨T', List.mem_append_left _ hT, hm'⟩
          · exact ⟨_, by simp, hm⟩
        · simp only [Option.some.injEq] at h
          subst h
          exact hm
  | .sub e i, st, p, env, hinv, hf => by
    simp only [inferExpr, flags_or_none] at hf ⊢
    obtain ⟨h1, h2, h3⟩ := inferExpr_sound e st (0 :: p) env hinv hf.1
    simp only [evalExpr]
    cases hev : evalExpr impl env (0 :: p) e with
    | mk r lg =>
      rw [hev] at h2 h3
      cases r with
      | none =>
        refine ⟨h1, fun n o h => ?_, fun o h => by simp at h⟩
        obtain ⟨T', hT, hm⟩ := h2 n o h
        exact ⟨T', List.mem_append_left _ hT, hm⟩
      | some ob =>
        dsimp only
        cases hs : subObj ob i with
        | none =>
          refine ⟨h1, fun n o h => ?_, fun o h => by simp at h⟩
          obtain ⟨T', hT, hm⟩ := h2 n o h
          exact ⟨T', List.mem_append_left _ hT, hm⟩
        | some r =>
          have hm := subscript_sound ob r _ i (h3 ob rfl) hs hf.2
          refine ⟨h1, fun n o h => ?_, fun o h => ?_⟩
          · simp only [List.mem_append, List.mem_singleton, Prod.mk.injEq] at h
            rcases h with h | ⟨rfl, rfl⟩
            · obtain ⟨T', hT, hm'⟩ := h2 n o h
              exact ⟨T', List.mem_append_left _ hT, hm'⟩
            · exact ⟨_, by simp, hm⟩
          · simp only [Option.some.injEq] at h
            subst h
            exact hm
  | .ite t a b, st, p, env, hinv, hf => by
    simp only [inferExpr] at hf ⊢
    -- the states along the way
    have hinv0 : Inv env (st.lookup t.var).2.sc := hinv
    have hleB := inferExpr_le (R := R) b ({ (inferExpr R ((st.lookup t.var).2.addCon t.con.1 t.con.2) (1 :: p) a).2 with
            sc := (st.lookup t.var).2.sc }.addCon t.con.1 (!t.con.2)) (2 :: p)
    have hfA : (inferExpr R ((st.lookup t.var).2.addCon t.con.1 t.con.2) (1 :: p) a).2.flags.none = true :=
      hleB.2 hf
    simp only [evalExpr]
    cases ht : evalTest env t with
    | none =>
      have hx := evalTest_none env t ht
      have hinvA : Inv env ((st.lookup t.var).2.addCon t.con.1 t.con.2).sc :=
        Inv_addCon _ _ hinv0 (fun o ho => by rw [hx] at ho; cases ho)
      obtain ⟨h1, _, _⟩ := inferExpr_sound a _ (1 :: p) env hinvA hfA
      exact ⟨Inv_join_left _ h1, fun n o h => by simp at h, fun o h => by simp at h⟩
    | some bv =>
      obtain ⟨ox, hox, hbv⟩ := evalTest_con env t bv ht
      cases bv with
      | true =>
        have hinvA : Inv env ((st.lookup t.var).2.addCon t.con.1 t.con.2).sc :=
          Inv_addCon _ _ hinv0 (fun o ho => by rw [hox] at ho; cases ho; exact hbv.symm)
        obtain ⟨h1, h2, h3⟩ := inferExpr_sound a _ (1 :: p) env hinvA hfA
        simp only
        cases hev : evalExpr impl env (1 :: p) a with
        | mk r lg =>
          rw [hev] at h2 h3
          have h2' := log_lift (St.le_trans (St.le_of_eq rfl rfl) hleB) h2
          cases r with
          | none =>
            refine ⟨Inv_join_left _ h1, fun n o h => ?_, fun o h => by simp at h⟩
            obtain ⟨T', hT, hm⟩ := h2' n o h
            exact ⟨T', List.mem_append_left _ hT, hm⟩
          | some oa =>
            have hm : mem tb oa (unite [(inferExpr R ((st.lookup t.var).2.addCon t.con.1 t.con.2) (1 :: p) a).1,
                (inferExpr R ({ (inferExpr R ((st.lookup t.var).2.addCon t.con.1 t.con.2) (1 :: p) a).2 with
                  sc := (st.lookup t.var).2.sc }.addCon t.con.1 (!t.con.2)) (2 :: p) b).1]) = true := by
              rw [unite_mem']; simp [h3 oa rfl]
            refine ⟨Inv_join_left _ h1, fun n o h => ?_, fun o h => ?_⟩
            · simp only [List.mem_append, List.mem_singleton, Prod.mk.injEq] at h
              rcases h with h | ⟨rfl, rfl⟩
              · obtain ⟨T', hT, hm'⟩ := h2' n o h
                exact ⟨T', List.mem_append_left _ hT, hm'⟩
              · exact ⟨_, by simp, hm⟩
            · simp only [Option.some.injEq] at h
              subst h
              exact hm
      | false =>
        have hinvB : Inv env ({ (inferExpr R ((st.lookup t.var).2.addCon t.con.1 t.con.2) (1 :: p) a).2 with
            sc := (st.lookup t.var).2.sc }.addCon t.con.1 (!t.con.2)).sc :=
          Inv_addCon (st := { (inferExpr R ((st.lookup t.var).2.addCon t.con.1 t.con.2) (1 :: p) a).2 with
            sc := (st.lookup t.var).2.sc }) _ _ hinv0 (fun o ho => by
              rw [hox] at ho; cases ho
              exact beq_not_of_false hbv)
        obtain ⟨h1, h2, h3⟩ := inferExpr_sound b _ (2 :: p) env hinvB hf
        simp only
        cases hev : evalExpr impl env (2 :: p) b with
        | mk r lg =>
          rw [hev] at h2 h3
          cases r with
          | none =>
            refine ⟨Inv_join_right _ h1, fun n o h => ?_, fun o h => by simp at h⟩
            obtain ⟨T', hT, hm⟩ := h2 n o h
            exact ⟨T', List.mem_append_left _ hT, hm⟩
          | some ob =>
            have hm : mem tb ob (unite [(inferExpr R ((st.lookup t.var).2.addCon t.con.1 t.con.2) (1 :: p) a).1,
                (inferExpr R ({ (inferExpr R ((st.lookup t.var).2.addCon t.con.1 t.con.2) (1 :: p) a).2 with
                  sc := (st.lookup t.var).2.sc }.addCon t.con.1 (!t.con.2)) (2 :: p) b).1]) = true := by
              rw [unite_mem']; simp [h3 ob rfl]
            refine ⟨Inv_join_right _ h1, fun n o h => ?_, fun o h => ?_⟩
            · simp only [List.mem_append, List.mem_singleton, Prod.mk.injEq] at h
              rcases h with h | ⟨rfl, rfl⟩
              · obtain ⟨T', hT, hm'⟩ := h2 n o h
                exact ⟨T', List.mem_append_left _ hT, hm'⟩
              · exact ⟨_, by simp, hm⟩
            · simp only [Option.some.injEq] at h
              subst h
              exact hm
  | .call f args, st, p, env, hinv, hf => by
    simp only [inferExpr] at hf ⊢
    obtain ⟨h1, h2, _⟩ := inferList_sound args st p 0 env hinv ((flags_or_none _ _).mp hf).1
    simp only [evalExpr]
    cases hev : evalList impl env p 0 args with
    | mk r lg =>
      rw [hev] at h2
      cases r with
      | none =>
        refine ⟨h1, fun n o h => ?_, fun o h => by simp at h⟩
        obtain ⟨T', hT, hm⟩ := h2 n o h
        exact ⟨T', List.mem_append_left _ hT, hm⟩
      | some os =>
        dsimp only
        cases hi : impl f os with
        | none =>
          refine ⟨h1, fun n o h => ?_, fun o h => by simp at h⟩
          obtain ⟨T', hT, hm⟩ := h2 n o h
          exact ⟨T', List.mem_append_left _ hT, hm⟩
        | some r =>
          have hm : mem tb r (R.getD f .any) = true := ImplOkC.ok (impl := impl) (R := R) f os r hi
          refine ⟨h1, fun n o h => ?_, fun o h => ?_⟩
          · simp only [List.mem_append, List.mem_singleton, Prod.mk.injEq] at h
            rcases h with h | ⟨rfl, rfl⟩
            · obtain ⟨T', hT, hm'⟩ := h2 n o h
              exact ⟨T', List.mem_append_left _ hT, hm'⟩
            · exact ⟨_, by simp, hm⟩
          · simp only [Option.some.injEq] at h
            subst h
            exact hm
  | .add a b, st, p, env, hinv, hf => by
    simp only [inferExpr] at hf ⊢
    have hf2 := (flags_or_none _ _).mp hf
    have hleB := inferExpr_le (R := R) b (inferExpr R st (0 :: p) a).2 (1 :: p)
    obtain ⟨h1, h2, h3⟩ := inferExpr_sound a st (0 :: p) env hinv (hleB.2 hf2.1)
    obtain ⟨g1, g2, g3⟩ := inferExpr_sound b _ (1 :: p) env h1 hf2.1
    simp only [evalExpr]
    cases heva : evalExpr impl env (0 :: p) a with
    | mk ra lga =>
      rw [heva] at h2 h3
      have h2' := log_lift hleB h2
      cases ra with
      | none =>
        refine ⟨g1, fun n o h => ?_, fun o h => by simp at h⟩
        obtain ⟨T', hT, hm⟩ := h2' n o h
        exact ⟨T', List.mem_append_left _ hT, hm⟩
      | some oa =>
        dsimp only
        cases hevb : evalExpr impl env (1 :: p) b with
        | mk rb lgb =>
          rw [hevb] at g2 g3
          have hlog : ∀ n o, (n, o) ∈ lga ++ lgb → ∃ T', (n, T') ∈ (inferExpr R (inferExpr R st (0 :: p) a).2 (1 :: p) b).2.log ∧
              mem tb o T' = true := by
            intro n o h
            rcases List.mem_append.mp h with h | h
            · exact h2' n o h
            · exact g2 n o h
          cases rb with
          | none =>
            refine ⟨g1, fun n o h => ?_, fun o h => by simp at h⟩
            obtain ⟨T', hT, hm⟩ := hlog n o h
            exact ⟨T', List.mem_append_left _ hT, hm⟩
          | some ob =>
            dsimp only
            cases hadd : addObj oa ob with
            | none =>
              refine ⟨g1, fun n o h => ?_, fun o h => by simp at h⟩
              obtain ⟨T', hT, hm⟩ := hlog n o h
              exact ⟨T', List.mem_append_left _ hT, hm⟩
            | some r =>
              have hm := addVals_sound oa ob r _ _ (h3 oa rfl) (g3 ob rfl) hadd hf2.2
              refine ⟨g1, fun n o h => ?_, fun o h => ?_⟩
              · simp only [List.mem_append, List.mem_singleton, Prod.mk.injEq] at h
                rcases h with (h | h) | ⟨rfl, rfl⟩
                · obtain ⟨T', hT, hm'⟩ := h2' n o h
                  exact ⟨T', List.mem_append_left _ hT, hm'⟩
                · obtain ⟨T', hT, hm'⟩ := g2 n o h
                  exact ⟨T', List.mem_append_left _ hT, hm'⟩
                · exact ⟨_, by simp, hm⟩
              · simp only [Option.some.injEq] at h
                subst h
                exact hm
theorem inferList_sound : ∀ (es : List Expr) (st : St) (p : Path) (k : Nat) (env : Env), Inv env st.sc →
    (inferList R st p k es).2.flags.none = true →
    LSound env (inferList R st p k es).2 (inferList R st p k es).1 (evalList impl env p k es)
  | [], st, p, k, env, hinv, _ => by
    simp only [inferList, evalList]
    exact ⟨hinv, fun n o h => by simp at h, fun os h => by simp at h; subst h; rfl⟩
  | e :: es, st, p, k, env, hinv, hf => by
    simp only [inferList] at hf ⊢
    have hle := inferList_le (R := R) es (inferExpr R st (k :: p) e).2 p (k + 1)
    obtain ⟨h1, h2, h3⟩ := inferExpr_sound e st (k :: p) env hinv (hle.2 hf)
    obtain ⟨g1, g2, g3⟩ := inferList_sound es _ p (k + 1) env h1 hf
    simp only [evalList]
    cases hev : evalExpr impl env (k :: p) e with
    | mk r lg =>
      rw [hev] at h2 h3
      have h2' := log_lift hle h2
      cases r with
      | none => exact ⟨g1, h2', fun os h => by simp at h⟩
      | some o =>
        simp only
        cases hev2 : evalList impl env p (k + 1) es with
        | mk r2 lg2 =>
          rw [hev2] at g2 g3
          have hlog : ∀ n o', (n, o') ∈ lg ++ lg2 → ∃ T', (n, T') ∈ (inferList R (inferExpr R st (k :: p) e).2 p (k + 1) es).2.log ∧
              mem tb o' T' = true := by
            intro n o' h
            rcases List.mem_append.mp h with h | h
            · exact h2' n o' h
            · exact g2 n o' h
          cases r2 with
          | none => exact ⟨g1, hlog, fun os h => by simp at h⟩
          | some os =>
            refine ⟨g1, hlog, fun os' h => ?_⟩
            simp only [Option.some.injEq] at h
            subst h
            simp [R2, h3 o rfl, g3 os rfl]
end


end

/-! ## 9. statements -/

theorem forS_le_aux (st0 p3 : St) (x : Var) (elem : Ty) (S after : Scope) (fl extra : Flags)
    (h : St.le (forStart st0 x elem S (st0.flags.or fl) st0.log) p3) :
    St.le st0 { p3 with sc := after, flags := p3.flags.or extra } :=
  ⟨fun y hy => h.1 y hy, fun hf => ((flags_or_none _ _).mp (h.2 ((flags_or_none _ _).mp hf).1)).1⟩

mutual
theorem inferStmt_le : ∀ (s : Stmt) (st : St) (p : Path), St.le st (inferStmt R st p s).1
  | .assign x e, st, p => by
    simp only [inferStmt]
    exact St.le_trans (inferExpr_le e st (0 :: p)) (St.le_of_eq rfl rfl)
  | .ret e, st, p => by
    simp only [inferStmt]
    exact inferExpr_le e st (0 :: p)
  | .unpack xs e, st, p => by
    simp only [inferStmt]
    refine St.le_trans (inferExpr_le (R := R) e st (0 :: p)) ?_
    obtain ⟨hl, hfl⟩ := assignAll_keep xs (unpackVals (inferExpr R st (0 :: p) e).1 xs.length).1
      { (inferExpr R st (0 :: p) e).2 with flags := Flags.or (inferExpr R st (0 :: p) e).2.flags (unpackVals (inferExpr R st (0 :: p) e).1 xs.length).2 }
    refine ⟨fun x h => by rw [hl]; exact h, fun h => ?_⟩
    rw [hfl] at h
    exact ((flags_or_none _ _).mp h).1
  | .aug x e, st, p => by
    simp only [inferStmt]
    refine St.le_trans (inferExpr_le (R := R) e st (0 :: p)) (St.le_trans (St.le_lookup _ x) ?_)
    exact ⟨fun y h => h, fun h => ((flags_or_none _ _).mp h).1⟩
  | .forS x e body, st, p => by
    simp only [inferStmt]
    exact St.le_trans (inferExpr_le (R := R) e st (0 :: p))
      (forS_le_aux _ _ _ _ _ _ _ _ (inferBlock_le body _ (1 :: p) 0))
  | .ifs t body els, st, p => by
    simp only [inferStmt]
    have h1 := St.le_lookup st t.var
    have h2 : St.le (st.lookup t.var).2 ((st.lookup t.var).2.addCon t.con.1 t.con.2) := St.le_of_eq rfl rfl
    have h3 := inferBlock_le body ((st.lookup t.var).2.addCon t.con.1 t.con.2) (1 :: p) 0
    have h4 : St.le (inferBlock R ((st.lookup t.var).2.addCon t.con.1 t.con.2) (1 :: p) 0 body).1
        ({ (inferBlock R ((st.lookup t.var).2.addCon t.con.1 t.con.2) (1 :: p) 0 body).1 with
            sc := (st.lookup t.var).2.sc }.addCon t.con.1 (!t.con.2)) := St.le_of_eq rfl rfl
    have h5 := inferBlock_le els ({ (inferBlock R ((st.lookup t.var).2.addCon t.con.1 t.con.2) (1 :: p) 0 body).1 with
            sc := (st.lookup t.var).2.sc }.addCon t.con.1 (!t.con.2)) (2 :: p) 0
    exact St.le_trans (St.le_trans h1 (St.le_trans h2 (St.le_trans h3 (St.le_trans h4 h5)))) (St.le_of_eq rfl rfl)
theorem inferBlock_le : ∀ (ss : List Stmt) (st : St) (p : Path) (k : Nat), St.le st (inferBlock R st p k ss).1
  | [], st, p, k => by simp only [inferBlock]; exact St.le_refl st
  | s :: ss, st, p, k => by
    simp only [inferBlock]
    split
    · exact St.le_trans (inferStmt_le s st (k :: p)) (inferBlock_le ss _ p (k + 1))
    · exact inferStmt_le s st (k :: p)
end

/-- what inferring a statement / block has to deliver about executing it -/
def SSound (env : Env) (r : St × Bool) (ex : Outcome × RLog) : Prop :=
  (∀ n o, (n, o) ∈ ex.2 → ∃ T', (n, T') ∈ r.1.log ∧ mem tb o T' = true) ∧
  (∀ env', ex.1 = .normal env' → r.2 = true ∧ Inv env' r.1.sc)


/-- the `for` case, for ANY scope `S3` assumed at the loop head of the checking visit: what matters is only that the
environment satisfies the invariant for it before the first iteration and that the scope the body leaves is covered by
it (`loopNotFix` not raised) -/
theorem forS_core (body : List Stmt) (p : Path) (x : Var) (st0 : St) (elemT : Ty) (always : Bool) (fl0 : Flags)
    (fr : Bool) (S3 : Scope) (env : Env) (os : List Obj) (lgE : RLog)
    (hbody : ∀ (st : St) (env : Env), Inv env st.sc → (inferBlock R st (1 :: p) 0 body).1.flags.none = true →
      SSound env (inferBlock R st (1 :: p) 0 body) (execBlock impl env (1 :: p) 0 body))
    (hle : St.le (forStart st0 x elemT S3 (st0.flags.or fl0) st0.log)
      (inferBlock R (forStart st0 x elemT S3 (st0.flags.or fl0) st0.log) (1 :: p) 0 body).1)
    (hinv0 : Inv env st0.sc) (hinv3 : Inv env S3)
    (hel : ∀ o ∈ os, mem tb o elemT = true) (halw : always = true → os ≠ [])
    (hlogE : ∀ n o, (n, o) ∈ lgE → ∃ T', (n, T') ∈ st0.log ∧ mem tb o T' = true)
    (hf : ((inferBlock R (forStart st0 x elemT S3 (st0.flags.or fl0) st0.log) (1 :: p) 0 body).1.flags.or
      { loopNotFix := !scopeCovers S3 (inferBlock R (forStart st0 x elemT S3 (st0.flags.or fl0) st0.log) (1 :: p) 0 body).1.sc,
        frag := fr }).none = true) :
    SSound env
      ({ (inferBlock R (forStart st0 x elemT S3 (st0.flags.or fl0) st0.log) (1 :: p) 0 body).1 with
          sc := if always then (inferBlock R (forStart st0 x elemT S3 (st0.flags.or fl0) st0.log) (1 :: p) 0 body).1.sc
                else joinScopes (inferBlock R (forStart st0 x elemT S3 (st0.flags.or fl0) st0.log) (1 :: p) 0 body).1.sc st0.sc,
          flags := (inferBlock R (forStart st0 x elemT S3 (st0.flags.or fl0) st0.log) (1 :: p) 0 body).1.flags.or
            { loopNotFix := !scopeCovers S3 (inferBlock R (forStart st0 x elemT S3 (st0.flags.or fl0) st0.log) (1 :: p) 0 body).1.sc,
              frag := fr } }, true)
      ((forLoop (fun env' => execBlock impl env' (1 :: p) 0 body) x env os).1,
       lgE ++ (forLoop (fun env' => execBlock impl env' (1 :: p) 0 body) x env os).2) := by
  have hf' := (flags_or_none _ _).mp hf
  have hcov : scopeCovers S3 (inferBlock R (forStart st0 x elemT S3 (st0.flags.or fl0) st0.log) (1 :: p) 0 body).1.sc = true := by
    have := ((flags_none_iff _).mp hf'.2).2.2.2
    simpa using this
  have hrun : ∀ env', Inv env' (S3.set x [.val st0.next elemT]) →
      (∀ n o, (n, o) ∈ (execBlock impl env' (1 :: p) 0 body).2 →
        ∃ T', (n, T') ∈ (inferBlock R (forStart st0 x elemT S3 (st0.flags.or fl0) st0.log) (1 :: p) 0 body).1.log ∧
          mem tb o T' = true) ∧
      (∀ env'', (execBlock impl env' (1 :: p) 0 body).1 = .normal env'' →
        Inv env'' (inferBlock R (forStart st0 x elemT S3 (st0.flags.or fl0) st0.log) (1 :: p) 0 body).1.sc) := by
    intro env' hinv'
    obtain ⟨a1, a2⟩ := hbody (forStart st0 x elemT S3 (st0.flags.or fl0) st0.log) env' hinv' hf'.1
    exact ⟨a1, fun env'' h => (a2 env'' h).2⟩
  obtain ⟨g1, g2⟩ := forLoop_sound (fun env' => execBlock impl env' (1 :: p) 0 body) x S3 _ st0.next elemT _
    hrun hcov os env hinv3 hel
  refine ⟨fun n o h => ?_, fun env'' h => ⟨rfl, ?_⟩⟩
  · rcases List.mem_append.mp h with h | h
    · obtain ⟨T', hT, hm⟩ := hlogE n o h
      exact ⟨T', hle.1 _ hT, hm⟩
    · exact g1 n o h
  · dsimp only at h ⊢
    rcases g2 env'' h with ⟨he, henv⟩ | hI'
    · subst henv
      cases always with
      | true => exact absurd he (halw rfl)
      | false => simpa using Inv_join_right _ hinv0
    · cases always with
      | true => simpa using hI'
      | false => simpa using Inv_join_left _ hI'

section
variable [hI : ImplOkC impl R]
mutual
theorem inferStmt_sound : ∀ (s : Stmt) (st : St) (p : Path) (env : Env), Inv env st.sc →
    (inferStmt R st p s).1.flags.none = true → SSound env (inferStmt R st p s) (execStmt impl env p s)
  | .assign x e, st, p, env, hinv, hf => by
    simp only [inferStmt] at hf ⊢
    obtain ⟨h1, h2, h3⟩ := inferExpr_sound (impl := impl) (R := R) e st (0 :: p) env hinv hf
    simp only [execStmt]
    cases hev : evalExpr impl env (0 :: p) e with
    | mk r lg =>
      rw [hev] at h2 h3
      cases r with
      | none => exact ⟨h2, fun env' h => by simp at h⟩
      | some o =>
        refine ⟨h2, fun env' h => ?_⟩
        simp only [Outcome.normal.injEq] at h
        subst h
        exact ⟨rfl, Inv_assign x o _ _ h1 (h3 o rfl)⟩
  | .ret e, st, p, env, hinv, hf => by
    simp only [inferStmt] at hf ⊢
    obtain ⟨_, h2, _⟩ := inferExpr_sound (impl := impl) (R := R) e st (0 :: p) env hinv hf
    simp only [execStmt]
    cases hev : evalExpr impl env (0 :: p) e with
    | mk r lg =>
      rw [hev] at h2
      cases r with
      | none => exact ⟨h2, fun env' h => by simp at h⟩
      | some o => exact ⟨h2, fun env' h => by simp at h⟩
  | .unpack xs e, st, p, env, hinv, hf => by
    simp only [inferStmt] at hf ⊢
    obtain ⟨hl, hfl⟩ := assignAll_keep xs (unpackVals (inferExpr R st (0 :: p) e).1 xs.length).1
      { (inferExpr R st (0 :: p) e).2 with flags := Flags.or (inferExpr R st (0 :: p) e).2.flags (unpackVals (inferExpr R st (0 :: p) e).1 xs.length).2 }
    rw [hfl] at hf
    have hf2 := (flags_or_none _ _).mp hf
    obtain ⟨h1, h2, h3⟩ := inferExpr_sound (impl := impl) (R := R) e st (0 :: p) env hinv hf2.1
    simp only [execStmt]
    cases hev : evalExpr impl env (0 :: p) e with
    | mk r lg =>
      rw [hev] at h2 h3
      have h2' : ∀ n o, (n, o) ∈ lg → ∃ T', (n, T') ∈ (assignAll
          { (inferExpr R st (0 :: p) e).2 with flags := Flags.or (inferExpr R st (0 :: p) e).2.flags (unpackVals (inferExpr R st (0 :: p) e).1 xs.length).2 } xs
          (unpackVals (inferExpr R st (0 :: p) e).1 xs.length).1).log ∧ mem tb o T' = true := by
        intro n o h
        rw [hl]
        exact h2 n o h
      cases r with
      | none => exact ⟨h2', fun env' h => by simp at h⟩
      | some o =>
        dsimp only
        cases hi : iterObj o with
        | none => exact ⟨h2', fun env' h => by simp at h⟩
        | some os =>
          dsimp only
          by_cases hlen : (os.length == xs.length) = true
          · simp only [hlen, if_true]
            refine ⟨h2', fun env' h => ?_⟩
            simp only [Outcome.normal.injEq] at h
            subst h
            refine ⟨rfl, ?_⟩
            have hR := unpackVals_sound o _ xs.length os (h3 o rfl) hi (by simpa using hlen) hf2.2
            exact Inv_assignAll xs os _ env _ h1 hR
          · simp only [hlen, Bool.false_eq_true, if_false]
            exact ⟨h2', fun env' h => by simp at h⟩
  | .aug x e, st, p, env, hinv, hf => by
    simp only [inferStmt] at hf ⊢
    have hf2 := (flags_or_none _ _).mp hf
    have hfl := (flags_or_none _ _).mp hf2.1
    obtain ⟨h1, h2, h3⟩ := inferExpr_sound (impl := impl) (R := R) e st (0 :: p) env hinv hfl.1
    have hbad : Def.badL ((inferExpr R st (0 :: p) e).2.sc.get x) = false := ((flags_none_iff _).mp hfl.2).1
    simp only [execStmt]
    cases hev : evalExpr impl env (0 :: p) e with
    | mk r lg =>
      rw [hev] at h2 h3
      cases r with
      | none => exact ⟨h2, fun env' h => by simp at h⟩
      | some y =>
        dsimp only
        cases hx : env.get x with
        | none => exact ⟨h2, fun env' h => by simp at h⟩
        | some xv =>
          dsimp only
          cases hadd : augObj xv y with
          | none => exact ⟨h2, fun env' h => by simp at h⟩
          | some rr =>
            refine ⟨h2, fun env' h => ?_⟩
            simp only [Outcome.normal.injEq] at h
            subst h
            have hxl := lookup_sound xv _ (h1 x xv hx) hbad
            have hm := augVals_sound xv y rr _ _ hxl (h3 y rfl) hadd hf2.2
            exact ⟨rfl, Inv_assign x rr _ _ h1 hm⟩
  | .forS x e body, st, p, env, hinv, hf => by
    simp only [inferStmt] at hf ⊢
    have hle3 := inferBlock_le (R := R) body (forStart (inferExpr R st (0 :: p) e).2 x (iterInfo (inferExpr R st (0 :: p) e).1).elem
      (joinScopes (inferExpr R st (0 :: p) e).2.sc (inferBlock R (forStart (inferExpr R st (0 :: p) e).2 x (iterInfo (inferExpr R st (0 :: p) e).1).elem (if (iterInfo (inferExpr R st (0 :: p) e).1).always then (inferBlock R (forStart (inferExpr R st (0 :: p) e).2 x (iterInfo (inferExpr R st (0 :: p) e).1).elem (inferExpr R st (0 :: p) e).2.sc {} []) (1 :: p) 0 body).1.sc else joinScopes (inferBlock R (forStart (inferExpr R st (0 :: p) e).2 x (iterInfo (inferExpr R st (0 :: p) e).1).elem (inferExpr R st (0 :: p) e).2.sc {} []) (1 :: p) 0 body).1.sc (inferExpr R st (0 :: p) e).2.sc) {} []) (1 :: p) 0 body).1.sc) ((inferExpr R st (0 :: p) e).2.flags.or (iterInfo (inferExpr R st (0 :: p) e).1).flags) (inferExpr R st (0 :: p) e).2.log) (1 :: p) 0
    have hf3 := ((flags_or_none _ _).mp hf).1
    have hf0 := (flags_or_none _ _).mp (hle3.2 hf3)
    obtain ⟨h1, h2, h3⟩ := inferExpr_sound (impl := impl) (R := R) e st (0 :: p) env hinv hf0.1
    simp only [execStmt]
    cases hev : evalExpr impl env (0 :: p) e with
    | mk r lg =>
      rw [hev] at h2 h3
      cases r with
      | none => exact ⟨fun n o h => by obtain ⟨T', hT, hm⟩ := h2 n o h; exact ⟨T', hle3.1 _ hT, hm⟩, fun env' h => by simp at h⟩
      | some o =>
        dsimp only
        cases hi : iterObj o with
        | none => exact ⟨fun n o h => by obtain ⟨T', hT, hm⟩ := h2 n o h; exact ⟨T', hle3.1 _ hT, hm⟩, fun env' h => by simp at h⟩
        | some os =>
          dsimp only
          obtain ⟨e1, e2⟩ := iterInfo_sound o _ os (h3 o rfl) hi hf0.2
          exact forS_core body p x _ _ _ _ _ _ env os lg
            (fun st' env' hi' hf' => inferBlock_sound body st' (1 :: p) 0 env' hi' hf')
            hle3 h1 (Inv_join_left _ h1) e1 e2 h2 hf
  | .ifs t body els, st, p, env, hinv, hf => by
    simp only [inferStmt] at hf ⊢
    have hinv0 : Inv env (st.lookup t.var).2.sc := hinv
    have hleB := inferBlock_le (R := R) els ({ (inferBlock R ((st.lookup t.var).2.addCon t.con.1 t.con.2) (1 :: p) 0 body).1 with
            sc := (st.lookup t.var).2.sc }.addCon t.con.1 (!t.con.2)) (2 :: p) 0
    have hfB : (inferBlock R ({ (inferBlock R ((st.lookup t.var).2.addCon t.con.1 t.con.2) (1 :: p) 0 body).1 with
            sc := (st.lookup t.var).2.sc }.addCon t.con.1 (!t.con.2)) (2 :: p) 0 els).1.flags.none = true := hf
    have hfA : (inferBlock R ((st.lookup t.var).2.addCon t.con.1 t.con.2) (1 :: p) 0 body).1.flags.none = true :=
      hleB.2 hfB
    simp only [execStmt]
    cases ht : evalTest env t with
    | none => exact ⟨fun n o h => by simp at h, fun env' h => by simp at h⟩
    | some bv =>
      obtain ⟨ox, hox, hbv⟩ := evalTest_con env t bv ht
      cases bv with
      | true =>
        have hinvA : Inv env ((st.lookup t.var).2.addCon t.con.1 t.con.2).sc :=
          Inv_addCon _ _ hinv0 (fun o ho => by rw [hox] at ho; cases ho; exact hbv.symm)
        obtain ⟨h2, h3⟩ := inferBlock_sound body _ (1 :: p) 0 env hinvA hfA
        dsimp only
        refine ⟨log_lift (St.le_trans (St.le_trans (St.le_of_eq rfl rfl) hleB) (St.le_of_eq rfl rfl)) h2, fun env' h => ?_⟩
        obtain ⟨hfa, hI⟩ := h3 env' h
        rw [hfa]
        refine ⟨by simp, ?_⟩
        dsimp only
        cases hfb : (inferBlock R ({ (inferBlock R ((st.lookup t.var).2.addCon t.con.1 t.con.2) (1 :: p) 0 body).1 with
            sc := (st.lookup t.var).2.sc }.addCon t.con.1 (!t.con.2)) (2 :: p) 0 els).2
        · simpa using hI
        · simpa using Inv_join_left _ hI
      | false =>
        have hinvB : Inv env ({ (inferBlock R ((st.lookup t.var).2.addCon t.con.1 t.con.2) (1 :: p) 0 body).1 with
            sc := (st.lookup t.var).2.sc }.addCon t.con.1 (!t.con.2)).sc :=
          Inv_addCon (st := { (inferBlock R ((st.lookup t.var).2.addCon t.con.1 t.con.2) (1 :: p) 0 body).1 with
            sc := (st.lookup t.var).2.sc }) _ _ hinv0 (fun o ho => by
              rw [hox] at ho; cases ho
              exact beq_not_of_false hbv)
        obtain ⟨h2, h3⟩ := inferBlock_sound els _ (2 :: p) 0 env hinvB hfB
        dsimp only
        refine ⟨log_lift (St.le_of_eq rfl rfl) h2, fun env' h => ?_⟩
        obtain ⟨hfb, hI⟩ := h3 env' h
        rw [hfb]
        refine ⟨by simp, ?_⟩
        dsimp only
        cases hfa : (inferBlock R ((st.lookup t.var).2.addCon t.con.1 t.con.2) (1 :: p) 0 body).2
        · simpa using hI
        · simpa using Inv_join_right _ hI
theorem inferBlock_sound : ∀ (ss : List Stmt) (st : St) (p : Path) (k : Nat) (env : Env), Inv env st.sc →
    (inferBlock R st p k ss).1.flags.none = true → SSound env (inferBlock R st p k ss) (execBlock impl env p k ss)
  | [], st, p, k, env, hinv, _ => by
    simp only [inferBlock, execBlock]
    refine ⟨fun n o h => by simp at h, fun env' h => ?_⟩
    simp only [Outcome.normal.injEq] at h
    subst h
    exact ⟨rfl, hinv⟩
  | s :: ss, st, p, k, env, hinv, hf => by
    simp only [inferBlock] at hf ⊢
    simp only [execBlock]
    cases hf1 : (inferStmt R st (k :: p) s).2 with
    | false =>
      rw [hf1] at hf
      simp only [Bool.false_eq_true, if_false] at hf ⊢
      obtain ⟨h2, h3⟩ := inferStmt_sound s st (k :: p) env hinv hf
      cases hex : execStmt impl env (k :: p) s with
      | mk out lg =>
        rw [hex] at h2 h3
        cases out with
        | normal env1 =>
          have := (h3 env1 rfl).1
          rw [hf1] at this
          cases this
        | returned o => exact ⟨h2, fun env' h => by simp at h⟩
        | raised => exact ⟨h2, fun env' h => by simp at h⟩
    | true =>
      rw [hf1] at hf
      simp only [if_true] at hf ⊢
      have hle := inferBlock_le (R := R) ss (inferStmt R st (k :: p) s).1 p (k + 1)
      obtain ⟨h2, h3⟩ := inferStmt_sound s st (k :: p) env hinv (hle.2 hf)
      have h2' := log_lift hle h2
      cases hex : execStmt impl env (k :: p) s with
      | mk out lg =>
        rw [hex] at h2' h3
        cases out with
        | normal env1 =>
          obtain ⟨g2, g3⟩ := inferBlock_sound ss _ p (k + 1) env1 (h3 env1 rfl).2 hf
          dsimp only
          refine ⟨fun n o h => ?_, fun env' h => g3 env' h⟩
          rcases List.mem_append.mp h with h | h
          · exact h2' n o h
          · exact g2 n o h
        | returned o => exact ⟨h2', fun env' h => by simp at h⟩
        | raised => exact ⟨h2', fun env' h => by simp at h⟩
end

end

theorem Inv_init : ∀ (ts : List Ty) (os : List Obj) (k : Nat), argsOk ts os = true →
    Inv (initEnv k os) (initScope k ts)
  | [], [], _, _ => fun x o h => by simp [initEnv, Env.get] at h
  | t :: ts, o :: os, k, h => by
    simp only [argsOk, Bool.and_eq_true] at h
    have ih := Inv_init ts os (k + 1) h.2
    intro x o' hx
    simp only [initEnv, Env.get, initScope, Scope.get] at hx ⊢
    by_cases hk : k = x
    · simp only [hk, beq_self_eq_true, if_true, Option.some.injEq] at hx ⊢
      subst hx
      simp [Def.holdsAny, Def.holdsB, h.1]
    · have : (k == x) = false := by simpa using hk
      simp only [this, Bool.false_eq_true, if_false] at hx ⊢
      exact ih x o' hx
  | [], _ :: _, _, h => by simp [argsOk] at h
  | _ :: _, [], _, h => by simp [argsOk] at h

end Pya.C01
