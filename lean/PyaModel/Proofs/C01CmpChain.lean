import PyaModel.Core.CmpChain
/-!
# Proofs/C01CmpChain — both branches of a test made of comparison chains keep the run-time values

`branches_sound`: whatever the test evaluates to, the scope of the branch that is taken still contains the values the
variables hold. The else-branch case rests on `Con.invert` keeping the non-narrowing links as (non-constraining)
disjuncts: `OrConstraint.apply` then narrows only variables that every link constrains.
-/
namespace Pya.C01.Chain

theorem keepAny_eq (fs : List Filt) (o : Lit) : Filt.keepAny fs o = fs.any (fun f => f.keep o) := by
  induction fs with
  | nil => simp [Filt.keepAny]
  | cons f fs ih => simp [Filt.keepAny, ih]

theorem keepAll_eq (fs : List Filt) (o : Lit) : Filt.keepAll fs o = fs.all (fun f => f.keep o) := by
  induction fs with
  | nil => simp [Filt.keepAll]
  | cons f fs ih => simp [Filt.keepAll, ih]

theorem Pred.keep_of_sem (p : Pred) (pos : Bool) (o : Lit) (h : (p.sem o == pos) = true) : p.keep pos o = true := by
  simp [Pred.keep, h]

mutual
theorem holds_invert (ρ : Var → Lit) (ω : Nat → Bool) : ∀ c : Con, c.invert.holds ρ ω = !c.holds ρ ω
  | .opq i pos => by cases pos <;> cases ω i <;> simp [Con.invert, Con.holds]
  | .atom x p pos => by cases pos <;> cases p.sem (ρ x) <;> simp [Con.invert, Con.holds]
  | .and cs => by simp [Con.invert, Con.holds, holdsAny_invertL ρ ω cs]
  | .or cs => by simp [Con.invert, Con.holds, holdsAll_invertL ρ ω cs]
theorem holdsAny_invertL (ρ : Var → Lit) (ω : Nat → Bool) :
    ∀ cs : List Con, Con.holdsAny ρ ω (Con.invertL cs) = !Con.holdsAll ρ ω cs
  | [] => by simp [Con.invertL, Con.holdsAny, Con.holdsAll]
  | c :: cs => by
    simp [Con.invertL, Con.holdsAny, Con.holdsAll, holds_invert ρ ω c, holdsAny_invertL ρ ω cs, Bool.not_and]
theorem holdsAll_invertL (ρ : Var → Lit) (ω : Nat → Bool) :
    ∀ cs : List Con, Con.holdsAll ρ ω (Con.invertL cs) = !Con.holdsAny ρ ω cs
  | [] => by simp [Con.invertL, Con.holdsAny, Con.holdsAll]
  | c :: cs => by
    simp [Con.invertL, Con.holdsAny, Con.holdsAll, holds_invert ρ ω c, holdsAll_invertL ρ ω cs, Bool.not_or]
end

/-- all the per-variable constraints in `l` keep the value the variable holds -/
def Keeps (ρ : Var → Lit) (l : List (Var × Filt)) : Prop := ∀ e ∈ l, e.2.keep (ρ e.1) = true

theorem forVar_keepAll (ρ : Var → Lit) (x : Var) (l : List (Var × Filt)) (h : Keeps ρ l) :
    Filt.keepAll (forVar x l) (ρ x) = true := by
  rw [keepAll_eq]
  apply List.all_eq_true.mpr
  intro f hf
  simp only [forVar, List.mem_map, List.mem_filter] at hf
  obtain ⟨e, ⟨he, hx⟩, rfl⟩ := hf
  have := h e he
  have hx' : e.1 = x := by simpa using hx
  rw [hx'] at this
  exact this

/-- `OrConstraint.apply`: if one operand's constraints all keep the values, so do the `one_of` constraints -/
theorem orApply_keeps (ρ : Var → Lit) (ls : List (List (Var × Filt))) (h : ∃ l ∈ ls, Keeps ρ l) :
    Keeps ρ (orApply ls) := by
  cases ls with
  | nil => intro e he; simp [orApply] at he
  | cons left rest =>
    intro e he
    simp only [orApply, List.mem_map, List.mem_filter] at he
    obtain ⟨x, _, rfl⟩ := he
    simp only [Filt.keep, Filt.keepAny]
    obtain ⟨l, hl, hk⟩ := h
    rcases List.mem_cons.mp hl with rfl | hl
    · simp [forVar_keepAll ρ x l hk]
    · apply Bool.or_eq_true_iff.mpr
      right
      rw [keepAny_eq]
      apply List.any_eq_true.mpr
      exact ⟨Filt.allOf (forVar x l), List.mem_map.mpr ⟨l, hl, rfl⟩, by simp [Filt.keep, forVar_keepAll ρ x l hk]⟩

mutual
theorem apply_sound (ρ : Var → Lit) (ω : Nat → Bool) :
    ∀ c : Con, c.holds ρ ω = true → Keeps ρ c.apply
  | .opq _ _, _ => by intro e he; simp [Con.apply] at he
  | .atom x p pos, h => by
    intro e he
    simp only [Con.apply, List.mem_singleton] at he
    subst he
    simp only [Con.holds] at h
    simpa [Filt.keep] using Pred.keep_of_sem p pos (ρ x) h
  | .and cs, h => by
    intro e he
    simp only [Con.apply, List.mem_flatten] at he
    obtain ⟨l, hl, hel⟩ := he
    simp only [Con.holds] at h
    exact applyL_all ρ ω cs h l hl e hel
  | .or cs, h => by
    simp only [Con.holds] at h
    simp only [Con.apply]
    exact orApply_keeps ρ _ (applyL_any ρ ω cs h)
theorem applyL_all (ρ : Var → Lit) (ω : Nat → Bool) :
    ∀ cs : List Con, Con.holdsAll ρ ω cs = true → ∀ l ∈ Con.applyL cs, Keeps ρ l
  | [], _ => by intro l hl; simp [Con.applyL] at hl
  | c :: cs, h => by
    simp only [Con.holdsAll, Bool.and_eq_true] at h
    intro l hl
    simp only [Con.applyL, List.mem_cons] at hl
    rcases hl with rfl | hl
    · exact apply_sound ρ ω c h.1
    · exact applyL_all ρ ω cs h.2 l hl
theorem applyL_any (ρ : Var → Lit) (ω : Nat → Bool) :
    ∀ cs : List Con, Con.holdsAny ρ ω cs = true → ∃ l ∈ Con.applyL cs, Keeps ρ l
  | [], h => by simp [Con.holdsAny] at h
  | c :: cs, h => by
    simp only [Con.holdsAny, Bool.or_eq_true] at h
    rcases h with h | h
    · exact ⟨c.apply, by simp [Con.applyL], apply_sound ρ ω c h⟩
    · obtain ⟨l, hl, hk⟩ := applyL_any ρ ω cs h
      exact ⟨l, by simp [Con.applyL, hl], hk⟩
end

theorem narrow_sound (ρ : Var → Lit) (sc : Scope) (fs : List (Var × Filt)) (hs : sc.has ρ) (hk : Keeps ρ fs) :
    (narrow sc fs).has ρ := by
  intro e he
  simp only [narrow, List.mem_map] at he
  obtain ⟨e0, he0, rfl⟩ := he
  simp only [List.mem_filter]
  refine ⟨hs e0 he0, ?_⟩
  have := forVar_keepAll ρ e0.1 fs hk
  rw [keepAll_eq] at this
  exact this

/-- the branch that is taken keeps the run-time values -/
theorem branches_sound (ρ : Var → Lit) (ω : Nat → Bool) (sc : Scope) (t : Test) (hs : sc.has ρ) :
    (t.eval ρ ω = true → (t.branches sc).1.has ρ) ∧ (t.eval ρ ω = false → (t.branches sc).2.has ρ) := by
  constructor
  · intro h
    exact narrow_sound ρ sc _ hs (apply_sound ρ ω t.con h)
  · intro h
    refine narrow_sound ρ sc _ hs (apply_sound ρ ω t.con.invert ?_)
    rw [holds_invert]
    simp only [Test.eval] at h
    simp [h]

/-- `not t` swaps the branches' run-time meaning -/
theorem eval_tnot (ρ : Var → Lit) (ω : Nat → Bool) (t : Test) : (Test.tnot t).eval ρ ω = !t.eval ρ ω := by
  simp [Test.eval, Test.con, holds_invert]

/-! ## a non-narrowing link switches the else-branch narrowing off -/

theorem orApply_nil_of_mem (ls : List (List (Var × Filt))) (h : [] ∈ ls) : orApply ls = [] := by
  cases ls with
  | nil => rfl
  | cons left rest =>
    rcases List.mem_cons.mp h with h | h
    · subst h; simp [orApply]
    · simp only [orApply, List.map_eq_nil_iff, List.filter_eq_nil_iff]
      intro x _
      simp only [List.all_eq_true]
      intro hall
      have := hall [] h
      simp at this

theorem nil_mem_applyL_invertL_linkCons : ∀ (ls : List Link) (i : Nat), Link.opaque ∈ ls →
    [] ∈ Con.applyL (Con.invertL (linkCons i ls))
  | [], _, h => by simp at h
  | .opaque :: ls, i, _ => by simp [linkCons, Con.invertL, Con.applyL, Con.invert, Con.apply]
  | .narrowing x p pos :: ls, i, h => by
    have h' : Link.opaque ∈ ls := by simpa using h
    simp only [linkCons, Con.invertL, Con.applyL, List.mem_cons]
    exact Or.inr (nil_mem_applyL_invertL_linkCons ls (i + 1) h')

/-- a chain with a link that narrows nothing narrows nothing in its else-branch -/
theorem chain_invert_apply_nil (ls : List Link) (h : Link.opaque ∈ ls) : (chainCon ls).invert.apply = [] := by
  simp only [chainCon, Con.invert, Con.apply]
  exact orApply_nil_of_mem _ (nil_mem_applyL_invertL_linkCons ls 0 h)

theorem narrow_nil (sc : Scope) : narrow sc [] = sc := by
  have hf : ∀ l : List Lit, l.filter (fun _ => true) = l := by
    intro l; induction l with
    | nil => rfl
    | cons a l ih => simp
  simp only [narrow, forVar, List.filter_nil, List.map_nil, List.all_nil, hf]
  induction sc with
  | nil => rfl
  | cons e sc ih => simp

/-- … so the else-branch scope of such a chain is the scope before the test -/
theorem chain_else_unchanged (sc : Scope) (ls : List Link) (h : Link.opaque ∈ ls) :
    ((Test.chain ls).branches sc).2 = sc := by
  simp only [Test.branches, Test.con, chain_invert_apply_nil ls h, narrow_nil]

end Pya.C01.Chain
