import PyaModel.Core.Composite
/-!
# Proofs/C01Composite — the invalidation invariant of the composite bookkeeping
-/
namespace Pya.C01

/-- With the bounds of the code (`range(1, len)`), a composite is recorded under EVERY proper prefix of its
attribute path — the root, the parent, the grand-parent, … at every depth. (Induction over the path is hidden in
`List.mem_range'` / `List.take`; the statement quantifies over paths of any length.) -/
theorem recorded_under_proper_prefix (c p : CPath) (h : properPrefix p c = true) :
    p ∈ recordedUnder 1 0 c := by
  simp only [properPrefix, Bool.and_eq_true, decide_eq_true_eq, beq_iff_eq] at h
  obtain ⟨hl, ht⟩ := h
  have hc : c.isEmpty = false := by
    cases c with
    | nil => simp at hl
    | cons _ _ => rfl
  unfold recordedUnder
  simp only [hc, Bool.false_eq_true, if_false]
  by_cases hp : p.length = 0
  · have : p = [] := List.length_eq_zero_iff.mp hp
    subst this
    simp
  · have h1 : c.length > 1 := by omega
    simp only [h1, if_true, List.mem_cons, List.mem_map, List.mem_range']
    refine Or.inr ⟨p.length, ⟨p.length - 1, by omega, by omega⟩, ht⟩

/-- every live composite is recorded under all the prefixes `_add_composite` assigns to it -/
def CompState.wf (lo hiOff : Nat) (st : CompState) : Prop :=
  ∀ c ∈ st.live, ∀ p ∈ recordedUnder lo hiOff c, (p, c) ∈ st.reg

theorem wf_empty (lo hiOff : Nat) : CompState.wf lo hiOff ⟨[], []⟩ := by
  intro c hc; simp at hc

theorem wf_touch (lo hiOff : Nat) (st : CompState) (c : CPath) (h : st.wf lo hiOff) :
    (st.touch lo hiOff c).wf lo hiOff := by
  intro d hd p hp
  simp only [CompState.touch, CompState.addComposite, List.mem_cons] at hd ⊢
  rcases hd with rfl | hd
  · exact List.mem_append_right _ (List.mem_map.mpr ⟨p, hp, rfl⟩)
  · exact List.mem_append_left _ (h d hd p hp)

theorem wf_assign (lo hiOff : Nat) (st : CompState) (q : CPath) (h : st.wf lo hiOff) :
    (st.assign lo hiOff q).wf lo hiOff := by
  intro d hd p hp
  simp only [CompState.assign, CompState.addComposite] at hd ⊢
  have hcase : d = q ∨ d ∈ st.live := by
    by_cases hq : q.isEmpty = true
    · simp only [hq, if_true, List.mem_filter] at hd
      exact Or.inr hd.1
    · simp only [hq, Bool.false_eq_true, if_false, List.mem_cons, List.mem_filter] at hd
      rcases hd with rfl | hd
      · exact Or.inl rfl
      · exact Or.inr hd.1
  rcases hcase with rfl | hd'
  · exact List.mem_append_right _ (List.mem_map.mpr ⟨p, hp, rfl⟩)
  · exact List.mem_append_left _ (h d hd' p hp)

/-- **The invalidation invariant.** In a well-formed state, assigning to `p` leaves no live composite that has `p`
as a proper prefix — at every depth. -/
theorem assign_invalidates (st : CompState) (p c : CPath) (h : st.wf 1 0) (hp : properPrefix p c = true) :
    c ∉ (st.assign 1 0 p).live := by
  intro hc
  simp only [CompState.assign, CompState.addComposite] at hc
  have hne : c ≠ p := by
    intro e; subst e
    simp [properPrefix] at hp
  have hc' : c ∈ st.live.filter fun c => !(st.reg.any fun pc => pc.1 == p && pc.2 == c) := by
    by_cases hq : p.isEmpty = true
    · simpa [hq] using hc
    · simp only [hq, Bool.false_eq_true, if_false, List.mem_cons] at hc
      rcases hc with e | hc
      · exact absurd e hne
      · exact hc
  rw [List.mem_filter] at hc'
  obtain ⟨hl, hn⟩ := hc'
  have hreg := h c hl p (recorded_under_proper_prefix c p hp)
  have : (st.reg.any fun pc => pc.1 == p && pc.2 == c) = true :=
    List.any_eq_true.mpr ⟨(p, c), hreg, by simp⟩
  simp [this] at hn

end Pya.C01
