import PyaModel.Spec.NarrowSpec
import PyaModel.Spec.WF
import PyaModel.Proofs.C14
/-!
# Proofs/C02 — helper lemmas for the narrowing theorems

Sections: (1) objects: structural equality, `==` versus truthiness / length / class;
(2) membership through `unann`, `flatten1`, `unite`; (3) sequence forms; (4) the table laws in
usable form; (5) boolability; (6) one lemma per constraint kind ("the member that contains the object
is kept"); (7) the no-widening lemmas; (8) constraint algebra.
-/
set_option linter.unusedSimpArgs false
namespace Pya.C02

/-! ### 1. objects -/

theorem objDeqL_eq_of (xs : List Obj) (h : ∀ x ∈ xs, ∀ y, objDeq x y = true → x = y) :
    ∀ ys, objDeqL xs ys = true → xs = ys := by
  induction xs with
  | nil => intro ys; cases ys <;> simp [objDeqL]
  | cons x xs ih =>
    intro ys
    cases ys with
    | nil => simp [objDeqL]
    | cons y ys =>
      simp only [objDeqL, Bool.and_eq_true, List.cons.injEq]
      intro ⟨h1, h2⟩
      exact ⟨h x (by simp) y h1, ih (fun x' hx' => h x' (by simp [hx'])) ys h2⟩

/-- structural equality is equality -/
theorem objDeq_eq (a : Obj) : ∀ b, objDeq a b = true → a = b := by
  induction a using Obj.ind' with
  | tuple xs ih | list xs ih | set xs ih | fset xs ih =>
    intro b h
    cases b <;> simp only [objDeq, Bool.false_eq_true] at h
    rw [objDeqL_eq_of _ ih _ h]
  | dict ks vs ihk ihv =>
    intro b h
    cases b <;> simp only [objDeq, Bool.false_eq_true, Bool.and_eq_true] at h
    rw [objDeqL_eq_of _ ihk _ h.1, objDeqL_eq_of _ ihv _ h.2]
  | _ => intro b h; cases b <;> simp_all [objDeq]

theorem pyEqList_length : ∀ (xs ys : List Obj), Obj.pyEqList xs ys = true → xs.length = ys.length
  | [], [] => by simp
  | [], _ :: _ => by simp [Obj.pyEqList]
  | _ :: _, [] => by simp [Obj.pyEqList]
  | _ :: xs, _ :: ys => by
    simp only [Obj.pyEqList, Bool.and_eq_true, List.length_cons]
    intro ⟨_, h⟩; rw [pyEqList_length xs ys h]

theorem isEmpty_of_length_eq {α β} {xs : List α} {ys : List β} (h : xs.length = ys.length) :
    xs.isEmpty = ys.isEmpty := by
  cases xs <;> cases ys <;> simp_all

/-- equal objects are both true or both false -/
theorem pyEq_truthy {a b : Obj} (h : Obj.pyEq a b = true) : truthy a = truthy b := by
  cases a <;> cases b <;> simp only [Obj.pyEq, Bool.false_eq_true, Bool.and_eq_true] at h <;>
    simp only [truthy]
  all_goals first
    | (have := pyEqList_length _ _ h; rw [isEmpty_of_length_eq this])
    | (have := pyEqList_length _ _ h.1; rw [isEmpty_of_length_eq this])
    | (simp only [beq_iff_eq] at h; subst h; rfl)
    | grind

theorem same_tag {a b : Obj} (h : Obj.same a b = true) : a.tag = b.tag := by
  simp only [Obj.same, Bool.and_eq_true, beq_iff_eq] at h; exact h.1

theorem same_pyEq {a b : Obj} (h : Obj.same a b = true) : Obj.pyEq a b = true := by
  simp only [Obj.same, Bool.and_eq_true] at h; exact h.2

theorem same_truthy {a b : Obj} (h : Obj.same a b = true) : truthy a = truthy b :=
  pyEq_truthy (same_pyEq h)

/-- `type(a) is type(b)` for same objects -/
theorem same_clsOf (tbl : ClassTable) {a b : Obj} (h : Obj.same a b = true) :
    clsOf tbl a = clsOf tbl b := by
  have ht := same_tag h
  have hp := same_pyEq h
  cases a <;> cases b <;> simp only [Obj.tag] at ht <;> try omega
  all_goals simp only [clsOf]
  all_goals simp_all [Obj.pyEq]

/-- same objects have the same length -/
theorem same_objLen {a b : Obj} (h : Obj.same a b = true) : objLen a = objLen b := by
  have ht := same_tag h
  have hp := same_pyEq h
  cases a <;> cases b <;> simp only [Obj.tag] at ht <;> try omega
  all_goals simp only [objLen]
  all_goals simp only [Obj.pyEq, Bool.and_eq_true, beq_iff_eq] at hp
  all_goals first
    | rfl
    | (subst hp; rfl)
    | (rw [pyEqList_length _ _ hp])
    | (rw [pyEqList_length _ _ hp.1])

/-- for singletons `is` determines the object -/
theorem singleton_eq (tbl : ClassTable) {o l : Obj} (hs : isSingleton tbl l = true)
    (h : Obj.same o l = true) : o = l := by
  have ht := same_tag h
  have hp := same_pyEq h
  cases l <;> simp only [isSingleton, Bool.false_eq_true] at hs <;>
    cases o <;> simp only [Obj.tag] at ht <;> (try omega) <;> simp_all [Obj.pyEq]

theorem CmpOp.mirror_eval (op : CmpOp) (a b : Int) : op.mirror.eval a b = op.eval b a := by
  cases op <;> simp only [CmpOp.mirror, CmpOp.eval] <;> grind

theorem CmpOp.neg_eval (op : CmpOp) (a b : Int) : op.neg.eval a b = !op.eval a b := by
  cases op <;> simp only [CmpOp.neg, CmpOp.eval] <;> grind

/-! ### 2. membership through `unann`, `flatten1`, `unite` -/

theorem mem_unann (tbl : ClassTable) (o : Obj) (m : Ty) : mem tbl o (unann m) = mem tbl o m := by
  cases m <;> simp [unann, mem]

theorem mem_unannAll (tbl : ClassTable) (o : Obj) : ∀ m : Ty, mem tbl o (unannAll m) = mem tbl o m
  | .annotated t => by rw [unannAll, mem_unannAll tbl o t]; simp [mem]
  | .any | .known _ | .typed _ | .newtype _ _ | .generic _ _ | .seq _ _ | .many _ | .union _
  | .subclass _ | .tvar _ => by simp [unannAll]

theorem memAny_iff (tbl : ClassTable) (o : Obj) (ts : List Ty) :
    memAny tbl o ts = true ↔ ∃ t ∈ ts, mem tbl o t = true := by
  rw [memAny_eq_any]; simp

theorem mem_iff_member (tbl : ClassTable) (o : Obj) (v : Ty) :
    mem tbl o v = true ↔ ∃ m ∈ flatten1 v, mem tbl o m = true := by
  rw [← memAny_flatten1, memAny_iff]

theorem mem_unite_iff (tbl : ClassTable) (o : Obj) (vs : List Ty) :
    mem tbl o (unite vs) = true ↔ ∃ v ∈ vs, mem tbl o v = true := by
  rw [unite_mem']; simp

theorem mem_never (tbl : ClassTable) (o : Obj) : mem tbl o Ty.never = false := by
  simp [Ty.never, mem, memAny]

/-- membership in the result of `_constrain_value`: some produced value contains the object -/
theorem mem_constrainKs_iff (tbl : ClassTable) (T : BoolTable) (o : Obj) (v : Ty) (ks : List K) :
    mem tbl o (constrainKs tbl T v ks) = true ↔
      ∃ r ∈ applySeq tbl T ks (flatten1 v), mem tbl o r = true := by
  unfold constrainKs
  cases hl : applySeq tbl T ks (flatten1 v) with
  | nil => simp [mem_never]
  | cons r rs => simp only [mem_unite_iff]

theorem applySeq_single (tbl : ClassTable) (T : BoolTable) (k : K) (vs : List Ty) :
    applySeq tbl T [k] vs = vs.flatMap fun v => applyK tbl T k v := by
  simp [applySeq]

/-! ### 3. sequence forms -/

theorem matchSeq_length (tbl : ClassTable) : ∀ (ms : List Ty) (xs : List Obj),
    hasManyMember ms = false → matchSeq tbl xs ms = true → xs.length = ms.length
  | [], xs, _, h => by cases xs <;> simp_all [matchSeq]
  | m :: ms, xs, hm, h => by
    cases m with
    | many t => simp [hasManyMember] at hm
    | _ =>
      cases xs with
      | nil => simp [matchSeq] at h
      | cons x xs =>
        simp only [hasManyMember] at hm
        simp only [matchSeq, Bool.and_eq_true] at h
        simp [matchSeq_length tbl ms xs hm h.2]

theorem matchSeq_nonempty (tbl : ClassTable) : ∀ (ms : List Ty) (xs : List Obj),
    isManyAll ms = false → matchSeq tbl xs ms = true → xs ≠ []
  | [], _, hm, _ => by simp [isManyAll] at hm
  | m :: ms, xs, hm, h => by
    cases m with
    | many t =>
      simp only [isManyAll] at hm
      cases xs with
      | nil =>
        simp only [matchSeq, Bool.or_false] at h
        exact absurd rfl (matchSeq_nonempty tbl ms [] hm h)
      | cons x xs => simp
    | _ => cases xs <;> simp_all [matchSeq]

/-- the members of a sequence form are tuples / lists matching the member pattern -/
theorem mem_seq_elems (tbl : ClassTable) {o : Obj} {c : Cls} {ms : List Ty}
    (h : mem tbl o (.seq c ms) = true) :
    ∃ xs, (o = .tuple xs ∨ o = .list xs) ∧ matchSeq tbl xs ms = true := by
  simp only [mem, Bool.and_eq_true] at h
  cases o <;> simp only [memSeq, Bool.false_eq_true, and_false] at h
  · exact ⟨_, Or.inl rfl, h.2⟩
  · exact ⟨_, Or.inr rfl, h.2⟩

/-! ### 4. the table laws in usable form -/

structure NLaws (tbl : ClassTable) (T : BoolTable) : Prop where
  boolDown : ∀ d, sub tbl d C.bool = true → d = C.bool
  boolRefl : tbl.issub C.bool C.bool = true
  boolUser : tbl.isUser C.bool = false
  boolMeta : ∀ k ∈ tbl.metaL, k ≠ C.bool
  enum : ∀ e, tbl.isEnum e = true → tbl.isUser e = true →
    14 ≤ e ∧ tbl.issub e e = true ∧ (∀ k ∈ tbl.metaL, k ≠ e) ∧ ∀ d, sub tbl d e = true → d = e
  typeBool : ∀ c, T.typeBool c = .erroring ∨ T.typeBool c = .boolable ∨ T.typeBool c = .typeTrue

theorem issub_lt {tbl : ClassTable} {d e : Cls} (h : tbl.issub d e = true) :
    d < tbl.issubM.length := by
  unfold ClassTable.issub at h
  by_cases hd : d < tbl.issubM.length
  · exact hd
  · have : tbl.issubM[d]? = none := List.getElem?_eq_none (Nat.le_of_not_lt ‹_›)
    simp [List.getD_eq_getElem?_getD, this] at h

theorem sub_lt {tbl : ClassTable} {d e : Cls} (h : sub tbl d e = true) : d < tbl.issubM.length := by
  simp only [sub, Bool.or_eq_true, Bool.and_eq_true] at h
  rcases h with (h | h) | h
  · exact issub_lt h
  · exact issub_lt h.1
  · exact issub_lt h.1

theorem isEnum_lt {tbl : ClassTable} {e : Cls} (h : tbl.isEnum e = true) : e < tbl.enumL.length := by
  unfold ClassTable.isEnum at h
  by_cases hd : e < tbl.enumL.length
  · exact hd
  · have : tbl.enumL[e]? = none := List.getElem?_eq_none (Nat.le_of_not_lt ‹_›)
    simp [List.getD_eq_getElem?_getD, this] at h

theorem nlaws_of (tbl : ClassTable) (T : BoolTable) (h : narrowLaws tbl T = true) : NLaws tbl T := by
  simp only [narrowLaws, Bool.and_eq_true, allBelow_iff, Bool.or_eq_true,
    beq_iff_eq, List.all_eq_true, bne_iff_ne, ne_eq, decide_eq_true_eq, Bool.not_eq_eq_eq_not,
    Bool.not_true, Bool.and_eq_false_iff] at h
  obtain ⟨⟨⟨⟨⟨h1, h2⟩, h3⟩, h4⟩, h5⟩, h6⟩ := h
  refine ⟨?_, h2, h3, h4, ?_, ?_⟩
  · intro d hd
    rcases h1 d (sub_lt hd) with h | h
    · rw [h] at hd; cases hd
    · exact h
  · intro e he hu
    rcases h5 e (isEnum_lt he) with h | h
    · rcases h with h | h <;> simp_all
    · refine ⟨h.1.1.1, h.1.1.2, h.1.2, ?_⟩
      intro d hd
      rcases h.2 d (sub_lt hd) with h' | h'
      · rw [h'] at hd; cases hd
      · exact h'
  · intro c
    unfold BoolTable.typeBool
    by_cases hc : c < T.typeBoolL.length
    · have := h6 _ (List.getElem_mem hc)
      have he : T.typeBoolL.getD c 2 = T.typeBoolL[c] := by
        simp [List.getD_eq_getElem?_getD, List.getElem?_eq_getElem hc]
      rw [he]
      rcases this with (h | h) | h <;> rw [h] <;> simp [Boolab.ofCode]
    · have : T.typeBoolL[c]? = none := List.getElem?_eq_none (Nat.le_of_not_lt ‹_›)
      simp [List.getD_eq_getElem?_getD, this, Boolab.ofCode]

theorem metaOf_ne {tbl : ClassTable} {k : Cls} (h : ∀ x ∈ tbl.metaL, x ≠ k) (hk : k ≠ C.type)
    (c : Cls) : tbl.metaOf c ≠ k := by
  unfold ClassTable.metaOf
  by_cases hc : c < tbl.metaL.length
  · have he : tbl.metaL.getD c C.type = tbl.metaL[c] := by
      simp [List.getD_eq_getElem?_getD, List.getElem?_eq_getElem hc]
    rw [he]; exact h _ (List.getElem_mem hc)
  · have : tbl.metaL[c]? = none := List.getElem?_eq_none (Nat.le_of_not_lt hc)
    simp only [List.getD_eq_getElem?_getD, this, Option.getD_none]
    exact fun e => hk e.symm

/-- the objects of type `bool` are the two booleans -/
theorem bool_of_mem {tbl : ClassTable} {T : BoolTable} (L : NLaws tbl T) {o : Obj}
    (ho : o.wf tbl = true) (h : mem tbl o (.typed C.bool) = true) : ∃ b, o = .bool b := by
  simp only [mem] at h
  have hc := L.boolDown _ h
  cases o with
  | bool b => exact ⟨b, rfl⟩
  | inst c i =>
    simp only [clsOf] at hc
    simp only [Obj.wf, Bool.and_eq_true] at ho
    rw [hc, L.boolUser] at ho; simp at ho
  | cls c => exact absurd hc (metaOf_ne L.boolMeta (by decide) _)
  | _ => exact absurd hc (by simp only [clsOf]; decide)

/-- the objects of an Enum class of the universe are its members -/
theorem enum_of_mem {tbl : ClassTable} {T : BoolTable} (L : NLaws tbl T) {o : Obj} {e : Cls}
    (he : tbl.isEnum e = true) (hu : tbl.isUser e = true)
    (h : mem tbl o (.typed e) = true) : ∃ j, o = .inst e j := by
  simp only [mem] at h
  obtain ⟨h14, _, hmeta, hdown⟩ := L.enum e he hu
  have hc := hdown _ h
  cases o with
  | inst c i => simp only [clsOf] at hc; exact ⟨i, by rw [hc]⟩
  | cls c => exact absurd hc (metaOf_ne hmeta (by intro h; subst h; revert h14; decide) _)
  | _ => exfalso; simp only [clsOf] at hc; subst hc; revert h14; decide

theorem issub_sub {tbl : ClassTable} {a e : Cls} (h : tbl.issub a e = true) : sub tbl a e = true := by
  simp [sub, h]

/-! ### 5. boolability -/

theorem falsy_cls (tbl : ClassTable) {o : Obj} (h : truthy o = false) :
    clsOf tbl o ∈ falsyClasses := by
  cases o <;> simp only [truthy, Bool.true_eq_false] at h <;> simp [clsOf, falsyClasses]

/-- a member whose boolability is "always false" (mutable or not) only has falsy objects -/
theorem boolNoMvv_false_sound {tbl : ClassTable} {T : BoolTable} (L : NLaws tbl T) {m : Ty} {o : Obj}
    (hb : boolNoMvv tbl T m = .vaFalse ∨ boolNoMvv tbl T m = .vaFalseMut)
    (hm : mem tbl o m = true) : truthy o = false := by
  rw [← mem_unannAll] at hm
  unfold boolNoMvv at hb
  generalize unannAll m = u at hb hm
  cases u with
  | seq c ms =>
    obtain ⟨xs, hx, hmatch⟩ := mem_seq_elems tbl hm
    simp only at hb
    split at hb
    · rename_i he
      have : ms = [] := by cases ms <;> simp_all
      subst this
      have : xs = [] := by cases xs <;> simp_all [matchSeq]
      rcases hx with hx | hx <;> simp [hx, this, truthy]
    · split at hb <;> (try split at hb) <;> rcases hb with hb | hb <;> cases hb
  | known k =>
    simp only [mem] at hm
    rw [same_truthy hm]
    cases k <;> simp only at hb
    case tuple xs | list xs | set xs =>
      split at hb
      · rename_i he; simp [truthy, he]
      · rcases hb with hb | hb <;> cases hb
    case dict ks vs =>
      split at hb
      · rename_i he; simp [truthy, he]
      · rcases hb with hb | hb <;> cases hb
    all_goals
      split at hb
      · split at hb <;> rcases hb with hb | hb <;> cases hb
      · rename_i ht; simpa using ht
  | typed c | newtype _ c | generic c _ =>
    simp only at hb
    rcases L.typeBool c with h | h | h <;> rw [h] at hb <;> rcases hb with hb | hb <;> cases hb
  | _ => simp only at hb; rcases hb with hb | hb <;> cases hb

/-- a member whose boolability is "always true" only has truthy objects, unless its class is one of
the always-true classes with a falsy class below (`leakM`) -/
theorem boolNoMvv_true_sound {tbl : ClassTable} {T : BoolTable} {m : Ty} {o : Obj}
    (hb : (boolNoMvv tbl T m).safelyTrue = true) (hl : leakM tbl T m = false)
    (hm : mem tbl o m = true) : truthy o = true := by
  rw [← mem_unannAll] at hm
  unfold boolNoMvv at hb
  unfold leakM at hl
  generalize unannAll m = u at hb hm hl
  cases u with
  | seq c ms =>
    obtain ⟨xs, hx, hmatch⟩ := mem_seq_elems tbl hm
    simp only at hb
    split at hb
    · split at hb <;> cases hb
    · split at hb
      · cases hb
      · rename_i hne hmany
        have := matchSeq_nonempty tbl ms xs (by simpa using hmany) hmatch
        rcases hx with hx | hx <;> cases xs <;> simp_all [truthy]
  | known k =>
    simp only [mem] at hm
    rw [same_truthy hm]
    cases k <;> simp only at hb
    case tuple xs | list xs | set xs =>
      split at hb
      · cases hb
      · rename_i he; simpa [truthy] using he
    case dict ks vs =>
      split at hb
      · cases hb
      · rename_i he; simpa [truthy] using he
    all_goals
      split at hb
      · assumption
      · split at hb <;> cases hb
  | subclass c =>
    cases o <;> simp only [mem, Bool.false_eq_true] at hm
    rfl
  | typed c | newtype _ c | generic c _ =>
    simp only [typedHead, hb, Bool.true_and] at hb hl
    cases ht : truthy o with
    | true => rfl
    | false =>
      exfalso
      have hf := falsy_cls tbl ht
      rw [Bool.eq_false_iff, ne_eq, List.any_eq_true] at hl
      apply hl
      refine ⟨_, hf, ?_⟩
      simp only [mem, Bool.and_eq_true, beq_iff_eq] at hm
      simp only [Bool.or_eq_true, beq_iff_eq]
      first
        | exact Or.inr hm
        | exact Or.inl hm
        | exact Or.inr hm.1
  | _ => simp only at hb; cases hb

theorem safelyFalse_iff (b : Boolab) : b.safelyFalse = true ↔ b = .vaFalse := by
  cases b <;> simp [Boolab.safelyFalse]

theorem unannAll_idem (m : Ty) : unannAll (unannAll m) = unannAll m := by
  induction m using Ty.ind' <;> simp_all [unannAll]

/-- for a member that is not a union, `get_boolability` is `_get_boolability_no_mvv` -/
theorem getBool_member (tbl : ClassTable) (T : BoolTable) {m : Ty} (h : memberOk m = true) :
    getBool tbl T (unann m) = boolNoMvv tbl T m := by
  have hu : unannAll m = unann m ∧ (∀ ts, unann m ≠ .union ts) := by
    unfold memberOk at h
    cases m with
    | annotated t => cases t <;> simp_all [unann, unannAll]
    | _ => simp_all [unann, unannAll]
  have h2 : unannAll (unann m) = unann m := by rw [← hu.1, unannAll_idem]
  unfold getBool
  rw [h2]
  have : boolNoMvv tbl T (unann m) = boolNoMvv tbl T m := by
    unfold boolNoMvv; rw [h2, hu.1]
  cases hm : unann m with
  | union ts => exact absurd hm (hu.2 ts)
  | _ => simp only [← hm, this]

/-! ### 6. one lemma per constraint kind: the member that contains the object is kept -/

/-- some value produced from the member `m` by the constraint contains the object -/
def Kept (tbl : ClassTable) (T : BoolTable) (k : K) (o : Obj) (m : Ty) : Prop :=
  ∃ r ∈ applyK tbl T k m, mem tbl o r = true

theorem kept_isAssignable_pos {tbl : ClassTable} {T : BoolTable} {pat m : Ty} {po : Bool} {o : Obj}
    (hov : overlapping tbl pat m = true) (hp : mem tbl o pat = true) (hm : mem tbl o m = true) :
    Kept tbl T (.predicate (.isAssignable pat po) true) o m := by
  unfold Kept
  simp only [applyK, applyPred, hov, Bool.not_true, Bool.false_eq_true, if_false, if_true]
  by_cases h1 : ca tbl false pat m = true
  · by_cases h2 : univAssignable m (unann pat) = true <;> simp [h1, h2, hp, hm]
  · simp [h1, hp]

theorem kept_isAssignable_neg {tbl : ClassTable} {T : BoolTable} {pat m : Ty} {po : Bool} {o : Obj}
    (hd : (!po && ca tbl false pat m && !univAssignable m (unann pat)) = false)
    (hm : mem tbl o m = true) :
    Kept tbl T (.predicate (.isAssignable pat po) false) o m := by
  unfold Kept
  simp only [applyK, applyPred, Bool.false_eq_true, if_false, hd]
  simp [hm]

theorem kept_isValueObject {tbl : ClassTable} {T : BoolTable} {t m : Ty} {pos : Bool} {o : Obj}
    (hp : pos = true → mem tbl o t = true) (hm : mem tbl o m = true) :
    Kept tbl T (.isValueObject t pos) o m := by
  unfold Kept
  cases pos <;> simp_all [applyK]

theorem kept_isTruthy_pos {tbl : ClassTable} {T : BoolTable} (L : NLaws tbl T) {m : Ty} {o : Obj}
    (hok : memberOk m = true) (ht : truthy o = true) (hm : mem tbl o m = true) :
    Kept tbl T (.isTruthy true) o m := by
  unfold Kept
  simp only [applyK, if_true, getBool_member tbl T hok]
  cases hb : (boolNoMvv tbl T m).safelyFalse with
  | false => simp [hm]
  | true =>
    rw [safelyFalse_iff] at hb
    have := boolNoMvv_false_sound L (Or.inl hb) hm
    rw [ht] at this; cases this

theorem kept_isTruthy_neg {tbl : ClassTable} {T : BoolTable} {m : Ty} {o : Obj}
    (hd : ((getBool tbl T (unann m)).safelyTrue && !truthy o) = false) (ht : truthy o = false)
    (hm : mem tbl o m = true) : Kept tbl T (.isTruthy false) o m := by
  unfold Kept
  simp only [applyK, Bool.false_eq_true, if_false]
  simp only [ht, Bool.not_false, Bool.and_true] at hd
  simp [hd, hm]

theorem ite_list_nil {α} {c : Prop} [Decidable c] {x : α} : (if c then [x] else ([] : List α)) = [] ↔ ¬c := by
  by_cases h : c <;> simp [h]

theorem kept_isInstance_pos {tbl : ClassTable} {T : BoolTable} {c : Cls} {tst m : Ty} {o : Obj}
    (hok : memberOk m = true) (hh : tbl.issub (clsOf tbl o) c = true)
    (hd : dK tbl T (.isInstance c true) tst o m = []) (hm : mem tbl o m = true) :
    Kept tbl T (.isInstance c true) o m := by
  have hm' := hm
  rw [← mem_unann] at hm'
  have hc : mem tbl o (.typed c) = true := by simp [mem, issub_sub hh]
  unfold Kept
  unfold memberOk at hok
  simp only [dK, applyK, if_true] at hd ⊢
  generalize unann m = u at hd hm' hok ⊢
  cases u with
  | any => simp [hc]
  | known k =>
    simp only [mem] at hm'
    simp [← same_clsOf tbl hm', hh, hm]
  | subclass d =>
    simp only [ite_list_nil, Bool.not_eq_true', Bool.not_eq_false] at hd
    simp [hd, hm]
  | typed d | newtype _ d | generic d _ | seq d _ =>
    simp only [typOf?, ite_list_nil, Bool.and_eq_true, Bool.not_eq_true', not_and, Bool.not_eq_false] at hd ⊢
    by_cases h1 : tbl.issub d c = true
    · simp [h1, hm]
    · simp only [h1, Bool.false_eq_true, if_false]
      simp [hd (by simpa using h1), hc]
  | annotated _ | union _ => simp at hok
  | many _ | tvar _ => simp [mem] at hm'

theorem kept_isInstance_neg {tbl : ClassTable} {T : BoolTable} {c : Cls} {tst m : Ty} {o : Obj}
    (hok : memberOk m = true) (hh : tbl.issub (clsOf tbl o) c = false)
    (hd : dK tbl T (.isInstance c false) tst o m = []) (hm : mem tbl o m = true) :
    Kept tbl T (.isInstance c false) o m := by
  have hm' := hm
  rw [← mem_unann] at hm'
  unfold Kept
  unfold memberOk at hok
  simp only [dK, applyK, Bool.false_eq_true, if_false] at hd ⊢
  generalize unann m = u at hd hm' hok ⊢
  cases u with
  | any => simp [mem]
  | known k =>
    simp only [mem] at hm'
    simp [← same_clsOf tbl hm', hh, hm]
  | subclass d =>
    by_cases h1 : tbl.issub (tbl.metaOf d) c = true
    · simp only [h1, if_true] at hd; split at hd <;> cases hd
    · simp [h1, hm]
  | typed d | newtype _ d | generic d _ | seq d _ =>
    simp only [typOf?] at hd ⊢
    by_cases h1 : tbl.issub d c = true
    · simp only [h1, if_true] at hd; split at hd <;> cases hd
    · simp [h1, hm]
  | annotated _ | union _ => simp at hok
  | many _ | tvar _ => simp [mem] at hm'

theorem mem_known_self (tbl : ClassTable) (l : Obj) : mem tbl l (.known l) = true := by
  simp [mem, Obj.same_refl]

theorem kept_isValue_pos {tbl : ClassTable} {T : BoolTable} {l : Obj} {tst m : Ty}
    (hok : memberOk m = true)
    (hd : dK tbl T (.isValue l true) tst l m = []) (hm : mem tbl l m = true) :
    Kept tbl T (.isValue l true) l m := by
  have hm' := hm
  rw [← mem_unann] at hm'
  unfold Kept
  unfold memberOk at hok
  simp only [dK, applyK, if_true] at hd ⊢
  generalize unann m = u at hd hm' hok ⊢
  cases u with
  | any => simp [mem_known_self]
  | known k =>
    simp only [mem] at hm'
    rw [Obj.same_comm] at hm'
    simp [hm', hm]
  | subclass d =>
    cases l <;> simp only [mem, Bool.false_eq_true] at hm'
    simp only [ite_list_nil, Bool.not_eq_true', Bool.not_eq_false] at hd
    simp [hd, mem_known_self]
  | typed d | newtype _ d | generic d _ | seq d _ =>
    simp only [typOf?, ite_list_nil, Bool.not_eq_true', Bool.not_eq_false] at hd ⊢
    simp [hd, mem_known_self]
  | annotated _ | union _ => simp at hok
  | many _ | tvar _ => simp [mem] at hm'

theorem kept_isValue_neg {tbl : ClassTable} {T : BoolTable} {l o : Obj} {m : Ty}
    (hh : Obj.same o l = false) (hm : mem tbl o m = true) :
    Kept tbl T (.isValue l false) o m := by
  have hm' := hm
  rw [← mem_unann] at hm'
  unfold Kept
  simp only [applyK, Bool.false_eq_true, if_false]
  generalize unann m = u at hm' ⊢
  cases u with
  | known k =>
    simp only [mem] at hm'
    by_cases h1 : Obj.same k l = true
    · rw [Obj.same_trans hm' h1] at hh; cases hh
    · simp [h1, hm]
  | _ => simp [hm]

theorem mem_enumRest (tbl : ClassTable) (T : BoolTable) (e j : Nat) (drop : Nat → Bool)
    (hj : j < T.enumCount e) (hd : drop j = false) :
    mem tbl (.inst e j) (enumRest T e drop) = true := by
  unfold enumRest
  rw [mem_unite_iff]
  refine ⟨.known (.inst e j), ?_, mem_known_self tbl _⟩
  simp only [List.mem_map, List.mem_filter, List.mem_range]
  exact ⟨j, ⟨hj, by simp [hd]⟩, rfl⟩

theorem kept_equals_pos {tbl : ClassTable} {T : BoolTable} {l : Obj} {useIs : Bool} {tst m : Ty}
    (hd : dK tbl T (.predicate (.equals l useIs) true) tst l m = []) (hm : mem tbl l m = true) :
    Kept tbl T (.predicate (.equals l useIs) true) l m := by
  have hm' := hm
  rw [← mem_unann] at hm'
  unfold Kept
  simp only [dK, applyK, applyPred] at hd ⊢
  generalize unann m = u at hd hm' ⊢
  cases u with
  | known k =>
    simp only [mem] at hm'
    rw [Obj.same_comm] at hm'
    cases useIs <;> simp [hm', same_pyEq hm', hm]
  | _ =>
    simp only [ite_list_nil, Bool.not_eq_true', Bool.not_eq_false] at hd
    simp [hd, mem_known_self]

theorem objOk_wf {tbl : ClassTable} {T : BoolTable} {o : Obj} (h : objOk tbl T o = true) :
    o.wf tbl = true := by
  simp only [objOk, Bool.and_eq_true] at h; exact h.1

theorem kept_equals_neg {tbl : ClassTable} {T : BoolTable} (L : NLaws tbl T) {l o : Obj}
    {useIs : Bool} {m : Ty} (hl : l.wf tbl = true) (ho : objOk tbl T o = true)
    (hh : (if useIs then Obj.same o l else Obj.pyEq o l) = false) (hm : mem tbl o m = true) :
    Kept tbl T (.predicate (.equals l useIs) false) o m := by
  have hm' := hm
  rw [← mem_unann] at hm'
  unfold Kept
  simp only [applyK, applyPred]
  generalize unann m = u at hm' ⊢
  cases u with
  | known k =>
    simp only [mem] at hm'
    cases useIs
    · simp only [Bool.false_eq_true, if_false] at hh ⊢
      by_cases h1 : Obj.pyEq k l = true
      · rw [Obj.pyEq_trans _ _ _ (same_pyEq hm') h1] at hh; cases hh
      · simp [h1, hm]
    · simp only [if_true] at hh ⊢
      by_cases h1 : Obj.same k l = true
      · rw [Obj.same_trans hm' h1] at hh; cases hh
      · simp [h1, hm]
  | typed c =>
    cases l with
    | bool b =>
      by_cases hc : c = C.bool
      · subst hc
        obtain ⟨b', rfl⟩ := bool_of_mem L (objOk_wf ho) hm'
        have : b' = !b := by
          cases useIs <;> simp only [Bool.false_eq_true, if_false, if_true, Obj.same, Obj.tag,
            Obj.pyEq, beq_self_eq_true, Bool.true_and] at hh <;> cases b <;> cases b' <;> simp_all
        subst this
        simp [mem_known_self]
      · simp [hc, hm]
    | inst e i =>
      by_cases hc : (tbl.isEnum e && c == e) = true
      · simp only [Bool.and_eq_true, beq_iff_eq] at hc
        obtain ⟨he, rfl⟩ := hc
        simp only [Obj.wf, Bool.and_eq_true] at hl
        obtain ⟨j, rfl⟩ := enum_of_mem L he hl.2 hm'
        simp only [objOk, Bool.and_eq_true, he, Bool.not_true, Bool.false_or, decide_eq_true_eq] at ho
        have hji : (j == i) = false := by
          cases useIs <;> simp only [Bool.false_eq_true, if_false, if_true, Obj.same, Obj.tag,
            Obj.pyEq, beq_self_eq_true, Bool.true_and] at hh <;> simpa using hh
        simp only [Bool.false_eq_true, if_false, he, beq_self_eq_true, Bool.and_self, if_true,
          Option.toList_some, List.mem_singleton, exists_eq_left]
        exact mem_enumRest tbl T c j _ ho.2 hji
      · simp [hc, hm]
    | _ => simp [hm]
  | _ => cases l <;> simp [hm]

theorem objDeqL_refl_of (xs : List Obj) (h : ∀ x ∈ xs, objDeq x x = true) : objDeqL xs xs = true := by
  induction xs with
  | nil => simp [objDeqL]
  | cons x xs ih =>
    simp only [objDeqL, Bool.and_eq_true]
    exact ⟨h x (by simp), ih fun y hy => h y (by simp [hy])⟩

theorem objDeq_refl (a : Obj) : objDeq a a = true := by
  induction a using Obj.ind' <;> simp_all [objDeq, objDeqL_refl_of]

theorem elems_eq (cont : Obj) : (containerElems cont).getD [] = elemsOf cont := rfl

theorem kept_in_pos {tbl : ClassTable} {T : BoolTable} {cont o : Obj} {tst m : Ty}
    (he : o ∈ elemsOf cont)
    (hd : dK tbl T (.predicate (.inP cont) true) tst o m = []) (hm : mem tbl o m = true) :
    Kept tbl T (.predicate (.inP cont) true) o m := by
  have hm' := hm
  rw [← mem_unann] at hm'
  unfold Kept
  simp only [dK, applyK, applyPred, elems_eq] at hd ⊢
  generalize unann m = u at hd hm' ⊢
  cases u with
  | known k =>
    simp only [mem] at hm'
    by_cases h1 : inDefined cont k = true
    · have : (elemsOf cont).any (fun e => Obj.pyEq k e) = true := by
        rw [List.any_eq_true]
        exact ⟨o, he, by rw [Obj.pyEq_comm]; exact same_pyEq hm'⟩
      simp [h1, this, hm]
    · simp [h1, hm]
  | _ =>
    simp only [ite_list_nil, List.any_eq_true, Bool.and_eq_true, Bool.not_eq_true', not_exists, not_and,
      Bool.not_eq_false] at hd
    have hca := hd o he (objDeq_refl o)
    have hin : o ∈ (elemsOf cont).filter (fun e => ca tbl false m (.known e)) := by
      simp [List.mem_filter, he, hca]
    cases hf : (elemsOf cont).filter (fun e => ca tbl false m (.known e)) with
    | nil => rw [hf] at hin; simp at hin
    | cons a as =>
      simp only [if_true, Option.toList_some, List.mem_singleton, exists_eq_left]
      rw [← hf, mem_unite_iff]
      exact ⟨.known o, List.mem_map.mpr ⟨o, hin, rfl⟩, mem_known_self tbl o⟩

theorem patternEnum_some {tbl : ClassTable} {elems : List Obj} {e : Cls}
    (h : patternEnum tbl elems = some e) : tbl.isEnum e = true ∧ ∃ i rest, elems = .inst e i :: rest := by
  unfold patternEnum at h
  split at h
  · rename_i c i rest
    split at h
    · rename_i hc
      simp only [Option.some.injEq] at h
      subst h
      simp only [Bool.and_eq_true] at hc
      exact ⟨hc.1, i, rest, rfl⟩
    · cases h
  · cases h

theorem kept_in_neg {tbl : ClassTable} {T : BoolTable} (L : NLaws tbl T) {cont o : Obj} {m : Ty}
    (hw : ∀ x ∈ elemsOf cont, x.wf tbl = true) (ho : objOk tbl T o = true)
    (hh : (elemsOf cont).any (fun e => Obj.pyEq o e) = false) (hm : mem tbl o m = true) :
    Kept tbl T (.predicate (.inP cont) false) o m := by
  have hm' := hm
  rw [← mem_unann] at hm'
  unfold Kept
  simp only [applyK, applyPred, elems_eq]
  generalize unann m = u at hm' ⊢
  cases u with
  | known k =>
    simp only [mem] at hm'
    by_cases h1 : inDefined cont k = true
    · have : (elemsOf cont).any (fun e => Obj.pyEq k e) = false := by
        rw [Bool.eq_false_iff, ne_eq, List.any_eq_true]
        rintro ⟨e, he, hke⟩
        rw [Bool.eq_false_iff, ne_eq, List.any_eq_true] at hh
        exact hh ⟨e, he, Obj.pyEq_trans _ _ _ (same_pyEq hm') hke⟩
      simp [h1, this, hm]
    · simp [h1, hm]
  | typed c =>
    simp only [Bool.false_eq_true, if_false]
    cases hp : patternEnum tbl (elemsOf cont) with
    | none => simp [hm]
    | some e =>
      obtain ⟨he, i, rest, hel⟩ := patternEnum_some hp
      by_cases hc : c = e
      · subst hc
        have hu : tbl.isUser c = true := by
          have := hw (.inst c i) (by rw [hel]; simp)
          simp only [Obj.wf, Bool.and_eq_true] at this
          exact this.2
        obtain ⟨j, rfl⟩ := enum_of_mem L he hu hm'
        simp only [objOk, Bool.and_eq_true, he, Bool.not_true, Bool.false_or, decide_eq_true_eq] at ho
        simp only [beq_self_eq_true, if_true, Option.toList_some, List.mem_singleton, exists_eq_left]
        exact mem_enumRest tbl T c j _ ho.2 hh
      · simp [hc, hm]
  | _ =>
    simp only [Bool.false_eq_true, if_false]
    cases patternEnum tbl (elemsOf cont) <;> simp [hm]

/-- a length pyanalyze knows is the length of every member object -/
theorem lenOfValue_sound {tbl : ClassTable} {T : BoolTable} {m : Ty} {o : Obj} {k : Nat}
    (h : lenOfValue T m = some k) (hm : mem tbl o m = true) : objLen o = some k := by
  cases m with
  | seq c ms =>
    simp only [lenOfValue] at h
    split at h
    · rename_i hc
      simp only [Bool.and_eq_true, Bool.not_eq_true'] at hc
      simp only [Option.some.injEq] at h
      obtain ⟨xs, hx, hmatch⟩ := mem_seq_elems tbl hm
      have := matchSeq_length tbl ms xs hc.2 hmatch
      rcases hx with hx | hx <;> simp [hx, objLen, this, h]
    · cases h
  | known k' =>
    simp only [mem] at hm
    rw [same_objLen hm]
    cases k' <;> simp_all [lenOfValue]
  | _ => simp [lenOfValue] at h

theorem kept_len {tbl : ClassTable} {T : BoolTable} {op : CmpOp} {n : Int} {pos : Bool} {o : Obj}
    {m : Ty} {k : Nat} (hlen : objLen o = some k) (hh : op.eval (Int.ofNat k) n = pos)
    (hm : mem tbl o m = true) : Kept tbl T (.predicate (.len op n) pos) o m := by
  unfold Kept
  simp only [applyK, applyPred]
  cases hl : lenOfValue T m with
  | some k' =>
    have := lenOfValue_sound hl hm
    rw [hlen, Option.some.injEq] at this
    subst this
    simp only [Int.ofNat_eq_natCast] at hh
    cases pos
    · simp only [Bool.false_eq_true, if_false, CmpOp.neg_eval, Int.ofNat_eq_natCast, hh, Bool.not_false,
        if_true, Option.toList_some, List.mem_singleton, exists_eq_left, hm]
    · simp only [if_true, Int.ofNat_eq_natCast, hh, Option.toList_some, List.mem_singleton,
        exists_eq_left, hm]
  | none =>
    simp only
    split <;> simp [hm, mem_annotate]

/-! ### the main case analysis: one member, one condition, one polarity -/

theorem ite_list_nil2 {α} {c d : Prop} [Decidable c] [Decidable d] {x y : α} :
    (if c then (if d then [x] else [y]) else ([] : List α)) = [] ↔ ¬c := by
  by_cases h : c <;> by_cases h' : d <;> simp [h, h']

theorem elems_wf {tbl : ClassTable} {cont : Obj} (h : cont.wf tbl = true) :
    ∀ x ∈ elemsOf cont, x.wf tbl = true := by
  intro x hx
  cases cont <;> simp only [elemsOf, containerElems, Option.getD_some, Option.getD_none,
    List.not_mem_nil] at hx
  all_goals
    simp only [Obj.wf, Obj.wfL_iff] at h
    exact h x hx

theorem mem_isinst_pat {tbl : ClassTable} {cs : List Cls} {o : Obj}
    (h : (cs.any fun c => tbl.issub (clsOf tbl o) c) = true) :
    mem tbl o (unite (cs.map .typed)) = true := by
  rw [List.any_eq_true] at h
  obtain ⟨c, hc, hs⟩ := h
  rw [mem_unite_iff]
  exact ⟨.typed c, List.mem_map.mpr ⟨c, hc, rfl⟩, by simp [mem, issub_sub hs]⟩

theorem mem_issub_pat {tbl : ClassTable} {cs : List Cls} {d : Cls}
    (h : (cs.any fun c => tbl.issub d c) = true) :
    mem tbl (.cls d) (unite (cs.map .subclass)) = true := by
  rw [List.any_eq_true] at h
  obtain ⟨c, hc, hs⟩ := h
  rw [mem_unite_iff]
  exact ⟨.subclass c, List.mem_map.mpr ⟨c, hc, rfl⟩, by simp [mem, issub_sub hs]⟩

/-- equality with a tested literal determines the object (side condition `condOk`) -/
theorem eq_of_pyEq {o l : Obj} (hs : (!(Obj.pyEq o l) || objDeq o l) = true)
    (h : Obj.pyEq o l = true) : o = l := by
  rw [h] at hs
  exact objDeq_eq _ _ (by simpa using hs)

theorem member_keeps {tbl : ClassTable} {T : BoolTable} (L : NLaws tbl T) {c : Cond} {pol : Bool}
    {o : Obj} {m : Ty} (hok : memberOk m = true) (hc : condOk tbl c o = true)
    (hw : condWf tbl c = true) (ho : objOk tbl T o = true) (hh : holds tbl c o = pol)
    (hdc : dCond T c o = [])
    (hd : dK tbl T (c.kAt T pol) (tested c) o m = []) (hm : mem tbl o m = true) :
    Kept tbl T (c.kAt T pol) o m := by
  cases c with
  | isinst cs =>
    cases pol <;> simp only [Cond.kAt, Cond.k, K.invert, Bool.not_true, Bool.false_eq_true, if_false,
      if_true, dK, holds] at hd hh ⊢
    · rw [ite_list_nil2] at hd
      exact kept_isAssignable_neg (by simpa using hd) hm
    · rw [ite_list_nil] at hd
      exact kept_isAssignable_pos (by simpa using hd) (mem_isinst_pat hh) hm
  | issub cs =>
    simp only [condOk, Cond.literals, List.all_nil, Bool.and_true] at hc
    cases o <;> simp only [Bool.false_eq_true] at hc
    cases pol <;> simp only [Cond.kAt, Cond.k, K.invert, Bool.not_true, Bool.false_eq_true, if_false,
      if_true, dK, holds] at hd hh ⊢
    · rw [ite_list_nil2] at hd
      exact kept_isAssignable_neg (by simpa using hd) hm
    · rw [ite_list_nil] at hd
      exact kept_isAssignable_pos (by simpa using hd) (mem_issub_pat hh) hm
  | typeIs t =>
    cases pol <;> simp only [Cond.kAt, Cond.k, K.invert, Bool.not_true, Bool.false_eq_true, if_false,
      if_true, dK, holds] at hd hh ⊢
    · rw [ite_list_nil2] at hd
      exact kept_isAssignable_neg (by simpa using hd) hm
    · rw [ite_list_nil] at hd
      exact kept_isAssignable_pos (by simpa using hd) hh hm
  | matchClass k =>
    cases pol <;> simp only [Cond.kAt, Cond.k, K.invert, Bool.not_true, Bool.false_eq_true, if_false,
      if_true, dK, holds] at hd hh ⊢
    · exact kept_isAssignable_neg (by simp) hm
    · rw [ite_list_nil] at hd
      exact kept_isAssignable_pos (by simpa using hd) (by simp [mem, issub_sub hh]) hm
  | typeGuard t =>
    cases pol <;> simp only [Cond.kAt, Cond.k, K.invert, Bool.not_true, Bool.false_eq_true, if_false,
      if_true, holds] at hh ⊢
    · exact kept_isValueObject (by simp) hm
    · exact kept_isValueObject (fun _ => hh) hm
  | truthy =>
    cases pol <;> simp only [Cond.kAt, Cond.k, K.invert, Bool.not_true, Bool.false_eq_true, if_false,
      if_true, dK, holds] at hd hh ⊢
    · rw [ite_list_nil] at hd
      exact kept_isTruthy_neg (by simpa using hd) hh hm
    · exact kept_isTruthy_pos L hok hh hm
  | len op n =>
    simp only [condOk, Cond.literals, List.all_nil, Bool.and_true, Option.isSome_iff_exists] at hc
    obtain ⟨k, hk⟩ := hc
    simp only [holds, hk] at hh
    cases pol <;> simp only [Cond.kAt, Cond.k, K.invert, Bool.not_true, Bool.false_eq_true, if_false,
      if_true] <;> exact kept_len hk hh hm
  | lenRev op n =>
    simp only [condOk, Cond.literals, List.all_nil, Bool.and_true, Option.isSome_iff_exists] at hc
    obtain ⟨k, hk⟩ := hc
    simp only [holds, hk] at hh
    simp only [dCond, hk] at hdc
    have hop : (if T.lenRevMirrored then op.mirror else op).eval (Int.ofNat k) n = pol := by
      cases hmir : T.lenRevMirrored
      · simp only [hmir, Bool.not_false, Bool.true_and, ite_list_nil, bne_iff_ne, ne_eq] at hdc
        simp only [Bool.false_eq_true, if_false]
        have : op.eval n (Int.ofNat k) = op.eval (Int.ofNat k) n := Decidable.of_not_not hdc
        rw [← this]; exact hh
      · simp only [if_true, CmpOp.mirror_eval]; exact hh
    cases pol <;> simp only [Cond.kAt, Cond.k, K.invert, Bool.not_true, Bool.false_eq_true, if_false,
      if_true] <;> exact kept_len hk hop hm
  | assertInst k =>
    cases pol <;> simp only [Cond.kAt, Cond.k, K.invert, Bool.not_true, Bool.false_eq_true, if_false,
      if_true, holds] at hd hh ⊢
    · exact kept_isInstance_neg hok hh hd hm
    · exact kept_isInstance_pos hok hh hd hm
  | assertIs l =>
    simp only [condOk, Cond.literals, List.all_nil, Bool.and_true] at hc
    cases pol <;> simp only [Cond.kAt, Cond.k, K.invert, Bool.not_true, Bool.false_eq_true, if_false,
      if_true, holds] at hd hh ⊢
    · exact kept_isValue_neg hh hm
    · obtain rfl := singleton_eq tbl hc hh
      exact kept_isValue_pos hok hd hm
  | is l =>
    simp only [condOk, Cond.literals, List.all_nil, Bool.and_true] at hc
    simp only [condWf] at hw
    cases pol <;> simp only [Cond.kAt, Cond.k, K.invert, Bool.not_true, Bool.false_eq_true, if_false,
      if_true, holds] at hd hh ⊢
    · exact kept_equals_neg L hw ho (by simpa using hh) hm
    · obtain rfl := singleton_eq tbl hc hh
      exact kept_equals_pos hd hm
  | isNot l =>
    simp only [condOk, Cond.literals, List.all_nil, Bool.and_true] at hc
    simp only [condWf] at hw
    cases pol <;> simp only [Cond.kAt, Cond.k, K.invert, Bool.not_true, Bool.not_false, Bool.false_eq_true,
      if_false, if_true, holds, Bool.not_eq_true', Bool.not_eq_false'] at hd hh ⊢
    · obtain rfl := singleton_eq tbl hc hh
      exact kept_equals_pos hd hm
    · exact kept_equals_neg L hw ho (by simpa using hh) hm
  | eq l =>
    simp only [condOk, Cond.literals, List.all_cons, List.all_nil, Bool.and_true, Bool.true_and] at hc
    simp only [condWf] at hw
    cases pol <;> simp only [Cond.kAt, Cond.k, K.invert, Bool.not_true, Bool.false_eq_true, if_false,
      if_true, holds] at hd hh ⊢
    · exact kept_equals_neg L hw ho (by simpa using hh) hm
    · obtain rfl := eq_of_pyEq hc hh
      exact kept_equals_pos hd hm
  | ne l =>
    simp only [condOk, Cond.literals, List.all_cons, List.all_nil, Bool.and_true, Bool.true_and] at hc
    simp only [condWf] at hw
    cases pol <;> simp only [Cond.kAt, Cond.k, K.invert, Bool.not_true, Bool.not_false, Bool.false_eq_true,
      if_false, if_true, holds, Bool.not_eq_true', Bool.not_eq_false'] at hd hh ⊢
    · obtain rfl := eq_of_pyEq hc hh
      exact kept_equals_pos hd hm
    · exact kept_equals_neg L hw ho (by simpa using hh) hm
  | inC cont =>
    simp only [condOk, Cond.literals, Bool.and_eq_true, List.all_eq_true] at hc
    simp only [condWf] at hw
    cases pol <;> simp only [Cond.kAt, Cond.k, K.invert, Bool.not_true, Bool.false_eq_true, if_false,
      if_true, holds] at hd hh ⊢
    · exact kept_in_neg L (elems_wf hw) ho hh hm
    · rw [List.any_eq_true] at hh
      obtain ⟨e, he, hoe⟩ := hh
      obtain rfl := eq_of_pyEq (hc.2 e he) hoe
      exact kept_in_pos he hd hm
  | notIn cont =>
    simp only [condOk, Cond.literals, Bool.and_eq_true, List.all_eq_true] at hc
    simp only [condWf] at hw
    cases pol <;> simp only [Cond.kAt, Cond.k, K.invert, Bool.not_true, Bool.not_false, Bool.false_eq_true,
      if_false, if_true, holds, Bool.not_eq_true', Bool.not_eq_false'] at hd hh ⊢
    · rw [List.any_eq_true] at hh
      obtain ⟨e, he, hoe⟩ := hh
      obtain rfl := eq_of_pyEq (hc.2 e he) hoe
      exact kept_in_pos he hd hm
    · exact kept_in_neg L (elems_wf hw) ho hh hm

theorem narrow_eq (tbl : ClassTable) (T : BoolTable) (v : Ty) (c : Cond) (pol : Bool) :
    narrow tbl T v c pol = constrainKs tbl T v [c.kAt T pol] := rfl

/-- the value is never lost, outside the exception classes -/
theorem narrow_keeps_core {tbl : ClassTable} {T : BoolTable} (L : NLaws tbl T) {v : Ty} {c : Cond}
    {pol : Bool} {o : Obj} (hv : valueOk v = true) (hc : condOk tbl c o = true)
    (hw : condWf tbl c = true) (ho : objOk tbl T o = true)
    (hd : d02 tbl T v c pol o = []) (hm : mem tbl o v = true) (hh : holds tbl c o = pol) :
    mem tbl o (narrow tbl T v c pol) = true := by
  rw [narrow_eq, mem_constrainKs_iff, applySeq_single]
  obtain ⟨m, hmem, hom⟩ := (mem_iff_member tbl o v).mp hm
  have hok : memberOk m = true := by
    simp only [valueOk, List.all_eq_true] at hv; exact hv m hmem
  simp only [d02, List.append_eq_nil_iff] at hd
  have hdm : dK tbl T (c.kAt T pol) (tested c) o m = [] := by
    have := hd.2
    simp only [List.flatMap_eq_nil_iff, List.mem_filter, and_imp] at this
    exact this m hmem hom
  obtain ⟨r, hr, hor⟩ := member_keeps L hok hc hw ho hh hd.1 hdm hom
  exact ⟨r, List.mem_flatMap.mpr ⟨m, hmem, hr⟩, hor⟩

/-! ### 7. no widening -/

theorem shape_isAssignable {tbl : ClassTable} {T : BoolTable} {pat m r : Ty} {po pos : Bool}
    (h : applyPred tbl T (.isAssignable pat po) m pos = some r) : r = m ∨ r = pat := by
  unfold applyPred at h
  grind
theorem shape_len {tbl : ClassTable} {T : BoolTable} {m r : Ty} {op : CmpOp} {n : Int} {pos : Bool}
    (h : applyPred tbl T (.len op n) m pos = some r) : r = m ∨ r = annotate m := by
  unfold applyPred at h
  grind
theorem shape_equals {tbl : ClassTable} {T : BoolTable} {l : Obj} {useIs pos : Bool} {m r : Ty}
    (h : applyPred tbl T (.equals l useIs) m pos = some r) :
    r = m ∨ r = .known l ∨ (∃ b, l = .bool b ∧ unann m = .typed C.bool ∧ r = .known (.bool !b)) ∨
      (∃ e i, l = .inst e i ∧ tbl.isEnum e = true ∧ unann m = .typed e ∧ r = enumRest T e (fun j => j == i)) := by
  unfold applyPred at h
  grind
theorem shape_in {tbl : ClassTable} {T : BoolTable} {cont : Obj} {pos : Bool} {m r : Ty}
    (h : applyPred tbl T (.inP cont) m pos = some r) :
    r = m ∨ (r = unite (((elemsOf cont).filter (fun e => ca tbl false m (.known e))).map .known)) ∨
      (∃ e, patternEnum tbl (elemsOf cont) = some e ∧ unann m = .typed e ∧
        r = enumRest T e (fun j => (elemsOf cont).any fun x => Obj.pyEq (.inst e j) x)) := by
  unfold applyPred at h
  simp only [elems_eq] at h
  grind
theorem shape_isInstance {tbl : ClassTable} {T : BoolTable} {c : Cls} {pos : Bool} {m r : Ty}
    (h : r ∈ applyK tbl T (.isInstance c pos) m) :
    r = m ∨ r = .typed c ∨ (r = .any ∧ unann m = .any) := by
  simp only [applyK] at h
  grind [typOf?]
theorem shape_isValue {tbl : ClassTable} {T : BoolTable} {l : Obj} {pos : Bool} {m r : Ty}
    (h : r ∈ applyK tbl T (.isValue l pos) m) : r = m ∨ r = .known l := by
  simp only [applyK] at h
  grind [typOf?]

theorem mem_enumRest_sub {tbl : ClassTable} {T : BoolTable} (L : NLaws tbl T) {e : Cls} {o : Obj}
    {drop : Nat → Bool} (he : tbl.isEnum e = true) (hu : tbl.isUser e = true)
    (h : mem tbl o (enumRest T e drop) = true) : mem tbl o (.typed e) = true := by
  unfold enumRest at h
  rw [mem_unite_iff] at h
  obtain ⟨v, hv, hov⟩ := h
  simp only [List.mem_map] at hv
  obtain ⟨j, _, rfl⟩ := hv
  simp only [mem] at hov ⊢
  rw [same_clsOf tbl hov]
  simp only [clsOf]
  exact issub_sub (L.enum e he hu).2.1

theorem pred_mem {tbl : ClassTable} {T : BoolTable} {p : Pred} {pos : Bool} {m r : Ty}
    (h : r ∈ applyK tbl T (.predicate p pos) m) : applyPred tbl T p m pos = some r := by
  simpa [applyK] using h

/-- what a single constraint application can produce from a member -/
theorem nowiden_member {tbl : ClassTable} {T : BoolTable} (L : NLaws tbl T) {c : Cond} {pol : Bool}
    {o : Obj} {m r : Ty} (hw : condWf tbl c = true)
    (hr : r ∈ applyK tbl T (c.kAt T pol) m) (hor : mem tbl o r = true) :
    mem tbl o m = true ∨ mem tbl o (tested c) = true := by
  have hpred : ∀ pat po pos, r ∈ applyK tbl T (.predicate (.isAssignable pat po) pos) m →
      mem tbl o m = true ∨ mem tbl o pat = true := by
    intro pat po pos hr
    rcases shape_isAssignable (pred_mem hr) with h | h <;> subst h
    · exact Or.inl hor
    · exact Or.inr hor
  have hequals : ∀ l useIs pos, l.wf tbl = true → r ∈ applyK tbl T (.predicate (.equals l useIs) pos) m →
      mem tbl o m = true ∨ mem tbl o (.known l) = true := by
    intro l useIs pos hl hr
    rcases shape_equals (pred_mem hr) with h | h | ⟨b, rfl, hu, rfl⟩ | ⟨e, i, rfl, he, hu, rfl⟩
    · subst h; exact Or.inl hor
    · subst h; exact Or.inr hor
    · left
      rw [← mem_unann, hu]
      simp only [mem] at hor ⊢
      rw [same_clsOf tbl hor]; exact issub_sub L.boolRefl
    · left
      rw [← mem_unann, hu]
      simp only [Obj.wf, Bool.and_eq_true] at hl
      exact mem_enumRest_sub L he hl.2 hor
  have hin : ∀ cont pos, cont.wf tbl = true → r ∈ applyK tbl T (.predicate (.inP cont) pos) m →
      mem tbl o m = true ∨ mem tbl o (.union ((elemsOf cont).map .known)) = true := by
    intro cont pos hcw hr
    rcases shape_in (pred_mem hr) with h | h | ⟨e, hp, hu, rfl⟩
    · subst h; exact Or.inl hor
    · subst h
      right
      rw [mem_unite_iff] at hor
      obtain ⟨v, hv, hov⟩ := hor
      simp only [List.mem_map, List.mem_filter] at hv
      obtain ⟨x, ⟨hx, _⟩, rfl⟩ := hv
      simp only [mem, memAny_iff]
      exact ⟨.known x, List.mem_map.mpr ⟨x, hx, rfl⟩, hov⟩
    · left
      rw [← mem_unann, hu]
      obtain ⟨he, i, rest, hel⟩ := patternEnum_some hp
      have hu' : tbl.isUser e = true := by
        have := elems_wf hcw (.inst e i) (by rw [hel]; simp)
        simp only [Obj.wf, Bool.and_eq_true] at this
        exact this.2
      exact mem_enumRest_sub L he hu' hor
  have hlen : ∀ op n pos, r ∈ applyK tbl T (.predicate (.len op n) pos) m → mem tbl o m = true := by
    intro op n pos hr
    rcases shape_len (pred_mem hr) with h | h <;> subst h
    · exact hor
    · rw [mem_annotate] at hor; exact hor
  have hinst : ∀ k pos, r ∈ applyK tbl T (.isInstance k pos) m →
      mem tbl o m = true ∨ mem tbl o (.typed k) = true := by
    intro k pos hr
    rcases shape_isInstance hr with h | h | ⟨_, hu⟩
    · subst h; exact Or.inl hor
    · subst h; exact Or.inr hor
    · left; rw [← mem_unann, hu]; simp [mem]
  have hval : ∀ l pos, r ∈ applyK tbl T (.isValue l pos) m →
      mem tbl o m = true ∨ mem tbl o (.known l) = true := by
    intro l pos hr
    rcases shape_isValue hr with h | h <;> subst h
    · exact Or.inl hor
    · exact Or.inr hor
  have hvo : ∀ t pos, r ∈ applyK tbl T (.isValueObject t pos) m →
      mem tbl o m = true ∨ mem tbl o t = true := by
    intro t pos hr
    cases pos <;> simp only [applyK, Bool.false_eq_true, if_false, if_true, List.mem_singleton] at hr <;>
      subst hr
    · exact Or.inl hor
    · exact Or.inr hor
  have htr : ∀ pos, r ∈ applyK tbl T (.isTruthy pos) m → mem tbl o m = true := by
    intro pos hr
    simp only [applyK] at hr
    have : r = m := by grind
    subst this; exact hor
  cases c <;> cases pol <;>
    simp only [Cond.kAt, Cond.k, K.invert, Bool.not_true, Bool.not_false, Bool.false_eq_true, if_false,
      if_true, tested, condWf] at hr hw ⊢
  all_goals first
    | exact hpred _ _ _ hr
    | exact hequals _ _ _ hw hr
    | exact hin _ _ hw hr
    | exact Or.inl (hlen _ _ _ hr)
    | exact hinst _ _ hr
    | exact hval _ _ hr
    | exact hvo _ _ hr
    | exact Or.inl (htr _ hr)

theorem narrow_no_widen_core {tbl : ClassTable} {T : BoolTable} (L : NLaws tbl T) {v : Ty} {c : Cond}
    {pol : Bool} {o : Obj} (hw : condWf tbl c = true)
    (h : mem tbl o (narrow tbl T v c pol) = true) :
    mem tbl o v = true ∨ mem tbl o (tested c) = true := by
  rw [narrow_eq, mem_constrainKs_iff, applySeq_single] at h
  obtain ⟨r, hr, hor⟩ := h
  obtain ⟨m, hmem, hrm⟩ := List.mem_flatMap.mp hr
  rcases nowiden_member L hw hrm hor with h | h
  · exact Or.inl ((mem_iff_member tbl o v).mpr ⟨m, hmem, h⟩)
  · exact Or.inr h

/-! ### 8. verdicts on whole values -/

theorem minRank_mem : ∀ (bs : List Boolab), bs ≠ [] → minRank bs ∈ bs
  | [], h => absurd rfl h
  | [b], _ => by simp [minRank]
  | b :: c :: bs, _ => by
    have ih := minRank_mem (c :: bs) (by simp)
    simp only [minRank]
    split
    · simp
    · exact List.mem_cons_of_mem _ ih

def unionRule (bs : List Boolab) : Boolab :=
  if bs.contains .erroring then .erroring
  else if bs.contains .boolable then .boolable
  else if bs.any Boolab.safelyTrue && bs.any (fun b => b == .vaFalse || b == .vaFalseMut) then .boolable
  else minRank bs

theorem unionRule_true {bs : List Boolab} (h : (unionRule bs).safelyTrue = true) :
    ∀ b ∈ bs, b.safelyTrue = true := by
  unfold unionRule at h
  split at h
  · cases h
  · rename_i he
    split at h
    · cases h
    · rename_i hb
      split at h
      · cases h
      · rename_i hx
        have hne : bs ≠ [] := by
          intro h0; subst h0; simp [minRank, Boolab.safelyTrue] at h
        have hin := minRank_mem bs hne
        have hany : bs.any Boolab.safelyTrue = true := List.any_eq_true.mpr ⟨_, hin, h⟩
        simp only [hany, Bool.true_and, Bool.not_eq_true, List.any_eq_false, Bool.or_eq_true,
          beq_iff_eq, not_or] at hx
        intro b hb'
        have h1 := hx b hb'
        have h2 : b ≠ .erroring := by intro h0; subst h0; exact he (by simpa using hb')
        have h3 : b ≠ .boolable := by intro h0; subst h0; exact hb (by simpa using hb')
        cases b <;> simp_all [Boolab.safelyTrue]

theorem unionRule_false {bs : List Boolab}
    (h : unionRule bs = .vaFalse ∨ unionRule bs = .vaFalseMut) :
    ∀ b ∈ bs, b = .vaFalse ∨ b = .vaFalseMut := by
  unfold unionRule at h
  split at h
  · rcases h with h | h <;> cases h
  · rename_i he
    split at h
    · rcases h with h | h <;> cases h
    · rename_i hb
      split at h
      · rcases h with h | h <;> cases h
      · rename_i hx
        have hne : bs ≠ [] := by
          intro h0; subst h0; simp [minRank] at h
        have hin := minRank_mem bs hne
        have hany : bs.any (fun b => b == .vaFalse || b == .vaFalseMut) = true :=
          List.any_eq_true.mpr ⟨_, hin, by rcases h with h | h <;> simp [h]⟩
        simp only [hany, Bool.and_true, Bool.not_eq_true, List.any_eq_false] at hx
        intro b hb'
        have h1 := hx b hb'
        have h2 : b ≠ .erroring := by intro h0; subst h0; exact he (by simpa using hb')
        have h3 : b ≠ .boolable := by intro h0; subst h0; exact hb (by simpa using hb')
        cases b <;> simp_all [Boolab.safelyTrue]

theorem getBool_eq (tbl : ClassTable) (T : BoolTable) (v : Ty) :
    getBool tbl T v = (match unannAll v with
      | .union ts => unionRule (ts.map (boolNoMvv tbl T))
      | _ => boolNoMvv tbl T v) := by
  unfold getBool unionRule
  cases unannAll v <;> rfl

/-- an "always true" verdict is right for every member object, unless a member is of an
always-true class with a falsy class below it -/
theorem always_true_core {tbl : ClassTable} {T : BoolTable} {v : Ty} {o : Obj}
    (hb : (getBool tbl T v).safelyTrue = true) (hl : verdictLeak tbl T v = false)
    (hm : mem tbl o v = true) : truthy o = true := by
  rw [getBool_eq] at hb
  unfold verdictLeak boolMembers at hl
  rw [← mem_unannAll] at hm
  cases hu : unannAll v with
  | union ts =>
    rw [hu] at hb hl hm
    simp only at hb hl
    simp only [mem, memAny_iff] at hm
    obtain ⟨t, ht, hot⟩ := hm
    have h1 := unionRule_true hb _ (List.mem_map.mpr ⟨t, ht, rfl⟩)
    rw [Bool.eq_false_iff, ne_eq, List.any_eq_true] at hl
    exact boolNoMvv_true_sound h1 (by
      cases hlk : leakM tbl T t with
      | false => rfl
      | true => exact absurd ⟨t, ht, hlk⟩ hl) hot
  | _ =>
    rw [hu] at hb hl hm
    simp only [List.any_cons, List.any_nil, Bool.or_false] at hb hl
    rw [← hu, mem_unannAll] at hm
    exact boolNoMvv_true_sound hb hl hm

/-- an "always false" verdict (mutable or not) is right for every member object -/
theorem always_false_core {tbl : ClassTable} {T : BoolTable} (L : NLaws tbl T) {v : Ty} {o : Obj}
    (hb : getBool tbl T v = .vaFalse ∨ getBool tbl T v = .vaFalseMut)
    (hm : mem tbl o v = true) : truthy o = false := by
  rw [getBool_eq] at hb
  rw [← mem_unannAll] at hm
  cases hu : unannAll v with
  | union ts =>
    rw [hu] at hb hm
    simp only at hb
    simp only [mem, memAny_iff] at hm
    obtain ⟨t, ht, hot⟩ := hm
    exact boolNoMvv_false_sound L (unionRule_false hb _ (List.mem_map.mpr ⟨t, ht, rfl⟩)) hot
  | _ =>
    rw [hu] at hb hm
    simp only at hb
    rw [← hu, mem_unannAll] at hm
    exact boolNoMvv_false_sound L hb hm

/-! ### 9. constraint algebra -/

theorem K.invert_invert (k : K) : k.invert.invert = k := by
  cases k <;> simp [K.invert]

mutual
theorem AC.invert_invert : ∀ a : AC, a.noProvider = true → a.invert.invert = a
  | .null, _ => rfl
  | .k c, _ => by simp [AC.invert, K.invert_invert]
  | .and cs, h => by
    simp only [AC.noProvider] at h
    simp only [AC.invert, AC.invertL_invertL cs h]
  | .or cs, h => by
    simp only [AC.noProvider] at h
    simp only [AC.invert, AC.invertL_invertL cs h]
  | .equiv cs, h => by
    simp only [AC.noProvider] at h
    simp only [AC.invert, AC.invertL_invertL cs h]
  | .provider, h => by simp [AC.noProvider] at h
  | .otherK, _ => rfl
theorem AC.invertL_invertL : ∀ cs : List AC, AC.noProviderL cs = true →
    AC.invertL (AC.invertL cs) = cs
  | [], _ => rfl
  | c :: cs, h => by
    simp only [AC.noProviderL, Bool.and_eq_true] at h
    simp only [AC.invertL, AC.invert_invert c h.1, AC.invertL_invertL cs h.2]
end

/-- the constraint keeps the object: from every value containing it, it produces a value containing it -/
def KeepsK (tbl : ClassTable) (T : BoolTable) (k : K) (o : Obj) : Prop :=
  ∀ m, mem tbl o m = true → ∃ r ∈ applyK tbl T k m, mem tbl o r = true

theorem mem_applyOne {tbl : ClassTable} {T : BoolTable} {r m : Ty} :
    ∀ {ks : List K}, r ∈ applyOne tbl T ks m ↔ ∃ k ∈ ks, r ∈ applyK tbl T k m
  | [] => by simp [applyOne]
  | k :: ks => by simp [applyOne, mem_applyOne (ks := ks)]

theorem applySeq_append (tbl : ClassTable) (T : BoolTable) : ∀ (ks1 ks2 : List K) (vs : List Ty),
    applySeq tbl T (ks1 ++ ks2) vs = applySeq tbl T ks2 (applySeq tbl T ks1 vs)
  | [], _, _ => by simp [applySeq]
  | k :: ks1, ks2, vs => by simp [applySeq, applySeq_append tbl T ks1 ks2]

/-- **AND**: constraints applied one after the other keep an object every one of them keeps -/
theorem applySeq_keeps {tbl : ClassTable} {T : BoolTable} {o : Obj} : ∀ {ks : List K} {vs : List Ty},
    (∀ k ∈ ks, KeepsK tbl T k o) → (∃ v ∈ vs, mem tbl o v = true) →
    ∃ r ∈ applySeq tbl T ks vs, mem tbl o r = true
  | [], vs, _, hv => by simpa [applySeq] using hv
  | k :: ks, vs, hk, hv => by
    simp only [applySeq]
    apply applySeq_keeps (fun k' hk' => hk k' (by simp [hk']))
    obtain ⟨v, hv, hov⟩ := hv
    obtain ⟨r, hr, hor⟩ := hk k (by simp) v hov
    exact ⟨r, List.mem_flatMap.mpr ⟨v, hv, hr⟩, hor⟩

theorem allOf_keeps {tbl : ClassTable} {T : BoolTable} {o : Obj} {ks : List K}
    (h : ∀ k ∈ ks, KeepsK tbl T k o) : KeepsK tbl T (.allOf ks) o := by
  intro m hm
  simp only [applyK]
  exact applySeq_keeps h ⟨m, by simp, hm⟩

/-- **OR**: a `one_of` constraint keeps an object one of its alternatives keeps -/
theorem oneOf_keeps {tbl : ClassTable} {T : BoolTable} {o : Obj} {ks : List K}
    (h : ∃ k ∈ ks, KeepsK tbl T k o) : KeepsK tbl T (.oneOf ks) o := by
  intro m hm
  obtain ⟨k, hk, hkeep⟩ := h
  obtain ⟨r, hr, hor⟩ := hkeep m hm
  simp only [applyK]
  exact ⟨r, mem_applyOne.mpr ⟨k, hk, hr⟩, hor⟩

theorem groupK_keeps {tbl : ClassTable} {T : BoolTable} {o : Obj} {ks : List K}
    (h : ∀ k ∈ ks, KeepsK tbl T k o) : KeepsK tbl T (groupK ks) o := by
  unfold groupK
  split
  · exact h _ (by simp)
  · exact allOf_keeps h

theorem constrainKs_keeps {tbl : ClassTable} {T : BoolTable} {o : Obj} {v : Ty} {ks : List K}
    (h : ∀ k ∈ ks, KeepsK tbl T k o) (hm : mem tbl o v = true) :
    mem tbl o (constrainKs tbl T v ks) = true := by
  rw [mem_constrainKs_iff]
  exact applySeq_keeps h ((mem_iff_member tbl o v).mp hm)

theorem mem_applyL {k : K} : ∀ {cs : List AC}, k ∈ AC.applyL cs ↔ ∃ c ∈ cs, k ∈ c.apply
  | [] => by simp [AC.applyL]
  | c :: cs => by simp [AC.applyL, mem_applyL (cs := cs)]

theorem groups_eq : ∀ (cs : List AC), AC.groups cs = cs.map AC.apply
  | [] => rfl
  | c :: cs => by simp [AC.groups, groups_eq cs]

/-- **AND of abstract constraints**: if every concrete constraint of every conjunct keeps the object,
the conjunction keeps it -/
theorem and_keeps {tbl : ClassTable} {T : BoolTable} {o : Obj} {v : Ty} {cs : List AC}
    (h : ∀ c ∈ cs, ∀ k ∈ c.apply, KeepsK tbl T k o) (hm : mem tbl o v = true) :
    mem tbl o (constrain tbl T v (.and cs)) = true := by
  unfold constrain
  apply constrainKs_keeps _ hm
  intro k hk
  simp only [AC.apply, mem_applyL] at hk
  obtain ⟨c, hc, hkc⟩ := hk
  exact h c hc k hkc

/-- **OR of abstract constraints**: if the constraints of *one* disjunct keep the object, the
disjunction keeps it (whatever the other disjuncts are) -/
theorem or_keeps {tbl : ClassTable} {T : BoolTable} {o : Obj} {v : Ty} {cs : List AC}
    (h : ∃ c ∈ cs, ∀ k ∈ c.apply, KeepsK tbl T k o) (hm : mem tbl o v = true) :
    mem tbl o (constrain tbl T v (.or cs)) = true := by
  unfold constrain
  apply constrainKs_keeps _ hm
  intro k hk
  simp only [AC.apply, groups_eq] at hk
  obtain ⟨c, hc, hkeep⟩ := h
  cases hcs : cs.map AC.apply with
  | nil => rw [hcs] at hk; simp at hk
  | cons g gs =>
    rw [hcs] at hk
    simp only at hk
    split at hk
    · simp at hk
    · simp only [List.mem_singleton] at hk
      subst hk
      apply oneOf_keeps
      have : c.apply ∈ g :: gs := by rw [← hcs]; exact List.mem_map.mpr ⟨c, hc, rfl⟩
      exact ⟨groupK c.apply, List.mem_map.mpr ⟨_, this, rfl⟩, groupK_keeps hkeep⟩

/-- inverting a conjunction is the disjunction of the inverses (and dually), as constraints -/
theorem invert_and (cs : List AC) : (AC.and cs).invert = .or (AC.invertL cs) := by simp [AC.invert]
theorem invert_or (cs : List AC) : (AC.or cs).invert = .and (AC.invertL cs) := by simp [AC.invert]

/-! ### 10. tables without an always-true class above a falsy class -/

theorem leakM_false_of_noLeak {tbl : ClassTable} {T : BoolTable} (h : noLeakTable tbl T = true)
    (m : Ty) : leakM tbl T m = false := by
  unfold leakM
  split
  · rename_i c _
    by_cases hc : c < T.typeBoolL.length
    · simp only [noLeakTable, allBelow_iff] at h
      have := h c hc
      cases hs : (T.typeBool c).safelyTrue <;> simp_all
    · have : T.typeBoolL[c]? = none := List.getElem?_eq_none (Nat.le_of_not_lt hc)
      simp [BoolTable.typeBool, List.getD_eq_getElem?_getD, this, Boolab.ofCode, Boolab.safelyTrue]
  · rfl

theorem verdictLeak_false_of_noLeak {tbl : ClassTable} {T : BoolTable} (h : noLeakTable tbl T = true)
    (v : Ty) : verdictLeak tbl T v = false := by
  unfold verdictLeak
  rw [List.any_eq_false]
  intro m _
  simp [leakM_false_of_noLeak h m]

theorem dK_alwaysTrue {tbl : ClassTable} {T : BoolTable} {k : K} {tst : Ty} {o : Obj} {m : Ty}
    (h : "alwaysTrueWrong" ∈ dK tbl T k tst o m) :
    (getBool tbl T (unann m)).safelyTrue = true ∧ truthy o = false := by
  unfold dK at h
  grind

/-- on such tables no input falls in the class `alwaysTrueWrong` -/
theorem alwaysTrueWrong_absent_core {tbl : ClassTable} {T : BoolTable} (hN : noLeakTable tbl T = true)
    {v : Ty} {c : Cond} {pol : Bool} {o : Obj} (hv : valueOk v = true) :
    "alwaysTrueWrong" ∉ d02 tbl T v c pol o := by
  intro h
  simp only [d02, List.mem_append, List.mem_flatMap, List.mem_filter] at h
  rcases h with h | h
  · unfold dCond at h
    grind
  obtain ⟨m, ⟨hmem, hom⟩, hd⟩ := h
  have hok : memberOk m = true := by
    simp only [valueOk, List.all_eq_true] at hv; exact hv m hmem
  obtain ⟨hb, ht⟩ := dK_alwaysTrue hd
  rw [getBool_member tbl T hok] at hb
  have := boolNoMvv_true_sound hb (leakM_false_of_noLeak hN m) hom
  rw [ht] at this; cases this

/-! ### 11. `match` statements with singleton patterns -/

theorem negKs_singleton (T : BoolTable) (l : Obj) :
    Pat.negKs T (.singleton l) = [.predicate (.equals l true) false] := by
  simp [Pat.negKs, Pat.ac, Cond.k, AC.mkAnd, spliceAnd, absorbAnd, hasNull, AC.isNull, AC.invert, K.invert, AC.apply]

theorem ac_singleton_apply (T : BoolTable) (l : Obj) :
    (Pat.ac T (.singleton l)).apply = [.predicate (.equals l true) true] := by
  simp [Pat.ac, Cond.k, AC.apply]

theorem ac_wildcard_apply (T : BoolTable) : (Pat.ac T .wildcard).apply = [.predicate .always true] := by
  simp [Pat.ac, AC.apply]

theorem caseKs_zero (T : BoolTable) (p : Pat) (ps : List Pat) :
    caseKs T (p :: ps) 0 = (p.ac T).apply := by
  simp [caseKs]

theorem caseKs_succ (T : BoolTable) (p : Pat) (ps : List Pat) (i : Nat) :
    caseKs T (p :: ps) (i + 1) = Pat.negKs T p ++ caseKs T ps i := by
  simp [caseKs, List.append_assoc]

theorem caseKs_nil (T : BoolTable) (i : Nat) : caseKs T [] i = [] := by
  simp [caseKs]

theorem singOkM_known (tbl : ClassTable) (k : Obj) : singOkM tbl (.known k) = true := by
  simp [singOkM, unann]

theorem mem_singles_of {l : Obj} (h : singles.any (fun s => objDeq l s) = true) : l ∈ singles := by
  rw [List.any_eq_true] at h
  obtain ⟨s, hs, hd⟩ := h
  rw [objDeq_eq _ _ hd]; exact hs

/-- sequential application with an invariant on the members -/
theorem applySeq_keeps_inv {tbl : ClassTable} {T : BoolTable} {o : Obj} {P : Ty → Prop} :
    ∀ {ks : List K} {vs : List Ty},
    (∀ k ∈ ks, ∀ m, P m → mem tbl o m = true → ∃ r ∈ applyK tbl T k m, mem tbl o r = true ∧ P r) →
    (∃ v ∈ vs, mem tbl o v = true ∧ P v) → ∃ r ∈ applySeq tbl T ks vs, mem tbl o r = true ∧ P r
  | [], vs, _, hv => by simpa [applySeq] using hv
  | k :: ks, vs, hk, hv => by
    simp only [applySeq]
    apply applySeq_keeps_inv (fun k' hk' => hk k' (by simp [hk']))
    obtain ⟨v, hv, hov, hP⟩ := hv
    obtain ⟨r, hr, hor, hPr⟩ := hk k (by simp) v hP hov
    exact ⟨r, List.mem_flatMap.mpr ⟨v, hv, hr⟩, hor, hPr⟩

/-- the negated branch of a singleton pattern: always sound, the invariant is kept -/
theorem single_neg_step {tbl : ClassTable} {T : BoolTable} (L : NLaws tbl T) {l o : Obj} {m : Ty}
    (hl : l ∈ singles) (ho : objOk tbl T o = true) (hh : Obj.same o l = false)
    (hP : singOkM tbl m = true) (hm : mem tbl o m = true) :
    ∃ r ∈ applyK tbl T (.predicate (.equals l true) false) m, mem tbl o r = true ∧ singOkM tbl r = true := by
  have hlw : l.wf tbl = true := by
    simp only [singles, List.mem_cons, List.mem_nil_iff, or_false] at hl
    rcases hl with rfl | rfl | rfl <;> simp [Obj.wf]
  obtain ⟨r, hr, hor⟩ := kept_equals_neg (useIs := true) L hlw ho (by simpa using hh) hm
  refine ⟨r, hr, hor, ?_⟩
  rcases shape_equals (pred_mem hr) with h | h | ⟨b, _, _, rfl⟩ | ⟨e, i, rfl, _, _, _⟩
  · rw [h]; exact hP
  · rw [h]; exact singOkM_known tbl l
  · exact singOkM_known tbl _
  · simp [singles] at hl

/-- the positive branch of a singleton pattern on the (identical) subject -/
theorem single_pos_step {tbl : ClassTable} {T : BoolTable} {l : Obj} {m : Ty}
    (hl : l ∈ singles) (hP : singOkM tbl m = true) (hm : mem tbl l m = true) :
    ∃ r ∈ applyK tbl T (.predicate (.equals l true) true) m, mem tbl l r = true ∧ singOkM tbl r = true := by
  have hd : dK tbl T (.predicate (.equals l true) true) Ty.never l m = [] := by
    simp only [dK]
    simp only [singOkM, Bool.or_eq_true, List.all_eq_true, Bool.not_eq_true'] at hP
    cases hu : unann m with
    | known k => rfl
    | _ =>
      rw [hu] at hP
      simp only [Bool.false_eq_true, false_or] at hP
      rcases hP l hl with h | h
      · rw [hm] at h; cases h
      · simp [h]
  obtain ⟨r, hr, hor⟩ := kept_equals_pos (T := T) hd hm
  refine ⟨r, hr, hor, ?_⟩
  rcases shape_equals (pred_mem hr) with h | h | ⟨b, _, _, rfl⟩ | ⟨e, i, rfl, _, _, _⟩
  · rw [h]; exact hP
  · rw [h]; exact singOkM_known tbl l
  · exact singOkM_known tbl _
  · simp [singles] at hl

theorem matchSteps_keep {tbl : ClassTable} {T : BoolTable} (L : NLaws tbl T) {o : Obj}
    (ho : objOk tbl T o = true) : ∀ (ps : List Pat), singlePats ps = true → ∀ (vs : List Ty),
    (∃ v ∈ vs, mem tbl o v = true ∧ singOkM tbl v = true) →
    ∃ r ∈ applySeq tbl T (caseKs T ps (firstMatch tbl ps o)) vs, mem tbl o r = true ∧ singOkM tbl r = true
  | [], _, vs, hv => by simpa [caseKs_nil, applySeq] using hv
  | .singleton l :: ps, hp, vs, hv => by
    simp only [singlePats, Bool.and_eq_true] at hp
    have hl := mem_singles_of hp.1
    simp only [firstMatch, Pat.matches]
    by_cases hs : Obj.same o l = true
    · simp only [hs, if_true, caseKs_zero, ac_singleton_apply]
      have hsing : isSingleton tbl l = true := by
        simp only [singles, List.mem_cons, List.mem_nil_iff, or_false] at hl
        rcases hl with rfl | rfl | rfl <;> rfl
      obtain rfl := singleton_eq tbl hsing hs
      exact applySeq_keeps_inv (P := fun m => singOkM tbl m = true)
        (by intro k hk m hP hm
            simp only [List.mem_singleton] at hk; subst hk
            exact single_pos_step hl hP hm) hv
    · simp only [hs, Bool.false_eq_true, if_false, caseKs_succ, negKs_singleton, applySeq_append]
      apply matchSteps_keep L ho ps hp.2
      exact applySeq_keeps_inv (P := fun m => singOkM tbl m = true)
        (by intro k hk m hP hm
            simp only [List.mem_singleton] at hk; subst hk
            exact single_neg_step L hl ho (by simpa using hs) hP hm) hv
  | .wildcard :: ps, _, vs, hv => by
    simp only [firstMatch, Pat.matches, if_true, caseKs_zero, ac_wildcard_apply]
    exact applySeq_keeps_inv (P := fun m => singOkM tbl m = true)
      (by intro k hk m hP hm
          simp only [List.mem_singleton] at hk; subst hk
          exact ⟨m, by simp [applyK, applyPred], hm, hP⟩) hv
  | .value _ :: _, hp, _, _ => by simp [singlePats] at hp
  | .cls _ :: _, hp, _, _ => by simp [singlePats] at hp
  | .or _ :: _, hp, _, _ => by simp [singlePats] at hp

/-- a `match` statement whose patterns are `None` / `True` / `False` / `_`: the subject object
belongs to the type inferred in the body of the case that runs (or on the fall-through path) -/
theorem match_singletons_core {tbl : ClassTable} {T : BoolTable} (L : NLaws tbl T) {v : Ty}
    {ps : List Pat} {o : Obj} (hp : singlePats ps = true) (hv : singOk tbl v = true)
    (ho : objOk tbl T o = true) (hm : mem tbl o v = true) :
    mem tbl o (matchBody tbl T v ps (firstMatch tbl ps o)) = true := by
  unfold matchBody
  rw [mem_constrainKs_iff]
  obtain ⟨m, hmem, hom⟩ := (mem_iff_member tbl o v).mp hm
  have hP : singOkM tbl m = true := by
    simp only [singOk, List.all_eq_true] at hv; exact hv m hmem
  obtain ⟨r, hr, hor, _⟩ := matchSteps_keep L ho ps hp (flatten1 v) ⟨m, hmem, hom, hP⟩
  exact ⟨r, hr, hor⟩

/-! ### 12. boolean combinations with opaque operands and atoms on other variables -/

mutual
/-- **Satisfaction of an abstract constraint** by the run-time state, relative to a notion `G` of a
concrete constraint being true of it: the null constraint (an operand that says nothing about the
variable) is always satisfied, AND needs every part, OR one alternative. -/
def AC.Sat (G : K → Prop) : AC → Prop
  | .null => True
  | .k c => G c
  | .and cs => AC.SatAll G cs
  | .or cs => AC.SatAny G cs
  | .equiv cs => AC.SatAll G cs
  | .provider => True
  | .otherK => True
def AC.SatAll (G : K → Prop) : List AC → Prop
  | [] => True
  | c :: cs => AC.Sat G c ∧ AC.SatAll G cs
def AC.SatAny (G : K → Prop) : List AC → Prop
  | [] => False
  | c :: cs => AC.Sat G c ∨ AC.SatAny G cs
end

theorem satAll_iff {G : K → Prop} : ∀ {cs : List AC}, AC.SatAll G cs ↔ ∀ c ∈ cs, AC.Sat G c
  | [] => by simp [AC.SatAll]
  | c :: cs => by simp [AC.SatAll, satAll_iff (cs := cs)]

theorem satAny_iff {G : K → Prop} : ∀ {cs : List AC}, AC.SatAny G cs ↔ ∃ c ∈ cs, AC.Sat G c
  | [] => by simp [AC.SatAny]
  | c :: cs => by simp [AC.SatAny, satAny_iff (cs := cs)]

mutual
/-- a satisfied abstract constraint only activates concrete constraints that keep the object -/
theorem sat_apply {tbl : ClassTable} {T : BoolTable} {o : Obj} {G : K → Prop}
    (hG : ∀ k, G k → KeepsK tbl T k o) : ∀ (a : AC), AC.Sat G a → ∀ k ∈ a.apply, KeepsK tbl T k o
  | .null, _, k, hk => by simp [AC.apply] at hk
  | .k c, h, k, hk => by
    simp only [AC.apply, List.mem_singleton] at hk; subst hk; exact hG _ h
  | .and cs, h, k, hk => by
    simp only [AC.apply] at hk
    exact sat_applyL hG cs h k hk
  | .equiv cs, h, k, hk => by
    simp only [AC.apply] at hk
    exact sat_applyL hG cs h k hk
  | .provider, _, k, hk => by simp [AC.apply] at hk
  | .otherK, _, k, hk => by simp [AC.apply] at hk
  | .or cs, h, k, hk => by
    simp only [AC.apply, groups_eq] at hk
    cases hcs : cs.map AC.apply with
    | nil => rw [hcs] at hk; simp at hk
    | cons g gs =>
      rw [hcs] at hk
      simp only at hk
      split at hk
      · simp at hk
      · simp only [List.mem_singleton] at hk
        subst hk
        apply oneOf_keeps
        obtain ⟨c, hc, hsat⟩ := sat_any_pick cs h
        have : c.apply ∈ g :: gs := by rw [← hcs]; exact List.mem_map.mpr ⟨c, hc, rfl⟩
        exact ⟨groupK c.apply, List.mem_map.mpr ⟨_, this, rfl⟩,
          groupK_keeps (sat_apply hG c hsat)⟩
theorem sat_applyL {tbl : ClassTable} {T : BoolTable} {o : Obj} {G : K → Prop}
    (hG : ∀ k, G k → KeepsK tbl T k o) : ∀ (cs : List AC), AC.SatAll G cs →
    ∀ k ∈ AC.applyL cs, KeepsK tbl T k o
  | [], _, k, hk => by simp [AC.applyL] at hk
  | c :: cs, h, k, hk => by
    simp only [AC.applyL, List.mem_append] at hk
    rcases hk with hk | hk
    · exact sat_apply hG c h.1 k hk
    · exact sat_applyL hG cs h.2 k hk
theorem sat_any_pick {G : K → Prop} : ∀ (cs : List AC), AC.SatAny G cs → ∃ c, c ∈ cs ∧ AC.Sat G c
  | [], h => by cases h
  | c :: cs, h => by
    rcases h with h | h
    · exact ⟨c, by simp, h⟩
    · obtain ⟨c', hc', hs⟩ := sat_any_pick cs h
      exact ⟨c', by simp [hc'], hs⟩
end

theorem invertL_eq_map : ∀ (cs : List AC), AC.invertL cs = cs.map AC.invert
  | [] => rfl
  | c :: cs => by simp [AC.invertL, invertL_eq_map cs]

theorem acL_eq_map (T : BoolTable) : ∀ (bs : List BCond), BCond.acIdealL T bs = bs.map (BCond.acIdeal T)
  | [] => rfl
  | b :: bs => by simp [BCond.acIdealL, acL_eq_map T bs]

theorem holdsAll_iff (tbl : ClassTable) (ρ : Env) (o : Obj) : ∀ (bs : List BCond),
    holdsAll tbl ρ bs o = true ↔ ∀ b ∈ bs, holdsB tbl ρ b o = true
  | [] => by simp [holdsAll]
  | b :: bs => by simp [holdsAll, holdsAll_iff tbl ρ o bs]

theorem holdsAny_iff (tbl : ClassTable) (ρ : Env) (o : Obj) : ∀ (bs : List BCond),
    holdsAny tbl ρ bs o = true ↔ ∃ b ∈ bs, holdsB tbl ρ b o = true
  | [] => by simp [holdsAny]
  | b :: bs => by simp [holdsAny, holdsAny_iff tbl ρ o bs]

mutual
theorem sat_invert_invert {G : K → Prop} : ∀ (a : AC), AC.Sat G a → AC.Sat G a.invert.invert
  | .null, _ => by simp [AC.invert, AC.Sat]
  | .k c, h => by simpa [AC.invert, AC.Sat, K.invert_invert] using h
  | .and cs, h => by
    simp only [AC.invert, AC.Sat] at h ⊢
    exact satAll_invert_invert cs h
  | .or cs, h => by
    simp only [AC.invert, AC.Sat] at h ⊢
    exact satAny_invert_invert cs h
  | .equiv cs, h => by
    simp only [AC.invert, AC.Sat] at h ⊢
    exact satAll_invert_invert cs h
  | .provider, _ => by simp [AC.invert, AC.Sat]
  | .otherK, _ => by simp [AC.invert, AC.Sat]
theorem satAll_invert_invert {G : K → Prop} : ∀ (cs : List AC), AC.SatAll G cs →
    AC.SatAll G (AC.invertL (AC.invertL cs))
  | [], _ => by simp [AC.invertL, AC.SatAll]
  | c :: cs, h => by
    simp only [AC.invertL, AC.SatAll] at h ⊢
    exact ⟨sat_invert_invert c h.1, satAll_invert_invert cs h.2⟩
theorem satAny_invert_invert {G : K → Prop} : ∀ (cs : List AC), AC.SatAny G cs →
    AC.SatAny G (AC.invertL (AC.invertL cs))
  | [], h => by cases h
  | c :: cs, h => by
    simp only [AC.invertL, AC.SatAny] at h ⊢
    rcases h with h | h
    · exact Or.inl (sat_invert_invert c h)
    · exact Or.inr (satAny_invert_invert cs h)
end

theorem satAll_spliceAnd {G : K → Prop} : ∀ (cs : List AC), AC.SatAll G cs → AC.SatAll G (spliceAnd cs)
  | [], _ => by simp [spliceAnd, AC.SatAll]
  | c :: cs, h => by
    have ih := satAll_spliceAnd cs h.2
    cases c <;> simp only [spliceAnd, AC.SatAll] <;> try exact ⟨h.1, ih⟩
    rw [satAll_iff] at ih ⊢
    intro x hx
    rcases List.mem_append.mp hx with hx | hx
    · exact (satAll_iff.mp (by simpa [AC.Sat] using h.1)) x hx
    · exact ih x hx

theorem satAny_spliceOr {G : K → Prop} : ∀ (cs : List AC), AC.SatAny G cs → AC.SatAny G (spliceOr cs)
  | [], h => by cases h
  | c :: cs, h => by
    rw [satAny_iff] at h ⊢
    obtain ⟨x, hx, hs⟩ := h
    rcases List.mem_cons.mp hx with rfl | hx
    · cases x with
      | or ys =>
        simp only [AC.Sat] at hs
        obtain ⟨y, hy, hys⟩ := satAny_iff.mp hs
        exact ⟨y, by simp [spliceOr, hy], hys⟩
      | _ => exact ⟨_, by simp [spliceOr], hs⟩
    · obtain ⟨y, hy, hys⟩ := satAny_iff.mp (satAny_spliceOr cs (satAny_iff.mpr ⟨x, hx, hs⟩))
      cases c <;> simp only [spliceOr] <;> exact ⟨y, by simp [hy], hys⟩

/-- some element of the spliced conjunction has a satisfied inverse as soon as one conjunct has -/
theorem splice_and_inv {G : K → Prop} : ∀ (cs : List AC), (∃ c ∈ cs, AC.Sat G c.invert) →
    ∃ x ∈ spliceAnd cs, AC.Sat G x.invert
  | [], h => by simp at h
  | c :: cs, h => by
    obtain ⟨x, hx, hs⟩ := h
    rcases List.mem_cons.mp hx with rfl | hx
    · cases x with
      | and ys =>
        simp only [AC.invert, AC.Sat, invertL_eq_map] at hs
        obtain ⟨y, hy, hys⟩ := satAny_iff.mp hs
        obtain ⟨z, hz, rfl⟩ := List.mem_map.mp hy
        exact ⟨z, by simp [spliceAnd, hz], hys⟩
      | _ => exact ⟨_, by simp [spliceAnd], hs⟩
    · obtain ⟨y, hy, hys⟩ := splice_and_inv cs ⟨x, hx, hs⟩
      cases c <;> simp only [spliceAnd] <;> exact ⟨y, by simp [hy], hys⟩

theorem splice_or_inv {G : K → Prop} : ∀ (cs : List AC), (∀ c ∈ cs, AC.Sat G c.invert) →
    ∀ x ∈ spliceOr cs, AC.Sat G x.invert
  | [], _, x, hx => by simp [spliceOr] at hx
  | c :: cs, h, x, hx => by
    have ih := splice_or_inv cs (fun c' hc' => h c' (by simp [hc']))
    have hc := h c (by simp)
    cases c <;> simp only [spliceOr, List.mem_cons, List.mem_append] at hx <;>
      try (rcases hx with rfl | hx; exact hc; exact ih x hx)
    rcases hx with hx | hx
    · simp only [AC.invert, AC.Sat, invertL_eq_map] at hc
      exact (satAll_iff.mp hc) _ (List.mem_map.mpr ⟨x, hx, rfl⟩)
    · exact ih x hx

theorem dedupNull_sub : ∀ (xs : List AC), ∀ x ∈ dedupNull xs, x ∈ xs
  | [], x, hx => by simp [dedupNull] at hx
  | c :: cs, x, hx => by
    cases c with
    | null =>
      simp only [dedupNull, List.mem_cons, List.mem_filter] at hx
      rcases hx with rfl | hx
      · simp
      · exact List.mem_cons_of_mem _ hx.1
    | _ =>
      simp only [dedupNull, List.mem_cons] at hx
      rcases hx with rfl | hx
      · simp
      · exact List.mem_cons_of_mem _ (dedupNull_sub cs x hx)

theorem null_mem_dedupNull : ∀ {xs : List AC}, AC.null ∈ xs → AC.null ∈ dedupNull xs
  | c :: cs, h => by
    cases c with
    | null => simp [dedupNull]
    | _ =>
      simp only [List.mem_cons] at h
      rcases h with h | h
      · cases h
      · simp [dedupNull, null_mem_dedupNull h]

theorem absorbAnd_sub (xs : List AC) : ∀ x ∈ absorbAnd xs, x ∈ xs := by
  intro x hx
  unfold absorbAnd at hx
  split at hx
  · exact (List.mem_filter.mp (dedupNull_sub _ x hx)).1
  · exact hx

theorem absorbOr_sub (xs : List AC) : ∀ x ∈ absorbOr xs, x ∈ xs := by
  intro x hx
  unfold absorbOr at hx
  split at hx
  · exact (List.mem_filter.mp (dedupNull_sub _ x hx)).1
  · exact hx

theorem hasNull_iff (xs : List AC) : hasNull xs = true ↔ AC.null ∈ xs := by
  simp only [hasNull, List.any_eq_true]
  constructor
  · rintro ⟨x, hx, hn⟩; cases x <;> simp [AC.isNull] at hn; exact hx
  · intro h; exact ⟨_, h, rfl⟩

theorem null_mem_absorbAnd {xs : List AC} (h : AC.null ∈ xs) : AC.null ∈ absorbAnd xs := by
  unfold absorbAnd
  rw [(hasNull_iff xs).mpr h]
  exact null_mem_dedupNull (by simp [List.mem_filter, h])

theorem null_mem_absorbOr {xs : List AC} (h : AC.null ∈ xs) : AC.null ∈ absorbOr xs := by
  unfold absorbOr
  rw [(hasNull_iff xs).mpr h]
  exact null_mem_dedupNull (by simp [List.mem_filter, h])

theorem absorbAnd_of_not {xs : List AC} (h : hasNull xs = false) : absorbAnd xs = xs := by
  simp [absorbAnd, h]

theorem absorbOr_of_not {xs : List AC} (h : hasNull xs = false) : absorbOr xs = xs := by
  simp [absorbOr, h]

theorem sat_mkAnd {G : K → Prop} {cs : List AC} (h : ∀ c ∈ cs, AC.Sat G c) : AC.Sat G (AC.mkAnd cs) := by
  have h1 := satAll_iff.mp (satAll_spliceAnd cs (satAll_iff.mpr h))
  have h2 : ∀ x ∈ absorbAnd (spliceAnd cs), AC.Sat G x := fun x hx => h1 x (absorbAnd_sub _ x hx)
  unfold AC.mkAnd
  generalize absorbAnd (spliceAnd cs) = ys at h2
  match ys, h2 with
  | [], _ => simp [AC.Sat]
  | [c], h2 => exact h2 c (by simp)
  | c :: d :: r, h2 => simpa [AC.Sat] using satAll_iff.mpr h2

theorem sat_mkOr {G : K → Prop} {cs : List AC} (h : ∃ c ∈ cs, AC.Sat G c) : AC.Sat G (AC.mkOr cs) := by
  obtain ⟨x, hx, hs⟩ := satAny_iff.mp (satAny_spliceOr cs (satAny_iff.mpr h))
  have h2 : ∃ y ∈ absorbOr (spliceOr cs), AC.Sat G y := by
    cases hn : hasNull (spliceOr cs) with
    | false => rw [absorbOr_of_not hn]; exact ⟨x, hx, hs⟩
    | true => exact ⟨.null, null_mem_absorbOr ((hasNull_iff _).mp hn), by simp [AC.Sat]⟩
  unfold AC.mkOr
  generalize absorbOr (spliceOr cs) = ys at h2
  obtain ⟨y, hy, hys⟩ := h2
  match ys, hy with
  | [c], hy => simp only [List.mem_singleton] at hy; subst hy; exact hys
  | c :: d :: r, hy => simpa [AC.Sat] using satAny_iff.mpr ⟨y, hy, hys⟩

theorem sat_mkAnd_invert {G : K → Prop} {cs : List AC} (h : ∃ c ∈ cs, AC.Sat G c.invert) :
    AC.Sat G (AC.mkAnd cs).invert := by
  obtain ⟨x, hx, hs⟩ := splice_and_inv cs h
  have h2 : ∃ y ∈ absorbAnd (spliceAnd cs), AC.Sat G y.invert := by
    cases hn : hasNull (spliceAnd cs) with
    | false => rw [absorbAnd_of_not hn]; exact ⟨x, hx, hs⟩
    | true => exact ⟨.null, null_mem_absorbAnd ((hasNull_iff _).mp hn), by simp [AC.invert, AC.Sat]⟩
  unfold AC.mkAnd
  generalize absorbAnd (spliceAnd cs) = ys at h2
  obtain ⟨y, hy, hys⟩ := h2
  match ys, hy with
  | [c], hy => simp only [List.mem_singleton] at hy; subst hy; exact hys
  | c :: d :: r, hy =>
    simp only [AC.invert, AC.Sat, invertL_eq_map]
    exact satAny_iff.mpr ⟨y.invert, List.mem_map.mpr ⟨y, hy, rfl⟩, hys⟩

theorem sat_mkOr_invert {G : K → Prop} {cs : List AC} (h : ∀ c ∈ cs, AC.Sat G c.invert) :
    AC.Sat G (AC.mkOr cs).invert := by
  have hall : ∀ x ∈ absorbOr (spliceOr cs), AC.Sat G x.invert :=
    fun x hx => splice_or_inv cs h x (absorbOr_sub _ x hx)
  unfold AC.mkOr
  generalize absorbOr (spliceOr cs) = ys at hall
  match ys, hall with
  | [], _ => simp [AC.invert, AC.Sat]
  | [c], hall => exact hall c (by simp)
  | c :: d :: r, hall =>
    simp only [AC.invert, AC.Sat, invertL_eq_map]
    rw [satAll_iff]
    intro y hy
    obtain ⟨x, hx, rfl⟩ := List.mem_map.mp hy
    exact hall x hx

mutual
/-- **Every condition of the grammar**: in a state where the atoms on the narrowed variable are true
resp. false of its object as `holds` says and each of them, in that polarity, is a constraint that
keeps the object, the constraint of the whole condition is satisfied when the condition is true, and
the inverted constraint when it is false — whatever the object of the other variable and the opaque
bits are. -/
theorem bcond_sat {tbl : ClassTable} {T : BoolTable} {ρ : Env} {o : Obj} {G : K → Prop} :
    ∀ (b : BCond), (∀ c ∈ b.leaves, G (c.kAt T (holds tbl c o))) →
    (holdsB tbl ρ b o = true → AC.Sat G (b.acIdeal T)) ∧ (holdsB tbl ρ b o = false → AC.Sat G (b.acIdeal T).invert)
  | .leaf c, h => by
    have := h c (by simp [BCond.leaves])
    constructor <;> intro hh <;> simp only [holdsB] at hh <;> rw [hh] at this <;>
      simpa [BCond.acIdeal, AC.invert, AC.Sat, Cond.kAt] using this
  | .other c, _ => by simp [BCond.acIdeal, AC.invert, AC.Sat]
  | .capture c, _ => by simp [BCond.acIdeal, AC.invert, AC.Sat]
  | .opaque i, _ => by simp [BCond.acIdeal, AC.invert, AC.Sat]
  | .not b, h => by
    have ih := bcond_sat (ρ := ρ) b (by simpa [BCond.leaves] using h)
    constructor <;> intro hh <;> simp only [holdsB, Bool.not_eq_true', Bool.not_eq_false'] at hh
    · simpa [BCond.acIdeal] using ih.2 hh
    · simpa [BCond.acIdeal] using sat_invert_invert _ (ih.1 hh)
  | .and bs, h => by
    have ih := bcond_satL (ρ := ρ) bs (by simpa [BCond.leaves] using h)
    simp only [BCond.acIdeal, acL_eq_map, holdsB]
    constructor <;> intro hh
    · rw [holdsAll_iff] at hh
      apply sat_mkAnd
      intro c hc
      obtain ⟨b, hb, rfl⟩ := List.mem_map.mp (List.mem_reverse.mp hc)
      exact (ih b hb).1 (hh b hb)
    · apply sat_mkAnd_invert
      have : ∃ b ∈ bs, holdsB tbl ρ b o = false := by
        rw [Bool.eq_false_iff, ne_eq, holdsAll_iff] at hh
        by_cases hx : ∃ b ∈ bs, holdsB tbl ρ b o = false
        · exact hx
        · exact absurd (fun b hb => by
            cases hv : holdsB tbl ρ b o with
            | true => rfl
            | false => exact absurd ⟨b, hb, hv⟩ hx) hh
      obtain ⟨b, hb, hv⟩ := this
      exact ⟨b.acIdeal T, List.mem_reverse.mpr (List.mem_map.mpr ⟨b, hb, rfl⟩), (ih b hb).2 hv⟩
  | .or bs, h => by
    have ih := bcond_satL (ρ := ρ) bs (by simpa [BCond.leaves] using h)
    simp only [BCond.acIdeal, acL_eq_map, holdsB]
    constructor <;> intro hh
    · rw [holdsAny_iff] at hh
      obtain ⟨b, hb, hv⟩ := hh
      exact sat_mkOr ⟨b.acIdeal T, List.mem_map.mpr ⟨b, hb, rfl⟩, (ih b hb).1 hv⟩
    · apply sat_mkOr_invert
      intro c hc
      obtain ⟨b, hb, rfl⟩ := List.mem_map.mp hc
      apply (ih b hb).2
      cases hv : holdsB tbl ρ b o with
      | false => rfl
      | true =>
        rw [Bool.eq_false_iff, ne_eq, holdsAny_iff] at hh
        exact absurd ⟨b, hb, hv⟩ hh
theorem bcond_satL {tbl : ClassTable} {T : BoolTable} {ρ : Env} {o : Obj} {G : K → Prop} :
    ∀ (bs : List BCond), (∀ c ∈ BCond.leavesL bs, G (c.kAt T (holds tbl c o))) →
    ∀ b ∈ bs, (holdsB tbl ρ b o = true → AC.Sat G (b.acIdeal T)) ∧
      (holdsB tbl ρ b o = false → AC.Sat G (b.acIdeal T).invert)
  | [], _ => by simp
  | b' :: bs, h => by
    simp only [BCond.leavesL, List.mem_append] at h
    exact List.forall_mem_cons.mpr
      ⟨bcond_sat (ρ := ρ) b' (fun c hc => h c (Or.inl hc)),
       bcond_satL (ρ := ρ) bs (fun c hc => h c (Or.inr hc))⟩
end

/-- the value is kept by the narrowing of any condition of the grammar, in the branch taken -/
theorem narrowBIdeal_keeps_core {tbl : ClassTable} {T : BoolTable} {ρ : Env} {o : Obj} {v : Ty} {b : BCond}
    {pol : Bool} (hleaf : ∀ c ∈ b.leaves, KeepsK tbl T (c.kAt T (holds tbl c o)) o)
    (hm : mem tbl o v = true) (hh : holdsB tbl ρ b o = pol) :
    mem tbl o (narrowBIdeal tbl T v b pol) = true := by
  unfold narrowBIdeal constrain
  apply constrainKs_keeps _ hm
  have hs := bcond_sat (G := fun k => KeepsK tbl T k o) (ρ := ρ) b hleaf
  cases pol
  · simpa using sat_apply (fun _ h => h) _ (hs.2 hh)
  · simpa using sat_apply (fun _ h => h) _ (hs.1 hh)

/-- NULL is absorbing for OR: a disjunction with an operand that yields no constraint applies nothing -/
theorem mkOr_null_apply (cs : List AC) (h : AC.null ∈ cs) : (AC.mkOr cs).apply = [] := by
  have hin0 : AC.null ∈ spliceOr cs := by
    induction cs with
    | nil => simp at h
    | cons c cs ih =>
      rcases List.mem_cons.mp h with rfl | h'
      · simp [spliceOr]
      · cases c <;> simp [spliceOr, ih h']
  have hin := null_mem_absorbOr hin0
  unfold AC.mkOr
  generalize absorbOr (spliceOr cs) = xs at hin
  match xs, hin with
  | [c], hin => simp only [List.mem_singleton] at hin; subst hin; rfl
  | c :: d :: rest, hin =>
    simp only [AC.apply, groups_eq, List.map_cons]
    have : ([] : List K) ∈ (c :: d :: rest).map AC.apply := List.mem_map.mpr ⟨.null, hin, rfl⟩
    simp only [List.map_cons] at this
    rcases List.mem_cons.mp this with h0 | h0
    · simp [← h0]
    · have : (d.apply :: rest.map AC.apply).any List.isEmpty = true := List.any_eq_true.mpr ⟨[], h0, rfl⟩
      simp [this]


/-- the same for the constraint the checker really extracts, outside the class `nullAbsorbLeak` -/
theorem narrowB_keeps_core {tbl : ClassTable} {T : BoolTable} {ρ : Env} {o : Obj} {v : Ty} {b : BCond}
    {pol : Bool} (hleaf : ∀ c ∈ b.leaves, KeepsK tbl T (c.kAt T (holds tbl c o)) o)
    (hD : nullAbsorbLeak tbl T v b = [])
    (hm : mem tbl o v = true) (hh : holdsB tbl ρ b o = pol) :
    mem tbl o (narrowB tbl T v b pol) = true := by
  have hi := narrowBIdeal_keeps_core hleaf hm hh
  unfold nullAbsorbLeak at hD
  split at hD
  · rename_i hb
    simp only [Bool.and_eq_true] at hb
    cases pol
    · rw [Ty.beq_mem' tbl hb.2]; exact hi
    · rw [Ty.beq_mem' tbl hb.1]; exact hi
  · cases hD

/-! ### 13. the constraint extracted from the value of a condition, when `and` values do not leak -/

theorem isNull_iff (a : AC) : a.isNull = true ↔ a = .null := by
  cases a <;> simp [AC.isNull]

theorem extL_eq_map (T : BoolTable) : ∀ (bs : List BCond), BCond.extL T bs = bs.map fun b => (b.cv T).ext
  | [] => rfl
  | b :: bs => by simp [BCond.extL, extL_eq_map T bs]

theorem mem_flatL (T : BoolTable) {m : AC} : ∀ {bs : List BCond},
    m ∈ BCond.flatL T bs ↔ ∃ b ∈ bs, m ∈ (b.cv T).flat
  | [] => by simp [BCond.flatL]
  | b :: bs => by simp [BCond.flatL, mem_flatL T (bs := bs)]

theorem wfBL_iff : ∀ (bs : List BCond), BCond.wfBL bs = true ↔ ∀ b ∈ bs, b.wfB = true
  | [] => by simp [BCond.wfBL]
  | b :: bs => by simp [BCond.wfBL, wfBL_iff bs]

theorem flat_ne_of_members {v : CVal} (h : v.members ≠ []) : v.flat ≠ [] := by
  unfold CVal.flat
  split
  · exact h
  · simpa using h

mutual
theorem cv_members_ne (T : BoolTable) : ∀ (b : BCond), b.wfB = true → (b.cv T).members ≠ []
  | .leaf _, _ => by simp [BCond.cv]
  | .other _, _ => by simp [BCond.cv]
  | .capture _, _ => by simp [BCond.cv]
  | .opaque _, _ => by simp [BCond.cv]
  | .not _, _ => by simp [BCond.cv]
  | .and bs, hw => by
    simp only [BCond.wfB, Bool.and_eq_true, Bool.not_eq_true', List.isEmpty_eq_false_iff] at hw
    have := flatL_ne T bs hw.1 hw.2
    simp only [BCond.cv]
    split
    · simpa using this
    · simp
  | .or bs, hw => by
    simp only [BCond.wfB, Bool.and_eq_true, Bool.not_eq_true', List.isEmpty_eq_false_iff] at hw
    simpa [BCond.cv] using flatL_ne T bs hw.1 hw.2
theorem flatL_ne (T : BoolTable) : ∀ (bs : List BCond), bs ≠ [] → BCond.wfBL bs = true → BCond.flatL T bs ≠ []
  | [], h, _ => absurd rfl h
  | b :: bs, _, hw => by
    simp only [BCond.wfBL, Bool.and_eq_true] at hw
    simp only [BCond.flatL, ne_eq, List.append_eq_nil_iff, not_and]
    intro h0
    exact absurd h0 (flat_ne_of_members (cv_members_ne T b hw.1))
end

/-- the base constraint of a union of members (`OrConstraint.make`, or the member itself) -/
def baseOf (ms : List AC) : AC := match ms with
  | [m] => m
  | ms => AC.mkOr ms

theorem ext_eq (v : CVal) : v.ext = if v.top.isNull then baseOf v.members else v.top := rfl

theorem sat_baseOf {G : K → Prop} {ms : List AC} (h : ∃ m ∈ ms, AC.Sat G m) : AC.Sat G (baseOf ms) := by
  unfold baseOf
  split
  · obtain ⟨m, hm, hs⟩ := h; simp only [List.mem_singleton] at hm; subst hm; exact hs
  · exact sat_mkOr h

theorem sat_baseOf_invert {G : K → Prop} {ms : List AC} (h : ∀ m ∈ ms, AC.Sat G m.invert) :
    AC.Sat G (baseOf ms).invert := by
  unfold baseOf
  split
  · exact h _ (by simp)
  · exact sat_mkOr_invert h

/-- the two invariants of a value: its extracted constraint, and its members as an enclosing union sees them -/
def CvOk (G : K → Prop) (v : CVal) (t : Bool) : Prop :=
  if t then AC.Sat G v.ext ∧ ∃ m ∈ v.flat, AC.Sat G m
  else AC.Sat G v.ext.invert ∧ ∀ m ∈ v.flat, AC.Sat G m.invert

theorem cvOk_single {G : K → Prop} {a : AC} {t : Bool}
    (h : if t then AC.Sat G a else AC.Sat G a.invert) : CvOk G ⟨.null, [a]⟩ t := by
  unfold CvOk
  cases t <;> simp only [Bool.false_eq_true, if_false, if_true] at h ⊢ <;>
    simp [ext_eq, baseOf, CVal.flat, AC.isNull, h]

mutual
theorem cv_sat {tbl : ClassTable} {T : BoolTable} {ρ : Env} {o : Obj} {G : K → Prop}
    (hnl : T.andValueLeaks = false) : ∀ (b : BCond), b.wfB = true →
    (∀ c ∈ b.leaves, G (c.kAt T (holds tbl c o))) → CvOk G (b.cv T) (holdsB tbl ρ b o)
  | .leaf c, _, h => by
    apply cvOk_single
    have := h c (by simp [BCond.leaves])
    simp only [holdsB]
    by_cases hh : holds tbl c o = true
    · rw [hh] at this; simpa [hh, AC.Sat, Cond.kAt] using this
    · have hf : holds tbl c o = false := by simpa using hh
      rw [hf] at this; simpa [hf, AC.invert, AC.Sat, Cond.kAt] using this
  | .other c, _, _ => by
    simp only [BCond.cv]; apply cvOk_single; split <;> simp [AC.invert, AC.Sat]
  | .capture c, _, _ => by
    simp only [BCond.cv]; apply cvOk_single; split <;> simp [AC.invert, AC.Sat]
  | .opaque i, _, _ => by
    simp only [BCond.cv]; apply cvOk_single; split <;> simp [AC.invert, AC.Sat]
  | .not b, hw, h => by
    have ih := cv_sat (ρ := ρ) hnl b (by simpa [BCond.wfB] using hw) (by simpa [BCond.leaves] using h)
    simp only [BCond.cv, holdsB]
    apply cvOk_single
    unfold CvOk at ih
    cases hh : holdsB tbl ρ b o <;> simp only [hh, Bool.not_false, Bool.not_true, Bool.false_eq_true, if_false,
      if_true] at ih ⊢
    · exact ih.1
    · exact sat_invert_invert _ ih.1
  | .and bs, hw, h => by
    simp only [BCond.wfB, Bool.and_eq_true, Bool.not_eq_true', List.isEmpty_eq_false_iff] at hw
    have ih := cv_satL (ρ := ρ) hnl bs ((wfBL_iff bs).mp hw.2) (by simpa [BCond.leaves] using h)
    have hms : ∀ m ∈ [AC.null], m = AC.null := by
      intro m hm; simpa using hm
    have hne : ∃ m, m ∈ [AC.null] := ⟨.null, by simp⟩
    simp only [BCond.cv, hnl, Bool.false_eq_true, if_false, holdsB]
    generalize hms' : [AC.null] = ms at hms hne
    generalize htop : AC.mkAnd (BCond.extL T bs).reverse = top
    unfold CvOk
    cases hh : holdsAll tbl ρ bs o <;> simp only [Bool.false_eq_true, if_false, if_true]
    · -- some operand is false
      have hex : ∃ b ∈ bs, holdsB tbl ρ b o = false := by
        rw [Bool.eq_false_iff, ne_eq, holdsAll_iff] at hh
        by_cases hx : ∃ b ∈ bs, holdsB tbl ρ b o = false
        · exact hx
        · exact absurd (fun b hb => by
            cases hv : holdsB tbl ρ b o with
            | true => rfl
            | false => exact absurd ⟨b, hb, hv⟩ hx) hh
      obtain ⟨b, hb, hv⟩ := hex
      have hb' := ih b hb
      unfold CvOk at hb'
      simp only [hv, Bool.false_eq_true, if_false] at hb'
      have htopinv : AC.Sat G top.invert := by
        rw [← htop, extL_eq_map]
        exact sat_mkAnd_invert ⟨_, List.mem_reverse.mpr (List.mem_map.mpr ⟨b, hb, rfl⟩), hb'.1⟩
      simp only [ext_eq, CVal.flat]
      cases hn : top.isNull
      · simp only [Bool.false_eq_true, if_false]
        refine ⟨htopinv, ?_⟩
        intro m hm
        obtain ⟨m0, hm0, rfl⟩ := List.mem_map.mp hm
        rw [hms m0 hm0]
        have : nonNull [AC.null, top] = [top] := by
          simp only [nonNull, List.filter_cons, hn, Bool.not_false, if_true, List.filter_nil]
          rfl
        rw [this]
        exact sat_mkAnd_invert ⟨top, by simp, htopinv⟩
      · simp only [if_true]
        refine ⟨sat_baseOf_invert (fun m hm => by rw [hms m hm]; simp [AC.invert, AC.Sat]), ?_⟩
        intro m hm; rw [hms m hm]; simp [AC.invert, AC.Sat]
    · -- every operand is true
      rw [holdsAll_iff] at hh
      have htops : AC.Sat G top := by
        rw [← htop, extL_eq_map]
        apply sat_mkAnd
        intro c hc
        obtain ⟨b, hb, rfl⟩ := List.mem_map.mp (List.mem_reverse.mp hc)
        have hb' := ih b hb
        unfold CvOk at hb'
        simp only [hh b hb, if_true] at hb'
        exact hb'.1
      obtain ⟨m1, hm1⟩ := hne
      simp only [ext_eq, CVal.flat]
      cases hn : top.isNull
      · simp only [Bool.false_eq_true, if_false]
        refine ⟨htops, _, List.mem_map.mpr ⟨m1, hm1, rfl⟩, ?_⟩
        rw [hms m1 hm1]
        have : nonNull [AC.null, top] = [top] := by
          simp only [nonNull, List.filter_cons, hn, Bool.not_false, if_true, List.filter_nil]
          rfl
        rw [this]
        exact sat_mkAnd (by intro c hc; simp only [List.mem_singleton] at hc; subst hc; exact htops)
      · simp only [if_true]
        exact ⟨sat_baseOf ⟨m1, hm1, by rw [hms m1 hm1]; simp [AC.Sat]⟩, m1, hm1, by rw [hms m1 hm1]; simp [AC.Sat]⟩
  | .or bs, hw, h => by
    simp only [BCond.wfB, Bool.and_eq_true, Bool.not_eq_true', List.isEmpty_eq_false_iff] at hw
    have ih := cv_satL (ρ := ρ) hnl bs ((wfBL_iff bs).mp hw.2) (by simpa [BCond.leaves] using h)
    simp only [BCond.cv, holdsB]
    unfold CvOk
    simp only [ext_eq, CVal.flat, AC.isNull, if_true]
    cases hh : holdsAny tbl ρ bs o <;> simp only [Bool.false_eq_true, if_false, if_true]
    · have hall : ∀ m ∈ BCond.flatL T bs, AC.Sat G m.invert := by
        intro m hm
        obtain ⟨b, hb, hmb⟩ := (mem_flatL T).mp hm
        have hb' := ih b hb
        unfold CvOk at hb'
        have hv : holdsB tbl ρ b o = false := by
          cases hv : holdsB tbl ρ b o with
          | false => rfl
          | true =>
            rw [Bool.eq_false_iff, ne_eq, holdsAny_iff] at hh
            exact absurd ⟨b, hb, hv⟩ hh
        simp only [hv, Bool.false_eq_true, if_false] at hb'
        exact hb'.2 m hmb
      exact ⟨sat_baseOf_invert hall, hall⟩
    · rw [holdsAny_iff] at hh
      obtain ⟨b, hb, hv⟩ := hh
      have hb' := ih b hb
      unfold CvOk at hb'
      simp only [hv, if_true] at hb'
      obtain ⟨m, hm, hs⟩ := hb'.2
      have hmem : m ∈ BCond.flatL T bs := (mem_flatL T).mpr ⟨b, hb, hm⟩
      exact ⟨sat_baseOf ⟨m, hmem, hs⟩, m, hmem, hs⟩
theorem cv_satL {tbl : ClassTable} {T : BoolTable} {ρ : Env} {o : Obj} {G : K → Prop}
    (hnl : T.andValueLeaks = false) : ∀ (bs : List BCond), (∀ b ∈ bs, b.wfB = true) →
    (∀ c ∈ BCond.leavesL bs, G (c.kAt T (holds tbl c o))) →
    ∀ b ∈ bs, CvOk G (b.cv T) (holdsB tbl ρ b o)
  | [], _, _ => by simp
  | b' :: bs, hw, h => by
    simp only [BCond.leavesL, List.mem_append] at h
    exact List.forall_mem_cons.mpr
      ⟨cv_sat (ρ := ρ) hnl b' (hw b' (by simp)) (fun c hc => h c (Or.inl hc)),
       cv_satL (ρ := ρ) hnl bs (fun b hb => hw b (by simp [hb])) (fun c hc => h c (Or.inr hc))⟩
end

/-! ### 14. `match` statements with guards -/

/-- a notion of "good concrete constraint" closed under `one_of` / `all_of` -/
structure Closed (Good : K → Prop) : Prop where
  oneOf : ∀ ks, (∃ k ∈ ks, Good k) → Good (.oneOf ks)
  allOf : ∀ ks, (∀ k ∈ ks, Good k) → Good (.allOf ks)

theorem groupK_good {Good : K → Prop} (C : Closed Good) {ks : List K} (h : ∀ k ∈ ks, Good k) :
    Good (groupK ks) := by
  unfold groupK
  split
  · exact h _ (by simp)
  · exact C.allOf _ h

mutual
theorem satG_apply {Good : K → Prop} (C : Closed Good) : ∀ (a : AC), AC.Sat Good a → ∀ k ∈ a.apply, Good k
  | .null, _, k, hk => by simp [AC.apply] at hk
  | .k c, h, k, hk => by
    simp only [AC.apply, List.mem_singleton] at hk; subst hk; exact h
  | .and cs, h, k, hk => by
    simp only [AC.apply] at hk
    exact satG_applyL C cs h k hk
  | .equiv cs, h, k, hk => by
    simp only [AC.apply] at hk
    exact satG_applyL C cs h k hk
  | .provider, _, k, hk => by simp [AC.apply] at hk
  | .otherK, _, k, hk => by simp [AC.apply] at hk
  | .or cs, h, k, hk => by
    simp only [AC.apply, groups_eq] at hk
    cases hcs : cs.map AC.apply with
    | nil => rw [hcs] at hk; simp at hk
    | cons g gs =>
      rw [hcs] at hk
      simp only at hk
      split at hk
      · simp at hk
      · simp only [List.mem_singleton] at hk
        subst hk
        apply C.oneOf
        obtain ⟨c, hc, hsat⟩ := sat_any_pick cs h
        have : c.apply ∈ g :: gs := by rw [← hcs]; exact List.mem_map.mpr ⟨c, hc, rfl⟩
        exact ⟨groupK c.apply, List.mem_map.mpr ⟨_, this, rfl⟩, groupK_good C (satG_apply C c hsat)⟩
theorem satG_applyL {Good : K → Prop} (C : Closed Good) : ∀ (cs : List AC), AC.SatAll Good cs →
    ∀ k ∈ AC.applyL cs, Good k
  | [], _, k, hk => by simp [AC.applyL] at hk
  | c :: cs, h, k, hk => by
    simp only [AC.applyL, List.mem_append] at hk
    rcases hk with hk | hk
    · exact satG_apply C c h.1 k hk
    · exact satG_applyL C cs h.2 k hk
end

/-- the constraint keeps the object *and an invariant `P` of the members* -/
def KeepsP (tbl : ClassTable) (T : BoolTable) (P : Ty → Prop) (o : Obj) (k : K) : Prop :=
  ∀ m, P m → mem tbl o m = true → ∃ r ∈ applyK tbl T k m, mem tbl o r = true ∧ P r

theorem keepsP_closed (tbl : ClassTable) (T : BoolTable) (P : Ty → Prop) (o : Obj) :
    Closed (KeepsP tbl T P o) where
  oneOf := by
    intro ks ⟨k, hk, hkeep⟩ m hP hm
    obtain ⟨r, hr, hor⟩ := hkeep m hP hm
    simp only [applyK]
    exact ⟨r, mem_applyOne.mpr ⟨k, hk, hr⟩, hor⟩
  allOf := by
    intro ks h m hP hm
    simp only [applyK]
    exact applySeq_keeps_inv (P := P) (fun k hk m' hP' hm' => h k hk m' hP' hm') ⟨m, by simp, hm, hP⟩

theorem gcaseKs_zero (T : BoolTable) (c : MCase) (cs : List MCase) : gcaseKs T (c :: cs) 0 = c.posKs T := by
  simp [gcaseKs]

theorem gcaseKs_succ (T : BoolTable) (c : MCase) (cs : List MCase) (i : Nat) :
    gcaseKs T (c :: cs) (i + 1) = c.negKs T ++ gcaseKs T cs i := by
  simp [gcaseKs, List.append_assoc]

theorem gcaseKs_nil (T : BoolTable) (i : Nat) : gcaseKs T [] i = [] := by
  simp [gcaseKs]

/-- the side conditions on the guards of a statement: well-formed trees whose atoms on the subject are,
in the polarity they have for the object, constraints that keep the object and the invariant -/
def GuardsOk (tbl : ClassTable) (T : BoolTable) (P : Ty → Prop) (o : Obj) (cs : List MCase) : Prop :=
  ∀ c ∈ cs, ∀ g, c.guard = some g →
    g.wfB = true ∧ ∀ a ∈ g.leaves, KeepsP tbl T P o (a.kAt T (holds tbl a o))

theorem or_null_apply {xs : List AC} (h : AC.null ∈ xs) : (AC.or xs).apply = [] := by
  simp only [AC.apply, groups_eq]
  cases hx : xs.map AC.apply with
  | nil => rfl
  | cons g gs =>
    simp only
    have : ([] : List K) ∈ g :: gs := by rw [← hx]; exact List.mem_map.mpr ⟨.null, h, rfl⟩
    rcases List.mem_cons.mp this with h0 | h0
    · simp [← h0]
    · have : gs.any List.isEmpty = true := List.any_eq_true.mpr ⟨[], h0, rfl⟩
      simp [this]

/-- a conjunction with a `NULL` conjunct: its inverse applies nothing (`OR(…, NULL)`) -/
theorem mkAnd_null_invert_apply (cs : List AC) (h : AC.null ∈ cs) : (AC.mkAnd cs).invert.apply = [] := by
  have hin0 : AC.null ∈ spliceAnd cs := by
    induction cs with
    | nil => simp at h
    | cons c cs ih =>
      rcases List.mem_cons.mp h with rfl | h'
      · simp [spliceAnd]
      · cases c <;> simp [spliceAnd, ih h']
  have hin := null_mem_absorbAnd hin0
  unfold AC.mkAnd
  generalize absorbAnd (spliceAnd cs) = xs at hin
  match xs, hin with
  | [c], hin => simp only [List.mem_singleton] at hin; subst hin; rfl
  | c :: d :: rest, hin =>
    simp only [AC.invert]
    apply or_null_apply
    rw [invertL_eq_map]
    exact List.mem_map.mpr ⟨.null, hin, rfl⟩

theorem gmatchSteps_keep {tbl : ClassTable} {T : BoolTable} (L : NLaws tbl T) {ρ : Env} {o : Obj}
    (hnl : T.andValueLeaks = false) (ho : objOk tbl T o = true) :
    ∀ (cs : List MCase), gsinglePats cs = true →
    GuardsOk tbl T (fun m => singOkM tbl m = true) o cs → ∀ (vs : List Ty),
    (∃ v ∈ vs, mem tbl o v = true ∧ singOkM tbl v = true) →
    ∃ r ∈ applySeq tbl T (gcaseKs T cs (gfirstMatch tbl ρ cs o)) vs, mem tbl o r = true ∧ singOkM tbl r = true
  | [], _, _, vs, hv => by simpa [gcaseKs_nil, applySeq] using hv
  | c :: cs, hp, hg, vs, hv => by
    let P : Ty → Prop := fun m => singOkM tbl m = true
    have C := keepsP_closed tbl T P o
    have hp' : singlePats (c.pat :: cs.map MCase.pat) = true := by simpa [gsinglePats] using hp
    -- the guard's constraint is satisfied in the polarity of its truth
    have hguard : ∀ g, c.guard = some g →
        (holdsB tbl ρ g o = true → AC.Sat (KeepsP tbl T P o) (g.ac T)) ∧
        (holdsB tbl ρ g o = false → AC.Sat (KeepsP tbl T P o) (g.ac T).invert) := by
      intro g hgq
      obtain ⟨hw, hl⟩ := hg c (by simp) g hgq
      have := cv_sat (tbl := tbl) (ρ := ρ) (o := o) (G := KeepsP tbl T P o) hnl g hw hl
      unfold CvOk at this
      constructor <;> intro hh <;> simp only [hh, Bool.false_eq_true, if_false, if_true] at this <;> exact this.1
    have hrest : GuardsOk tbl T P o cs := fun c' hc' => hg c' (by simp [hc'])
    -- the pattern: positive and negative constraint
    have hpat : (c.pat.matches tbl o = true → ∀ k ∈ (c.pat.ac T).apply, KeepsP tbl T P o k) ∧
        (c.pat.matches tbl o = false → AC.Sat (KeepsP tbl T P o) (c.pat.ac T).invert) ∧
        singlePats (cs.map MCase.pat) = true := by
      cases hpt : c.pat with
      | singleton l =>
        rw [hpt] at hp'
        simp only [singlePats, Bool.and_eq_true] at hp'
        have hl := mem_singles_of hp'.1
        refine ⟨?_, ?_, hp'.2⟩
        · intro hm k hk
          simp only [ac_singleton_apply, List.mem_singleton] at hk; subst hk
          simp only [Pat.matches] at hm
          have hsing : isSingleton tbl l = true := by
            simp only [singles, List.mem_cons, List.mem_nil_iff, or_false] at hl
            rcases hl with rfl | rfl | rfl <;> rfl
          obtain rfl := singleton_eq tbl hsing hm
          intro m hP hmm
          exact single_pos_step hl hP hmm
        · intro hm
          simp only [Pat.matches] at hm
          simp only [Pat.ac, Cond.k, AC.invert, K.invert, AC.Sat, Bool.not_true]
          intro m hP hmm
          exact single_neg_step L hl ho hm hP hmm
      | wildcard =>
        rw [hpt] at hp'
        refine ⟨?_, ?_, by simpa [singlePats] using hp'⟩
        · intro _ k hk
          simp only [ac_wildcard_apply, List.mem_singleton] at hk; subst hk
          intro m hP hmm
          exact ⟨m, by simp [applyK, applyPred], hmm, hP⟩
        · intro hm; simp [Pat.matches] at hm
      | value _ => rw [hpt] at hp'; simp [singlePats] at hp'
      | cls _ => rw [hpt] at hp'; simp [singlePats] at hp'
      | or _ => rw [hpt] at hp'; simp [singlePats] at hp'
    simp only [gfirstMatch]
    by_cases ht : c.takes tbl ρ o = true
    · -- the case runs: pattern and guard constraints are active
      simp only [ht, if_true, gcaseKs_zero]
      simp only [MCase.takes, Bool.and_eq_true] at ht
      apply applySeq_keeps_inv (P := P) _ hv
      intro k hk
      simp only [MCase.posKs, MCase.acs] at hk
      cases hgq : c.guard with
      | none =>
        rw [hgq] at hk
        simp only [AC.applyL, List.append_nil] at hk
        exact hpat.1 ht.1 k hk
      | some g =>
        rw [hgq] at hk ht
        simp only [AC.applyL, List.append_nil, List.mem_append] at hk
        rcases hk with hk | hk
        · exact hpat.1 ht.1 k hk
        · exact satG_apply C _ ((hguard g hgq).1 ht.2) k hk
    · -- the case does not run: the inverse of AND(pattern, guard)
      have htf : c.takes tbl ρ o = false := by simpa using ht
      simp only [htf, Bool.false_eq_true, if_false, gcaseKs_succ, applySeq_append]
      apply gmatchSteps_keep L hnl ho cs (by simpa [gsinglePats] using hpat.2.2) hrest
      apply applySeq_keeps_inv (P := P) _ hv
      have hsat : AC.Sat (KeepsP tbl T P o) (AC.mkAnd (c.acs T)).invert := by
        apply sat_mkAnd_invert
        simp only [MCase.takes, Bool.and_eq_false_iff] at htf
        rcases htf with hm | hgf
        · exact ⟨c.pat.ac T, by simp [MCase.acs], hpat.2.1 hm⟩
        · cases hgq : c.guard with
          | none => rw [hgq] at hgf; simp at hgf
          | some g =>
            rw [hgq] at hgf
            exact ⟨g.ac T, by simp [MCase.acs, hgq], (hguard g hgq).2 hgf⟩
      intro k hk
      exact satG_apply C _ hsat k hk

/-- a `match` statement with singleton patterns / wildcards and arbitrary guards -/
theorem match_guarded_core {tbl : ClassTable} {T : BoolTable} (L : NLaws tbl T) {ρ : Env} {v : Ty}
    {cs : List MCase} {o : Obj} (hnl : T.andValueLeaks = false) (hp : gsinglePats cs = true)
    (hg : GuardsOk tbl T (fun m => singOkM tbl m = true) o cs) (hv : singOk tbl v = true)
    (ho : objOk tbl T o = true) (hm : mem tbl o v = true) :
    mem tbl o (gmatchBody tbl T v cs (gfirstMatch tbl ρ cs o)) = true := by
  unfold gmatchBody
  rw [mem_constrainKs_iff]
  obtain ⟨m, hmem, hom⟩ := (mem_iff_member tbl o v).mp hm
  have hP : singOkM tbl m = true := by
    simp only [singOk, List.all_eq_true] at hv; exact hv m hmem
  obtain ⟨r, hr, hor, _⟩ := gmatchSteps_keep L hnl ho cs hp hg (flatten1 v) ⟨m, hmem, hom, hP⟩
  exact ⟨r, hr, hor⟩

end Pya.C02
