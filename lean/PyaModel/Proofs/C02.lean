import PyaModel.Spec.NarrowSpec
import PyaModel.Spec.WF
import PyaModel.Proofs.C14
/-!
# Proofs/C02 — helper lemmas for the narrowing theorems

Sections: (1) objects: structural equality, `==` versus truthiness / length / class;
(2) membership through `unann`, `flatten1`, `unite`; (3) sequence forms; (4) the table laws in
usable form; (5) boolability; (6) one lemma per constraint kind ("the member that contains the object
is kept"); (7) the no-widening lemmas; (8) constraint algebra.
-/
namespace Pya.C02

/-! ### 1. objects -/

theorem objDeqL_eq_of (xs : List Obj) (h : ∀ x ∈ xs, ∀ y, objDeq x y = true → x = y) :
    ∀ ys, objDeqL xs ys = true → xs = ys := by
  induction xs with
  | nil => intro ys; cases ys <;> simp [objDeqL]
  | cons x xs ih =>
    intro ys
    cases ys with
    | nil => simp [objDeqL]
    | cons y ys =>
      simp only [objDeqL, Bool.and_eq_true, List.cons.injEq]
      intro ⟨h1, h2⟩
      exact ⟨h x (by simp) y h1, ih (fun x' hx' => h x' (by simp [hx'])) ys h2⟩

/-- structural equality is equality -/
theorem objDeq_eq (a : Obj) : ∀ b, objDeq a b = true → a = b := by
  induction a using Obj.ind' with
  | tuple xs ih | list xs ih | set xs ih | fset xs ih =>
    intro b h
    cases b <;> simp only [objDeq, Bool.false_eq_true] at h
    rw [objDeqL_eq_of _ ih _ h]
  | dict ks vs ihk ihv =>
    intro b h
    cases b <;> simp only [objDeq, Bool.false_eq_true, Bool.and_eq_true] at h
    rw [objDeqL_eq_of _ ihk _ h.1, objDeqL_eq_of _ ihv _ h.2]
  | _ => intro b h; cases b <;> simp_all [objDeq]

theorem pyEqList_length : ∀ (xs ys : List Obj), Obj.pyEqList xs ys = true → xs.length = ys.length
  | [], [] => by simp
  | [], _ :: _ => by simp [Obj.pyEqList]
  | _ :: _, [] => by simp [Obj.pyEqList]
  | _ :: xs, _ :: ys => by
    simp only [Obj.pyEqList, Bool.and_eq_true, List.length_cons]
    intro ⟨_, h⟩; rw [pyEqList_length xs ys h]

theorem isEmpty_of_length_eq {α β} {xs : List α} {ys : List β} (h : xs.length = ys.length) :
    xs.isEmpty = ys.isEmpty := by
  cases xs <;> cases ys <;> simp_all

/-- equal objects are both true or both false -/
theorem pyEq_truthy {a b : Obj} (h : Obj.pyEq a b = true) : truthy a = truthy b := by
  cases a <;> cases b <;> simp only [Obj.pyEq, Bool.false_eq_true, Bool.and_eq_true] at h <;>
    simp only [truthy]
  all_goals first
    | (have := pyEqList_length _ _ h; rw [isEmpty_of_length_eq this])
    | (have := pyEqList_length _ _ h.1; rw [isEmpty_of_length_eq this])
    | (simp only [beq_iff_eq] at h; subst h; rfl)
    | grind

theorem same_tag {a b : Obj} (h : Obj.same a b = true) : a.tag = b.tag := by
  simp only [Obj.same, Bool.and_eq_true, beq_iff_eq] at h; exact h.1

theorem same_pyEq {a b : Obj} (h : Obj.same a b = true) : Obj.pyEq a b = true := by
  simp only [Obj.same, Bool.and_eq_true] at h; exact h.2

theorem same_truthy {a b : Obj} (h : Obj.same a b = true) : truthy a = truthy b :=
  pyEq_truthy (same_pyEq h)

/-- `type(a) is type(b)` for same objects -/
theorem same_clsOf (tbl : ClassTable) {a b : Obj} (h : Obj.same a b = true) :
    clsOf tbl a = clsOf tbl b := by
  have ht := same_tag h
  have hp := same_pyEq h
  cases a <;> cases b <;> simp only [Obj.tag] at ht <;> try omega
  all_goals simp only [clsOf]
  all_goals simp_all [Obj.pyEq]

/-- same objects have the same length -/
theorem same_objLen {a b : Obj} (h : Obj.same a b = true) : objLen a = objLen b := by
  have ht := same_tag h
  have hp := same_pyEq h
  cases a <;> cases b <;> simp only [Obj.tag] at ht <;> try omega
  all_goals simp only [objLen]
  all_goals simp only [Obj.pyEq, Bool.and_eq_true, beq_iff_eq] at hp
  all_goals first
    | rfl
    | (subst hp; rfl)
    | (rw [pyEqList_length _ _ hp])
    | (rw [pyEqList_length _ _ hp.1])

/-- for singletons `is` determines the object -/
theorem singleton_eq (tbl : ClassTable) {o l : Obj} (hs : isSingleton tbl l = true)
    (h : Obj.same o l = true) : o = l := by
  have ht := same_tag h
  have hp := same_pyEq h
  cases l <;> simp only [isSingleton, Bool.false_eq_true] at hs <;>
    cases o <;> simp only [Obj.tag] at ht <;> (try omega) <;> simp_all [Obj.pyEq]

theorem CmpOp.neg_eval (op : CmpOp) (a b : Int) : op.neg.eval a b = !op.eval a b := by
  cases op <;> simp only [CmpOp.neg, CmpOp.eval] <;> grind

/-! ### 2. membership through `unann`, `flatten1`, `unite` -/

theorem mem_unann (tbl : ClassTable) (o : Obj) (m : Ty) : mem tbl o (unann m) = mem tbl o m := by
  cases m <;> simp [unann, mem]

theorem mem_unannAll (tbl : ClassTable) (o : Obj) : ∀ m : Ty, mem tbl o (unannAll m) = mem tbl o m
  | .annotated t => by rw [unannAll, mem_unannAll tbl o t]; simp [mem]
  | .any | .known _ | .typed _ | .newtype _ _ | .generic _ _ | .seq _ _ | .many _ | .union _
  | .subclass _ | .tvar _ => by simp [unannAll]

theorem memAny_iff (tbl : ClassTable) (o : Obj) (ts : List Ty) :
    memAny tbl o ts = true ↔ ∃ t ∈ ts, mem tbl o t = true := by
  rw [memAny_eq_any]; simp

theorem mem_iff_member (tbl : ClassTable) (o : Obj) (v : Ty) :
    mem tbl o v = true ↔ ∃ m ∈ flatten1 v, mem tbl o m = true := by
  rw [← memAny_flatten1, memAny_iff]

theorem mem_unite_iff (tbl : ClassTable) (o : Obj) (vs : List Ty) :
    mem tbl o (unite vs) = true ↔ ∃ v ∈ vs, mem tbl o v = true := by
  rw [unite_mem']; simp

theorem mem_never (tbl : ClassTable) (o : Obj) : mem tbl o Ty.never = false := by
  simp [Ty.never, mem, memAny]

/-- membership in the result of `_constrain_value`: some produced value contains the object -/
theorem mem_constrainKs_iff (tbl : ClassTable) (T : BoolTable) (o : Obj) (v : Ty) (ks : List K) :
    mem tbl o (constrainKs tbl T v ks) = true ↔
      ∃ r ∈ applySeq tbl T ks (flatten1 v), mem tbl o r = true := by
  unfold constrainKs
  cases hl : applySeq tbl T ks (flatten1 v) with
  | nil => simp [mem_never]
  | cons r rs => simp only [mem_unite_iff]

theorem applySeq_single (tbl : ClassTable) (T : BoolTable) (k : K) (vs : List Ty) :
    applySeq tbl T [k] vs = vs.flatMap fun v => applyK tbl T k v := by
  simp [applySeq]

/-! ### 3. sequence forms -/

theorem matchSeq_length (tbl : ClassTable) : ∀ (ms : List Ty) (xs : List Obj),
    hasManyMember ms = false → matchSeq tbl xs ms = true → xs.length = ms.length
  | [], xs, _, h => by cases xs <;> simp_all [matchSeq]
  | m :: ms, xs, hm, h => by
    cases m with
    | many t => simp [hasManyMember] at hm
    | _ =>
      cases xs with
      | nil => simp [matchSeq] at h
      | cons x xs =>
        simp only [hasManyMember] at hm
        simp only [matchSeq, Bool.and_eq_true] at h
        simp [matchSeq_length tbl ms xs hm h.2]

theorem matchSeq_nonempty (tbl : ClassTable) : ∀ (ms : List Ty) (xs : List Obj),
    isManyAll ms = false → matchSeq tbl xs ms = true → xs ≠ []
  | [], _, hm, _ => by simp [isManyAll] at hm
  | m :: ms, xs, hm, h => by
    cases m with
    | many t =>
      simp only [isManyAll] at hm
      cases xs with
      | nil =>
        simp only [matchSeq, Bool.or_false] at h
        exact absurd rfl (matchSeq_nonempty tbl ms [] hm h)
      | cons x xs => simp
    | _ => cases xs <;> simp_all [matchSeq]

/-- the members of a sequence form are tuples / lists matching the member pattern -/
theorem mem_seq_elems (tbl : ClassTable) {o : Obj} {c : Cls} {ms : List Ty}
    (h : mem tbl o (.seq c ms) = true) :
    ∃ xs, (o = .tuple xs ∨ o = .list xs) ∧ matchSeq tbl xs ms = true := by
  simp only [mem, Bool.and_eq_true] at h
  cases o <;> simp only [memSeq, Bool.false_eq_true, and_false] at h
  · exact ⟨_, Or.inl rfl, h.2⟩
  · exact ⟨_, Or.inr rfl, h.2⟩

/-! ### 4. the table laws in usable form -/

structure NLaws (tbl : ClassTable) (T : BoolTable) : Prop where
  boolDown : ∀ d, sub tbl d C.bool = true → d = C.bool
  boolRefl : tbl.issub C.bool C.bool = true
  boolUser : tbl.isUser C.bool = false
  boolMeta : ∀ k ∈ tbl.metaL, k ≠ C.bool
  enum : ∀ e, tbl.isEnum e = true → tbl.isUser e = true →
    14 ≤ e ∧ tbl.issub e e = true ∧ (∀ k ∈ tbl.metaL, k ≠ e) ∧ ∀ d, sub tbl d e = true → d = e
  typeBool : ∀ c, T.typeBool c = .erroring ∨ T.typeBool c = .boolable ∨ T.typeBool c = .typeTrue

theorem issub_lt {tbl : ClassTable} {d e : Cls} (h : tbl.issub d e = true) :
    d < tbl.issubM.length := by
  unfold ClassTable.issub at h
  by_cases hd : d < tbl.issubM.length
  · exact hd
  · have : tbl.issubM[d]? = none := List.getElem?_eq_none (Nat.le_of_not_lt ‹_›)
    simp [List.getD_eq_getElem?_getD, this] at h

theorem sub_lt {tbl : ClassTable} {d e : Cls} (h : sub tbl d e = true) : d < tbl.issubM.length := by
  simp only [sub, Bool.or_eq_true, Bool.and_eq_true] at h
  rcases h with (h | h) | h
  · exact issub_lt h
  · exact issub_lt h.1
  · exact issub_lt h.1

theorem isEnum_lt {tbl : ClassTable} {e : Cls} (h : tbl.isEnum e = true) : e < tbl.enumL.length := by
  unfold ClassTable.isEnum at h
  by_cases hd : e < tbl.enumL.length
  · exact hd
  · have : tbl.enumL[e]? = none := List.getElem?_eq_none (Nat.le_of_not_lt ‹_›)
    simp [List.getD_eq_getElem?_getD, this] at h

theorem nlaws_of (tbl : ClassTable) (T : BoolTable) (h : narrowLaws tbl T = true) : NLaws tbl T := by
  simp only [narrowLaws, Bool.and_eq_true, allBelow_iff, Bool.or_eq_true,
    beq_iff_eq, List.all_eq_true, bne_iff_ne, ne_eq, decide_eq_true_eq, Bool.not_eq_eq_eq_not,
    Bool.not_true, Bool.and_eq_false_iff] at h
  obtain ⟨⟨⟨⟨⟨h1, h2⟩, h3⟩, h4⟩, h5⟩, h6⟩ := h
  refine ⟨?_, h2, h3, h4, ?_, ?_⟩
  · intro d hd
    rcases h1 d (sub_lt hd) with h | h
    · rw [h] at hd; cases hd
    · exact h
  · intro e he hu
    rcases h5 e (isEnum_lt he) with h | h
    · rcases h with h | h <;> simp_all
    · refine ⟨h.1.1.1, h.1.1.2, h.1.2, ?_⟩
      intro d hd
      rcases h.2 d (sub_lt hd) with h' | h'
      · rw [h'] at hd; cases hd
      · exact h'
  · intro c
    unfold BoolTable.typeBool
    by_cases hc : c < T.typeBoolL.length
    · have := h6 _ (List.getElem_mem hc)
      have he : T.typeBoolL.getD c 2 = T.typeBoolL[c] := by
        simp [List.getD_eq_getElem?_getD, List.getElem?_eq_getElem hc]
      rw [he]
      rcases this with (h | h) | h <;> rw [h] <;> simp [Boolab.ofCode]
    · have : T.typeBoolL[c]? = none := List.getElem?_eq_none (Nat.le_of_not_lt ‹_›)
      simp [List.getD_eq_getElem?_getD, this, Boolab.ofCode]

theorem metaOf_ne {tbl : ClassTable} {k : Cls} (h : ∀ x ∈ tbl.metaL, x ≠ k) (hk : k ≠ C.type)
    (c : Cls) : tbl.metaOf c ≠ k := by
  unfold ClassTable.metaOf
  by_cases hc : c < tbl.metaL.length
  · have he : tbl.metaL.getD c C.type = tbl.metaL[c] := by
      simp [List.getD_eq_getElem?_getD, List.getElem?_eq_getElem hc]
    rw [he]; exact h _ (List.getElem_mem hc)
  · have : tbl.metaL[c]? = none := List.getElem?_eq_none (Nat.le_of_not_lt hc)
    simp only [List.getD_eq_getElem?_getD, this, Option.getD_none]
    exact fun e => hk e.symm

/-- the objects of type `bool` are the two booleans -/
theorem bool_of_mem {tbl : ClassTable} {T : BoolTable} (L : NLaws tbl T) {o : Obj}
    (ho : o.wf tbl = true) (h : mem tbl o (.typed C.bool) = true) : ∃ b, o = .bool b := by
  simp only [mem] at h
  have hc := L.boolDown _ h
  cases o with
  | bool b => exact ⟨b, rfl⟩
  | inst c i =>
    simp only [clsOf] at hc
    simp only [Obj.wf, Bool.and_eq_true] at ho
    rw [hc, L.boolUser] at ho; simp at ho
  | cls c => exact absurd hc (metaOf_ne L.boolMeta (by decide) _)
  | _ => exact absurd hc (by simp only [clsOf]; decide)

/-- the objects of an Enum class of the universe are its members -/
theorem enum_of_mem {tbl : ClassTable} {T : BoolTable} (L : NLaws tbl T) {o : Obj} {e : Cls}
    (he : tbl.isEnum e = true) (hu : tbl.isUser e = true)
    (h : mem tbl o (.typed e) = true) : ∃ j, o = .inst e j := by
  simp only [mem] at h
  obtain ⟨h14, _, hmeta, hdown⟩ := L.enum e he hu
  have hc := hdown _ h
  cases o with
  | inst c i => simp only [clsOf] at hc; exact ⟨i, by rw [hc]⟩
  | cls c => exact absurd hc (metaOf_ne hmeta (by intro h; subst h; revert h14; decide) _)
  | _ => exfalso; simp only [clsOf] at hc; subst hc; revert h14; decide

theorem issub_sub {tbl : ClassTable} {a e : Cls} (h : tbl.issub a e = true) : sub tbl a e = true := by
  simp [sub, h]

/-! ### 5. boolability -/

theorem falsy_cls (tbl : ClassTable) {o : Obj} (h : truthy o = false) :
    clsOf tbl o ∈ falsyClasses := by
  cases o <;> simp only [truthy, Bool.true_eq_false] at h <;> simp [clsOf, falsyClasses]

/-- a member whose boolability is "always false" (mutable or not) only has falsy objects -/
theorem boolNoMvv_false_sound {tbl : ClassTable} {T : BoolTable} (L : NLaws tbl T) {m : Ty} {o : Obj}
    (hb : boolNoMvv tbl T m = .vaFalse ∨ boolNoMvv tbl T m = .vaFalseMut)
    (hm : mem tbl o m = true) : truthy o = false := by
  rw [← mem_unannAll] at hm
  unfold boolNoMvv at hb
  generalize unannAll m = u at hb hm
  cases u with
  | seq c ms =>
    obtain ⟨xs, hx, hmatch⟩ := mem_seq_elems tbl hm
    simp only at hb
    split at hb
    · rename_i he
      have : ms = [] := by cases ms <;> simp_all
      subst this
      have : xs = [] := by cases xs <;> simp_all [matchSeq]
      rcases hx with hx | hx <;> simp [hx, this, truthy]
    · split at hb <;> (try split at hb) <;> rcases hb with hb | hb <;> cases hb
  | known k =>
    simp only [mem] at hm
    rw [same_truthy hm]
    cases k <;> simp only at hb
    case tuple xs | list xs | set xs =>
      split at hb
      · rename_i he; simp [truthy, he]
      · rcases hb with hb | hb <;> cases hb
    case dict ks vs =>
      split at hb
      · rename_i he; simp [truthy, he]
      · rcases hb with hb | hb <;> cases hb
    all_goals
      split at hb
      · split at hb <;> rcases hb with hb | hb <;> cases hb
      · rename_i ht; simpa using ht
  | typed c | newtype _ c | generic c _ =>
    simp only at hb
    rcases L.typeBool c with h | h | h <;> rw [h] at hb <;> rcases hb with hb | hb <;> cases hb
  | _ => simp only at hb; rcases hb with hb | hb <;> cases hb

/-- a member whose boolability is "always true" only has truthy objects, unless its class is one of
the always-true classes with a falsy class below (`leakM`) -/
theorem boolNoMvv_true_sound {tbl : ClassTable} {T : BoolTable} {m : Ty} {o : Obj}
    (hb : (boolNoMvv tbl T m).safelyTrue = true) (hl : leakM tbl T m = false)
    (hm : mem tbl o m = true) : truthy o = true := by
  rw [← mem_unannAll] at hm
  unfold boolNoMvv at hb
  unfold leakM at hl
  generalize unannAll m = u at hb hm hl
  cases u with
  | seq c ms =>
    obtain ⟨xs, hx, hmatch⟩ := mem_seq_elems tbl hm
    simp only at hb
    split at hb
    · split at hb <;> cases hb
    · split at hb
      · cases hb
      · rename_i hne hmany
        have := matchSeq_nonempty tbl ms xs (by simpa using hmany) hmatch
        rcases hx with hx | hx <;> cases xs <;> simp_all [truthy]
  | known k =>
    simp only [mem] at hm
    rw [same_truthy hm]
    cases k <;> simp only at hb
    case tuple xs | list xs | set xs =>
      split at hb
      · cases hb
      · rename_i he; simpa [truthy] using he
    case dict ks vs =>
      split at hb
      · cases hb
      · rename_i he; simpa [truthy] using he
    all_goals
      split at hb
      · assumption
      · split at hb <;> cases hb
  | subclass c =>
    cases o <;> simp only [mem, Bool.false_eq_true] at hm
    rfl
  | typed c | newtype _ c | generic c _ =>
    simp only [typedHead, hb, Bool.true_and] at hb hl
    cases ht : truthy o with
    | true => rfl
    | false =>
      exfalso
      have hf := falsy_cls tbl ht
      rw [Bool.eq_false_iff, ne_eq, List.any_eq_true] at hl
      apply hl
      refine ⟨_, hf, ?_⟩
      simp only [mem, Bool.and_eq_true, beq_iff_eq] at hm
      simp only [Bool.or_eq_true, beq_iff_eq]
      first
        | exact Or.inr hm
        | exact Or.inl hm
        | exact Or.inr hm.1
  | _ => simp only at hb; cases hb

theorem safelyFalse_iff (b : Boolab) : b.safelyFalse = true ↔ b = .vaFalse := by
  cases b <;> simp [Boolab.safelyFalse]

theorem unannAll_idem (m : Ty) : unannAll (unannAll m) = unannAll m := by
  induction m using Ty.ind' <;> simp_all [unannAll]

/-- for a member that is not a union, `get_boolability` is `_get_boolability_no_mvv` -/
theorem getBool_member (tbl : ClassTable) (T : BoolTable) {m : Ty} (h : memberOk m = true) :
    getBool tbl T (unann m) = boolNoMvv tbl T m := by
  have hu : unannAll m = unann m ∧ (∀ ts, unann m ≠ .union ts) := by
    unfold memberOk at h
    cases m with
    | annotated t => cases t <;> simp_all [unann, unannAll]
    | _ => simp_all [unann, unannAll]
  have h2 : unannAll (unann m) = unann m := by rw [← hu.1, unannAll_idem]
  unfold getBool
  rw [h2]
  have : boolNoMvv tbl T (unann m) = boolNoMvv tbl T m := by
    unfold boolNoMvv; rw [h2, hu.1]
  cases hm : unann m with
  | union ts => exact absurd hm (hu.2 ts)
  | _ => simp only [← hm, this]

/-! ### 6. one lemma per constraint kind: the member that contains the object is kept -/

/-- some value produced from the member `m` by the constraint contains the object -/
def Kept (tbl : ClassTable) (T : BoolTable) (k : K) (o : Obj) (m : Ty) : Prop :=
  ∃ r ∈ applyK tbl T k m, mem tbl o r = true

theorem kept_isAssignable_pos {tbl : ClassTable} {T : BoolTable} {pat m : Ty} {po : Bool} {o : Obj}
    (hov : overlapping tbl pat m = true) (hp : mem tbl o pat = true) (hm : mem tbl o m = true) :
    Kept tbl T (.predicate (.isAssignable pat po) true) o m := by
  unfold Kept
  simp only [applyK, applyPred, hov, Bool.not_true, Bool.false_eq_true, if_false, if_true]
  by_cases h1 : ca tbl false pat m = true
  · by_cases h2 : univAssignable m (unann pat) = true <;> simp [h1, h2, hp, hm]
  · simp [h1, hp]

theorem kept_isAssignable_neg {tbl : ClassTable} {T : BoolTable} {pat m : Ty} {po : Bool} {o : Obj}
    (hd : (!po && ca tbl false pat m && !univAssignable m (unann pat)) = false)
    (hm : mem tbl o m = true) :
    Kept tbl T (.predicate (.isAssignable pat po) false) o m := by
  unfold Kept
  simp only [applyK, applyPred, Bool.false_eq_true, if_false, hd]
  simp [hm]

theorem kept_isValueObject {tbl : ClassTable} {T : BoolTable} {t m : Ty} {pos : Bool} {o : Obj}
    (hp : pos = true → mem tbl o t = true) (hm : mem tbl o m = true) :
    Kept tbl T (.isValueObject t pos) o m := by
  unfold Kept
  cases pos <;> simp_all [applyK]

theorem kept_isTruthy_pos {tbl : ClassTable} {T : BoolTable} (L : NLaws tbl T) {m : Ty} {o : Obj}
    (hok : memberOk m = true) (ht : truthy o = true) (hm : mem tbl o m = true) :
    Kept tbl T (.isTruthy true) o m := by
  unfold Kept
  simp only [applyK, if_true, getBool_member tbl T hok]
  cases hb : (boolNoMvv tbl T m).safelyFalse with
  | false => simp [hm]
  | true =>
    rw [safelyFalse_iff] at hb
    have := boolNoMvv_false_sound L (Or.inl hb) hm
    rw [ht] at this; cases this

theorem kept_isTruthy_neg {tbl : ClassTable} {T : BoolTable} {m : Ty} {o : Obj}
    (hd : ((getBool tbl T (unann m)).safelyTrue && !truthy o) = false) (ht : truthy o = false)
    (hm : mem tbl o m = true) : Kept tbl T (.isTruthy false) o m := by
  unfold Kept
  simp only [applyK, Bool.false_eq_true, if_false]
  simp only [ht, Bool.not_false, Bool.and_true] at hd
  simp [hd, hm]

theorem ite_list_nil {α} {c : Prop} [Decidable c] {x : α} : (if c then [x] else ([] : List α)) = [] ↔ ¬c := by
  by_cases h : c <;> simp [h]

theorem kept_isInstance_pos {tbl : ClassTable} {T : BoolTable} {c : Cls} {tst m : Ty} {o : Obj}
    (hok : memberOk m = true) (hh : tbl.issub (clsOf tbl o) c = true)
    (hd : dK tbl T (.isInstance c true) tst o m = []) (hm : mem tbl o m = true) :
    Kept tbl T (.isInstance c true) o m := by
  have hm' := hm
  rw [← mem_unann] at hm'
  have hc : mem tbl o (.typed c) = true := by simp [mem, issub_sub hh]
  unfold Kept
  unfold memberOk at hok
  simp only [dK, applyK, if_true] at hd ⊢
  generalize unann m = u at hd hm' hok ⊢
  cases u with
  | any => simp [hc]
  | known k =>
    simp only [mem] at hm'
    simp [← same_clsOf tbl hm', hh, hm]
  | subclass d =>
    simp only [ite_list_nil, Bool.not_eq_true', Bool.not_eq_false] at hd
    simp [hd, hm]
  | typed d | newtype _ d | generic d _ | seq d _ =>
    simp only [typOf?, ite_list_nil, Bool.and_eq_true, Bool.not_eq_true', not_and, Bool.not_eq_false] at hd ⊢
    by_cases h1 : tbl.issub d c = true
    · simp [h1, hm]
    · simp only [h1, Bool.false_eq_true, if_false]
      simp [hd (by simpa using h1), hc]
  | annotated _ | union _ => simp at hok
  | many _ | tvar _ => simp [mem] at hm'

theorem kept_isInstance_neg {tbl : ClassTable} {T : BoolTable} {c : Cls} {tst m : Ty} {o : Obj}
    (hok : memberOk m = true) (hh : tbl.issub (clsOf tbl o) c = false)
    (hd : dK tbl T (.isInstance c false) tst o m = []) (hm : mem tbl o m = true) :
    Kept tbl T (.isInstance c false) o m := by
  have hm' := hm
  rw [← mem_unann] at hm'
  unfold Kept
  unfold memberOk at hok
  simp only [dK, applyK, Bool.false_eq_true, if_false] at hd ⊢
  generalize unann m = u at hd hm' hok ⊢
  cases u with
  | any => simp [mem]
  | known k =>
    simp only [mem] at hm'
    simp [← same_clsOf tbl hm', hh, hm]
  | subclass d =>
    by_cases h1 : tbl.issub (tbl.metaOf d) c = true
    · simp only [h1, if_true] at hd; split at hd <;> cases hd
    · simp [h1, hm]
  | typed d | newtype _ d | generic d _ | seq d _ =>
    simp only [typOf?] at hd ⊢
    by_cases h1 : tbl.issub d c = true
    · simp only [h1, if_true] at hd; split at hd <;> cases hd
    · simp [h1, hm]
  | annotated _ | union _ => simp at hok
  | many _ | tvar _ => simp [mem] at hm'

theorem mem_known_self (tbl : ClassTable) (l : Obj) : mem tbl l (.known l) = true := by
  simp [mem, Obj.same_refl]

theorem kept_isValue_pos {tbl : ClassTable} {T : BoolTable} {l : Obj} {tst m : Ty}
    (hok : memberOk m = true)
    (hd : dK tbl T (.isValue l true) tst l m = []) (hm : mem tbl l m = true) :
    Kept tbl T (.isValue l true) l m := by
  have hm' := hm
  rw [← mem_unann] at hm'
  unfold Kept
  unfold memberOk at hok
  simp only [dK, applyK, if_true] at hd ⊢
  generalize unann m = u at hd hm' hok ⊢
  cases u with
  | any => simp [mem_known_self]
  | known k =>
    simp only [mem] at hm'
    rw [Obj.same_comm] at hm'
    simp [hm', hm]
  | subclass d =>
    cases l <;> simp only [mem, Bool.false_eq_true] at hm'
    simp only [ite_list_nil, Bool.not_eq_true', Bool.not_eq_false] at hd
    simp [hd, mem_known_self]
  | typed d | newtype _ d | generic d _ | seq d _ =>
    simp only [typOf?, ite_list_nil, Bool.not_eq_true', Bool.not_eq_false] at hd ⊢
    simp [hd, mem_known_self]
  | annotated _ | union _ => simp at hok
  | many _ | tvar _ => simp [mem] at hm'

theorem kept_isValue_neg {tbl : ClassTable} {T : BoolTable} {l o : Obj} {m : Ty}
    (hh : Obj.same o l = false) (hm : mem tbl o m = true) :
    Kept tbl T (.isValue l false) o m := by
  have hm' := hm
  rw [← mem_unann] at hm'
  unfold Kept
  simp only [applyK, Bool.false_eq_true, if_false]
  generalize unann m = u at hm' ⊢
  cases u with
  | known k =>
    simp only [mem] at hm'
    by_cases h1 : Obj.same k l = true
    · rw [Obj.same_trans hm' h1] at hh; cases hh
    · simp [h1, hm]
  | _ => simp [hm]

theorem mem_enumRest (tbl : ClassTable) (T : BoolTable) (e j : Nat) (drop : Nat → Bool)
    (hj : j < T.enumCount e) (hd : drop j = false) :
    mem tbl (.inst e j) (enumRest T e drop) = true := by
  unfold enumRest
  rw [mem_unite_iff]
  refine ⟨.known (.inst e j), ?_, mem_known_self tbl _⟩
  simp only [List.mem_map, List.mem_filter, List.mem_range]
  exact ⟨j, ⟨hj, by simp [hd]⟩, rfl⟩

theorem kept_equals_pos {tbl : ClassTable} {T : BoolTable} {l : Obj} {useIs : Bool} {tst m : Ty}
    (hd : dK tbl T (.predicate (.equals l useIs) true) tst l m = []) (hm : mem tbl l m = true) :
    Kept tbl T (.predicate (.equals l useIs) true) l m := by
  have hm' := hm
  rw [← mem_unann] at hm'
  unfold Kept
  simp only [dK, applyK, applyPred] at hd ⊢
  generalize unann m = u at hd hm' ⊢
  cases u with
  | known k =>
    simp only [mem] at hm'
    rw [Obj.same_comm] at hm'
    cases useIs <;> simp [hm', same_pyEq hm', hm]
  | _ =>
    simp only [ite_list_nil, Bool.not_eq_true', Bool.not_eq_false] at hd
    simp [hd, mem_known_self]

theorem objOk_wf {tbl : ClassTable} {T : BoolTable} {o : Obj} (h : objOk tbl T o = true) :
    o.wf tbl = true := by
  simp only [objOk, Bool.and_eq_true] at h; exact h.1

theorem kept_equals_neg {tbl : ClassTable} {T : BoolTable} (L : NLaws tbl T) {l o : Obj}
    {useIs : Bool} {m : Ty} (hl : l.wf tbl = true) (ho : objOk tbl T o = true)
    (hh : (if useIs then Obj.same o l else Obj.pyEq o l) = false) (hm : mem tbl o m = true) :
    Kept tbl T (.predicate (.equals l useIs) false) o m := by
  have hm' := hm
  rw [← mem_unann] at hm'
  unfold Kept
  simp only [applyK, applyPred]
  generalize unann m = u at hm' ⊢
  cases u with
  | known k =>
    simp only [mem] at hm'
    cases useIs
    · simp only [Bool.false_eq_true, if_false] at hh ⊢
      by_cases h1 : Obj.pyEq k l = true
      · rw [Obj.pyEq_trans _ _ _ (same_pyEq hm') h1] at hh; cases hh
      · simp [h1, hm]
    · simp only [if_true] at hh ⊢
      by_cases h1 : Obj.same k l = true
      · rw [Obj.same_trans hm' h1] at hh; cases hh
      · simp [h1, hm]
  | typed c =>
    cases l with
    | bool b =>
      by_cases hc : c = C.bool
      · subst hc
        obtain ⟨b', rfl⟩ := bool_of_mem L (objOk_wf ho) hm'
        have : b' = !b := by
          cases useIs <;> simp only [Bool.false_eq_true, if_false, if_true, Obj.same, Obj.tag,
            Obj.pyEq, beq_self_eq_true, Bool.true_and] at hh <;> cases b <;> cases b' <;> simp_all
        subst this
        simp [mem_known_self]
      · simp [hc, hm]
    | inst e i =>
      by_cases hc : (tbl.isEnum e && c == e) = true
      · simp only [Bool.and_eq_true, beq_iff_eq] at hc
        obtain ⟨he, rfl⟩ := hc
        simp only [Obj.wf, Bool.and_eq_true] at hl
        obtain ⟨j, rfl⟩ := enum_of_mem L he hl.2 hm'
        simp only [objOk, Bool.and_eq_true, he, Bool.not_true, Bool.false_or, decide_eq_true_eq] at ho
        have hji : (j == i) = false := by
          cases useIs <;> simp only [Bool.false_eq_true, if_false, if_true, Obj.same, Obj.tag,
            Obj.pyEq, beq_self_eq_true, Bool.true_and] at hh <;> simpa using hh
        simp only [Bool.false_eq_true, if_false, he, beq_self_eq_true, Bool.and_self, if_true,
          Option.toList_some, List.mem_singleton, exists_eq_left]
        exact mem_enumRest tbl T c j _ ho.2 hji
      · simp [hc, hm]
    | _ => simp [hm]
  | _ => cases l <;> simp [hm]

end Pya.C02
