import PyaModel.Spec.WF
/-!
# Proofs/C03 — helper lemmas: `ca` on a literal equals structural membership `mem`

Structure: symmetry of `==` on objects; an induction principle for the nested type `Ty`; the side
conditions of the theorem as one bundle `Hyp` that passes to sub-terms and sub-objects; the table
laws of `Spec/TableLaws` in usable form (`Laws`); one lemma per dispatch branch of
`Value.can_assign` (`typedCA_known`, `generic_case`, `seq_case`); the main induction
`ca_known_eq_mem`.
-/
namespace Pya

/-! ### symmetry of `==` -/
theorem Obj.pyEqList_comm_of (xs ys : List Obj)
    (h : ∀ x ∈ xs, ∀ y, Obj.pyEq x y = Obj.pyEq y x) :
    Obj.pyEqList xs ys = Obj.pyEqList ys xs := by
  induction xs generalizing ys with
  | nil => cases ys <;> simp [Obj.pyEqList]
  | cons x xs ih =>
    cases ys with
    | nil => simp [Obj.pyEqList]
    | cons y ys =>
      simp only [Obj.pyEqList]
      rw [h x (by simp) y, ih ys (fun x hx => h x (by simp [hx]))]

theorem Obj.pyEq_comm : ∀ (a b : Obj), Obj.pyEq a b = Obj.pyEq b a
  | .tuple xs, b => by
    have := fun ys => Obj.pyEqList_comm_of xs ys (fun x _ y => Obj.pyEq_comm x y)
    cases b <;> simp [Obj.pyEq, this]
  | .list xs, b => by
    have := fun ys => Obj.pyEqList_comm_of xs ys (fun x _ y => Obj.pyEq_comm x y)
    cases b <;> simp [Obj.pyEq, this]
  | .set xs, b => by
    have := fun ys => Obj.pyEqList_comm_of xs ys (fun x _ y => Obj.pyEq_comm x y)
    cases b <;> simp [Obj.pyEq, this]
  | .fset xs, b => by
    have := fun ys => Obj.pyEqList_comm_of xs ys (fun x _ y => Obj.pyEq_comm x y)
    cases b <;> simp [Obj.pyEq, this]
  | .dict ks vs, b => by
    have h1 := fun ys => Obj.pyEqList_comm_of ks ys (fun x _ y => Obj.pyEq_comm x y)
    have h2 := fun ys => Obj.pyEqList_comm_of vs ys (fun x _ y => Obj.pyEq_comm x y)
    cases b <;> simp [Obj.pyEq, h1, h2]
  | .int _, b | .bool _, b | .str _, b | .bytes _, b | .none, b | .flt _, b | .cplx _, b
  | .inst _ _, b | .cls _, b => by
    cases b <;> simp [Obj.pyEq] <;> grind
termination_by a => sizeOf a

theorem Obj.same_comm (a b : Obj) : Obj.same a b = Obj.same b a := by
  unfold Obj.same; rw [Obj.pyEq_comm a b, BEq.comm]
/-! ### induction principle for the nested type `Ty` -/
theorem Ty.ind' {P : Ty → Prop}
    (any : P .any) (known : ∀ o, P (.known o)) (typed : ∀ c, P (.typed c))
    (newtype : ∀ n c, P (.newtype n c))
    (generic : ∀ c args, (∀ t ∈ args, P t) → P (.generic c args))
    (seq : ∀ c ms, (∀ t ∈ ms, P t) → P (.seq c ms))
    (many : ∀ t, P t → P (.many t))
    (union : ∀ ts, (∀ t ∈ ts, P t) → P (.union ts))
    (subclass : ∀ c, P (.subclass c))
    (annotated : ∀ t, P t → P (.annotated t))
    (tvar : ∀ i, P (.tvar i)) : ∀ T, P T
  | .any => any | .known o => known o | .typed c => typed c | .newtype n c => newtype n c
  | .generic c args => generic c args fun t _ => Ty.ind' any known typed newtype generic seq many union subclass annotated tvar t
  | .seq c ms => seq c ms fun t _ => Ty.ind' any known typed newtype generic seq many union subclass annotated tvar t
  | .many t => many t (Ty.ind' any known typed newtype generic seq many union subclass annotated tvar t)
  | .union ts => union ts fun t _ => Ty.ind' any known typed newtype generic seq many union subclass annotated tvar t
  | .subclass c => subclass c
  | .tvar i => tvar i
  | .annotated t => annotated t (Ty.ind' any known typed newtype generic seq many union subclass annotated tvar t)
termination_by T => sizeOf T

/-! ### list forms of the syntactic predicates -/
theorem Obj.wfL_iff (tbl : ClassTable) (xs : List Obj) :
    Obj.wfL tbl xs = true ↔ ∀ x ∈ xs, x.wf tbl = true := by
  induction xs <;> simp_all [Obj.wfL]
theorem Obj.hasFsetL_iff (xs : List Obj) :
    Obj.hasFsetL xs = false ↔ ∀ x ∈ xs, x.hasFset = false := by
  induction xs <;> simp_all [Obj.hasFsetL]
theorem Obj.hasStrL_iff (xs : List Obj) :
    Obj.hasStrL xs = false ↔ ∀ x ∈ xs, x.hasStr = false := by
  induction xs <;> simp_all [Obj.hasStrL]
theorem Obj.hasClsL_iff (xs : List Obj) :
    Obj.hasClsL xs = false ↔ ∀ x ∈ xs, x.hasCls = false := by
  induction xs <;> simp_all [Obj.hasClsL]
theorem Ty.wfL_iff (tbl : ClassTable) (ts : List Ty) :
    Ty.wfL tbl ts = true ↔ ∀ t ∈ ts, t.wf tbl = true := by
  induction ts <;> simp_all [Ty.wfL]
theorem Ty.hasManyL_iff (ts : List Ty) :
    Ty.hasManyL ts = false ↔ ∀ t ∈ ts, t.hasMany = false := by
  induction ts <;> simp_all [Ty.hasManyL]
theorem Ty.hasAbcGenericL_iff (ts : List Ty) :
    Ty.hasAbcGenericL ts = false ↔ ∀ t ∈ ts, t.hasAbcGeneric = false := by
  induction ts <;> simp_all [Ty.hasAbcGenericL]
theorem Ty.hasProtoL_iff (tbl : ClassTable) (ts : List Ty) :
    Ty.hasProtoL tbl ts = false ↔ ∀ t ∈ ts, t.hasProto tbl = false := by
  induction ts <;> simp_all [Ty.hasProtoL]
theorem Ty.wfM_wf (tbl : ClassTable) (ms : List Ty) (h : Ty.wfM tbl ms = true)
    (hm : Ty.hasManyL ms = false) : ∀ t ∈ ms, t.wf tbl = true := by
  induction ms with
  | nil => simp
  | cons m ms ih =>
    simp only [Ty.hasManyL, Bool.or_eq_false_iff] at hm
    cases m <;> simp_all [Ty.wfM, Ty.hasMany]


/-! ### the side conditions as one bundle, and how they pass to sub-terms / sub-objects -/
structure Hyp (tbl : ClassTable) (T : Ty) (o : Obj) : Prop where
  wT : T.wf tbl = true
  wO : o.wf tbl = true
  nm : T.hasMany = false
  nf : o.hasFset = false
  ns : o.hasStr = false ∨ T.hasAbcGeneric = false
  np : o.hasCls = false ∨ T.hasProto tbl = false

def Obj.kids : Obj → List Obj
  | .tuple xs => xs | .list xs => xs | .set xs => xs | .fset xs => xs
  | .dict ks vs => ks ++ vs
  | _ => []

def Ty.kids : Ty → List Ty
  | .generic _ as => as | .seq _ ms => ms | .union ts => ts | .annotated t => [t]
  | _ => []

theorem Hyp.obj {tbl T o x} (h : Hyp tbl T o) (hx : x ∈ o.kids) : Hyp tbl T x := by
  obtain ⟨wT, wO, nm, nf, ns, np⟩ := h
  refine ⟨wT, ?_, nm, ?_, ?_, ?_⟩
  · cases o <;> simp_all [Obj.kids, Obj.wf, Obj.wfL_iff] <;> grind
  · cases o <;> simp_all [Obj.kids, Obj.hasFset, Obj.hasFsetL_iff] <;> grind
  · rcases ns with ns | ns
    · left; cases o <;> simp_all [Obj.kids, Obj.hasStr, Obj.hasStrL_iff] <;> grind
    · exact .inr ns
  · rcases np with np | np
    · left; cases o <;> simp_all [Obj.kids, Obj.hasCls, Obj.hasClsL_iff] <;> grind
    · exact .inr np

theorem Hyp.ty {tbl T o t} (h : Hyp tbl T o) (ht : t ∈ T.kids) : Hyp tbl t o := by
  obtain ⟨wT, wO, nm, nf, ns, np⟩ := h
  refine ⟨?_, wO, ?_, nf, ?_, ?_⟩
  · cases T <;> simp_all [Ty.kids, Ty.wf, Ty.wfL_iff, Ty.hasMany]
    · exact Ty.wfM_wf _ _ wT.2 nm _ ht
  · cases T <;> simp_all [Ty.kids, Ty.hasMany, Ty.hasManyL_iff]
  · rcases ns with ns | ns
    · exact .inl ns
    · right; cases T <;> simp_all [Ty.kids, Ty.hasAbcGeneric, Ty.hasAbcGenericL_iff]
  · rcases np with np | np
    · exact .inl np
    · right; cases T <;> simp_all [Ty.kids, Ty.hasProto, Ty.hasProtoL_iff]


/-! ### the table laws in usable form -/
theorem allBelow_iff (n : Nat) (p : Nat → Bool) : allBelow n p = true ↔ ∀ i, i < n → p i = true := by
  simp [allBelow, List.all_eq_true, List.mem_range]

structure Laws (tbl : ClassTable) : Prop where
  refl : ∀ c, c < tbl.size → tbl.issub c c = true
  metaLt : ∀ c, c < tbl.size → tbl.metaOf c < tbl.size
  lawK : ∀ c, c < tbl.size → ∀ d, d < tbl.size → tableOk.instCls tbl d = true →
    (tbl.nominalK false c d || tbl.issub d c) = sub tbl d c
  lawC : ∀ c, c < tbl.size → ∀ d, d < tbl.size → tbl.isProtocol c = false →
    (tbl.nominalC false c d || tbl.issub (tbl.metaOf d) c) = sub tbl (tbl.metaOf d) c
  lawS : ∀ c, c < tbl.size → ∀ d, d < tbl.size → tbl.isProtocol c = false →
    tbl.nominal false c d = sub tbl d c
  gTuple : ∀ c, c < tbl.size → gOkSeq tbl C.tuple c = true
  gList : ∀ c, c < tbl.size → gOkSeq tbl C.list c = true
  gSet : ∀ c, c < tbl.size → gOkSeq tbl C.set c = true
  gDict : ∀ c, c < tbl.size → gOkDict tbl c = true
  gStr : ∀ c, c < tbl.size →
    (c == C.tuple || c == C.list || c == C.set || c == C.frozenset || c == C.dict) = true →
    gOkScalar tbl C.str c = true ∧ gOkScalar tbl C.bytes c = true
  gScalar : ∀ c, c < tbl.size → ∀ k, k < tbl.size → tableOk.objCls tbl k = true →
    isContainerCls k = false → gOkScalar tbl k c = true
  big : 14 ≤ tbl.size
  npTuple : tbl.isProtocol C.tuple = false
  npList : tbl.isProtocol C.list = false
  arTuple : tbl.arity C.tuple = 1
  arList : tbl.arity C.list = 1
  lawL : ∀ k, k < tbl.size → tableOk.objCls tbl k = true → k ≠ C.tuple → k ≠ C.list →
    sub tbl k C.tuple = false ∧ sub tbl k C.list = false
  userNC : ∀ k, k < tbl.size → tbl.isUser k = true → isContainerCls k = false
  metaNC : ∀ k, k < tbl.size → isContainerCls (tbl.metaOf k) = false
  metaIn : ∀ k, k < tbl.size → tbl.metaOf k ∈ tbl.metaL

theorem laws_of_tableOk (tbl : ClassTable) (h : tableOk tbl = true) : Laws tbl := by
  simp only [tableOk, Bool.and_eq_true, allBelow_iff, Bool.or_eq_true, decide_eq_true_eq,
    Bool.not_eq_true', beq_iff_eq, tableOk.isAbstractOrMeta] at h
  obtain ⟨⟨⟨⟨⟨⟨⟨⟨⟨h1, h2⟩, h3⟩, hB⟩, hpT⟩, hpL⟩, haT⟩, haL⟩, hL⟩, hU⟩ := h
  constructor
  · exact fun c hc => (h1 c hc).1
  · exact fun c hc => (h1 c hc).2
  · intro c hc d hd hi
    rcases (h2 c hc d hd).1.1 with h | h
    · exact h
    · simp [hi] at h
  · intro c hc d hd hp
    rcases (h2 c hc d hd).1.2 with h | h
    · simp [hp] at h
    · exact h
  · intro c hc d hd hp
    rcases (h2 c hc d hd).2 with h | h
    · simp [hp] at h
    · exact h
  · exact fun c hc => (h3 c hc).1.1.1.1.1
  · exact fun c hc => (h3 c hc).1.1.1.1.2
  · exact fun c hc => (h3 c hc).1.1.1.2
  · exact fun c hc => (h3 c hc).1.1.2
  · intro c hc hb
    rcases (h3 c hc).1.2 with h | h
    · simp_all
    · exact h
  · intro c hc k hk ho hn
    rcases (h3 c hc).2 k hk with (h | h) | h
    · simp [ho] at h
    · simp [hn] at h
    · exact h
  · exact hB
  · exact hpT
  · exact hpL
  · exact haT
  · exact haL
  · intro k hk ho h8 h9
    rcases hL k hk with ((h | h) | h) | h
    · simp [ho] at h
    · exact absurd h h8
    · exact absurd h h9
    · exact h
  · intro k hk hu
    have := (hU k hk).1.1
    simp_all
  · exact fun k hk => (hU k hk).1.2
  · intro k hk
    have := (hU k hk).2
    simpa using this


/-! ### classes of objects -/
section
variable {tbl : ClassTable}

theorem clsOf_lt (L : Laws tbl) {o : Obj} (ho : o.wf tbl = true) : clsOf tbl o < tbl.size := by
  have := L.big
  cases o
  case cls d => exact L.metaLt _ (by simpa [Obj.wf] using ho)
  case inst c i => simp_all [clsOf, Obj.wf]
  all_goals exact Nat.lt_of_lt_of_le (by simp only [clsOf]; decide) this

theorem instCls_clsOf {o : Obj} (ho : o.wf tbl = true) (hc : ∀ d, o ≠ .cls d) :
    tableOk.instCls tbl (clsOf tbl o) = true := by
  cases o <;> simp_all [clsOf, Obj.wf, tableOk.instCls, C.int, C.bool, C.str, C.bytes, C.none, C.float, C.complex,
    C.tuple, C.list, C.set, C.frozenset, C.dict]

theorem objCls_clsOf (L : Laws tbl) {o : Obj} (ho : o.wf tbl = true) :
    tableOk.objCls tbl (clsOf tbl o) = true := by
  by_cases hc : ∀ d, o ≠ .cls d
  · simp [tableOk.objCls, instCls_clsOf ho hc]
  · cases o <;> simp at hc
    simp only [Obj.wf, decide_eq_true_eq] at ho
    simp [tableOk.objCls, clsOf, L.metaIn _ ho]

/-- `TypedValue(c).can_assign(KnownValue(o))` is nominal membership (laws K and C). -/
theorem typedCA_known (L : Laws tbl) {c : Cls} {o : Obj} (hc : c < tbl.size)
    (ho : o.wf tbl = true) (hp : ∀ d, o = .cls d → tbl.isProtocol c = false) :
    typedCA tbl false c (.known o) = sub tbl (clsOf tbl o) c := by
  by_cases h : ∀ d, o ≠ .cls d
  · have := L.lawK c hc _ (clsOf_lt L ho) (instCls_clsOf ho h)
    cases o <;> first | exact this | exact absurd rfl (h _)
  · cases o <;> simp at h
    simp only [Obj.wf, decide_eq_true_eq] at ho
    exact L.lawC c hc _ ho (hp _ rfl)

theorem ca_any (e : Ty) : ca tbl false e .any = true := by
  induction e using Ty.ind' <;> simp_all [ca]
end


/-! ### element-wise lemmas -/
section
variable {tbl : ClassTable}

theorem caMems_known (t : Ty) (xs : List Obj)
    (ih : ∀ x ∈ xs, ca tbl false t (.known x) = mem tbl x t) :
    caMems tbl false t (xs.map .known) = memAll tbl xs t := by
  induction xs with
  | nil => simp [caMems, memAll]
  | cons x xs ihx =>
    simp only [List.map_cons, caMems, memAll]
    rw [ih x (by simp), ihx (fun y hy => ih y (by simp [hy]))]

theorem caArg_mems (t : Ty) (xs : List Obj)
    (ih : ∀ x ∈ xs, ca tbl false t (.known x) = mem tbl x t) :
    caArg tbl false t (.mems (xs.map .known)) = memAll tbl xs t := by
  cases xs with
  | nil => simp [caArg, memAll, ca_any]
  | cons x xs =>
    have := caMems_known t (x :: xs) ih
    simpa [caArg] using this

theorem caAnyL_known (ts : List Ty) (o : Obj)
    (ih : ∀ t ∈ ts, ca tbl false t (.known o) = mem tbl o t) :
    caAnyL tbl false ts (.known o) = memAny tbl o ts := by
  induction ts with
  | nil => simp [caAnyL, memAny]
  | cons t ts iht =>
    simp only [caAnyL, memAny]
    rw [ih t (by simp), iht (fun y hy => ih y (by simp [hy]))]

/-- Without unpacked members, the pattern match is length equality plus pairwise membership,
which is what `SequenceValue.can_assign` computes on a literal. -/
theorem caZipK_matchSeq (ms : List Ty) (xs : List Obj) (hm : Ty.hasManyL ms = false)
    (ih : ∀ m ∈ ms, ∀ x ∈ xs, ca tbl false m (.known x) = mem tbl x m) :
    (ms.length == xs.length && caZipK tbl false ms xs) = matchSeq tbl xs ms := by
  induction ms generalizing xs with
  | nil => cases xs <;> simp [caZipK, matchSeq]
  | cons m ms ihm =>
    simp only [Ty.hasManyL, Bool.or_eq_false_iff] at hm
    cases xs with
    | nil => cases m <;> simp_all [caZipK, matchSeq, Ty.hasMany]
    | cons x xs =>
      have h1 := ih m (by simp) x (by simp)
      have h2 := ihm xs hm.2 (fun m' hm' x' hx' => ih m' (by simp [hm']) x' (by simp [hx']))
      cases m <;> simp only [caZipK, matchSeq, Ty.hasMany, List.length_cons] at hm h1 ⊢ <;>
        first
          | (rw [← h2, ← h1]; simp [Bool.and_left_comm])
          | simp at hm
end


/-! ### the `GenericValue` case -/
section
variable {tbl : ClassTable}

theorem issub_false_of_sub {a e : Cls} (h : sub tbl a e = false) : tbl.issub a e = false := by
  simp only [sub, Bool.or_eq_false_iff] at h
  exact h.1.1

theorem instArgs_length (g : List GArg) (own : List TArg) : (instArgs g own).length = g.length := by
  simp [instArgs]

theorem gOkSeq_sub {k c} (h : gOkSeq tbl k c = true) (har : tbl.arity c ≠ 0)
    (hs : sub tbl k c = true) : tbl.arity c = 1 ∧ tbl.gbase k c = some [.param 0] := by
  unfold gOkSeq at h
  rw [if_neg (by simpa using har), if_pos hs] at h
  simp only [Bool.and_eq_true, beq_iff_eq] at h
  refine ⟨h.1, ?_⟩
  have h2 := h.2
  split at h2
  · assumption
  · simp at h2

theorem gOkSeq_nsub {k c} (h : gOkSeq tbl k c = true) (har : tbl.arity c ≠ 0)
    (hs : sub tbl k c = false) :
    (∀ g, tbl.gbase k c = some g → g.length ≠ tbl.arity c) ∧ tbl.nominalK false c k = false := by
  unfold gOkSeq at h
  rw [if_neg (by simpa using har), if_neg (by simp [hs])] at h
  simp only [Bool.and_eq_true, Bool.not_eq_true'] at h
  refine ⟨?_, h.2⟩
  intro g hg
  have h1 := h.1
  rw [hg] at h1
  simpa using h1

theorem gOkDict_sub {c} (h : gOkDict tbl c = true) (har : tbl.arity c ≠ 0)
    (hs : sub tbl C.dict c = true) :
    (tbl.arity c = 2 ∧ tbl.gbase C.dict c = some [.param 0, .param 1]) ∨
    (tbl.arity c = 1 ∧ tbl.gbase C.dict c = some [.param 0]) := by
  unfold gOkDict at h
  rw [if_neg (by simpa using har), if_pos hs] at h
  simp only [Bool.or_eq_true, Bool.and_eq_true, beq_iff_eq] at h
  rcases h with h | h
  · left; refine ⟨h.1, ?_⟩
    have h2 := h.2
    split at h2
    · assumption
    · simp at h2
  · right; refine ⟨h.1, ?_⟩
    have h2 := h.2
    split at h2
    · assumption
    · simp at h2

theorem gOkDict_nsub {c} (h : gOkDict tbl c = true) (har : tbl.arity c ≠ 0)
    (hs : sub tbl C.dict c = false) :
    (∀ g, tbl.gbase C.dict c = some g → g.length ≠ tbl.arity c) ∧
      tbl.nominalK false c C.dict = false := by
  unfold gOkDict at h
  rw [if_neg (by simpa using har), if_neg (by simp [hs])] at h
  simp only [Bool.and_eq_true, Bool.not_eq_true'] at h
  refine ⟨?_, h.2⟩
  intro g hg
  have h1 := h.1
  rw [hg] at h1
  simpa using h1

theorem gOkScalar_spec {k c} (h : gOkScalar tbl k c = true) (har : tbl.arity c ≠ 0) :
    ∀ g, tbl.gbase k c = some g → g.length ≠ tbl.arity c := by
  unfold gOkScalar at h
  intro g hg
  rw [hg] at h
  simpa [har] using h

/-- fallback shape: no generic base of matching arity ⇒ `TypedValue.can_assign` -/
theorem ca_generic_fallback {c : Cls} {args : List Ty} {o : Obj} {k : Cls} {own : List TArg}
    (hta : theirArgs tbl c (.known o) = (tbl.gbase k c).map fun g => (k, instArgs g own))
    (hlen : args.length = tbl.arity c)
    (hg : ∀ g, tbl.gbase k c = some g → g.length ≠ tbl.arity c) :
    ca tbl false (.generic c args) (.known o) = typedCA tbl false c (.known o) := by
  simp only [ca, hta]
  cases hgb : tbl.gbase k c with
  | none => simp
  | some g =>
    have := hg g hgb
    simp [instArgs_length, hlen, this]


theorem gen_parts {c : Cls} {args : List Ty} {o : Obj} (H : Hyp tbl (.generic c args) o) :
    c < tbl.size ∧ tbl.arity c ≠ 0 ∧ args.length = tbl.arity c := by
  have wT := H.wT
  simp only [Ty.wf, Bool.and_eq_true, decide_eq_true_eq, beq_iff_eq] at wT
  obtain ⟨⟨⟨hc, har⟩, hlen⟩, -⟩ := wT
  exact ⟨hc, by omega, hlen⟩

/-- tuple / list / set literals against a generic target -/
theorem gen_seqlike (L : Laws tbl) {c : Cls} {args : List Ty} {o : Obj} {xs : List Obj} {k : Cls}
    (hta : theirArgs tbl c (.known o) =
      (tbl.gbase k c).map fun g => (k, instArgs g [.mems (xs.map .known)]))
    (hk : clsOf tbl o = k) (hmem : ∀ t, memArgs tbl o [t] = memAll tbl xs t)
    (hkids : o.kids = xs) (hnc : ∀ d, o ≠ .cls d) (hg : gOkSeq tbl k c = true)
    (H : Hyp tbl (.generic c args) o)
    (ih : ∀ t ∈ args, ∀ x, Hyp tbl t x → ca tbl false t (.known x) = mem tbl x t) :
    ca tbl false (.generic c args) (.known o) = mem tbl o (.generic c args) := by
  obtain ⟨hc, har, hlen⟩ := gen_parts H
  by_cases hs : sub tbl k c = true
  · obtain ⟨h1, hgb⟩ := gOkSeq_sub hg har hs
    obtain ⟨t, rfl⟩ : ∃ t, args = [t] := List.length_eq_one_iff.mp (hlen.trans h1)
    simp only [ca, hta, hgb]
    simp only [Option.map_some, instArgs, List.map_cons, List.map_nil, List.getD_cons_zero,
      List.length_cons, List.length_nil, beq_self_eq_true, if_true, List.isEmpty_cons,
      Bool.not_false, Bool.true_and, caArgs, Bool.and_true, mem, hk, hs, hmem]
    exact caArg_mems t xs fun x hx =>
      ih t (by simp) x ((H.ty (by simp [Ty.kids])).obj (by simp [hkids, hx]))
  · have hs' : sub tbl k c = false := by simpa using hs
    obtain ⟨hgl, hnk⟩ := gOkSeq_nsub hg har hs'
    rw [ca_generic_fallback hta hlen hgl, typedCA_known L hc H.wO (fun d hd => absurd hd (hnc d))]
    simp [mem, hk, hs']


/-- dict literals against a generic target (one- or two-parameter) -/
theorem gen_dict (L : Laws tbl) {c : Cls} {args : List Ty} {ks vs : List Obj}
    (H : Hyp tbl (.generic c args) (.dict ks vs))
    (ih : ∀ t ∈ args, ∀ x, Hyp tbl t x → ca tbl false t (.known x) = mem tbl x t) :
    ca tbl false (.generic c args) (.known (.dict ks vs)) = mem tbl (.dict ks vs) (.generic c args) := by
  obtain ⟨hc, har, hlen⟩ := gen_parts H
  have hta : theirArgs tbl c (.known (.dict ks vs)) = (tbl.gbase C.dict c).map fun g =>
      (C.dict, instArgs g [.mems (ks.map .known), .mems (vs.map .known)]) := by simp [theirArgs]
  by_cases hs : sub tbl C.dict c = true
  · rcases gOkDict_sub (L.gDict c hc) har hs with ⟨h1, hgb⟩ | ⟨h1, hgb⟩
    · obtain ⟨k, v, rfl⟩ : ∃ k v, args = [k, v] := by
        match args, hlen.trans h1 with
        | [k, v], _ => exact ⟨k, v, rfl⟩
      simp only [ca, hta, hgb]
      simp only [Option.map_some, instArgs, List.map_cons, List.map_nil, List.getD_cons_zero,
        List.getD_cons_succ, List.length_cons, List.length_nil, beq_self_eq_true, if_true,
        List.isEmpty_cons, Bool.not_false, Bool.true_and, caArgs, Bool.and_true, mem, clsOf, hs,
        memArgs]
      rw [caArg_mems k ks fun x hx =>
          ih k (by simp) x ((H.ty (by simp [Ty.kids])).obj (by simp [Obj.kids, hx])),
        caArg_mems v vs fun x hx =>
          ih v (by simp) x ((H.ty (by simp [Ty.kids])).obj (by simp [Obj.kids, hx]))]
    · obtain ⟨k, rfl⟩ : ∃ k, args = [k] := List.length_eq_one_iff.mp (hlen.trans h1)
      simp only [ca, hta, hgb]
      simp only [Option.map_some, instArgs, List.map_cons, List.map_nil, List.getD_cons_zero,
        List.length_cons, List.length_nil, beq_self_eq_true, if_true,
        List.isEmpty_cons, Bool.not_false, Bool.true_and, caArgs, Bool.and_true, mem, clsOf, hs,
        memArgs]
      rw [caArg_mems k ks fun x hx =>
          ih k (by simp) x ((H.ty (by simp [Ty.kids])).obj (by simp [Obj.kids, hx]))]
  · have hs' : sub tbl C.dict c = false := by simpa using hs
    obtain ⟨hgl, hnk⟩ := gOkDict_nsub (L.gDict c hc) har hs'
    rw [ca_generic_fallback hta hlen hgl, typedCA_known L hc H.wO (fun d hd => by cases hd)]
    simp [mem, clsOf, hs']

/-- objects without element structure for the checker (scalars, instances, class objects; `str`
and `bytes` only against the builtin containers): the nominal fallback -/
theorem gen_scalar (L : Laws tbl) {c : Cls} {args : List Ty} {o : Obj}
    (hta : theirArgs tbl c (.known o) =
      (tbl.gbase (clsOf tbl o) c).map fun g => (clsOf tbl o, instArgs g []))
    (hma : memArgs tbl o args = true)
    (hnc : isContainerCls (clsOf tbl o) = false ∨
      ((clsOf tbl o = C.str ∨ clsOf tbl o = C.bytes) ∧ o.hasStr = true))
    (H : Hyp tbl (.generic c args) o) :
    ca tbl false (.generic c args) (.known o) = mem tbl o (.generic c args) := by
  obtain ⟨hc, har, hlen⟩ := gen_parts H
  have hgs : gOkScalar tbl (clsOf tbl o) c = true := by
    rcases hnc with h | h
    · exact L.gScalar c hc _ (clsOf_lt L H.wO) (objCls_clsOf L H.wO) h
    · obtain ⟨h, hstr⟩ := h
      have hb : (c == C.tuple || c == C.list || c == C.set || c == C.frozenset || c == C.dict) = true := by
        rcases H.ns with h' | h'
        · rw [hstr] at h'; cases h'
        · simp only [Ty.hasAbcGeneric, Bool.or_eq_false_iff, Bool.not_eq_false'] at h'
          exact h'.1
      rcases h with h | h <;> rw [h]
      · exact (L.gStr c hc hb).1
      · exact (L.gStr c hc hb).2
  have hp : ∀ d, o = .cls d → tbl.isProtocol c = false := by
    intro d hd
    rcases H.np with h | h
    · subst hd; simp [Obj.hasCls] at h
    · simp only [Ty.hasProto, Bool.or_eq_false_iff] at h
      exact h.1
  rw [ca_generic_fallback hta hlen (gOkScalar_spec hgs har), typedCA_known L hc H.wO hp]
  simp [mem, hma]


theorem generic_case (L : Laws tbl) {c : Cls} {args : List Ty} {o : Obj}
    (H : Hyp tbl (.generic c args) o)
    (ih : ∀ t ∈ args, ∀ x, Hyp tbl t x → ca tbl false t (.known x) = mem tbl x t) :
    ca tbl false (.generic c args) (.known o) = mem tbl o (.generic c args) := by
  have hc := (gen_parts H).1
  cases o with
  | tuple xs =>
    exact gen_seqlike (xs := xs) (k := C.tuple) L (by simp [theirArgs]) rfl (fun t => by simp [memArgs]) rfl (by simp)
      (L.gTuple _ hc) H ih
  | list xs =>
    exact gen_seqlike (xs := xs) (k := C.list) L (by simp [theirArgs]) rfl (fun t => by simp [memArgs]) rfl (by simp)
      (L.gList _ hc) H ih
  | set xs =>
    exact gen_seqlike (xs := xs) (k := C.set) L (by simp [theirArgs]) rfl (fun t => by simp [memArgs]) rfl (by simp)
      (L.gSet _ hc) H ih
  | dict ks vs => exact gen_dict L H ih
  | fset xs => exact absurd H.nf (by simp [Obj.hasFset])
  | str s =>
    exact gen_scalar L (by simp [theirArgs]) (by simp [memArgs]) (.inr ⟨.inl rfl, rfl⟩) H
  | bytes s =>
    exact gen_scalar L (by simp [theirArgs]) (by simp [memArgs]) (.inr ⟨.inr rfl, rfl⟩) H
  | inst c' i =>
    have hw := H.wO
    simp only [Obj.wf, Bool.and_eq_true, decide_eq_true_eq] at hw
    exact gen_scalar L (by simp [theirArgs]) (by simp [memArgs]) (.inl (L.userNC _ hw.1 hw.2)) H
  | cls d =>
    have hw := H.wO
    simp only [Obj.wf, decide_eq_true_eq] at hw
    exact gen_scalar L (by simp [theirArgs]) (by simp [memArgs]) (.inl (L.metaNC _ hw)) H
  | int _ | bool _ | none | flt _ | cplx _ =>
    exact gen_scalar L (by simp [theirArgs]) (by simp [memArgs]) (.inl (by simp only [clsOf]; decide)) H

end

/-! ### the `SequenceValue` case -/
section
variable {tbl : ClassTable}

theorem theirArgs_not_single {c : Cls} {a : Ty} {k : Cls} {own : List TArg}
    (hta : theirArgs tbl c a = (tbl.gbase k c).map fun g => (k, instArgs g own))
    (hgl : ∀ g, tbl.gbase k c = some g → g.length ≠ 1) (k' : Cls) (their : TArg) :
    theirArgs tbl c a ≠ some (k', [their]) := by
  rw [hta]
  intro h
  cases hg : tbl.gbase k c with
  | none => simp [hg] at h
  | some g =>
    simp only [hg, Option.map_some, Option.some.injEq, Prod.mk.injEq] at h
    have := congrArg List.length h.2
    simp only [instArgs_length, List.length_cons, List.length_nil] at this
    exact hgl g hg this

theorem seq_parts (L : Laws tbl) {c : Cls} {ms : List Ty} {o : Obj} (H : Hyp tbl (.seq c ms) o) :
    c < tbl.size ∧ tbl.isProtocol c = false ∧ tbl.arity c = 1 ∧ (c = C.tuple ∨ c = C.list) := by
  have wT := H.wT
  have := L.big
  simp only [Ty.wf, Bool.and_eq_true, Bool.or_eq_true, beq_iff_eq] at wT
  rcases wT.1 with rfl | rfl
  · exact ⟨Nat.lt_of_lt_of_le (by decide) this, L.npTuple, L.arTuple, .inl rfl⟩
  · exact ⟨Nat.lt_of_lt_of_le (by decide) this, L.npList, L.arList, .inr rfl⟩

/-- objects that are not tuple/list literals against a sequence form: rejected by both sides -/
theorem seq_other (L : Laws tbl) {c : Cls} {ms : List Ty} {o : Obj} {k : Cls} {own : List TArg}
    (H : Hyp tbl (.seq c ms) o)
    (hca : ca tbl false (.seq c ms) (.known o) =
      match theirArgs tbl c (.known o) with
      | some (_, [their]) => caAnyM tbl false ms their
      | _ => typedCA tbl false c (.known o))
    (hk : clsOf tbl o = k) (hk8 : k ≠ C.tuple) (hk9 : k ≠ C.list)
    (hta : theirArgs tbl c (.known o) = (tbl.gbase k c).map fun g => (k, instArgs g own))
    (hg : gOkScalar tbl k c = true ∨ k = C.dict) :
    ca tbl false (.seq c ms) (.known o) = false := by
  obtain ⟨hc, hnp, har, hc'⟩ := seq_parts L H
  have hklt : k < tbl.size := hk ▸ clsOf_lt L H.wO
  have hsub : sub tbl k c = false := by
    have := L.lawL k hklt (hk ▸ objCls_clsOf L H.wO) hk8 hk9
    rcases hc' with rfl | rfl
    · exact this.1
    · exact this.2
  have hgl : ∀ g, tbl.gbase k c = some g → g.length ≠ 1 := by
    rcases hg with hg | rfl
    · have := gOkScalar_spec hg (by omega); rwa [har] at this
    · have := (gOkDict_nsub (L.gDict c hc) (by omega) hsub).1; rwa [har] at this
  rw [hca]
  split
  · rename_i heq
    exact absurd heq (theirArgs_not_single hta hgl _ _)
  · rw [typedCA_known L hc H.wO (fun _ _ => hnp), hk, hsub]


theorem mem_seq_other {c : Cls} {ms : List Ty} (o' : Obj) (h1 : ∀ xs, o' ≠ .tuple xs)
    (h2 : ∀ xs, o' ≠ .list xs) : mem tbl o' (.seq c ms) = false := by
  cases o' <;> simp_all [mem, memSeq]

theorem seq_case (L : Laws tbl) {c : Cls} {ms : List Ty} {o : Obj}
    (H : Hyp tbl (.seq c ms) o)
    (ih : ∀ t ∈ ms, ∀ x, Hyp tbl t x → ca tbl false t (.known x) = mem tbl x t) :
    ca tbl false (.seq c ms) (.known o) = mem tbl o (.seq c ms) := by
  obtain ⟨hc, hnp, har, hc'⟩ := seq_parts L H
  have hb := L.big
  have hnm : Ty.hasManyL ms = false := by simpa [Ty.hasMany] using H.nm
  have hzip : ∀ xs, o.kids = xs →
      (ms.length == xs.length && caZipK tbl false ms xs) = matchSeq tbl xs ms := fun xs hxs =>
    caZipK_matchSeq ms xs hnm fun m hm x hx =>
      ih m hm x ((H.ty (by simpa [Ty.kids] using hm)).obj (by simpa [hxs] using hx))
  have hbuiltin : (c == C.tuple || c == C.list || c == C.set || c == C.frozenset || c == C.dict) = true := by
    rcases hc' with rfl | rfl <;> decide
  have hmem := mem_seq_other (tbl := tbl) (c := c) (ms := ms)
  cases o with
  | tuple xs =>
    simp only [ca, mem, memSeq, clsOf, Bool.and_assoc, hzip xs rfl]
    rw [L.lawS c hc C.tuple (Nat.lt_of_lt_of_le (by decide) hb) hnp]
  | list xs =>
    simp only [ca, mem, memSeq, clsOf, Bool.and_assoc, hzip xs rfl]
    rw [L.lawS c hc C.list (Nat.lt_of_lt_of_le (by decide) hb) hnp]
  | set xs =>
    have hlt : C.set < tbl.size := Nat.lt_of_lt_of_le (by decide) hb
    have hsub : sub tbl C.set c = false := by
      have := L.lawL C.set hlt (by simp [tableOk.objCls, tableOk.instCls]) (by decide) (by decide)
      rcases hc' with rfl | rfl
      · exact this.1
      · exact this.2
    simp only [ca, mem, memSeq, Bool.and_false]
    rw [L.lawS c hc C.set hlt hnp, hsub, Bool.false_and, Bool.false_and]
  | fset xs => exact absurd H.nf (by simp [Obj.hasFset])
  | dict ks vs =>
    rw [hmem _ (by simp) (by simp)]
    exact seq_other (k := C.dict) L H (by simp only [ca]; rfl) rfl (by decide) (by decide)
      rfl (.inr rfl)
  | str s =>
    rw [hmem _ (by simp) (by simp)]
    exact seq_other (k := C.str) L H (by simp only [ca]; rfl) rfl (by decide) (by decide)
      rfl (.inl (L.gStr c hc hbuiltin).1)
  | bytes s =>
    rw [hmem _ (by simp) (by simp)]
    exact seq_other (k := C.bytes) L H (by simp only [ca]; rfl) rfl (by decide) (by decide)
      rfl (.inl (L.gStr c hc hbuiltin).2)
  | inst c' i =>
    have hw := H.wO
    simp only [Obj.wf, Bool.and_eq_true, decide_eq_true_eq] at hw
    have hnc := L.userNC _ hw.1 hw.2
    rw [hmem _ (by simp) (by simp)]
    exact seq_other (k := c') L H (by simp only [ca]; rfl) rfl
      (by rintro rfl; simp [isContainerCls] at hnc) (by rintro rfl; simp [isContainerCls] at hnc)
      rfl
      (.inl (L.gScalar c hc c' hw.1 (by simp [tableOk.objCls, tableOk.instCls, hw.2]) hnc))
  | cls d =>
    have hw := H.wO
    simp only [Obj.wf, decide_eq_true_eq] at hw
    have hnc := L.metaNC _ hw
    rw [hmem _ (by simp) (by simp)]
    exact seq_other (k := tbl.metaOf d) L H (by simp only [ca]; rfl) rfl
      (by intro h; simp [h, isContainerCls] at hnc) (by intro h; simp [h, isContainerCls] at hnc)
      rfl
      (.inl (L.gScalar c hc (tbl.metaOf d) (L.metaLt _ hw)
        (show tableOk.objCls tbl (clsOf tbl (.cls d)) = true from objCls_clsOf L H.wO) hnc))
  | int _ | bool _ | none | flt _ | cplx _ =>
    rw [hmem _ (by simp) (by simp)]
    refine seq_other L H (by simp only [ca]; rfl) rfl (by simp only [clsOf]; decide)
      (by simp only [clsOf]; decide) rfl (.inl ?_)
    exact L.gScalar c hc _ (clsOf_lt L H.wO) (objCls_clsOf L H.wO) (by simp only [clsOf]; decide)

end

/-! ### the main induction -/
theorem ca_known_eq_mem (tbl : ClassTable) (L : Laws tbl) (T : Ty) :
    ∀ o, Hyp tbl T o → ca tbl false T (.known o) = mem tbl o T := by
  induction T using Ty.ind' with
  | any => intro o H; exact absurd H.wT (by simp [Ty.wf])
  | many t _ => intro o H; exact absurd H.wT (by simp [Ty.wf])
  | tvar i => intro o H; exact absurd H.wT (by simp [Ty.wf])
  | known k => intro o H; simp only [ca, mem]; exact Obj.same_comm k o
  | typed c =>
    intro o H
    have hc : c < tbl.size := by simpa [Ty.wf] using H.wT
    have hp : ∀ d, o = .cls d → tbl.isProtocol c = false := by
      intro d hd
      rcases H.np with h | h
      · subst hd; simp [Obj.hasCls] at h
      · simpa [Ty.hasProto] using h
    simp only [ca, mem]
    exact typedCA_known L hc H.wO hp
  | newtype n c =>
    intro o H
    have hc : c < tbl.size := by simpa [Ty.wf] using H.wT
    simp only [ca, mem]
    by_cases hk : clsOf tbl o = c
    · have hr := L.refl c hc
      cases o <;> simp_all [typedCA, clsOf]
    · simp [hk]
  | generic c args ih => intro o H; exact generic_case L H ih
  | seq c ms ih => intro o H; exact seq_case L H ih
  | union ts ih =>
    intro o H
    simp only [ca, mem, Bool.false_or]
    exact caAnyL_known ts o fun t ht => ih t ht o (H.ty (by simpa [Ty.kids] using ht))
  | subclass c =>
    intro o H
    have hw := H.wT
    simp only [Ty.wf, Bool.and_eq_true, decide_eq_true_eq, Bool.not_eq_true'] at hw
    cases o <;> simp only [ca, mem]
    case cls d =>
      have hd : d < tbl.size := by simpa [Obj.wf] using H.wO
      exact L.lawS c hw.1 d hd hw.2
  | annotated t ih =>
    intro o H
    simp only [ca, mem]
    exact ih o (H.ty (by simp [Ty.kids]))

end Pya
