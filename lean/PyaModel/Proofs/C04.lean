import PyaModel.Spec.D04
/-! # Proofs/C04 — helper lemmas for the lattice laws of `ca` -/
namespace Pya

theorem caAllR_any (tbl x) : ∀ bs, caAllR tbl x .any bs = true
  | [] => by simp [caAllR]
  | b :: bs => by simp [caAllR, ca, caAllR_any tbl x bs]

theorem caAllR_eq_all (tbl x a) : ∀ bs, caAllR tbl x a bs = bs.all (fun b => ca tbl x a b)
  | [] => by simp [caAllR]
  | b :: bs => by simp [caAllR, caAllR_eq_all tbl x a bs]

theorem caAnyL_eq_any (tbl x b) : ∀ as, caAnyL tbl x as b = as.any (fun a => ca tbl x a b)
  | [] => by simp [caAnyL]
  | a :: as => by simp [caAnyL, caAnyL_eq_any tbl x b as]

theorem ca_union_right (tbl x a bs) : ca tbl x a (.union bs) = caAllR tbl x a bs := by
  cases a <;> simp [ca, caAllR_any]

theorem caAnyL_of_mem (tbl x) (a : Ty) (b : Ty) : ∀ (as : List Ty), a ∈ as → ca tbl x a b = true → caAnyL tbl x as b = true
  | [], h, _ => by simp at h
  | a' :: as, h, hc => by
    simp only [List.mem_cons] at h
    rcases h with rfl | h
    · simp [caAnyL, hc]
    · simp [caAnyL, caAnyL_of_mem tbl x a b as h hc]

theorem ca_annotated_right (tbl x) (e t : Ty) (h : t ≠ .union [] ∨ ∀ es, e ≠ .union es) :
    ca tbl x e (.annotated t) = ca tbl x e t := by
  cases e <;> first
    | (simp [ca]; done)
    | (rename_i es; cases t with
       | union ts => cases ts with
         | nil => rcases h with h | h
                  · exact absurd rfl h
                  · exact absurd rfl (h es)
         | cons _ _ => simp [ca]
       | _ => simp [ca])

theorem annNeverFree_annotated (t : Ty) (h : t ≠ .union []) : annNeverFree (.annotated t) = annNeverFree t := by
  cases t with
  | union ts => cases ts with
    | nil => exact absurd rfl h
    | cons _ _ => simp [annNeverFree]
  | _ => simp [annNeverFree]

mutual
theorem ca_union_left (tbl x) (a : Ty) (as : List Ty) (ha : a ∈ as) :
    ∀ (b : Ty), annNeverFree b = true → ca tbl x a b = true → ca tbl x (.union as) b = true
  | .union bs, hb, h => by
    rw [ca_union_right] at h ⊢
    simp only [annNeverFree] at hb
    exact ca_union_left_list tbl x a as ha bs hb h
  | .annotated t, hb, h => by
    by_cases ht : t = .union []
    · subst ht; simp [annNeverFree] at hb
    · rw [ca_annotated_right tbl x _ t (Or.inl ht)] at h ⊢
      rw [annNeverFree_annotated t ht] at hb
      exact ca_union_left tbl x a as ha t hb h
  | .any, _, h => by simp [ca]; right; exact caAnyL_of_mem tbl x a _ as ha h
  | .known _, _, h => by simp [ca]; exact caAnyL_of_mem tbl x a _ as ha h
  | .typed _, _, h => by simp [ca]; exact caAnyL_of_mem tbl x a _ as ha h
  | .newtype _ _, _, h => by simp [ca]; exact caAnyL_of_mem tbl x a _ as ha h
  | .generic _ _, _, h => by simp [ca]; exact caAnyL_of_mem tbl x a _ as ha h
  | .seq _ _, _, h => by simp [ca]; exact caAnyL_of_mem tbl x a _ as ha h
  | .many _, _, h => by simp [ca]; exact caAnyL_of_mem tbl x a _ as ha h
  | .subclass _, _, h => by simp [ca]; exact caAnyL_of_mem tbl x a _ as ha h
theorem ca_union_left_list (tbl x) (a : Ty) (as : List Ty) (ha : a ∈ as) :
    ∀ (bs : List Ty), annNeverFreeL bs = true → caAllR tbl x a bs = true → caAllR tbl x (.union as) bs = true
  | [], _, _ => by simp [caAllR]
  | b :: bs, hb, h => by
    simp only [annNeverFreeL, Bool.and_eq_true] at hb
    simp only [caAllR, Bool.and_eq_true] at h ⊢
    exact ⟨ca_union_left tbl x a as ha b hb.1 h.1, ca_union_left_list tbl x a as ha bs hb.2 h.2⟩
end

end Pya
