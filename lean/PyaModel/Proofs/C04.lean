import PyaModel.Spec.D04
/-! # Proofs/C04 — helper lemmas for the lattice laws of `ca` -/
namespace Pya

theorem caAllR_any (tbl x) : ∀ bs, caAllR tbl x .any bs = true
  | [] => by simp [caAllR]
  | b :: bs => by simp [caAllR, ca, caAllR_any tbl x bs]

theorem caAllR_eq_all (tbl x a) : ∀ bs, caAllR tbl x a bs = bs.all (fun b => ca tbl x a b)
  | [] => by simp [caAllR]
  | b :: bs => by simp [caAllR, caAllR_eq_all tbl x a bs]

theorem caAnyL_eq_any (tbl x b) : ∀ as, caAnyL tbl x as b = as.any (fun a => ca tbl x a b)
  | [] => by simp [caAnyL]
  | a :: as => by simp [caAnyL, caAnyL_eq_any tbl x b as]

theorem ca_union_right (tbl x a bs) : ca tbl x a (.union bs) = caAllR tbl x a bs := by
  cases a <;> simp [ca, caAllR_any]

theorem caAnyL_of_mem (tbl x) (a : Ty) (b : Ty) : ∀ (as : List Ty), a ∈ as → ca tbl x a b = true → caAnyL tbl x as b = true
  | [], h, _ => by simp at h
  | a' :: as, h, hc => by
    simp only [List.mem_cons] at h
    rcases h with rfl | h
    · simp [caAnyL, hc]
    · simp [caAnyL, caAnyL_of_mem tbl x a b as h hc]

theorem ca_annotated_right (tbl x) (e t : Ty) : ca tbl x e (.annotated t) = ca tbl x e t := by
  cases e <;> simp [ca]

mutual
theorem ca_union_left (tbl x) (a : Ty) (as : List Ty) (ha : a ∈ as) :
    ∀ (b : Ty), ca tbl x a b = true → ca tbl x (.union as) b = true
  | .union bs, h => by
    rw [ca_union_right] at h ⊢
    exact ca_union_left_list tbl x a as ha bs h
  | .annotated t, h => by
    rw [ca_annotated_right] at h ⊢
    exact ca_union_left tbl x a as ha t h
  | .any, h => by simp [ca]; right; exact caAnyL_of_mem tbl x a _ as ha h
  | .known _, h => by simp [ca]; exact caAnyL_of_mem tbl x a _ as ha h
  | .typed _, h => by simp [ca]; exact caAnyL_of_mem tbl x a _ as ha h
  | .newtype _ _, h => by simp [ca]; exact caAnyL_of_mem tbl x a _ as ha h
  | .generic _ _, h => by simp [ca]; exact caAnyL_of_mem tbl x a _ as ha h
  | .seq _ _, h => by simp [ca]; exact caAnyL_of_mem tbl x a _ as ha h
  | .many _, h => by simp [ca]; exact caAnyL_of_mem tbl x a _ as ha h
  | .subclass _, h => by simp [ca]; exact caAnyL_of_mem tbl x a _ as ha h
  | .tvar _, h => by simp [ca]; exact caAnyL_of_mem tbl x a _ as ha h
theorem ca_union_left_list (tbl x) (a : Ty) (as : List Ty) (ha : a ∈ as) :
    ∀ (bs : List Ty), caAllR tbl x a bs = true → caAllR tbl x (.union as) bs = true
  | [], _ => by simp [caAllR]
  | b :: bs, h => by
    simp only [caAllR, Bool.and_eq_true] at h ⊢
    exact ⟨ca_union_left tbl x a as ha b h.1, ca_union_left_list tbl x a as ha bs h.2⟩
end

end Pya
