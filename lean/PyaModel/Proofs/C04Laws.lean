import PyaModel.Spec.D04Sound
import PyaModel.Proofs.C03
/-! # Proofs/C04Laws — the table laws added for C04 (`c04Law`, `c04Dims`) in usable form -/
namespace Pya

theorem c04Law_of_tableOk (tbl : ClassTable) (h : tableOk tbl = true) :
    (∀ c, c < tbl.size → c04Law tbl c = true) ∧ c04Dims tbl = true := by
  have big := (laws_of_tableOk tbl h).big
  simp only [tableOk, Bool.and_eq_true, allBelow_iff] at h
  obtain ⟨-, hU⟩ := h
  exact ⟨fun c hc => (hU c hc).1.1.2.1, (hU 0 (by omega)).1.1.2.2⟩

theorem getD_getD_false_of_dims {m : List (List Bool)} {n : Nat}
    (h1 : m.length ≤ n) (h2 : ∀ r ∈ m, r.length ≤ n) (c d : Nat) (h : n ≤ c ∨ n ≤ d) :
    (m.getD c []).getD d false = false := by
  by_cases hc : c < m.length
  · have hr : (m.getD c []) = m[c] := by simp [List.getD, hc]
    rw [hr]
    have := h2 m[c] (List.getElem_mem hc)
    rcases h with h | h
    · omega
    · simp [List.getD, List.getElem?_eq_none (show m[c].length ≤ d by omega)]
  · simp [List.getD, List.getElem?_eq_none (show m.length ≤ c by omega)]

structure Laws4 (tbl : ClassTable) : Prop where
  reflN : ∀ c, c < tbl.size → ∀ x, tbl.nominal x c c = true
  reflG : ∀ c, c < tbl.size → tbl.arity c ≠ 0 →
    ∃ g, tbl.gbase c c = some g ∧ g.length = tbl.arity c ∧ isIdFrom 0 g = true
  objN : ∀ c, c < tbl.size → ∀ x, tbl.nominal x C.object c = true
  objC : ∀ c, c < tbl.size → ∀ x, tbl.nominalC x C.object c = true
  objI : ∀ c, c < tbl.size → tbl.issub c C.object = true
  subTuple : ∀ d, d < tbl.size → sub tbl d C.tuple = true → d = C.tuple
  subList : ∀ d, d < tbl.size → sub tbl d C.list = true → d = C.list
  gFset : ∀ c, c < tbl.size → gOkSeq tbl C.frozenset c = true
  trans : ∀ c, c < tbl.size → (tbl.isProtocol c = false ∨ tbl.arity c ≠ 0) →
    ∀ b, b < tbl.size → sub tbl b c = true → ∀ a, a < tbl.size → sub tbl a b = true → sub tbl a c = true
  monoN : ∀ c d, tbl.nominal true c d = true → tbl.nominal false c d = true
  monoK : ∀ c d, tbl.nominalK true c d = true → tbl.nominalK false c d = true
  monoC : ∀ c d, tbl.nominalC true c d = true → tbl.nominalC false c d = true
  gMatch : ∀ c, c < tbl.size → ∀ d, d < tbl.size → tbl.arity c ≠ 0 → ∀ g, tbl.gbase d c = some g →
    g.length = tbl.arity c →
    sub tbl d c = true ∧ (contSuper tbl d = true → isIdFrom 0 g = true ∧ tbl.arity c ≤ tbl.arity d)
  gFall : ∀ c, c < tbl.size → ∀ d, d < tbl.size → tbl.arity c ≠ 0 → contSuper tbl d = true →
    (∀ g, tbl.gbase d c = some g → g.length ≠ tbl.arity c) → tbl.nominal false c d = false

theorem laws4_of_tableOk (tbl : ClassTable) (h : tableOk tbl = true) : Laws4 tbl := by
  obtain ⟨hl, hd⟩ := c04Law_of_tableOk tbl h
  simp only [c04Dims, Bool.and_eq_true, decide_eq_true_eq, List.all_eq_true] at hd
  obtain ⟨⟨⟨dN1, dN2⟩, ⟨dK1, dK2⟩⟩, ⟨dC1, dC2⟩⟩ := hd
  have hl' : ∀ c, c < tbl.size → _ := fun c hc => by
    have := hl c hc
    simp only [c04Law, Bool.and_eq_true, Bool.or_eq_true, allBelow_iff, Bool.not_eq_true',
      beq_iff_eq] at this
    exact this
  have mono : ∀ (f : Bool → Cls → Cls → Bool) (m : List (List Bool)),
      (∀ c d, f true c d = (m.getD c []).getD d false) → m.length ≤ tbl.size →
      (∀ r ∈ m, r.length ≤ tbl.size) →
      (∀ c, c < tbl.size → ∀ d, d < tbl.size → f true c d = false ∨ f false c d = true) →
      ∀ c d, f true c d = true → f false c d = true := by
    intro f m hf h1 h2 hin c d hcd
    by_cases hr : c < tbl.size ∧ d < tbl.size
    · rcases hin c hr.1 d hr.2 with h | h
      · rw [h] at hcd; cases hcd
      · exact h
    · have : tbl.size ≤ c ∨ tbl.size ≤ d := by
        rcases Nat.lt_or_ge c tbl.size with h | h
        · rcases Nat.lt_or_ge d tbl.size with h' | h'
          · exact absurd ⟨h, h'⟩ hr
          · exact .inr h'
        · exact .inl h
      rw [hf, getD_getD_false_of_dims h1 h2 c d this] at hcd; cases hcd
  constructor
  · intro c hc x
    obtain ⟨⟨⟨⟨⟨⟨⟨⟨⟨⟨⟨⟨h1, h2⟩, _⟩, _⟩, _⟩, _⟩, _⟩, _⟩, _⟩, _⟩, _⟩, _⟩, _⟩ := hl' c hc
    cases x <;> assumption
  · intro c hc har
    obtain ⟨⟨⟨⟨⟨⟨⟨⟨⟨⟨⟨⟨_, _⟩, h3⟩, _⟩, _⟩, _⟩, _⟩, _⟩, _⟩, _⟩, _⟩, _⟩, _⟩ := hl' c hc
    rcases h3 with h3 | h3
    · exact absurd h3 har
    · split at h3
      · next g hg =>
        simp only [Bool.and_eq_true, beq_iff_eq] at h3
        exact ⟨g, hg, h3.1, h3.2⟩
      · cases h3
  · intro c hc x
    obtain ⟨⟨⟨⟨⟨⟨⟨⟨⟨⟨⟨⟨_, _⟩, _⟩, h4⟩, h5⟩, _⟩, _⟩, _⟩, _⟩, _⟩, _⟩, _⟩, _⟩ := hl' c hc
    cases x <;> assumption
  · intro c hc x
    obtain ⟨⟨⟨⟨⟨⟨⟨⟨⟨⟨⟨⟨_, _⟩, _⟩, _⟩, _⟩, h6⟩, h7⟩, _⟩, _⟩, _⟩, _⟩, _⟩, _⟩ := hl' c hc
    cases x <;> assumption
  · intro c hc
    exact (hl' c hc).1.1.1.1.1.2
  · intro d hd hs
    rcases (hl' d hd).1.1.1.1.2 with h | h
    · rw [hs] at h; cases h
    · exact h
  · intro d hd hs
    rcases (hl' d hd).1.1.1.2 with h | h
    · rw [hs] at h; cases h
    · exact h
  · intro c hc
    exact (hl' c hc).1.1.2
  · intro c hc hp b hb hbc a ha hab
    rcases (hl' c hc).1.2 with h | h
    · rcases hp with hp | hp
      · rw [hp] at h; cases h.1
      · exact absurd h.2 hp
    · rcases h b hb with h | h
      · rw [hbc] at h; cases h
      · rcases h a ha with h | h
        · rw [hab] at h; cases h
        · exact h
  · exact mono tbl.nominal tbl.nominalXM (fun c d => by simp [ClassTable.nominal]) dN1 dN2
      fun c hc d hd => ((hl' c hc).2 d hd).1.1.1
  · exact mono tbl.nominalK tbl.nominalKXM (fun c d => by simp [ClassTable.nominalK]) dK1 dK2
      fun c hc d hd => ((hl' c hc).2 d hd).1.1.2
  · exact mono tbl.nominalC tbl.nominalCXM (fun c d => by simp [ClassTable.nominalC]) dC1 dC2
      fun c hc d hd => ((hl' c hc).2 d hd).1.2
  · intro c hc d hd har g hg hlen
    rcases ((hl' c hc).2 d hd).2 with h | h
    · exact absurd h har
    · rw [hg] at h
      simp only [hlen, if_true, Bool.and_eq_true, Bool.or_eq_true,
        Bool.not_eq_true', decide_eq_true_eq] at h
      refine ⟨h.1, fun hcs => ?_⟩
      rcases h.2 with h2 | h2
      · rw [hcs] at h2; cases h2
      · exact h2
  · intro c hc d hd har hcs hg
    rcases ((hl' c hc).2 d hd).2 with h | h
    · exact absurd h har
    · split at h
      · next g hgb =>
        have := hg g hgb
        simp only [this, if_false, Bool.or_eq_true, Bool.not_eq_true'] at h
        rcases h with h | h
        · rw [hcs] at h; cases h
        · exact h
      · simp only [Bool.or_eq_true, Bool.not_eq_true'] at h
        rcases h with h | h
        · rw [hcs] at h; cases h
        · exact h

end Pya
