import PyaModel.Proofs.C04Laws
/-! # Proofs/C04Mono — exclude-any monotonicity of `ca` -/
namespace Pya

theorem typedCA_mono (tbl : ClassTable)
    (hN : ∀ c d, tbl.nominal true c d = true → tbl.nominal false c d = true)
    (hK : ∀ c d, tbl.nominalK true c d = true → tbl.nominalK false c d = true)
    (hC : ∀ c d, tbl.nominalC true c d = true → tbl.nominalC false c d = true)
    (c : Cls) (a : Ty) (h : typedCA tbl true c a = true) : typedCA tbl false c a = true := by
  unfold typedCA at h ⊢
  split at h
  · simp only [Bool.or_eq_true] at h ⊢
    exact h.imp (hC _ _) id
  · simp only [Bool.or_eq_true] at h ⊢
    exact h.imp (hK _ _) id
  · split at h
    · next d hd => exact hN _ _ h
    · cases h

/-- Everything accepted in the "Any only matches Any" mode is accepted in the normal mode, given
the same inclusion for the three class-level relations. By the functional induction principle of
the mutual block `ca … caAnyS` (13 motives: the same statement for every helper). -/
theorem ca_mono_all (tbl : ClassTable)
    (hN : ∀ c d, tbl.nominal true c d = true → tbl.nominal false c d = true)
    (hK : ∀ c d, tbl.nominalK true c d = true → tbl.nominalK false c d = true)
    (hC : ∀ c d, tbl.nominalC true c d = true → tbl.nominalC false c d = true) :
    (∀ e a, ca tbl true e a = true → ca tbl false e a = true) := by
  intro e a
  have T := typedCA_mono tbl hN hK hC
  apply ca.induct tbl
    (motive1 := fun e a => ca tbl true e a = true → ca tbl false e a = true)
    (motive2 := fun ms t => caAnyM tbl true ms t = true → caAnyM tbl false ms t = true)
    (motive3 := fun ms ns => caAnyMM tbl true ms ns = true → caAnyMM tbl false ms ns = true)
    (motive4 := fun ms t => caAnyMT tbl true ms t = true → caAnyMT tbl false ms t = true)
    (motive5 := fun ms t => caAnyS tbl true ms t = true → caAnyS tbl false ms t = true)
    (motive6 := fun ms bs => caAnyMTs tbl true ms bs = true → caAnyMTs tbl false ms bs = true)
    (motive7 := fun ms os => caZipK tbl true ms os = true → caZipK tbl false ms os = true)
    (motive8 := fun ms ns => caZip tbl true ms ns = true → caZip tbl false ms ns = true)
    (motive9 := fun es ts => caArgs tbl true es ts = true → caArgs tbl false es ts = true)
    (motive10 := fun e t => caArg tbl true e t = true → caArg tbl false e t = true)
    (motive11 := fun e ns => caMems tbl true e ns = true → caMems tbl false e ns = true)
    (motive12 := fun es a => caAnyL tbl true es a = true → caAnyL tbl false es a = true)
    (motive13 := fun e bs => caAllR tbl true e bs = true → caAllR tbl false e bs = true)
  all_goals try (intros; simp_all [ca, caAnyM, caAnyMM, caAnyMT, caAnyS, caAnyMTs, caZipK, caZip, caArgs, caArg, caMems, caAnyL, caAllR]; done)
  case case4 => intro es a h1 h2 ih h; cases a <;> simp_all [ca]
  case case39 => intro ms t h1 h2 ih h; cases t <;> simp_all [caAnyMT]
  case case41 =>
    intro m ms t ih2 ih1 h
    simp only [caAnyS, Bool.or_eq_true] at h ⊢
    exact h.imp ih2 ih1
  case case42 =>
    intro m ms t hm ih2 ih1 h
    rw [caAnyS.eq_3 _ _ _ _ _ hm] at h ⊢
    simp only [Bool.or_eq_true] at h ⊢
    exact h.imp ih2 ih1
  case case65 =>
    intro m ms t ih2 ih1 h
    simp only [caAnyL, Bool.or_eq_true] at h ⊢
    exact h.imp ih2 ih1

end Pya
