import PyaModel.Proofs.C04Laws
import PyaModel.Proofs.C04
/-! # Proofs/C04Refl — reflexivity of `ca`, and `object` as top -/
namespace Pya

/-! ### `==` is reflexive -/
theorem Obj.pyEqList_refl_of (xs : List Obj) (h : ∀ x ∈ xs, Obj.pyEq x x = true) :
    Obj.pyEqList xs xs = true := by
  induction xs with
  | nil => simp [Obj.pyEqList]
  | cons x xs ih =>
    simp only [Obj.pyEqList, Bool.and_eq_true]
    exact ⟨h x (by simp), ih fun y hy => h y (by simp [hy])⟩

theorem Obj.pyEq_refl : ∀ (a : Obj), Obj.pyEq a a = true
  | .tuple xs | .list xs | .set xs | .fset xs => by
    simp only [Obj.pyEq]
    exact Obj.pyEqList_refl_of xs fun x _ => Obj.pyEq_refl x
  | .dict ks vs => by
    simp only [Obj.pyEq, Bool.and_eq_true]
    exact ⟨Obj.pyEqList_refl_of ks fun x _ => Obj.pyEq_refl x,
      Obj.pyEqList_refl_of vs fun x _ => Obj.pyEq_refl x⟩
  | .int _ | .bool _ | .str _ | .bytes _ | .none | .flt _ | .cplx _ | .inst _ _ | .cls _ => by
    simp [Obj.pyEq]
termination_by a => sizeOf a

theorem Obj.same_refl (a : Obj) : Obj.same a a = true := by
  simp [Obj.same, Obj.pyEq_refl]

theorem all_congr_mem {α : Type} {f g : α → Bool} : ∀ (l : List α), (∀ a ∈ l, f a = g a) →
    l.all f = l.all g
  | [], _ => rfl
  | a :: l, h => by
    simp only [List.all_cons]
    rw [h a (by simp), all_congr_mem l fun b hb => h b (by simp [hb])]

/-! ### `Annotated` on the left is transparent -/
theorem ca_annotated_left (tbl : ClassTable) (x : Bool) (t : Ty) :
    ∀ b, ca tbl x (.annotated t) b = ca tbl x t b := by
  intro b
  induction b using Ty.ind' with
  | annotated b ih => rw [ca_annotated_right, ca_annotated_right, ih]
  | union bs ih =>
    rw [ca_union_right, ca_union_right, caAllR_eq_all, caAllR_eq_all]
    exact all_congr_mem bs ih
  | _ => simp [ca]

/-! ### generic arguments of a class seen as itself -/
theorem instArgs_id_from (own : List TArg) : ∀ (g : List GArg) (i : Nat), isIdFrom i g = true →
    instArgs g own = (List.range' i g.length).map fun j => own.getD j (.ty .any)
  | [], _, _ => by simp [instArgs]
  | .param j :: g, i, h => by
    simp only [isIdFrom, Bool.and_eq_true, beq_iff_eq] at h
    have ih := instArgs_id_from own g (i + 1) h.2
    rw [show instArgs (.param j :: g) own = own.getD j (.ty .any) :: instArgs g own from rfl, ih,
      List.length_cons, List.range'_succ, List.map_cons, h.1]
  | .fixed _ :: _, _, h => by simp [isIdFrom] at h

theorem instArgs_id (own : List TArg) (g : List GArg) (h : isIdFrom 0 g = true)
    (hl : g.length = own.length) : instArgs g own = own := by
  rw [instArgs_id_from own g 0 h, hl]
  apply List.ext_getElem
  · simp
  · intro i h1 h2
    simp [List.getD, h2]

section
variable {tbl : ClassTable} {x : Bool}

theorem caArgs_refl : ∀ (args : List Ty), (∀ t ∈ args, ca tbl x t t = true) →
    caArgs tbl x args (args.map .ty) = true
  | [], _ => by simp [caArgs]
  | t :: ts, h => by
    simp only [List.map_cons, caArgs, caArg, Bool.and_eq_true]
    exact ⟨h t (by simp), caArgs_refl ts fun s hs => h s (by simp [hs])⟩

/-- the statement carried through the induction: the term accepts itself, and a `many` member's
content accepts itself -/
def ReflAt (tbl : ClassTable) (x : Bool) (t : Ty) : Prop :=
  (t.wfR tbl = true → ca tbl x t t = true) ∧
  (∀ m, t = .many m → m.wfR tbl = true → ca tbl x m m = true)

theorem caZip_refl : ∀ (ms : List Ty), Ty.wfRM tbl ms = true → (∀ t ∈ ms, ReflAt tbl x t) →
    caZip tbl x ms ms = true
  | [], _, _ => by simp [caZip]
  | .many m :: ms, hw, h => by
    simp only [Ty.wfRM, Bool.and_eq_true] at hw
    simp only [caZip, Bool.and_eq_true]
    exact ⟨(h (.many m) (by simp)).2 m rfl hw.1, caZip_refl ms hw.2 fun s hs => h s (by simp [hs])⟩
  | .any :: ms, hw, h | .known _ :: ms, hw, h | .typed _ :: ms, hw, h | .newtype _ _ :: ms, hw, h
  | .generic _ _ :: ms, hw, h | .seq _ _ :: ms, hw, h | .union _ :: ms, hw, h
  | .subclass _ :: ms, hw, h | .annotated _ :: ms, hw, h | .tvar _ :: ms, hw, h => by
    simp only [Ty.wfRM, Bool.and_eq_true] at hw
    simp only [caZip, Bool.and_eq_true]
    exact ⟨(h _ (by simp)).1 hw.1, caZip_refl ms hw.2 fun s hs => h s (by simp [hs])⟩

theorem Ty.wfRL_iff (tbl : ClassTable) (ts : List Ty) :
    Ty.wfRL tbl ts = true ↔ ∀ t ∈ ts, t.wfR tbl = true := by
  induction ts <;> simp_all [Ty.wfRL]

theorem ca_refl_all (L4 : Laws4 tbl) (x : Bool) : ∀ t, ReflAt tbl x t := by
  intro t
  induction t using Ty.ind' with
  | any => exact ⟨fun _ => by simp [ca], fun m h => by cases h⟩
  | known o => exact ⟨fun _ => by simp [ca, Obj.same_refl], fun m h => by cases h⟩
  | typed c =>
    refine ⟨fun hw => ?_, fun m h => by cases h⟩
    simp only [Ty.wfR, decide_eq_true_eq] at hw
    simp [ca, typedCA, typOf, L4.reflN c hw x]
  | newtype n c => exact ⟨fun _ => by simp [ca], fun m h => by cases h⟩
  | generic c args ih =>
    refine ⟨fun hw => ?_, fun m h => by cases h⟩
    simp only [Ty.wfR, Bool.and_eq_true, decide_eq_true_eq, beq_iff_eq, Ty.wfRL_iff] at hw
    obtain ⟨⟨⟨hc, har⟩, hlen⟩, hws⟩ := hw
    obtain ⟨g, hg, hgl, hid⟩ := L4.reflG c hc (by omega)
    have hne : args ≠ [] := by intro h; subst h; simp at hlen; omega
    simp only [ca, theirArgs, hg, Option.map_some]
    rw [instArgs_id _ g hid (by simp [hgl, hlen])]
    simp only [List.length_map, beq_self_eq_true, if_true, Bool.and_eq_true, Bool.not_eq_true',
      List.isEmpty_eq_false_iff]
    exact ⟨hne, caArgs_refl args fun t ht => (ih t ht).1 (hws t ht)⟩
  | seq c ms ih =>
    refine ⟨fun hw => ?_, fun m h => by cases h⟩
    simp only [Ty.wfR, Bool.and_eq_true, decide_eq_true_eq] at hw
    simp only [ca, L4.reflN c hw.1 x, beq_self_eq_true, Bool.true_and]
    exact caZip_refl ms hw.2 ih
  | many t ih => exact ⟨fun hw => by simp [Ty.wfR] at hw, fun m h hw => by cases h; exact ih.1 hw⟩
  | union ts ih =>
    refine ⟨fun hw => ?_, fun m h => by cases h⟩
    simp only [Ty.wfR, Ty.wfRL_iff] at hw
    rw [ca_union_right, caAllR_eq_all, List.all_eq_true]
    intro t ht
    exact ca_union_left tbl x t ts ht t ((ih t ht).1 (hw t ht))
  | subclass c =>
    refine ⟨fun hw => ?_, fun m h => by cases h⟩
    simp only [Ty.wfR, decide_eq_true_eq] at hw
    simp [ca, L4.reflN c hw x]
  | annotated t ih =>
    refine ⟨fun hw => ?_, fun m h => by cases h⟩
    rw [ca_annotated_right, ca_annotated_left]
    exact ih.1 (by simpa [Ty.wfR] using hw)
  | tvar i => exact ⟨fun hw => by simp [Ty.wfR] at hw, fun m h => by cases h⟩

/-! ### `Ty.wf` implies `Ty.wfR` -/
theorem wfR_of_wf (L : Laws tbl) : ∀ t : Ty, (t.wf tbl = true → t.wfR tbl = true) ∧
    (∀ m, t = .many m → m.wf tbl = true → m.wfR tbl = true) := by
  intro t
  induction t using Ty.ind' with
  | any => exact ⟨fun h => by simp [Ty.wf] at h, fun m h => by cases h⟩
  | known o => exact ⟨fun _ => rfl, fun m h => by cases h⟩
  | typed c => exact ⟨fun h => by simpa [Ty.wf, Ty.wfR] using h, fun m h => by cases h⟩
  | newtype n c => exact ⟨fun _ => rfl, fun m h => by cases h⟩
  | generic c args ih =>
    refine ⟨fun hw => ?_, fun m h => by cases h⟩
    simp only [Ty.wf, Ty.wfR, Bool.and_eq_true, Ty.wfL_iff, Ty.wfRL_iff] at hw ⊢
    exact ⟨hw.1, fun t ht => (ih t ht).1 (hw.2 t ht)⟩
  | seq c ms ih =>
    refine ⟨fun hw => ?_, fun m h => by cases h⟩
    simp only [Ty.wf, Ty.wfR, Bool.and_eq_true, Bool.or_eq_true, beq_iff_eq, decide_eq_true_eq] at hw ⊢
    have hb := L.big
    refine ⟨by rcases hw.1 with rfl | rfl <;> exact Nat.lt_of_lt_of_le (by decide) hb, ?_⟩
    have hm := hw.2
    clear hw
    induction ms with
    | nil => simp [Ty.wfRM]
    | cons m ms ihm =>
      have ih1 := ih m (by simp)
      have ih2 := ihm (fun t ht => ih t (by simp [ht]))
      cases m <;> simp only [Ty.wfM, Ty.wfRM, Bool.and_eq_true] at hm ⊢ <;>
        first
          | exact ⟨ih1.2 _ rfl hm.1, ih2 hm.2⟩
          | exact ⟨ih1.1 hm.1, ih2 hm.2⟩
  | many t ih => exact ⟨fun h => by simp [Ty.wf] at h, fun m h hw => by cases h; exact ih.1 hw⟩
  | union ts ih =>
    refine ⟨fun hw => ?_, fun m h => by cases h⟩
    simp only [Ty.wf, Ty.wfR, Ty.wfL_iff, Ty.wfRL_iff] at hw ⊢
    exact fun t ht => (ih t ht).1 (hw t ht)
  | subclass c =>
    refine ⟨fun hw => ?_, fun m h => by cases h⟩
    simp only [Ty.wf, Ty.wfR, Bool.and_eq_true] at hw ⊢
    exact hw.1
  | annotated t ih => exact ⟨fun hw => ih.1 (by simpa [Ty.wf] using hw), fun m h => by cases h⟩
  | tvar i => exact ⟨fun h => by simp [Ty.wf] at h, fun m h => by cases h⟩

/-! ### `object` accepts everything -/
theorem ca_object_top (L : Laws tbl) (L4 : Laws4 tbl) (x : Bool) :
    ∀ b, b.wfB tbl = true → ca tbl x (.typed C.object) b = true := by
  intro b
  induction b using Ty.ind' with
  | any => intro h; simp [Ty.wfB] at h
  | many t _ => intro h; simp [Ty.wfB] at h
  | tvar i => intro h; simp [Ty.wfB] at h
  | annotated t ih => intro h; rw [ca_annotated_right]; exact ih (by simpa [Ty.wfB] using h)
  | union ts ih =>
    intro h
    rw [ca_union_right, caAllR_eq_all, List.all_eq_true]
    intro t ht
    have : Ty.wfBL tbl ts = true → t.wfB tbl = true := by
      clear ih h
      induction ts with
      | nil => simp at ht
      | cons s ss ihs =>
        simp only [Ty.wfBL, Bool.and_eq_true]
        rcases List.mem_cons.mp ht with rfl | ht
        · exact fun h => h.1
        · exact fun h => ihs ht h.2
    exact ih t ht (this (by simpa [Ty.wfB] using h))
  | known o =>
    intro h
    simp only [Ty.wfB] at h
    have hlt := clsOf_lt L h
    cases o
    case cls d =>
      simp only [Obj.wf, decide_eq_true_eq] at h
      simp [ca, typedCA, L4.objC d h x]
    all_goals simp [ca, typedCA, L4.objI _ hlt]
  | typed c => intro h; simp only [Ty.wfB, decide_eq_true_eq] at h; simp [ca, typedCA, typOf, L4.objN c h x]
  | newtype n c => intro h; simp only [Ty.wfB, decide_eq_true_eq] at h; simp [ca, typedCA, typOf, L4.objN c h x]
  | generic c args _ =>
    intro h
    simp only [Ty.wfB, Bool.and_eq_true, decide_eq_true_eq] at h
    simp [ca, typedCA, typOf, L4.objN c h.1.1.1 x]
  | seq c ms _ =>
    intro h
    simp only [Ty.wfB, Bool.and_eq_true, Bool.or_eq_true, beq_iff_eq] at h
    have hb := L.big
    have hc : c < tbl.size := by rcases h.1 with rfl | rfl <;> exact Nat.lt_of_lt_of_le (by decide) hb
    simp [ca, typedCA, typOf, L4.objN c hc x]
  | subclass c =>
    intro h
    simp only [Ty.wfB, decide_eq_true_eq] at h
    simp [ca, typedCA, typOf, L4.objN _ (L.metaLt c h) x]

end
end Pya
