import PyaModel.Proofs.C04Sub
import PyaModel.Proofs.C04Refl
/-!
# Proofs/C04Sound — soundness of `ca` for membership

`Sound tbl A`: for every right-hand side `B` (well-formed, outside the leniencies and exception
classes — bundle `SH`), if `ca tbl false A B` then every object of `B` is an object of `A`.
Proved by induction on `A`; the right-hand side is first reduced to an atom (unions and
`Annotated` are peeled); for a literal `B = known k` the object is `k` itself (`Obj.same_eq`) and
the dispatch branch of `A` is followed on the literal (one direction of the C03 theorem, without
its `variadicTuple` / `strVsGeneric` exclusions).
-/
namespace Pya

/-- The side conditions of soundness in the form used by the induction: every field passes to
sub-terms of `A` and of `B`. -/
structure SH (tbl : ClassTable) (A B : Ty) : Prop where
  nn : A.hasNewtype = false
  bare : ∀ b, Ty.Sub b B → isBare tbl b = false
  lit : ∀ k, Ty.Sub (.known k) B → k.hasFset = false ∧ k.confusable = false ∧
    (k.hasCls = false ∨ A.hasProto tbl = false)
  l2 : (∀ a, Ty.Sub a A → isSeqNode a = false) ∨ (∀ b, Ty.Sub b B → isGenericNode b = false)
  mt : (∀ a, Ty.Sub a A → isSubclassNode a = false) ∨ (∀ b, Ty.Sub b B → isTypedMeta tbl b = false)
  nom : ∀ a b, Ty.Sub a A → Ty.Sub b B → badNom tbl a b = false
  met : ∀ a b, Ty.Sub a A → Ty.Sub b B → badMeta tbl a b = false

section
variable {tbl : ClassTable}

theorem SH.sub {A B a b : Ty} (h : SH tbl A B) (ha : Ty.Sub a A) (hb : Ty.Sub b B) : SH tbl a b where
  nn := ha.hasNewtype h.nn
  bare := fun s hs => h.bare s (hs.trans hb)
  lit := fun k hk => by
    obtain ⟨h1, h2, h4⟩ := h.lit k (hk.trans hb)
    exact ⟨h1, h2, h4.imp id ha.hasProto⟩
  l2 := h.l2.imp (fun f s hs => f s (hs.trans ha)) (fun f s hs => f s (hs.trans hb))
  mt := h.mt.imp (fun f s hs => f s (hs.trans ha)) (fun f s hs => f s (hs.trans hb))
  nom := fun s t hs ht => h.nom s t (hs.trans ha) (ht.trans hb)
  met := fun s t hs ht => h.met s t (hs.trans ha) (ht.trans hb)

theorem SH.left {A B a : Ty} (h : SH tbl A B) (ha : Ty.Sub a A) : SH tbl a B := h.sub ha (.refl _)
theorem SH.right {A B b : Ty} (h : SH tbl A B) (hb : Ty.Sub b B) : SH tbl A b := h.sub (.refl _) hb

/-- soundness of `A` against one right-hand side -/
def SoundAt (tbl : ClassTable) (A B : Ty) : Prop :=
  ca tbl false A B = true → ∀ o, o.wf tbl = true → o.hasFset = false →
    mem tbl o B = true → mem tbl o A = true

def Sound (tbl : ClassTable) (A : Ty) : Prop :=
  ∀ B, A.wf tbl = true → B.wfB tbl = true → SH tbl A B → SoundAt tbl A B

/-! ### literals on the right: the object is the literal -/
theorem known_eq {A : Ty} {k o : Obj} (H : SH tbl A (.known k)) (hof : o.hasFset = false)
    (hm : mem tbl o (.known k) = true) : o = k := by
  obtain ⟨h1, h2, -⟩ := H.lit k (.refl _)
  exact Obj.same_eq hof h1 h2 (by simpa [mem] using hm)

theorem Ty.Sub.of_known {s : Ty} {k : Obj} (h : Ty.Sub s (.known k)) : s = .known k := by
  cases h; rfl

theorem Obj.confusable_of_hasBoolish {x : Obj} (h : x.hasBoolish = false) : x.confusable = false := by
  cases x <;> simp_all [Obj.hasBoolish, Obj.confusable]

/-- the side conditions pass from a literal to its elements -/
theorem SH.kid {A t : Ty} {k x : Obj} (H : SH tbl A (.known k)) (ht : Ty.Sub t A)
    (hx : x ∈ k.kids) : SH tbl t (.known x) := by
  obtain ⟨h1, h2, h4⟩ := H.lit k (.refl _)
  refine ⟨ht.hasNewtype H.nn, ?_, ?_, .inr ?_, .inr ?_, ?_, ?_⟩
  · intro b hb; rw [hb.of_known]; rfl
  · intro k' hk'
    have := hk'.of_known
    simp only [Ty.known.injEq] at this
    subst this
    refine ⟨?_, ?_, ?_⟩
    · cases k <;> simp_all [Obj.kids, Obj.hasFset, Obj.hasFsetL_iff] <;> grind
    · apply Obj.confusable_of_hasBoolish
      cases k <;> simp_all [Obj.kids, Obj.confusable, Obj.hasBoolishL_iff] <;> grind
    · rcases h4 with h4 | h4
      · left; cases k <;> simp_all [Obj.kids, Obj.hasCls, Obj.hasClsL_iff] <;> grind
      · exact .inr (ht.hasProto h4)
  · intro b hb; rw [hb.of_known]; rfl
  · intro b hb; rw [hb.of_known]; rfl
  · intro a b _ hb; rw [hb.of_known]; cases a <;> rfl
  · intro a b _ hb; rw [hb.of_known]; cases a <;> rfl

theorem Obj.wf_kid {k x : Obj} (hk : k.wf tbl = true) (hx : x ∈ k.kids) : x.wf tbl = true := by
  cases k <;> simp_all [Obj.kids, Obj.wf, Obj.wfL_iff] <;> grind

theorem Obj.hasFset_kid {k x : Obj} (hk : k.hasFset = false) (hx : x ∈ k.kids) :
    x.hasFset = false := by
  cases k <;> simp_all [Obj.kids, Obj.hasFset, Obj.hasFsetL_iff] <;> grind

/-- no protocol target for a literal class object -/
theorem SH.noProto {A : Ty} {k : Obj} (H : SH tbl A (.known k)) {d : Cls} (hk : k = .cls d) :
    A.hasProto tbl = false := by
  obtain ⟨-, -, h4⟩ := H.lit k (.refl _)
  rcases h4 with h4 | h4
  · subst hk; simp [Obj.hasCls] at h4
  · exact h4

/-! ### peeling unions and `Annotated` on the right -/
theorem memAny_iff (o : Obj) (ts : List Ty) :
    memAny tbl o ts = true ↔ ∃ t ∈ ts, mem tbl o t = true := by
  induction ts <;> simp_all [memAny]

theorem Ty.wfBL_iff (tbl : ClassTable) (ts : List Ty) :
    Ty.wfBL tbl ts = true ↔ ∀ t ∈ ts, t.wfB tbl = true := by
  induction ts <;> simp_all [Ty.wfBL]

def Atomic (B : Ty) : Prop := (∀ bs, B ≠ .union bs) ∧ (∀ t, B ≠ .annotated t)

theorem sound_reduce {A : Ty}
    (hat : ∀ B, Atomic B → B.wfB tbl = true → SH tbl A B → SoundAt tbl A B) :
    ∀ B, B.wfB tbl = true → SH tbl A B → SoundAt tbl A B := by
  intro B
  induction B using Ty.ind' with
  | union bs ih =>
    intro hw H hca o ho hof hm
    rw [ca_union_right, caAllR_eq_all, List.all_eq_true] at hca
    simp only [mem, memAny_iff] at hm
    obtain ⟨b, hb, hmb⟩ := hm
    simp only [Ty.wfB, Ty.wfBL_iff] at hw
    exact ih b hb (hw b hb) (H.right (.union hb (.refl _))) (hca b hb) o ho hof hmb
  | annotated t ih =>
    intro hw H hca o ho hof hm
    rw [ca_annotated_right] at hca
    exact ih (by simpa [Ty.wfB] using hw) (H.right (.annotated (.refl _))) hca o ho hof
      (by simpa [mem] using hm)
  | any => exact hat _ ⟨by simp, by simp⟩
  | known o => exact hat _ ⟨by simp, by simp⟩
  | typed c => exact hat _ ⟨by simp, by simp⟩
  | newtype n c => exact hat _ ⟨by simp, by simp⟩
  | generic c args _ => exact hat _ ⟨by simp, by simp⟩
  | seq c ms _ => exact hat _ ⟨by simp, by simp⟩
  | many t _ => exact hat _ ⟨by simp, by simp⟩
  | subclass c => exact hat _ ⟨by simp, by simp⟩
  | tvar i => exact hat _ ⟨by simp, by simp⟩

/-- an atomic well-formed right-hand side is a literal, a term with a class in instance position,
or `type[d]` -/
theorem atomic_cases {B : Ty} (ha : Atomic B) (hw : B.wfB tbl = true) :
    (∃ k, B = .known k) ∨ (∃ d, headCls B = some d) ∨ (∃ d, B = .subclass d) := by
  cases B with
  | any => simp [Ty.wfB] at hw
  | many t => simp [Ty.wfB] at hw
  | tvar i => simp [Ty.wfB] at hw
  | union bs => exact absurd rfl (ha.1 bs)
  | annotated t => exact absurd rfl (ha.2 t)
  | known k => exact .inl ⟨k, rfl⟩
  | subclass d => exact .inr (.inr ⟨d, rfl⟩)
  | typed d => exact .inr (.inl ⟨d, rfl⟩)
  | newtype m d => exact .inr (.inl ⟨d, rfl⟩)
  | generic d bs => exact .inr (.inl ⟨d, rfl⟩)
  | seq d ns => exact .inr (.inl ⟨d, rfl⟩)

/-! ### class-level steps -/
theorem sub_refl (L : Laws tbl) {c : Cls} (hc : c < tbl.size) : sub tbl c c = true := by
  simp [sub, L.refl c hc]

theorem head_lt (L : Laws tbl) {B : Ty} {d : Cls} (hd : headCls B = some d) (hw : B.wfB tbl = true) :
    d < tbl.size := by
  have hb := L.big
  cases B <;> simp only [headCls, Option.some.injEq, reduceCtorEq] at hd <;> subst hd <;>
    simp only [Ty.wfB, Bool.and_eq_true, decide_eq_true_eq, Bool.or_eq_true, beq_iff_eq] at hw
  · exact hw
  · exact hw
  · exact hw.1.1.1
  · rcases hw.1 with rfl | rfl <;> exact Nat.lt_of_lt_of_le (by decide) hb

theorem mem_head (L : Laws tbl) {B : Ty} {d : Cls} {o : Obj} (hd : headCls B = some d)
    (hw : B.wfB tbl = true) (hm : mem tbl o B = true) : sub tbl (clsOf tbl o) d = true := by
  have hlt := head_lt L hd hw
  cases B <;> simp only [headCls, Option.some.injEq, reduceCtorEq] at hd <;> subst hd <;>
    simp only [mem, Bool.and_eq_true, beq_iff_eq] at hm
  · exact hm
  · rw [hm]; exact sub_refl L hlt
  · exact hm.1
  · exact hm.1

theorem typedCA_head {B : Ty} {c d : Cls} (hd : headCls B = some d) :
    typedCA tbl false c B = tbl.nominal false c d := by
  cases B <;> simp only [headCls, Option.some.injEq, reduceCtorEq] at hd <;> subst hd <;>
    simp [typedCA, typOf]

theorem nom_step {A B : Ty} {c d : Cls} (H : SH tbl A B) (hc : headCls A = some c)
    (hd : headCls B = some d) (hn : tbl.nominal false c d = true) {k : Cls} (hk : k < tbl.size)
    (hs : sub tbl k d = true) : sub tbl k c = true := by
  have := H.nom A B (.refl _) (.refl _)
  simp only [badNom, hc, hd, hn, Bool.true_and, Bool.not_eq_false', downOk, allBelow_iff] at this
  simpa [hs] using this k hk

theorem meta_step {A : Ty} {c d : Cls} (H : SH tbl A (.subclass d)) (hc : headCls A = some c)
    (hn : tbl.nominal false c (tbl.metaOf d) = true) {k : Cls} (hk : k < tbl.size)
    (hs : sub tbl k d = true) : sub tbl (tbl.metaOf k) c = true := by
  have := H.met A (.subclass d) (.refl _) (.refl _)
  simp only [badMeta, hc, hn, Bool.true_and, Bool.not_eq_false', metaDownOk, allBelow_iff] at this
  simpa [hs] using this k hk

theorem mem_subclass {o : Obj} {d : Cls} (ho : o.wf tbl = true) (hm : mem tbl o (.subclass d) = true) :
    ∃ d', o = .cls d' ∧ d' < tbl.size ∧ sub tbl d' d = true := by
  cases o <;> simp only [mem, reduceCtorEq] at hm
  exact ⟨_, rfl, by simpa [Obj.wf] using ho, hm⟩

/-! ### the easy left-hand sides: union, Annotated, literal, class, `type[c]` -/
theorem ca_typed_atomic {B : Ty} {c : Cls} (ha : Atomic B) (hw : B.wfB tbl = true) :
    ca tbl false (.typed c) B = typedCA tbl false c B := by
  cases B with
  | any => simp [Ty.wfB] at hw
  | union bs => exact absurd rfl (ha.1 bs)
  | annotated t => exact absurd rfl (ha.2 t)
  | _ => simp [ca]

theorem sound_union {es : List Ty} (ih : ∀ e ∈ es, Sound tbl e) : Sound tbl (.union es) := by
  intro B hA hB H
  refine sound_reduce (fun B hat hB H => ?_) B hB H
  intro hca o ho hof hm
  have hany : caAnyL tbl false es B = true := by
    cases B with
    | any => simp [Ty.wfB] at hB
    | union bs => exact absurd rfl (hat.1 bs)
    | annotated t => exact absurd rfl (hat.2 t)
    | _ => simpa [ca] using hca
  rw [caAnyL_eq_any, List.any_eq_true] at hany
  obtain ⟨e, he, hce⟩ := hany
  simp only [mem, memAny_iff]
  simp only [Ty.wf, Ty.wfL_iff] at hA
  exact ⟨e, he, ih e he B (hA e he) hB (H.left (.union he (.refl _))) hce o ho hof hm⟩

theorem sound_annotated {t : Ty} (ih : Sound tbl t) : Sound tbl (.annotated t) := by
  intro B hA hB H hca o ho hof hm
  rw [ca_annotated_left] at hca
  simp only [mem]
  exact ih B (by simpa [Ty.wf] using hA) hB (H.left (.annotated (.refl _))) hca o ho hof hm

theorem sound_lit (k : Obj) : Sound tbl (.known k) := by
  intro B hA hB H
  refine sound_reduce (fun B hat hB H => ?_) B hB H
  rcases atomic_cases hat hB with ⟨k', rfl⟩ | ⟨d, hd⟩ | ⟨d, rfl⟩
  · intro hca o ho hof hm
    have := known_eq H hof hm
    subst this
    simp only [ca] at hca
    simp only [mem]
    rw [Obj.same_comm]; exact hca
  · intro hca
    cases B <;> simp [headCls] at hd <;> simp [ca] at hca
  · intro hca; simp [ca] at hca

theorem sound_typed (L : Laws tbl) (c : Cls) : Sound tbl (.typed c) := by
  intro B hA hB H
  refine sound_reduce (fun B hat hB H => ?_) B hB H
  rcases atomic_cases hat hB with ⟨k', rfl⟩ | ⟨d, hd⟩ | ⟨d, rfl⟩
  · intro hca o ho hof hm
    have := known_eq H hof hm
    subst this
    rw [ca_typed_atomic hat hB, typedCA_known L (by simpa [Ty.wf] using hA) ho
      (fun d hd => by simpa [Ty.hasProto] using H.noProto hd)] at hca
    simpa [mem] using hca
  · intro hca o ho hof hm
    rw [ca_typed_atomic hat hB, typedCA_head hd] at hca
    simp only [mem]
    exact nom_step H rfl hd hca (clsOf_lt L ho) (mem_head L hd hB hm)
  · intro hca o ho hof hm
    rw [ca_typed_atomic hat hB] at hca
    obtain ⟨d', rfl, hd', hs⟩ := mem_subclass ho hm
    simp only [mem, clsOf]
    exact meta_step H rfl (by simpa [typedCA, typOf] using hca) hd' hs

theorem sound_subclass (L : Laws tbl) (L4 : Laws4 tbl) (c : Cls) : Sound tbl (.subclass c) := by
  intro B hA hB H
  refine sound_reduce (fun B hat hB H => ?_) B hB H
  simp only [Ty.wf, Bool.and_eq_true, decide_eq_true_eq, Bool.not_eq_true'] at hA
  rcases atomic_cases hat hB with ⟨k', rfl⟩ | ⟨d, hd⟩ | ⟨d, rfl⟩
  · intro hca o ho hof hm
    have := known_eq H hof hm
    subst this
    cases o <;> simp only [ca, Bool.false_eq_true] at hca
    rename_i d
    simp only [mem]
    rw [← L.lawS c hA.1 d (by simpa [Obj.wf] using ho) hA.2]
    exact hca
  · intro hca
    cases B <;> simp [headCls] at hd <;> simp only [ca, Bool.false_eq_true] at hca
    subst hd
    have hb := H.bare _ (.refl _)
    simp only [isBare, Bool.or_eq_false_iff, beq_eq_false_iff_ne] at hb
    rcases H.mt with h | h
    · have := h _ (.refl _); simp [isSubclassNode] at this
    · have := h _ (.refl _)
      simp only [isTypedMeta] at this
      simp [hb.2, this] at hca
  · intro hca o ho hof hm
    simp only [ca] at hca
    simp only [Ty.wfB, decide_eq_true_eq] at hB
    rw [L.lawS c hA.1 d hB hA.2] at hca
    obtain ⟨d', rfl, hd', hs⟩ := mem_subclass ho hm
    simp only [mem]
    exact L4.trans c hA.1 (.inl hA.2) d hB hca d' hd' hs

/-! ### elements of containers -/
def Obj.isCont : Obj → Bool
  | .tuple _ | .list _ | .set _ | .fset _ | .dict _ _ => true
  | _ => false

theorem memArgs_noncont {o : Obj} (h : o.isCont = false) (args : List Ty) :
    memArgs tbl o args = true := by
  cases o <;> simp_all [Obj.isCont, memArgs]

theorem contSuper_of {o : Obj} {d : Cls} (h : o.isCont = true)
    (hs : sub tbl (clsOf tbl o) d = true) : contSuper tbl d = true := by
  cases o <;> simp_all [Obj.isCont, clsOf, contSuper]

theorem memAll_mono {xs : List Obj} {b t : Ty}
    (h : ∀ x ∈ xs, mem tbl x b = true → mem tbl x t = true) (hm : memAll tbl xs b = true) :
    memAll tbl xs t = true := by
  induction xs with
  | nil => simp [memAll]
  | cons x xs ih =>
    simp only [memAll, Bool.and_eq_true] at hm ⊢
    exact ⟨h x (by simp) hm.1, ih (fun y hy => h y (by simp [hy])) hm.2⟩

theorem memAll_iff (xs : List Obj) (t : Ty) :
    memAll tbl xs t = true ↔ ∀ x ∈ xs, mem tbl x t = true := by
  induction xs <;> simp_all [memAll]

/-- transfer of membership for the elements of a well-formed object -/
def Transfer (tbl : ClassTable) (t b : Ty) : Prop :=
  ∀ x, x.wf tbl = true → x.hasFset = false → mem tbl x b = true → mem tbl x t = true

theorem memAll_transfer {xs : List Obj} {b t : Ty} (tr : Transfer tbl t b)
    (hw : Obj.wfL tbl xs = true) (hf : Obj.hasFsetL xs = false) (hm : memAll tbl xs b = true) :
    memAll tbl xs t = true :=
  memAll_mono (fun x hx => tr x ((Obj.wfL_iff _ _).mp hw x hx) ((Obj.hasFsetL_iff _).mp hf x hx)) hm

/-- one-parameter target, one-parameter source -/
theorem memArgs_11 {o : Obj} {t b : Ty} (tr : Transfer tbl t b) (ho : o.wf tbl = true)
    (hof : o.hasFset = false) (hm : memArgs tbl o [b] = true) : memArgs tbl o [t] = true := by
  cases o <;> simp only [memArgs] at hm ⊢ <;>
    simp only [Obj.wf, Obj.hasFset, Bool.and_eq_true, Bool.or_eq_false_iff, reduceCtorEq] at ho hof
  · exact memAll_transfer tr ho hof hm
  · exact memAll_transfer tr ho hof hm
  · exact memAll_transfer tr ho hof hm
  · exact memAll_transfer tr ho.1.1 hof.1 hm

theorem isIdFrom_len1 {g : List GArg} (h : isIdFrom 0 g = true) (hl : g.length = 1) :
    g = [.param 0] := by
  match g, hl with
  | [.param j], _ => simp [isIdFrom] at h; rw [← h]
  | [.fixed _], _ => simp [isIdFrom] at h

theorem isIdFrom_len2 {g : List GArg} (h : isIdFrom 0 g = true) (hl : g.length = 2) :
    g = [.param 0, .param 1] := by
  match g, hl with
  | [.param i, .param j], _ => simp [isIdFrom] at h; rw [← h.1, ← h.2]
  | [.param _, .fixed _], _ => simp [isIdFrom] at h
  | [.fixed _, _], _ => simp [isIdFrom] at h

theorem caMems_iff (t : Ty) (ns : List Ty) :
    caMems tbl false t ns = true ↔ ∀ n ∈ ns, ca tbl false t (stripMany n) = true := by
  induction ns with
  | nil => simp [caMems]
  | cons n ns ih => cases n <;> simp [caMems, stripMany, ih]

theorem matchSeq_nil (xs : List Obj) (h : matchSeq tbl xs [] = true) : xs = [] := by
  cases xs <;> simp_all [matchSeq]

theorem matchSeq_elems : ∀ (ns : List Ty) (xs : List Obj), matchSeq tbl xs ns = true →
    ∀ x ∈ xs, ∃ n ∈ ns, mem tbl x (stripMany n) = true := by
  intro ns
  induction ns with
  | nil => intro xs h; rw [matchSeq_nil xs h]; simp
  | cons n ns ih =>
    have nonmany : (∀ t, n ≠ .many t) → ∀ xs, matchSeq tbl xs (n :: ns) = true →
        ∀ x ∈ xs, ∃ n' ∈ n :: ns, mem tbl x (stripMany n') = true := by
      intro hn xs h x hx
      cases xs with
      | nil => simp at hx
      | cons y ys =>
        have h' : mem tbl y n = true ∧ matchSeq tbl ys ns = true := by
          cases n <;> first | exact absurd rfl (hn _) | simpa [matchSeq] using h
        have hs : stripMany n = n := by cases n <;> first | exact absurd rfl (hn _) | rfl
        rcases List.mem_cons.mp hx with rfl | hx
        · exact ⟨n, by simp, by rw [hs]; exact h'.1⟩
        · obtain ⟨n', hn', hm'⟩ := ih ys h'.2 x hx
          exact ⟨n', by simp [hn'], hm'⟩
    cases n with
    | many t =>
      intro xs
      induction xs with
      | nil => intro _ x hx; simp at hx
      | cons y ys ihx =>
        intro h x hx
        simp only [matchSeq, Bool.or_eq_true, Bool.and_eq_true] at h
        rcases h with h | h
        · obtain ⟨n', hn', hm'⟩ := ih (y :: ys) h x hx
          exact ⟨n', by simp [hn'], hm'⟩
        · rcases List.mem_cons.mp hx with rfl | hx
          · exact ⟨.many t, by simp, by simpa [stripMany] using h.1⟩
          · exact ihx h.2 x hx
    | _ => exact nonmany (by simp)

/-! ### `GenericValue` on the left -/
theorem ca_generic_split {c d : Cls} {args : List Ty} {B : Ty} {own : List TArg}
    (hca : ca tbl false (.generic c args) B =
      match theirArgs tbl c B with
      | some (_, theirs) =>
        if theirs.length == args.length then !args.isEmpty && caArgs tbl false args theirs
        else typedCA tbl false c B
      | none => typedCA tbl false c B)
    (hta : theirArgs tbl c B = (tbl.gbase d c).map fun g => (d, instArgs g own))
    (h : ca tbl false (.generic c args) B = true) :
    (∃ g, tbl.gbase d c = some g ∧ g.length = args.length ∧
        caArgs tbl false args (instArgs g own) = true) ∨
    ((∀ g, tbl.gbase d c = some g → g.length ≠ args.length) ∧ typedCA tbl false c B = true) := by
  rw [hca, hta] at h
  cases hg : tbl.gbase d c with
  | none => right; simp only [hg, Option.map_none] at h; exact ⟨by simp, h⟩
  | some g =>
    simp only [hg, Option.map_some, instArgs_length] at h
    by_cases hl : g.length = args.length
    · left
      simp only [hl, beq_self_eq_true, if_true, Bool.and_eq_true] at h
      exact ⟨g, rfl, hl, h.2⟩
    · right
      simp only [beq_iff_eq, hl, if_false] at h
      exact ⟨fun g' hg' => by cases hg'; exact hl, h⟩

theorem gen_wf_parts {c : Cls} {args : List Ty} (hA : (Ty.generic c args).wf tbl = true) :
    c < tbl.size ∧ tbl.arity c ≠ 0 ∧ args.length = tbl.arity c ∧ ∀ t ∈ args, t.wf tbl = true := by
  simp only [Ty.wf, Bool.and_eq_true, decide_eq_true_eq, beq_iff_eq, Ty.wfL_iff] at hA
  exact ⟨hA.1.1.1, by omega, hA.1.2, hA.2⟩

theorem genB_wf_parts {d : Cls} {bs : List Ty} (hB : (Ty.generic d bs).wfB tbl = true) :
    d < tbl.size ∧ tbl.arity d ≠ 0 ∧ bs.length = tbl.arity d ∧ ∀ t ∈ bs, t.wfB tbl = true := by
  simp only [Ty.wfB, Bool.and_eq_true, decide_eq_true_eq, beq_iff_eq, Ty.wfBL_iff] at hB
  exact ⟨hB.1.1.1, by omega, hB.1.2, hB.2⟩

/-- arity of a generic super-class of the class of a container object -/
theorem cont_arity (L : Laws tbl) (L4 : Laws4 tbl) {o : Obj} {d : Cls} (hc : o.isCont = true)
    (hd : d < tbl.size) (har : tbl.arity d ≠ 0) (hs : sub tbl (clsOf tbl o) d = true) :
    tbl.arity d = 1 ∨ (tbl.arity d = 2 ∧ ∃ ks vs, o = .dict ks vs) := by
  cases o <;> simp only [Obj.isCont, Bool.false_eq_true] at hc
  · exact .inl (gOkSeq_sub (L.gTuple d hd) har hs).1
  · exact .inl (gOkSeq_sub (L.gList d hd) har hs).1
  · exact .inl (gOkSeq_sub (L.gSet d hd) har hs).1
  · exact .inl (gOkSeq_sub (L4.gFset d hd) har hs).1
  · rcases gOkDict_sub (L.gDict d hd) har hs with h | h
    · exact .inr ⟨h.1, _, _, rfl⟩
    · exact .inl h.1

theorem Ty.wfBM_strip (tbl : ClassTable) (ns : List Ty) (h : Ty.wfBM tbl ns = true) :
    ∀ n ∈ ns, (stripMany n).wfB tbl = true := by
  induction ns with
  | nil => simp
  | cons m ms ih =>
    cases m <;> simp_all [Ty.wfBM, stripMany]

theorem sub_strip {n : Ty} : Ty.Sub (stripMany n) n := by
  cases n <;> first | exact .many (.refl _) | exact .refl _

/-- the own generic arguments a right-hand side offers -/
def ownOf : Ty → List TArg
  | .generic _ bs => bs.map .ty
  | .seq _ ns => [.mems ns]
  | _ => []

/-- the own generic arguments a literal offers -/
def ownK : Obj → List TArg
  | .tuple xs => [.mems (xs.map .known)]
  | .list xs => [.mems (xs.map .known)]
  | .set xs => [.mems (xs.map .known)]
  | .dict ks vs => [.mems (ks.map .known), .mems (vs.map .known)]
  | _ => []

theorem theirArgs_known (c : Cls) (k : Obj) :
    theirArgs tbl c (.known k) =
      (tbl.gbase (clsOf tbl k) c).map fun g => (clsOf tbl k, instArgs g (ownK k)) := by
  cases k <;> rfl

theorem caArg_mems_sound {t : Ty} {xs : List Obj}
    (h : caArg tbl false t (.mems (xs.map .known)) = true)
    (tr : ∀ x ∈ xs, ca tbl false t (.known x) = true → mem tbl x t = true) :
    memAll tbl xs t = true := by
  rw [memAll_iff]
  intro x hx
  cases xs with
  | nil => simp at hx
  | cons y ys =>
    simp only [List.map_cons, caArg] at h
    have := (caMems_iff t _).mp h (.known x) (by
      rw [← List.map_cons]; exact List.mem_map_of_mem hx)
    exact tr x hx (by simpa [stripMany] using this)

theorem sound_generic (L : Laws tbl) (L4 : Laws4 tbl) {c : Cls} {args : List Ty}
    (ih : ∀ t ∈ args, Sound tbl t) : Sound tbl (.generic c args) := by
  intro B hA hB H
  refine sound_reduce (fun B hat hB H => ?_) B hB H
  obtain ⟨hc, har, hlen, hwa⟩ := gen_wf_parts hA
  rcases atomic_cases hat hB with ⟨k', rfl⟩ | ⟨d, hd⟩ | ⟨d, rfl⟩
  · -- a literal: the object is the literal itself
    intro hca o ho hof hm
    have := known_eq H hof hm
    subst this
    have hklt := clsOf_lt L ho
    have hp : ∀ d, o = .cls d → tbl.isProtocol c = false := fun d hd => by
      have := H.noProto hd
      simp only [Ty.hasProto, Bool.or_eq_false_iff] at this
      exact this.1
    have hsplit := ca_generic_split (by simp only [ca]; rfl) (theirArgs_known c o) hca
    have hsubc : sub tbl (clsOf tbl o) c = true := by
      rcases hsplit with ⟨g, hg, hgl, -⟩ | ⟨-, htc⟩
      · exact (L4.gMatch c hc _ hklt har g hg (hgl.trans hlen)).1
      · rwa [typedCA_known L hc ho hp] at htc
    simp only [mem, Bool.and_eq_true]
    refine ⟨hsubc, ?_⟩
    have trk : ∀ t ∈ args, ∀ x ∈ o.kids, ca tbl false t (.known x) = true → mem tbl x t = true :=
      fun t ht x hx hcx => ih t ht (.known x) (hwa t ht) (by simpa [Ty.wfB] using Obj.wf_kid ho hx)
        (H.kid (.generic ht (.refl _)) hx) hcx x (Obj.wf_kid ho hx) (Obj.hasFset_kid hof hx)
        (by simp [mem, Obj.same_refl])
    have seqlike : ∀ (K : Cls) (xs : List Obj), gOkSeq tbl K c = true → sub tbl K c = true →
        o.kids = xs → theirArgs tbl c (.known o) =
          ((tbl.gbase K c).map fun g => (K, instArgs g [.mems (xs.map .known)])) →
        ∃ t, args = [t] ∧ memAll tbl xs t = true := by
      intro K xs hgo hs hkids hta
      obtain ⟨h1, hgb⟩ := gOkSeq_sub hgo har hs
      obtain ⟨t, rfl⟩ : ∃ t, args = [t] := List.length_eq_one_iff.mp (hlen.trans h1)
      refine ⟨t, rfl, ?_⟩
      simp only [ca, hta, hgb] at hca
      simp only [Option.map_some, instArgs, List.map_cons, List.map_nil, List.getD_cons_zero,
        List.length_cons, List.length_nil, beq_self_eq_true, if_true, List.isEmpty_cons,
        Bool.not_false, Bool.true_and, caArgs, Bool.and_true] at hca
      exact caArg_mems_sound hca fun x hx => trk t (by simp) x (by simpa [hkids] using hx)
    cases o with
    | tuple xs =>
      obtain ⟨t, rfl, h⟩ := seqlike C.tuple xs (L.gTuple c hc) hsubc rfl (by simp [theirArgs])
      simpa [memArgs] using h
    | list xs =>
      obtain ⟨t, rfl, h⟩ := seqlike C.list xs (L.gList c hc) hsubc rfl (by simp [theirArgs])
      simpa [memArgs] using h
    | set xs =>
      obtain ⟨t, rfl, h⟩ := seqlike C.set xs (L.gSet c hc) hsubc rfl (by simp [theirArgs])
      simpa [memArgs] using h
    | fset xs => simp [Obj.hasFset] at hof
    | dict ks vs =>
      have hta : theirArgs tbl c (.known (.dict ks vs)) = (tbl.gbase C.dict c).map fun g =>
          (C.dict, instArgs g [.mems (ks.map .known), .mems (vs.map .known)]) := by simp [theirArgs]
      rcases gOkDict_sub (L.gDict c hc) har hsubc with ⟨h1, hgb⟩ | ⟨h1, hgb⟩
      · obtain ⟨t1, t2, rfl⟩ : ∃ t1 t2, args = [t1, t2] := by
          match args, hlen.trans h1 with
          | [t1, t2], _ => exact ⟨t1, t2, rfl⟩
        simp only [ca, hta, hgb] at hca
        simp only [Option.map_some, instArgs, List.map_cons, List.map_nil, List.getD_cons_zero,
          List.getD_cons_succ, List.length_cons, List.length_nil, beq_self_eq_true, if_true,
          List.isEmpty_cons, Bool.not_false, Bool.true_and, caArgs, Bool.and_true,
          Bool.and_eq_true] at hca
        simp only [memArgs, Bool.and_eq_true]
        exact ⟨caArg_mems_sound hca.1 fun x hx => trk t1 (by simp) x (by simp [Obj.kids, hx]),
          caArg_mems_sound hca.2 fun x hx => trk t2 (by simp) x (by simp [Obj.kids, hx])⟩
      · obtain ⟨t, rfl⟩ : ∃ t, args = [t] := List.length_eq_one_iff.mp (hlen.trans h1)
        simp only [ca, hta, hgb] at hca
        simp only [Option.map_some, instArgs, List.map_cons, List.map_nil, List.getD_cons_zero,
          List.length_cons, List.length_nil, beq_self_eq_true, if_true, List.isEmpty_cons,
          Bool.not_false, Bool.true_and, caArgs, Bool.and_true] at hca
        simp only [memArgs]
        exact caArg_mems_sound hca fun x hx => trk t (by simp) x (by simp [Obj.kids, hx])
    | _ => simp [memArgs]
  · intro hca o ho hof hm
    have hdlt := head_lt L hd hB
    have hsub := mem_head L hd hB hm
    have hklt := clsOf_lt L ho
    have tr : ∀ t ∈ args, ∀ b, Ty.Sub b B → b.wfB tbl = true → ca tbl false t b = true →
        Transfer tbl t b := fun t ht b hb hwb hcab x hx hxf hmx =>
      ih t ht b (hwa t ht) hwb (H.sub (.generic ht (.refl _)) hb) hcab x hx hxf hmx
    obtain ⟨hta, hcaeq⟩ :
        theirArgs tbl c B = ((tbl.gbase d c).map fun g => (d, instArgs g (ownOf B))) ∧
        ca tbl false (.generic c args) B =
          match theirArgs tbl c B with
          | some (_, theirs) =>
            if theirs.length == args.length then !args.isEmpty && caArgs tbl false args theirs
            else typedCA tbl false c B
          | none => typedCA tbl false c B := by
      cases B <;> simp only [headCls, Option.some.injEq, reduceCtorEq] at hd <;> subst hd <;>
        exact ⟨rfl, by simp only [ca]; rfl⟩
    have hsplit := ca_generic_split hcaeq hta hca
    have hsubc : sub tbl (clsOf tbl o) c = true := by
      rcases hsplit with ⟨g, hg, hgl, -⟩ | ⟨-, htc⟩
      · exact L4.trans c hc (.inr har) d hdlt (L4.gMatch c hc d hdlt har g hg (hgl.trans hlen)).1
          _ hklt hsub
      · rw [typedCA_head hd] at htc
        exact nom_step H rfl hd htc hklt hsub
    simp only [mem, Bool.and_eq_true]
    refine ⟨hsubc, ?_⟩
    cases hcont : o.isCont with
    | false => exact memArgs_noncont hcont args
    | true =>
    have hcs := contSuper_of hcont hsub
    obtain ⟨g, hg, hgl, hargs⟩ : ∃ g, tbl.gbase d c = some g ∧ g.length = args.length ∧
        caArgs tbl false args (instArgs g (ownOf B)) = true := by
      rcases hsplit with h | ⟨hno, htc⟩
      · exact h
      · rw [typedCA_head hd, L4.gFall c hc d hdlt har hcs (by rwa [hlen] at hno)] at htc
        cases htc
    obtain ⟨hid, hle⟩ := (L4.gMatch c hc d hdlt har g hg (hgl.trans hlen)).2 hcs
    have hbare := H.bare B (.refl _)
    cases B <;> simp only [headCls, Option.some.injEq, reduceCtorEq] at hd <;> subst hd
    · -- typed d: not a bare generic, so arity d = 0 < arity c
      simp only [isBare, Bool.or_eq_false_iff, decide_eq_false_iff_not] at hbare
      omega
    · simp only [isBare, decide_eq_false_iff_not] at hbare
      omega
    · -- generic d bs
      rename_i bs
      obtain ⟨-, hard, hlenb, hwb⟩ := genB_wf_parts hB
      simp only [mem, Bool.and_eq_true] at hm
      have hmb := hm.2
      rcases cont_arity L L4 hcont hdlt hard hsub with h1 | ⟨h2, ks, vs, rfl⟩
      · -- arity d = 1, hence arity c = 1
        obtain ⟨b, rfl⟩ : ∃ b, bs = [b] := List.length_eq_one_iff.mp (hlenb.trans h1)
        obtain ⟨t, rfl⟩ : ∃ t, args = [t] := List.length_eq_one_iff.mp (by omega)
        rw [isIdFrom_len1 hid (by simpa using hgl)] at hargs
        simp only [ownOf, instArgs, List.map_cons, List.map_nil, List.getD_cons_zero, caArgs, caArg,
          Bool.and_true] at hargs
        exact memArgs_11 (tr t (by simp) b (.generic (by simp) (.refl _)) (hwb b (by simp)) hargs)
          ho hof hmb
      · -- a dict against a two-parameter class
        obtain ⟨b1, b2, rfl⟩ : ∃ b1 b2, bs = [b1, b2] := by
          match bs, hlenb.trans h2 with
          | [b1, b2], _ => exact ⟨b1, b2, rfl⟩
        simp only [Obj.wf, Bool.and_eq_true] at ho
        simp only [Obj.hasFset, Bool.or_eq_false_iff] at hof
        simp only [memArgs, Bool.and_eq_true] at hmb
        have hc12 : tbl.arity c = 1 ∨ tbl.arity c = 2 := by omega
        rcases hc12 with h1 | h2c
        · obtain ⟨t, rfl⟩ : ∃ t, args = [t] := List.length_eq_one_iff.mp (hlen.trans h1)
          rw [isIdFrom_len1 hid (by simpa using hgl)] at hargs
          simp only [ownOf, instArgs, List.map_cons, List.map_nil, List.getD_cons_zero, caArgs, caArg,
            Bool.and_true] at hargs
          simp only [memArgs]
          exact memAll_transfer
            (tr t (by simp) b1 (.generic (by simp) (.refl _)) (hwb b1 (by simp)) hargs)
            ho.1.1 hof.1 hmb.1
        · obtain ⟨t1, t2, rfl⟩ : ∃ t1 t2, args = [t1, t2] := by
            match args, hlen.trans h2c with
            | [t1, t2], _ => exact ⟨t1, t2, rfl⟩
          rw [isIdFrom_len2 hid (by simpa using hgl)] at hargs
          simp only [ownOf, instArgs, List.map_cons, List.map_nil, List.getD_cons_zero,
            List.getD_cons_succ, caArgs, caArg, Bool.and_true, Bool.and_eq_true] at hargs
          simp only [memArgs, Bool.and_eq_true]
          exact ⟨memAll_transfer
              (tr t1 (by simp) b1 (.generic (by simp) (.refl _)) (hwb b1 (by simp)) hargs.1)
              ho.1.1 hof.1 hmb.1,
            memAll_transfer
              (tr t2 (by simp) b2 (.generic (by simp) (.refl _)) (hwb b2 (by simp)) hargs.2)
              ho.1.2 hof.2 hmb.2⟩
    · -- seq d ns: the object is a tuple/list literal, d has one parameter
      rename_i d' ns
      simp only [Ty.wfB, Bool.and_eq_true, Bool.or_eq_true, beq_iff_eq] at hB
      have hard : tbl.arity d' = 1 := by
        rcases hB.1 with h | h
        · rw [h]; exact L.arTuple
        · rw [h]; exact L.arList
      obtain ⟨t, rfl⟩ : ∃ t, args = [t] := List.length_eq_one_iff.mp (by omega)
      rw [isIdFrom_len1 hid (by simpa using hgl)] at hargs
      simp only [ownOf, instArgs, List.map_cons, List.map_nil, List.getD_cons_zero, caArgs,
        Bool.and_true] at hargs
      have hstrip := Ty.wfBM_strip tbl ns hB.2
      simp only [mem, Bool.and_eq_true] at hm
      have key : ∀ xs, Obj.wfL tbl xs = true → Obj.hasFsetL xs = false →
          matchSeq tbl xs ns = true → memAll tbl xs t = true := by
        intro xs hxw hxf hms
        rw [memAll_iff]
        intro x hx
        obtain ⟨n, hn, hmn⟩ := matchSeq_elems ns xs hms x hx
        have hcn : ca tbl false t (stripMany n) = true := by
          cases ns with
          | nil => simp at hn
          | cons n0 ns0 =>
            simp only [caArg] at hargs
            exact (caMems_iff t _).mp hargs n hn
        exact tr t (by simp) (stripMany n) (sub_strip.trans (.seq hn (.refl _))) (hstrip n hn) hcn x
          ((Obj.wfL_iff _ _).mp hxw x hx) ((Obj.hasFsetL_iff _).mp hxf x hx) hmn
      cases o <;> simp only [memSeq, Bool.false_eq_true, and_false] at hm
      · simp only [memArgs]
        exact key _ (by simpa [Obj.wf] using ho) (by simpa [Obj.hasFset] using hof) hm.2
      · simp only [memArgs]
        exact key _ (by simpa [Obj.wf] using ho) (by simpa [Obj.hasFset] using hof) hm.2
  · intro hca o ho hof hm
    obtain ⟨d', rfl, hd', hs⟩ := mem_subclass ho hm
    have hn : tbl.nominal false c (tbl.metaOf d) = true := by
      simpa [ca, theirArgs, typedCA, typOf] using hca
    simp only [mem, clsOf, memArgs, Bool.and_true]
    exact meta_step H rfl hn hd' hs

/-! ### `SequenceValue` on the left -/
theorem isMany_true {m : Ty} (h : isMany m = true) : ∃ m', m = .many m' := by
  cases m <;> simp_all [isMany]

theorem stripMany_nonmany {m : Ty} (h : isMany m = false) : stripMany m = m := by
  cases m <;> simp_all [isMany, stripMany]

theorem caZip_cons_nonmany {m n : Ty} {ms ns : List Ty} (hm : isMany m = false)
    (hn : isMany n = false) :
    caZip tbl false (m :: ms) (n :: ns) = (ca tbl false m n && caZip tbl false ms ns) := by
  cases m <;> cases n <;> simp_all [caZip, isMany]

theorem caZip_nonmany_many {m n : Ty} {ms ns : List Ty} (hm : isMany m = false) :
    caZip tbl false (m :: ms) (.many n :: ns) = false := by
  cases m <;> simp_all [caZip, isMany]

theorem caZip_many_nonmany {m n : Ty} {ms ns : List Ty} (hn : isMany n = false) :
    caZip tbl false (.many m :: ms) (n :: ns) = false := by
  cases n <;> simp_all [caZip, isMany]

theorem caZipK_cons_nonmany {m : Ty} {ms : List Ty} {x : Obj} {xs : List Obj}
    (hm : isMany m = false) :
    caZipK tbl false (m :: ms) (x :: xs) = (ca tbl false m (.known x) && caZipK tbl false ms xs) := by
  cases m <;> simp_all [caZipK, isMany]

theorem matchSeq_cons_nonmany {n : Ty} {ns : List Ty} (hn : isMany n = false) (xs : List Obj) :
    matchSeq tbl xs (n :: ns) =
      match xs with
      | [] => false
      | x :: xs' => mem tbl x n && matchSeq tbl xs' ns := by
  cases n <;> cases xs <;> simp_all [matchSeq, isMany]

/-- member-wise acceptance transfers the pattern match (unpacked members aligned with unpacked
members, as `SequenceValue.can_assign` demands) -/
theorem zip_sound : ∀ (ms ns : List Ty) (xs : List Obj),
    ms.length = ns.length → caZip tbl false ms ns = true →
    (∀ m ∈ ms, ∀ n ∈ ns, isMany m = isMany n →
      ca tbl false (stripMany m) (stripMany n) = true → Transfer tbl (stripMany m) (stripMany n)) →
    Obj.wfL tbl xs = true → Obj.hasFsetL xs = false →
    matchSeq tbl xs ns = true → matchSeq tbl xs ms = true
  | [], [], xs, _, _, _, _, _, h => h
  | [], _ :: _, _, hl, _, _, _, _, _ => by simp at hl
  | _ :: _, [], _, hl, _, _, _, _, _ => by simp at hl
  | m :: ms, n :: ns, xs, hl, hz, tr, hw, hf, h => by
    have hl' : ms.length = ns.length := by simpa using hl
    have tr' : ∀ m' ∈ ms, ∀ n' ∈ ns, isMany m' = isMany n' →
        ca tbl false (stripMany m') (stripMany n') = true →
        Transfer tbl (stripMany m') (stripMany n') :=
      fun m' hm' n' hn' => tr m' (by simp [hm']) n' (by simp [hn'])
    cases hmm : isMany m with
    | true =>
      obtain ⟨m', rfl⟩ := isMany_true hmm
      cases hnn : isMany n with
      | false => rw [caZip_many_nonmany hnn] at hz; cases hz
      | true =>
        obtain ⟨n', rfl⟩ := isMany_true hnn
        simp only [caZip, Bool.and_eq_true] at hz
        have trh := tr (.many m') (by simp) (.many n') (by simp) rfl hz.1
        simp only [stripMany] at trh
        clear tr hl
        induction xs with
        | nil =>
          simp only [matchSeq, Bool.or_false] at h ⊢
          exact zip_sound ms ns [] hl' hz.2 tr' hw hf h
        | cons x xs ihx =>
          simp only [Obj.wfL, Bool.and_eq_true] at hw
          simp only [Obj.hasFsetL, Bool.or_eq_false_iff] at hf
          simp only [matchSeq, Bool.or_eq_true, Bool.and_eq_true] at h ⊢
          rcases h with h | h
          · exact .inl (zip_sound ms ns (x :: xs) hl' hz.2 tr'
              (by simp [Obj.wfL, hw]) (by simp [Obj.hasFsetL, hf]) h)
          · exact .inr ⟨trh x hw.1 hf.1 h.1, ihx hw.2 hf.2 h.2⟩
    | false =>
      cases hnn : isMany n with
      | true =>
        obtain ⟨n', rfl⟩ := isMany_true hnn
        rw [caZip_nonmany_many hmm] at hz; cases hz
      | false =>
        rw [caZip_cons_nonmany hmm hnn, Bool.and_eq_true] at hz
        rw [matchSeq_cons_nonmany hnn] at h
        rw [matchSeq_cons_nonmany hmm]
        have trh := tr m (by simp) n (by simp) (by rw [hmm, hnn])
        rw [stripMany_nonmany hmm, stripMany_nonmany hnn] at trh
        cases xs with
        | nil => cases h
        | cons x xs =>
          simp only [Bool.and_eq_true] at h ⊢
          simp only [Obj.wfL, Bool.and_eq_true] at hw
          simp only [Obj.hasFsetL, Bool.or_eq_false_iff] at hf
          exact ⟨trh hz.1 x hw.1 hf.1 h.1, zip_sound ms ns xs hl' hz.2 tr' hw.2 hf.2 h.2⟩

/-- … and for a literal: no unpacked member is accepted -/
theorem zipK_sound : ∀ (ms : List Ty) (xs : List Obj), ms.length = xs.length →
    caZipK tbl false ms xs = true →
    (∀ m ∈ ms, ∀ x ∈ xs, isMany m = false → ca tbl false m (.known x) = true → mem tbl x m = true) →
    matchSeq tbl xs ms = true
  | [], [], _, _, _ => by simp [matchSeq]
  | [], _ :: _, hl, _, _ => by simp at hl
  | _ :: _, [], hl, _, _ => by simp at hl
  | m :: ms, x :: xs, hl, hz, tr => by
    cases hmm : isMany m with
    | true =>
      obtain ⟨m', rfl⟩ := isMany_true hmm
      simp [caZipK] at hz
    | false =>
      rw [caZipK_cons_nonmany hmm, Bool.and_eq_true] at hz
      rw [matchSeq_cons_nonmany hmm]
      simp only [Bool.and_eq_true]
      exact ⟨tr m (by simp) x (by simp) hmm hz.1,
        zipK_sound ms xs (by simpa using hl) hz.2
          fun m' hm' x' hx' => tr m' (by simp [hm']) x' (by simp [hx'])⟩

theorem Ty.wfBM_nonmany (tbl : ClassTable) (ns : List Ty) (h : Ty.wfBM tbl ns = true) :
    ∀ n ∈ ns, isMany n = false → n.wfB tbl = true := by
  induction ns with
  | nil => simp
  | cons m ms ih =>
    cases m <;> simp_all [Ty.wfBM, isMany]

theorem Ty.wfM_strip (tbl : ClassTable) (ms : List Ty) (h : Ty.wfM tbl ms = true) :
    ∀ m ∈ ms, (stripMany m).wf tbl = true := by
  induction ms with
  | nil => simp
  | cons m ms ih =>
    cases m <;> simp_all [Ty.wfM, stripMany]

/-- the statement carried through the induction: soundness of the term, and of the content of an
unpacked member -/
def Sound' (tbl : ClassTable) (t : Ty) : Prop :=
  Sound tbl t ∧ ∀ m, t = .many m → Sound tbl m

theorem Sound'.strip {t : Ty} (h : Sound' tbl t) : Sound tbl (stripMany t) := by
  cases t <;> first | exact h.2 _ rfl | exact h.1

/-- what a sequence form accepts outside the tuple/list/set literals and other sequence forms is
below its class -/
theorem seq_fallback_sub (L4 : Laws4 tbl) {c d : Cls} {ms : List Ty} {B : Ty}
    {own : List TArg} (hc : c < tbl.size) (hd : d < tbl.size) (har : tbl.arity c = 1)
    (hta : theirArgs tbl c B = ((tbl.gbase d c).map fun g => (d, instArgs g own)))
    (hcaeq : ca tbl false (.seq c ms) B =
      match theirArgs tbl c B with
      | some (_, [their]) => caAnyM tbl false ms their
      | _ => typedCA tbl false c B)
    (hty : typedCA tbl false c B = true → sub tbl d c = true)
    (hca : ca tbl false (.seq c ms) B = true) : sub tbl d c = true := by
  rw [hcaeq] at hca
  split at hca
  · rename_i k their heq
    rw [hta] at heq
    cases hg : tbl.gbase d c with
    | none => simp [hg] at heq
    | some g =>
      simp only [hg, Option.map_some, Option.some.injEq, Prod.mk.injEq] at heq
      have hl : g.length = 1 := by
        have := congrArg List.length heq.2
        simpa [instArgs_length] using this
      exact (L4.gMatch c hc d hd (by omega) g hg (by omega)).1
  · exact hty hca

theorem sound_seq (L : Laws tbl) (L4 : Laws4 tbl) {c : Cls} {ms : List Ty}
    (ih : ∀ t ∈ ms, Sound' tbl t) : Sound tbl (.seq c ms) := by
  intro B hA hB H
  refine sound_reduce (fun B hat hB H => ?_) B hB H
  have hb := L.big
  have hA' := hA
  simp only [Ty.wf, Bool.and_eq_true, Bool.or_eq_true, beq_iff_eq] at hA'
  have hwm := Ty.wfM_strip tbl ms hA'.2
  obtain ⟨hc, hnp, har, hcd⟩ : c < tbl.size ∧ tbl.isProtocol c = false ∧ tbl.arity c = 1 ∧
      ∀ d, d < tbl.size → sub tbl d c = true → d = c := by
    rcases hA'.1 with rfl | rfl
    · exact ⟨Nat.lt_of_lt_of_le (by decide) hb, L.npTuple, L.arTuple, L4.subTuple⟩
    · exact ⟨Nat.lt_of_lt_of_le (by decide) hb, L.npList, L.arList, L4.subList⟩
  have hcont : isContainerCls c = true := by rcases hA'.1 with rfl | rfl <;> decide
  rcases atomic_cases hat hB with ⟨k', rfl⟩ | ⟨d, hd⟩ | ⟨d, rfl⟩
  · -- a literal: the object is the literal itself
    intro hca o ho hof hm
    have := known_eq H hof hm
    subst this
    have hklt := clsOf_lt L ho
    have trk : ∀ m ∈ ms, ∀ x ∈ o.kids, isMany m = false → ca tbl false m (.known x) = true →
        mem tbl x m = true := fun m hm x hx hmm hcx => by
      have hs := (ih m hm).strip
      have hw := hwm m hm
      rw [stripMany_nonmany hmm] at hs hw
      exact hs (.known x) hw (by simpa [Ty.wfB] using Obj.wf_kid ho hx)
        (H.kid (.seq hm (.refl _)) hx) hcx x (Obj.wf_kid ho hx) (Obj.hasFset_kid hof hx)
        (by simp [mem, Obj.same_refl])
    -- literals without sequence structure for the checker: would have to be of class `c`
    have other : (ca tbl false (.seq c ms) (.known o) =
          match theirArgs tbl c (.known o) with
          | some (_, [their]) => caAnyM tbl false ms their
          | _ => typedCA tbl false c (.known o)) → clsOf tbl o = c := fun hcaeq =>
      hcd _ hklt (seq_fallback_sub L4 hc hklt har (theirArgs_known c o) hcaeq
        (fun h => by rwa [typedCA_known L hc ho (fun _ _ => hnp)] at h) hca)
    have seqlit : ∀ (K : Cls) (xs : List Obj), K < tbl.size → o.kids = xs →
        (tbl.nominal false c K && ms.length == xs.length && caZipK tbl false ms xs) = true →
        K = c ∧ matchSeq tbl xs ms = true := by
      intro K xs hK hkids h
      simp only [Bool.and_eq_true, beq_iff_eq] at h
      obtain ⟨⟨hn, hl⟩, hz⟩ := h
      rw [L.lawS c hc K hK hnp] at hn
      exact ⟨hcd K hK hn, zipK_sound ms xs hl hz fun m hm x hx => trk m hm x (by simpa [hkids] using hx)⟩
    cases o with
    | tuple xs =>
      obtain ⟨h1, h2⟩ := seqlit C.tuple xs (Nat.lt_of_lt_of_le (by decide) hb) rfl (by simpa [ca] using hca)
      subst h1
      simp only [mem, memSeq, clsOf, h2, Bool.and_true]
      exact sub_refl L hc
    | list xs =>
      obtain ⟨h1, h2⟩ := seqlit C.list xs (Nat.lt_of_lt_of_le (by decide) hb) rfl (by simpa [ca] using hca)
      subst h1
      simp only [mem, memSeq, clsOf, h2, Bool.and_true]
      exact sub_refl L hc
    | set xs =>
      obtain ⟨h1, -⟩ := seqlit C.set xs (Nat.lt_of_lt_of_le (by decide) hb) rfl (by simpa [ca] using hca)
      subst h1
      rcases hA'.1 with h | h <;> cases h
    | fset xs => simp [Obj.hasFset] at hof
    | dict ks vs =>
      have := other (by simp only [ca]; rfl)
      subst this
      rcases hA'.1 with h | h <;> cases h
    | inst c' i =>
      have := other (by simp only [ca]; rfl)
      simp only [clsOf] at this
      subst this
      simp only [Obj.wf, Bool.and_eq_true, decide_eq_true_eq] at ho
      have := L.userNC _ ho.1 ho.2
      rw [hcont] at this; cases this
    | cls d =>
      have := other (by simp only [ca]; rfl)
      simp only [clsOf] at this
      simp only [Obj.wf, decide_eq_true_eq] at ho
      have h2 := L.metaNC _ ho
      rw [this, hcont] at h2; cases h2
    | int _ | bool _ | str _ | bytes _ | none | flt _ | cplx _ =>
      have := other (by simp only [ca]; rfl)
      simp only [clsOf] at this
      subst this
      rcases hA'.1 with h | h <;> cases h
  · have hdlt := head_lt L hd hB
    -- a bare class, a NewType or a generic on the right would have to be `c` itself
    have hbare : ∀ (own : List TArg), theirArgs tbl c B =
          ((tbl.gbase d c).map fun g => (d, instArgs g own)) →
        (ca tbl false (.seq c ms) B =
          match theirArgs tbl c B with
          | some (_, [their]) => caAnyM tbl false ms their
          | _ => typedCA tbl false c B) →
        ca tbl false (.seq c ms) B = true → d = c := fun own hta hcaeq hca =>
      hcd d hdlt (seq_fallback_sub L4 hc hdlt har hta hcaeq
        (fun h => by rwa [typedCA_head hd, L.lawS c hc d hdlt hnp] at h) hca)
    intro hca o ho hof hm
    cases B <;> simp only [headCls, Option.some.injEq, reduceCtorEq] at hd <;> subst hd
    · -- typed d
      have := hbare [] rfl (by simp only [ca]; rfl) hca
      subst this
      have := H.bare _ (.refl _)
      simp only [isBare, Bool.or_eq_false_iff, decide_eq_false_iff_not] at this
      omega
    · have := hbare [] rfl (by simp only [ca]; rfl) hca
      subst this
      have := H.bare _ (.refl _)
      simp only [isBare, decide_eq_false_iff_not] at this
      omega
    · -- generic: leniency L2
      rcases H.l2 with h | h
      · have := h _ (.refl _); simp [isSeqNode] at this
      · have := h _ (.refl _); simp [isGenericNode] at this
    · -- seq d ns
      rename_i d ns
      simp only [ca, Bool.and_eq_true, beq_iff_eq] at hca
      obtain ⟨⟨hn, hl⟩, hz⟩ := hca
      rw [L.lawS c hc d hdlt hnp] at hn
      have := hcd d hdlt hn
      subst this
      simp only [Ty.wfB, Bool.and_eq_true] at hB
      have hstrip := Ty.wfBM_strip tbl ns hB.2
      simp only [mem, Bool.and_eq_true] at hm ⊢
      refine ⟨hm.1, ?_⟩
      have key : ∀ xs, Obj.wfL tbl xs = true → Obj.hasFsetL xs = false →
          matchSeq tbl xs ns = true → matchSeq tbl xs ms = true := fun xs hxw hxf hms =>
        zip_sound ms ns xs hl hz
          (fun m hm n hn _ hcmn x hx hxf' hmx =>
            (ih m hm).strip (stripMany n) (hwm m hm) (hstrip n hn)
              (H.sub (sub_strip.trans (.seq hm (.refl _))) (sub_strip.trans (.seq hn (.refl _))))
              hcmn x hx hxf' hmx)
          hxw hxf hms
      cases o <;> simp only [memSeq, Bool.false_eq_true, and_false] at hm <;> simp only [memSeq]
      · exact key _ (by simpa [Obj.wf] using ho) (by simpa [Obj.hasFset] using hof) hm.2
      · exact key _ (by simpa [Obj.wf] using ho) (by simpa [Obj.hasFset] using hof) hm.2
  · intro hca
    simp only [Ty.wfB, decide_eq_true_eq] at hB
    have hn : tbl.nominal false c (tbl.metaOf d) = true := by
      simpa [ca, theirArgs, typedCA, typOf] using hca
    rw [L.lawS c hc _ (L.metaLt d hB) hnp] at hn
    have := hcd _ (L.metaLt d hB) hn
    have h2 := L.metaNC d hB
    rw [this, hcont] at h2
    cases h2

/-! ### the induction -/
theorem sound_all' (L : Laws tbl) (L4 : Laws4 tbl) : ∀ A, Sound' tbl A := by
  intro A
  induction A using Ty.ind' with
  | any => exact ⟨fun B hA => by simp [Ty.wf] at hA, fun m h => by cases h⟩
  | many t ih => exact ⟨fun B hA => by simp [Ty.wf] at hA, fun m h => by cases h; exact ih.1⟩
  | tvar i => exact ⟨fun B hA => by simp [Ty.wf] at hA, fun m h => by cases h⟩
  | newtype n c =>
    exact ⟨fun B _ _ H => by have := H.nn; simp [Ty.hasNewtype] at this, fun m h => by cases h⟩
  | known k => exact ⟨sound_lit k, fun m h => by cases h⟩
  | typed c => exact ⟨sound_typed L c, fun m h => by cases h⟩
  | subclass c => exact ⟨sound_subclass L L4 c, fun m h => by cases h⟩
  | generic c args ih => exact ⟨sound_generic L L4 fun t ht => (ih t ht).1, fun m h => by cases h⟩
  | seq c ms ih => exact ⟨sound_seq L L4 ih, fun m h => by cases h⟩
  | union ts ih => exact ⟨sound_union fun t ht => (ih t ht).1, fun m h => by cases h⟩
  | annotated t ih => exact ⟨sound_annotated ih.1, fun m h => by cases h⟩

theorem sound_all (L : Laws tbl) (L4 : Laws4 tbl) (A : Ty) : Sound tbl A := (sound_all' L L4 A).1

/-! ### from the decidable side conditions to the bundle -/
theorem SH_of_bool {A B : Ty} (hs : strict04 tbl A B = true) (hd : d04Sound tbl A B = false) :
    SH tbl A B := by
  simp only [strict04, Bool.and_eq_true, Bool.not_eq_true', Bool.and_eq_false_iff] at hs
  simp only [d04Sound, Bool.or_eq_false_iff, protoLeak, metaLeak, metaTyped,
    Bool.and_eq_false_iff] at hd
  obtain ⟨⟨hbare, hfset⟩, hl2⟩ := hs
  obtain ⟨⟨⟨⟨⟨hnom, hmet⟩, hnn⟩, hmt⟩, hconf⟩, hcls⟩ := hd
  rw [Ty.anyT_false_iff] at hbare hfset hconf hnom hmet
  refine ⟨hnn, hbare, ?_, ?_, ?_, ?_, ?_⟩
  · intro k hk
    exact ⟨hfset _ hk, hconf _ hk, hcls.imp (fun h => (Ty.anyT_false_iff _ _).mp h _ hk) id⟩
  · exact hl2.imp (Ty.anyT_false_iff _ _).mp (Ty.anyT_false_iff _ _).mp
  · exact hmt.imp (Ty.anyT_false_iff _ _).mp (Ty.anyT_false_iff _ _).mp
  · exact fun a b ha hb => (Ty.anyT_false_iff _ _).mp (hnom a ha) b hb
  · exact fun a b ha hb => (Ty.anyT_false_iff _ _).mp (hmet a ha) b hb

/-! ### `Ty.wf` implies `Ty.wfB` -/
theorem wfB_of_wf : ∀ t : Ty, (t.wf tbl = true → t.wfB tbl = true) ∧
    (∀ m, t = .many m → m.wf tbl = true → m.wfB tbl = true) := by
  intro t
  induction t using Ty.ind' with
  | any => exact ⟨fun h => by simp [Ty.wf] at h, fun m h => by cases h⟩
  | known o => exact ⟨fun h => by simpa [Ty.wf, Ty.wfB] using h, fun m h => by cases h⟩
  | typed c => exact ⟨fun h => by simpa [Ty.wf, Ty.wfB] using h, fun m h => by cases h⟩
  | newtype n c => exact ⟨fun h => by simpa [Ty.wf, Ty.wfB] using h, fun m h => by cases h⟩
  | generic c args ih =>
    refine ⟨fun hw => ?_, fun m h => by cases h⟩
    simp only [Ty.wf, Ty.wfB, Bool.and_eq_true, Ty.wfL_iff, Ty.wfBL_iff] at hw ⊢
    exact ⟨hw.1, fun t ht => (ih t ht).1 (hw.2 t ht)⟩
  | seq c ms ih =>
    refine ⟨fun hw => ?_, fun m h => by cases h⟩
    simp only [Ty.wf, Ty.wfB, Bool.and_eq_true] at hw ⊢
    refine ⟨hw.1, ?_⟩
    have hm := hw.2
    clear hw
    induction ms with
    | nil => simp [Ty.wfBM]
    | cons m ms ihm =>
      have ih1 := ih m (by simp)
      have ih2 := ihm (fun t ht => ih t (by simp [ht]))
      cases m <;> simp only [Ty.wfM, Ty.wfBM, Bool.and_eq_true] at hm ⊢ <;>
        first
          | exact ⟨ih1.2 _ rfl hm.1, ih2 hm.2⟩
          | exact ⟨ih1.1 hm.1, ih2 hm.2⟩
  | many t ih => exact ⟨fun h => by simp [Ty.wf] at h, fun m h hw => by cases h; exact ih.1 hw⟩
  | union ts ih =>
    refine ⟨fun hw => ?_, fun m h => by cases h⟩
    simp only [Ty.wf, Ty.wfB, Ty.wfL_iff, Ty.wfBL_iff] at hw ⊢
    exact fun t ht => (ih t ht).1 (hw t ht)
  | subclass c =>
    refine ⟨fun hw => ?_, fun m h => by cases h⟩
    simp only [Ty.wf, Ty.wfB, Bool.and_eq_true] at hw ⊢
    exact hw.1
  | annotated t ih => exact ⟨fun hw => ih.1 (by simpa [Ty.wf] using hw), fun m h => by cases h⟩
  | tvar i => exact ⟨fun h => by simp [Ty.wf] at h, fun m h => by cases h⟩

end
end Pya
