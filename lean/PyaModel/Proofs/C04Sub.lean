import PyaModel.Proofs.C04Laws
/-! # Proofs/C04Sub — sub-terms, and literals determined by `==`

* `Ty.Sub s t`: `s` is a sub-term of `t`; `Ty.anyT p t = false` iff `p` fails on every sub-term;
  the syntactic exclusions of `Spec/D03`, `Spec/WF`, `Spec/D04` pass to sub-terms.
* `Obj.same o k = true → o = k` when neither contains a frozenset and `k` is not `confusable`.
-/
namespace Pya

inductive Ty.Sub : Ty → Ty → Prop where
  | refl (t : Ty) : Ty.Sub t t
  | generic {s t : Ty} {c : Cls} {args : List Ty} : t ∈ args → Ty.Sub s t → Ty.Sub s (.generic c args)
  | seq {s t : Ty} {c : Cls} {ms : List Ty} : t ∈ ms → Ty.Sub s t → Ty.Sub s (.seq c ms)
  | many {s t : Ty} : Ty.Sub s t → Ty.Sub s (.many t)
  | union {s t : Ty} {ts : List Ty} : t ∈ ts → Ty.Sub s t → Ty.Sub s (.union ts)
  | annotated {s t : Ty} : Ty.Sub s t → Ty.Sub s (.annotated t)

theorem Ty.Sub.trans {a b c : Ty} (h1 : Ty.Sub a b) (h2 : Ty.Sub b c) : Ty.Sub a c := by
  induction h2 with
  | refl => exact h1
  | generic hm _ ih => exact .generic hm ih
  | seq hm _ ih => exact .seq hm ih
  | many _ ih => exact .many ih
  | union hm _ ih => exact .union hm ih
  | annotated _ ih => exact .annotated ih

theorem Ty.anyTL_false_iff (p : Ty → Bool) (ts : List Ty) :
    Ty.anyTL p ts = false ↔ ∀ t ∈ ts, Ty.anyT p t = false := by
  induction ts <;> simp_all [Ty.anyTL]

theorem Ty.anyT_false_iff (p : Ty → Bool) : ∀ t : Ty,
    Ty.anyT p t = false ↔ ∀ s, Ty.Sub s t → p s = false := by
  intro t
  induction t using Ty.ind' with
  | generic c args ih =>
    simp only [Ty.anyT, Bool.or_eq_false_iff, Ty.anyTL_false_iff]
    constructor
    · rintro ⟨h1, h2⟩ s hs
      cases hs with
      | refl => exact h1
      | generic hm hs => exact (ih _ hm).mp (h2 _ hm) s hs
    · intro h
      exact ⟨h _ (.refl _), fun t ht => (ih t ht).mpr fun s hs => h s (.generic ht hs)⟩
  | seq c ms ih =>
    simp only [Ty.anyT, Bool.or_eq_false_iff, Ty.anyTL_false_iff]
    constructor
    · rintro ⟨h1, h2⟩ s hs
      cases hs with
      | refl => exact h1
      | seq hm hs => exact (ih _ hm).mp (h2 _ hm) s hs
    · intro h
      exact ⟨h _ (.refl _), fun t ht => (ih t ht).mpr fun s hs => h s (.seq ht hs)⟩
  | union ts ih =>
    simp only [Ty.anyT, Bool.or_eq_false_iff, Ty.anyTL_false_iff]
    constructor
    · rintro ⟨h1, h2⟩ s hs
      cases hs with
      | refl => exact h1
      | union hm hs => exact (ih _ hm).mp (h2 _ hm) s hs
    · intro h
      exact ⟨h _ (.refl _), fun t ht => (ih t ht).mpr fun s hs => h s (.union ht hs)⟩
  | many t ih =>
    simp only [Ty.anyT, Bool.or_eq_false_iff]
    constructor
    · rintro ⟨h1, h2⟩ s hs
      cases hs with
      | refl => exact h1
      | many hs => exact ih.mp h2 s hs
    · intro h
      exact ⟨h _ (.refl _), ih.mpr fun s hs => h s (.many hs)⟩
  | annotated t ih =>
    simp only [Ty.anyT, Bool.or_eq_false_iff]
    constructor
    · rintro ⟨h1, h2⟩ s hs
      cases hs with
      | refl => exact h1
      | annotated hs => exact ih.mp h2 s hs
    · intro h
      exact ⟨h _ (.refl _), ih.mpr fun s hs => h s (.annotated hs)⟩
  | any | known _ | typed _ | newtype _ _ | subclass _ | tvar _ =>
    simp only [Ty.anyT]
    constructor
    · intro h s hs; cases hs; exact h
    · intro h; exact h _ (.refl _)

theorem Ty.hasNewtypeL_iff (ts : List Ty) :
    Ty.hasNewtypeL ts = false ↔ ∀ t ∈ ts, t.hasNewtype = false := by
  induction ts <;> simp_all [Ty.hasNewtypeL]

theorem Ty.Sub.hasMany {s t : Ty} (h : Ty.Sub s t) : t.hasMany = false → s.hasMany = false := by
  induction h with
  | refl => exact id
  | generic hm _ ih => intro h; exact ih ((Ty.hasManyL_iff _).mp (by simpa [Ty.hasMany] using h) _ hm)
  | seq hm _ ih => intro h; exact ih ((Ty.hasManyL_iff _).mp (by simpa [Ty.hasMany] using h) _ hm)
  | many _ _ => intro h; simp [Ty.hasMany] at h
  | union hm _ ih => intro h; exact ih ((Ty.hasManyL_iff _).mp (by simpa [Ty.hasMany] using h) _ hm)
  | annotated _ ih => intro h; exact ih (by simpa [Ty.hasMany] using h)

theorem Ty.Sub.hasNewtype {s t : Ty} (h : Ty.Sub s t) : t.hasNewtype = false → s.hasNewtype = false := by
  induction h with
  | refl => exact id
  | generic hm _ ih => intro h; exact ih ((Ty.hasNewtypeL_iff _).mp (by simpa [Ty.hasNewtype] using h) _ hm)
  | seq hm _ ih => intro h; exact ih ((Ty.hasNewtypeL_iff _).mp (by simpa [Ty.hasNewtype] using h) _ hm)
  | many _ ih => intro h; exact ih (by simpa [Ty.hasNewtype] using h)
  | union hm _ ih => intro h; exact ih ((Ty.hasNewtypeL_iff _).mp (by simpa [Ty.hasNewtype] using h) _ hm)
  | annotated _ ih => intro h; exact ih (by simpa [Ty.hasNewtype] using h)

theorem Ty.Sub.hasAbcGeneric {s t : Ty} (h : Ty.Sub s t) :
    t.hasAbcGeneric = false → s.hasAbcGeneric = false := by
  induction h with
  | refl => exact id
  | generic hm _ ih =>
    intro h
    simp only [Ty.hasAbcGeneric, Bool.or_eq_false_iff] at h
    exact ih ((Ty.hasAbcGenericL_iff _).mp h.2 _ hm)
  | seq hm _ ih => intro h; exact ih ((Ty.hasAbcGenericL_iff _).mp (by simpa [Ty.hasAbcGeneric] using h) _ hm)
  | many _ ih => intro h; exact ih (by simpa [Ty.hasAbcGeneric] using h)
  | union hm _ ih => intro h; exact ih ((Ty.hasAbcGenericL_iff _).mp (by simpa [Ty.hasAbcGeneric] using h) _ hm)
  | annotated _ ih => intro h; exact ih (by simpa [Ty.hasAbcGeneric] using h)

theorem Ty.Sub.hasProto {tbl : ClassTable} {s t : Ty} (h : Ty.Sub s t) :
    t.hasProto tbl = false → s.hasProto tbl = false := by
  induction h with
  | refl => exact id
  | generic hm _ ih =>
    intro h
    simp only [Ty.hasProto, Bool.or_eq_false_iff] at h
    exact ih ((Ty.hasProtoL_iff _ _).mp h.2 _ hm)
  | seq hm _ ih => intro h; exact ih ((Ty.hasProtoL_iff _ _).mp (by simpa [Ty.hasProto] using h) _ hm)
  | many _ ih => intro h; exact ih (by simpa [Ty.hasProto] using h)
  | union hm _ ih => intro h; exact ih ((Ty.hasProtoL_iff _ _).mp (by simpa [Ty.hasProto] using h) _ hm)
  | annotated _ ih => intro h; exact ih (by simpa [Ty.hasProto] using h)

/-! ### literals determined by `==` -/
theorem Obj.hasBoolishL_iff (xs : List Obj) :
    Obj.hasBoolishL xs = false ↔ ∀ x ∈ xs, x.hasBoolish = false := by
  induction xs <;> simp_all [Obj.hasBoolishL]

theorem Obj.pyEqList_eq_of (xs ys : List Obj)
    (h : ∀ x ∈ xs, ∀ y, x.hasFset = false → y.hasFset = false → y.hasBoolish = false →
      Obj.pyEq x y = true → x = y)
    (hx : Obj.hasFsetL xs = false) (hy : Obj.hasFsetL ys = false) (hb : Obj.hasBoolishL ys = false)
    (he : Obj.pyEqList xs ys = true) : xs = ys := by
  induction xs generalizing ys with
  | nil => cases ys <;> simp_all [Obj.pyEqList]
  | cons x xs ih =>
    cases ys with
    | nil => simp [Obj.pyEqList] at he
    | cons y ys =>
      simp only [Obj.pyEqList, Bool.and_eq_true] at he
      simp only [Obj.hasFsetL, Obj.hasBoolishL, Bool.or_eq_false_iff] at hx hy hb
      rw [h x (by simp) y hx.1 hy.1 hb.1 he.1,
        ih ys (fun x' hx' => h x' (by simp [hx'])) hx.2 hy.2 hb.2 he.2]

theorem Obj.pyEq_eq : ∀ (x y : Obj), x.hasFset = false → y.hasFset = false →
    y.hasBoolish = false → Obj.pyEq x y = true → x = y
  | .tuple xs, y, hx, hy, hb, he => by
    have := fun ys => Obj.pyEqList_eq_of xs ys (fun x _ y => Obj.pyEq_eq x y)
    cases y <;> simp_all [Obj.pyEq, Obj.hasFset, Obj.hasBoolish] <;> exact this _ hy hb he
  | .list xs, y, hx, hy, hb, he => by
    have := fun ys => Obj.pyEqList_eq_of xs ys (fun x _ y => Obj.pyEq_eq x y)
    cases y <;> simp_all [Obj.pyEq, Obj.hasFset, Obj.hasBoolish] <;> exact this _ hy hb he
  | .set xs, y, hx, hy, hb, he => by
    have := fun ys => Obj.pyEqList_eq_of xs ys (fun x _ y => Obj.pyEq_eq x y)
    cases y <;> simp_all [Obj.pyEq, Obj.hasFset, Obj.hasBoolish] <;> exact this _ hy hb he
  | .fset xs, y, hx, hy, hb, he => by simp [Obj.hasFset] at hx
  | .dict ks vs, y, hx, hy, hb, he => by
    have h1 := fun ys => Obj.pyEqList_eq_of ks ys (fun x _ y => Obj.pyEq_eq x y)
    have h2 := fun ys => Obj.pyEqList_eq_of vs ys (fun x _ y => Obj.pyEq_eq x y)
    cases y <;> simp_all [Obj.pyEq, Obj.hasFset, Obj.hasBoolish] <;>
      exact ⟨h1 _ hy.1 hb.1 he.1, h2 _ hy.2 hb.2 he.2⟩
  | .int a, y, _, _, hb, he => by
    cases y <;> simp_all [Obj.pyEq, Obj.hasBoolish]
  | .bool a, y, _, _, hb, he => by
    cases y <;> simp_all [Obj.pyEq, Obj.hasBoolish]
    cases a <;> simp_all
  | .str _, y, _, _, _, he | .bytes _, y, _, _, _, he | .none, y, _, _, _, he
  | .flt _, y, _, _, _, he | .cplx _, y, _, _, _, he | .inst _ _, y, _, _, _, he
  | .cls _, y, _, _, _, he => by
    cases y <;> simp_all [Obj.pyEq]
termination_by x => sizeOf x

/-- If neither object contains a frozenset and `k` has no bool / 0 / 1 inside a container, then
`type(o) is type(k) and o == k` means `o = k`. -/
theorem Obj.same_eq {o k : Obj} (ho : o.hasFset = false) (hk : k.hasFset = false)
    (hc : k.confusable = false) (h : Obj.same o k = true) : o = k := by
  simp only [Obj.same, Bool.and_eq_true, beq_iff_eq] at h
  obtain ⟨ht, he⟩ := h
  have hl := fun xs ys => Obj.pyEqList_eq_of xs ys (fun x _ y => Obj.pyEq_eq x y)
  cases o <;> cases k <;> simp only [Obj.tag] at ht <;> try omega
  all_goals simp_all [Obj.pyEq, Obj.hasFset, Obj.confusable]
  all_goals first
    | exact hl _ _ ho hk hc he
    | exact ⟨hl _ _ ho.1 hk.1 hc.1 he.1, hl _ _ ho.2 hk.2 hc.2 he.2⟩

end Pya
