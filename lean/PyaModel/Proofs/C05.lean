import PyaModel.Spec.CpyBind
/-!
# Proofs/C05 — helper lemmas: the one-pass binder equals CPython's three-pass binder
-/
namespace Pya

/-- The `ActualArguments` of a call with `n` positionals and keywords `ks`, no star arguments. -/
def litActual (n : Nat) (ks : List String) : Actual :=
  { pos := List.replicate n true, starArgs := false, kws := ks.map (·, true),
    starKw := false, kwReq := false }

@[simp] theorem lit_len (n ks) : (litActual n ks).pos.length = n := by simp [litActual]
@[simp] theorem lit_getD (n ks i) : (litActual n ks).pos.getD i true = true := by
  simp [litActual, List.getD, List.getElem?_replicate]; split <;> simp
@[simp] theorem lit_starArgs (n ks) : (litActual n ks).starArgs = false := rfl
@[simp] theorem lit_starKw (n ks) : (litActual n ks).starKw = false := rfl
@[simp] theorem lit_kwReq (n ks) : (litActual n ks).kwReq = false := rfl
@[simp] theorem lit_hasKw (n ks k) : (litActual n ks).hasKw k = ks.contains k := by
  simp [litActual, Actual.hasKw, List.any_map, Function.comp_def]
  induction ks with
  | nil => simp
  | cons x xs ih =>
    simp [ih]; grind
@[simp] theorem lit_kwProvided (n ks k) : (litActual n ks).kwProvided k = true := by
  unfold Actual.kwProvided litActual
  split
  · rename_i x b h
    have := List.mem_of_find?_eq_some h
    simp at this; obtain ⟨_, _, h2⟩ := this; simp_all
  · rfl
@[simp] theorem lit_kws_filter (n ks) (cons : List String) :
    ((litActual n ks).kws.filter fun k => !cons.contains k.1).isEmpty
      = ks.all (fun k => cons.contains k) := by
  simp only [litActual]
  induction ks with
  | nil => simp
  | cons k ks ih =>
    simp only [List.map_cons, List.filter_cons, List.all_cons]
    cases h : cons.contains k <;> simp_all

/-! ### The fold, segment by segment -/

/-- Success condition of the positional-or-keyword segment in the one-pass binder. -/
def pkOk (n : Nat) (ks : List String) : Nat → List P → Bool
  | _, [] => true
  | off, p :: ps =>
    (if off < n then !ks.contains p.name else (ks.contains p.name || p.dflt)) && pkOk n ks (off + 1) ps

/-- Keywords consumed by the positional-or-keyword segment (accumulator form, as the
binder conses them). -/
def pkConsumed (n : Nat) (ks : List String) : Nat → List P → List String → List String
  | _, [], acc => acc
  | off, p :: ps, acc =>
    if off < n then pkConsumed n ks (off + 1) ps acc
    else if ks.contains p.name then pkConsumed n ks (off + 1) ps (p.name :: acc)
    else pkConsumed n ks (off + 1) ps acc

def koOk (ks : List String) (ko : List P) : Bool := ko.all fun p => ks.contains p.name || p.dflt
def koConsumed (ks : List String) : List P → List String → List String
  | [], acc => acc
  | p :: ps, acc => if ks.contains p.name then koConsumed ks ps (p.name :: acc) else koConsumed ks ps acc

/-- What matters of a binder state for the verdict. -/
structure Core where
  posIdx : Nat
  consumed : List String
  sac : Bool
  skc : Bool
  xok : Bool

def BindSt.core (st : BindSt) : Core := ⟨st.posIdx, st.consumed, st.sac, st.skc, st.xok⟩

/-- Normal-form layer: `bindStep` on a literal call, on the verdict-relevant state only. -/
def litStep (n : Nat) (ks : List String) (c : Core) (p : Param) : Option Core :=
  match p.kind with
  | .posOnly =>
    if c.posIdx < n then some { c with posIdx := c.posIdx + 1 }
    else if p.dflt then some c else none
  | .posOrKw =>
    if c.posIdx < n then
      if ks.contains p.name then none else some { c with posIdx := c.posIdx + 1 }
    else if ks.contains p.name then some { c with consumed := p.name :: c.consumed }
    else if p.dflt then some c else none
  | .kwOnly =>
    if ks.contains p.name then some { c with consumed := p.name :: c.consumed }
    else if p.dflt then some c else none
  | .varPos => some { c with sac := true, posIdx := max c.posIdx n }
  | .varKw => some { c with skc := true, xok := true }

theorem bindStep_sim (n ks) (st : BindSt) (p : Param) :
    (bindStep (litActual n ks) st p).map BindSt.core = litStep n ks st.core p := by
  unfold bindStep litStep
  cases p.kind <;> simp only [lit_len, lit_getD, lit_starArgs, lit_starKw, lit_hasKw, lit_kwProvided]
    <;> grind [BindSt.core, BindSt.bind]

theorem fold_sim (n ks) : ∀ (ps : List Param) (st : BindSt),
    (ps.foldlM (bindStep (litActual n ks)) st).map BindSt.core
      = ps.foldlM (litStep n ks) st.core := by
  intro ps
  induction ps with
  | nil => intro st; simp
  | cons p ps ih =>
    intro st
    simp only [List.foldlM_cons]
    have h := bindStep_sim n ks st p
    cases hb : bindStep (litActual n ks) st p with
    | none => simp [hb] at h; simp [← h]
    | some st' => simp [hb] at h; simp [← h, ih]

/-! ### Segment lemmas on the normal-form layer -/

theorem run_po (n ks) : ∀ (ps : List P) (off : Nat) (c : Core), c.posIdx = min n off →
    (ps.map (P.toParam .posOnly)).foldlM (litStep n ks) c =
      if posFilled n ks false off ps then some { c with posIdx := min n (off + ps.length) }
      else none := by
  intro ps
  induction ps with
  | nil => intro off c h; simp [posFilled, ← h]
  | cons p ps ih =>
    intro off c h
    simp only [List.map_cons, List.foldlM_cons, posFilled, litStep, P.toParam]
    by_cases hlt : off < n
    · have h1 : c.posIdx < n := by omega
      simp [h1, hlt]
      rw [ih (off + 1) _ (by simp; omega)]
      grind
    · have h1 : ¬ c.posIdx < n := by omega
      by_cases hd : p.dflt = true
      · simp [h1, hlt, hd]
        rw [ih (off + 1) c (by omega)]
        grind
      · simp [h1, hlt, hd]

theorem run_pk (n ks) : ∀ (ps : List P) (off : Nat) (c : Core), c.posIdx = min n off →
    (ps.map (P.toParam .posOrKw)).foldlM (litStep n ks) c =
      if pkOk n ks off ps then
        some { c with posIdx := min n (off + ps.length),
                      consumed := pkConsumed n ks off ps c.consumed }
      else none := by
  intro ps
  induction ps with
  | nil => intro off c h; simp [pkOk, pkConsumed, ← h]
  | cons p ps ih =>
    intro off c h
    simp only [List.map_cons, List.foldlM_cons, pkOk, pkConsumed, litStep, P.toParam]
    by_cases hlt : off < n
    · have h1 : c.posIdx < n := by omega
      by_cases hk : p.name ∈ ks
      · simp [h1, hlt, hk]
      · simp [h1, hlt, hk]
        rw [ih (off + 1) _ (by simp; omega)]
        grind
    · have h1 : ¬ c.posIdx < n := by omega
      by_cases hk : p.name ∈ ks
      · simp [h1, hlt, hk]
        rw [ih (off + 1) _ (by simp; omega)]
        grind
      · by_cases hd : p.dflt = true
        · simp [h1, hlt, hk, hd]
          rw [ih (off + 1) c (by omega)]
          grind
        · simp [h1, hlt, hk, hd]

theorem run_ko (n ks) : ∀ (ps : List P) (c : Core),
    (ps.map (P.toParam .kwOnly)).foldlM (litStep n ks) c =
      if koOk ks ps then some { c with consumed := koConsumed ks ps c.consumed } else none := by
  intro ps
  induction ps with
  | nil => intro c; simp [koOk, koConsumed]
  | cons p ps ih =>
    intro c
    simp only [List.map_cons, List.foldlM_cons, koOk, koConsumed, litStep, P.toParam, List.all_cons]
    by_cases hk : p.name ∈ ks
    · simp [hk]
      rw [ih _]; simp [koOk]
    · by_cases hd : p.dflt = true
      · simp [hk, hd]
        rw [ih c]; simp [koOk]
      · simp [hk, hd]

/-! ### Assembling the verdict of the one-pass binder -/

def finishOk (n : Nat) (ks : List String) (c : Core) : Bool :=
  (c.sac || c.posIdx == n) && (c.xok || ks.all (fun k => c.consumed.contains k))

theorem finish_sim (n ks) (st : BindSt) :
    (bindFinish (litActual n ks) st).isSome = finishOk n ks st.core := by
  unfold bindFinish finishOk
  simp only [lit_len, lit_kws_filter, lit_starArgs, lit_starKw, lit_kwReq, BindSt.core]
  generalize (ks.all fun k => st.consumed.contains k) = b
  by_cases hn : st.posIdx = n <;> cases st.sac <;> cases st.skc <;> cases st.xok <;> cases b <;> simp [hn]

theorem pyaBind_isSome (sig : List Param) (n ks) :
    (pyaBind sig (litActual n ks)).isSome =
      match sig.foldlM (litStep n ks) ⟨0, [], false, false, false⟩ with
      | none => false
      | some c => finishOk n ks c := by
  unfold pyaBind
  have h := fold_sim n ks sig ({} : BindSt)
  simp only [BindSt.core] at h
  rw [← h]
  cases hf : sig.foldlM (bindStep (litActual n ks)) ({} : BindSt) with
  | none => simp
  | some st => simp [finish_sim, BindSt.core]

/-- Normal form of the one-pass binder's verdict on a literal call. -/
def nf (s : DefSig) (n : Nat) (ks : List String) : Bool :=
  posFilled n ks false 0 s.po && pkOk n ks s.po.length s.pk && koOk ks s.ko &&
  (s.vp.isSome || decide (n ≤ s.po.length + s.pk.length)) &&
  (s.vk.isSome ||
    ks.all (fun k => (koConsumed ks s.ko (pkConsumed n ks s.po.length s.pk [])).contains k))

theorem pya_eq_nf (s : DefSig) (n ks) :
    (pyaBind s.params (litActual n ks)).isSome = nf s n ks := by
  rw [pyaBind_isSome]
  unfold DefSig.params nf
  simp only [List.foldlM_append]
  rw [run_po n ks s.po 0 _ (by simp)]
  by_cases h1 : posFilled n ks false 0 s.po = true
  · simp only [h1, if_true, Option.bind_eq_bind, Option.bind_some]
    rw [run_pk n ks s.pk s.po.length _ (by simp)]
    by_cases h2 : pkOk n ks s.po.length s.pk = true
    · simp only [h2, if_true, Option.bind_some]
      cases hvp : s.vp <;> cases hvk : s.vk <;>
        simp [litStep, run_ko, finishOk] <;>
        by_cases h3 : koOk ks s.ko = true <;> simp [h3] <;> grind
    · simp [h2]
  · simp [h1]

/-! ### The normal form equals CPython's binder -/

/-- Some positional-or-keyword parameter named `k` sits at an absolute slot `≥ n`. -/
def pkHas (n : Nat) : Nat → List P → String → Bool
  | _, [], _ => false
  | off, p :: ps, k => (decide (n ≤ off) && p.name == k) || pkHas n (off + 1) ps k

theorem mem_pkConsumed (n ks) : ∀ (ps : List P) (off : Nat) (acc : List String) (k : String),
    k ∈ pkConsumed n ks off ps acc ↔ k ∈ acc ∨ (k ∈ ks ∧ pkHas n off ps k = true) := by
  intro ps
  induction ps with
  | nil => intro off acc k; simp [pkConsumed, pkHas]
  | cons p ps ih =>
    intro off acc k
    simp only [pkConsumed, pkHas]
    by_cases hlt : off < n
    · simp [hlt, ih]; grind
    · by_cases hk : p.name ∈ ks
      · simp [hlt, hk, ih]; grind
      · simp [hlt, hk, ih]; grind

theorem mem_koConsumed (ks) : ∀ (ps : List P) (acc : List String) (k : String),
    k ∈ koConsumed ks ps acc ↔ k ∈ acc ∨ (k ∈ ks ∧ ps.any (·.name == k) = true) := by
  intro ps
  induction ps with
  | nil => intro acc k; simp [koConsumed]
  | cons p ps ih =>
    intro acc k
    simp only [koConsumed]
    by_cases hk : p.name ∈ ks
    · simp [hk, ih]; grind
    · simp [hk, ih]; grind

theorem pkSlot_none (k : String) : ∀ (ps : List P) (off : Nat),
    k ∉ ps.map (·.name) → pkSlot off ps k = none := by
  intro ps
  induction ps with
  | nil => intro off _; rfl
  | cons p ps ih =>
    intro off h
    simp only [List.map_cons, List.mem_cons, not_or] at h
    simp only [pkSlot]
    have : (p.name == k) = false := by simp; exact fun e => h.1 e.symm
    simp [this, ih (off + 1) h.2]

theorem pkHas_false (n : Nat) (k : String) : ∀ (ps : List P) (off : Nat),
    k ∉ ps.map (·.name) → pkHas n off ps k = false := by
  intro ps
  induction ps with
  | nil => intro off _; rfl
  | cons p ps ih =>
    intro off h
    simp only [List.map_cons, List.mem_cons, not_or] at h
    simp only [pkHas]
    have : (p.name == k) = false := by simp; exact fun e => h.1 e.symm
    simp [this, ih (off + 1) h.2]

/-- L2: with distinct names, "consumed by the pk segment" is "its slot is ≥ n". -/
theorem pkHas_iff_slot (n : Nat) (k : String) : ∀ (ps : List P) (off : Nat),
    (ps.map (·.name)).Nodup →
    pkHas n off ps k = match pkSlot off ps k with
      | some i => decide (n ≤ i)
      | none => false := by
  intro ps
  induction ps with
  | nil => intro off _; rfl
  | cons p ps ih =>
    intro off hnd
    simp only [List.map_cons, List.nodup_cons] at hnd
    simp only [pkHas, pkSlot]
    by_cases hk : p.name = k
    · subst hk
      simp [pkHas_false n p.name ps (off + 1) hnd.1]
    · have : (p.name == k) = false := by simp [hk]
      simp [this, ih (off + 1) hnd.2]

/-- L1: the one-pass success condition of the pk segment, in CPython's terms. -/
theorem pkOk_iff (n ks) : ∀ (ps : List P) (off : Nat), (ps.map (·.name)).Nodup →
    (pkOk n ks off ps = true ↔
      posFilled n ks true off ps = true ∧
      ∀ k ∈ ks, ∀ i, pkSlot off ps k = some i → n ≤ i) := by
  intro ps
  induction ps with
  | nil => intro off _; simp [pkOk, posFilled, pkSlot]
  | cons p ps ih =>
    intro off hnd
    simp only [List.map_cons, List.nodup_cons] at hnd
    have hnone := pkSlot_none p.name ps (off + 1) hnd.1
    simp only [pkOk, posFilled, pkSlot, Bool.and_eq_true, ih (off + 1) hnd.2]
    constructor
    · rintro ⟨h1, h2, h3⟩
      refine ⟨⟨?_, h2⟩, ?_⟩
      · by_cases hlt : off < n <;> simp_all <;> grind
      · intro k hk i
        by_cases hpk : p.name = k
        · subst hpk; simp
          by_cases hlt : off < n
          · simp_all
          · intro e; omega
        · have : (p.name == k) = false := by simp [hpk]
          simp [this]; exact h3 k hk i
    · rintro ⟨⟨h1, h2⟩, h3⟩
      refine ⟨?_, h2, ?_⟩
      · by_cases hlt : off < n
        · simp [hlt]
          intro hmem
          have := h3 p.name hmem off (by simp)
          omega
        · simp_all; omega
      · intro k hk i hs
        by_cases hpk : p.name = k
        · subst hpk; simp [hnone] at hs
        · have : (p.name == k) = false := by simp [hpk]
          exact h3 k hk i (by simp [this, hs])

theorem nodup_pk (s : DefSig) (h : s.WF) : (s.pk.map (·.name)).Nodup := by
  unfold DefSig.WF DefSig.names DefSig.params at h
  simp only [List.map_append, List.map_map] at h
  have h1 := (List.nodup_append.mp h).1
  have h2 := (List.nodup_append.mp h1).1
  have h3 := (List.nodup_append.mp h2).1
  have h4 := (List.nodup_append.mp h3).2.1
  simpa [Function.comp_def, P.toParam] using h4

theorem nf_eq_cpy (s : DefSig) (hwf : s.WF) (n : Nat) (ks : List String) (hks : ks.Nodup) :
    nf s n ks = cpyBind s ⟨n, ks⟩ := by
  have hpk := nodup_pk s hwf
  rw [Bool.eq_iff_iff]
  unfold nf cpyBind
  simp only [Bool.and_eq_true, Bool.or_eq_true, decide_eq_true_eq, hks, List.all_eq_true,
    pkOk_iff n ks s.pk _ hpk, koOk, kwAccepted, List.contains_eq_mem, mem_koConsumed,
    mem_pkConsumed, pkHas_iff_slot n _ s.pk _ hpk, List.not_mem_nil, false_or, true_and]
  constructor
  · rintro ⟨⟨⟨⟨h1, h2, h3⟩, h4⟩, h5⟩, h6⟩
    refine ⟨⟨⟨⟨?_, ?_⟩, h1⟩, h2⟩, h4⟩
    · cases h5 <;> simp_all <;> omega
    · intro k hk
      cases hs : pkSlot s.po.length s.pk k with
      | some i => have := h3 k hk i hs; simp; omega
      | none =>
        simp
        cases h6 with
        | inl h => exact Or.inr h
        | inr h =>
          have := h k hk
          simp [hs] at this
          exact Or.inl (by simpa using this.2)
  · rintro ⟨⟨⟨⟨h1, h2⟩, h3⟩, h4⟩, h5⟩
    refine ⟨⟨⟨⟨h3, h4, ?_⟩, h5⟩, ?_⟩, ?_⟩
    · intro k hk i hs
      have := h2 k hk
      simp [hs] at this; omega
    · cases h1 <;> simp_all
    · by_cases hv : s.vk.isSome = true
      · exact Or.inl hv
      · right
        intro k hk
        have := h2 k hk
        cases hs : pkSlot s.po.length s.pk k with
        | some i => simp [hs] at this; left; exact ⟨hk, by simp; omega⟩
        | none =>
          simp [hs, hv] at this
          right; exact ⟨hk, by simpa using this⟩

end Pya
