import PyaModel.Proofs.C05Star
/-!
# Proofs/C05Perm — the order of the keyword section does not matter

Helper lemmas for `bind_kw_section_perm`, `cpy_kw_section_perm`, `duplicate_keyword_rejected`
(Props/C05.lean): closed form of `preprocess` on a keyword section, invariance of the binder
under permutation of the keyword table, invariance of `cpyBind` under permutation of the keyword
names, expansions transported along a permutation.
-/
namespace Pya

/-! ### `preprocess` on a keyword section, closed form -/

/-- The names an item adds to the keyword table, in the order `preprocess_args` adds them
(`for pair in reversed(items)` for a dict display). -/
def Arg.preNames : Arg → List String
  | .kw n => [n]
  | .dstarLit ns => ns.reverse
  | _ => []

theorem preNames_perm (x : Arg) : x.preNames.Perm x.kwNames := by
  cases x <;> simp [Arg.preNames, Arg.kwNames, List.reverse_perm]

def PreSt.names (s : PreSt) : List String := s.kws.map (·.1)

theorem addKw_eq (s : PreSt) (n : String) :
    s.addKw n = if n ∈ s.names then none else some { s with kws := s.kws ++ [(n, true)] } := by
  unfold PreSt.addKw PreSt.names
  have : (s.kws.any (·.1 == n)) = decide (n ∈ s.kws.map (·.1)) := by
    induction s.kws with
    | nil => simp
    | cons x xs ih => simp [List.any_cons, ih]; grind
  rw [this]; simp

theorem addKw_fold : ∀ (ns : List String) (s : PreSt),
    ns.foldlM (fun s n => s.addKw n) s =
      if ns.Nodup ∧ ∀ n ∈ ns, n ∉ s.names then
        some { s with kws := s.kws ++ ns.map (·, true) }
      else none := by
  intro ns
  induction ns with
  | nil => intro s; simp
  | cons n ns ih =>
    intro s
    rw [List.foldlM_cons, addKw_eq]
    by_cases hn : n ∈ s.names
    · simp [hn]
    · rw [if_neg hn]
      simp only [Option.bind_eq_bind, Option.bind_some]
      rw [ih]
      have e : ({ s with kws := s.kws ++ [(n, true)] } : PreSt).names = s.names ++ [n] := by
        simp [PreSt.names]
      rw [e]
      by_cases hc : ns.Nodup ∧ ∀ m ∈ ns, m ∉ s.names ++ [n]
      · have hc' : (n :: ns).Nodup ∧ ∀ m ∈ n :: ns, m ∉ s.names := by
          obtain ⟨h1, h2⟩ := hc
          refine ⟨List.nodup_cons.mpr ⟨fun hm => by have := h2 n hm; simp at this, h1⟩, ?_⟩
          intro m hm
          rcases List.mem_cons.mp hm with rfl | hm
          · exact hn
          · have := h2 m hm; simp at this; exact this.1
        rw [if_pos hc, if_pos hc']
        simp
      · have hc' : ¬ ((n :: ns).Nodup ∧ ∀ m ∈ n :: ns, m ∉ s.names) := by
          rintro ⟨h1, h2⟩
          apply hc
          have h1' := List.nodup_cons.mp h1
          refine ⟨h1'.2, ?_⟩
          intro m hm
          simp only [List.mem_append, List.mem_singleton, not_or]
          exact ⟨h2 m (by simp [hm]), fun e => h1'.1 (e ▸ hm)⟩
        rw [if_neg hc, if_neg hc']

/-- All names a keyword section adds, in the order `preprocess_args` adds them. -/
def secNames (K : List Arg) : List String := K.flatMap Arg.preNames

/-- Closed form of `preprocess_args` on a keyword section: it fails exactly when a name is
supplied twice (within the section or against the table so far); otherwise it appends the
names, and records the `**d`s. -/
theorem kwsec_fold : ∀ (K : List Arg), (∀ x ∈ K, x.isKwItem = true) → ∀ (s : PreSt),
    K.foldlM preStep s =
      if (secNames K).Nodup ∧ ∀ n ∈ secNames K, n ∉ s.names then
        some { s with kws := s.kws ++ (secNames K).map (·, true),
                      starKw := s.starKw || K.contains .dstarUnk,
                      kwReqs := s.kwReqs ++ List.replicate (K.count .dstarUnk) true }
      else none := by
  intro K
  induction K with
  | nil => intro _ s; simp [secNames]
  | cons x K ih =>
    intro hK s
    have hx : x.isKwItem = true := hK x (by simp)
    have ih' := ih (fun y hy => hK y (by simp [hy]))
    have step : ∃ (sk : Bool) (c : Nat),
        sk = (x == .dstarUnk) ∧ c = (if x == .dstarUnk then 1 else 0) ∧
        preStep s x =
          if x.preNames.Nodup ∧ ∀ n ∈ x.preNames, n ∉ s.names then
            some { s with kws := s.kws ++ x.preNames.map (·, true),
                          starKw := s.starKw || sk,
                          kwReqs := s.kwReqs ++ List.replicate c true }
          else none := by
      cases x with
      | pos => simp [Arg.isKwItem] at hx
      | starLit n => simp [Arg.isKwItem] at hx
      | starUnk => simp [Arg.isKwItem] at hx
      | kw n =>
        refine ⟨false, 0, by simp, by simp, ?_⟩
        simp only [preStep, addKw_eq, Arg.preNames]
        by_cases hn : n ∈ s.names <;> simp [hn]
      | dstarLit ns =>
        refine ⟨false, 0, by simp, by simp, ?_⟩
        simp only [preStep, addKw_fold, Arg.preNames]
        simp
      | dstarUnk =>
        refine ⟨true, 1, by simp, by simp, ?_⟩
        simp [preStep, Arg.preNames]
    obtain ⟨sk, c, hsk, hc, hstep⟩ := step
    rw [List.foldlM_cons, hstep]
    have hsec : secNames (x :: K) = x.preNames ++ secNames K := by simp [secNames]
    by_cases h1 : x.preNames.Nodup ∧ ∀ n ∈ x.preNames, n ∉ s.names
    · rw [if_pos h1]
      simp only [Option.bind_eq_bind, Option.bind_some]
      rw [ih']
      have e : ({ s with kws := s.kws ++ x.preNames.map (·, true), starKw := s.starKw || sk,
                         kwReqs := s.kwReqs ++ List.replicate c true } : PreSt).names
          = s.names ++ x.preNames := by
        simp [PreSt.names, Function.comp_def]
      rw [e]
      by_cases h2 : (secNames K).Nodup ∧ ∀ n ∈ secNames K, n ∉ s.names ++ x.preNames
      · have h3 : (secNames (x :: K)).Nodup ∧ ∀ n ∈ secNames (x :: K), n ∉ s.names := by
          rw [hsec]
          refine ⟨List.nodup_append.mpr ⟨h1.1, h2.1, ?_⟩, ?_⟩
          · intro a ha b hb e
            have := h2.2 b hb
            simp only [List.mem_append, not_or] at this
            exact this.2 (e ▸ ha)
          · intro n hn
            rcases List.mem_append.mp hn with hn | hn
            · exact h1.2 n hn
            · have := h2.2 n hn
              simp only [List.mem_append, not_or] at this
              exact this.1
        rw [if_pos h2, if_pos h3, hsec]
        congr 1
        have hcnt : (x :: K).count .dstarUnk = c + K.count .dstarUnk := by
          rw [List.count_cons, hc]; split <;> omega
        have hcont : (x :: K).contains .dstarUnk = (sk || K.contains .dstarUnk) := by
          rw [hsk]; simp; grind
        rw [hcnt, hcont]
        simp [Bool.or_assoc]
      · have h3 : ¬ ((secNames (x :: K)).Nodup ∧ ∀ n ∈ secNames (x :: K), n ∉ s.names) := by
          rw [hsec]
          rintro ⟨h3, h4⟩
          apply h2
          have h3' := List.nodup_append.mp h3
          refine ⟨h3'.2.1, ?_⟩
          intro n hn
          simp only [List.mem_append, not_or]
          exact ⟨h4 n (List.mem_append_right _ hn), fun hm => h3'.2.2 n hm n hn rfl⟩
        rw [if_neg h2, if_neg h3]
    · have h3 : ¬ ((secNames (x :: K)).Nodup ∧ ∀ n ∈ secNames (x :: K), n ∉ s.names) := by
        rw [hsec]
        rintro ⟨h3, h4⟩
        apply h1
        exact ⟨(List.nodup_append.mp h3).1, fun n hn => h4 n (List.mem_append_left _ hn)⟩
      rw [if_neg h1, if_neg h3]
      rfl

/-! ### The binder does not look at the order of the keyword table -/

theorem all_perm {α : Type} {l₁ l₂ : List α} (h : l₁.Perm l₂) (f : α → Bool) :
    l₁.all f = l₂.all f := by
  rw [Bool.eq_iff_iff, List.all_eq_true, List.all_eq_true]
  exact ⟨fun H x hx => H x (h.mem_iff.mpr hx), fun H x hx => H x (h.mem_iff.mp hx)⟩

theorem bindStep_congr (a₁ a₂ : Actual) (h1 : a₁.pos = a₂.pos) (h2 : a₁.starArgs = a₂.starArgs)
    (h3 : a₁.starKw = a₂.starKw) (h4 : ∀ n, a₁.hasKw n = a₂.hasKw n)
    (h5 : ∀ n, a₁.kwProvided n = a₂.kwProvided n)
    (h6 : ∀ cons : List String, (a₁.kws.filter fun k => !cons.contains k.1).isEmpty
        = (a₂.kws.filter fun k => !cons.contains k.1).isEmpty)
    (st : BindSt) (p : Param) : bindStep a₁ st p = bindStep a₂ st p := by
  unfold bindStep
  simp only [h1, h2, h3, h4, h5, h6]

theorem bindFinish_congr (a₁ a₂ : Actual) (h1 : a₁.pos = a₂.pos) (h2 : a₁.starArgs = a₂.starArgs)
    (h3 : a₁.starKw = a₂.starKw) (h7 : a₁.kwReq = a₂.kwReq)
    (h6 : ∀ cons : List String, (a₁.kws.filter fun k => !cons.contains k.1).isEmpty
        = (a₂.kws.filter fun k => !cons.contains k.1).isEmpty)
    (st : BindSt) : bindFinish a₁ st = bindFinish a₂ st := by
  unfold bindFinish
  simp only [h1, h2, h3, h7, h6]

/-- Two plain actuals that differ only in the order of the keyword table get the same result
(verdict and bound positions) from the binder, for every parameter list. -/
theorem pyaBind_perm (sig : List Param) (a₁ a₂ : Actual) (hp1 : a₁.plain = true)
    (hp2 : a₂.plain = true) (h1 : a₁.pos = a₂.pos) (h2 : a₁.starArgs = a₂.starArgs)
    (h3 : a₁.starKw = a₂.starKw) (h7 : a₁.kwReq = a₂.kwReq) (hk : a₁.kws.Perm a₂.kws) :
    pyaBind sig a₁ = pyaBind sig a₂ := by
  have hn : a₁.names.Perm a₂.names := hk.map _
  have h4 : ∀ n, a₁.hasKw n = a₂.hasKw n := fun n => by
    rw [hasKw_eq, hasKw_eq]; exact hn.contains_eq
  have h5 : ∀ n, a₁.kwProvided n = a₂.kwProvided n := fun n => by
    rw [plain_kwProvided hp1, plain_kwProvided hp2]
  have h6 : ∀ cons : List String, (a₁.kws.filter fun k => !cons.contains k.1).isEmpty
      = (a₂.kws.filter fun k => !cons.contains k.1).isEmpty := fun cons => by
    rw [kws_filter_isEmpty, kws_filter_isEmpty]; exact all_perm hn _
  have hstep : bindStep a₁ = bindStep a₂ := by
    funext st p; exact bindStep_congr a₁ a₂ h1 h2 h3 h4 h5 h6 st p
  have hfin : bindFinish a₁ = bindFinish a₂ := by
    funext st; exact bindFinish_congr a₁ a₂ h1 h2 h3 h7 h6 st
  unfold pyaBind
  rw [hstep, hfin]

/-! ### `preprocess` of `pre ++ K` for a keyword section `K` -/

def PreSt.toActual (s : PreSt) : Actual :=
  { pos := s.pos, starArgs := s.starArgs, kws := s.kws, starKw := s.starKw,
    kwReq := s.kwReqs.any id }

theorem preprocess_append (pre K : List Arg) :
    preprocess (pre ++ K) =
      ((pre.foldlM preStep ({} : PreSt)).bind fun s => K.foldlM preStep s).map PreSt.toActual := by
  unfold preprocess
  rw [List.foldlM_append]
  rfl

theorem secNames_perm {K₁ K₂ : List Arg} (h : K₁.Perm K₂) : (secNames K₁).Perm (secNames K₂) :=
  h.flatMap_right _

/-- The whole pipeline gives the same result for two orders of the keyword section. -/
theorem pyaCall_kwsec_perm (sig : List Param) (pre K₁ K₂ : List Arg) (h : K₁.Perm K₂)
    (hK : ∀ x ∈ K₁, x.isKwItem = true) :
    pyaCall sig (pre ++ K₁) = pyaCall sig (pre ++ K₂) := by
  have hK2 : ∀ x ∈ K₂, x.isKwItem = true := fun x hx => hK x (h.mem_iff.mpr hx)
  have hs := secNames_perm h
  cases hpre : pre.foldlM preStep ({} : PreSt) with
  | none => simp [pyaCall, preprocess_append, hpre]
  | some s =>
    have e1 := kwsec_fold K₁ hK s
    have e2 := kwsec_fold K₂ hK2 s
    by_cases hc : (secNames K₁).Nodup ∧ ∀ n ∈ secNames K₁, n ∉ s.names
    · have hc2 : (secNames K₂).Nodup ∧ ∀ n ∈ secNames K₂, n ∉ s.names :=
        ⟨hs.nodup_iff.mp hc.1, fun n hn => hc.2 n (hs.mem_iff.mpr hn)⟩
      rw [if_pos hc] at e1
      rw [if_pos hc2] at e2
      have p1 : preprocess (pre ++ K₁) = (K₁.foldlM preStep s).map PreSt.toActual := by
        rw [preprocess_append, hpre]; rfl
      have p2 : preprocess (pre ++ K₂) = (K₂.foldlM preStep s).map PreSt.toActual := by
        rw [preprocess_append, hpre]; rfl
      rw [e1, Option.map_some] at p1
      rw [e2, Option.map_some] at p2
      unfold pyaCall
      rw [p1, p2]
      simp only [Option.bind_some]
      apply pyaBind_perm sig _ _ (preprocess_plain _ _ p1) (preprocess_plain _ _ p2)
      · rfl
      · rfl
      · simp only [PreSt.toActual]; rw [h.contains_eq]
      · simp only [PreSt.toActual]; rw [h.count_eq]
      · simp only [PreSt.toActual]
        exact List.Perm.append_left _ (hs.map _)
    · have hc2 : ¬ ((secNames K₂).Nodup ∧ ∀ n ∈ secNames K₂, n ∉ s.names) := fun hc2 =>
        hc ⟨hs.nodup_iff.mpr hc2.1, fun n hn => hc2.2 n (hs.mem_iff.mp hn)⟩
      rw [if_neg hc] at e1
      rw [if_neg hc2] at e2
      simp [pyaCall, preprocess_append, hpre, e1, e2]

/-! ### CPython's binder does not look at the order of the keyword names -/

theorem posFilled_perm (n : Nat) {ks ks' : List String} (h : ks.Perm ks') (b : Bool) :
    ∀ (ps : List P) (off : Nat), posFilled n ks b off ps = posFilled n ks' b off ps := by
  intro ps
  induction ps with
  | nil => intro off; rfl
  | cons p ps ih => intro off; simp only [posFilled, ih, h.contains_eq]

theorem cpyBind_perm (s : DefSig) (n : Nat) {ks ks' : List String} (h : ks.Perm ks') :
    cpyBind s ⟨n, ks⟩ = cpyBind s ⟨n, ks'⟩ := by
  unfold cpyBind
  simp only [posFilled_perm n h, all_perm h]
  have e1 : decide ks.Nodup = decide ks'.Nodup := by simp [h.nodup_iff]
  have e2 : (s.ko.all fun p => ks.contains p.name || p.dflt)
      = (s.ko.all fun p => ks'.contains p.name || p.dflt) := by
    congr 1; funext p; rw [h.contains_eq]
  rw [e1, e2]

theorem sum_perm {l₁ l₂ : List Nat} (h : l₁.Perm l₂) : l₁.sum = l₂.sum := by
  induction h with
  | nil => rfl
  | cons x _ ih => simp [ih]
  | swap x y l => simp; omega
  | trans _ _ ih1 ih2 => exact ih1.trans ih2

/-- CPython's verdict on a concrete syntactic call is invariant under any reordering of its
items (in particular of the keyword section). -/
theorem cpyCall_perm (s : DefSig) {c₁ c₂ : List Arg} (h : c₁.Perm c₂) :
    cpyCall s c₁ = cpyCall s c₂ := by
  unfold cpyCall cCallOf
  rw [sum_perm (h.map Arg.npos)]
  exact cpyBind_perm s _ (h.flatMap_right _)

theorem expands_perm {l₁ l₂ : List Arg} (h : l₁.Perm l₂) :
    ∀ c₁, Expands l₁ c₁ → ∃ c₂, Expands l₂ c₂ ∧ c₁.Perm c₂ := by
  induction h with
  | nil => intro c₁ h; exact ⟨c₁, h, List.Perm.refl _⟩
  | cons x _ ih =>
    intro c₁ h
    cases h with
    | cons hx hr =>
      obtain ⟨c₂, h2, hp⟩ := ih _ hr
      exact ⟨_ :: c₂, Expands.cons hx h2, hp.cons _⟩
  | swap x y l =>
    intro c₁ h
    cases h with
    | cons hy hr =>
      cases hr with
      | cons hx hr =>
        exact ⟨_, Expands.cons hx (Expands.cons hy hr), List.Perm.swap _ _ _⟩
  | trans _ _ ih1 ih2 =>
    intro c₁ h
    obtain ⟨c₂, h2, hp⟩ := ih1 _ h
    obtain ⟨c₃, h3, hp'⟩ := ih2 _ h2
    exact ⟨c₃, h3, hp.trans hp'⟩

theorem expands_append {l₁ l₂ : List Arg} : ∀ c, Expands (l₁ ++ l₂) c →
    ∃ c₁ c₂, c = c₁ ++ c₂ ∧ Expands l₁ c₁ ∧ Expands l₂ c₂ := by
  induction l₁ with
  | nil => intro c h; exact ⟨[], c, rfl, Expands.nil, h⟩
  | cons a l₁ ih =>
    intro c h
    cases h with
    | cons ha hr =>
      obtain ⟨c₁, c₂, rfl, h1, h2⟩ := ih _ hr
      exact ⟨_ :: c₁, c₂, rfl, Expands.cons ha h1, h2⟩

theorem expands_append_mk {l₁ l₂ c₁ c₂ : List Arg} (h1 : Expands l₁ c₁) (h2 : Expands l₂ c₂) :
    Expands (l₁ ++ l₂) (c₁ ++ c₂) := by
  induction h1 with
  | nil => exact h2
  | cons ha _ ih => exact Expands.cons ha ih

/-! ### A name supplied twice -/

theorem kwNames_isKwItem {a : Arg} {x : String} (h : x ∈ a.kwNames) : a.isKwItem = true := by
  cases a <;> simp [Arg.kwNames] at h <;> rfl

/-- One step of `preprocess_args` on an item of the keyword section. -/
theorem preStep_kwItem (s : PreSt) (a : Arg) (ha : a.isKwItem = true) :
    preStep s a =
      if a.preNames.Nodup ∧ ∀ n ∈ a.preNames, n ∉ s.names then
        some { s with kws := s.kws ++ a.preNames.map (·, true),
                      starKw := s.starKw || [a].contains .dstarUnk,
                      kwReqs := s.kwReqs ++ List.replicate ([a].count .dstarUnk) true }
      else none := by
  have := kwsec_fold [a] (by simpa using ha) s
  simpa [secNames] using this

theorem addPos_names (s s' : PreSt) (h : s.addPos = some s') : s'.names = s.names := by
  unfold PreSt.addPos at h
  split at h
  · simp at h
  · split at h <;> (simp at h; subst h; rfl)

theorem preStep_mono (x : String) (s : PreSt) (a : Arg) (s' : PreSt) (h : preStep s a = some s')
    (hx : x ∈ s.names) : x ∈ s'.names := by
  by_cases hk : a.isKwItem = true
  · rw [preStep_kwItem s a hk] at h
    split at h
    · simp at h; subst h; simp [PreSt.names] at hx ⊢; exact Or.inl hx
    · simp at h
  · cases a with
    | pos => rw [addPos_names s s' h]; exact hx
    | starLit n =>
      simp only [preStep] at h
      exact foldlM_inv (fun t => x ∈ t.names) (fun s _ => s.addPos)
        (fun t _ t' ht hi => by rw [addPos_names t t' ht]; exact hi) _ s s' h hx
    | starUnk =>
      simp only [preStep] at h
      split at h
      · simp at h
      · simp at h; subst h; exact hx
    | kw n => simp [Arg.isKwItem] at hk
    | dstarLit ns => simp [Arg.isKwItem] at hk
    | dstarUnk => simp [Arg.isKwItem] at hk

theorem preStep_adds (x : String) (s : PreSt) (a : Arg) (s' : PreSt) (h : preStep s a = some s')
    (hx : x ∈ a.kwNames) : x ∈ s'.names := by
  rw [preStep_kwItem s a (kwNames_isKwItem hx)] at h
  split at h
  · simp at h; subst h
    have := (preNames_perm a).mem_iff.mpr hx
    simp [PreSt.names]; exact Or.inr this
  · simp at h

theorem preStep_blocks (x : String) (s : PreSt) (b : Arg) (hx : x ∈ s.names)
    (hb : x ∈ b.kwNames) : preStep s b = none := by
  rw [preStep_kwItem s b (kwNames_isKwItem hb)]
  rw [if_neg]
  rintro ⟨_, h⟩
  exact h x ((preNames_perm b).mem_iff.mpr hb) hx

theorem preprocess_duplicate (A B C : List Arg) (a b : Arg) (x : String)
    (ha : x ∈ a.kwNames) (hb : x ∈ b.kwNames) : preprocess (A ++ a :: B ++ b :: C) = none := by
  unfold preprocess
  have e : A ++ a :: B ++ b :: C = (A ++ a :: B) ++ b :: C := by simp
  rw [e, List.foldlM_append]
  cases hL : (A ++ a :: B).foldlM preStep ({} : PreSt) with
  | none => simp
  | some t =>
    have hx : x ∈ t.names := by
      rw [List.foldlM_append] at hL
      cases hA : A.foldlM preStep ({} : PreSt) with
      | none => simp [hA] at hL
      | some sA =>
        simp only [hA, Option.bind_eq_bind, Option.bind_some, List.foldlM_cons] at hL
        cases hsa : preStep sA a with
        | none => simp [hsa] at hL
        | some sa =>
          simp only [hsa, Option.bind_some] at hL
          exact foldlM_inv (fun t => x ∈ t.names) preStep
            (fun t y t' ht hi => preStep_mono x t y t' ht hi) B sa t hL
            (preStep_adds x sA a sa hsa ha)
    simp [List.foldlM_cons, preStep_blocks x t b hx hb]

theorem cCallOf_duplicate (A B C : List Arg) (a b : Arg) (x : String)
    (ha : x ∈ a.kwNames) (hb : x ∈ b.kwNames) :
    ¬ (cCallOf (A ++ a :: B ++ b :: C)).kws.Nodup := by
  simp only [cCallOf, List.flatMap_append, List.flatMap_cons]
  intro h
  exact (List.nodup_append.mp h).2.2 x (by simp [ha]) x (by simp [hb]) rfl

theorem cpyBind_not_nodup (s : DefSig) (c : CCall) (h : ¬ c.kws.Nodup) : cpyBind s c = false := by
  unfold cpyBind; simp [h]

theorem argExp_kwNames {a c : Arg} (h : ArgExp a c) {x : String} (hx : x ∈ a.kwNames) :
    x ∈ c.kwNames := by
  cases h with
  | star m => simp [Arg.kwNames] at hx
  | dstar ds => simp [Arg.kwNames] at hx
  | same _ _ => exact hx

theorem expands_cons_inv {a : Arg} {R c : List Arg} (h : Expands (a :: R) c) :
    ∃ a' cR, c = a' :: cR ∧ ArgExp a a' ∧ Expands R cR := by
  cases h with
  | cons ha hr => exact ⟨_, _, rfl, ha, hr⟩

end Pya
