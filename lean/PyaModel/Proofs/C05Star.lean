import PyaModel.Proofs.C05
import PyaModel.Spec.Expand
/-!
# Proofs/C05Star — the binder on plain actuals with `*args` / `**kwargs` of unknown length

Same technique as Proofs/C05.lean: `starStep` is the normal form of `bindStep` on the
verdict-relevant state for a plain actual with star flags, segment lemmas give the closed
form `snf` of the verdict, and the two clauses of the property are proved against `snf`.
-/
namespace Pya

/-! ### Plain actuals -/

theorem hasKw_eq (a : Actual) (k : String) : a.hasKw k = a.names.contains k := by
  unfold Actual.hasKw Actual.names
  induction a.kws with
  | nil => simp
  | cons x xs ih => simp [List.any_cons, ih]; grind

theorem plain_pos {a : Actual} (h : a.plain = true) (i : Nat) : a.pos.getD i true = true := by
  simp only [Actual.plain, Bool.and_eq_true, List.all_eq_true] at h
  simp only [List.getD]
  cases hi : a.pos[i]? with
  | none => rfl
  | some b =>
    have := h.1.1 b (List.mem_of_getElem? hi)
    simpa using this

theorem plain_kwProvided {a : Actual} (h : a.plain = true) (k : String) :
    a.kwProvided k = true := by
  simp only [Actual.plain, Bool.and_eq_true, List.all_eq_true] at h
  unfold Actual.kwProvided
  split
  · rename_i x b hf
    have := h.1.2 _ (List.mem_of_find?_eq_some hf)
    simpa using this
  · rfl

theorem kws_filter_isEmpty (a : Actual) (cons : List String) :
    (a.kws.filter fun k => !cons.contains k.1).isEmpty
      = a.names.all (fun k => cons.contains k) := by
  unfold Actual.names
  induction a.kws with
  | nil => simp
  | cons k ks ih =>
    simp only [List.map_cons, List.filter_cons, List.all_cons]
    cases h : cons.contains k.1 <;> simp_all

theorem plain_nodup {a : Actual} (h : a.plain = true) : a.names.Nodup := by
  simp only [Actual.plain, Bool.and_eq_true, decide_eq_true_eq] at h
  exact h.2

/-! ### Normal-form layer -/

/-- `bindStep` on a plain actual with `n` positionals, keyword names `ks`, star flags
`sa` / `sk`, on the verdict-relevant state only. -/
def starStep (n : Nat) (ks : List String) (sa sk : Bool) (c : Core) (p : Param) : Option Core :=
  match p.kind with
  | .posOnly =>
    if c.posIdx < n then some { c with posIdx := c.posIdx + 1 }
    else if sa then some { c with sac := true }
    else if p.dflt then some c else none
  | .posOrKw =>
    if c.posIdx < n then
      if ks.contains p.name then none else some { c with posIdx := c.posIdx + 1 }
    else if sa then
      if ks.contains p.name then none
      else if sk then some { c with sac := true, skc := true }
      else some { c with sac := true }
    else if ks.contains p.name then some { c with consumed := p.name :: c.consumed }
    else if sk then some { c with skc := true }
    else if p.dflt then some c else none
  | .kwOnly =>
    if ks.contains p.name then some { c with consumed := p.name :: c.consumed }
    else if sk then some { c with skc := true, consumed := p.name :: c.consumed }
    else if p.dflt then some c else none
  | .varPos => some { c with sac := true, posIdx := max c.posIdx n }
  | .varKw => some { c with skc := true, xok := true }

theorem bindStep_simS (a : Actual) (hp : a.plain = true) (st : BindSt) (p : Param) :
    (bindStep a st p).map BindSt.core
      = starStep a.pos.length a.names a.starArgs a.starKw st.core p := by
  unfold bindStep starStep
  cases p.kind <;> simp only [plain_pos hp, plain_kwProvided hp, hasKw_eq]
    <;> grind [BindSt.core, BindSt.bind]

theorem fold_simS (a : Actual) (hp : a.plain = true) : ∀ (ps : List Param) (st : BindSt),
    (ps.foldlM (bindStep a) st).map BindSt.core
      = ps.foldlM (starStep a.pos.length a.names a.starArgs a.starKw) st.core := by
  intro ps
  induction ps with
  | nil => intro st; simp
  | cons p ps ih =>
    intro st
    simp only [List.foldlM_cons]
    have h := bindStep_simS a hp st p
    cases hb : bindStep a st p with
    | none => simp [hb] at h; simp [← h]
    | some st' => simp [hb] at h; simp [← h, ih]

/-! ### Segment lemmas -/

/-- Success condition of the positional-or-keyword segment. -/
def pkOkS (n : Nat) (ks : List String) (sa sk : Bool) : Nat → List P → Bool
  | _, [] => true
  | off, p :: ps =>
    (if off < n then !ks.contains p.name
     else if sa then !ks.contains p.name
     else (ks.contains p.name || sk || p.dflt)) && pkOkS n ks sa sk (off + 1) ps

/-- Some positional-or-keyword parameter at an absolute slot `≥ n` is not named by a keyword. -/
def pkFree (n : Nat) (ks : List String) : Nat → List P → Bool
  | _, [] => false
  | off, p :: ps => (decide (n ≤ off) && !ks.contains p.name) || pkFree n ks (off + 1) ps

def koOkS (ks : List String) (sk : Bool) (ko : List P) : Bool :=
  ko.all fun p => ks.contains p.name || sk || p.dflt

def koConsumedS (ks : List String) (sk : Bool) : List P → List String → List String
  | [], acc => acc
  | p :: ps, acc =>
    if ks.contains p.name || sk then koConsumedS ks sk ps (p.name :: acc)
    else koConsumedS ks sk ps acc

theorem run_poS (n ks) (sa sk : Bool) : ∀ (ps : List P) (off : Nat) (c : Core),
    c.posIdx = min n off → c.sac = (sa && decide (n < off)) →
    (ps.map (P.toParam .posOnly)).foldlM (starStep n ks sa sk) c =
      if sa || posFilled n ks false off ps then
        some { c with posIdx := min n (off + ps.length),
                      sac := sa && decide (n < off + ps.length) }
      else none := by
  intro ps
  induction ps with
  | nil => intro off c h h2; simp [posFilled, ← h, ← h2]
  | cons p ps ih =>
    intro off c h h2
    simp only [List.map_cons, List.foldlM_cons, posFilled, starStep, P.toParam]
    by_cases hlt : off < n
    · have h1 : c.posIdx < n := by omega
      simp [h1, hlt]
      rw [ih (off + 1) _ (by simp; omega) (by grind)]
      grind
    · have h1 : ¬ c.posIdx < n := by omega
      cases sa with
      | true =>
        simp [h1]
        rw [ih (off + 1) _ (by simp; omega) (by grind)]
        simp; grind
      | false =>
        by_cases hd : p.dflt = true
        · simp [h1, hlt, hd]
          rw [ih (off + 1) c (by omega) (by grind)]
          simp; grind
        · simp [h1, hlt, hd]

theorem run_pkS (n ks) (sa sk : Bool) : ∀ (ps : List P) (off : Nat) (c : Core),
    c.posIdx = min n off → c.sac = (sa && decide (n < off)) →
    (ps.map (P.toParam .posOrKw)).foldlM (starStep n ks sa sk) c =
      if pkOkS n ks sa sk off ps then
        some { c with posIdx := min n (off + ps.length),
                      sac := sa && decide (n < off + ps.length),
                      skc := c.skc || (sk && pkFree n ks off ps),
                      consumed := if sa then c.consumed else pkConsumed n ks off ps c.consumed }
      else none := by
  intro ps
  induction ps with
  | nil => intro off c h h2; simp [pkOkS, pkFree, pkConsumed, ← h, ← h2]
  | cons p ps ih =>
    intro off c h h2
    simp only [List.map_cons, List.foldlM_cons, pkOkS, pkFree, pkConsumed, starStep, P.toParam]
    by_cases hk : p.name ∈ ks
    · by_cases hlt : off < n
      · have h1 : c.posIdx < n := by omega
        simp [h1, hlt, hk]
      · have h1 : ¬ c.posIdx < n := by omega
        cases sa with
        | true => simp [h1, hlt, hk]
        | false =>
          simp [h1, hlt, hk]
          rw [ih (off + 1) _ (by simp; omega) (by grind)]
          simp; grind
    · by_cases hlt : off < n
      · have h1 : c.posIdx < n := by omega
        simp [h1, hlt, hk]
        rw [ih (off + 1) _ (by simp; omega) (by grind)]
        simp; grind
      · have h1 : ¬ c.posIdx < n := by omega
        have hle : n ≤ off := by omega
        cases sa with
        | true =>
          cases sk with
          | true =>
            simp [h1, hlt, hk, hle]
            rw [ih (off + 1) _ (by simp; omega) (by grind)]
            simp; grind
          | false =>
            simp [h1, hlt, hk]
            rw [ih (off + 1) _ (by simp; omega) (by grind)]
            simp; grind
        | false =>
          cases sk with
          | true =>
            simp [h1, hlt, hk, hle]
            rw [ih (off + 1) _ (by simp; omega) (by grind)]
            simp; grind
          | false =>
            by_cases hd : p.dflt = true
            · simp [h1, hlt, hk, hd]
              rw [ih (off + 1) c (by omega) (by grind)]
              simp; grind
            · simp [h1, hlt, hk, hd]

theorem run_koS (n ks) (sa sk : Bool) : ∀ (ps : List P) (c : Core),
    (ps.map (P.toParam .kwOnly)).foldlM (starStep n ks sa sk) c =
      if koOkS ks sk ps then
        some { c with consumed := koConsumedS ks sk ps c.consumed,
                      skc := c.skc || (sk && ps.any fun p => !ks.contains p.name) }
      else none := by
  intro ps
  induction ps with
  | nil => intro c; simp [koOkS, koConsumedS]
  | cons p ps ih =>
    intro c
    simp only [List.map_cons, List.foldlM_cons, koOkS, koConsumedS, starStep, P.toParam,
      List.all_cons, List.any_cons]
    by_cases hk : p.name ∈ ks
    · simp [hk]
      rw [ih _]; simp [koOkS]
    · cases sk with
      | true =>
        simp [hk]
        rw [ih _]; simp [koOkS]
      | false =>
        by_cases hd : p.dflt = true
        · simp [hk, hd]
          rw [ih c]; simp [koOkS]
        · simp [hk, hd]

/-! ### Assembling the verdict -/

def finishOkS (n : Nat) (ks : List String) (sa sk kwReq : Bool) (c : Core) : Bool :=
  (c.sac || c.posIdx == n) && (c.xok || ks.all (fun k => c.consumed.contains k)) &&
  (c.sac || !sa) && (c.skc || !(sk && kwReq))

theorem finish_simS (a : Actual) (st : BindSt) :
    (bindFinish a st).isSome
      = finishOkS a.pos.length a.names a.starArgs a.starKw a.kwReq st.core := by
  unfold bindFinish finishOkS
  simp only [kws_filter_isEmpty, BindSt.core]
  generalize (a.names.all fun k => st.consumed.contains k) = b
  by_cases hn : st.posIdx = a.pos.length <;> cases st.sac <;> cases st.skc <;> cases st.xok <;>
    cases b <;> cases a.starArgs <;> cases a.starKw <;> cases a.kwReq <;> simp [hn]

theorem pyaBind_isSomeS (sig : List Param) (a : Actual) (hp : a.plain = true) :
    (pyaBind sig a).isSome =
      match sig.foldlM (starStep a.pos.length a.names a.starArgs a.starKw)
          ⟨0, [], false, false, false⟩ with
      | none => false
      | some c => finishOkS a.pos.length a.names a.starArgs a.starKw a.kwReq c := by
  unfold pyaBind
  have h := fold_simS a hp sig ({} : BindSt)
  simp only [BindSt.core] at h
  rw [← h]
  cases hf : sig.foldlM (bindStep a) ({} : BindSt) with
  | none => simp
  | some st => simp [finish_simS, BindSt.core]

/-- Closed form of the binder's verdict on a plain actual with `n` positionals, keyword
names `ks`, star flags `sa` / `sk` and `kwReq`. -/
def snf (s : DefSig) (n : Nat) (ks : List String) (sa sk kwReq : Bool) : Bool :=
  (sa || posFilled n ks false 0 s.po) && pkOkS n ks sa sk s.po.length s.pk &&
  koOkS ks sk s.ko &&
  (s.vp.isSome || (if sa then decide (n < s.po.length + s.pk.length)
                   else decide (n ≤ s.po.length + s.pk.length))) &&
  (s.vk.isSome ||
    ks.all (fun k => (koConsumedS ks sk s.ko
      (if sa then [] else pkConsumed n ks s.po.length s.pk [])).contains k)) &&
  (s.vk.isSome || !(sk && kwReq) || pkFree n ks s.po.length s.pk ||
    s.ko.any fun p => !ks.contains p.name)

theorem pya_eq_snf (s : DefSig) (a : Actual) (hp : a.plain = true) :
    (pyaBind s.params a).isSome
      = snf s a.pos.length a.names a.starArgs a.starKw a.kwReq := by
  rw [pyaBind_isSomeS _ _ hp]
  generalize a.pos.length = n
  generalize a.names = ks
  generalize a.starArgs = sa
  generalize a.starKw = sk
  generalize a.kwReq = kr
  unfold DefSig.params snf
  simp only [List.foldlM_append]
  rw [run_poS n ks sa sk s.po 0 _ (by simp) (by simp)]
  by_cases h1 : (sa || posFilled n ks false 0 s.po) = true
  · simp only [h1, if_true, Option.bind_eq_bind, Option.bind_some]
    rw [run_pkS n ks sa sk s.pk s.po.length _ (by simp) (by simp)]
    by_cases h2 : pkOkS n ks sa sk s.po.length s.pk = true
    · simp only [h2, if_true, Option.bind_some]
      cases hvp : s.vp <;> cases hvk : s.vk <;>
        simp [starStep, run_koS, finishOkS] <;>
        by_cases h3 : koOkS ks sk s.ko = true <;> simp [h3] <;>
        cases sa <;> cases sk <;> cases kr <;> simp <;> grind
    · simp [h2]
  · simp [h1]

/-! ### Well-formedness, and the exception class in recursive form -/

theorem wf_parts (s : DefSig) (h : s.WF) :
    (s.pk.map (·.name)).Nodup ∧ (s.ko.map (·.name)).Nodup ∧
    ∀ x ∈ s.pk.map (·.name), x ∉ s.ko.map (·.name) := by
  unfold DefSig.WF DefSig.names DefSig.params at h
  simp only [List.map_append, List.map_map, List.nodup_append] at h
  obtain ⟨⟨⟨⟨_, hpk, _⟩, _, _⟩, hko, h3⟩, _, _⟩ := h
  refine ⟨by simpa [Function.comp_def, P.toParam] using hpk,
          by simpa [Function.comp_def, P.toParam] using hko, ?_⟩
  intro x hx hx2
  simp only [List.mem_map] at hx hx2
  obtain ⟨p, hp, rfl⟩ := hx
  obtain ⟨q, hq, hqe⟩ := hx2
  refine h3 p.name ?_ q.name ?_ hqe.symm
  · simp [P.toParam]; exact Or.inr (Or.inl ⟨p, hp, rfl⟩)
  · simp [P.toParam]; exact ⟨q, hq, rfl⟩

/-- Some positional-or-keyword parameter at an absolute slot `> n` is named by a keyword. -/
def pkLate (n : Nat) (ks : List String) : Nat → List P → Bool
  | _, [] => false
  | off, p :: ps => (decide (n < off) && ks.contains p.name) || pkLate n ks (off + 1) ps

theorem params_filter_pos (s : DefSig) :
    (s.params.filter fun p => p.kind == .posOnly || p.kind == .posOrKw)
      = s.po.map (P.toParam .posOnly) ++ s.pk.map (P.toParam .posOrKw) := by
  unfold DefSig.params
  simp only [List.filter_append, List.filter_map]
  have e1 : s.po.filter ((fun p => p.kind == .posOnly || p.kind == .posOrKw) ∘ P.toParam .posOnly)
      = s.po := List.filter_eq_self.mpr (by simp [P.toParam])
  have e2 : s.pk.filter ((fun p => p.kind == .posOnly || p.kind == .posOrKw) ∘ P.toParam .posOrKw)
      = s.pk := List.filter_eq_self.mpr (by simp [P.toParam])
  have e3 : s.ko.filter ((fun p => p.kind == .posOnly || p.kind == .posOrKw) ∘ P.toParam .kwOnly)
      = [] := List.filter_eq_nil_iff.mpr (by simp [P.toParam])
  rw [e1, e2, e3]
  cases s.vp <;> cases s.vk <;> simp

theorem zipIdx_pkLate (n : Nat) (a : Actual) : ∀ (ps : List P) (off : Nat),
    ((ps.map (P.toParam .posOrKw)).zipIdx off).any
        (fun x => x.1.kind == .posOrKw && decide (n < x.2) && a.hasKw x.1.name)
      = pkLate n a.names off ps := by
  intro ps
  induction ps with
  | nil => intro off; simp [pkLate]
  | cons p ps ih =>
    intro off
    simp only [List.map_cons, List.zipIdx_cons, List.any_cons, pkLate]
    rw [ih]
    simp [P.toParam, hasKw_eq]

theorem D05_eq (s : DefSig) (a : Actual) :
    D05_starThenKw s.params a
      = (a.starArgs && pkLate a.pos.length a.names s.po.length s.pk) := by
  unfold D05_starThenKw
  simp only [params_filter_pos, List.zipIdx_append, List.any_append]
  have e : ((s.po.map (P.toParam .posOnly)).zipIdx 0).any
      (fun x => x.1.kind == .posOrKw && decide (a.pos.length < x.2) && a.hasKw x.1.name) = false := by
    rw [List.any_eq_false]
    intro x hm
    have := List.mem_zipIdx hm
    have hk : x.1.kind = .posOnly := by rw [this.2.2]; simp [P.toParam]
    simp [hk]
  have := zipIdx_pkLate a.pos.length a s.pk (0 + (s.po.map (P.toParam .posOnly)).length)
  simp at this
  simp [e, this]

/-! ### Clause (B): a binding non-empty expansion forces acceptance (outside `starThenKw`) -/

theorem posFilled_irrel (n : Nat) (ks ks' : List String) : ∀ (ps : List P) (off : Nat),
    posFilled n ks false off ps = posFilled n ks' false off ps := by
  intro ps
  induction ps with
  | nil => intro off; rfl
  | cons p ps ih => intro off; simp [posFilled, ih (off + 1)]

theorem mem_koConsumedS (ks) (sk : Bool) : ∀ (ps : List P) (acc : List String) (k : String),
    k ∈ koConsumedS ks sk ps acc ↔
      k ∈ acc ∨ ((k ∈ ks ∨ sk = true) ∧ ps.any (·.name == k) = true) := by
  intro ps
  induction ps with
  | nil => intro acc k; simp [koConsumedS]
  | cons p ps ih =>
    intro acc k
    simp only [koConsumedS]
    by_cases hk : p.name ∈ ks
    · simp [hk, ih]; grind
    · cases sk with
      | true => simp [ih]; grind
      | false => simp [hk, ih]; grind

theorem pkOkS_of_pkOk (n N : Nat) (ks extra : List String) (sa sk : Bool)
    (hsa : sa = true → n < N) (hnsa : sa = false → N = n) (hsk : sk = false → extra = []) :
    ∀ (ps : List P) (off : Nat), pkOk N (ks ++ extra) off ps = true →
      (sa = true → pkLate n ks off ps = false) → pkOkS n ks sa sk off ps = true := by
  intro ps
  induction ps with
  | nil => intro off _ _; rfl
  | cons p ps ih =>
    intro off h hl
    simp only [pkOk, Bool.and_eq_true] at h
    simp only [pkLate, Bool.or_eq_false_iff] at hl
    simp only [pkOkS, Bool.and_eq_true]
    refine ⟨?_, ih (off + 1) h.2 (fun e => (hl e).2)⟩
    have h1 := h.1
    cases sa with
    | true =>
      have := hsa rfl
      have hl1 := (hl rfl).1
      by_cases hlt : off < n
      · have : off < N := by omega
        simp_all
      · by_cases hlt2 : off < N
        · simp_all
        · have : n < off := by omega
          simp_all
    | false =>
      have := hnsa rfl
      subst this
      by_cases hlt : off < N
      · simp_all
      · cases sk with
        | true => simp [hlt]
        | false => simp [hsk rfl] at h1; simp_all

theorem koOkS_of_koOk (ks extra : List String) (sk : Bool) (hsk : sk = false → extra = [])
    (ko : List P) (h : koOk (ks ++ extra) ko = true) : koOkS ks sk ko = true := by
  unfold koOk at h
  unfold koOkS
  rw [List.all_eq_true] at h ⊢
  intro p hp
  have := h p hp
  cases sk with
  | true => simp
  | false => simpa [hsk rfl] using this

theorem pkHas_late (n N : Nat) (ks : List String) (k : String) (hk : k ∈ ks) (hN : n < N) :
    ∀ (ps : List P) (off : Nat), pkHas N off ps k = true → pkLate n ks off ps = true := by
  intro ps
  induction ps with
  | nil => intro off h; simp [pkHas] at h
  | cons p ps ih =>
    intro off h
    simp only [pkHas, Bool.or_eq_true, Bool.and_eq_true, decide_eq_true_eq, beq_iff_eq] at h
    simp only [pkLate, Bool.or_eq_true, Bool.and_eq_true, decide_eq_true_eq]
    rcases h with ⟨h1, rfl⟩ | h
    · left; exact ⟨by omega, by simpa using hk⟩
    · right; exact ih _ h

theorem pkHas_free (n N : Nat) (ks : List String) (k : String) (hk : k ∉ ks) (hN : n ≤ N) :
    ∀ (ps : List P) (off : Nat), pkHas N off ps k = true → pkFree n ks off ps = true := by
  intro ps
  induction ps with
  | nil => intro off h; simp [pkHas] at h
  | cons p ps ih =>
    intro off h
    simp only [pkHas, Bool.or_eq_true, Bool.and_eq_true, decide_eq_true_eq, beq_iff_eq] at h
    simp only [pkFree, Bool.or_eq_true, Bool.and_eq_true, decide_eq_true_eq]
    rcases h with ⟨h1, rfl⟩ | h
    · left; exact ⟨by omega, by simpa using hk⟩
    · right; exact ih _ h

/-- The consumed-keyword condition of `nf`, in membership form. -/
theorem nf_consumed_iff (s : DefSig) (N : Nat) (K : List String) :
    (K.all fun k => (koConsumed K s.ko (pkConsumed N K s.po.length s.pk [])).contains k) = true ↔
      ∀ k ∈ K, pkHas N s.po.length s.pk k = true ∨ s.ko.any (·.name == k) = true := by
  simp only [List.all_eq_true, List.contains_eq_mem, decide_eq_true_eq, mem_koConsumed,
    mem_pkConsumed, List.not_mem_nil, false_or]
  constructor
  · intro h k hk
    rcases h k hk with h | h
    · exact Or.inl h.2
    · exact Or.inr h.2
  · intro h k hk
    rcases h k hk with h | h
    · exact Or.inl ⟨hk, h⟩
    · exact Or.inr ⟨hk, h⟩

theorem snf_of_nf (s : DefSig) (n k : Nat) (ks extra : List String) (sa sk kr : Bool)
    (hk0 : sa = false → k = 0) (hk1 : sa = true → 1 ≤ k)
    (he0 : sk = false → extra = []) (he1 : sk = true → extra ≠ [])
    (hdis : ∀ e ∈ extra, e ∉ ks)
    (hD : (sa && pkLate n ks s.po.length s.pk) = false)
    (h : nf s (n + k) (ks ++ extra) = true) : snf s n ks sa sk kr = true := by
  unfold nf at h
  simp only [Bool.and_eq_true, Bool.or_eq_true, decide_eq_true_eq, nf_consumed_iff] at h
  obtain ⟨⟨⟨⟨h1, h2⟩, h3⟩, h4⟩, h5⟩ := h
  have hpk := pkOkS_of_pkOk n (n + k) ks extra sa sk (fun e => by have := hk1 e; omega)
    (fun e => by have := hk0 e; omega) he0 s.pk s.po.length h2
    (fun e => by simpa [e] using hD)
  have hko := koOkS_of_koOk ks extra sk he0 s.ko h3
  unfold snf
  simp only [Bool.and_eq_true, Bool.or_eq_true, hpk, hko, and_true]
  refine ⟨⟨⟨?_, ?_⟩, ?_⟩, ?_⟩
  · cases sa with
    | true => simp
    | false =>
      right
      have := hk0 rfl; subst this
      rw [posFilled_irrel n ks (ks ++ extra)]; exact h1
  · rcases h4 with h4 | h4
    · exact Or.inl h4
    · right
      cases sa with
      | true => have := hk1 rfl; simp; omega
      | false => have := hk0 rfl; simp; omega
  · rcases h5 with h5 | h5
    · exact Or.inl h5
    · right
      rw [List.all_eq_true]
      intro x hx
      simp only [List.contains_eq_mem, decide_eq_true_eq, mem_koConsumedS]
      rcases h5 x (List.mem_append_left _ hx) with h | h
      · cases sa with
        | true =>
          have := hk1 rfl
          have := pkHas_late n (n + k) ks x hx (by omega) s.pk s.po.length h
          simp [this] at hD
        | false =>
          have := hk0 rfl; subst this
          left; simp only [if_false, Bool.false_eq_true, mem_pkConsumed]
          exact Or.inr ⟨hx, h⟩
      · exact Or.inr ⟨Or.inl hx, h⟩
  · cases hsk : sk with
    | false => simp
    | true =>
      have hne := he1 hsk
      obtain ⟨e, es, rfl⟩ := List.exists_cons_of_ne_nil hne
      have hen : e ∉ ks := hdis e (by simp)
      rcases h5 with h5 | h5
      · exact Or.inl (Or.inl (Or.inl h5))
      · rcases h5 e (by simp) with h | h
        · exact Or.inl (Or.inr (pkHas_free n (n + k) ks e hen (by omega) s.pk s.po.length h))
        · right
          rw [List.any_eq_true] at h ⊢
          obtain ⟨p, hp, hpe⟩ := h
          refine ⟨p, hp, ?_⟩
          have : p.name = e := by simpa using hpe
          simp [this, hen]

/-! ### Clause (A): acceptance yields a binding expansion -/

theorem need_le_length : ∀ ps : List P, need ps ≤ ps.length := by
  intro ps
  induction ps with
  | nil => simp [need]
  | cons p ps ih => simp only [need, List.length_cons]; split <;> omega

theorem need_append (xs ys : List P) :
    need (xs ++ ys) = if need ys = 0 then need xs else xs.length + need ys := by
  induction xs with
  | nil => simp [need]
  | cons p xs ih =>
    simp only [List.cons_append, need, ih, List.length_cons]
    by_cases h : need ys = 0
    · simp [h]
    · simp [h]; omega

theorem posFilled_of_need (N : Nat) (K : List String) (byKw : Bool) : ∀ (ps : List P) (off : Nat),
    (need ps = 0 ∨ off + need ps ≤ N) → posFilled N K byKw off ps = true := by
  intro ps
  induction ps with
  | nil => intro off _; rfl
  | cons p ps ih =>
    intro off h
    simp only [need] at h
    simp only [posFilled, Bool.and_eq_true, Bool.or_eq_true, decide_eq_true_eq]
    by_cases hc : need ps = 0 ∧ p.dflt = true
    · exact ⟨Or.inr hc.2, ih _ (Or.inl hc.1)⟩
    · simp only [hc, if_false] at h
      have : off + (need ps + 1) ≤ N := by omega
      exact ⟨Or.inl (Or.inl (by omega)), ih _ (Or.inr (by omega))⟩

theorem pkOk_of_need (N : Nat) (K : List String) : ∀ (ps : List P) (off : Nat),
    (∀ p ∈ ps, p.name ∉ K) → (need ps = 0 ∨ off + need ps ≤ N) → pkOk N K off ps = true := by
  intro ps
  induction ps with
  | nil => intro off _ _; rfl
  | cons p ps ih =>
    intro off hK h
    simp only [need] at h
    have hp : p.name ∉ K := hK p (by simp)
    have hK' : ∀ q ∈ ps, q.name ∉ K := fun q hq => hK q (by simp [hq])
    simp only [pkOk, Bool.and_eq_true]
    by_cases hc : need ps = 0 ∧ p.dflt = true
    · refine ⟨?_, ih _ hK' (Or.inl hc.1)⟩
      split <;> simp [hp, hc.2]
    · simp only [hc, if_false] at h
      have : off + (need ps + 1) ≤ N := by omega
      refine ⟨?_, ih _ hK' (Or.inr (by omega))⟩
      have : off < N := by omega
      simp [this, hp]

theorem pkOkS_true_notin (n : Nat) (ks : List String) (sk : Bool) : ∀ (ps : List P) (off : Nat),
    pkOkS n ks true sk off ps = true → ∀ p ∈ ps, p.name ∉ ks := by
  intro ps
  induction ps with
  | nil => intro off _ p hp; simp at hp
  | cons q ps ih =>
    intro off h p hp
    simp only [pkOkS, Bool.and_eq_true] at h
    rcases List.mem_cons.mp hp with rfl | hp
    · have := h.1; split at this <;> simpa using this
    · exact ih _ h.2 p hp

theorem reqPk_sublist (n : Nat) (ks : List String) : ∀ (ps : List P) (off : Nat),
    (reqPk n ks off ps).Sublist (ps.map (·.name)) := by
  intro ps
  induction ps with
  | nil => intro off; simp [reqPk]
  | cons p ps ih =>
    intro off
    simp only [reqPk, List.map_cons]
    split
    · exact (ih _).cons_cons _
    · exact (ih _).cons _

theorem mem_reqPk (n : Nat) (ks : List String) (e : String) : ∀ (ps : List P) (off : Nat),
    e ∈ reqPk n ks off ps → e ∉ ks ∧ pkHas n off ps e = true := by
  intro ps
  induction ps with
  | nil => intro off h; simp [reqPk] at h
  | cons p ps ih =>
    intro off h
    simp only [reqPk] at h
    simp only [pkHas, Bool.or_eq_true, Bool.and_eq_true, decide_eq_true_eq, beq_iff_eq]
    split at h
    · rename_i hc
      rcases List.mem_cons.mp h with rfl | h
      · exact ⟨hc.2.1, Or.inl ⟨hc.1, rfl⟩⟩
      · exact ⟨(ih _ h).1, Or.inr (ih _ h).2⟩
    · exact ⟨(ih _ h).1, Or.inr (ih _ h).2⟩

theorem reqKo_sublist (ks : List String) (ko : List P) :
    (reqKo ks ko).Sublist (ko.map (·.name)) :=
  (List.filter_sublist).map _

theorem mem_reqKo (ks : List String) (ko : List P) (e : String) :
    e ∈ reqKo ks ko ↔ ∃ p ∈ ko, p.name = e ∧ e ∉ ks ∧ p.dflt = false := by
  simp only [reqKo, List.mem_map, List.mem_filter, Bool.and_eq_true, Bool.not_eq_true',
    List.contains_eq_mem, decide_eq_false_iff_not]
  constructor
  · rintro ⟨p, ⟨hp, h1, h2⟩, rfl⟩; exact ⟨p, hp, rfl, h1, h2⟩
  · rintro ⟨p, hp, rfl, h1, h2⟩; exact ⟨p, ⟨hp, h1, h2⟩, rfl⟩

/-- Without `*args`: the success condition of the pk segment carries over to the call
extended by keyword names `E`, provided `E` contains the required unfilled pk names (when
`**kwargs` is present) and otherwise only names foreign to the remaining pk parameters. -/
theorem pkOk_of_pkOkS (n : Nat) (ks E : List String) (sk : Bool) :
    ∀ (ps : List P) (off : Nat) (R : List String), (ps.map (·.name)).Nodup →
      (∀ e ∈ E, e ∈ reqPk n ks off ps ∨ e ∈ R) →
      (sk = true → ∀ e ∈ reqPk n ks off ps, e ∈ E) →
      (∀ p ∈ ps, p.name ∉ R) →
      pkOkS n ks false sk off ps = true → pkOk n (ks ++ E) off ps = true := by
  intro ps
  induction ps with
  | nil => intro off R _ _ _ _ _; rfl
  | cons p ps ih =>
    intro off R hnd ha hb hR h
    simp only [List.map_cons, List.nodup_cons] at hnd
    simp only [pkOkS, Bool.and_eq_true] at h
    simp only [pkOk, Bool.and_eq_true]
    have hpR : p.name ∉ R := hR p (by simp)
    have hsub := reqPk_sublist n ks ps (off + 1)
    have hpt : p.name ∉ reqPk n ks (off + 1) ps := fun hm => hnd.1 (hsub.subset hm)
    refine ⟨?_, ih (off + 1) (p.name :: R) hnd.2 ?_ ?_ ?_ h.2⟩
    · have h1 := h.1
      by_cases hlt : off < n
      · simp only [hlt, if_true] at h1 ⊢
        have hpE : p.name ∉ E := by
          intro hm
          rcases ha _ hm with hm | hm
          · simp only [reqPk] at hm
            have : ¬ n ≤ off := by omega
            simp [this] at hm
            exact hpt hm
          · exact hpR hm
        simpa [hpE] using h1
      · simp only [hlt, if_false, Bool.false_eq_true] at h1 ⊢
        by_cases hk : p.name ∈ ks
        · simp [hk]
        · by_cases hd : p.dflt = true
          · simp [hd]
          · cases sk with
            | false => simp [hk, hd] at h1
            | true =>
              have : p.name ∈ E := hb rfl _ (by
                simp only [reqPk]
                have : n ≤ off := by omega
                simp [this, hk, hd])
              simp [this]
    · intro e he
      rcases ha e he with hm | hm
      · simp only [reqPk] at hm
        split at hm
        · rcases List.mem_cons.mp hm with rfl | hm
          · exact Or.inr (by simp)
          · exact Or.inl hm
        · exact Or.inl hm
      · exact Or.inr (by simp [hm])
    · intro hs e he
      refine hb hs e ?_
      simp only [reqPk]
      split
      · exact List.mem_cons_of_mem _ he
      · exact he
    · intro q hq
      simp only [List.mem_cons, not_or]
      refine ⟨?_, hR q (by simp [hq])⟩
      intro e
      exact hnd.1 (by rw [← e]; exact List.mem_map_of_mem hq)

theorem koOk_of_koOkS (ks E : List String) (sk : Bool) (ko : List P)
    (hE : sk = true → ∀ e ∈ reqKo ks ko, e ∈ E) (h : koOkS ks sk ko = true) :
    koOk (ks ++ E) ko = true := by
  unfold koOkS at h
  unfold koOk
  rw [List.all_eq_true] at h ⊢
  intro p hp
  have h1 := h p hp
  by_cases hk : p.name ∈ ks
  · simp [hk]
  · by_cases hd : p.dflt = true
    · simp [hd]
    · cases sk with
      | false => simp [hk, hd] at h1
      | true =>
        have : p.name ∈ E := hE rfl _ ((mem_reqKo ks ko p.name).mpr ⟨p, hp, rfl, hk, by simpa using hd⟩)
        simp [this]

/-- With `*args` present: `max n (need ..)` positionals and the required keyword-only names. -/
theorem nf_of_snf_star (s : DefSig) (hwf : s.WF) (n : Nat) (ks : List String) (hks : ks.Nodup)
    (sk kr : Bool) (h : snf s n ks true sk kr = true) :
    (ks ++ (if sk then reqKo ks s.ko else [])).Nodup ∧
    nf s (n + (need (s.po ++ s.pk) - n)) (ks ++ (if sk then reqKo ks s.ko else [])) = true := by
  obtain ⟨hpk, hko, hdis⟩ := wf_parts s hwf
  generalize hE : (if sk then reqKo ks s.ko else []) = E
  have hEsub : ∀ e ∈ E, e ∈ reqKo ks s.ko := by
    intro e he; subst hE; cases sk <;> simp_all
  have hEko : ∀ e ∈ E, e ∉ ks ∧ e ∈ s.ko.map (·.name) := fun e he =>
    ⟨by have := (mem_reqKo ks s.ko e).mp (hEsub e he); obtain ⟨_, _, _, h, _⟩ := this; exact h,
     (reqKo_sublist ks s.ko).subset (hEsub e he)⟩
  have hEnd : E.Nodup := by
    subst hE; cases sk
    · simp
    · exact (reqKo_sublist ks s.ko).nodup hko
  have hnd : (ks ++ E).Nodup :=
    List.nodup_append.mpr ⟨hks, hEnd, fun a ha b hb e => (hEko b hb).1 (e ▸ ha)⟩
  refine ⟨hnd, ?_⟩
  unfold snf at h
  simp only [Bool.true_or, Bool.true_and, if_true, Bool.and_eq_true, Bool.or_eq_true,
    decide_eq_true_eq] at h
  obtain ⟨⟨⟨⟨h2, h3⟩, h4⟩, h5⟩, _⟩ := h
  have hnotin := pkOkS_true_notin n ks sk s.pk s.po.length h2
  have hneed := need_append s.po s.pk
  have hlen := need_le_length (s.po ++ s.pk)
  simp only [List.length_append] at hlen
  generalize hN : n + (need (s.po ++ s.pk) - n) = N
  have hN1 : need (s.po ++ s.pk) ≤ N := by omega
  have hN2 : n ≤ N := by omega
  unfold nf
  simp only [Bool.and_eq_true, Bool.or_eq_true, decide_eq_true_eq, nf_consumed_iff]
  refine ⟨⟨⟨⟨?_, ?_⟩, ?_⟩, ?_⟩, ?_⟩
  · apply posFilled_of_need
    by_cases hz : need s.pk = 0
    · simp only [hz, if_true] at hneed; right; omega
    · simp only [hz, if_false] at hneed
      have := need_le_length s.po; right; omega
  · apply pkOk_of_need
    · intro p hp hm
      rcases List.mem_append.mp hm with hm | hm
      · exact hnotin p hp hm
      · exact hdis p.name (List.mem_map_of_mem hp) (hEko _ hm).2
    · by_cases hz : need s.pk = 0
      · exact Or.inl hz
      · simp only [hz, if_false] at hneed; right; omega
  · apply koOk_of_koOkS ks E sk s.ko _ h3
    intro hs e he; subst hE; simpa [hs] using he
  · rcases h4 with h4 | h4
    · exact Or.inl h4
    · right; omega
  · rcases h5 with h5 | h5
    · exact Or.inl h5
    · right
      intro k hk
      right
      rcases List.mem_append.mp hk with hk | hk
      · rw [List.all_eq_true] at h5
        have := h5 k hk
        simp only [List.contains_eq_mem, decide_eq_true_eq, mem_koConsumedS, List.not_mem_nil,
          false_or] at this
        exact this.2
      · have := (mem_reqKo ks s.ko k).mp (hEsub k hk)
        obtain ⟨p, hp, rfl, _, _⟩ := this
        rw [List.any_eq_true]; exact ⟨p, hp, by simp⟩

/-- Without `*args`: no further positionals, the required unfilled pk and ko names. -/
theorem nf_of_snf_nostar (s : DefSig) (hwf : s.WF) (n : Nat) (ks : List String) (hks : ks.Nodup)
    (sk kr : Bool) (h : snf s n ks false sk kr = true) :
    (ks ++ (if sk then reqPk n ks s.po.length s.pk ++ reqKo ks s.ko else [])).Nodup ∧
    nf s n (ks ++ (if sk then reqPk n ks s.po.length s.pk ++ reqKo ks s.ko else [])) = true := by
  obtain ⟨hpk, hko, hdis⟩ := wf_parts s hwf
  generalize hE : (if sk then reqPk n ks s.po.length s.pk ++ reqKo ks s.ko else []) = E
  have hEsub : ∀ e ∈ E, e ∈ reqPk n ks s.po.length s.pk ∨ e ∈ reqKo ks s.ko := by
    intro e he; subst hE; cases sk <;> simp_all
  have hEks : ∀ e ∈ E, e ∉ ks := by
    intro e he
    rcases hEsub e he with h | h
    · exact (mem_reqPk n ks e _ _ h).1
    · obtain ⟨_, _, _, h, _⟩ := (mem_reqKo ks s.ko e).mp h; exact h
  have hEnd : E.Nodup := by
    subst hE; cases sk
    · simp
    · simp only [if_true]
      refine List.nodup_append.mpr ⟨(reqPk_sublist n ks s.pk s.po.length).nodup hpk,
        (reqKo_sublist ks s.ko).nodup hko, ?_⟩
      intro a ha b hb e
      exact hdis a ((reqPk_sublist n ks s.pk s.po.length).subset ha)
        (e ▸ (reqKo_sublist ks s.ko).subset hb)
  have hnd : (ks ++ E).Nodup :=
    List.nodup_append.mpr ⟨hks, hEnd, fun a ha b hb e => hEks b hb (e ▸ ha)⟩
  refine ⟨hnd, ?_⟩
  unfold snf at h
  simp only [Bool.false_or, if_false, Bool.false_eq_true, Bool.and_eq_true, Bool.or_eq_true,
    decide_eq_true_eq] at h
  obtain ⟨⟨⟨⟨⟨h1, h2⟩, h3⟩, h4⟩, h5⟩, _⟩ := h
  unfold nf
  simp only [Bool.and_eq_true, Bool.or_eq_true, decide_eq_true_eq, nf_consumed_iff]
  refine ⟨⟨⟨⟨?_, ?_⟩, ?_⟩, h4⟩, ?_⟩
  · rw [posFilled_irrel n _ ks]; exact h1
  · apply pkOk_of_pkOkS n ks E sk s.pk s.po.length (reqKo ks s.ko) hpk hEsub _ _ h2
    · intro hs e he; subst hE; simp [hs, he]
    · intro p hp hm
      exact hdis p.name (List.mem_map_of_mem hp) ((reqKo_sublist ks s.ko).subset hm)
  · apply koOk_of_koOkS ks E sk s.ko _ h3
    intro hs e he; subst hE; simp [hs, he]
  · rcases h5 with h5 | h5
    · exact Or.inl h5
    · right
      intro k hk
      rcases List.mem_append.mp hk with hk | hk
      · rw [List.all_eq_true] at h5
        have := h5 k hk
        simp only [List.contains_eq_mem, decide_eq_true_eq, mem_koConsumedS, mem_pkConsumed,
          List.not_mem_nil, false_or] at this
        rcases this with h | h
        · exact Or.inl h.2
        · exact Or.inr h.2
      · rcases hEsub k hk with h | h
        · exact Or.inl (mem_reqPk n ks k _ _ h).2
        · obtain ⟨p, hp, rfl, _, _⟩ := (mem_reqKo ks s.ko k).mp h
          right; rw [List.any_eq_true]; exact ⟨p, hp, by simp⟩

/-! ### The two clauses, at the level of `Actual` -/

theorem accept_witness (s : DefSig) (hwf : s.WF) (a : Actual) (hp : a.plain = true)
    (h : pyaBind s.params a ≠ none) :
    IsExpansion a (witK s a) (witExtra s a) ∧
      cpyBind s ⟨a.pos.length + witK s a, a.kws.map (·.1) ++ witExtra s a⟩ = true := by
  have hs : snf s a.pos.length a.names a.starArgs a.starKw a.kwReq = true := by
    rw [← pya_eq_snf s a hp]
    cases hb : pyaBind s.params a with
    | none => exact absurd hb h
    | some _ => rfl
  have hks := plain_nodup hp
  unfold witK witExtra IsExpansion
  change _ ∧ cpyBind s ⟨_, a.names ++ _⟩ = true
  cases hsa : a.starArgs with
  | true =>
    rw [hsa] at hs
    obtain ⟨hnd, hnf⟩ := nf_of_snf_star s hwf _ _ hks _ _ hs
    rw [nf_eq_cpy s hwf _ _ hnd] at hnf
    simp only [if_true, List.nil_append]
    refine ⟨⟨by simp, ?_, ?_, ?_⟩, hnf⟩
    · intro e; simp [e]
    · exact (List.nodup_append.mp hnd).2.1
    · intro e he hm; exact (List.nodup_append.mp hnd).2.2 e hm e he rfl
  | false =>
    rw [hsa] at hs
    obtain ⟨hnd, hnf⟩ := nf_of_snf_nostar s hwf _ _ hks _ _ hs
    rw [nf_eq_cpy s hwf _ _ hnd] at hnf
    simp only [Bool.false_eq_true, if_false, Nat.add_zero]
    refine ⟨⟨by simp, ?_, ?_, ?_⟩, hnf⟩
    · intro e; simp [e]
    · exact (List.nodup_append.mp hnd).2.1
    · intro e he hm; exact (List.nodup_append.mp hnd).2.2 e hm e he rfl

theorem reject_core (s : DefSig) (hwf : s.WF) (a : Actual) (hp : a.plain = true)
    (hD : D05_starThenKw s.params a = false) (h : pyaBind s.params a = none)
    (k : Nat) (extra : List String) (hexp : IsExpansion a k extra) (hne : NonEmpty a k extra) :
    cpyBind s ⟨a.pos.length + k, a.kws.map (·.1) ++ extra⟩ = false := by
  change cpyBind s ⟨_, a.names ++ extra⟩ = false
  cases hc : cpyBind s ⟨a.pos.length + k, a.names ++ extra⟩ with
  | false => rfl
  | true =>
    exfalso
    obtain ⟨hk0, he0, hend, hdis⟩ := hexp
    obtain ⟨hk1, he1⟩ := hne
    have hnd : (a.names ++ extra).Nodup :=
      List.nodup_append.mpr ⟨plain_nodup hp, hend, fun x hx y hy e => hdis y hy (e ▸ hx)⟩
    rw [← nf_eq_cpy s hwf _ _ hnd] at hc
    rw [D05_eq] at hD
    have := snf_of_nf s a.pos.length k a.names extra a.starArgs a.starKw a.kwReq
      hk0 hk1 he0 he1 hdis hD hc
    rw [← pya_eq_snf s a hp, h] at this
    simp at this

/-! ### `preprocess_args` produces plain actuals -/

def PreSt.ok (s : PreSt) : Prop :=
  s.pos.all id = true ∧ s.kws.all (·.2) = true ∧ (s.kws.map (·.1)).Nodup

theorem foldlM_inv {α β : Type} (I : α → Prop) (f : α → β → Option α)
    (hf : ∀ s x s', f s x = some s' → I s → I s') :
    ∀ (xs : List β) (s s' : α), xs.foldlM f s = some s' → I s → I s' := by
  intro xs
  induction xs with
  | nil => intro s s' h hi; simp at h; exact h ▸ hi
  | cons x xs ih =>
    intro s s' h hi
    simp only [List.foldlM_cons] at h
    cases hx : f s x with
    | none => simp [hx] at h
    | some t => simp [hx] at h; exact ih t s' h (hf s x t hx hi)

theorem addPos_ok (s s' : PreSt) (h : s.addPos = some s') (hi : s.ok) : s'.ok := by
  unfold PreSt.addPos at h
  split at h
  · simp at h
  · split at h
    · simp at h; exact h ▸ hi
    · simp at h; subst h
      obtain ⟨h1, h2, h3⟩ := hi
      exact ⟨by simp [List.all_append, h1], h2, h3⟩

theorem addKw_ok (s : PreSt) (n : String) (s' : PreSt) (h : s.addKw n = some s') (hi : s.ok) :
    s'.ok := by
  unfold PreSt.addKw at h
  split at h
  · simp at h
  · rename_i hn
    simp at h; subst h
    obtain ⟨h1, h2, h3⟩ := hi
    refine ⟨h1, by simp [List.all_append, h2], ?_⟩
    simp only [List.map_append, List.map_cons, List.map_nil]
    refine List.nodup_append.mpr ⟨h3, by simp, ?_⟩
    intro x hx y hy e
    simp at hy; subst hy; subst e
    apply hn
    simp only [List.mem_map] at hx
    obtain ⟨q, hq, hqe⟩ := hx
    rw [List.any_eq_true]; exact ⟨q, hq, by simp [hqe]⟩

theorem preStep_ok (s : PreSt) (x : Arg) (s' : PreSt) (h : preStep s x = some s') (hi : s.ok) :
    s'.ok := by
  cases x with
  | pos => exact addPos_ok s s' h hi
  | starLit n =>
    exact foldlM_inv PreSt.ok (fun s _ => s.addPos) (fun s _ s' h hi => addPos_ok s s' h hi)
      _ s s' h hi
  | starUnk =>
    simp only [preStep] at h
    split at h
    · simp at h
    · simp at h; subst h; exact hi
  | kw n => exact addKw_ok s n s' h hi
  | dstarLit ns =>
    exact foldlM_inv PreSt.ok (fun s n => s.addKw n) (fun s n s' h hi => addKw_ok s n s' h hi)
      _ s s' h hi
  | dstarUnk => simp only [preStep] at h; simp at h; subst h; exact hi

/-- What `preprocess_args` hands to the binder for a statically shaped call is plain. -/
theorem preprocess_plain (args : List Arg) (a : Actual) (h : preprocess args = some a) :
    a.plain = true := by
  unfold preprocess at h
  cases hf : args.foldlM preStep ({} : PreSt) with
  | none => simp [hf] at h
  | some st =>
    simp [hf] at h
    have hok := foldlM_inv PreSt.ok preStep preStep_ok args _ st hf
      ⟨by simp, by simp, by simp⟩
    subst h
    obtain ⟨h1, h2, h3⟩ := hok
    simp only [Actual.plain, Actual.names, Bool.and_eq_true]
    exact ⟨⟨h1, h2⟩, decide_eq_true h3⟩

end Pya
