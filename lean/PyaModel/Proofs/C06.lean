import PyaModel.Spec.CallSpec
import PyaModel.Proofs.C05
import PyaModel.Proofs.C03
import PyaModel.Proofs.C04
/-!
# Proofs/C06 — helper lemmas for the call-checking theorems

Part A: on a literal call that binds, the `Position` tags `bind_arguments` records are the
closed-form `landTags` (C05 proved the verdict only; here the *content* of the binding).
Part B: the value stored for each tag is the argument CPython lands on that parameter, and the
per-parameter check `ca` on it equals membership of the landed arguments (C03), segment by segment.
Part C: assembling `checkCall`.
-/
namespace Pya.C06
open Pya

/-! ## Part A — the tags of the one-pass binder on a literal call -/

/-- the tag `bindStep` records for parameter `p` in (verdict-relevant) state `c` -/
def tagOf (n : Nat) (ks : List String) (c : Core) (p : Param) : Pos :=
  match p.kind with
  | .posOnly => if c.posIdx < n then .idx c.posIdx else .dflt
  | .posOrKw =>
    if c.posIdx < n then .idx c.posIdx else if ks.contains p.name then .kw p.name else .dflt
  | .kwOnly => if ks.contains p.name then .kw p.name else .dflt
  | .varPos => if c.posIdx < n then .args else .dflt
  | .varKw => if ks.all (fun k => c.consumed.contains k) then .dflt else .kwargs

theorem bindStep_tag (n ks) (st st' : BindSt) (p : Param)
    (h : bindStep (litActual n ks) st p = some st') :
    st'.bound = st.bound ++ [(p.name, tagOf n ks st.core p)] ∧
      litStep n ks st.core p = some st'.core := by
  have hs := bindStep_sim n ks st p
  rw [h] at hs
  refine ⟨?_, by simpa using hs.symm⟩
  unfold bindStep at h
  unfold tagOf
  cases hk : p.kind <;>
    simp only [hk, lit_len, lit_getD, lit_starArgs, lit_starKw, lit_hasKw, lit_kwProvided,
      lit_kws_filter] at h ⊢ <;>
    grind [BindSt.core, BindSt.bind]

/-- the tags recorded while folding over `ps` from state `c` -/
def tagsFrom (n : Nat) (ks : List String) : Core → List Param → List (String × Pos)
  | _, [] => []
  | c, p :: ps =>
    (p.name, tagOf n ks c p) ::
      (match litStep n ks c p with
       | some c' => tagsFrom n ks c' ps
       | none => [])

theorem fold_bound (n ks) : ∀ (ps : List Param) (st st' : BindSt),
    ps.foldlM (bindStep (litActual n ks)) st = some st' →
    st'.bound = st.bound ++ tagsFrom n ks st.core ps := by
  intro ps
  induction ps with
  | nil => intro st st' h; simp at h; subst h; simp [tagsFrom]
  | cons p ps ih =>
    intro st st' h
    simp only [List.foldlM_cons] at h
    cases hb : bindStep (litActual n ks) st p with
    | none => simp [hb] at h
    | some st1 =>
      simp [hb] at h
      obtain ⟨h1, h2⟩ := bindStep_tag n ks st st1 p hb
      rw [ih st1 st' h, h1]
      simp [tagsFrom, h2]

theorem pyaBind_tags (sig : List Param) (n ks) (b : List (String × Pos))
    (h : pyaBind sig (litActual n ks) = some b) :
    b = tagsFrom n ks ⟨0, [], false, false, false⟩ sig := by
  unfold pyaBind at h
  cases hf : sig.foldlM (bindStep (litActual n ks)) ({} : BindSt) with
  | none => simp [hf] at h
  | some st =>
    simp [hf] at h
    have := fold_bound n ks sig {} st hf
    unfold bindFinish at h
    split at h <;> try contradiction
    split at h <;> try contradiction
    split at h <;> try contradiction
    split at h <;> try contradiction
    simp at h
    rw [← h, this]
    simp [BindSt.core]

/-! ### closed form, segment by segment -/

def tagsPos (n : Nat) (ks : List String) (byKw : Bool) : Nat → List P → List (String × Pos)
  | _, [] => []
  | off, p :: ps =>
    (p.name, if off < n then Pos.idx off
             else if byKw && ks.contains p.name then Pos.kw p.name else Pos.dflt) ::
      tagsPos n ks byKw (off + 1) ps

def tagsKo (ks : List String) (ps : List P) : List (String × Pos) :=
  ps.map fun p => (p.name, if ks.contains p.name then Pos.kw p.name else Pos.dflt)

/-- the keywords that end up in `**kwargs`: those not consumed by a named slot -/
def consumedAll (s : DefSig) (n : Nat) (ks : List String) : List String :=
  koConsumed ks s.ko (pkConsumed n ks s.po.length s.pk [])

def landTags (s : DefSig) (n : Nat) (ks : List String) : List (String × Pos) :=
  tagsPos n ks false 0 s.po ++ tagsPos n ks true s.po.length s.pk ++
  (s.vp.toList.map fun v => (v, if s.po.length + s.pk.length < n then Pos.args else Pos.dflt)) ++
  tagsKo ks s.ko ++
  (s.vk.toList.map fun v =>
    (v, if ks.all (fun k => (consumedAll s n ks).contains k) then Pos.dflt else Pos.kwargs))

theorem tagsFrom_po (n ks) : ∀ (ps : List P) (off : Nat) (c : Core) (rest : List Param),
    c.posIdx = min n off → posFilled n ks false off ps = true →
    tagsFrom n ks c (ps.map (P.toParam .posOnly) ++ rest) =
      tagsPos n ks false off ps ++
        tagsFrom n ks { c with posIdx := min n (off + ps.length) } rest := by
  intro ps
  induction ps with
  | nil => intro off c rest h _; simp [tagsPos, ← h]
  | cons p ps ih =>
    intro off c rest h hf
    simp only [posFilled, Bool.and_eq_true] at hf
    simp only [List.map_cons, List.cons_append, tagsFrom, tagsPos, tagOf, litStep, P.toParam]
    by_cases hlt : off < n
    · have h1 : c.posIdx < n := by omega
      have h2 : c.posIdx = off := by omega
      simp only [hlt, if_true, h2]
      rw [ih (off + 1) _ rest (by simp; omega) hf.2]
      simp; congr 2; omega
    · have h1 : ¬ c.posIdx < n := by omega
      have hd : p.dflt = true := by simpa [hlt] using hf.1
      simp only [h1, hlt, if_false, hd, if_true, Bool.false_and]
      rw [ih (off + 1) c rest (by omega) hf.2]
      simp; congr 2; omega

theorem tagsFrom_pk (n ks) : ∀ (ps : List P) (off : Nat) (c : Core) (rest : List Param),
    c.posIdx = min n off → pkOk n ks off ps = true →
    tagsFrom n ks c (ps.map (P.toParam .posOrKw) ++ rest) =
      tagsPos n ks true off ps ++
        tagsFrom n ks { c with posIdx := min n (off + ps.length),
                               consumed := pkConsumed n ks off ps c.consumed } rest := by
  intro ps
  induction ps with
  | nil => intro off c rest h _; simp [tagsPos, pkConsumed, ← h]
  | cons p ps ih =>
    intro off c rest h hf
    simp only [pkOk, Bool.and_eq_true] at hf
    have hlen : off + (p :: ps).length = off + 1 + ps.length := by simp; omega
    simp only [List.map_cons, List.cons_append, tagsFrom, tagsPos, tagOf, litStep, P.toParam,
      pkConsumed, hlen]
    by_cases hlt : off < n
    · have h1 : c.posIdx < n := by omega
      have h2 : c.posIdx = off := by omega
      have hk : p.name ∉ ks := by simpa [hlt] using hf.1
      have ih' := ih (off + 1) { c with posIdx := off + 1 } rest (by simp; omega) hf.2
      simp [hlt, h2, hk, ih']
    · have h1 : ¬ c.posIdx < n := by omega
      by_cases hk : p.name ∈ ks
      · have ih' := ih (off + 1) { c with consumed := p.name :: c.consumed } rest (by simp; omega) hf.2
        simp [h1, hlt, hk, ih']
      · have hd : p.dflt = true := by simpa [hlt, hk] using hf.1
        have ih' := ih (off + 1) c rest (by omega) hf.2
        simp [h1, hlt, hk, hd, ih']

theorem tagsFrom_ko (n ks) : ∀ (ps : List P) (c : Core) (rest : List Param),
    koOk ks ps = true →
    tagsFrom n ks c (ps.map (P.toParam .kwOnly) ++ rest) =
      tagsKo ks ps ++ tagsFrom n ks { c with consumed := koConsumed ks ps c.consumed } rest := by
  intro ps
  induction ps with
  | nil => intro c rest _; simp [tagsKo, koConsumed]
  | cons p ps ih =>
    intro c rest hf
    simp only [koOk, List.all_cons, Bool.and_eq_true] at hf
    have hf2 : koOk ks ps = true := by simpa [koOk] using hf.2
    simp only [List.map_cons, List.cons_append, tagsFrom, tagsKo, tagOf, litStep, P.toParam,
      koConsumed]
    by_cases hk : p.name ∈ ks
    · have ih' := ih { c with consumed := p.name :: c.consumed } rest hf2
      simp [hk, ih', tagsKo]
    · have hd : p.dflt = true := by simpa [hk] using hf.1
      have ih' := ih c rest hf2
      simp [hk, hd, ih', tagsKo]

theorem tagsFrom_landTags (s : DefSig) (n ks) (hnf : nf s n ks = true) :
    tagsFrom n ks ⟨0, [], false, false, false⟩ s.params = landTags s n ks := by
  unfold nf at hnf
  simp only [Bool.and_eq_true] at hnf
  obtain ⟨⟨⟨⟨h1, h2⟩, h3⟩, _⟩, _⟩ := hnf
  unfold DefSig.params landTags
  simp only [List.append_assoc]
  rw [tagsFrom_po n ks s.po 0 _ _ (by simp) h1]
  rw [tagsFrom_pk n ks s.pk s.po.length _ _ (by simp) h2]
  congr 2
  cases hvp : s.vp with
  | none =>
    simp only [Option.toList, List.map_nil, List.nil_append]
    rw [tagsFrom_ko n ks s.ko _ _ h3]
    congr 1
    cases hvk : s.vk with
    | none => simp [tagsFrom]
    | some v => simp [tagsFrom, tagOf, consumedAll, litStep]
  | some a =>
    simp only [Option.toList, List.map_cons, List.map_nil, List.cons_append, List.nil_append,
      tagsFrom, tagOf, litStep]
    congr 1
    · congr 1
      by_cases hlt : s.po.length + s.pk.length < n
      · have : min n (s.po.length + s.pk.length) < n := by omega
        simp [hlt, this]
      · have : ¬ min n (s.po.length + s.pk.length) < n := by omega
        simp [hlt, this]
    · rw [tagsFrom_ko n ks s.ko _ _ h3]
      congr 1
      cases hvk : s.vk with
      | none => simp [tagsFrom]
      | some v => simp [tagsFrom, tagOf, consumedAll, litStep]

/-- **Part A.** On a literal call that binds under CPython, `bind_arguments` records exactly
`landTags`. -/
theorem pyaBind_landTags (s : DefSig) (hwf : s.WF) (n : Nat) (ks : List String) (hks : ks.Nodup)
    (hb : cpyBind s ⟨n, ks⟩ = true) :
    pyaBind s.params (litActual n ks) = some (landTags s n ks) := by
  have hnf : nf s n ks = true := by rw [nf_eq_cpy s hwf n ks hks]; exact hb
  have hsome : (pyaBind s.params (litActual n ks)).isSome = true := by rw [pya_eq_nf]; exact hnf
  cases hp : pyaBind s.params (litActual n ks) with
  | none => simp [hp] at hsome
  | some b => rw [pyaBind_tags s.params n ks b hp, tagsFrom_landTags s n ks hnf]

/-! ## Part B — the value checked for each tag, and `ca` on it versus membership -/

section PartB
variable {tbl : ClassTable}

theorem applySol_tuple (sol : TvMap) (a : Ty) :
    applySol sol (.generic C.tuple [a]) = .generic C.tuple [applySol sol a] := by
  unfold applySol; split <;> simp [subst, substL]

theorem applySol_dict (sol : TvMap) (a : Ty) :
    applySol sol (.generic C.dict [.typed C.str, a]) =
      .generic C.dict [.typed C.str, applySol sol a] := by
  unfold applySol; split <;> simp [subst, substL]

/-- C03 (`ca_known_eq_mem`) in the Boolean packaging of `pairOk`. -/
theorem ca_of_pairOk (L : Laws tbl) (T : Ty) (o : Obj) (h : pairOk tbl T o = true) :
    ca tbl false T (.known o) = mem tbl o T := by
  simp only [pairOk, Bool.and_eq_true, Bool.not_eq_true', strVsGeneric, protoClassObj,
    Bool.and_eq_false_iff] at h
  obtain ⟨⟨⟨⟨⟨h1, h2⟩, h3⟩, h4⟩, h5⟩, h6⟩ := h
  exact ca_known_eq_mem tbl L T o ⟨h1, h2, h3, h4, h5, h6⟩

theorem ca_tuple_wrap (hct : callTableOk tbl = true) (T U : Ty) :
    ca tbl false (.generic C.tuple [T]) (.generic C.tuple [U]) = ca tbl false T U := by
  have hg : tbl.gbase C.tuple C.tuple = some [.param 0] := by
    simp only [callTableOk, Bool.and_eq_true] at hct
    obtain ⟨⟨h, _⟩, _⟩ := hct
    split at h <;> simp_all
  simp [ca, theirArgs, hg, instArgs, caArgs, caArg]

theorem ca_dict_wrap (hct : callTableOk tbl = true) (T U : Ty) :
    ca tbl false (.generic C.dict [.typed C.str, T]) (.generic C.dict [.typed C.str, U]) =
      ca tbl false T U := by
  simp only [callTableOk, Bool.and_eq_true] at hct
  obtain ⟨⟨_, h⟩, hs⟩ := hct
  have hg : tbl.gbase C.dict C.dict = some [.param 0, .param 1] := by
    split at h <;> simp_all
  simp [ca, theirArgs, hg, instArgs, caArgs, caArg, typedCA, typOf, hs]

/-! ### `unite_values` of literal arguments -/

theorem flatMap_flatten1_known (os : List Obj) :
    (os.map Ty.known).flatMap flatten1 = os.map Ty.known := by
  induction os with
  | nil => rfl
  | cons o os ih => simp [List.flatMap_cons, flatten1, ih]

/-- a Boolean predicate that does not distinguish dict-key-equal members survives `dedup` -/
theorem dedup_all (g : Ty → Bool) : ∀ (vs acc : List Ty),
    (∀ a ∈ acc ++ vs, ∀ b ∈ acc ++ vs, (Ty.hashEq a b && Ty.beq a b) = true → g a = g b) →
    (dedup acc vs).all g = (acc ++ vs).all g := by
  intro vs
  induction vs with
  | nil => intro acc _; simp [dedup]
  | cons v vs ih =>
    intro acc h
    simp only [dedup]
    split
    · rename_i hm
      rw [ih acc (fun a ha b hb => h a (by simp at ha ⊢; grind) b (by simp at hb ⊢; grind))]
      -- `v` has a key-equal representative in `acc`
      have : ∃ e ∈ acc, (Ty.hashEq e v && Ty.beq e v) = true := by
        clear ih h
        induction acc with
        | nil => simp [dictMem] at hm
        | cons e es ihe =>
          simp only [dictMem, Bool.or_eq_true] at hm
          rcases hm with hm | hm
          · exact ⟨e, by simp, hm⟩
          · obtain ⟨e', he', h'⟩ := ihe hm
            exact ⟨e', by simp [he'], h'⟩
      obtain ⟨e, he, hev⟩ := this
      have hg : g e = g v := h e (by simp [he]) v (by simp) hev
      simp only [List.all_append, List.all_cons]
      have hacc : acc.all g = true → g e = true := fun ha => (List.all_eq_true.mp ha) e he
      cases hgv : g v
      · have : acc.all g = false := by
          cases hq : acc.all g
          · rfl
          · have := hacc hq; rw [hg, hgv] at this; cases this
        simp [this]
      · simp
    · rw [ih (acc ++ [v]) (fun a ha b hb => h a (by simp at ha ⊢; grind) b (by simp at hb ⊢; grind))]
      simp [List.all_append]

theorem dedup_ne_nil : ∀ (vs acc : List Ty), acc ++ vs ≠ [] → dedup acc vs ≠ [] := by
  intro vs
  induction vs with
  | nil => intro acc h; simpa [dedup] using h
  | cons v vs ih =>
    intro acc h
    simp only [dedup]
    split
    · rename_i hm
      apply ih
      cases acc with
      | nil => simp [dictMem] at hm
      | cons a as => simp
    · apply ih; simp

/-- `T.can_assign(unite_values(K₁, …, Kₙ))` checks every literal, provided `T` does not distinguish
literals that are equal as `KnownValue`s. -/
theorem ca_unite_knowns (T : Ty) (os : List Obj) (hne : os ≠ [])
    (h : ∀ a ∈ os, ∀ b ∈ os, Obj.same a b = true →
      ca tbl false T (.known a) = ca tbl false T (.known b)) :
    ca tbl false T (unite (os.map .known)) = os.all fun o => ca tbl false T (.known o) := by
  have hall := dedup_all (fun v => ca tbl false T v) (os.map .known) [] (by
    intro a ha b hb hab
    simp only [List.nil_append, List.mem_map] at ha hb
    obtain ⟨a', ha', rfl⟩ := ha
    obtain ⟨b', hb', rfl⟩ := hb
    simp only [Ty.beq, Bool.and_eq_true] at hab
    exact h a' ha' b' hb' hab.2)
  have hnn := dedup_ne_nil (os.map .known) [] (by simpa using hne)
  simp only [List.nil_append, List.all_map, Function.comp_def] at hall
  unfold unite
  rw [flatMap_flatten1_known]
  split
  · rename_i hd; exact absurd hd hnn
  · rename_i v hd; rw [hd] at hall; simpa using hall
  · rename_i ex _ _
    rw [ca_union_right, caAllR_eq_all]; exact hall

theorem all_congr_mem {α} {f g : α → Bool} : ∀ (l : List α), (∀ x ∈ l, f x = g x) →
    l.all f = l.all g
  | [], _ => rfl
  | x :: xs, h => by
    simp only [List.all_cons, h x (by simp), all_congr_mem xs fun y hy => h y (by simp [hy])]

theorem ca_uniteOrAny (L : Laws tbl) (T : Ty) (os : List Obj)
    (hp : ∀ o ∈ os, pairOk tbl T o = true) (he : eqLitsIn tbl os T = false) :
    ca tbl false T (uniteOrAny (os.map .known)) = os.all fun o => mem tbl o T := by
  unfold uniteOrAny
  by_cases hne : os = []
  · subst hne; simp [ca_any]
  · have hm : (os.map Ty.known).isEmpty = false := by cases os <;> simp_all
    simp only [hm, Bool.false_eq_true, if_false]
    rw [ca_unite_knowns T os hne]
    · exact all_congr_mem os fun o ho => ca_of_pairOk L T o (hp o ho)
    · intro a ha b hb hab
      rw [ca_of_pairOk L T a (hp a ha), ca_of_pairOk L T b (hp b hb)]
      apply Decidable.byContradiction
      intro hne'
      have : eqLitsIn tbl os T = true := by
        simp only [eqLitsIn, List.any_eq_true]
        exact ⟨a, ha, b, hb, by simp [hab, hne']⟩
      rw [he] at this; cases this

/-! ### the per-parameter verdict, segment by segment -/

def slotBad (tbl : ClassTable) (sol : TvMap) (sl : Slot) : Bool :=
  !landedOk tbl sl.got (applySol sol sl.ann)

def slotOk (tbl : ClassTable) (sol : TvMap) (sl : Slot) : Prop :=
  ∀ o ∈ sl.got.objs, pairOk tbl (applySol sol sl.ann) o = true

theorem getD_map_known (xs : List Obj) (i : Nat) (h : i < xs.length) :
    (xs.map Ty.known).getD i .any = .known (xs.getD i .none) := by
  simp [List.getD, List.getElem?_map, List.getElem?_eq_getElem h]

theorem lookupKw_map (kws : List (String × Obj)) (k : String) :
    lookupKw (kws.map fun kv => (kv.1, Ty.known kv.2)) k = (lookupKw kws k).map .known := by
  unfold lookupKw
  induction kws with
  | nil => simp
  | cons kv kws ih =>
    simp only [List.map_cons, List.find?_cons]
    cases h : kv.1 == k <;> simp only [] <;> first | exact ih | simp

theorem lookupKw_none (kws : List (String × Obj)) (k : String)
    (h : (kws.map (·.1)).contains k = false) : lookupKw kws k = none := by
  unfold lookupKw
  induction kws with
  | nil => simp
  | cons kv kws ih =>
    simp only [List.map_cons, List.contains_cons, Bool.or_eq_false_iff] at h
    have h1 : (kv.1 == k) = false := by rw [BEq.comm]; exact h.1
    simp [h1, ih h.2]

theorem lookupKw_some (kws : List (String × Obj)) (k : String)
    (h : (kws.map (·.1)).contains k = true) : ∃ o, lookupKw kws k = some o := by
  unfold lookupKw
  induction kws with
  | nil => simp at h
  | cons kv kws ih =>
    simp only [List.map_cons, List.contains_cons, Bool.or_eq_true] at h
    simp only [List.find?_cons]
    cases h1 : kv.1 == k
    · have : (k == kv.1) = false := by rw [BEq.comm]; exact h1
      rcases h with h | h
      · rw [this] at h; cases h
      · simpa using ih h
    · exact ⟨kv.2, by simp⟩

section Seg
variable (L : Laws tbl) (sol : TvMap) (c : LCall) (bound : List (String × Pos)) (A : ASig)
include L

/-- positional-only / positional-or-keyword / keyword-only parameters: the checked value is the
landed argument, the verdict is its non-membership; a default is never reported. -/
theorem seg_pos (k : Kind) (hk : k ≠ .varPos ∧ k ≠ .varKw) (byKw : Bool) :
    ∀ (ps : List SP) (off : Nat),
    (∀ p ∈ ps, A.find p.name = p.toA k) →
    (∀ sl ∈ landSeg c byKw off ps, slotOk tbl sol sl) →
    (tagsPos c.pos.length c.kwNames byKw off (ps.map SP.toP)).map (paramBad tbl A c.toV bound sol)
      = (landSeg c byKw off ps).map (slotBad tbl sol) := by
  intro ps
  induction ps with
  | nil => intro off _ _; simp [tagsPos, landSeg]
  | cons p ps ih =>
    intro off hfind hok
    simp only [List.map_cons, tagsPos, landSeg, List.cons.injEq]
    refine ⟨?_, ih (off + 1) (fun q hq => hfind q (by simp [hq])) (fun sl hsl => hok sl (by simp [landSeg, hsl]))⟩
    have hf := hfind p (by simp)
    have hs := hok _ (by simp only [landSeg]; exact List.mem_cons_self)
    have hty : (p.toA k).ty = p.ann := by
      unfold AParam.ty SP.toA; cases k <;> simp_all
    simp only [paramBad, hf, hty, slotBad, SP.toP]
    by_cases hlt : off < c.pos.length
    · simp only [hlt, if_true, argValue, LCall.toV, getD_map_known c.pos off hlt]
      have : pairOk tbl (applySol sol p.ann) (c.pos.getD off .none) = true :=
        hs (c.pos.getD off .none) (by simp [hlt, Landed.objs])
      simpa [landedOk, Landed.objs] using ca_of_pairOk L _ _ this
    · simp only [hlt, if_false]
      cases byKw
      · simp only [Bool.false_and, Bool.false_eq_true, if_false, argValue]
        have : (p.toA k).kind = k := rfl
        cases k <;> simp_all [landedOk, Landed.objs, SP.toA]
      · simp only [Bool.true_and]
        by_cases hc : c.kwNames.contains p.name = true
        · obtain ⟨o, ho⟩ := lookupKw_some c.kws p.name hc
          simp only [hc, if_true, ho, argValue, LCall.toV, lookupKw_map, Option.map_some,
            Option.getD_some]
          have : pairOk tbl (applySol sol p.ann) o = true := hs o (by simp [hlt, ho, Landed.objs])
          simpa [landedOk, Landed.objs] using ca_of_pairOk L _ _ this
        · have hc' : c.kwNames.contains p.name = false := by simpa using hc
          have ho := lookupKw_none c.kws p.name hc'
          simp only [hc', Bool.false_eq_true, if_false, ho, argValue]
          have : (p.toA k).kind = k := rfl
          cases k <;> simp_all [landedOk, Landed.objs, SP.toA]

theorem seg_ko :
    ∀ (ps : List SP),
    (∀ p ∈ ps, A.find p.name = p.toA .kwOnly) →
    (∀ sl ∈ landKo c ps, slotOk tbl sol sl) →
    (tagsKo c.kwNames (ps.map SP.toP)).map (paramBad tbl A c.toV bound sol)
      = (landKo c ps).map (slotBad tbl sol) := by
  intro ps
  induction ps with
  | nil => intro _ _; simp [tagsKo, landKo]
  | cons p ps ih =>
    intro hfind hok
    have ih' := ih (fun q hq => hfind q (by simp [hq])) (fun sl hsl => hok sl (by
      simp only [landKo, List.map_cons, List.mem_cons] at hsl ⊢; exact Or.inr hsl))
    simp only [tagsKo, landKo, List.map_cons, List.cons.injEq] at ih' ⊢
    refine ⟨?_, ih'⟩
    have hf := hfind p (by simp)
    have hs := hok _ (by simp only [landKo, List.map_cons]; exact List.mem_cons_self)
    have hty : (p.toA .kwOnly).ty = p.ann := rfl
    simp only [paramBad, hf, hty, slotBad, SP.toP]
    by_cases hc : c.kwNames.contains p.name = true
    · obtain ⟨o, ho⟩ := lookupKw_some c.kws p.name hc
      simp only [hc, if_true, ho, argValue, LCall.toV, lookupKw_map, Option.map_some,
        Option.getD_some]
      have : pairOk tbl (applySol sol p.ann) o = true := hs o (by simp [ho, Landed.objs])
      simpa [landedOk, Landed.objs] using ca_of_pairOk L _ _ this
    · have hc' : c.kwNames.contains p.name = false := by simpa using hc
      have ho := lookupKw_none c.kws p.name hc'
      have hc'' : p.name ∉ c.kwNames := by simpa using hc'
      simp [hc'', ho, argValue, landedOk, Landed.objs, SP.toA]

/-- `*args: T`: the checked value is the tuple of the remaining positionals. -/
theorem seg_vp (hct : callTableOk tbl = true) (nm : String) (T : Ty) (npos : Nat)
    (hfind : A.find nm = ⟨nm, .varPos, none, T⟩)
    (hidx : nIdx bound = min c.pos.length npos)
    (hok : slotOk tbl sol ⟨nm, T, none, .star (c.pos.drop npos)⟩)
    (he : eqLitsIn tbl (c.pos.drop npos) (applySol sol T) = false) :
    paramBad tbl A c.toV bound sol (nm, if npos < c.pos.length then Pos.args else Pos.dflt)
      = slotBad tbl sol ⟨nm, T, none, .star (c.pos.drop npos)⟩ := by
  have hty : (⟨nm, .varPos, none, T⟩ : AParam).ty = .generic C.tuple [T] := rfl
  simp only [paramBad, hfind, hty, applySol_tuple, slotBad, landedOk, Landed.objs]
  by_cases hlt : npos < c.pos.length
  · have hn : min c.pos.length npos = npos := by omega
    simp only [hlt, if_true, argValue, hidx, hn, LCall.toV, ← List.map_drop, ca_tuple_wrap hct]
    rw [ca_uniteOrAny L _ _ (fun o ho => hok o (by simpa [Landed.objs] using ho)) he]
    simp
  · have hd : c.pos.drop npos = [] := by simp; omega
    simp [hlt, argValue, ca_tuple_wrap hct, ca_any, hd]

/-- `**kw: T`: the checked value is the dict of the keywords no named slot consumed. -/
theorem seg_vk (hct : callTableOk tbl = true) (nm : String) (T : Ty) (names : List String)
    (t : Pos) (ht : t = .kwargs ∨ (t = .dflt ∧ c.kws.filter (fun kv => !(names.contains kv.1)) = []))
    (hfind : A.find nm = ⟨nm, .varKw, none, T⟩)
    (hx : ∀ kv ∈ c.kws, (bound.any fun b => b.2 == Pos.kw kv.1) = names.contains kv.1)
    (hok : slotOk tbl sol ⟨nm, T, none, .dstar (c.kws.filter fun kv => !(names.contains kv.1))⟩)
    (he : eqLitsIn tbl ((c.kws.filter fun kv => !(names.contains kv.1)).map (·.2)) (applySol sol T) = false) :
    paramBad tbl A c.toV bound sol (nm, t)
      = slotBad tbl sol ⟨nm, T, none, .dstar (c.kws.filter fun kv => !(names.contains kv.1))⟩ := by
  have hty : (⟨nm, .varKw, none, T⟩ : AParam).ty = .generic C.dict [.typed C.str, T] := rfl
  have hextra : (extraKws c.toV.kws bound).map (·.2) =
      ((c.kws.filter fun kv => !(names.contains kv.1)).map (·.2)).map Ty.known := by
    simp only [extraKws, LCall.toV, List.filter_map, List.map_map, Function.comp_def]
    congr 1
    apply List.filter_congr
    intro kv hkv
    simp [hx kv hkv]
  simp only [paramBad, hfind, hty, applySol_dict, slotBad, landedOk, Landed.objs]
  rcases ht with ht | ⟨ht, hnil⟩
  · subst ht
    simp only [argValue, hextra, ca_dict_wrap hct]
    rw [ca_uniteOrAny L _ _ (fun o ho => hok o (by simpa [Landed.objs] using ho)) he]
    simp
  · subst ht
    rw [hnil]
    simp [argValue, ca_dict_wrap hct, ca_any]

end Seg

/-! ### facts about the whole tag list -/

theorem nIdx_append (a b : List (String × Pos)) : nIdx (a ++ b) = nIdx a + nIdx b := by
  simp [nIdx, List.filter_append]

theorem nIdx_tagsPos (n ks byKw) : ∀ (ps : List P) (off : Nat),
    nIdx (tagsPos n ks byKw off ps) = min n (off + ps.length) - min n off := by
  intro ps
  induction ps with
  | nil => intro off; simp [tagsPos, nIdx]
  | cons p ps ih =>
    intro off
    have ih' := ih (off + 1)
    simp only [nIdx] at ih' ⊢
    simp only [tagsPos, List.filter_cons, List.length_cons]
    by_cases hlt : off < n
    · simp only [hlt, if_true, List.length_cons, ih']
      have e1 : min n (off + 1) = off + 1 := by omega
      have e2 : min n off = off := by omega
      have e3 : off + 1 ≤ min n (off + 1 + ps.length) := by omega
      have e4 : off + (ps.length + 1) = off + 1 + ps.length := by omega
      rw [e1, e2, e4]; omega
    · have e1 : min n (off + 1) = n := by omega
      have e2 : min n off = n := by omega
      have e3 : min n (off + 1 + ps.length) = n := by omega
      have e4 : min n (off + (ps.length + 1)) = n := by omega
      rw [e1, e3] at ih'
      cases byKw <;> by_cases hc : p.name ∈ ks <;> simp [hlt, hc, e2, e4] <;> simpa using ih'

theorem nIdx_tagsKo (ks) (ps : List P) : nIdx (tagsKo ks ps) = 0 := by
  induction ps with
  | nil => simp [tagsKo, nIdx]
  | cons p ps ih =>
    simp only [tagsKo, nIdx, List.map_cons, List.filter_cons] at ih ⊢
    split <;> simp_all

theorem nIdx_landTags (s : DefSig) (n ks) :
    nIdx (landTags s n ks) = min n (s.po.length + s.pk.length) := by
  unfold landTags
  simp only [nIdx_append, nIdx_tagsPos, nIdx_tagsKo]
  have h1 : nIdx (s.vp.toList.map fun v =>
      (v, if s.po.length + s.pk.length < n then Pos.args else Pos.dflt)) = 0 := by
    cases s.vp with
    | none => simp [nIdx]
    | some v => by_cases h : s.po.length + s.pk.length < n <;> simp [nIdx, h]
  have h2 : nIdx (s.vk.toList.map fun v =>
      (v, if ks.all (fun k => (consumedAll s n ks).contains k) then Pos.dflt else Pos.kwargs)) = 0 := by
    cases s.vk with
    | none => simp [nIdx]
    | some v =>
      by_cases h : (ks.all fun k => (consumedAll s n ks).contains k) = true
      · simp only [Option.toList, List.map_cons, List.map_nil, h, if_true]; simp [nIdx]
      · simp only [Option.toList, List.map_cons, List.map_nil, h]; simp [nIdx]
  rw [h1, h2]; simp; omega

theorem anyKw_tagsPos_false (n ks k) : ∀ (ps : List P) (off : Nat),
    (tagsPos n ks false off ps).any (fun b => b.2 == Pos.kw k) = false := by
  intro ps
  induction ps with
  | nil => intro off; simp [tagsPos]
  | cons p ps ih => intro off; simp only [tagsPos, List.any_cons, ih (off + 1)]; split <;> simp

theorem anyKw_tagsPos_true (n ks k) (hk : k ∈ ks) : ∀ (ps : List P) (off : Nat),
    pkOk n ks off ps = true →
    (tagsPos n ks true off ps).any (fun b => b.2 == Pos.kw k) = ps.any (·.name == k) := by
  intro ps
  induction ps with
  | nil => intro off _; simp [tagsPos]
  | cons p ps ih =>
    intro off hok
    simp only [pkOk, Bool.and_eq_true] at hok
    simp only [tagsPos, List.any_cons, ih (off + 1) hok.2]
    congr 1
    by_cases hlt : off < n
    · have hn : p.name ∉ ks := by simpa [hlt] using hok.1
      have : (p.name == k) = false := by
        simp only [beq_eq_false_iff_ne, ne_eq]; intro e; exact hn (e ▸ hk)
      simp [hlt, this]
    · by_cases hpk : p.name = k
      · subst hpk; simp [hlt, hk]
      · have : (p.name == k) = false := by simp [hpk]
        simp only [hlt, if_false, Bool.true_and, this]
        split <;> simp [hpk]

theorem anyKw_tagsKo (ks k) (hk : k ∈ ks) (ps : List P) :
    (tagsKo ks ps).any (fun b => b.2 == Pos.kw k) = ps.any (·.name == k) := by
  induction ps with
  | nil => simp [tagsKo]
  | cons p ps ih =>
    simp only [tagsKo, List.map_cons, List.any_cons] at ih ⊢
    rw [ih]
    congr 1
    by_cases hpk : p.name = k
    · subst hpk; simp [hk]
    · have : (p.name == k) = false := by simp [hpk]
      rw [this]; split <;> simp [hpk]

theorem anyKw_landTags (s : DefSig) (n ks k) (hk : k ∈ ks) (hok : pkOk n ks s.po.length s.pk = true) :
    (landTags s n ks).any (fun b => b.2 == Pos.kw k) = ((s.pk ++ s.ko).map (·.name)).contains k := by
  unfold landTags
  simp only [List.any_append, anyKw_tagsPos_false, anyKw_tagsPos_true n ks k hk s.pk _ hok,
    anyKw_tagsKo ks k hk, Bool.false_or]
  have h1 : (s.vp.toList.map fun v =>
      (v, if s.po.length + s.pk.length < n then Pos.args else Pos.dflt)).any
        (fun b => b.2 == Pos.kw k) = false := by
    cases s.vp <;> simp <;> split <;> simp
  have h2 : (s.vk.toList.map fun v =>
      (v, if ks.all (fun k => (consumedAll s n ks).contains k) then Pos.dflt else Pos.kwargs)).any
        (fun b => b.2 == Pos.kw k) = false := by
    cases s.vk <;> simp <;> split <;> simp
  rw [h1, h2]
  simp only [Bool.or_false, List.map_append, List.contains_append]
  congr 1 <;> (rw [List.contains_eq_any_beq, List.any_map]; simp [Function.comp_def, BEq.comm])

theorem pkHas_any (n k) : ∀ (ps : List P) (off : Nat), pkHas n off ps k = true →
    ps.any (·.name == k) = true := by
  intro ps
  induction ps with
  | nil => intro off h; simp [pkHas] at h
  | cons p ps ih =>
    intro off h
    simp only [pkHas, Bool.or_eq_true, Bool.and_eq_true] at h
    simp only [List.any_cons, Bool.or_eq_true]
    rcases h with h | h
    · exact Or.inl h.2
    · exact Or.inr (ih (off + 1) h)

/-- when every keyword is consumed by a named slot, nothing is left for `**kw` -/
theorem consumed_all_slots (s : DefSig) (n ks) (k : String)
    (h : (consumedAll s n ks).contains k = true) :
    ((s.pk ++ s.ko).map (·.name)).contains k = true := by
  simp only [consumedAll, List.contains_eq_mem, decide_eq_true_eq, mem_koConsumed, mem_pkConsumed,
    List.not_mem_nil, false_or] at h
  simp only [List.map_append, List.contains_eq_mem, decide_eq_true_eq]
  rcases h with h | h
  · have := pkHas_any n k s.pk _ h.2
    simp only [List.any_eq_true, beq_iff_eq] at this
    obtain ⟨p, hp, hpk⟩ := this
    exact List.mem_append.mpr (Or.inl (List.mem_map.mpr ⟨p, hp, hpk⟩))
  · have := h.2
    simp only [List.any_eq_true, beq_iff_eq] at this
    obtain ⟨p, hp, hpk⟩ := this
    exact List.mem_append.mpr (Or.inr (List.mem_map.mpr ⟨p, hp, hpk⟩))

end PartB

/-! ## Part C — assembling `checkCall` -/

theorem aparams_toParam (s : SSig) : s.asig.params.map AParam.toParam = s.defSig.params := by
  simp only [SSig.asig, SSig.aparams, DefSig.params, SSig.defSig, List.map_append, List.map_map]
  cases s.vp <;> cases s.vk <;> simp [AParam.toParam, SP.toA, SP.toP, P.toParam, Function.comp_def]

theorem aparams_names (s : SSig) : s.aparams.map (·.name) = s.defSig.names := by
  rw [DefSig.names, ← aparams_toParam]
  simp [SSig.asig, AParam.toParam, Function.comp_def]

theorem vActual_lit (c : LCall) : vActual c.toV = litActual c.pos.length c.kwNames := by
  simp only [vActual, litActual, LCall.toV, LCall.kwNames, List.map_map, Function.comp_def]
  congr 1
  induction c.pos with
  | nil => rfl
  | cons x xs ih => simp [List.replicate_succ, ih]

theorem find_of_nodup : ∀ (ps : List AParam), (ps.map (·.name)).Nodup → ∀ p ∈ ps,
    ps.find? (·.name == p.name) = some p := by
  intro ps
  induction ps with
  | nil => intro _ p hp; cases hp
  | cons q qs ih =>
    intro hnd p hp
    simp only [List.map_cons, List.nodup_cons] at hnd
    simp only [List.find?_cons]
    rcases List.mem_cons.mp hp with rfl | hp'
    · simp
    · have hne : (q.name == p.name) = false := by
        simp only [beq_eq_false_iff_ne, ne_eq]
        intro e; exact hnd.1 (e ▸ List.mem_map.mpr ⟨p, hp', rfl⟩)
      simp only [hne]
      exact ih hnd.2 p hp'

theorem asig_find (s : SSig) (hwf : s.defSig.WF) (p : AParam) (hp : p ∈ s.aparams) :
    s.asig.find p.name = p := by
  unfold ASig.find
  have hnd : (s.aparams.map (·.name)).Nodup := by rw [aparams_names]; exact hwf
  simp [SSig.asig, find_of_nodup s.aparams hnd p hp]

/-- the side conditions, slot by slot -/
theorem sideOk_slots {tbl : ClassTable} (sol : TvMap) (s : SSig) (c : LCall)
    (h : sideOk tbl sol s c = true) :
    (∀ sl ∈ cpyLand s c, slotOk tbl sol sl) ∧
    (∀ sl ∈ cpyLand s c, ∀ os, sl.got = .star os → eqLitsIn tbl os (applySol sol sl.ann) = false) ∧
    (∀ sl ∈ cpyLand s c, ∀ kvs, sl.got = .dstar kvs →
      eqLitsIn tbl (kvs.map (·.2)) (applySol sol sl.ann) = false) := by
  simp only [sideOk, Bool.and_eq_true, List.all_eq_true, Bool.not_eq_true', D06_equalLiteralArgs,
    List.any_eq_false] at h
  refine ⟨fun sl hsl o ho => h.1 sl hsl o ho, ?_, ?_⟩
  · intro sl hsl os hg
    have := h.2 sl hsl
    simpa [hg] using this
  · intro sl hsl kvs hg
    have := h.2 sl hsl
    simpa [hg] using this

theorem landTags_bad_aux {tbl : ClassTable} (L : Laws tbl) (hct : callTableOk tbl = true) (sol : TvMap)
    (s : SSig) (hwf : s.defSig.WF) (c : LCall) (hside : sideOk tbl sol s c = true)
    (bound : List (String × Pos))
    (hidx : nIdx bound = min c.pos.length (s.po.length + s.pk.length))
    (hx : ∀ kv ∈ c.kws, (bound.any fun b => b.2 == Pos.kw kv.1) = s.kwSlotNames.contains kv.1) :
    (landTags s.defSig c.pos.length c.kwNames).map (paramBad tbl s.asig c.toV bound sol)
      = (cpyLand s c).map (slotBad tbl sol) := by
  obtain ⟨hok, hes, hed⟩ := sideOk_slots sol s c hside
  have hfind : ∀ p ∈ s.aparams, s.asig.find p.name = p := fun p hp => asig_find s hwf p hp
  have hmem : ∀ sl, sl ∈ cpyLand s c ↔
      sl ∈ landSeg c false 0 s.po ∨ sl ∈ landSeg c true s.po.length s.pk ∨
      sl ∈ (s.vp.toList.map fun nt =>
        ({ name := nt.1, ann := nt.2, dflt := none,
           got := .star (c.pos.drop (s.po.length + s.pk.length)) } : Slot)) ∨
      sl ∈ landKo c s.ko ∨
      sl ∈ (s.vk.toList.map fun nt =>
        ({ name := nt.1, ann := nt.2, dflt := none,
           got := .dstar (c.kws.filter fun kv => !(s.kwSlotNames.contains kv.1)) } : Slot)) := by
    intro sl; simp only [cpyLand, List.mem_append, or_assoc]
  unfold landTags cpyLand
  simp only [List.map_append]
  congr 1
  · congr 1
    · congr 1
      · congr 1
        · exact seg_pos L sol c bound s.asig .posOnly (by simp) false s.po 0
            (fun p hp => hfind _ (by simp [SSig.aparams]; exact Or.inl ⟨p, hp, rfl⟩))
            (fun sl hsl => hok sl ((hmem sl).mpr (Or.inl hsl)))
        · have := seg_pos L sol c bound s.asig .posOrKw (by simp) true s.pk s.po.length
            (fun p hp => hfind _ (by simp [SSig.aparams]; exact Or.inr (Or.inl ⟨p, hp, rfl⟩)))
            (fun sl hsl => hok sl ((hmem sl).mpr (Or.inr (Or.inl hsl))))
          simpa [SSig.defSig] using this
      · cases hvp : s.vp with
        | none => simp [SSig.defSig, hvp]
        | some nt =>
          have hsl : (⟨nt.1, nt.2, none, .star (c.pos.drop (s.po.length + s.pk.length))⟩ : Slot) ∈
              cpyLand s c := (hmem _).mpr (Or.inr (Or.inr (Or.inl (by simp [hvp]))))
          have := seg_vp L sol c bound s.asig hct nt.1 nt.2 (s.po.length + s.pk.length)
            (hfind ⟨nt.1, .varPos, none, nt.2⟩ (by simp [SSig.aparams, hvp]))
            hidx (hok _ hsl) (hes _ hsl _ rfl)
          simpa [SSig.defSig, hvp] using this
    · have := seg_ko L sol c bound s.asig s.ko
        (fun p hp => hfind _ (by simp [SSig.aparams]; exact Or.inr (Or.inr (Or.inr (Or.inl ⟨p, hp, rfl⟩)))))
        (fun sl hsl => hok sl ((hmem sl).mpr (Or.inr (Or.inr (Or.inr (Or.inl hsl))))))
      simpa [SSig.defSig] using this
  · cases hvk : s.vk with
    | none => simp [SSig.defSig, hvk]
    | some nt =>
      have hsl : (⟨nt.1, nt.2, none,
          .dstar (c.kws.filter fun kv => !(s.kwSlotNames.contains kv.1))⟩ : Slot) ∈ cpyLand s c :=
        (hmem _).mpr (Or.inr (Or.inr (Or.inr (Or.inr (by simp [hvk])))))
      have ht : ∀ t, t = (if c.kwNames.all (fun k => (consumedAll s.defSig c.pos.length c.kwNames).contains k)
            then Pos.dflt else Pos.kwargs) →
          t = .kwargs ∨ (t = .dflt ∧ c.kws.filter (fun kv => !(s.kwSlotNames.contains kv.1)) = []) := by
        intro t ht
        by_cases hall : (c.kwNames.all fun k => (consumedAll s.defSig c.pos.length c.kwNames).contains k) = true
        · right
          refine ⟨by rw [ht, if_pos hall], ?_⟩
          rw [List.filter_eq_nil_iff]
          intro kv hkv
          have h1 := (List.all_eq_true.mp hall) kv.1 (by simp [LCall.kwNames]; exact ⟨kv.2, hkv⟩)
          have h2 := consumed_all_slots s.defSig _ _ kv.1 h1
          have h3 : s.kwSlotNames = (s.defSig.pk ++ s.defSig.ko).map (·.name) := by
            simp [SSig.kwSlotNames, SSig.defSig, SP.toP, Function.comp_def]
          rw [← h3] at h2
          rw [h2]; decide
        · left; rw [ht, if_neg hall]
      have := seg_vk L sol c bound s.asig hct nt.1 nt.2 s.kwSlotNames _ (ht _ rfl)
        (hfind ⟨nt.1, .varKw, none, nt.2⟩ (by simp [SSig.aparams, hvk]))
        hx (hok _ hsl) (hed _ hsl _ rfl)
      simpa [SSig.defSig, hvk] using this

/-- **Part B, assembled.** For a literal call that binds, the list of per-parameter verdicts of
the main loop equals, position by position, the list "some landed argument is not a member of the
declared type" over CPython's landing. -/
theorem landTags_bad {tbl : ClassTable} (L : Laws tbl) (hct : callTableOk tbl = true) (sol : TvMap)
    (s : SSig) (hwf : s.defSig.WF) (c : LCall) (hks : c.kwNames.Nodup)
    (hb : cpyBind s.defSig c.ccall = true) (hside : sideOk tbl sol s c = true) :
    (landTags s.defSig c.pos.length c.kwNames).map
        (paramBad tbl s.asig c.toV (landTags s.defSig c.pos.length c.kwNames) sol)
      = (cpyLand s c).map (slotBad tbl sol) := by
  have hnf : nf s.defSig c.pos.length c.kwNames = true := by
    rw [nf_eq_cpy s.defSig hwf _ _ hks]; exact hb
  have hpk : pkOk c.pos.length c.kwNames s.defSig.po.length s.defSig.pk = true := by
    unfold nf at hnf; simp only [Bool.and_eq_true] at hnf; exact hnf.1.1.1.2
  apply landTags_bad_aux L hct sol s hwf c hside
  · rw [nIdx_landTags]; simp [SSig.defSig]
  · intro kv hkv
    rw [anyKw_landTags s.defSig _ _ kv.1 (by simp [LCall.kwNames]; exact ⟨kv.2, hkv⟩) hpk]
    simp [SSig.kwSlotNames, SSig.defSig, SP.toP, Function.comp_def]

theorem filter_map_isEmpty {α β} (l : List α) (p : α → Bool) (f : α → β) :
    (!((l.filter p).map f).isEmpty) = l.any p := by
  induction l with
  | nil => rfl
  | cons x xs ih =>
    simp only [List.filter_cons, List.any_cons]
    cases hp : p x
    · simpa using ih
    · simp

theorem any_map_id {α} (l : List α) (p : α → Bool) : (l.map p).any id = l.any p := by
  induction l with
  | nil => rfl
  | cons x xs ih => simp [ih]

/-- a literal call that binds under CPython reaches the per-parameter checks with the tags
`landTags` -/
theorem checkCall_binds (tbl : ClassTable) (s : SSig) (hwf : s.defSig.WF) (c : LCall)
    (hks : c.kwNames.Nodup) (hb : cpyBind s.defSig c.ccall = true) :
    checkCall tbl s.asig c.toV =
      checkBound tbl s.asig c.toV (landTags s.defSig c.pos.length c.kwNames) := by
  unfold checkCall
  rw [aparams_toParam, vActual_lit, pyaBind_landTags s.defSig hwf _ _ hks hb]

theorem resolveAll_ne (tbl : ClassTable) (tvs : List Nat) (m : BMap) (h : tvs ≠ []) :
    (resolveAll tbl tvs m).1 ≠ [] := by
  unfold resolveAll
  have : ∀ (ks : List Nat) (acc : TvMap × Bool), acc.1 ≠ [] →
      (ks.foldl (fun (acc : TvMap × Bool) i =>
        match C15.resolveCa tbl (bmBounds m i) with
        | .ok s _ => ((i, s) :: acc.1, acc.2)
        | _ => ((i, Ty.any) :: acc.1, true)) acc).1 ≠ [] := by
    intro ks
    induction ks with
    | nil => intro acc h; simpa using h
    | cons k ks ih =>
      intro acc _
      simp only [List.foldl_cons]
      apply ih
      split <;> simp
  apply this
  cases tvs with
  | nil => exact absurd rfl h
  | cons t ts => simp

/-- what a `done` verdict of the main loop means -/
theorem checkBound_done (tbl : ClassTable) (A : ASig) (cV : VCall) (bound : List (String × Pos))
    (bad : List String) (h : (checkBound tbl A cV bound).verdict = .done bad) :
    bad = (bound.filter (paramBad tbl A cV bound (checkBound tbl A cV bound).sol)).map (·.1) ∧
    ((A.allTvs.isEmpty = true ∧ (checkBound tbl A cV bound).sol = [] ∧
        (checkBound tbl A cV bound).ret = A.ret) ∨
     (A.allTvs.isEmpty = false ∧ (checkBound tbl A cV bound).sol ≠ [] ∧
        (checkBound tbl A cV bound).ret =
          if hasTv A.ret then subst (checkBound tbl A cV bound).sol A.ret else A.ret)) := by
  unfold checkBound at h ⊢
  by_cases hg : A.allTvs.isEmpty = true
  · simp only [hg, if_true] at h ⊢
    simp only [Verdict.done.injEq] at h
    exact ⟨h.symm, Or.inl (by simp)⟩
  · have hg' : A.allTvs.isEmpty = false := by simpa using hg
    simp only [hg', Bool.false_eq_true, if_false] at h ⊢
    cases hp : tvPass tbl A cV bound A.params [] with
    | error p => simp [hp] at h
    | ok m =>
      simp only [hp] at h ⊢
      have hne := resolveAll_ne tbl A.allTvs m (by intro e; simp [e] at hg')
      cases hr : resolveAll tbl A.allTvs m with
      | mk sol err =>
        rw [hr] at hne
        simp only [hr] at h ⊢
        cases err
        · simp only [Bool.false_eq_true, if_false, Verdict.done.injEq] at h ⊢
          exact ⟨h.symm, Or.inr (by simpa using hne)⟩
        · simp at h

/-! ### result clause: what a slot holds belongs to the (substituted) declared type -/

theorem memAll_eq_all (tbl : ClassTable) (t : Ty) : ∀ (xs : List Obj),
    memAll tbl xs t = xs.all fun o => mem tbl o t
  | [] => by simp [memAll]
  | x :: xs => by simp [memAll, memAll_eq_all tbl t xs]

theorem applySol_generic1 (sol : TvMap) (c : Cls) (a : Ty) :
    applySol sol (.generic c [a]) = .generic c [applySol sol a] := by
  unfold applySol; split <;> simp [subst, substL]

theorem slot_obj_mem {tbl : ClassTable} (L : Laws tbl) (sol : TvMap) (sl : Slot) (o : Obj)
    (hl : landedOk tbl sl.got (applySol sol sl.ann) = true)
    (hd : (match sl.got, sl.dflt with
      | .dflt, some d => mem tbl d (applySol sol sl.ann)
      | _, _ => true) = true)
    (ho : sl.obj = some o) : mem tbl o (applySol sol sl.declTy) = true := by
  have h8 : C.tuple < tbl.size := by have := L.big; show 8 < tbl.size; omega
  have h12 : C.dict < tbl.size := by have := L.big; show 12 < tbl.size; omega
  have h5 : C.str < tbl.size := by have := L.big; show 5 < tbl.size; omega
  unfold Slot.obj at ho
  unfold Slot.declTy
  cases hg : sl.got with
  | one o' =>
    simp only [hg, Option.some.injEq] at ho
    subst ho
    simpa [hg, landedOk, Landed.objs] using hl
  | star os =>
    simp only [hg, Option.some.injEq] at ho
    subst ho
    simp only [hg, landedOk, Landed.objs] at hl
    simp only [applySol_tuple, mem, memArgs, clsOf, memAll_eq_all, hl, Bool.and_true]
    simp [sub, L.refl _ h8]
  | dstar kvs =>
    simp only [hg, Option.some.injEq] at ho
    subst ho
    simp only [hg, landedOk, Landed.objs, List.all_map, Function.comp_def] at hl
    simp only [applySol_dict, mem, memArgs, clsOf, memAll_eq_all, List.all_map, Function.comp_def,
      hl, Bool.and_true]
    simp [sub, L.refl _ h12, L.refl _ h5]
  | dflt =>
    simp only [hg] at ho hd
    rw [ho] at hd
    simpa using hd

theorem elem_mem {tbl : ClassTable} (sol : TvMap) (T R : Ty) (x : Obj) (xs : List Obj) (o : Obj)
    (he : elemTy T = some R) (ho : o = .list (x :: xs) ∨ o = .tuple (x :: xs))
    (hm : mem tbl o (applySol sol T) = true) : mem tbl x (applySol sol R) = true := by
  cases T with
  | generic c args =>
    cases args with
    | nil => simp [elemTy] at he
    | cons a rest =>
      cases rest with
      | cons _ _ => simp [elemTy] at he
      | nil =>
        simp only [elemTy] at he
        split at he
        · simp only [Option.some.injEq] at he
          subst he
          rw [applySol_generic1] at hm
          rcases ho with rfl | rfl <;>
            simp only [mem, memArgs, memAll, Bool.and_eq_true] at hm <;> exact hm.2.1
        · cases he
  | _ => simp [elemTy] at he

/-! ### merging several `*iterable`s -/

theorem ca_annotated_right (tbl : ClassTable) (x : Bool) (e t : Ty) :
    ca tbl x e (.annotated t) = ca tbl x e t := by
  cases e <;> simp [ca]

theorem ca_annotate (tbl : ClassTable) (x : Bool) (e t : Ty) :
    ca tbl x e (annotate t) = ca tbl x e t := by
  cases t <;> simp [annotate, ca_annotated_right]

/-- a declared type accepts a value iff it accepts every member `unite_values` sees in it -/
theorem flatten1_all (tbl : ClassTable) (x : Bool) (T a : Ty) :
    (flatten1 a).all (fun m => ca tbl x T m) = ca tbl x T a := by
  unfold flatten1
  split
  · rw [ca_union_right, caAllR_eq_all]
  · rw [ca_annotated_right, ca_union_right, caAllR_eq_all, List.all_map]
    simp [Function.comp_def, ca_annotate]
  · simp

theorem flatMap_flatten1_all (tbl : ClassTable) (x : Bool) (T : Ty) : ∀ (vs : List Ty),
    (vs.flatMap flatten1).all (fun v => ca tbl x T v) = vs.all fun v => ca tbl x T v
  | [] => rfl
  | v :: vs => by
    simp only [List.flatMap_cons, List.all_append, List.all_cons, flatten1_all,
      flatMap_flatten1_all tbl x T vs]

theorem ca_unite_all (tbl : ClassTable) (x : Bool) (T : Ty) (vs : List Ty)
    (h : ∀ a ∈ vs.flatMap flatten1, ∀ b ∈ vs.flatMap flatten1,
      (Ty.hashEq a b && Ty.beq a b) = true → ca tbl x T a = ca tbl x T b) :
    ca tbl x T (unite vs) = vs.all fun v => ca tbl x T v := by
  have hall := dedup_all (fun v => ca tbl x T v) (vs.flatMap flatten1) [] (by simpa using h)
  simp only [List.nil_append] at hall
  have hflat := flatMap_flatten1_all tbl x T vs
  rw [← hflat, ← hall]
  unfold unite
  split
  · rename_i hd; simp [hd, ca_union_right, caAllR]
  · rename_i v hd; simp [hd]
  · rw [ca_union_right, caAllR_eq_all]

end Pya.C06
