import PyaModel.Spec.SigAssignSpec
import PyaModel.Spec.OverrideSpec
/-!
# Proofs/C07 — helper lemmas for callable compatibility

Part A: the fold `sigCanAssign` on two `def`-shaped headers equals a recursive normal form `nf`
(segment by segment: positional parameters walked jointly, `*args`, keyword-only, `**kwargs`, the
trailing loop).
Part B: `cpyBind` restated over the unified positional list.
Part C: behavioural soundness of the normal form outside the exception classes (`nf_sound`).
Part D: parameter contravariance (`nf_contra`).
Part E: the two behavioural classes are exact — a pair in `posKwClash` / `starKwClash` has a
concrete call the expected header binds and the actual header rejects (`posKwClash_cex`,
`starKwClash_cex`).
-/
namespace Pya.C07

set_option linter.unusedSimpArgs false

variable {τ : Type}

/-! ## Part A.1 — the actual header seen through the lookups of the fold -/

theorem posL_positional (s : TDefSig τ) : ∀ p ∈ s.posL, isPositional p.kind = true := by
  intro p hp
  simp only [TDefSig.posL, List.mem_append, List.mem_map] at hp
  rcases hp with ⟨q, _, rfl⟩ | ⟨q, _, rfl⟩ <;> simp [TP.toT, isPositional]

def TDefSig.restL (s : TDefSig τ) : List (TParam τ) := s.vpL ++ s.koL ++ s.vkL

theorem tparams_eq (s : TDefSig τ) : s.tparams = s.posL ++ s.restL := by
  simp [TDefSig.tparams, TDefSig.restL, List.append_assoc]

theorem restL_not_positional (s : TDefSig τ) : ∀ p ∈ s.restL, isPositional p.kind = false := by
  intro p hp
  simp only [TDefSig.restL, TDefSig.vpL, TDefSig.koL, TDefSig.vkL, List.mem_append, List.mem_map,
    Option.mem_toList] at hp
  rcases hp with (⟨q, _, rfl⟩ | ⟨q, _, rfl⟩) | ⟨q, _, rfl⟩ <;> simp [TP.toT, isPositional]

theorem posAt_tparams (s : TDefSig τ) (i : Nat) : posAt s.tparams i = s.posL[i]? := by
  unfold posAt
  rw [tparams_eq]
  by_cases h : i < s.posL.length
  · rw [List.getElem?_append_left h]
    have hm : s.posL[i] ∈ s.posL := List.getElem_mem h
    simp [List.getElem?_eq_getElem h, Option.filter, posL_positional s _ hm]
  · have h' : s.posL.length ≤ i := Nat.le_of_not_lt h
    rw [List.getElem?_append_right h', List.getElem?_eq_none h']
    cases hr : s.restL[i - s.posL.length]? with
    | none => rfl
    | some t =>
      have hm : t ∈ s.restL := List.mem_of_getElem? hr
      simp [Option.filter, restL_not_positional s t hm]

theorem annOfKind_varPos (s : TDefSig τ) : annOfKind s.tparams .varPos = s.vp.map (·.2) := by
  unfold annOfKind
  rw [tparams_eq]
  have h1 : s.posL.find? (fun p => p.kind == Kind.varPos) = none := by
    rw [List.find?_eq_none]
    intro p hp
    have := posL_positional s p hp
    revert this; cases p.kind <;> simp [isPositional]
  rw [List.find?_append, h1]
  cases hv : s.vp <;> simp [TDefSig.restL, TDefSig.vpL, TDefSig.koL, TDefSig.vkL, hv, List.find?_append, TP.toT]

theorem annOfKind_varKw (s : TDefSig τ) : annOfKind s.tparams .varKw = s.vk.map (·.2) := by
  unfold annOfKind
  rw [tparams_eq]
  have h1 : s.posL.find? (fun p => p.kind == Kind.varKw) = none := by
    rw [List.find?_eq_none]
    intro p hp
    have := posL_positional s p hp
    revert this; cases p.kind <;> simp [isPositional]
  have h2 : s.koL.find? (fun p => p.kind == Kind.varKw) = none := by
    rw [List.find?_eq_none]
    intro p hp
    simp only [TDefSig.koL, List.mem_map] at hp
    obtain ⟨q, _, rfl⟩ := hp
    simp [TP.toT]
  rw [List.find?_append, h1]
  simp only [TDefSig.restL, List.find?_append, h2]
  cases hv : s.vp <;> cases hk : s.vk <;> simp [TDefSig.vpL, TDefSig.vkL, hv, hk]

/-! ## Part A.2 — the positional segment, walked jointly over both headers -/

/-- Success condition of one positional expected parameter `e` against `their_params[i]`
(`none` = there is no positional actual parameter at that index). -/
def posStepOk (R : TyRel τ) (their : List (TParam τ)) (avp avk : Option τ) (e : TParam τ) :
    Option (TParam τ) → Bool
  | some a =>
    (if e.kind == .posOrKw then a.kind == .posOrKw && e.name == a.name else true) &&
      (!e.dflt || a.dflt) && R.asg a.ann e.ann
  | none =>
    if e.kind == .posOrKw then
      (match avp, avk with
       | some T, some U =>
         R.evp T e.ann &&
           (match koAt their e.name with
            | some t => R.asg t.ann e.ann
            | none => R.evk U e.ann)
       | _, _ => false)
    else
      (match avp with
       | some T => R.evp T e.ann
       | none => false)

def posUpd (e : TParam τ) (st : SaSt) : Option (TParam τ) → SaSt
  | some a =>
    if e.kind == .posOrKw then { st with i := st.i + 1, cp := a.name :: st.cp, ck := a.name :: st.ck }
    else { st with i := st.i + 1, cp := a.name :: st.cp,
                   crpo := if a.dflt then st.crpo else a.name :: st.crpo }
  | none => { st with i := st.i + 1 }

theorem saStep_pos (R : TyRel τ) (their : List (TParam τ)) (avp avk : Option τ) (st : SaSt)
    (e : TParam τ) (he : isPositional e.kind = true) :
    saStep R their avp avk st e =
      if posStepOk R their avp avk e (posAt their st.i) then some (posUpd e st (posAt their st.i)) else none := by
  unfold saStep posStepOk posUpd SaSt.next
  cases hk : e.kind <;> simp [hk, isPositional] at he ⊢
  · cases posAt their st.i with
    | none => cases avp <;> simp
    | some a =>
      cases h3 : e.dflt <;> cases h4 : a.dflt <;> cases h5 : R.asg a.ann e.ann <;> simp [h3, h4, h5]
  · cases posAt their st.i with
    | none => cases avp <;> cases avk <;> simp <;> grind
    | some a =>
      by_cases h1 : a.kind = .posOrKw <;> by_cases h2 : e.name = a.name <;>
        cases h3 : e.dflt <;> cases h4 : a.dflt <;> cases h5 : R.asg a.ann e.ann <;>
        simp [h1, h2, h3, h4, h5]

def matchPos (R : TyRel τ) (their : List (TParam τ)) (avp avk : Option τ) : List (TParam τ) → List (TParam τ) → Bool
  | [], _ => true
  | e :: es, [] => posStepOk R their avp avk e none && matchPos R their avp avk es []
  | e :: es, a :: as => posStepOk R their avp avk e (some a) && matchPos R their avp avk es as

def posFinal : SaSt → List (TParam τ) → List (TParam τ) → SaSt
  | st, [], _ => st
  | st, e :: es, [] => posFinal (posUpd e st none) es []
  | st, e :: es, a :: as => posFinal (posUpd e st (some a)) es as

theorem posUpd_i (e : TParam τ) (st : SaSt) (o : Option (TParam τ)) : (posUpd e st o).i = st.i + 1 := by
  unfold posUpd; cases o <;> simp <;> split <;> rfl

theorem run_pos (R : TyRel τ) (their : List (TParam τ)) (avp avk : Option τ) :
    ∀ (es : List (TParam τ)) (as : List (TParam τ)) (st : SaSt),
      (∀ e ∈ es, isPositional e.kind = true) →
      (∀ j, posAt their (st.i + j) = as[j]?) →
      es.foldlM (saStep R their avp avk) st =
        if matchPos R their avp avk es as then some (posFinal st es as) else none := by
  intro es
  induction es with
  | nil => intro as st _ _; simp [matchPos, posFinal]
  | cons e es ih =>
    intro as st hes hat
    have he := hes e (by simp)
    have hes' : ∀ e ∈ es, isPositional e.kind = true := fun x hx => hes x (by simp [hx])
    have h0 := hat 0
    simp only [Nat.add_zero] at h0
    rw [List.foldlM_cons, saStep_pos R their avp avk st e he, h0]
    cases as with
    | nil =>
      simp only [List.getElem?_nil, matchPos, posFinal]
      by_cases hok : posStepOk R their avp avk e none = true
      · simp only [hok, if_true, Option.bind_eq_bind, Option.bind_some, Bool.true_and]
        apply ih [] _ hes'
        intro j
        rw [posUpd_i]
        have := hat (j + 1)
        simp at this ⊢
        rw [← this]; congr 1; omega
      · simp [hok]
    | cons a as =>
      simp only [List.getElem?_cons_zero, matchPos, posFinal]
      by_cases hok : posStepOk R their avp avk e (some a) = true
      · simp only [hok, if_true, Option.bind_eq_bind, Option.bind_some, Bool.true_and]
        apply ih as _ hes'
        intro j
        rw [posUpd_i]
        have := hat (j + 1)
        simp only [List.getElem?_cons_succ] at this
        rw [← this]; congr 1; omega
      · simp [hok]

/-! ## Part A.3 — `*args`, keyword-only segment, `**kwargs` -/

def vpOk (R : TyRel τ) (their : List (TParam τ)) (avp : Option τ) (st : SaSt) : Option (String × τ) → Bool
  | none => true
  | some x =>
    match avp with
    | none => false
    | some T =>
      R.vpvp T x.2 &&
        (their.filter fun p => !st.cp.contains p.name && isPositional p.kind).all fun p => R.xvp p.ann x.2

theorem run_vp (R : TyRel τ) (their : List (TParam τ)) (avp avk : Option τ) (st : SaSt)
    (v : Option (String × τ)) :
    (v.toList.map fun x => (⟨x.1, .varPos, false, x.2⟩ : TParam τ)).foldlM (saStep R their avp avk) st =
      if vpOk R their avp st v then some { st with i := st.i + v.toList.length } else none := by
  cases v with
  | none => simp [vpOk]
  | some x =>
    simp only [Option.toList_some, List.map_cons, List.map_nil, List.foldlM_cons, List.foldlM_nil,
      vpOk, List.length_singleton]
    unfold saStep SaSt.next
    cases avp with
    | none => simp
    | some T =>
      cases h1 : R.vpvp T x.2 <;> simp [h1]

def koStepOk (R : TyRel τ) (their : List (TParam τ)) (avk : Option τ) (e : TParam τ) : Bool :=
  match kwAt their e.name with
  | some t => (!e.dflt || t.dflt) && R.asg t.ann e.ann
  | none =>
    match avk with
    | some U => R.evk U e.ann
    | none => false

def koUpd (their : List (TParam τ)) (st : SaSt) (e : TParam τ) : SaSt :=
  match kwAt their e.name with
  | some t => { st with i := st.i + 1, ck := t.name :: st.ck }
  | none => { st with i := st.i + 1 }

theorem saStep_ko (R : TyRel τ) (their : List (TParam τ)) (avp avk : Option τ) (st : SaSt)
    (e : TParam τ) (he : e.kind = .kwOnly) :
    saStep R their avp avk st e =
      if koStepOk R their avk e then some (koUpd their st e) else none := by
  unfold saStep koStepOk koUpd SaSt.next
  simp only [he]
  cases hf : kwAt their e.name with
  | some t =>
    cases h3 : e.dflt <;> cases h4 : t.dflt <;> cases h5 : R.asg t.ann e.ann <;> simp [h3, h4, h5]
  | none => cases avk <;> simp

theorem run_ko (R : TyRel τ) (their : List (TParam τ)) (avp avk : Option τ) :
    ∀ (es : List (TParam τ)) (st : SaSt), (∀ e ∈ es, e.kind = .kwOnly) →
      es.foldlM (saStep R their avp avk) st =
        if es.all (koStepOk R their avk) then some (es.foldl (koUpd their) st) else none := by
  intro es
  induction es with
  | nil => intro st _; simp
  | cons e es ih =>
    intro st hes
    have he := hes e (by simp)
    have hes' : ∀ e ∈ es, e.kind = .kwOnly := fun x hx => hes x (by simp [hx])
    rw [List.foldlM_cons, saStep_ko R their avp avk st e he]
    by_cases hok : koStepOk R their avk e = true
    · simp [hok, ih _ hes']
    · simp [hok]

def vkOk (R : TyRel τ) (their : List (TParam τ)) (avk : Option τ) (st : SaSt) : Option (String × τ) → Bool
  | none => true
  | some x =>
    match avk with
    | none => false
    | some U =>
      R.vkvk U x.2 &&
        (their.filter fun p => !st.ck.contains p.name && (p.kind == .kwOnly || p.kind == .posOrKw) &&
            !st.crpo.contains p.name).all fun p => R.xvk p.ann x.2

theorem run_vk (R : TyRel τ) (their : List (TParam τ)) (avp avk : Option τ) (st : SaSt)
    (v : Option (String × τ)) :
    (v.toList.map fun x => (⟨x.1, .varKw, false, x.2⟩ : TParam τ)).foldlM (saStep R their avp avk) st =
      if vkOk R their avk st v then some { st with i := st.i + v.toList.length } else none := by
  cases v with
  | none => simp [vkOk]
  | some x =>
    simp only [Option.toList_some, List.map_cons, List.map_nil, List.foldlM_cons, List.foldlM_nil,
      vkOk, List.length_singleton]
    unfold saStep SaSt.next
    cases avk with
    | none => simp
    | some U =>
      cases h1 : R.vkvk U x.2 <;> simp [h1]

/-! ## Part A.4 — the normal form -/

/-- State after the positional segment. -/
def st1 (E A : TDefSig τ) : SaSt := posFinal {} E.posL A.posL
/-- State after the keyword-only segment. -/
def st3 (E A : TDefSig τ) : SaSt :=
  E.koL.foldl (koUpd A.tparams) { st1 E A with i := (st1 E A).i + E.vp.toList.length }

/-- Recursive normal form of `sigCanAssign` on two `def`-shaped headers. -/
def nf (R : TyRel τ) (E A : TDefSig τ) : Bool :=
  R.asg E.ret A.ret &&
  matchPos R A.tparams (A.vp.map (·.2)) (A.vk.map (·.2)) E.posL A.posL &&
  vpOk R A.tparams (A.vp.map (·.2)) (st1 E A) E.vp &&
  E.koL.all (koStepOk R A.tparams (A.vk.map (·.2))) &&
  vkOk R A.tparams (A.vk.map (·.2)) (st3 E A) E.vk &&
  saFinish A.tparams (st3 E A)

theorem saFinish_i (their : List (TParam τ)) (st : SaSt) (n : Nat) :
    saFinish their { st with i := n } = saFinish their st := rfl

theorem sig_eq_nf (R : TyRel τ) (E A : TDefSig τ) :
    sigCanAssign R E.tsig A.tsig = nf R E A := by
  unfold sigCanAssign nf
  simp only [TDefSig.tsig, annOfKind_varPos, annOfKind_varKw]
  cases R.asg E.ret A.ret <;> simp only [Bool.false_and, Bool.true_and]
  generalize havp : A.vp.map (·.2) = avp
  generalize havk : A.vk.map (·.2) = avk
  have hpos := run_pos R A.tparams avp avk E.posL A.posL ({} : SaSt) (posL_positional E)
    (by intro j; simp [posAt_tparams])
  have hko : ∀ e ∈ E.koL, e.kind = .kwOnly := by
    intro e he
    simp only [TDefSig.koL, List.mem_map] at he
    obtain ⟨q, _, rfl⟩ := he; rfl
  rw [show E.tparams = E.posL ++ E.vpL ++ E.koL ++ E.vkL from rfl]
  simp only [List.foldlM_append, hpos]
  by_cases h1 : matchPos R A.tparams avp avk E.posL A.posL = true
  · simp only [h1, if_true, Option.bind_eq_bind, Option.bind_some, Bool.true_and]
    rw [show E.vpL = E.vp.toList.map fun x => (⟨x.1, .varPos, false, x.2⟩ : TParam τ) from rfl, run_vp]
    by_cases h2 : vpOk R A.tparams avp (posFinal {} E.posL A.posL) E.vp = true
    · simp only [st1, h2, if_true, Option.bind_some, Bool.true_and]
      rw [run_ko R A.tparams avp avk E.koL _ hko]
      by_cases h3 : E.koL.all (koStepOk R A.tparams avk) = true
      · simp only [h3, if_true, Option.bind_some, Bool.true_and]
        rw [show E.vkL = E.vk.toList.map fun x => (⟨x.1, .varKw, false, x.2⟩ : TParam τ) from rfl, run_vk]
        simp only [st3, st1]
        generalize List.foldl (koUpd A.tparams) _ E.koL = s3
        by_cases h4 : vkOk R A.tparams avk s3 E.vk = true
        · simp [h4, saFinish_i]
        · simp [h4]
      · simp [h3]
    · simp [st1, h2]
  · simp [h1]

/-! ## Part B — `cpyBind` over the unified positional list -/

/-- Every positional slot from absolute index `off` on is filled (positionally, by keyword for a
positional-or-keyword parameter, or by its default). -/
def filledU (n : Nat) (ks : List String) : Nat → List (TParam τ) → Bool
  | _, [] => true
  | off, p :: ps =>
    (decide (off < n) || (p.kind == .posOrKw && ks.contains p.name) || p.dflt) &&
      filledU n ks (off + 1) ps

/-- Absolute slot of the positional-or-keyword parameter named `k`. -/
def slotU : Nat → List (TParam τ) → String → Option Nat
  | _, [], _ => none
  | off, p :: ps, k => if p.kind == .posOrKw && p.name == k then some off else slotU (off + 1) ps k

theorem filledU_append (n : Nat) (ks : List String) : ∀ (xs ys : List (TParam τ)) (off : Nat),
    filledU n ks off (xs ++ ys) = (filledU n ks off xs && filledU n ks (off + xs.length) ys) := by
  intro xs
  induction xs with
  | nil => intro ys off; simp [filledU]
  | cons x xs ih =>
    intro ys off
    simp only [List.cons_append, filledU, ih, List.length_cons, Bool.and_assoc]
    congr 3; omega

theorem filledU_po (n : Nat) (ks : List String) : ∀ (ps : List (TP τ)) (off : Nat),
    filledU n ks off (ps.map (TP.toT .posOnly)) = posFilled n ks false off (ps.map TP.toP) := by
  intro ps
  induction ps with
  | nil => intro off; rfl
  | cons p ps ih =>
    intro off
    have : (Kind.posOnly == Kind.posOrKw) = false := by decide
    simp [filledU, posFilled, ih, TP.toT, TP.toP, this]

theorem filledU_pk (n : Nat) (ks : List String) : ∀ (ps : List (TP τ)) (off : Nat),
    filledU n ks off (ps.map (TP.toT .posOrKw)) = posFilled n ks true off (ps.map TP.toP) := by
  intro ps
  induction ps with
  | nil => intro off; rfl
  | cons p ps ih => intro off; simp [filledU, posFilled, ih, TP.toT, TP.toP]

theorem slotU_po (k : String) : ∀ (ps : List (TP τ)) (rest : List (TParam τ)) (off : Nat),
    slotU off (ps.map (TP.toT .posOnly) ++ rest) k = slotU (off + ps.length) rest k := by
  intro ps
  induction ps with
  | nil => intro rest off; rfl
  | cons p ps ih =>
    intro rest off
    simp only [List.map_cons, List.cons_append, slotU, TP.toT, List.length_cons]
    simp [ih]; congr 1; omega

theorem slotU_pk (k : String) : ∀ (ps : List (TP τ)) (off : Nat),
    slotU off (ps.map (TP.toT .posOrKw)) k = pkSlot off (ps.map TP.toP) k := by
  intro ps
  induction ps with
  | nil => intro off; rfl
  | cons p ps ih => intro off; simp [slotU, pkSlot, ih, TP.toT, TP.toP]

/-- Keyword `k` is accepted by header `s` in a call with `n` positionals. -/
def kwOkU (s : TDefSig τ) (n : Nat) (k : String) : Bool :=
  match slotU 0 s.posL k with
  | some i => !(decide (i < n))
  | none => s.ko.any (·.name == k) || s.vk.isSome

theorem kwOkU_eq (s : TDefSig τ) (n : Nat) (k : String) : kwAccepted s.shape n k = kwOkU s n k := by
  unfold kwAccepted kwOkU
  have : slotU 0 s.posL k = pkSlot s.shape.po.length s.shape.pk k := by
    simp [TDefSig.posL, slotU_po, slotU_pk, TDefSig.shape]
  rw [this]
  cases pkSlot s.shape.po.length s.shape.pk k <;> simp [TDefSig.shape, TP.toP, List.any_map, Function.comp_def]

theorem cpy_iff (s : TDefSig τ) (n : Nat) (ks : List String) :
    cpyBind s.shape ⟨n, ks⟩ = true ↔
      ks.Nodup ∧ (n ≤ s.posL.length ∨ s.vp.isSome = true) ∧ (∀ k ∈ ks, kwOkU s n k = true) ∧
      filledU n ks 0 s.posL = true ∧ (∀ p ∈ s.ko, p.name ∈ ks ∨ p.dflt = true) := by
  unfold cpyBind
  have hf : filledU n ks 0 s.posL =
      (posFilled n ks false 0 s.shape.po && posFilled n ks true s.shape.po.length s.shape.pk) := by
    simp [TDefSig.posL, filledU_append, filledU_po, filledU_pk, TDefSig.shape]
  simp only [Bool.and_eq_true, decide_eq_true_eq, Bool.or_eq_true, List.all_eq_true, hf, kwOkU_eq]
  have hl : s.shape.po.length + s.shape.pk.length = s.posL.length := by
    simp [TDefSig.shape, TDefSig.posL]
  have hv : s.shape.vp.isSome = s.vp.isSome := by simp [TDefSig.shape]
  rw [hl, hv]
  simp only [TDefSig.shape, List.mem_map, forall_exists_index, and_imp, forall_apply_eq_imp_iff₂,
    TP.toP, List.contains_eq_mem, decide_eq_true_eq]
  constructor
  · rintro ⟨⟨⟨⟨⟨h1, h2⟩, h3⟩, h4⟩, h5⟩, h6⟩
    exact ⟨h1, h2, h3, ⟨h4, h5⟩, h6⟩
  · rintro ⟨h1, h2, h3, ⟨h4, h5⟩, h6⟩
    exact ⟨⟨⟨⟨⟨h1, h2⟩, h3⟩, h4⟩, h5⟩, h6⟩

/-! ## Part C.1 — joint induction over the positional parameters -/

section joint
variable (R : TyRel τ) (their : List (TParam τ)) (avp avk : Option τ)

theorem slotU_ge (k : String) : ∀ (l : List (TParam τ)) (off j : Nat), slotU off l k = some j → off ≤ j := by
  intro l
  induction l with
  | nil => intro off j h; simp [slotU] at h
  | cons p ps ih =>
    intro off j h
    simp only [slotU] at h
    split at h
    · simp at h; omega
    · have := ih _ _ h; omega

theorem filled_joint (n : Nat) (ks : List String) : ∀ (es as : List (TParam τ)) (off : Nat),
    matchPos R their avp avk es as = true → filledU n ks off es = true →
    filledU n ks off (as.take es.length) = true := by
  intro es
  induction es with
  | nil => intro as off _ _; simp [filledU]
  | cons e es ih =>
    intro as off hm hf
    cases as with
    | nil => simp [filledU]
    | cons a as =>
      simp only [matchPos, Bool.and_eq_true] at hm
      simp only [filledU, Bool.and_eq_true] at hf
      simp only [List.length_cons, List.take_succ_cons, filledU, Bool.and_eq_true]
      refine ⟨?_, ih as (off + 1) hm.2 hf.2⟩
      have h1 := hm.1
      have h2 := hf.1
      simp only [posStepOk, Bool.and_eq_true, Bool.or_eq_true, Bool.not_eq_true'] at h1
      simp only [Bool.or_eq_true, decide_eq_true_eq, Bool.and_eq_true] at h2 ⊢
      obtain ⟨⟨h1a, h1b⟩, _⟩ := h1
      rcases h2 with (h | ⟨hk, hks⟩) | h
      · exact Or.inl (Or.inl h)
      · simp only [hk, if_true, Bool.and_eq_true, beq_iff_eq] at h1a
        left; right
        refine ⟨by simp [h1a.1], ?_⟩
        rw [← h1a.2]; exact hks
      · right
        rcases h1b with h' | h'
        · rw [h] at h'; cases h'
        · exact h'

/-- If the actual header has its positional-or-keyword `k` at a slot inside the expected
positional range, the expected header has a positional-or-keyword `k` at the same slot —
unless the pair is in the `clash` class. -/
theorem slot_joint_A (acc : String → Bool) (k : String) (hacc : acc k = true) :
    ∀ (es as : List (TParam τ)) (off j : Nat),
    (∀ e ∈ es, isPositional e.kind = true) →
    matchPos R their avp avk es as = true → clash acc es as = false →
    slotU off as k = some j → j < off + es.length → slotU off es k = some j := by
  intro es
  induction es with
  | nil =>
    intro as off j _ _ _ hs hj
    have := slotU_ge k as off j hs
    simp at hj; omega
  | cons e es ih =>
    intro as off j hes hm hc hs hj
    have he := hes e (by simp)
    have hes' : ∀ e ∈ es, isPositional e.kind = true := fun x hx => hes x (by simp [hx])
    cases as with
    | nil => simp [slotU] at hs
    | cons a as =>
      simp only [matchPos, Bool.and_eq_true] at hm
      simp only [clash, Bool.or_eq_false_iff] at hc
      have h1 := hm.1
      simp only [posStepOk, Bool.and_eq_true] at h1
      obtain ⟨⟨h1a, _⟩, _⟩ := h1
      simp only [slotU] at hs ⊢
      by_cases ha : (a.kind == .posOrKw && a.name == k) = true
      · simp only [ha, if_true, Option.some.injEq] at hs
        simp only [Bool.and_eq_true, beq_iff_eq] at ha
        have hc1 := hc.1
        rw [ha.2, hacc] at hc1
        simp only [ha.1, Bool.and_true, beq_self_eq_true] at hc1
        have hepk : e.kind = .posOrKw := by
          revert he hc1; cases e.kind <;> simp [isPositional]
        simp only [hepk, beq_self_eq_true, if_true, Bool.and_eq_true, beq_iff_eq] at h1a
        simp [hepk, h1a.2, ha.2, hs]
      · simp only [ha, Bool.false_eq_true, if_false] at hs
        by_cases hek : (e.kind == .posOrKw && e.name == k) = true
        · exfalso
          simp only [Bool.and_eq_true, beq_iff_eq] at hek
          simp only [hek.1, beq_self_eq_true, if_true, Bool.and_eq_true, beq_iff_eq] at h1a
          apply ha
          simp [h1a.1, ← h1a.2, hek.2]
        · simp only [hek, Bool.false_eq_true, if_false]
          apply ih as (off + 1) j hes' hm.2 hc.2 hs
          simp at hj; omega

theorem matchPos_nil_star (k : String) : ∀ (es : List (TParam τ)) (off i : Nat),
    matchPos R their avp avk es [] = true → slotU off es k = some i →
    avp.isSome = true ∧ avk.isSome = true := by
  intro es
  induction es with
  | nil => intro off i _ h; simp [slotU] at h
  | cons e es ih =>
    intro off i hm hs
    simp only [matchPos, Bool.and_eq_true] at hm
    simp only [slotU] at hs
    by_cases hek : (e.kind == .posOrKw && e.name == k) = true
    · simp only [Bool.and_eq_true, beq_iff_eq] at hek
      have h1 := hm.1
      simp only [posStepOk, hek.1, beq_self_eq_true, if_true] at h1
      cases avp <;> cases avk <;> simp_all
    · simp only [hek, Bool.false_eq_true, if_false] at hs
      exact ih _ _ hm.2 hs

/-- The expected positional-or-keyword `k` at slot `i` faces the actual positional-or-keyword `k`
at the same slot, or is absorbed by `*args` and `**kwargs` (and the actual header has no
positional-or-keyword `k`) — unless the pair is in the `clash` class. -/
theorem slot_joint_E (acc : String → Bool) (k : String) (hacc : acc k = true) :
    ∀ (es as : List (TParam τ)) (off i : Nat),
    (∀ e ∈ es, isPositional e.kind = true) →
    matchPos R their avp avk es as = true → clash acc es as = false →
    slotU off es k = some i →
    slotU off as k = some i ∨ (slotU off as k = none ∧ avp.isSome = true ∧ avk.isSome = true) := by
  intro es
  induction es with
  | nil => intro as off i _ _ _ hs; simp [slotU] at hs
  | cons e es ih =>
    intro as off i hes hm hc hs
    have he := hes e (by simp)
    have hes' : ∀ e ∈ es, isPositional e.kind = true := fun x hx => hes x (by simp [hx])
    cases as with
    | nil =>
      right
      exact ⟨rfl, matchPos_nil_star R their avp avk k (e :: es) off i hm hs⟩
    | cons a as =>
      simp only [matchPos, Bool.and_eq_true] at hm
      simp only [clash, Bool.or_eq_false_iff] at hc
      have h1 := hm.1
      simp only [posStepOk, Bool.and_eq_true] at h1
      obtain ⟨⟨h1a, _⟩, _⟩ := h1
      simp only [slotU] at hs ⊢
      by_cases hek : (e.kind == .posOrKw && e.name == k) = true
      · simp only [hek, if_true, Option.some.injEq] at hs
        simp only [Bool.and_eq_true, beq_iff_eq] at hek
        simp only [hek.1, beq_self_eq_true, if_true, Bool.and_eq_true, beq_iff_eq] at h1a
        left
        simp [h1a.1, ← h1a.2, hek.2, hs]
      · simp only [hek, Bool.false_eq_true, if_false] at hs
        by_cases ha : (a.kind == .posOrKw && a.name == k) = true
        · exfalso
          simp only [Bool.and_eq_true, beq_iff_eq] at ha
          have hc1 := hc.1
          rw [ha.2, hacc] at hc1
          simp only [ha.1, Bool.and_true, beq_self_eq_true] at hc1
          have hepk : e.kind = .posOrKw := by
            revert he hc1; cases e.kind <;> simp [isPositional]
          simp only [hepk, beq_self_eq_true, if_true, Bool.and_eq_true, beq_iff_eq] at h1a
          apply hek
          simp [hepk, h1a.2, ha.2]
        · simp only [ha, Bool.false_eq_true, if_false]
          exact ih as (off + 1) i hes' hm.2 hc.2 hs

theorem matchPos_short : ∀ (es as : List (TParam τ)),
    matchPos R their avp avk es as = true → as.length < es.length → avp.isSome = true := by
  intro es
  induction es with
  | nil => intro as _ h; simp at h
  | cons e es ih =>
    intro as hm hl
    cases as with
    | nil =>
      simp only [matchPos, Bool.and_eq_true, posStepOk] at hm
      have h1 := hm.1
      cases avp <;> cases avk <;> simp_all
    | cons a as =>
      simp only [matchPos, Bool.and_eq_true] at hm
      exact ih as hm.2 (by simpa using hl)

end joint

/-! ## Part C.2 — what the three `consumed_*` sets can contain -/

theorem posFinal_cp_sub (n : String) : ∀ (es as : List (TParam τ)) (st : SaSt),
    n ∈ (posFinal st es as).cp → n ∈ st.cp ∨ n ∈ (as.take es.length).map (·.name) := by
  intro es
  induction es with
  | nil => intro as st h; exact Or.inl h
  | cons e es ih =>
    intro as st h
    cases as with
    | nil =>
      have := ih [] _ h
      simpa [posUpd] using this
    | cons a as =>
      rcases ih as _ h with h' | h'
      · simp only [posUpd] at h'
        split at h' <;> simp at h' <;> rcases h' with h' | h' <;> simp [h']
      · right; simp only [List.length_cons, List.take_succ_cons, List.map_cons, List.mem_cons]; exact Or.inr h'

theorem posFinal_ck_sub (n : String) : ∀ (es as : List (TParam τ)) (st : SaSt),
    n ∈ (posFinal st es as).ck → n ∈ st.ck ∨ n ∈ (as.take es.length).map (·.name) := by
  intro es
  induction es with
  | nil => intro as st h; exact Or.inl h
  | cons e es ih =>
    intro as st h
    cases as with
    | nil =>
      have := ih [] _ h
      simpa [posUpd] using this
    | cons a as =>
      rcases ih as _ h with h' | h'
      · simp only [posUpd] at h'
        split at h' <;> simp at h'
        · rcases h' with h' | h' <;> simp [h']
        · exact Or.inl h'
      · right; simp only [List.length_cons, List.take_succ_cons, List.map_cons, List.mem_cons]; exact Or.inr h'

theorem posFinal_crpo_sub (n : String) : ∀ (es as : List (TParam τ)) (st : SaSt),
    n ∈ (posFinal st es as).crpo → n ∈ st.crpo ∨ n ∈ (as.take es.length).map (·.name) := by
  intro es
  induction es with
  | nil => intro as st h; exact Or.inl h
  | cons e es ih =>
    intro as st h
    cases as with
    | nil =>
      have := ih [] _ h
      simpa [posUpd] using this
    | cons a as =>
      rcases ih as _ h with h' | h'
      · simp only [posUpd] at h'
        split at h'
        · exact Or.inl (by simpa using h')
        · simp only at h'
          split at h'
          · exact Or.inl h'
          · simp at h'; rcases h' with h' | h' <;> simp [h']
      · right; simp only [List.length_cons, List.take_succ_cons, List.map_cons, List.mem_cons]; exact Or.inr h'

theorem kofold_cp (their : List (TParam τ)) : ∀ (es : List (TParam τ)) (st : SaSt),
    (es.foldl (koUpd their) st).cp = st.cp ∧ (es.foldl (koUpd their) st).crpo = st.crpo := by
  intro es
  induction es with
  | nil => intro st; simp
  | cons e es ih =>
    intro st
    simp only [List.foldl_cons]
    rw [(ih _).1, (ih _).2]
    unfold koUpd; split <;> simp

theorem kofold_ck_sub (their : List (TParam τ)) (n : String) : ∀ (es : List (TParam τ)) (st : SaSt),
    n ∈ (es.foldl (koUpd their) st).ck →
      n ∈ st.ck ∨ ∃ e ∈ es, ∃ t, kwAt their e.name = some t ∧ t.name = n := by
  intro es
  induction es with
  | nil => intro st h; exact Or.inl h
  | cons e es ih =>
    intro st h
    simp only [List.foldl_cons] at h
    rcases ih _ h with h' | ⟨e', he', t, ht, hn⟩
    · unfold koUpd at h'
      split at h'
      · rename_i t ht
        simp at h'
        rcases h' with h' | h'
        · exact Or.inr ⟨e, by simp, t, ht, h'.symm⟩
        · exact Or.inl h'
      · exact Or.inl h'
    · exact Or.inr ⟨e', by simp [he'], t, ht, hn⟩

/-! ### Lookups by name -/

theorem kwAt_some (their : List (TParam τ)) (m : String) (t : TParam τ) (h : kwAt their m = some t) :
    t ∈ their ∧ t.name = m ∧ (t.kind = .posOrKw ∨ t.kind = .kwOnly) := by
  unfold kwAt at h
  rw [Option.filter_eq_some_iff] at h
  obtain ⟨h1, h2⟩ := h
  have := List.find?_some h1
  refine ⟨List.mem_of_find?_eq_some h1, by simpa using this, by simpa using h2⟩

theorem nodup_name_eq : ∀ (l : List (TParam τ)), (l.map (·.name)).Nodup →
    ∀ a b, a ∈ l → b ∈ l → a.name = b.name → a = b := by
  intro l
  induction l with
  | nil => intro _ a b ha; simp at ha
  | cons x xs ih =>
    intro hnd a b ha hb hab
    simp only [List.map_cons, List.nodup_cons, List.mem_map, not_exists, not_and] at hnd
    simp only [List.mem_cons] at ha hb
    rcases ha with rfl | ha <;> rcases hb with rfl | hb
    · rfl
    · exact absurd hab.symm (hnd.1 b hb)
    · exact absurd hab (hnd.1 a ha)
    · exact ih hnd.2 a b ha hb hab

/-- With distinct names, a keyword-capable parameter is the one the lookup finds. -/
theorem kwAt_of_mem (their : List (TParam τ)) (hnd : (their.map (·.name)).Nodup) (a : TParam τ)
    (ha : a ∈ their) (hk : a.kind = .posOrKw ∨ a.kind = .kwOnly) : kwAt their a.name = some a := by
  unfold kwAt
  cases hf : their.find? (·.name == a.name) with
  | none =>
    rw [List.find?_eq_none] at hf
    have := hf a ha
    simp at this
  | some t =>
    have h1 := List.mem_of_find?_eq_some hf
    have h2 := List.find?_some hf
    have : t = a := nodup_name_eq their hnd t a h1 ha (by simpa using h2)
    subst this
    rcases hk with hk | hk <;> simp [Option.filter, hk]

/-- With distinct names: if the lookup fails, no keyword-capable parameter has that name. -/
theorem kwAt_none (their : List (TParam τ)) (hnd : (their.map (·.name)).Nodup) (m : String)
    (h : kwAt their m = none) (a : TParam τ) (ha : a ∈ their) (hn : a.name = m) :
    a.kind ≠ .posOrKw ∧ a.kind ≠ .kwOnly := by
  constructor <;> intro hk
  · have := kwAt_of_mem their hnd a ha (Or.inl hk); rw [hn, h] at this; cases this
  · have := kwAt_of_mem their hnd a ha (Or.inr hk); rw [hn, h] at this; cases this

theorem mem_tparams_pk (s : TDefSig τ) (t : TParam τ) (h : t ∈ s.tparams) (hk : t.kind = .posOrKw) :
    t ∈ s.posL := by
  rw [tparams_eq] at h
  rcases List.mem_append.mp h with h | h
  · exact h
  · have := restL_not_positional s t h
    simp [isPositional, hk] at this

theorem mem_tparams_ko (s : TDefSig τ) (t : TParam τ) (h : t ∈ s.tparams) (hk : t.kind = .kwOnly) :
    t ∈ s.koL := by
  simp only [TDefSig.tparams, TDefSig.posL, TDefSig.vpL, TDefSig.koL, TDefSig.vkL, List.mem_append,
    List.mem_map, Option.mem_toList] at h ⊢
  rcases h with (((⟨q, _, rfl⟩ | ⟨q, _, rfl⟩) | ⟨q, _, rfl⟩) | h) | ⟨q, _, rfl⟩
  · simp [TP.toT] at hk
  · simp [TP.toT] at hk
  · simp at hk
  · exact h
  · simp at hk

theorem slotU_isSome_of_mem (k : String) : ∀ (l : List (TParam τ)) (off : Nat),
    (∃ a ∈ l, a.kind = .posOrKw ∧ a.name = k) → (slotU off l k).isSome = true := by
  intro l
  induction l with
  | nil => intro off h; simp at h
  | cons p ps ih =>
    intro off h
    simp only [slotU]
    split
    · rfl
    · rename_i hp
      apply ih
      obtain ⟨a, ha, hk, hn⟩ := h
      simp only [List.mem_cons] at ha
      rcases ha with rfl | ha
      · simp [hk, hn] at hp
      · exact ⟨a, ha, hk, hn⟩

theorem slotU_mem (k : String) : ∀ (l : List (TParam τ)) (off j : Nat), slotU off l k = some j →
    ∃ a, l[j - off]? = some a ∧ a.kind = .posOrKw ∧ a.name = k := by
  intro l
  induction l with
  | nil => intro off j h; simp [slotU] at h
  | cons p ps ih =>
    intro off j h
    simp only [slotU] at h
    split at h
    · rename_i hp
      simp at h; subst h
      simp only [Bool.and_eq_true, beq_iff_eq] at hp
      exact ⟨p, by simp, hp.1, hp.2⟩
    · have hge := slotU_ge k ps (off + 1) j h
      obtain ⟨a, ha, hk, hn⟩ := ih _ _ h
      refine ⟨a, ?_, hk, hn⟩
      have : j - off = (j - (off + 1)) + 1 := by omega
      rw [this, List.getElem?_cons_succ]; exact ha

theorem slotU_drop (k : String) (l : List (TParam τ)) (j m : Nat) (h : slotU 0 l k = some j) (hm : m ≤ j) :
    ∃ a ∈ l.drop m, a.kind = .posOrKw ∧ a.name = k := by
  obtain ⟨a, ha, hk, hn⟩ := slotU_mem k l 0 j h
  refine ⟨a, ?_, hk, hn⟩
  simp only [Nat.sub_zero] at ha
  have : (l.drop m)[j - m]? = some a := by
    rw [List.getElem?_drop]; rw [← ha]; congr 1; omega
  exact List.mem_of_getElem? this

theorem drop_disjoint_take (l : List (TParam τ)) (hnd : (l.map (·.name)).Nodup) (m : Nat)
    (a : TParam τ) (ha : a ∈ l.drop m) : a.name ∉ (l.take m).map (·.name) := by
  have h := hnd
  rw [← List.take_append_drop m l, List.map_append, List.nodup_append] at h
  intro hmem
  exact h.2.2 _ hmem _ (List.mem_map.mpr ⟨a, ha, rfl⟩) rfl

/-! ## Part C.3 — behavioural soundness of the normal form outside the exception classes -/

theorem filledU_of_all (n : Nat) (ks : List String) : ∀ (l : List (TParam τ)) (off : Nat),
    (∀ a ∈ l, (a.kind == .posOrKw && ks.contains a.name) = true ∨ a.dflt = true) →
    filledU n ks off l = true := by
  intro l
  induction l with
  | nil => intro off _; rfl
  | cons p ps ih =>
    intro off h
    simp only [filledU, Bool.and_eq_true, Bool.or_eq_true]
    refine ⟨?_, ih _ (fun a ha => h a (by simp [ha]))⟩
    rcases h p (by simp) with h' | h'
    · exact Or.inl (Or.inr (by simpa using h'))
    · exact Or.inr h'

theorem acceptsKw_of_slot (E : TDefSig τ) (k : String) (i : Nat) (h : slotU 0 E.posL k = some i) :
    acceptsKw E k = true := by
  obtain ⟨a, ha, hk, hn⟩ := slotU_mem k E.posL 0 i h
  have hm := List.mem_of_getElem? ha
  simp only [TDefSig.posL, List.mem_append, List.mem_map] at hm
  rcases hm with ⟨q, _, rfl⟩ | ⟨q, hq, rfl⟩
  · simp [TP.toT] at hk
  · simp only [acceptsKw, Bool.or_eq_true, List.any_eq_true, beq_iff_eq]
    left; right
    exact ⟨q, hq, by simpa [TP.toT] using hn⟩

theorem posL_nodup (A : TDefSig τ) (hA : A.WF) : (A.posL.map (·.name)).Nodup := by
  unfold TDefSig.WF at hA
  rw [tparams_eq, List.map_append, List.nodup_append] at hA
  exact hA.1

theorem restL_disjoint (A : TDefSig τ) (hA : A.WF) (a : TParam τ) (ha : a ∈ A.restL) :
    a.name ∉ A.posL.map (·.name) := by
  unfold TDefSig.WF at hA
  rw [tparams_eq, List.map_append, List.nodup_append] at hA
  intro hmem
  exact hA.2.2 _ hmem _ (List.mem_map.mpr ⟨a, ha, rfl⟩) rfl

theorem take_names_sub (l : List (TParam τ)) (m : Nat) (x : String)
    (h : x ∈ (l.take m).map (·.name)) : x ∈ l.map (·.name) := by
  obtain ⟨a, ha, rfl⟩ := List.mem_map.mp h
  exact List.mem_map.mpr ⟨a, List.mem_of_mem_take ha, rfl⟩

/-- A required actual parameter whose name is in `consumed_keyword` but which was not consumed
positionally is named by a *required* keyword-only parameter of the expected header — so every
call the expected header binds passes it by keyword. -/
theorem ck_required (R : TyRel τ) (E A : TDefSig τ) (hA : A.WF) (ks : List String)
    (hkoOk : E.koL.all (koStepOk R A.tparams (A.vk.map (·.2))) = true)
    (hko : ∀ p ∈ E.ko, p.name ∈ ks ∨ p.dflt = true)
    (a : TParam τ) (ha : a ∈ A.tparams) (hck : a.name ∈ (st3 E A).ck)
    (hnot : a.name ∉ (A.posL.take E.posL.length).map (·.name)) (hd : a.dflt = false) :
    a.name ∈ ks := by
  unfold st3 at hck
  rcases kofold_ck_sub A.tparams a.name E.koL _ hck with h | ⟨e, he, t, ht, hn⟩
  · simp only [st1] at h
    rcases posFinal_ck_sub a.name E.posL A.posL {} h with h' | h'
    · simp at h'
    · exact absurd h' hnot
  · obtain ⟨htm, htn, _⟩ := kwAt_some A.tparams e.name t ht
    have hta : t = a := nodup_name_eq A.tparams hA t a htm ha hn
    subst hta
    have hok := List.all_eq_true.mp hkoOk e he
    simp only [koStepOk, ht, Bool.and_eq_true, Bool.or_eq_true, Bool.not_eq_true'] at hok
    have hed : e.dflt = false := by
      rcases hok.1 with h | h
      · exact h
      · rw [hd] at h; cases h
    simp only [TDefSig.koL, List.mem_map] at he
    obtain ⟨q, hq, rfl⟩ := he
    rcases hko q hq with h | h
    · rw [htn]; exact h
    · simp [TP.toT] at hed; rw [hed] at h; cases h

theorem nf_sound (R : TyRel τ) (E A : TDefSig τ) (hA : A.WF) (hnf : nf R E A = true)
    (hD1 : D07_posKwClash E A = false) (hD2 : D07_starKwClash E A = false)
    (n : Nat) (ks : List String) (hE : cpyBind E.shape ⟨n, ks⟩ = true) :
    cpyBind A.shape ⟨n, ks⟩ = true := by
  rw [cpy_iff] at hE ⊢
  obtain ⟨hnd, hn, hkw, hfill, hko⟩ := hE
  unfold nf at hnf
  simp only [Bool.and_eq_true] at hnf
  obtain ⟨⟨⟨⟨⟨_, hmp⟩, hvp⟩, hkoOk⟩, hvk⟩, hfin⟩ := hnf
  have hposnd := posL_nodup A hA
  have hAvp : E.vp.isSome = true → A.vp.isSome = true := by
    intro h
    cases hv : E.vp with
    | none => rw [hv] at h; cases h
    | some x =>
      rw [hv] at hvp
      cases ha : A.vp with
      | none => simp [vpOk, ha] at hvp
      | some y => rfl
  have hAvk : E.vk.isSome = true → A.vk.isSome = true := by
    intro h
    cases hv : E.vk with
    | none => rw [hv] at h; cases h
    | some x =>
      rw [hv] at hvk
      cases ha : A.vk with
      | none => simp [vkOk, ha] at hvk
      | some y => rfl
  have hcp : ∀ x, x ∈ (st3 E A).cp → x ∈ (A.posL.take E.posL.length).map (·.name) := by
    intro x hx
    unfold st3 at hx
    rw [(kofold_cp A.tparams E.koL _).1] at hx
    rcases posFinal_cp_sub x E.posL A.posL {} hx with h | h
    · simp at h
    · exact h
  have hfinA := List.all_eq_true.mp hfin
  refine ⟨hnd, ?_, ?_, ?_, ?_⟩
  · -- positional count
    rcases hn with hn | hn
    · by_cases hl : A.posL.length < E.posL.length
      · right
        have := matchPos_short R _ _ _ E.posL A.posL hmp hl
        cases hv : A.vp <;> simp [hv] at this ⊢
      · left; omega
    · exact Or.inr (hAvp hn)
  · -- keywords
    intro k hk
    have hEk := hkw k hk
    unfold kwOkU at hEk ⊢
    cases hsE : slotU 0 E.posL k with
    | some i =>
      rw [hsE] at hEk
      have hacc := acceptsKw_of_slot E k i hsE
      rcases slot_joint_E R _ _ _ (acceptsKw E) k hacc E.posL A.posL 0 i (posL_positional E) hmp hD1 hsE with h | ⟨h, _, h3⟩
      · rw [h]; exact hEk
      · rw [h]
        cases hv : A.vk <;> simp [hv] at h3 ⊢
    | none =>
      rw [hsE] at hEk
      have hacc : acceptsKw E k = true := by
        simp only [acceptsKw, Bool.or_eq_true] at hEk ⊢
        rcases hEk with h | h
        · exact Or.inr h
        · exact Or.inl (Or.inl h)
      cases hsA : slotU 0 A.posL k with
      | some j =>
        simp only [Bool.not_eq_true', decide_eq_false_iff_not, Nat.not_lt]
        by_cases hj : j < E.posL.length
        · have := slot_joint_A R _ _ _ (acceptsKw E) k hacc E.posL A.posL 0 j (posL_positional E) hmp hD1 hsA
            (by omega)
          rw [hsE] at this; cases this
        · rcases hn with hn | hn
          · omega
          · exfalso
            obtain ⟨a, ha, hak, han⟩ := slotU_drop k A.posL j E.posL.length hsA (by omega)
            simp only [D07_starKwClash, hn, Bool.true_and] at hD2
            have := List.any_eq_false.mp hD2 a ha
            have hnopk : E.pk.any (·.name == k) = false := by
              rw [List.any_eq_false]
              intro p hp hpn
              have hs := slotU_isSome_of_mem k E.posL 0 ⟨TP.toT .posOrKw p, by
                simp only [TDefSig.posL, List.mem_append, List.mem_map]; exact Or.inr ⟨p, hp, rfl⟩, rfl,
                by simpa [TP.toT] using hpn⟩
              rw [hsE] at hs; cases hs
            have hstar : acceptsKwStar E k = true := by
              simp only [acceptsKwStar, hnopk, Bool.not_false, Bool.true_and, Bool.or_eq_true]
              simp only [Bool.or_eq_true] at hEk
              rcases hEk with h | h
              · exact Or.inr h
              · exact Or.inl h
            simp [hak, han, hstar] at this
      | none =>
        simp only [Bool.or_eq_true] at hEk ⊢
        rcases hEk with h | h
        · obtain ⟨q, hq, hqn⟩ := List.any_eq_true.mp h
          have hqn : q.name = k := by simpa using hqn
          have he : TP.toT .kwOnly q ∈ E.koL := List.mem_map.mpr ⟨q, hq, rfl⟩
          have hok := List.all_eq_true.mp hkoOk _ he
          simp only [koStepOk, TP.toT] at hok
          rw [hqn] at hok
          cases hf : kwAt A.tparams k with
          | some t =>
            obtain ⟨htm, htn, htk⟩ := kwAt_some A.tparams k t hf
            rcases htk with htk | htk
            · have := slotU_isSome_of_mem k A.posL 0 ⟨t, mem_tparams_pk A t htm htk, htk, htn⟩
              rw [hsA] at this; cases this
            · left
              have := mem_tparams_ko A t htm htk
              simp only [TDefSig.koL, List.mem_map] at this
              obtain ⟨p, hp, rfl⟩ := this
              exact List.any_eq_true.mpr ⟨p, hp, by simpa [TP.toT] using htn⟩
          | none =>
            rw [hf] at hok
            right
            cases hv : A.vk <;> simp [hv] at hok ⊢
        · exact Or.inr (hAvk h)
  · -- positional slots of the actual header
    rw [← List.take_append_drop E.posL.length A.posL, filledU_append]
    simp only [Bool.and_eq_true]
    constructor
    · have := filled_joint R _ _ _ n ks E.posL A.posL 0 hmp hfill
      exact this
    · apply filledU_of_all
      intro a ha
      by_cases hd : a.dflt = true
      · exact Or.inr hd
      · left
        have hd' : a.dflt = false := by simpa using hd
        have hapos : a ∈ A.posL := List.mem_of_mem_drop ha
        have hat : a ∈ A.tparams := by rw [tparams_eq]; exact List.mem_append_left _ hapos
        have hnot := drop_disjoint_take A.posL hposnd E.posL.length a ha
        have hfa := hfinA a hat
        have hk := posL_positional A a hapos
        cases hkind : a.kind <;> simp [hkind, isPositional] at hk hfa
        · -- positional-only and required: must have been consumed positionally
          rw [hd'] at hfa
          simp at hfa
          exact absurd (hcp _ hfa) hnot
        · rw [hd'] at hfa
          rcases hfa with (h | h) | h
          · cases h
          · exact absurd (hcp _ h) hnot
          · have := ck_required R E A hA ks hkoOk hko a hat h hnot hd'
            simp [this]
  · -- keyword-only parameters of the actual header
    intro p hp
    by_cases hd : p.dflt = true
    · exact Or.inr hd
    · left
      have hd' : p.dflt = false := by simpa using hd
      let a : TParam τ := TP.toT .kwOnly p
      have hako : a ∈ A.koL := List.mem_map.mpr ⟨p, hp, rfl⟩
      have har : a ∈ A.restL := by
        simp only [TDefSig.restL, List.mem_append]; exact Or.inl (Or.inr hako)
      have hat : a ∈ A.tparams := by rw [tparams_eq]; exact List.mem_append_right _ har
      have hnot : a.name ∉ (A.posL.take E.posL.length).map (·.name) :=
        fun h => restL_disjoint A hA a har (take_names_sub _ _ _ h)
      have hfa := hfinA a hat
      simp only [a, TP.toT, hd', Bool.false_or, List.contains_eq_mem, decide_eq_true_eq] at hfa
      exact ck_required R E A hA ks hkoOk hko a hat hfa hnot hd'

/-! ## Part D — parameter contravariance -/

/-- Every question the kernel asks about annotations is sound for the supertype relation `sup`
(`sup S T`: every member of `S` is a member of `T`). -/
structure RelSound (R : TyRel τ) (sup : τ → τ → Prop) : Prop where
  asg : ∀ T S, R.asg T S = true → sup S T
  vpvp : ∀ T S, R.vpvp T S = true → sup S T
  vkvk : ∀ T S, R.vkvk T S = true → sup S T
  xvp : ∀ T S, R.xvp T S = true → sup S T
  xvk : ∀ T S, R.xvk T S = true → sup S T
  evp : ∀ T S, R.evp T S = true → sup S T
  evk : ∀ T S, R.evk T S = true → sup S T

theorem mem_posL_tparams (s : TDefSig τ) (t : TParam τ) (h : t ∈ s.posL) : t ∈ s.tparams := by
  rw [tparams_eq]; exact List.mem_append_left _ h

theorem mem_koL_tparams (s : TDefSig τ) (t : TParam τ) (h : t ∈ s.koL) : t ∈ s.tparams := by
  rw [tparams_eq]; apply List.mem_append_right
  simp only [TDefSig.restL, List.mem_append]; exact Or.inl (Or.inr h)

/-- Where a keyword lands, in terms of the lookup the model uses. -/
theorem kwTy_eq (s : TDefSig τ) (hs : s.WF) (k : String) :
    kwTy s k = match kwAt s.tparams k with
      | some t => some t.ann
      | none => s.vk.map (·.2) := by
  unfold kwTy
  cases hf : (s.pk ++ s.ko).find? (·.name == k) with
  | some p =>
    have hm := List.mem_of_find?_eq_some hf
    have hn : p.name = k := by simpa using List.find?_some hf
    rcases List.mem_append.mp hm with hp | hp
    · have ht : TP.toT .posOrKw p ∈ s.tparams :=
        mem_posL_tparams s _ (by simp only [TDefSig.posL, List.mem_append, List.mem_map]; exact Or.inr ⟨p, hp, rfl⟩)
      have := kwAt_of_mem s.tparams hs _ ht (Or.inl rfl)
      simp only [TP.toT] at this
      rw [hn] at this
      simp [this]
    · have ht : TP.toT .kwOnly p ∈ s.tparams := mem_koL_tparams s _ (List.mem_map.mpr ⟨p, hp, rfl⟩)
      have := kwAt_of_mem s.tparams hs _ ht (Or.inr rfl)
      simp only [TP.toT] at this
      rw [hn] at this
      simp [this]
  | none =>
    rw [List.find?_eq_none] at hf
    cases hk : kwAt s.tparams k with
    | none => rfl
    | some t =>
      exfalso
      obtain ⟨htm, htn, htk⟩ := kwAt_some s.tparams k t hk
      rcases htk with htk | htk
      · have := mem_tparams_pk s t htm htk
        simp only [TDefSig.posL, List.mem_append, List.mem_map] at this
        rcases this with ⟨q, _, rfl⟩ | ⟨q, hq, rfl⟩
        · simp [TP.toT] at htk
        · exact hf q (List.mem_append_left _ hq) (by simpa [TP.toT] using htn)
      · have := mem_tparams_ko s t htm htk
        simp only [TDefSig.koL, List.mem_map] at this
        obtain ⟨q, hq, rfl⟩ := this
        exact hf q (List.mem_append_right _ hq) (by simpa [TP.toT] using htn)

theorem slot_of_kwAt_pk (s : TDefSig τ) (hs : s.WF) (k : String) (t : TParam τ)
    (h : kwAt s.tparams k = some t) (hk : t.kind = .posOrKw) :
    ∃ i, slotU 0 s.posL k = some i ∧ s.posL[i]? = some t := by
  obtain ⟨htm, htn, _⟩ := kwAt_some s.tparams k t h
  have htp := mem_tparams_pk s t htm hk
  have := slotU_isSome_of_mem k s.posL 0 ⟨t, htp, hk, htn⟩
  cases hsl : slotU 0 s.posL k with
  | none => rw [hsl] at this; cases this
  | some i =>
    obtain ⟨e, he, hek, hen⟩ := slotU_mem k s.posL 0 i hsl
    have hem := mem_posL_tparams s e (List.mem_of_getElem? he)
    have : e = t := nodup_name_eq s.tparams hs e t hem htm (by rw [hen, htn])
    subst this
    exact ⟨i, rfl, by simpa using he⟩

theorem slot_none_of_kwAt (s : TDefSig τ) (hs : s.WF) (k : String)
    (h : ∀ t, kwAt s.tparams k = some t → t.kind ≠ .posOrKw) : slotU 0 s.posL k = none := by
  cases hsl : slotU 0 s.posL k with
  | none => rfl
  | some i =>
    exfalso
    obtain ⟨e, he, hek, hen⟩ := slotU_mem k s.posL 0 i hsl
    have hem := mem_posL_tparams s e (List.mem_of_getElem? he)
    have := kwAt_of_mem s.tparams hs e hem (Or.inl hek)
    rw [hen] at this
    exact h e this hek

section joint2
variable (R : TyRel τ) (their : List (TParam τ)) (avp avk : Option τ)

theorem pos_joint_at : ∀ (es as : List (TParam τ)) (i : Nat) (e : TParam τ),
    matchPos R their avp avk es as = true → es[i]? = some e → posStepOk R their avp avk e as[i]? = true := by
  intro es
  induction es with
  | nil => intro as i e _ h; simp at h
  | cons x es ih =>
    intro as i e hm he
    cases as with
    | nil =>
      simp only [matchPos, Bool.and_eq_true] at hm
      cases i with
      | zero => simp at he; subst he; simpa using hm.1
      | succ i =>
        simp only [List.getElem?_cons_succ] at he
        have := ih [] i e hm.2 he
        simpa using this
    | cons a as =>
      simp only [matchPos, Bool.and_eq_true] at hm
      cases i with
      | zero => simp at he; subst he; simpa using hm.1
      | succ i =>
        simp only [List.getElem?_cons_succ] at he ⊢
        exact ih as i e hm.2 he

/-- Names in `consumed_keyword` after the positional segment are names of expected
positional-or-keyword parameters. -/
theorem posFinal_ck_pk (n : String) : ∀ (es as : List (TParam τ)) (st : SaSt),
    matchPos R their avp avk es as = true →
    n ∈ (posFinal st es as).ck → n ∈ st.ck ∨ ∃ e ∈ es, e.kind = .posOrKw ∧ e.name = n := by
  intro es
  induction es with
  | nil => intro as st _ h; exact Or.inl h
  | cons e es ih =>
    intro as st hm h
    cases as with
    | nil =>
      simp only [matchPos, Bool.and_eq_true] at hm
      rcases ih [] _ hm.2 h with h' | ⟨e', he', hk, hn⟩
      · exact Or.inl (by simpa [posUpd] using h')
      · exact Or.inr ⟨e', by simp [he'], hk, hn⟩
    | cons a as =>
      simp only [matchPos, Bool.and_eq_true] at hm
      rcases ih as _ hm.2 h with h' | ⟨e', he', hk, hn⟩
      · simp only [posUpd] at h'
        split at h'
        · rename_i hek
          simp at h'
          rcases h' with h' | h'
          · right
            have h1 := hm.1
            simp only [posStepOk, hek, if_true, Bool.and_eq_true, beq_iff_eq] at h1
            exact ⟨e, by simp, by simpa using hek, by rw [h', h1.1.1.2]⟩
          · exact Or.inl h'
        · exact Or.inl (by simpa using h')
      · exact Or.inr ⟨e', by simp [he'], hk, hn⟩

/-- Names in `consumed_required_pos_only` that the expected header accepts as keywords belong
to positional-only actual parameters — unless the pair is in the `clash` class. -/
theorem posFinal_crpo_po (acc : String → Bool) (n : String) (hacc : acc n = true) :
    ∀ (es as : List (TParam τ)) (st : SaSt),
    (∀ e ∈ es, isPositional e.kind = true) →
    (∀ a ∈ as, isPositional a.kind = true) → clash acc es as = false →
    n ∈ (posFinal st es as).crpo →
      n ∈ st.crpo ∨ ∃ a ∈ as.take es.length, a.name = n ∧ a.kind = .posOnly := by
  intro es
  induction es with
  | nil => intro as st _ _ _ h; exact Or.inl h
  | cons e es ih =>
    intro as st hes has hc h
    have hes' : ∀ x ∈ es, isPositional x.kind = true := fun x hx => hes x (by simp [hx])
    cases as with
    | nil =>
      rcases ih [] _ hes' (by simp) (by cases es <;> rfl) h with h' | ⟨a, ha, _⟩
      · exact Or.inl (by simpa [posUpd] using h')
      · simp at ha
    | cons a as =>
      simp only [clash, Bool.or_eq_false_iff] at hc
      have has' : ∀ x ∈ as, isPositional x.kind = true := fun x hx => has x (by simp [hx])
      rcases ih as _ hes' has' hc.2 h with h' | ⟨a', ha', hn, hk⟩
      · simp only [posUpd] at h'
        split at h'
        · exact Or.inl (by simpa using h')
        · rename_i hek
          simp only at h'
          split at h'
          · exact Or.inl h'
          · simp at h'
            rcases h' with h' | h'
            · right
              refine ⟨a, by simp, h'.symm, ?_⟩
              have hc1 := hc.1
              rw [← h', hacc] at hc1
              have hak := has a (by simp)
              have hekk := hes e (by simp)
              revert hc1 hak hek hekk
              cases a.kind <;> cases e.kind <;> simp [isPositional]
            · exact Or.inl h'
      · exact Or.inr ⟨a', by simp [ha'], hn, hk⟩

end joint2

/-- The two lookups agree on keyword-only parameters. -/
theorem koAt_of_kwAt_ko (their : List (TParam τ)) (m : String) (t : TParam τ)
    (h : kwAt their m = some t) (hk : t.kind = .kwOnly) : koAt their m = some t := by
  unfold kwAt at h
  unfold koAt
  rw [Option.filter_eq_some_iff] at h ⊢
  exact ⟨h.1, by simp [hk]⟩

theorem koAt_none_of_kwAt_none (their : List (TParam τ)) (m : String)
    (h : kwAt their m = none) : koAt their m = none := by
  unfold kwAt at h
  unfold koAt
  cases hf : their.find? (·.name == m) with
  | none => rfl
  | some t =>
    rw [hf] at h
    simp only [Option.filter] at h ⊢
    split at h
    · cases h
    · rename_i hk
      simp only [Bool.or_eq_true, beq_iff_eq, not_or] at hk
      simp [hk.2]

theorem vpOk_some (R : TyRel τ) (their : List (TParam τ)) (avp : Option τ) (st : SaSt) (x : String × τ)
    (h : vpOk R their avp st (some x) = true) :
    ∃ T, avp = some T ∧ R.vpvp T x.2 = true ∧
      ∀ p ∈ their, p.name ∉ st.cp → isPositional p.kind = true → R.xvp p.ann x.2 = true := by
  unfold vpOk at h
  cases avp with
  | none => simp at h
  | some T =>
    simp only [Bool.and_eq_true, List.all_eq_true, List.mem_filter] at h
    refine ⟨T, rfl, h.1, fun p hp hn hk => h.2 p ⟨hp, by simp [hn, hk]⟩⟩

theorem vkOk_some (R : TyRel τ) (their : List (TParam τ)) (avk : Option τ) (st : SaSt) (x : String × τ)
    (h : vkOk R their avk st (some x) = true) :
    ∃ U, avk = some U ∧ R.vkvk U x.2 = true ∧
      ∀ p ∈ their, p.name ∉ st.ck → (p.kind = .kwOnly ∨ p.kind = .posOrKw) → p.name ∉ st.crpo →
        R.xvk p.ann x.2 = true := by
  unfold vkOk at h
  cases avk with
  | none => simp at h
  | some U =>
    simp only [Bool.and_eq_true, List.all_eq_true, List.mem_filter] at h
    refine ⟨U, rfl, h.1, fun p hp hn hk hc => h.2 p ⟨hp, ?_⟩⟩
    rcases hk with hk | hk <;> simp [hn, hk, hc]

theorem nf_contra (R : TyRel τ) (sup : τ → τ → Prop) (hR : RelSound R sup) (E A : TDefSig τ)
    (hE : E.WF) (hA : A.WF) (hnf : nf R E A = true)
    (hD1 : D07_posKwClash E A = false) :
    ArgsContra sup E A := by
  intro c hc
  obtain ⟨n, ks⟩ := c
  rw [cpy_iff] at hc
  obtain ⟨_, hn, hkw, _, _⟩ := hc
  unfold nf at hnf
  simp only [Bool.and_eq_true] at hnf
  obtain ⟨⟨⟨⟨⟨_, hmp⟩, hvp⟩, hkoOk⟩, hvk⟩, _⟩ := hnf
  have hposnd := posL_nodup A hA
  constructor
  · -- positional arguments
    intro i hi
    simp only at hi
    unfold slotTy
    cases heI : E.posL[i]? with
    | some e =>
      have hst := pos_joint_at R _ _ _ E.posL A.posL i e hmp heI
      cases haI : A.posL[i]? with
      | some a =>
        rw [haI] at hst
        simp only [posStepOk, Bool.and_eq_true] at hst
        exact ⟨e.ann, a.ann, rfl, rfl, hR.asg _ _ hst.2⟩
      | none =>
        rw [haI] at hst
        simp only [posStepOk] at hst
        cases hv : A.vp with
        | none => simp [hv] at hst
        | some y =>
          refine ⟨e.ann, y.2, rfl, rfl, hR.evp _ _ ?_⟩
          simp only [hv, Option.map_some] at hst
          split at hst
          · cases hk : A.vk <;> simp [hk] at hst
            exact hst.1
          · exact hst
    | none =>
      have hle : E.posL.length ≤ i := by simpa using heI
      cases hv : E.vp with
      | none =>
        rcases hn with hn | hn
        · omega
        · rw [hv] at hn; cases hn
      | some x =>
        rw [hv] at hvp
        obtain ⟨T, hT, hvv, hext⟩ := vpOk_some R _ _ _ x hvp
        cases haI : A.posL[i]? with
        | some a =>
          refine ⟨x.2, a.ann, rfl, rfl, hR.xvp _ _ ?_⟩
          have hadrop : a ∈ A.posL.drop E.posL.length := by
            have : (A.posL.drop E.posL.length)[i - E.posL.length]? = some a := by
              rw [List.getElem?_drop, ← haI]; congr 1; omega
            exact List.mem_of_getElem? this
          have hapos : a ∈ A.posL := List.mem_of_mem_drop hadrop
          apply hext a (mem_posL_tparams A a hapos) ?_ (posL_positional A a hapos)
          intro hcp
          simp only [st1] at hcp
          rcases posFinal_cp_sub a.name E.posL A.posL {} hcp with h | h
          · simp at h
          · exact drop_disjoint_take A.posL hposnd E.posL.length a hadrop h
        | none =>
          cases hav : A.vp with
          | none => simp [hav] at hT
          | some y =>
            simp only [hav, Option.map_some, Option.some.injEq] at hT
            exact ⟨x.2, y.2, rfl, rfl, hR.vpvp _ _ (by rw [hT]; exact hvv)⟩
  · -- keyword arguments
    intro k hk
    simp only at hk
    rw [kwTy_eq E hE, kwTy_eq A hA]
    cases hEk : kwAt E.tparams k with
    | some t =>
      obtain ⟨htm, htn, htk⟩ := kwAt_some E.tparams k t hEk
      rcases htk with htk | htk
      · -- lands on an expected positional-or-keyword parameter
        obtain ⟨i, hsl, hti⟩ := slot_of_kwAt_pk E hE k t hEk htk
        have hacc := acceptsKw_of_slot E k i hsl
        have hst := pos_joint_at R _ _ _ E.posL A.posL i t hmp hti
        cases haI : A.posL[i]? with
        | some a =>
          rw [haI] at hst
          simp only [posStepOk, htk, beq_self_eq_true, if_true, Bool.and_eq_true, beq_iff_eq] at hst
          have hapos : a ∈ A.posL := List.mem_of_getElem? haI
          have := kwAt_of_mem A.tparams hA a (mem_posL_tparams A a hapos) (Or.inl hst.1.1.1)
          rw [← hst.1.1.2, htn] at this
          rw [this]
          exact ⟨t.ann, a.ann, rfl, rfl, hR.asg _ _ hst.2⟩
        | none =>
          rw [haI] at hst
          simp only [posStepOk, htk, beq_self_eq_true, if_true] at hst
          cases hav : A.vp with
          | none => simp [hav] at hst
          | some y =>
          cases hak : A.vk with
          | none => simp [hav, hak] at hst
          | some z =>
          simp only [hav, hak, Option.map_some, Bool.and_eq_true] at hst
          cases hAk : kwAt A.tparams k with
          | some b =>
            obtain ⟨hbm, hbn, hbk⟩ := kwAt_some A.tparams k b hAk
            rcases hbk with hbk | hbk
            · exfalso
              have hsome := slotU_isSome_of_mem k A.posL 0 ⟨b, mem_tparams_pk A b hbm hbk, hbk, hbn⟩
              rcases slot_joint_E R _ _ _ (acceptsKw E) k hacc E.posL A.posL 0 i (posL_positional E) hmp hD1 hsl
                with h | ⟨h, _⟩
              · obtain ⟨a, ha, _⟩ := slotU_mem k A.posL 0 i h
                simp only [Nat.sub_zero] at ha
                rw [haI] at ha; cases ha
              · rw [h] at hsome; cases hsome
            · -- their keyword-only parameter of that name was compared (fix d699eb1)
              rw [htn, koAt_of_kwAt_ko A.tparams k b hAk hbk] at hst
              exact ⟨t.ann, b.ann, rfl, rfl, hR.asg _ _ hst.2⟩
          | none =>
            rw [htn, koAt_none_of_kwAt_none A.tparams k hAk] at hst
            exact ⟨t.ann, z.2, rfl, rfl, hR.evk _ _ hst.2⟩
      · -- lands on an expected keyword-only parameter
        have hko := mem_tparams_ko E t htm htk
        have hok := List.all_eq_true.mp hkoOk t hko
        simp only [koStepOk, htn] at hok
        cases hAk : kwAt A.tparams k with
        | some b =>
          rw [hAk] at hok
          simp only [Bool.and_eq_true] at hok
          exact ⟨t.ann, b.ann, rfl, rfl, hR.asg _ _ hok.2⟩
        | none =>
          rw [hAk] at hok
          cases hak : A.vk with
          | none => simp [hak] at hok
          | some z =>
            simp only [hak, Option.map_some] at hok
            exact ⟨t.ann, z.2, rfl, rfl, hR.evk _ _ hok⟩
    | none =>
      -- lands in the expected **kwargs
      have hslE : slotU 0 E.posL k = none :=
        slot_none_of_kwAt E hE k (by intro t h; rw [hEk] at h; cases h)
      have hEkw := hkw k hk
      simp only [kwOkU, hslE, Bool.or_eq_true] at hEkw
      have hvkS : E.vk.isSome = true := by
        rcases hEkw with h | h
        · exfalso
          obtain ⟨q, hq, hqn⟩ := List.any_eq_true.mp h
          have hqn : q.name = k := by simpa using hqn
          have hm : TP.toT .kwOnly q ∈ E.tparams := mem_koL_tparams E _ (List.mem_map.mpr ⟨q, hq, rfl⟩)
          have := kwAt_of_mem E.tparams hE _ hm (Or.inr rfl)
          simp only [TP.toT] at this
          rw [hqn, hEk] at this; cases this
        · exact h
      cases hv : E.vk with
      | none => rw [hv] at hvkS; cases hvkS
      | some x =>
        rw [hv] at hvk
        obtain ⟨U, hU, hvv, hext⟩ := vkOk_some R _ _ _ x hvk
        have hacc : acceptsKw E k = true := by simp [acceptsKw, hv]
        cases hAk : kwAt A.tparams k with
        | some b =>
          obtain ⟨hbm, hbn, hbk⟩ := kwAt_some A.tparams k b hAk
          refine ⟨x.2, b.ann, rfl, rfl, hR.xvk _ _ ?_⟩
          apply hext b hbm ?_ (by rcases hbk with h | h; exact Or.inr h; exact Or.inl h) ?_
          · -- not in consumed_keyword
            intro hck
            unfold st3 at hck
            rcases kofold_ck_sub A.tparams b.name E.koL _ hck with h | ⟨e, he, t', ht', hn'⟩
            · simp only [st1] at h
              rcases posFinal_ck_pk R _ _ _ b.name E.posL A.posL {} hmp h with h' | ⟨e, he, hek, hen⟩
              · simp at h'
              · have := kwAt_of_mem E.tparams hE e (mem_posL_tparams E e he) (Or.inl hek)
                rw [hen, hbn, hEk] at this; cases this
            · obtain ⟨_, htn', _⟩ := kwAt_some A.tparams e.name t' ht'
              have hek : e.kind = .kwOnly := by
                simp only [TDefSig.koL, List.mem_map] at he
                obtain ⟨q, _, rfl⟩ := he; rfl
              have := kwAt_of_mem E.tparams hE e (mem_koL_tparams E e he) (Or.inr hek)
              rw [← htn', hn', hbn, hEk] at this; cases this
          · -- not in consumed_required_pos_only
            intro hcr
            unfold st3 at hcr
            rw [(kofold_cp A.tparams E.koL _).2] at hcr
            simp only [st1] at hcr
            rw [hbn] at hcr
            rcases posFinal_crpo_po (acceptsKw E) k hacc E.posL A.posL {} (posL_positional E)
              (posL_positional A) hD1 hcr with h | ⟨a, ha, han, hak⟩
            · simp at h
            · have hapos : a ∈ A.posL := List.mem_of_mem_take ha
              have : a = b := nodup_name_eq A.tparams hA a b (mem_posL_tparams A a hapos) hbm (by rw [han, hbn])
              subst this
              rcases hbk with h | h <;> rw [hak] at h <;> cases h
        | none =>
          cases hak : A.vk with
          | none => simp [hak] at hU
          | some z =>
            simp only [hak, Option.map_some, Option.some.injEq] at hU
            exact ⟨x.2, z.2, rfl, rfl, hR.vkvk _ _ (by rw [hU]; exact hvv)⟩

theorem nf_ret (R : TyRel τ) (E A : TDefSig τ) (hnf : nf R E A = true) : R.asg E.ret A.ret = true := by
  unfold nf at hnf
  simp only [Bool.and_eq_true] at hnf
  exact hnf.1.1.1.1.1

/-! ## Part E — the behavioural exception classes are exact -/

theorem clash_elim (acc : String → Bool) : ∀ (es as : List (TParam τ)), clash acc es as = true →
    ∃ (j : Nat) (e a : TParam τ), es[j]? = some e ∧ as[j]? = some a ∧ e.kind = .posOnly ∧ a.kind = .posOrKw ∧ acc a.name = true := by
  intro es
  induction es with
  | nil => intro as h; simp [clash] at h
  | cons e es ih =>
    intro as h
    cases as with
    | nil => simp [clash] at h
    | cons a as =>
      simp only [clash, Bool.or_eq_true, Bool.and_eq_true, beq_iff_eq] at h
      rcases h with ⟨⟨h1, h2⟩, h3⟩ | h
      · exact ⟨0, e, a, rfl, rfl, h1, h2, h3⟩
      · obtain ⟨j, e', a', h1, h2, h3⟩ := ih as h
        exact ⟨j + 1, e', a', by simp [h1], by simp [h2], h3⟩

theorem posL_po_lt (s : TDefSig τ) (j : Nat) (e : TParam τ) (h : s.posL[j]? = some e)
    (hk : e.kind = .posOnly) : j < s.po.length := by
  by_cases hj : j < s.po.length
  · exact hj
  · exfalso
    simp only [TDefSig.posL] at h
    rw [List.getElem?_append_right (by simpa using Nat.le_of_not_lt hj)] at h
    have := List.mem_of_getElem? h
    simp only [List.mem_map] at this
    obtain ⟨q, _, rfl⟩ := this
    simp [TP.toT] at hk

/-- The first positional-or-keyword `m` of a list lies at or before any positional-or-keyword `m`. -/
theorem slotU_le (m : String) : ∀ (l : List (TParam τ)) (off j : Nat) (a : TParam τ),
    l[j]? = some a → a.kind = .posOrKw → a.name = m → ∃ j', slotU off l m = some j' ∧ j' ≤ off + j := by
  intro l
  induction l with
  | nil => intro off j a h; simp at h
  | cons p ps ih =>
    intro off j a h hk hn
    simp only [slotU]
    split
    · exact ⟨off, rfl, by omega⟩
    · rename_i hp
      cases j with
      | zero =>
        simp at h; subst h
        simp [hk, hn] at hp
      | succ j =>
        simp only [List.getElem?_cons_succ] at h
        obtain ⟨j', h1, h2⟩ := ih (off + 1) j a h hk hn
        exact ⟨j', h1, by omega⟩

theorem filledU_lt (n : Nat) (ks : List String) : ∀ (l : List (TParam τ)) (off : Nat),
    off + l.length ≤ n → filledU n ks off l = true := by
  intro l
  induction l with
  | nil => intro off _; rfl
  | cons p ps ih =>
    intro off h
    simp only [List.length_cons] at h
    simp only [filledU, Bool.and_eq_true, Bool.or_eq_true, decide_eq_true_eq]
    exact ⟨Or.inl (Or.inl (by omega)), ih _ (by omega)⟩

theorem slotU_none_of_not_mem (k : String) : ∀ (l : List (TParam τ)) (off : Nat),
    (∀ a ∈ l, a.kind = .posOrKw → a.name ≠ k) → slotU off l k = none := by
  intro l
  induction l with
  | nil => intro off _; rfl
  | cons p ps ih =>
    intro off h
    simp only [slotU]
    split
    · rename_i hp
      simp only [Bool.and_eq_true, beq_iff_eq] at hp
      exact absurd hp.2 (h p (by simp) hp.1)
    · exact ih _ (fun a ha => h a (by simp [ha]))

/-- Keyword names of a header: positional-or-keyword, then keyword-only. -/
def kwNames (s : TDefSig τ) : List String := s.pk.map (·.name) ++ s.ko.map (·.name)

theorem kwNames_nodup (s : TDefSig τ) (hs : s.WF) : (kwNames s).Nodup := by
  unfold TDefSig.WF TDefSig.tparams TDefSig.posL TDefSig.koL at hs
  simp only [List.map_append, List.map_map] at hs
  have h1 := (List.nodup_append.mp hs).1
  have h2 := List.nodup_append.mp h1
  have h3 := List.nodup_append.mp h2.1
  have h4 := List.nodup_append.mp h3.1
  unfold kwNames
  rw [List.nodup_append]
  refine ⟨by simpa [Function.comp_def, TP.toT] using h4.2.1, by simpa [Function.comp_def, TP.toT] using h2.2.1, ?_⟩
  intro a ha b hb
  apply h2.2.2 a ?_ b (by simpa [Function.comp_def, TP.toT] using hb)
  apply List.mem_append_left
  apply List.mem_append_right
  simpa [Function.comp_def, TP.toT] using ha

/-- `posKwClash` alone (whatever pyanalyze answers) makes the pair behaviourally unsound: the call
with all positional-only parameters passed positionally, everything else by keyword, plus the
clashing keyword, binds to the expected header and not to the actual one. -/
theorem posKwClash_cex (E A : TDefSig τ) (hE : E.WF) (hD : D07_posKwClash E A = true) :
    ∃ c, cpyBind E.shape c = true ∧ cpyBind A.shape c = false := by
  obtain ⟨j, e, a, he, ha, hek, hak, hacc⟩ := clash_elim (acceptsKw E) E.posL A.posL hD
  have hj := posL_po_lt E j e he hek
  let m := a.name
  let ks := if (kwNames E).contains m then kwNames E else kwNames E ++ [m]
  have hm : m ∈ ks := by
    simp only [ks]; split
    · rename_i h; simpa using h
    · simp
  have hks : ∀ k ∈ ks, k ∈ kwNames E ∨ (k = m ∧ m ∉ kwNames E) := by
    intro k hk
    simp only [ks] at hk
    split at hk
    · exact Or.inl hk
    · rename_i h
      rcases List.mem_append.mp hk with h' | h'
      · exact Or.inl h'
      · right; simp at h'; exact ⟨h', by simpa using h⟩
  have hsub : ∀ k ∈ kwNames E, k ∈ ks := by
    intro k hk
    simp only [ks]; split
    · exact hk
    · exact List.mem_append_left _ hk
  refine ⟨⟨E.po.length, ks⟩, ?_, ?_⟩
  rotate_left
  · -- the actual header rejects the call
    rw [Bool.eq_false_iff]
    intro hb
    rw [cpy_iff] at hb
    have := hb.2.2.1 m hm
    obtain ⟨j', h1, h2⟩ := slotU_le m A.posL 0 j a ha hak rfl
    simp only [kwOkU, h1, Bool.not_eq_true', decide_eq_false_iff_not] at this
    omega
  · -- the expected header binds it
    rw [cpy_iff]
    refine ⟨?_, Or.inl (by simp [TDefSig.posL]), ?_, ?_, ?_⟩
    · simp only [ks]; split
      · exact kwNames_nodup E hE
      · rename_i h
        rw [List.nodup_append]
        refine ⟨kwNames_nodup E hE, by simp, ?_⟩
        intro x hx y hy
        simp at hy; subst hy
        intro hxy; subst hxy
        exact h (by simpa using hx)
    · intro k hk
      unfold kwOkU
      cases hsl : slotU 0 E.posL k with
      | some i =>
        have : E.po.length ≤ i := by
          simp only [TDefSig.posL, slotU_po] at hsl
          have := slotU_ge k _ _ _ hsl
          omega
        simp; omega
      | none =>
        simp only [Bool.or_eq_true]
        rcases hks k hk with h | ⟨h1, h2⟩
        · simp only [kwNames, List.mem_append, List.mem_map] at h
          rcases h with ⟨p, hp, hpn⟩ | ⟨p, hp, hpn⟩
          · exfalso
            have := slotU_isSome_of_mem k E.posL 0 ⟨TP.toT .posOrKw p, by
              simp only [TDefSig.posL, List.mem_append, List.mem_map]; exact Or.inr ⟨p, hp, rfl⟩, rfl, hpn⟩
            rw [hsl] at this; cases this
          · exact Or.inl (List.any_eq_true.mpr ⟨p, hp, by simpa using hpn⟩)
        · subst h1
          simp only [acceptsKw, Bool.or_eq_true] at hacc
          rcases hacc with (h | h) | h
          · exact Or.inr h
          · exfalso; apply h2
            obtain ⟨p, hp, hpn⟩ := List.any_eq_true.mp h
            simp only [kwNames, List.mem_append, List.mem_map]
            exact Or.inl ⟨p, hp, by simpa using hpn⟩
          · exact Or.inl h
    · simp only [TDefSig.posL, filledU_append, Bool.and_eq_true]
      constructor
      · exact filledU_lt _ _ _ _ (by simp)
      · apply filledU_of_all
        intro p hp
        simp only [List.mem_map] at hp
        obtain ⟨q, hq, rfl⟩ := hp
        left
        simp only [TP.toT, beq_self_eq_true, Bool.true_and, List.contains_eq_mem, decide_eq_true_eq]
        apply hsub
        simp only [kwNames, List.mem_append, List.mem_map]
        exact Or.inl ⟨q, hq, rfl⟩
    · intro p hp
      left
      apply hsub
      simp only [kwNames, List.mem_append, List.mem_map]
      exact Or.inr ⟨p, hp, rfl⟩

theorem koNames_facts (s : TDefSig τ) (hs : s.WF) :
    (s.ko.map (·.name)).Nodup ∧ ∀ k ∈ s.ko.map (·.name), k ∉ s.pk.map (·.name) := by
  have h := kwNames_nodup s hs
  unfold kwNames at h
  rw [List.nodup_append] at h
  exact ⟨h.2.1, fun k hk hk' => h.2.2 k hk' k hk rfl⟩

/-- `starKwClash` alone makes the pair behaviourally unsound: enough positionals to reach the
clashing parameter of the actual header, all keyword-only parameters and the clashing keyword. -/
theorem starKwClash_cex (E A : TDefSig τ) (hE : E.WF) (hD : D07_starKwClash E A = true) :
    ∃ c, cpyBind E.shape c = true ∧ cpyBind A.shape c = false := by
  simp only [D07_starKwClash, Bool.and_eq_true, List.any_eq_true, beq_iff_eq] at hD
  obtain ⟨hvp, a, hadrop, hak, hacc⟩ := hD
  obtain ⟨i, hi⟩ := List.mem_iff_getElem?.mp hadrop
  rw [List.getElem?_drop] at hi
  let j := E.posL.length + i
  let m := a.name
  let kn := E.ko.map (·.name)
  let ks := if kn.contains m then kn else kn ++ [m]
  obtain ⟨hknd, hkpk⟩ := koNames_facts E hE
  simp only [acceptsKwStar, Bool.and_eq_true, Bool.not_eq_true', Bool.or_eq_true] at hacc
  have hm : m ∈ ks := by
    simp only [ks]; split
    · rename_i h; simpa using h
    · simp
  have hks : ∀ k ∈ ks, k ∈ kn ∨ k = m := by
    intro k hk
    simp only [ks] at hk
    split at hk
    · exact Or.inl hk
    · rcases List.mem_append.mp hk with h' | h'
      · exact Or.inl h'
      · right; simpa using h'
  have hsub : ∀ k ∈ kn, k ∈ ks := by
    intro k hk
    simp only [ks]; split
    · exact hk
    · exact List.mem_append_left _ hk
  refine ⟨⟨j + 1, ks⟩, ?_, ?_⟩
  rotate_left
  · rw [Bool.eq_false_iff]
    intro hb
    rw [cpy_iff] at hb
    have := hb.2.2.1 m hm
    obtain ⟨j', h1, h2⟩ := slotU_le m A.posL 0 j a hi hak rfl
    simp only [kwOkU, h1, Bool.not_eq_true', decide_eq_false_iff_not] at this
    omega
  · rw [cpy_iff]
    refine ⟨?_, Or.inr hvp, ?_, filledU_lt _ _ _ _ (by simp only [j]; omega), ?_⟩
    · simp only [ks]; split
      · exact hknd
      · rename_i h
        rw [List.nodup_append]
        refine ⟨hknd, by simp, ?_⟩
        intro x hx y hy
        simp at hy; subst hy
        intro hxy; subst hxy
        exact h (by simpa using hx)
    · intro k hk
      have hnopk : ∀ p ∈ E.pk, p.name ≠ k := by
        intro p hp hpn
        rcases hks k hk with h | h
        · exact hkpk k h (List.mem_map.mpr ⟨p, hp, hpn⟩)
        · have := List.any_eq_false.mp hacc.1 p hp
          rw [h] at hpn
          simp [hpn] at this
          exact this rfl
      have hsl : slotU 0 E.posL k = none := by
        apply slotU_none_of_not_mem
        intro x hx hxk
        simp only [TDefSig.posL, List.mem_append, List.mem_map] at hx
        rcases hx with ⟨q, _, rfl⟩ | ⟨q, hq, rfl⟩
        · simp [TP.toT] at hxk
        · exact hnopk q hq
      simp only [kwOkU, hsl, Bool.or_eq_true]
      rcases hks k hk with h | h
      · obtain ⟨p, hp, hpn⟩ := List.mem_map.mp h
        exact Or.inl (List.any_eq_true.mpr ⟨p, hp, by simpa using hpn⟩)
      · subst h
        rcases hacc.2 with h | h
        · exact Or.inr h
        · exact Or.inl h
    · intro p hp
      left
      exact hsub _ (List.mem_map.mpr ⟨p, hp, rfl⟩)


/-! ## Part F — the override route -/

theorem bindSelf_method (a : τ) (m : FnMember τ) (hm : m.static = false) :
    bindSelf (m.raw a) = some m.hdr.tsig := by
  unfold FnMember.raw bindSelf
  simp only [hm, Bool.false_eq_true, if_false]
  cases m.hdr.po.isEmpty <;> rfl

theorem raw_static (a : τ) (m : FnMember τ) (hm : m.static = true) : m.raw a = m.hdr.tsig := by
  simp [FnMember.raw, hm]

/-- For function members (methods and staticmethods alike, since /repo 7244153)
`_can_assign_to_base_callable` is `Signature.can_assign` on the headers a caller passes. -/
theorem callableOk_hdr (R : TyRel τ) (a : τ) (b c : FnMember τ) :
    callableOk R b.static (b.raw a) c.static (c.raw a) = sigCanAssign R b.hdr.tsig c.hdr.tsig := by
  have hB : (if b.static then some (b.raw a) else bindSelf (b.raw a)) = some b.hdr.tsig := by
    cases hb : b.static
    · simp [bindSelf_method a b hb]
    · simp [raw_static a b hb]
  have hC : (if c.static then some (c.raw a) else bindSelf (c.raw a)) = some c.hdr.tsig := by
    cases hc : c.static
    · simp [bindSelf_method a c hc]
    · simp [raw_static a c hc]
  unfold callableOk
  rw [hB, hC]

theorem overrideOk_iff (R : TyRel τ) (defs : Nat → Option (Member τ)) (anc : List Nat)
    (child : Member τ) :
    overrideOk R defs anc child = true ↔
      ∀ i ∈ anc, ∀ b, defs i = some b → memberOk R b child = true := by
  unfold overrideOk
  simp only [List.all_eq_true, List.mem_filterMap]
  constructor
  · intro h i hi b hb
    exact h b ⟨i, hi, hb⟩
  · rintro h b ⟨i, hi, hb⟩
    exact h i hi b hb

theorem overrideOk_perm (R : TyRel τ) (defs : Nat → Option (Member τ)) (l₁ l₂ : List Nat)
    (hp : l₁.Perm l₂) (child : Member τ) :
    overrideOk R defs l₁ child = overrideOk R defs l₂ child := by
  rw [Bool.eq_iff_iff, overrideOk_iff, overrideOk_iff]
  constructor
  · intro h i hi; exact h i (hp.mem_iff.mpr hi)
  · intro h i hi; exact h i (hp.mem_iff.mp hi)

theorem posKwClash_unsound (E A : TDefSig τ) (hE : E.WF) (hD : D07_posKwClash E A = true) :
    ¬ BehSound E A := by
  intro hs
  obtain ⟨c, h1, h2⟩ := posKwClash_cex E A hE hD
  rw [hs c h1] at h2; cases h2

theorem starKwClash_unsound (E A : TDefSig τ) (hE : E.WF) (hD : D07_starKwClash E A = true) :
    ¬ BehSound E A := by
  intro hs
  obtain ⟨c, h1, h2⟩ := starKwClash_cex E A hE hD
  rw [hs c h1] at h2; cases h2

end Pya.C07
