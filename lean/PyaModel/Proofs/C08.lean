import PyaModel.Spec.Overload
import PyaModel.Proofs.C04
import PyaModel.Generated.ClassTable
/-!
# Proofs/C08 — helper lemmas for the overload kernel

A. `dedup` / `unite` on pairwise different non-union members
B. the per-parameter fold of `checkOne` when nothing decomposes
C. the overload loop without unions: the recursive normal form `nfLoop`
D. one union argument: trichotomy of `checkOne` and the two loop inductions
E. `ua` on flat annotations (no class table involved)
-/
namespace Pya.C08

/-! ## A. `dedup`, `unite` -/

theorem dictMem_eq_any (v : Ty) : ∀ acc, dictMem v acc = acc.any (fun e => deq e v)
  | [] => by simp [dictMem]
  | e :: es => by simp [dictMem, deq, dictMem_eq_any v es]

theorem dedup_length_ge : ∀ (vs acc : List Ty), acc.length ≤ (dedup acc vs).length
  | [], acc => by simp [dedup]
  | v :: vs, acc => by
    unfold dedup
    split
    · exact dedup_length_ge vs acc
    · have := dedup_length_ge vs (acc ++ [v]); simp at this; omega

/-- Pairwise different members that also differ from everything collected so far are all kept. -/
theorem dedup_distinct : ∀ (vs acc : List Ty), (∀ x ∈ acc, ∀ y ∈ vs, deq x y = false) →
    DistinctTys vs → dedup acc vs = acc ++ vs
  | [], acc, _, _ => by simp [dedup]
  | v :: vs, acc, h, hd => by
    have hd' := List.pairwise_cons.mp hd
    have hm : dictMem v acc = false := by
      rw [dictMem_eq_any]; simp only [List.any_eq_false]
      intro x hx; simpa using h x hx v (by simp)
    unfold dedup; simp only [hm]
    rw [dedup_distinct vs (acc ++ [v])]
    · simp
    · intro x hx y hy
      rcases List.mem_append.mp hx with hx | hx
      · exact h x hx y (by simp [hy])
      · simp at hx; subst hx; exact hd'.1 y hy
    · exact hd'.2

theorem flatten1_of_not_unionLike {t : Ty} (h : unionLike t = false) : flatten1 t = [t] := by
  cases t with
  | annotated u => cases u <;> simp_all [flatten1, unionLike]
  | _ => simp_all [flatten1, unionLike]

theorem flatMap_flatten1 : ∀ (ts : List Ty), (∀ t ∈ ts, unionLike t = false) → ts.flatMap flatten1 = ts
  | [], _ => rfl
  | t :: ts, h => by
    simp only [List.flatMap_cons, flatten1_of_not_unionLike (h t (by simp))]
    rw [flatMap_flatten1 ts (fun x hx => h x (by simp [hx]))]; rfl

/-- The value a list of remaining union members stands for. -/
def valOf : List Ty → Ty
  | [r] => r
  | rs => .union rs

theorem unite_eq_valOf (rs : List Ty) (hf : ∀ t ∈ rs, unionLike t = false) (hd : DistinctTys rs) :
    unite rs = valOf rs := by
  unfold unite
  rw [flatMap_flatten1 rs hf, dedup_distinct rs [] (by simp) hd]
  match rs with
  | [] => rfl
  | [r] => rfl
  | _ :: _ :: _ => rfl

theorem unite_normalRet {t : Ty} (h : normalRet t = true) : unite [t] = t := by
  cases t with
  | union ts =>
    simp only [normalRet, Bool.and_eq_true, decide_eq_true_eq, List.all_eq_true, Bool.not_eq_true'] at h
    obtain ⟨⟨hl, hf⟩, hd⟩ := h
    unfold unite
    simp only [List.flatMap_cons, List.flatMap_nil, flatten1, List.append_nil]
    rw [dedup_distinct ts [] (by simp) hd]
    match ts, hl with
    | _ :: _ :: _, _ => rfl
  | annotated u =>
    cases u <;> simp_all [normalRet, unite, flatten1, dedup, dictMem]
  | _ => simp [unite, flatten1, dedup, dictMem]

/-- A set of return types that contains two different ones has more than one element. -/
theorem dedup_len_one {h : Ty} : ∀ (t : List Ty), (dedup [h] t).length = 1 → ∀ x ∈ t, deq h x = true
  | [], _, x, hx => by simp at hx
  | v :: vs, hl, x, hx => by
    unfold dedup at hl
    by_cases hm : dictMem v [h] = true
    · simp only [hm, if_true] at hl
      rcases List.mem_cons.mp hx with rfl | hx
      · simpa [dictMem_eq_any] using hm
      · exact dedup_len_one vs hl x hx
    · simp only [hm] at hl
      have := dedup_length_ge vs ([h] ++ [v])
      simp at this hl; omega

/-! ## B. the per-parameter fold -/

def taskAcc (J : Judge) (t : Pos × Option (Ty × Ty)) : Bool :=
  match t.2 with
  | none => true
  | some (e, v) => J.acc e v

def taskUsed (J : Judge) (t : Pos × Option (Ty × Ty)) : Bool :=
  match t.2 with
  | none => false
  | some (e, v) => J.acc e v && J.used e v && !(t.1 == Pos.dflt)

/-- A rejected value of this task cannot be decomposed. -/
def NoDec (J : Judge) (t : Pos × Option (Ty × Ty)) : Prop :=
  match t.2 with
  | none => True
  | some (e, v) => J.acc e v = false → decompose J e v = none

theorem accepts_eq (J : Judge) (s : OSig) (a : CallArgs) :
    accepts J s a = match s.bind a with | none => false | some b => (tasks s a b).all (taskAcc J) := by
  unfold accepts taskAcc; rfl

theorem usedAnyIn_eq (J : Judge) (s : OSig) (a : CallArgs) :
    usedAnyIn J s a = match s.bind a with | none => false | some b => (tasks s a b).any (taskUsed J) := by
  unfold usedAnyIn taskUsed; rfl

theorem foldl_noDec (J : Judge) (a : CallArgs) : ∀ (ts : List (Pos × Option (Ty × Ty))) (st : ChkSt),
    (∀ t ∈ ts, NoDec J t) →
    ts.foldl (chkStep J a) st =
      { st with hadError := st.hadError || !(ts.all (taskAcc J)), usedAny := st.usedAny || ts.any (taskUsed J) }
  | [], st, _ => by simp
  | t :: ts, st, h => by
    have ht := h t (by simp)
    rw [List.foldl_cons, foldl_noDec J a ts _ (fun x hx => h x (by simp [hx]))]
    obtain ⟨p, o⟩ := t
    cases o with
    | none => simp [chkStep, taskAcc, taskUsed]
    | some ev =>
      obtain ⟨e, v⟩ := ev
      by_cases hacc : J.acc e v = true
      · simp [chkStep, taskAcc, taskUsed, hacc, Bool.or_assoc]
      · have hacc' : J.acc e v = false := by simpa using hacc
        have hd : decompose J e v = none := ht hacc'
        cases hov : st.isOv <;> simp [chkStep, taskAcc, taskUsed, hacc', hd, hov]

theorem decompose_not_unionLike (J : Judge) (e : Ty) {v : Ty} (h : unionLike v = false) :
    decompose J e v = none := by
  cases v with
  | annotated u => cases u <;> simp_all [decompose, unannot, unionLike]
  | _ => simp_all [decompose, unannot, unionLike]

theorem kwVal_mem {a : CallArgs} {n : String} {v : Ty} (h : a.kwVal n = some v) : v ∈ a.vals := by
  unfold CallArgs.kwVal at h
  cases hf : a.kws.find? (·.1 == n) with
  | none => simp [hf] at h
  | some k =>
    simp [hf] at h; subst h
    have := List.mem_of_find?_eq_some hf
    simp only [CallArgs.vals, List.mem_append, List.mem_map]
    exact Or.inr ⟨k, this, rfl⟩

/-- Every checked value is an argument of the call or a `*args` pack. -/
theorem entryVal_cases {a : CallArgs} {b : List (String × Pos)} {p : OParam} {pos : Pos} {v : Ty}
    (h : entryVal a b p pos = some v) : v ∈ a.vals ∨ ∃ xs, v = .seq C.tuple xs := by
  cases pos with
  | idx i =>
    simp only [entryVal] at h
    exact Or.inl (by simp only [CallArgs.vals, List.mem_append]; exact Or.inl (List.mem_of_getElem? h))
  | kw n => exact Or.inl (kwVal_mem h)
  | args => simp only [entryVal, Option.some.injEq] at h; exact Or.inr ⟨_, h.symm⟩
  | dflt =>
    simp only [entryVal] at h
    split at h
    · simp only [Option.some.injEq] at h; exact Or.inr ⟨_, h.symm⟩
    · simp at h
  | kwargs => simp [entryVal] at h
  | unknown => simp [entryVal] at h

theorem task_value {s : OSig} {a : CallArgs} {b : List (String × Pos)} {t : Pos × Option (Ty × Ty)}
    (ht : t ∈ tasks s a b) {e v : Ty} (h : t.2 = some (e, v)) :
    v ∈ a.vals ∨ ∃ xs, v = .seq C.tuple xs := by
  simp only [tasks, List.mem_map] at ht
  obtain ⟨en, _, rfl⟩ := ht
  simp only [entryTask] at h
  split at h
  · simp at h
  · rename_i p _
    cases hv : entryVal a b p en.2 with
    | none => simp [hv] at h
    | some w =>
      simp only [hv, Option.map_some, Option.some.injEq, Prod.mk.injEq] at h
      obtain ⟨_, rfl⟩ := h
      exact entryVal_cases hv

theorem tasks_noDec (J : Judge) (s : OSig) (a : CallArgs) (b : List (String × Pos))
    (hu : NoUnion a = true) : ∀ t ∈ tasks s a b, NoDec J t := by
  intro t ht
  unfold NoDec
  split
  · trivial
  · rename_i e v heq
    intro _
    apply decompose_not_unionLike
    rcases task_value ht heq with hv | ⟨xs, rfl⟩
    · simp only [NoUnion, List.all_eq_true, Bool.not_eq_true'] at hu
      exact hu v hv
    · rfl

/-- Without a union argument an overload is simply accepted or rejected; the flag is the "some
accepted check went through Any" of the specification. -/
theorem checkOne_noUnion (J : Judge) (s : OSig) (a : CallArgs) (hu : NoUnion a = true) (isOv : Bool) :
    checkOne J s a isOv = ⟨!accepts J s a, usedAnyIn J s a, none, s.ret⟩ := by
  unfold checkOne
  rw [accepts_eq, usedAnyIn_eq]
  cases hb : s.bind a with
  | none => simp
  | some b => simp [foldl_noDec J a _ _ (tasks_noDec J s a b hu)]

/-! ## C. the loop without unions -/

/-- Normal form of the loop when nothing decomposes. -/
def nfLoop (J : Judge) (a : CallArgs) : List OSig → List Ty → Res
  | [], aR => if !aR.isEmpty then uniteRets aR [] [] none else .err
  | s :: rest, aR =>
    if !accepts J s a then nfLoop J a rest aR
    else if usedAnyIn J s a then nfLoop J a rest (aR ++ [s.ret])
    else uniteRets aR [] [] (some s.ret)

theorem ovLoop_noUnion (J : Judge) (a : CallArgs) (hu : NoUnion a = true) : ∀ (L : List OSig) (aR : List Ty),
    ovLoop J L ⟨aR, [], [], a⟩ = nfLoop J a L aR
  | [], aR => by simp [ovLoop, nfLoop]
  | s :: rest, aR => by
    unfold ovLoop nfLoop
    simp only [checkOne_noUnion J s a hu]
    by_cases hacc : accepts J s a = true
    · by_cases hua : usedAnyIn J s a = true
      · simp [hacc, hua, ovLoop_noUnion J a hu rest]
      · simp [hacc, hua]
    · simp [hacc, ovLoop_noUnion J a hu rest]

theorem accepts_binds {J : Judge} {s : OSig} {a : CallArgs} (h : accepts J s a = true) :
    (s.bind a).isSome = true := by
  unfold accepts at h
  cases hb : s.bind a <;> simp_all

/-- Overloads that do not bind are never accepted, so filtering them out changes nothing. -/
theorem nfLoop_filter (J : Judge) (a : CallArgs) : ∀ (L : List OSig) (aR : List Ty),
    nfLoop J a (L.filter fun s => (s.bind a).isSome) aR = nfLoop J a L aR
  | [], _ => rfl
  | s :: rest, aR => by
    by_cases hb : (s.bind a).isSome = true
    · simp only [List.filter_cons, hb, if_true, nfLoop, nfLoop_filter J a rest]
    · have hacc : accepts J s a = false := by
        cases h : accepts J s a
        · rfl
        · exact absurd (accepts_binds h) hb
      simp only [List.filter_cons, hb, nfLoop, hacc]
      simpa using nfLoop_filter J a rest aR

theorem resolve_noUnion (J : Judge) (sigs : List OSig) (a : CallArgs) (hu : NoUnion a = true) :
    resolve J sigs a = nfLoop J a sigs [] := by
  unfold resolve
  simp only
  split
  · rename_i hemp
    rw [← nfLoop_filter]
    simp only [List.isEmpty_iff] at hemp
    rw [hemp]; rfl
  · have := ovLoop_noUnion J a hu (sigs.filter fun s => (s.bind a).isSome) []
    rw [← nfLoop_filter, ← this]

/-- No accepted check goes through Any: the normal form is first-match. -/
theorem nfLoop_noAnyUsed (J : Judge) (a : CallArgs) : ∀ (L : List OSig),
    (∀ s ∈ L, usedAnyIn J s a = false) →
    nfLoop J a L [] = match L.find? (accepts J · a) with
      | some s => .ok (unite [s.ret])
      | none => .err
  | [], _ => by simp [nfLoop]
  | s :: rest, h => by
    have hs := h s (by simp)
    unfold nfLoop
    by_cases hacc : accepts J s a = true
    · simp [hacc, hs, uniteRets]
    · have hacc' : accepts J s a = false := by simpa using hacc
      simp only [hacc', Bool.not_false, if_true, List.find?_cons]
      exact nfLoop_noAnyUsed J a rest (fun x hx => h x (by simp [hx]))

theorem uniteRets_clean_ne_err (aR : List Ty) (c : Ty) : uniteRets aR [] [] (some c) ≠ .err := by
  unfold uniteRets
  cases aR <;> simp

theorem uniteRets_any_ne_err {aR : List Ty} (h : aR ≠ []) : uniteRets aR [] [] none ≠ .err := by
  unfold uniteRets
  cases aR with
  | nil => exact absurd rfl h
  | cons x xs => simp; split <;> simp

/-- Without unions the call is diagnosed exactly when no overload accepts it. -/
theorem nfLoop_err_iff (J : Judge) (a : CallArgs) : ∀ (L : List OSig) (aR : List Ty),
    nfLoop J a L aR = .err ↔ (aR = [] ∧ ∀ s ∈ L, accepts J s a = false)
  | [], aR => by
    unfold nfLoop
    cases aR with
    | nil => simp
    | cons x xs =>
      simp only [List.isEmpty_cons, Bool.not_false, if_true]
      constructor
      · intro h; exact absurd h (uniteRets_any_ne_err (by simp))
      · intro h; simp at h
  | s :: rest, aR => by
    unfold nfLoop
    by_cases hacc : accepts J s a = true
    · by_cases hua : usedAnyIn J s a = true
      · simp only [hacc, hua, Bool.not_true, if_true, Bool.false_eq_true, if_false]
        rw [nfLoop_err_iff J a rest]
        constructor
        · intro h; simp at h
        · intro h; have := h.2 s (by simp); simp [hacc] at this
      · simp only [hacc, hua, Bool.not_true, Bool.false_eq_true, if_false]
        constructor
        · intro h; exact absurd h (uniteRets_clean_ne_err aR s.ret)
        · intro h; have := h.2 s (by simp); simp [hacc] at this
    · have hacc' : accepts J s a = false := by simpa using hacc
      simp only [hacc', Bool.not_false, if_true]
      rw [nfLoop_err_iff J a rest]
      simp [hacc']

/-- The Any rule on the normal form: once an Any-match is pending, a later accepting overload with a
different return type (or an already collected different return type) forces
`Any[multiple_overload_matches]`. -/
theorem nfLoop_anyMulti (J : Judge) (a : CallArgs) (h0 : Ty) : ∀ (L : List OSig) (t : List Ty),
    ((∃ x ∈ t, deq h0 x = false) ∨ (∃ s ∈ L, accepts J s a = true ∧ deq h0 s.ret = false)) →
    nfLoop J a L (h0 :: t) = .anyMulti
  | [], t, h => by
    rcases h with ⟨x, hx, hd⟩ | ⟨s, hs, _⟩
    · unfold nfLoop uniteRets
      have hlen : (dedup [] (h0 :: t)).length ≠ 1 := by
        intro hl
        have h1 : dedup [] (h0 :: t) = dedup [h0] t := by simp [dedup, dictMem]
        rw [h1] at hl
        have := dedup_len_one t hl x hx
        simp [hd] at this
      simp [hlen]
    · simp at hs
  | s :: rest, t, h => by
    unfold nfLoop
    by_cases hacc : accepts J s a = true
    · by_cases hua : usedAnyIn J s a = true
      · simp only [hacc, hua, Bool.not_true, if_true, Bool.false_eq_true, if_false]
        rw [show h0 :: t ++ [s.ret] = h0 :: (t ++ [s.ret]) from rfl]
        apply nfLoop_anyMulti J a h0 rest
        rcases h with ⟨x, hx, hd⟩ | ⟨s2, hs2, ha2, hd2⟩
        · exact Or.inl ⟨x, by simp [hx], hd⟩
        · rcases List.mem_cons.mp hs2 with rfl | hs2
          · exact Or.inl ⟨s2.ret, by simp, hd2⟩
          · exact Or.inr ⟨s2, hs2, ha2, hd2⟩
      · simp only [hacc, hua, Bool.not_true, Bool.false_eq_true, if_false]
        simp [uniteRets]
    · have hacc' : accepts J s a = false := by simpa using hacc
      simp only [hacc', Bool.not_false, if_true]
      apply nfLoop_anyMulti J a h0 rest
      rcases h with h | ⟨s2, hs2, ha2, hd2⟩
      · exact Or.inl h
      · rcases List.mem_cons.mp hs2 with rfl | hs2
        · simp [hacc'] at ha2
        · exact Or.inr ⟨s2, hs2, ha2, hd2⟩

/-- Skipping the overloads before the first accepting one. -/
theorem nfLoop_skip (J : Judge) (a : CallArgs) : ∀ (L : List OSig) (s1 : OSig) (more : List OSig),
    L.filter (accepts J · a) = s1 :: more →
    ∃ rest, nfLoop J a L [] = (if usedAnyIn J s1 a then nfLoop J a rest [s1.ret] else uniteRets [] [] [] (some s1.ret))
      ∧ rest.filter (accepts J · a) = more
  | [], _, _, h => by simp at h
  | s :: rest, s1, more, h => by
    by_cases hacc : accepts J s a = true
    · simp only [List.filter_cons, hacc, if_true, List.cons.injEq] at h
      obtain ⟨rfl, hm⟩ := h
      refine ⟨rest, ?_, hm⟩
      rw [nfLoop.eq_2]
      simp [hacc]
    · have hacc' : accepts J s a = false := by simpa using hacc
      simp only [List.filter_cons, hacc'] at h
      obtain ⟨r, hr, hm⟩ := nfLoop_skip J a rest s1 more (by simpa using h)
      refine ⟨r, ?_, hm⟩
      rw [nfLoop.eq_2]
      simp only [hacc', Bool.not_false, if_true]
      exact hr

/-! ## D. one union argument -/

/-! ### replacing the value at one position of the call -/

theorem actual_setAt (a : CallArgs) (slot : Pos) (v : Ty) : (a.setAt slot v).actual = a.actual := by
  cases slot with
  | idx i => simp [CallArgs.setAt, CallArgs.actual, List.map_const']
  | kw n =>
    simp only [CallArgs.setAt, CallArgs.actual, List.map_map]
    congr 1
    apply List.map_congr_left
    intro k _
    by_cases h : k.1 = n <;> simp [h]
  | _ => rfl

theorem bind_setAt (s : OSig) (a : CallArgs) (slot : Pos) (v : Ty) : s.bind (a.setAt slot v) = s.bind a := by
  simp [OSig.bind, actual_setAt]

theorem setAt_setAt (a : CallArgs) (slot : Pos) (v r : Ty) : (a.setAt slot v).setAt slot r = a.setAt slot r := by
  cases slot with
  | idx i => simp [CallArgs.setAt, List.set_set]
  | kw n =>
    simp only [CallArgs.setAt, List.map_map]
    congr 1
    apply List.map_congr_left
    intro k _
    by_cases h : k.1 = n <;> simp [h]
  | _ => rfl

theorem find_map_ne (n n' : String) (v : Ty) (hne : n' ≠ n) : ∀ (kws : List (String × Ty)),
    ((kws.map fun k => if k.1 == n then (k.1, v) else k).find? (·.1 == n')).map (·.2) = (kws.find? (·.1 == n')).map (·.2)
  | [] => rfl
  | k :: ks => by
    have ih := find_map_ne n n' v hne ks
    simp only [List.map_cons, List.find?_cons]
    by_cases h : k.1 = n
    · have h2 : (k.1 == n') = false := by simp [h, Ne.symm hne]
      simp only [h, beq_self_eq_true, if_true] at h2 ⊢
      simp only [h2]
      exact ih
    · have hb : (k.1 == n) = false := by simp [h]
      simp only [hb, Bool.false_eq_true, if_false]
      by_cases h3 : (k.1 == n') = true
      · simp [h3]
      · have h3' : (k.1 == n') = false := by simpa using h3
        simp only [h3']; exact ih

theorem find_map_self (n : String) (v : Ty) : ∀ (kws : List (String × Ty)), (kws.find? (·.1 == n)).isSome = true →
    ((kws.map fun k => if k.1 == n then (k.1, v) else k).find? (·.1 == n)).map (·.2) = some v
  | [], h => by simp at h
  | k :: ks, h => by
    simp only [List.map_cons, List.find?_cons] at h ⊢
    by_cases h1 : (k.1 == n) = true
    · simp [h1]
    · have h1' : (k.1 == n) = false := by simpa using h1
      simp only [h1', Bool.false_eq_true, if_false] at h ⊢
      exact find_map_self n v ks h

theorem entryVal_setAt_ne (a : CallArgs) (b : List (String × Pos)) (p : OParam) (slot pos : Pos) (v : Ty)
    (hne : pos ≠ slot) (hpack : pos = .args → ∀ i, slot = .idx i → i < idxCount b) :
    entryVal (a.setAt slot v) b p pos = entryVal a b p pos := by
  cases slot with
  | idx i =>
    cases pos with
    | idx j =>
      have : i ≠ j := fun h => hne (by rw [h])
      simp [entryVal, CallArgs.setAt, List.getElem?_set_ne this]
    | kw n => simp [entryVal, CallArgs.setAt, CallArgs.kwVal]
    | args => simp [entryVal, CallArgs.setAt, List.drop_set_of_lt (hpack rfl i rfl)]
    | _ => simp [entryVal]
  | kw n =>
    cases pos with
    | idx j => simp [entryVal, CallArgs.setAt]
    | kw n' =>
      have : n' ≠ n := fun h => hne (by rw [h])
      simp only [entryVal, CallArgs.kwVal, CallArgs.setAt]
      exact find_map_ne n n' v this a.kws
    | args => simp [entryVal, CallArgs.setAt]
    | _ => simp [entryVal]
  | _ => simp [CallArgs.setAt]

theorem entryVal_setAt_self (a : CallArgs) (b : List (String × Pos)) (p : OParam) (slot : Pos) (u v : Ty)
    (hu : a.get slot = some u) : entryVal (a.setAt slot v) b p slot = some v := by
  cases slot with
  | idx i =>
    simp only [CallArgs.get] at hu
    have hlt : i < a.pos.length := (List.getElem?_eq_some_iff.mp hu).1
    simp [entryVal, CallArgs.setAt, List.getElem?_set_self hlt]
  | kw n =>
    simp only [CallArgs.get, CallArgs.kwVal] at hu
    have : (a.kws.find? (·.1 == n)).isSome = true := by
      cases h : a.kws.find? (·.1 == n) <;> simp_all
    simp only [entryVal, CallArgs.kwVal, CallArgs.setAt]
    exact find_map_self n v a.kws this
  | _ => simp [CallArgs.get] at hu

/-- At most one element satisfies `p`: the list splits around it. -/
theorem split_once {α : Type} (p : α → Bool) : ∀ (l : List α), (l.filter p).length ≤ 1 →
    (∀ x ∈ l, p x = false) ∨
    ∃ pre x post, l = pre ++ x :: post ∧ p x = true ∧ (∀ y ∈ pre, p y = false) ∧ (∀ y ∈ post, p y = false)
  | [], _ => Or.inl (by simp)
  | y :: ys, h => by
    by_cases hy : p y = true
    · simp only [List.filter_cons, hy, if_true, List.length_cons] at h
      have h0 : ys.filter p = [] := List.eq_nil_of_length_eq_zero (by omega)
      have hall : ∀ z ∈ ys, p z = false := by
        intro z hz
        have := (List.filter_eq_nil_iff.mp h0) z hz
        simpa using this
      exact Or.inr ⟨[], y, ys, rfl, hy, by simp, hall⟩
    · have hy' : p y = false := by simpa using hy
      simp only [List.filter_cons, hy'] at h
      rcases split_once p ys (by simpa using h) with hall | ⟨pre, x, post, rfl, hx, hpre, hpost⟩
      · exact Or.inl (by intro z hz; rcases List.mem_cons.mp hz with rfl | hz; exact hy'; exact hall z hz)
      · refine Or.inr ⟨y :: pre, x, post, rfl, hx, ?_, hpost⟩
        intro z hz; rcases List.mem_cons.mp hz with rfl | hz
        · exact hy'
        · exact hpre z hz

/-! ### the value standing for the remaining members -/

theorem acc_valOf (J : Judge) (law : ∀ e bs, J.acc e (.union bs) = bs.all (J.acc e)) (P : Ty) :
    ∀ rs : List Ty, J.acc P (valOf rs) = rs.all (J.acc P)
  | [] => by simp [valOf, law]
  | [r] => by simp [valOf]
  | _ :: _ :: _ => by simp only [valOf, law]

theorem used_valOf (J : Judge) (law : ∀ e bs, J.used e (.union bs) = bs.any (J.used e)) (P : Ty) :
    ∀ rs : List Ty, J.used P (valOf rs) = rs.any (J.used P)
  | [] => by simp [valOf, law]
  | [r] => by simp [valOf]
  | _ :: _ :: _ => by simp only [valOf, law]

theorem distinct_filter {rs : List Ty} (h : DistinctTys rs) (p : Ty → Bool) : DistinctTys (rs.filter p) :=
  List.Pairwise.filter p h

/-- `decompose_union` on the value of a list of pairwise different non-union members. -/
theorem decompose_valOf (J : Judge) (P : Ty) (rs : List Ty) (hf : ∀ t ∈ rs, unionLike t = false)
    (hd : DistinctTys rs) :
    decompose J P (valOf rs) =
      if rs.length < 2 then none
      else if (rs.filter (J.acc P)).isEmpty then none
      else if (rs.filter fun m => !J.acc P m).isEmpty then none
      else some ((rs.filter (J.acc P)).any (J.used P), valOf (rs.filter fun m => !J.acc P m)) := by
  match rs, hf, hd with
  | [], _, _ => simp [valOf, decompose, unannot]
  | [r], hf, _ => simp [valOf, decompose_not_unionLike J P (hf r (by simp))]
  | r1 :: r2 :: rest, hf, hd =>
    have hu : unite ((r1 :: r2 :: rest).filter fun m => !J.acc P m) = valOf ((r1 :: r2 :: rest).filter fun m => !J.acc P m) :=
      unite_eq_valOf _ (fun t ht => hf t (List.mem_filter.mp ht).1) (distinct_filter hd _)
    have hl : ¬ ((r1 :: r2 :: rest).length < 2) := by simp
    simp only [valOf, decompose, unannot, hu, if_neg hl]

/-! ### the fold around the one task that sees the union -/

theorem foldl_good (J : Judge) (a : CallArgs) (ts : List (Pos × Option (Ty × Ty))) (st : ChkSt)
    (h : ∀ t ∈ ts, NoDec J t ∧ taskUsed J t = false) :
    ts.foldl (chkStep J a) st = { st with hadError := st.hadError || !(ts.all (taskAcc J)) } := by
  rw [foldl_noDec J a ts st (fun t ht => (h t ht).1)]
  have : ts.any (taskUsed J) = false := by
    simp only [List.any_eq_false]; intro t ht; simp [(h t ht).2]
  simp [this]

theorem mid_trichotomy (J : Judge) (a' : CallArgs) (slot : Pos) (preT postT : List (Pos × Option (Ty × Ty)))
    (hpre : ∀ t ∈ preT, NoDec J t ∧ taskUsed J t = false)
    (hpost : ∀ t ∈ postT, NoDec J t ∧ taskUsed J t = false)
    (lawA : ∀ e bs, J.acc e (.union bs) = bs.all (J.acc e))
    (lawU : ∀ e bs, J.used e (.union bs) = bs.any (J.used e))
    (P : Ty) (rs : List Ty) (hf : ∀ t ∈ rs, unionLike t = false) (hd : DistinctTys rs) (hne : rs ≠ [])
    (hused : ∀ m ∈ rs, J.used P m = false) (isOv : Bool) :
    let fin := (preT ++ (slot, some (P, valOf rs)) :: postT).foldl (chkStep J a') { isOv := isOv }
    let oth := preT.all (taskAcc J) && postT.all (taskAcc J)
    let rest := rs.filter fun m => !J.acc P m
    (fin.hadError = true ∧ ((oth = false ∨ ∀ m ∈ rs, J.acc P m = false) ∨ (isOv = false ∧ ∃ m ∈ rs, J.acc P m = false)))
    ∨ (fin.hadError = false ∧ fin.usedAny = false ∧ fin.newArgs = none ∧ oth = true ∧ ∀ m ∈ rs, J.acc P m = true)
    ∨ (isOv = true ∧ fin.hadError = false ∧ fin.usedAny = false ∧ fin.newArgs = some (a'.setAt slot (valOf rest))
        ∧ oth = true ∧ rest ≠ [] ∧ ∃ m ∈ rs, J.acc P m = true) := by
  intro fin oth rest
  have hfin : fin = (postT.foldl (chkStep J a')
      (chkStep J a' { hadError := !(preT.all (taskAcc J)), usedAny := false, newArgs := none, isOv := isOv }
        (slot, some (P, valOf rs)))) := by
    simp only [fin, List.foldl_append, List.foldl_cons, foldl_good J a' preT _ hpre]
    simp
  have hU : J.used P (valOf rs) = false := by
    rw [used_valOf J lawU]; simp only [List.any_eq_false]; intro m hm; simp [hused m hm]
  have hA := acc_valOf J lawA P rs
  by_cases hacc : J.acc P (valOf rs) = true
  · -- the whole remaining value is accepted
    have hall : ∀ m ∈ rs, J.acc P m = true := by rw [hA] at hacc; simpa using hacc
    have h2 : fin = { hadError := !oth, usedAny := false, newArgs := none, isOv := isOv } := by
      rw [hfin]; simp only [chkStep, hacc, if_true, hU]
      rw [foldl_good J a' postT _ hpost]; simp [oth, Bool.not_and]
    cases ho : oth with
    | true =>
      refine Or.inr (Or.inl ⟨?_, ?_, ?_, rfl, hall⟩)
      · rw [h2]; simp [ho]
      · rw [h2]
      · rw [h2]
    | false =>
      refine Or.inl ⟨?_, Or.inl (Or.inl rfl)⟩
      rw [h2]; simp [ho]
  · have hacc' : J.acc P (valOf rs) = false := by simpa using hacc
    have hsome : ∃ m ∈ rs, J.acc P m = false := by
      rw [hA] at hacc'
      simpa using hacc'
    cases hov : isOv with
    | false =>
      refine Or.inl ⟨?_, Or.inr ⟨rfl, hsome⟩⟩
      rw [hfin, hov]; simp only [chkStep, hacc', Bool.false_eq_true, if_false]
      rw [foldl_good J a' postT _ hpost]; simp
    | true =>
      have hdec := decompose_valOf J P rs hf hd
      by_cases hlen : rs.length < 2
      · -- a single member: nothing to decompose
        have hd0 : decompose J P (valOf rs) = none := by rw [hdec]; simp [hlen]
        refine Or.inl ⟨?_, Or.inl (Or.inr ?_)⟩
        · rw [hfin, hov]; simp only [chkStep, hacc', Bool.false_eq_true, if_false, if_true, hd0]
          rw [foldl_good J a' postT _ hpost]; simp
        · match rs, hne, hlen, hacc' with
          | [r], _, _, h => intro m hm; simp at hm; subst hm; simpa [valOf] using h
          | _ :: _ :: _, _, hl, _ => simp at hl; omega
      · by_cases hok : (rs.filter (J.acc P)).isEmpty = true
        · have hd0 : decompose J P (valOf rs) = none := by rw [hdec]; simp [hlen, hok]
          refine Or.inl ⟨?_, Or.inl (Or.inr ?_)⟩
          · rw [hfin, hov]; simp only [chkStep, hacc', Bool.false_eq_true, if_false, if_true, hd0]
            rw [foldl_good J a' postT _ hpost]; simp
          · intro m hm
            have := List.filter_eq_nil_iff.mp (List.isEmpty_iff.mp hok) m hm
            simpa using this
        · have hrest : rest ≠ [] := by
            obtain ⟨m, hm, hma⟩ := hsome
            intro h0
            have := List.filter_eq_nil_iff.mp h0 m hm
            simp [hma] at this
          have hrest' : (rs.filter fun m => !J.acc P m).isEmpty = false := by
            cases h : rs.filter (fun m => !J.acc P m) with
            | nil => exact absurd h hrest
            | cons _ _ => rfl
          have hany : (rs.filter (J.acc P)).any (J.used P) = false := by
            simp only [List.any_eq_false]; intro m hm; simp [hused m (List.mem_filter.mp hm).1]
          have hd1 : decompose J P (valOf rs) = some (false, valOf rest) := by
            rw [hdec]; simp [hlen, hok, hrest', hany, rest]
          have hexists : ∃ m ∈ rs, J.acc P m = true := by
            have : rs.filter (J.acc P) ≠ [] := by simpa [List.isEmpty_iff] using hok
            obtain ⟨m, hm⟩ := List.exists_mem_of_ne_nil _ this
            exact ⟨m, (List.mem_filter.mp hm).1, (List.mem_filter.mp hm).2⟩
          have h2 : fin = { hadError := !oth, usedAny := false,
                            newArgs := some (a'.setAt slot (valOf rest)), isOv := false } := by
            rw [hfin, hov]; simp only [chkStep, hacc', Bool.false_eq_true, if_false, if_true, hd1, Bool.or_false]
            rw [foldl_good J a' postT _ hpost]; simp [oth, Bool.not_and]
          cases ho : oth with
          | true =>
            refine Or.inr (Or.inr ⟨rfl, ?_, ?_, ?_, rfl, hrest, hexists⟩)
            · rw [h2]; simp [ho]
            · rw [h2]
            · rw [h2]
          | false =>
            refine Or.inl ⟨?_, Or.inl (Or.inl rfl)⟩
            rw [h2]; simp [ho]

/-! ### one overload, when one position of the call holds a union -/

/-- The base call `a` has a position `slot` (where the union of the pairwise different non-union
members `ms`, or a part of it, will be put); no other argument is a union; and the two laws of the
assignability judge on unions. -/
structure UnionCtx (J : Judge) (a : CallArgs) (slot : Pos) (ms : List Ty) : Prop where
  hU : ∃ u, a.get slot = some u
  flat : ∀ m ∈ ms, unionLike m = false
  dist : DistinctTys ms
  others : ∀ w ∈ (a.setAt slot (.typed 0)).vals, unionLike w = false
  lawAcc : ∀ e bs, J.acc e (.union bs) = bs.all (J.acc e)
  lawUsed : ∀ e bs, J.used e (.union bs) = bs.any (J.used e)

/-- One overload: the union position is bound at most once and not into the `*args` pack; no check
goes through Any. -/
structure SlotOK (J : Judge) (a : CallArgs) (slot : Pos) (ms : List Ty) (s : OSig) : Prop where
  once : ∀ b, s.bind a = some b → (b.filter fun e => e.2 == slot).length ≤ 1
  pack : ∀ b, s.bind a = some b → (∃ e ∈ b, e.2 = Pos.args) → ∀ i, slot = .idx i → i < idxCount b
  usedSlot : ∀ b, s.bind a = some b → ∀ e ∈ b, e.2 = slot → ∀ p, s.params.find? (·.name == e.1) = some p →
    ∀ m ∈ ms, J.used p.annot m = false
  usedOther : ∀ b, s.bind a = some b → ∀ e ∈ b, e.2 ≠ slot → e.2 ≠ Pos.dflt →
    ∀ p, s.params.find? (·.name == e.1) = some p →
    ∀ v, entryVal a b p e.2 = some v → J.used p.annot v = false

section slot
variable {J : Judge} {a : CallArgs} {slot : Pos} {ms : List Ty} {s : OSig}

theorem entryTask_setAt_ne (hs : SlotOK J a slot ms s) {b : List (String × Pos)} (hb : s.bind a = some b)
    {e : String × Pos} (he : e ∈ b) (hne : e.2 ≠ slot) (v : Ty) :
    entryTask s (a.setAt slot v) b e = entryTask s a b e := by
  unfold entryTask
  split
  · rfl
  · rw [entryVal_setAt_ne a b _ slot e.2 v hne (fun h => hs.pack b hb ⟨e, he, h⟩)]

theorem entryTask_setAt_self (C : UnionCtx J a slot ms) (b : List (String × Pos)) {e : String × Pos}
    (he : e.2 = slot) (v : Ty) :
    entryTask s (a.setAt slot v) b e = (s.params.find? (·.name == e.1)).map fun p => (p.annot, v) := by
  unfold entryTask
  split
  · rename_i h; simp [h]
  · rename_i p h
    obtain ⟨u, hu⟩ := C.hU
    rw [he, entryVal_setAt_self a b p slot u v hu]; simp [h]

theorem baseTask_good (C : UnionCtx J a slot ms) (hs : SlotOK J a slot ms s) {b : List (String × Pos)}
    (hb : s.bind a = some b) {e : String × Pos} (he : e ∈ b) (hne : e.2 ≠ slot) :
    NoDec J (e.2, entryTask s a b e) ∧ taskUsed J (e.2, entryTask s a b e) = false := by
  cases hf : s.params.find? (·.name == e.1) with
  | none =>
    have ht : entryTask s a b e = none := by simp [entryTask, hf]
    simp [NoDec, taskUsed, ht]
  | some p =>
    cases hv : entryVal a b p e.2 with
    | none =>
      have ht : entryTask s a b e = none := by simp [entryTask, hf, hv]
      simp [NoDec, taskUsed, ht]
    | some w =>
      have ht : entryTask s a b e = some (p.annot, w) := by simp [entryTask, hf, hv]
      have hw : unionLike w = false := by
        have h0 : entryVal (a.setAt slot (.typed 0)) b p e.2 = some w := by
          rw [entryVal_setAt_ne a b p slot e.2 _ hne (fun h => hs.pack b hb ⟨e, he, h⟩)]; exact hv
        rcases entryVal_cases h0 with h1 | ⟨xs, rfl⟩
        · exact C.others w h1
        · rfl
      refine ⟨?_, ?_⟩
      · simp only [NoDec, ht]
        intro _; exact decompose_not_unionLike J _ hw
      · by_cases hd : e.2 = Pos.dflt
        · simp [taskUsed, ht, hd]
        · have hu := hs.usedOther b hb e he hne hd p hf w hv
          simp [taskUsed, ht, hu]

theorem tasks_setAt_none (hs : SlotOK J a slot ms s) {b : List (String × Pos)} (hb : s.bind a = some b)
    (hnone : ∀ e ∈ b, (e.2 == slot) = false) (v : Ty) : tasks s (a.setAt slot v) b = tasks s a b := by
  unfold tasks
  apply List.map_congr_left
  intro e he
  have : e.2 ≠ slot := by simpa using hnone e he
  rw [entryTask_setAt_ne hs hb he this]

theorem tasks_setAt_split (C : UnionCtx J a slot ms) (hs : SlotOK J a slot ms s) {b pre post : List (String × Pos)}
    {x : String × Pos} (hb : s.bind a = some b) (hsplit : b = pre ++ x :: post) (hx : (x.2 == slot) = true)
    (hpre : ∀ y ∈ pre, (y.2 == slot) = false) (hpost : ∀ y ∈ post, (y.2 == slot) = false) (v : Ty) :
    tasks s (a.setAt slot v) b =
      pre.map (fun e => (e.2, entryTask s a b e)) ++
        (slot, (s.params.find? (·.name == x.1)).map fun p => (p.annot, v)) ::
        post.map (fun e => (e.2, entryTask s a b e)) := by
  have hx' : x.2 = slot := by simpa using hx
  subst hsplit
  unfold tasks
  rw [List.map_append, List.map_cons]
  congr 1
  · apply List.map_congr_left
    intro e he
    have hne : e.2 ≠ slot := by simpa using hpre e he
    rw [entryTask_setAt_ne hs hb (by simp [he]) hne]
  · congr 1
    · rw [entryTask_setAt_self C _ hx', hx']
    · apply List.map_congr_left
      intro e he
      have hne : e.2 ≠ slot := by simpa using hpost e he
      rw [entryTask_setAt_ne hs hb (by simp [he]) hne]

/-- **Trichotomy.** With the remaining members `rs` at the union position, an overload either fails
(then it accepts no remaining member — or it is the last overload and rejects at least one), or matches
cleanly (then it accepts every remaining member), or takes away exactly the members it accepts. -/
theorem checkOne_slot (C : UnionCtx J a slot ms) (hs : SlotOK J a slot ms s) (rs : List Ty)
    (hsub : rs.Sublist ms) (hne : rs ≠ []) (isOv : Bool) :
    let r := checkOne J s (a.setAt slot (valOf rs)) isOv
    let A := fun m => accepts J s (a.setAt slot m)
    let rest := rs.filter fun m => !A m
    (r.isError = true ∧ ((∀ m ∈ rs, A m = false) ∨ (isOv = false ∧ ∃ m ∈ rs, A m = false)))
    ∨ (r = ⟨false, false, none, s.ret⟩ ∧ ∀ m ∈ rs, A m = true)
    ∨ (isOv = true ∧ r = ⟨false, false, some (a.setAt slot (valOf rest)), s.ret⟩ ∧ rest ≠ [] ∧ ∃ m ∈ rs, A m = true) := by
  intro r A rest
  have hflat : ∀ t ∈ rs, unionLike t = false := fun t ht => C.flat t (hsub.subset ht)
  have hdist : DistinctTys rs := List.Pairwise.sublist hsub C.dist
  cases hb : s.bind a with
  | none =>
    refine Or.inl ⟨?_, Or.inl ?_⟩
    · simp [r, checkOne, bind_setAt, hb]
    · intro m _; simp [A, accepts, bind_setAt, hb]
  | some b =>
    have hr : r = ⟨((tasks s (a.setAt slot (valOf rs)) b).foldl (chkStep J (a.setAt slot (valOf rs))) { isOv := isOv }).hadError,
                   ((tasks s (a.setAt slot (valOf rs)) b).foldl (chkStep J (a.setAt slot (valOf rs))) { isOv := isOv }).usedAny,
                   ((tasks s (a.setAt slot (valOf rs)) b).foldl (chkStep J (a.setAt slot (valOf rs))) { isOv := isOv }).newArgs,
                   s.ret⟩ := by
      simp [r, checkOne, bind_setAt, hb]
    have hA : ∀ m, A m = (tasks s (a.setAt slot m) b).all (taskAcc J) := by
      intro m; simp [A, accepts_eq, bind_setAt, hb]
    rcases split_once (fun e : String × Pos => e.2 == slot) b (hs.once b hb) with hnone | ⟨pre, x, post, hsplit, hx, hpre, hpost⟩
    · -- the overload does not look at the union position at all
      have hgood : ∀ t ∈ tasks s a b, NoDec J t ∧ taskUsed J t = false := by
        intro t ht
        simp only [tasks, List.mem_map] at ht
        obtain ⟨e, he, rfl⟩ := ht
        exact baseTask_good C hs hb he (by simpa using hnone e he)
      have hA' : ∀ m, A m = (tasks s a b).all (taskAcc J) := by
        intro m; rw [hA, tasks_setAt_none hs hb hnone]
      rw [tasks_setAt_none hs hb hnone, foldl_good J _ _ _ hgood] at hr
      cases hall : (tasks s a b).all (taskAcc J) with
      | true =>
        refine Or.inr (Or.inl ⟨?_, fun m _ => by rw [hA', hall]⟩)
        rw [hr]; simp [hall]
      | false =>
        refine Or.inl ⟨?_, Or.inl (fun m _ => by rw [hA', hall])⟩
        rw [hr]; simp [hall]
    · have hpreG : ∀ t ∈ pre.map (fun e => (e.2, entryTask s a b e)), NoDec J t ∧ taskUsed J t = false := by
        intro t ht
        simp only [List.mem_map] at ht
        obtain ⟨e, he, rfl⟩ := ht
        exact baseTask_good C hs hb (by rw [hsplit]; simp [he]) (by simpa using hpre e he)
      have hpostG : ∀ t ∈ post.map (fun e => (e.2, entryTask s a b e)), NoDec J t ∧ taskUsed J t = false := by
        intro t ht
        simp only [List.mem_map] at ht
        obtain ⟨e, he, rfl⟩ := ht
        exact baseTask_good C hs hb (by rw [hsplit]; simp [he]) (by simpa using hpost e he)
      have hT := tasks_setAt_split C hs hb hsplit hx hpre hpost
      cases hfind : s.params.find? (·.name == x.1) with
      | none =>
        -- cannot happen for a bound parameter; the task is then empty
        have hgood : ∀ v, ∀ t ∈ tasks s (a.setAt slot v) b, NoDec J t ∧ taskUsed J t = false := by
          intro v t ht
          rw [hT v, hfind] at ht
          simp only [Option.map_none, List.mem_append, List.mem_cons] at ht
          rcases ht with ht | rfl | ht
          · exact hpreG t ht
          · simp [NoDec, taskUsed]
          · exact hpostG t ht
        have hconst : ∀ v w, (tasks s (a.setAt slot v) b).all (taskAcc J) = (tasks s (a.setAt slot w) b).all (taskAcc J) := by
          intro v w; rw [hT v, hT w, hfind]; simp [taskAcc]
        rw [foldl_good J _ _ _ (hgood _)] at hr
        cases hall : (tasks s (a.setAt slot (valOf rs)) b).all (taskAcc J) with
        | true =>
          refine Or.inr (Or.inl ⟨?_, fun m _ => by rw [hA, hconst m (valOf rs), hall]⟩)
          rw [hr]; simp [hall]
        | false =>
          refine Or.inl ⟨?_, Or.inl (fun m _ => by rw [hA, hconst m (valOf rs), hall])⟩
          rw [hr]; simp [hall]
      | some p =>
        have hx' : x.2 = slot := by simpa using hx
        have hused : ∀ m ∈ rs, J.used p.annot m = false := fun m hm =>
          hs.usedSlot b hb x (by rw [hsplit]; simp) hx' p hfind m (hsub.subset hm)
        have hAm : ∀ m, A m = ((pre.map (fun e => (e.2, entryTask s a b e))).all (taskAcc J) && J.acc p.annot m
            && (post.map (fun e => (e.2, entryTask s a b e))).all (taskAcc J)) := by
          intro m; rw [hA, hT m, hfind]; simp [taskAcc, Bool.and_assoc]
        have tri := mid_trichotomy J (a.setAt slot (valOf rs)) slot _ _ hpreG hpostG C.lawAcc C.lawUsed p.annot rs
          hflat hdist hne hused isOv
        rw [hT (valOf rs), hfind] at hr
        simp only [Option.map_some] at hr
        simp only [setAt_setAt] at tri
        rcases tri with ⟨h1, h2⟩ | ⟨h1, h2, h3, h4, h5⟩ | ⟨h0, h1, h2, h3, h4, h5, h6⟩
        · refine Or.inl ⟨by rw [hr]; exact h1, ?_⟩
          rcases h2 with (h2 | h2) | ⟨h2, m, hm, h3⟩
          · refine Or.inl fun m _ => ?_
            rw [hAm]
            simp only [Bool.and_eq_false_iff] at h2
            rcases h2 with h2 | h2 <;> simp [h2]
          · exact Or.inl fun m hm => by rw [hAm, h2 m hm]; simp
          · exact Or.inr ⟨h2, m, hm, by rw [hAm, h3]; simp⟩
        · refine Or.inr (Or.inl ⟨by rw [hr, h1, h2, h3], fun m hm => ?_⟩)
          rw [hAm, h5 m hm]
          simp only [Bool.and_eq_true] at h4
          simp [h4.1, h4.2]
        · have hAeq : ∀ m, A m = J.acc p.annot m := by
            intro m; rw [hAm]
            simp only [Bool.and_eq_true] at h4
            simp [h4.1, h4.2]
          have hrest : rest = rs.filter fun m => !J.acc p.annot m := by
            simp only [rest]; congr 1; funext m; rw [hAeq]
          refine Or.inr (Or.inr ⟨h0, by rw [hr, h1, h2, h3, hrest], by rw [hrest]; exact h5, ?_⟩)
          obtain ⟨m, hm, hma⟩ := h6
          exact ⟨m, hm, by rw [hAeq, hma]⟩

end slot

/-! ### the loop, when one position of the call holds a union -/

theorem uniteRets_union_clean (uR : List Ty) (c : Ty) : uniteRets [] [] uR (some c) = .ok (unite (uR ++ [c])) := by
  unfold uniteRets
  cases uR <;> simp

section loop
variable {J : Judge} {a : CallArgs} {slot : Pos} {ms : List Ty}

/-- **Acceptance.** If every remaining member is accepted by some remaining overload, the loop ends
with a type (no diagnostic, no `Any[multiple_overload_matches]`). -/
theorem ovLoop_union_accept (C : UnionCtx J a slot ms) : ∀ (L : List OSig) (rs uR : List Ty),
    (∀ s ∈ L, SlotOK J a slot ms s) → rs.Sublist ms → rs ≠ [] →
    (∀ m ∈ rs, ∃ s ∈ L, accepts J s (a.setAt slot m) = true) →
    ∃ T, ovLoop J L ⟨[], [], uR, a.setAt slot (valOf rs)⟩ = .ok T
  | [], rs, _, _, _, hne, hacc => by
    obtain ⟨m, hm⟩ := List.exists_mem_of_ne_nil rs hne
    obtain ⟨s, hs, _⟩ := hacc m hm
    simp at hs
  | s :: rest, rs, uR, hL, hsub, hne, hacc => by
    have tri := checkOne_slot C (hL s (by simp)) rs hsub hne (!rest.isEmpty)
    have hLr : ∀ s' ∈ rest, SlotOK J a slot ms s' := fun s' h => hL s' (by simp [h])
    rw [ovLoop]
    simp only [] at tri ⊢
    rcases tri with ⟨h1, h2⟩ | ⟨h1, h2⟩ | ⟨_, h1, h2, _⟩
    · simp only [h1, if_true]
      rcases h2 with h2 | ⟨h2, m, hm, h3⟩
      · apply ovLoop_union_accept C rest rs uR hLr hsub hne
        intro m hm
        obtain ⟨s', hs', ha'⟩ := hacc m hm
        rcases List.mem_cons.mp hs' with rfl | hs'
        · rw [h2 m hm] at ha'; simp at ha'
        · exact ⟨s', hs', ha'⟩
      · have : rest = [] := by simpa using h2
        subst this
        obtain ⟨s', hs', ha'⟩ := hacc m hm
        simp at hs'; subst hs'
        rw [h3] at ha'; simp at ha'
    · rw [h1]
      simp only [Bool.false_eq_true, if_false]
      exact ⟨_, uniteRets_union_clean uR s.ret⟩
    · rw [h1]
      simp only [Bool.false_eq_true, if_false]
      apply ovLoop_union_accept C rest _ (uR ++ [s.ret]) hLr
        ((List.filter_sublist).trans hsub) h2
      intro m hm
      have hm' := List.mem_filter.mp hm
      obtain ⟨s', hs', ha'⟩ := hacc m hm'.1
      rcases List.mem_cons.mp hs' with rfl | hs'
      · have := hm'.2; simp [ha'] at this
      · exact ⟨s', hs', ha'⟩

/-- **Containment.** The type the loop ends with is the `unite_values` of a list of return types
that contains, for every remaining member, the return type of the first remaining overload
accepting that member's own call (and everything collected so far). -/
theorem ovLoop_union_contains (C : UnionCtx J a slot ms) : ∀ (L : List OSig) (rs uR : List Ty),
    (∀ s ∈ L, SlotOK J a slot ms s) → rs.Sublist ms → rs ≠ [] →
    ∀ T, ovLoop J L ⟨[], [], uR, a.setAt slot (valOf rs)⟩ = .ok T →
    ∃ rets, T = unite rets ∧ (∀ x ∈ uR, x ∈ rets) ∧
      ∀ m ∈ rs, ∀ s1, L.find? (accepts J · (a.setAt slot m)) = some s1 → s1.ret ∈ rets
  | [], _, _, _, _, _, T, h => by simp [ovLoop] at h
  | s :: rest, rs, uR, hL, hsub, hne, T, h => by
    have tri := checkOne_slot C (hL s (by simp)) rs hsub hne (!rest.isEmpty)
    have hLr : ∀ s' ∈ rest, SlotOK J a slot ms s' := fun s' h => hL s' (by simp [h])
    rw [ovLoop] at h
    simp only [] at tri h
    rcases tri with ⟨h1, h2⟩ | ⟨h1, h2⟩ | ⟨_, h1, h2, _⟩
    · simp only [h1, if_true] at h
      rcases h2 with h2 | ⟨h2, _⟩
      · obtain ⟨rets, hT, hu, hm⟩ := ovLoop_union_contains C rest rs uR hLr hsub hne T h
        refine ⟨rets, hT, hu, fun m hmem s1 hf => hm m hmem s1 ?_⟩
        simpa [List.find?_cons, h2 m hmem] using hf
      · have : rest = [] := by simpa using h2
        subst this
        simp [ovLoop] at h
    · rw [h1] at h
      simp only [Bool.false_eq_true, if_false, uniteRets_union_clean, Res.ok.injEq] at h
      refine ⟨uR ++ [s.ret], h.symm, fun x hx => by simp [hx], fun m hmem s1 hf => ?_⟩
      simp only [List.find?_cons, h2 m hmem, Option.some.injEq] at hf
      subst hf; simp
    · rw [h1] at h
      simp only [Bool.false_eq_true, if_false] at h
      obtain ⟨rets, hT, hu, hm⟩ := ovLoop_union_contains C rest _ (uR ++ [s.ret]) hLr
        ((List.filter_sublist).trans hsub) h2 T h
      refine ⟨rets, hT, fun x hx => hu x (by simp [hx]), fun m hmem s1 hf => ?_⟩
      cases hA : accepts J s (a.setAt slot m) with
      | true =>
        simp only [List.find?_cons, hA, Option.some.injEq] at hf
        subst hf; exact hu _ (by simp)
      | false =>
        simp only [List.find?_cons, hA] at hf
        exact hm m (List.mem_filter.mpr ⟨hmem, by simp [hA]⟩) s1 hf

end loop

/-- `find?` for an accepting overload ignores the overloads that do not bind. -/
theorem find_accepts_filter (J : Judge) (a a' : CallArgs) (hact : a'.actual = a.actual) : ∀ (L : List OSig),
    (L.filter fun s => (s.bind a).isSome).find? (accepts J · a') = L.find? (accepts J · a')
  | [] => rfl
  | s :: rest => by
    by_cases hb : (s.bind a).isSome = true
    · simp only [List.filter_cons, hb, if_true, List.find?_cons, find_accepts_filter J a a' hact rest]
    · have hacc : accepts J s a' = false := by
        cases h : accepts J s a'
        · rfl
        · have := accepts_binds h
          simp only [OSig.bind, hact] at this hb
          exact absurd this hb
      simp only [List.filter_cons, hb, List.find?_cons, hacc]
      simpa using find_accepts_filter J a a' hact rest

theorem valOf_union {ms : List Ty} (h : 2 ≤ ms.length) : valOf ms = .union ms := by
  match ms, h with
  | _ :: _ :: _, _ => rfl

theorem firstMatch_eq (J : Judge) (sigs : List OSig) (a : CallArgs) :
    firstMatch J sigs a = match sigs.find? (accepts J · a) with | some s => .ok s.ret | none => .err := rfl

section top
variable {J : Judge} {a : CallArgs} {slot : Pos} {ms : List Ty}

theorem resolve_union_accept (C : UnionCtx J a slot ms) (h2 : 2 ≤ ms.length) (sigs : List OSig)
    (hS : ∀ s ∈ sigs, SlotOK J a slot ms s)
    (hacc : ∀ m ∈ ms, firstMatch J sigs (a.setAt slot m) ≠ .err) :
    ∃ T, resolve J sigs (a.setAt slot (.union ms)) = .ok T := by
  have hex : ∀ m ∈ ms, ∃ s ∈ sigs.filter (fun s => (s.bind a).isSome), accepts J s (a.setAt slot m) = true := by
    intro m hm
    have := hacc m hm
    rw [firstMatch_eq] at this
    cases hf : sigs.find? (accepts J · (a.setAt slot m)) with
    | none => simp [hf] at this
    | some s =>
      have hmem := List.mem_of_find?_eq_some hf
      have hs : accepts J s (a.setAt slot m) = true := by simpa using List.find?_some hf
      refine ⟨s, List.mem_filter.mpr ⟨hmem, ?_⟩, hs⟩
      have := accepts_binds hs
      rwa [bind_setAt] at this
  have hne : ms ≠ [] := by intro h; subst h; simp at h2
  unfold resolve
  simp only [bind_setAt]
  split
  · rename_i hemp
    obtain ⟨m, hm⟩ := List.exists_mem_of_ne_nil ms hne
    obtain ⟨s, hs, _⟩ := hex m hm
    rw [List.isEmpty_iff.mp hemp] at hs; simp at hs
  · rw [← valOf_union h2]
    exact ovLoop_union_accept C _ ms [] (fun s hs => hS s (List.mem_filter.mp hs).1) (List.Sublist.refl _) hne hex

theorem resolve_union_contains (C : UnionCtx J a slot ms) (h2 : 2 ≤ ms.length) (sigs : List OSig)
    (hS : ∀ s ∈ sigs, SlotOK J a slot ms s) (T : Ty)
    (hres : resolve J sigs (a.setAt slot (.union ms)) = .ok T) :
    ∃ rets, T = unite rets ∧ ∀ m ∈ ms, ∀ R, firstMatch J sigs (a.setAt slot m) = .ok R → R ∈ rets := by
  have hne : ms ≠ [] := by intro h; subst h; simp at h2
  unfold resolve at hres
  simp only [bind_setAt] at hres
  split at hres
  · simp at hres
  · rw [← valOf_union h2] at hres
    obtain ⟨rets, hT, _, hm⟩ := ovLoop_union_contains C _ ms [] (fun s hs => hS s (List.mem_filter.mp hs).1)
      (List.Sublist.refl _) hne T hres
    refine ⟨rets, hT, fun m hmem R hR => ?_⟩
    rw [firstMatch_eq] at hR
    cases hf : sigs.find? (accepts J · (a.setAt slot m)) with
    | none => simp [hf] at hR
    | some s1 =>
      simp only [hf, Res.ok.injEq] at hR
      subst hR
      apply hm m hmem s1
      rw [find_accepts_filter J a (a.setAt slot m) (actual_setAt a slot m)]
      exact hf

end top

/-! ## E. `ua` on flat annotations: only an `Any` in the argument can set the flag -/

def baseTy : Ty → Bool
  | .any | .union _ | .annotated _ => false
  | _ => true

theorem ua_annotated_right (tbl : ClassTable) (e t : Ty) : ua tbl e (.annotated t) = ua tbl e t := by
  cases e <;> simp [ua]

theorem uaAnyR_any (tbl : ClassTable) : ∀ bs, uaAnyR tbl .any bs = false
  | [] => by simp [uaAnyR]
  | b :: bs => by simp [uaAnyR, ua, uaAnyR_any tbl bs]

theorem ua_union_right (tbl : ClassTable) (e : Ty) (bs : List Ty) : ua tbl e (.union bs) = uaAnyR tbl e bs := by
  cases e <;> simp [ua, uaAnyR_any]

theorem uaAnyR_eq_any (tbl : ClassTable) (e : Ty) : ∀ bs, uaAnyR tbl e bs = bs.any (ua tbl e)
  | [] => by simp [uaAnyR]
  | b :: bs => by simp [uaAnyR, uaAnyR_eq_any tbl e bs]

theorem uaAnyL_eq_any (tbl : ClassTable) (a : Ty) : ∀ es, uaAnyL tbl es a = es.any (fun e => ua tbl e a)
  | [] => by simp [uaAnyL]
  | e :: es => by simp [uaAnyL, uaAnyL_eq_any tbl a es]

mutual
theorem ua_lift (tbl : ClassTable) (e : Ty) (hbase : ∀ v, baseTy v = true → ua tbl e v = false) :
    ∀ v, hasAny v = false → ua tbl e v = false
  | .annotated t, h => by
    rw [ua_annotated_right]; exact ua_lift tbl e hbase t (by simpa [hasAny] using h)
  | .union bs, h => by
    rw [ua_union_right]; exact ua_lift_list tbl e hbase bs (by simpa [hasAny] using h)
  | .any, h => by simp [hasAny] at h
  | .known _, _ => hbase _ rfl
  | .typed _, _ => hbase _ rfl
  | .newtype _ _, _ => hbase _ rfl
  | .generic _ _, _ => hbase _ rfl
  | .seq _ _, _ => hbase _ rfl
  | .many _, _ => hbase _ rfl
  | .subclass _, _ => hbase _ rfl
  | .tvar _, _ => hbase _ rfl
theorem ua_lift_list (tbl : ClassTable) (e : Ty) (hbase : ∀ v, baseTy v = true → ua tbl e v = false) :
    ∀ bs, hasAnyL bs = false → uaAnyR tbl e bs = false
  | [], _ => by simp [uaAnyR]
  | b :: bs, h => by
    simp only [hasAnyL, Bool.or_eq_false_iff] at h
    simp [uaAnyR, ua_lift tbl e hbase b h.1, ua_lift_list tbl e hbase bs h.2]
end

theorem ua_atomic_base (tbl : ClassTable) {e v : Ty} (he : atomicTy e = true) (hv : baseTy v = true) :
    ua tbl e v = false := by
  cases e <;> cases v <;> simp_all [ua, atomicTy, baseTy]

theorem ua_union_base (tbl : ClassTable) {es : List Ty} {v : Ty} (he : ∀ e ∈ es, atomicTy e = true)
    (hv : baseTy v = true) : ua tbl (.union es) v = false := by
  have h1 : ua tbl (.union es) v = uaAnyL tbl es v := by
    cases v <;> simp_all [ua, baseTy]
  rw [h1, uaAnyL_eq_any]
  simp only [List.any_eq_false]
  intro e hmem; simp [ua_atomic_base tbl (he e hmem) hv]

theorem ua_annotated_base (tbl : ClassTable) {t v : Ty} (ht : atomicTy t = true) (hv : baseTy v = true) :
    ua tbl (.annotated t) v = false := by
  have h1 : ua tbl (.annotated t) v = ua tbl t v := by
    cases v <;> simp_all [ua, baseTy]
  rw [h1]; exact ua_atomic_base tbl ht hv

/-- A flat annotation records "Any was used" only for an argument that mentions `Any`. -/
theorem ua_flat (tbl : ClassTable) {e v : Ty} (he : flatTy e = true) (hv : hasAny v = false) :
    ua tbl e v = false := by
  apply ua_lift tbl e _ v hv
  intro w hw
  cases e with
  | union es => exact ua_union_base tbl (by simpa [flatTy] using he) hw
  | annotated t => exact ua_annotated_base tbl (by simpa [flatTy] using he) hw
  | _ => exact ua_atomic_base tbl (by simpa [flatTy] using he) hw

theorem uaMems_flat (tbl : ClassTable) {T : Ty} (hT : flatTy T = true) :
    ∀ xs, hasAnyL xs = false → uaMems tbl T xs = false
  | [], _ => by simp [uaMems]
  | x :: xs, h => by
    simp only [hasAnyL, Bool.or_eq_false_iff] at h
    have ih := uaMems_flat tbl hT xs h.2
    cases x with
    | many n => simp [uaMems, ih, ua_flat tbl hT (by simpa [hasAny] using h.1)]
    | _ => simp [uaMems, ih, ua_flat tbl hT h.1]

theorem tupleSelf_eq {tbl : ClassTable} (h : TupleSelf tbl = true) : tbl.gbase C.tuple C.tuple = some [.param 0] := by
  unfold TupleSelf at h
  split at h
  · assumption
  · simp at h

/-- A non-empty `*args` pack without `Any` against `tuple[T, ...]`, `T` flat. -/
theorem ua_pack (tbl : ClassTable) (hself : TupleSelf tbl = true) {T : Ty} (hT : flatTy T = true)
    (x : Ty) (xs : List Ty) (h : hasAnyL (x :: xs) = false) :
    ua tbl (.generic C.tuple [T]) (.seq C.tuple (x :: xs)) = false := by
  have hm := uaMems_flat tbl hT (x :: xs) h
  simp [ua, theirArgs, tupleSelf_eq hself, instArgs, uaArgs, uaArg, hm]

/-! ## F. facts about the shared binder (`pyaBind`) for calls without star arguments -/

def entOK (p : Param) (e : String × Pos) : Prop :=
  e.1 = p.name ∧
  match p.kind with
  | .varPos => e.2 = .args ∨ e.2 = .dflt
  | .varKw => e.2 = .kwargs ∨ e.2 = .dflt
  | _ => (∃ i, e.2 = .idx i) ∨ e.2 = .kw p.name ∨ e.2 = .dflt

inductive Matches : List Param → List (String × Pos) → Prop
  | nil : Matches [] []
  | cons {p e ps es} : entOK p e → Matches ps es → Matches (p :: ps) (e :: es)

theorem Matches.names : ∀ {ps es}, Matches ps es → es.map (·.1) = ps.map (·.name)
  | _, _, .nil => rfl
  | _, _, .cons h t => by simp [h.1, t.names]

theorem Matches.mem : ∀ {ps es}, Matches ps es → ∀ e ∈ es, ∃ p ∈ ps, entOK p e
  | _, _, .nil, e, he => by simp at he
  | _, _, .cons h t, e, he => by
    rcases List.mem_cons.mp he with rfl | he
    · exact ⟨_, by simp, h⟩
    · obtain ⟨p, hp, hok⟩ := t.mem e he
      exact ⟨p, by simp [hp], hok⟩

theorem bindStep_ent (act : Actual) (hsa : act.starArgs = false) (hsk : act.starKw = false)
    (st st' : BindSt) (p : Param) (h : bindStep act st p = some st') :
    ∃ pos, st'.bound = st.bound ++ [(p.name, pos)] ∧ entOK p (p.name, pos) ∧ st.posIdx ≤ st'.posIdx ∧
      (∀ i, pos = .idx i → i = st.posIdx ∧ st'.posIdx = st.posIdx + 1) := by
  unfold bindStep at h
  cases hk : p.kind <;> simp only [hk, hsa, hsk] at h
  all_goals (repeat' split at h)
  all_goals (first | (simp at h; done) | skip)
  all_goals (simp only [Option.some.injEq] at h; subst h)
  all_goals (simp [entOK, hk, BindSt.bind])
  all_goals (first | omega | simp_all)

/-- The entries a fold of the binder appends: one per parameter, of the right family; positional
indices are handed out in increasing order. -/
theorem bindFold_ent (act : Actual) (hsa : act.starArgs = false) (hsk : act.starKw = false) :
    ∀ (ps : List Param) (st st' : BindSt), ps.foldlM (bindStep act) st = some st' →
    ∃ ents, st'.bound = st.bound ++ ents ∧ Matches ps ents ∧ st.posIdx ≤ st'.posIdx ∧
      (∀ e ∈ ents, ∀ i, e.2 = .idx i → st.posIdx ≤ i ∧ i < st'.posIdx) ∧
      (∀ i, (ents.filter fun e => e.2 == .idx i).length ≤ 1)
  | [], st, st', h => by
    simp only [List.foldlM_nil, Option.pure_def, Option.some.injEq] at h
    subst h
    exact ⟨[], by simp, Matches.nil, Nat.le_refl _, by simp, by simp⟩
  | p :: ps, st, st', h => by
    simp only [List.foldlM_cons, Option.bind_eq_bind] at h
    cases h1 : bindStep act st p with
    | none => simp [h1] at h
    | some st1 =>
      simp only [h1, Option.bind_some] at h
      obtain ⟨pos, hb1, hok, hle1, hidx⟩ := bindStep_ent act hsa hsk st st1 p h1
      obtain ⟨ents, hb2, hall, hle2, hrange, hone⟩ := bindFold_ent act hsa hsk ps st1 st' h
      refine ⟨(p.name, pos) :: ents, by rw [hb2, hb1]; simp, Matches.cons hok hall, Nat.le_trans hle1 hle2, ?_, ?_⟩
      · intro e he i hi
        rcases List.mem_cons.mp he with rfl | he
        · obtain ⟨h3, h4⟩ := hidx i hi
          omega
        · have := hrange e he i hi; omega
      · intro i
        by_cases hp : pos = .idx i
        · obtain ⟨h3, h4⟩ := hidx i hp
          have hnone : ents.filter (fun e => e.2 == .idx i) = [] := by
            apply List.filter_eq_nil_iff.mpr
            intro e he hcon
            have : e.2 = .idx i := by simpa using hcon
            have := hrange e he i this
            omega
          simp [hp, hnone]
        · have : ((p.name, pos).2 == Pos.idx i) = false := by simpa using hp
          simp only [List.filter_cons, this]
          exact hone i

theorem bind_ents {s : OSig} {a : CallArgs} {b : List (String × Pos)} (hb : s.bind a = some b) :
    Matches s.shape b ∧ ∀ i, (b.filter fun e => e.2 == .idx i).length ≤ 1 := by
  unfold OSig.bind pyaBind at hb
  cases hf : s.shape.foldlM (bindStep a.actual) ({} : BindSt) with
  | none => simp [hf] at hb
  | some st' =>
    simp only [hf, Option.bind_some] at hb
    have hbd : b = st'.bound := by
      unfold bindFinish at hb
      repeat' split at hb
      all_goals simp_all
    obtain ⟨ents, h1, h2, _, _, h5⟩ := bindFold_ent a.actual rfl rfl s.shape {} st' hf
    have : b = ents := by rw [hbd, h1]; rfl
    subst this
    exact ⟨h2, h5⟩

theorem shape_names (s : OSig) : s.shape.map (·.name) = s.params.map (·.name) := by
  simp [OSig.shape, List.map_map, Function.comp_def]

theorem filter_length_mono {α : Type} (p q : α → Bool) : ∀ (l : List α), (∀ x ∈ l, p x = true → q x = true) →
    (l.filter p).length ≤ (l.filter q).length
  | [], _ => by simp
  | x :: xs, h => by
    have ih := filter_length_mono p q xs (fun y hy => h y (by simp [hy]))
    by_cases hp : p x = true
    · have hq := h x (by simp) hp
      simp [hp, hq, ih]
    · have hp' : p x = false := by simpa using hp
      by_cases hq : q x = true
      · simp [hp', hq]; omega
      · have hq' : q x = false := by simpa using hq
        simp [hp', hq', ih]

theorem nodup_filter_le_one {α : Type} (f : α → String) (n : String) : ∀ (l : List α), (l.map f).Nodup →
    (l.filter fun x => f x == n).length ≤ 1
  | [], _ => by simp
  | x :: xs, h => by
    simp only [List.map_cons, List.nodup_cons] at h
    have ih := nodup_filter_le_one f n xs h.2
    by_cases hx : f x = n
    · have hnone : xs.filter (fun y => f y == n) = [] := by
        apply List.filter_eq_nil_iff.mpr
        intro y hy hcon
        have : f y = n := by simpa using hcon
        exact h.1 (by rw [hx, ← this]; exact List.mem_map_of_mem hy)
      simp [hx, hnone]
    · have : (f x == n) = false := by simpa using hx
      simp only [List.filter_cons, this]
      exact ih

theorem nodup_map_inj {α : Type} (f : α → String) : ∀ (l : List α), (l.map f).Nodup →
    ∀ x ∈ l, ∀ y ∈ l, f x = f y → x = y
  | [], _, x, hx, _, _, _ => by simp at hx
  | z :: zs, h, x, hx, y, hy, hxy => by
    simp only [List.map_cons, List.nodup_cons] at h
    rcases List.mem_cons.mp hx with hxz | hx' <;> rcases List.mem_cons.mp hy with hyz | hy'
    · rw [hxz, hyz]
    · exact absurd (by rw [← hxz, hxy]; exact List.mem_map_of_mem hy') h.1
    · exact absurd (by rw [← hyz, ← hxy]; exact List.mem_map_of_mem hx') h.1
    · exact nodup_map_inj f zs h.2 x hx' y hy' hxy

/-- The entry of a bound parameter lies in the family of positions its kind allows. -/
theorem entry_kind {s : OSig} {a : CallArgs} {b : List (String × Pos)} (hb : s.bind a = some b)
    (hnd : (s.params.map (·.name)).Nodup) {e : String × Pos} (he : e ∈ b) {p : OParam}
    (hf : s.params.find? (·.name == e.1) = some p) :
    match p.kind with
    | .varPos => e.2 = .args ∨ e.2 = .dflt
    | .varKw => e.2 = .kwargs ∨ e.2 = .dflt
    | _ => (∃ i, e.2 = .idx i) ∨ e.2 = .kw p.name ∨ e.2 = .dflt := by
  obtain ⟨q, hq, hok⟩ := (bind_ents hb).1.mem e he
  simp only [OSig.shape, List.mem_map] at hq
  obtain ⟨p', hp', rfl⟩ := hq
  have hpm := List.mem_of_find?_eq_some hf
  have hpn : p.name = e.1 := by simpa using List.find?_some hf
  have : p = p' := nodup_map_inj (·.name) s.params hnd p hpm p' hp' (by rw [hpn, hok.1])
  subst this
  exact hok.2

theorem bind_once {s : OSig} {a : CallArgs} {b : List (String × Pos)} (hb : s.bind a = some b)
    (hnd : (s.params.map (·.name)).Nodup) (slot : Pos) (hslot : (∃ i, slot = .idx i) ∨ ∃ n, slot = .kw n) :
    (b.filter fun e => e.2 == slot).length ≤ 1 := by
  rcases hslot with ⟨i, rfl⟩ | ⟨n, rfl⟩
  · exact (bind_ents hb).2 i
  · have hm := (bind_ents hb).1
    have hnames : (b.map (·.1)).Nodup := by rw [hm.names, shape_names]; exact hnd
    refine Nat.le_trans (filter_length_mono _ (fun e => e.1 == n) b ?_) (nodup_filter_le_one (·.1) n b hnames)
    intro e he hkw
    have hkw' : e.2 = .kw n := by simpa using hkw
    obtain ⟨q, _, hok⟩ := hm.mem e he
    have h2 := hok.2
    rw [hkw'] at h2
    cases hk : q.kind <;> simp [hk] at h2 <;> simp [hok.1, h2]

theorem bindStep_pos (act : Actual) (hsa : act.starArgs = false) (hsk : act.starKw = false)
    (st st' : BindSt) (p : Param) (h : bindStep act st p = some st') :
    ∃ pos, st'.bound = st.bound ++ [(p.name, pos)] ∧
      ((∃ i, pos = .idx i ∧ st.posIdx < act.pos.length ∧ st'.posIdx = st.posIdx + 1) ∨
       (pos = .args ∧ st.posIdx < act.pos.length ∧ act.pos.length ≤ st'.posIdx) ∨
       ((∀ i, pos ≠ .idx i) ∧ pos ≠ .args ∧ st'.posIdx = st.posIdx)) := by
  unfold bindStep at h
  cases hk : p.kind <;> simp only [hk, hsa, hsk] at h
  all_goals (repeat' split at h)
  all_goals (first | (simp at h; done) | skip)
  all_goals (simp only [Option.some.injEq] at h; subst h)
  all_goals (simp [BindSt.bind])
  all_goals (first | omega | (simp_all; done) | (simp_all; omega) | exact Nat.le_max_right _ _)

theorem idxCount_snoc (b : List (String × Pos)) (n : String) (pos : Pos) :
    idxCount (b ++ [(n, pos)]) = idxCount b + (if isIdx pos then 1 else 0) := by
  simp only [idxCount, List.filter_append, List.length_append]
  cases h : isIdx pos <;> simp [h]

def PackInv (len : Nat) (st : BindSt) : Prop :=
  (st.posIdx < len → idxCount st.bound = st.posIdx) ∧
  ((∃ e ∈ st.bound, e.2 = Pos.args) → len ≤ st.posIdx ∧ idxCount st.bound < len)

theorem packInv_step (act : Actual) (hsa : act.starArgs = false) (hsk : act.starKw = false)
    (st st' : BindSt) (p : Param) (h : bindStep act st p = some st') (hi : PackInv act.pos.length st) :
    PackInv act.pos.length st' := by
  obtain ⟨pos, hb, hcase⟩ := bindStep_pos act hsa hsk st st' p h
  obtain ⟨h1, h2⟩ := hi
  have hargs : (∃ e ∈ st'.bound, e.2 = Pos.args) ↔ ((∃ e ∈ st.bound, e.2 = Pos.args) ∨ pos = .args) := by
    rw [hb]; constructor
    · rintro ⟨e, he, hea⟩
      rcases List.mem_append.mp he with he | he
      · exact Or.inl ⟨e, he, hea⟩
      · simp at he; subst he; exact Or.inr hea
    · rintro (⟨e, he, hea⟩ | hp)
      · exact ⟨e, by simp [he], hea⟩
      · exact ⟨(p.name, pos), by simp, hp⟩
  rcases hcase with ⟨i, rfl, hlt, hpi⟩ | ⟨rfl, hlt, hge⟩ | ⟨hni, hna, hpi⟩
  · have hc : idxCount st'.bound = idxCount st.bound + 1 := by rw [hb, idxCount_snoc]; simp [isIdx]
    refine ⟨fun _ => by rw [hc, h1 hlt, hpi], ?_⟩
    rw [hargs]
    rintro (hex | hp)
    · have := (h2 hex).1; omega
    · cases hp
  · have hc : idxCount st'.bound = idxCount st.bound := by rw [hb, idxCount_snoc]; simp [isIdx]
    refine ⟨fun hl => by omega, fun _ => ⟨hge, by rw [hc, h1 hlt]; exact hlt⟩⟩
  · have hc : idxCount st'.bound = idxCount st.bound := by
      rw [hb, idxCount_snoc]
      cases pos <;> simp_all [isIdx]
    refine ⟨fun hl => by rw [hc, hpi]; exact h1 (by omega), ?_⟩
    rw [hargs, hc, hpi]
    rintro (hex | hp)
    · exact h2 hex
    · exact absurd hp hna

theorem packInv_fold (act : Actual) (hsa : act.starArgs = false) (hsk : act.starKw = false) :
    ∀ (ps : List Param) (st st' : BindSt), ps.foldlM (bindStep act) st = some st' →
      PackInv act.pos.length st → PackInv act.pos.length st'
  | [], st, st', h, hi => by
    simp only [List.foldlM_nil, Option.pure_def, Option.some.injEq] at h; subst h; exact hi
  | p :: ps, st, st', h, hi => by
    simp only [List.foldlM_cons, Option.bind_eq_bind] at h
    cases h1 : bindStep act st p with
    | none => simp [h1] at h
    | some st1 =>
      simp only [h1, Option.bind_some] at h
      exact packInv_fold act hsa hsk ps st1 st' h (packInv_step act hsa hsk st st1 p h1 hi)

/-- An `*args` entry exists only when some positional is left for the pack. -/
theorem bind_args_nonempty {s : OSig} {a : CallArgs} {b : List (String × Pos)} (hb : s.bind a = some b)
    (hargs : ∃ e ∈ b, e.2 = Pos.args) : idxCount b < a.pos.length := by
  unfold OSig.bind pyaBind at hb
  cases hf : s.shape.foldlM (bindStep a.actual) ({} : BindSt) with
  | none => simp [hf] at hb
  | some st' =>
    simp only [hf, Option.bind_some] at hb
    have hbd : b = st'.bound := by
      unfold bindFinish at hb
      repeat' split at hb
      all_goals simp_all
    have hinv := packInv_fold a.actual rfl rfl s.shape {} st' hf
      ⟨fun _ => by simp [idxCount], fun ⟨e, he, _⟩ => by simp at he⟩
    have hlen : a.actual.pos.length = a.pos.length := by simp [CallArgs.actual]
    rw [hbd] at hargs ⊢
    rw [← hlen]
    exact (hinv.2 hargs).2

/-! ## G. pyanalyze's judge (`liveJudge tbl`): side conditions from syntactic hypotheses -/

theorem hasAnyL_eq_any : ∀ ts, hasAnyL ts = ts.any hasAny
  | [] => rfl
  | t :: ts => by simp [hasAnyL, hasAnyL_eq_any ts]

theorem entryTask_some {s : OSig} {a : CallArgs} {b : List (String × Pos)} {e : String × Pos} {ann v : Ty}
    (h : entryTask s a b e = some (ann, v)) :
    ∃ p, s.params.find? (·.name == e.1) = some p ∧ entryVal a b p e.2 = some v ∧ ann = p.annot := by
  unfold entryTask at h
  split at h
  · simp at h
  · rename_i p hp
    cases hv : entryVal a b p e.2 with
    | none => simp [hv] at h
    | some w =>
      simp only [hv, Option.map_some, Option.some.injEq, Prod.mk.injEq] at h
      exact ⟨p, hp, by rw [hv, h.2], h.1.symm⟩

/-- Hypotheses on one overload for the syntactic theorems: flat annotations, distinct names, no
`**kwargs` parameter. -/
structure PlainSig (s : OSig) : Prop where
  flat : ∀ p ∈ s.params, flatTy p.ty = true
  nodup : (s.params.map (·.name)).Nodup
  noVarKw : ∀ p ∈ s.params, p.kind ≠ .varKw

/-- No check of a provided argument (or of a non-empty `*args` pack) goes through Any when no
argument mentions `Any`. -/
theorem task_ua_false (tbl : ClassTable) (hself : TupleSelf tbl = true) {s : OSig} (hs : PlainSig s)
    {a : CallArgs} (hnoAny : ∀ v ∈ a.vals, hasAny v = false) {b : List (String × Pos)}
    (hb : s.bind a = some b) {e : String × Pos} (he : e ∈ b) (hnd : e.2 ≠ Pos.dflt) {p : OParam}
    (hf : s.params.find? (·.name == e.1) = some p) {v : Ty} (hv : entryVal a b p e.2 = some v) :
    ua tbl p.annot v = false := by
  have hk := entry_kind hb hs.nodup he hf
  have hpm := List.mem_of_find?_eq_some hf
  have hpack : ∀ xs, v = .seq C.tuple xs → xs ≠ [] → (∀ x ∈ xs, x ∈ a.pos) →
      ua tbl (.generic C.tuple [p.ty]) v = false := by
    intro xs hx hne hsub
    subst hx
    cases xs with
    | nil => exact absurd rfl hne
    | cons x xs =>
      apply ua_pack tbl hself (hs.flat p hpm)
      rw [hasAnyL_eq_any]
      simp only [List.any_eq_false]
      intro y hy
      have : y ∈ a.vals := by simp only [CallArgs.vals, List.mem_append]; exact Or.inl (hsub y hy)
      simp [hnoAny y this]
  have hplain : v ∈ a.vals → ua tbl p.ty v = false := fun hmem => ua_flat tbl (hs.flat p hpm) (hnoAny v hmem)
  cases hkind : p.kind with
  | varKw => exact absurd hkind (hs.noVarKw p hpm)
  | varPos =>
    simp only [hkind] at hk
    have hann : p.annot = .generic C.tuple [p.ty] := by simp [OParam.annot, hkind]
    rw [hann]
    rcases hk with hk | hk
    · have hlt := bind_args_nonempty hb ⟨e, he, hk⟩
      rw [hk] at hv; simp only [entryVal, Option.some.injEq] at hv
      refine hpack _ hv.symm ?_ (fun x hx => List.mem_of_mem_drop hx)
      intro h0
      have := congrArg List.length h0
      simp only [List.length_drop, List.length_nil] at this
      omega
    · exact absurd hk hnd
  | posOnly =>
    simp only [hkind] at hk
    have hann : p.annot = p.ty := by simp [OParam.annot, hkind]
    rw [hann]
    rcases hk with ⟨i, hk⟩ | hk | hk
    · rw [hk] at hv; exact hplain (by
        simp only [entryVal] at hv
        simp only [CallArgs.vals, List.mem_append]; exact Or.inl (List.mem_of_getElem? hv))
    · rw [hk] at hv; exact hplain (kwVal_mem hv)
    · rw [hk] at hv; simp [entryVal, hkind] at hv
  | posOrKw =>
    simp only [hkind] at hk
    have hann : p.annot = p.ty := by simp [OParam.annot, hkind]
    rw [hann]
    rcases hk with ⟨i, hk⟩ | hk | hk
    · rw [hk] at hv; exact hplain (by
        simp only [entryVal] at hv
        simp only [CallArgs.vals, List.mem_append]; exact Or.inl (List.mem_of_getElem? hv))
    · rw [hk] at hv; exact hplain (kwVal_mem hv)
    · rw [hk] at hv; simp [entryVal, hkind] at hv
  | kwOnly =>
    simp only [hkind] at hk
    have hann : p.annot = p.ty := by simp [OParam.annot, hkind]
    rw [hann]
    rcases hk with ⟨i, hk⟩ | hk | hk
    · rw [hk] at hv; exact hplain (by
        simp only [entryVal] at hv
        simp only [CallArgs.vals, List.mem_append]; exact Or.inl (List.mem_of_getElem? hv))
    · rw [hk] at hv; exact hplain (kwVal_mem hv)
    · rw [hk] at hv; simp [entryVal, hkind] at hv

theorem usedAnyIn_live_false (tbl : ClassTable) (hself : TupleSelf tbl = true) {s : OSig} (hs : PlainSig s)
    {a : CallArgs} (hnoAny : ∀ v ∈ a.vals, hasAny v = false) :
    usedAnyIn (liveJudge tbl) s a = false := by
  rw [usedAnyIn_eq]
  cases hb : s.bind a with
  | none => rfl
  | some b =>
    simp only [List.any_eq_false]
    intro t ht
    simp only [tasks, List.mem_map] at ht
    obtain ⟨e, he, rfl⟩ := ht
    cases htask : entryTask s a b e with
    | none => simp [taskUsed]
    | some av =>
      obtain ⟨ann, v⟩ := av
      obtain ⟨p, hf, hv, rfl⟩ := entryTask_some htask
      by_cases hd : e.2 = Pos.dflt
      · simp [taskUsed, hd]
      · have := task_ua_false tbl hself hs hnoAny hb he hd hf hv
        simp [taskUsed, liveJudge, this]

theorem vals_setAt {a : CallArgs} {slot : Pos} {v w : Ty} (h : w ∈ (a.setAt slot v).vals) : w = v ∨ w ∈ a.vals := by
  cases slot with
  | idx i =>
    simp only [CallArgs.setAt, CallArgs.vals, List.mem_append] at h ⊢
    rcases h with h | h
    · rcases List.mem_or_eq_of_mem_set h with h | h
      · exact Or.inr (Or.inl h)
      · exact Or.inl h
    · exact Or.inr (Or.inr h)
  | kw n =>
    simp only [CallArgs.setAt, CallArgs.vals, List.mem_append, List.mem_map] at h ⊢
    rcases h with h | ⟨k, ⟨k0, hk0, rfl⟩, rfl⟩
    · exact Or.inr (Or.inl h)
    · by_cases hn : k0.1 = n
      · simp [hn]
      · simp only [beq_iff_eq, hn, if_false]
        exact Or.inr (Or.inr ⟨k0, hk0, rfl⟩)
  | _ => exact Or.inr h

theorem unionCtx_live (tbl : ClassTable) {a : CallArgs} {slot : Pos} {ms : List Ty}
    (hvalid : (a.get slot).isSome = true) (hnu : NoUnion a = true)
    (hflat : ∀ m ∈ ms, unionLike m = false) (hdist : DistinctTys ms) :
    UnionCtx (liveJudge tbl) a slot ms where
  hU := by cases h : a.get slot with
    | none => simp [h] at hvalid
    | some u => exact ⟨u, rfl⟩
  flat := hflat
  dist := hdist
  others := by
    intro w hw
    rcases vals_setAt hw with rfl | hw
    · rfl
    · simp only [NoUnion, List.all_eq_true, Bool.not_eq_true'] at hnu
      exact hnu w hw
  lawAcc := by intro e bs; simp [liveJudge, ca_union_right, caAllR_eq_all]
  lawUsed := by intro e bs; simp [liveJudge, ua_union_right, uaAnyR_eq_any]

theorem slot_shape {a : CallArgs} {slot : Pos} (hvalid : (a.get slot).isSome = true) :
    (∃ i, slot = .idx i ∧ i < a.pos.length) ∨ ∃ n, slot = .kw n := by
  cases slot with
  | idx i =>
    simp only [CallArgs.get] at hvalid
    cases h : a.pos[i]? with
    | none => simp [h] at hvalid
    | some u => exact Or.inl ⟨i, rfl, (List.getElem?_eq_some_iff.mp h).1⟩
  | kw n => exact Or.inr ⟨n, rfl⟩
  | _ => simp [CallArgs.get] at hvalid

theorem slotOK_live (tbl : ClassTable) (hself : TupleSelf tbl = true) {s : OSig} (hs : PlainSig s)
    {a : CallArgs} {slot : Pos} {ms : List Ty} (hvalid : (a.get slot).isSome = true)
    (hnoAny : ∀ v ∈ a.vals, hasAny v = false) (hms : ∀ m ∈ ms, hasAny m = false)
    (hpack : unionInPack s (a.setAt slot (.union ms)) = false) :
    SlotOK (liveJudge tbl) a slot ms s where
  once := by
    intro b hb
    apply bind_once hb hs.nodup
    rcases slot_shape hvalid with ⟨i, h, _⟩ | ⟨n, h⟩
    · exact Or.inl ⟨i, h⟩
    · exact Or.inr ⟨n, h⟩
  pack := by
    intro b hb ⟨e, he, hargs⟩ i hi
    subst hi
    rcases slot_shape hvalid with ⟨i', h, hlt⟩ | ⟨n, h⟩
    · cases h
      unfold unionInPack at hpack
      rw [bind_setAt, hb] at hpack
      have hany : (b.any fun e => e.2 == Pos.args) = true := by
        simp only [List.any_eq_true]; exact ⟨e, he, by simp [hargs]⟩
      simp only [hany, Bool.true_and, CallArgs.setAt, List.any_eq_false] at hpack
      rcases Nat.lt_or_ge i (idxCount b) with hlt0 | hge'
      · exact hlt0
      exfalso
      have hlt' : i < (a.pos.set i (.union ms)).length := by simpa using hlt
      have hmem : (a.pos.set i (.union ms))[i] ∈ (a.pos.set i (.union ms)).drop (idxCount b) := by
        have hlt2 : i - idxCount b < ((a.pos.set i (.union ms)).drop (idxCount b)).length := by
          simp only [List.length_drop]; omega
        have : ((a.pos.set i (.union ms)).drop (idxCount b))[i - idxCount b] = (a.pos.set i (.union ms))[i] := by
          rw [List.getElem_drop]; congr 1; omega
        rw [← this]; exact List.getElem_mem hlt2
      have := hpack _ hmem
      simp [unionLike] at this
    · cases h
  usedSlot := by
    intro b hb e he hslot p hf m hm
    have hk := entry_kind hb hs.nodup he hf
    have hpm := List.mem_of_find?_eq_some hf
    have hann : p.annot = p.ty := by
      cases hkind : p.kind with
      | varPos =>
        simp only [hkind] at hk
        rcases slot_shape hvalid with ⟨i, h, _⟩ | ⟨n, h⟩ <;> rcases hk with hk | hk <;> rw [hslot, h] at hk <;> cases hk
      | _ => simp [OParam.annot, hkind]
    rw [hann]
    exact ua_flat tbl (hs.flat p hpm) (hms m hm)
  usedOther := by
    intro b hb e he _ hd p hf v hv
    exact task_ua_false tbl hself hs hnoAny hb he hd hf hv

theorem plainSig_of (sigs : List OSig) (h : PlainSigs sigs = true) : ∀ s ∈ sigs, PlainSig s := by
  intro s hs
  simp only [PlainSigs, FlatParams, NamesNodup, NoVarKw, Bool.and_eq_true, List.all_eq_true, decide_eq_true_eq,
    bne_iff_ne, ne_eq] at h
  exact ⟨h.1.1 s hs, h.1.2 s hs, h.2 s hs⟩

theorem noAny_vals {a : CallArgs} (h : NoAny a = true) : ∀ v ∈ a.vals, hasAny v = false := by
  simpa [NoAny] using h

/-! ### covering: what `unite_values` keeps -/

theorem dedup_cover : ∀ (vs acc : List Ty) (x : Ty), (x ∈ acc ∨ dictMem x acc = true ∨ x ∈ vs) →
    x ∈ dedup acc vs ∨ dictMem x (dedup acc vs) = true
  | [], acc, x, h => by
    simp only [dedup]
    rcases h with h | h | h
    · exact Or.inl h
    · exact Or.inr h
    · simp at h
  | v :: vs, acc, x, h => by
    unfold dedup
    split
    · rename_i hm
      apply dedup_cover vs acc x
      rcases h with h | h | h
      · exact Or.inl h
      · exact Or.inr (Or.inl h)
      · rcases List.mem_cons.mp h with rfl | h
        · exact Or.inr (Or.inl hm)
        · exact Or.inr (Or.inr h)
    · apply dedup_cover vs (acc ++ [v]) x
      rcases h with h | h | h
      · exact Or.inl (by simp [h])
      · refine Or.inr (Or.inl ?_)
        rw [dictMem_eq_any] at h ⊢
        simp only [List.any_append, h, Bool.true_or]
      · rcases List.mem_cons.mp h with rfl | h
        · exact Or.inl (by simp)
        · exact Or.inr (Or.inr h)

/-- The members `unite_values(*rets)` is made of. -/
def uniteMembers (rets : List Ty) : List Ty := dedup [] (rets.flatMap flatten1)

/-- Every alternative of every united type is kept, literally or as an equal dict key. -/
theorem unite_members_cover (rets : List Ty) (R : Ty) (hR : R ∈ rets) (x : Ty) (hx : x ∈ flatten1 R) :
    x ∈ uniteMembers rets ∨ dictMem x (uniteMembers rets) = true := by
  apply dedup_cover
  exact Or.inr (Or.inr (List.mem_flatMap.mpr ⟨R, hR, hx⟩))

/-! ## H. helpers of the property theorems: the live table, the witnesses' ingredients -/

theorem acc_emptyPack (tbl : ClassTable) (hself : TupleSelf tbl = true) (c : Cls) :
    ca tbl false (.generic C.tuple [.typed c]) (.seq C.tuple []) = true := by
  simp [ca, theirArgs, tupleSelf_eq hself, instArgs, caArgs, caArg]

/-- The root cause: the empty pack `SequenceValue(tuple, [])` has generic argument
`Any[unreachable]`, so `tuple[int, ...]` accepts it "through Any". -/
theorem used_emptyPack (tbl : ClassTable) (hself : TupleSelf tbl = true) (c : Cls) :
    ua tbl (.generic C.tuple [.typed c]) (.seq C.tuple []) = true := by
  simp [ua, theirArgs, tupleSelf_eq hself, instArgs, uaArgs, uaArg]

theorem tupleSelf_live : TupleSelf liveTable = true := by decide

theorem live_int_str : liveTable.nominal false C.int C.str = false ∧ liveTable.nominal false C.str C.int = false ∧
    liveTable.nominal false C.int C.int = true ∧ liveTable.nominal false C.str C.str = true := by decide

theorem slotOK_of (tbl : ClassTable) (hself : TupleSelf tbl = true) (sigs : List OSig) (a : CallArgs)
    (slot : Pos) (ms : List Ty) (hp : PlainSigs sigs = true) (h : OneUnion a slot ms)
    (hD2 : D08_unionInVarPos sigs (a.setAt slot (.union ms)) = false) :
    ∀ s ∈ sigs, SlotOK (liveJudge tbl) a slot ms s := by
  intro s hs
  have hu : unionInPack s (a.setAt slot (.union ms)) = false := by
    simp only [D08_unionInVarPos, List.any_eq_false] at hD2
    simpa using hD2 s hs
  exact slotOK_live tbl hself (plainSig_of sigs hp s hs) h.valid (noAny_vals h.noAny)
    (by simpa using h.anyFree) hu

theorem unionCtx_of (tbl : ClassTable) (a : CallArgs) (slot : Pos) (ms : List Ty) (h : OneUnion a slot ms) :
    UnionCtx (liveJudge tbl) a slot ms :=
  unionCtx_live tbl h.valid h.noUnion (by simpa using h.flat) h.distinct

end Pya.C08
